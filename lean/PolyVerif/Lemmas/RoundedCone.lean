/-
  Helper lemmas for the rounded cone of math/sdf/rounded_cone.go (`Gen.sdf.RoundedCone`, regenerated).

  Plan.  With `N = |b − a|²`, `L = √N`, `h = (p − a)·(b − a)/L` (axial coordinate), `ρ = √(|p − a|² − h²)` (distance
  from the axis), `s = (r1 − r2)/L`, `c = √(1 − s²)`, `ℓ = c·h − s·ρ`:

  1. `core`            : the closure body as a function of the four scalars `N, y = (p−a)·(b−a), x2, r1, r2` (definitional);
  2. `core_eq_profile` : the two branch tests are *exactly* `c·L < ℓ` and `ℓ < 0` (the map `x ↦ sign x · x² = x·|x|` is
                         strictly increasing, so no boundary case is lost), and the three results are the two sphere caps
                         and the slanted side;
  3. `profile_le` / `profile_attained` : the profile is the minimum over `τ ∈ [0, L]` of
                         `√((h − τ)² + ρ²) − (r1 − τ·s)`, i.e. of "distance to the axis point at `τ` minus the linearly
                         interpolated radius" — the minimiser is `τ = ℓ/c` clamped to `[0, L]`;
  4. in 3-D, `√((h − tL)² + ρ²)` is the distance from `p` to `a + t(b − a)`.

  Sign, zero set and the 1-Lipschitz bound (Props/C19Cone.lean) all follow from 3 and 4.
-/
import PolyVerif.Gen.Sdf
import PolyVerif.Lemmas.Euclid

namespace PolyVerif
namespace Cone
open Real

/-! ### `sign` of rounded_cone.go at ℝ -/

theorem sign_eq (x : ℝ) : Gen.sdf.sign x = if 0 < x then 1 else if x < 0 then -1 else 0 := by
  simp [Gen.sdf.sign]

theorem sign_mul_sq (x : ℝ) : Gen.sdf.sign x * (x * x) = x * |x| := by
  rw [sign_eq]; split_ifs with h1 h2
  · rw [abs_of_pos h1]; ring
  · rw [abs_of_neg h2]; ring
  · have : x = 0 := le_antisymm (not_lt.mp h1) (not_lt.mp h2)
    simp [this]

theorem sign_mul_pos (x : ℝ) {L : ℝ} (hL : 0 < L) : Gen.sdf.sign (x * L) = Gen.sdf.sign x := by
  have hn : x * L < 0 ↔ x < 0 := by
    constructor
    · intro h; by_contra hx; exact absurd (mul_nonneg (not_lt.mp hx) hL.le) (not_le.mpr h)
    · intro h; exact mul_neg_of_neg_of_pos h hL
  simp only [sign_eq, mul_pos_iff_of_pos_right hL, hn]

/-- `x ↦ x·|x|` (= `sign x · x²`) is strictly increasing: the squared comparisons of the source lose nothing -/
theorem mul_abs_lt_iff (x y : ℝ) : x * |x| < y * |y| ↔ x < y := by
  have mono : ∀ u v : ℝ, u < v → u * |u| < v * |v| := by
    intro u v huv
    rcases le_total 0 u with hu | hu <;> rcases le_total 0 v with hv | hv
    · rw [abs_of_nonneg hu, abs_of_nonneg hv]; nlinarith
    · exfalso; linarith
    · rw [abs_of_nonpos hu, abs_of_nonneg hv]
      rcases hu.lt_or_eq with hu' | hu'
      · nlinarith [mul_pos_of_neg_of_neg hu' hu', mul_nonneg hv hv]
      · subst hu'; nlinarith
    · rw [abs_of_nonpos hu, abs_of_nonpos hv]; nlinarith
  constructor
  · intro h
    by_contra hn
    rcases (not_lt.mp hn).lt_or_eq with h' | h'
    · exact absurd (mono _ _ h') (not_lt.mpr h.le)
    · subst h'; exact lt_irrefl _ h
  · exact mono x y

/-! ### the closure body as a scalar function -/

/-- body of the closure returned by `RoundedCone`, as a function of `N = ba·ba`, `y = pa·ba`, `x2 = |pa·N − ba·y|²` -/
noncomputable def core (N r1 r2 y x2 : ℝ) : ℝ :=
  if Gen.sdf.sign (r1 - r2) * ((r1 - r2) * (r1 - r2)) * x2
      < Gen.sdf.sign (y - N) * (N - (r1 - r2) * (r1 - r2)) * ((y - N) * (y - N) * N) then
    Real.sqrt (x2 + (y - N) * (y - N) * N) * (1 / N) - r2
  else if Gen.sdf.sign y * (N - (r1 - r2) * (r1 - r2)) * (y * y * N)
      < Gen.sdf.sign (r1 - r2) * ((r1 - r2) * (r1 - r2)) * x2 then
    Real.sqrt (x2 + y * y * N) * (1 / N) - r1
  else
    (Real.sqrt (x2 * (N - (r1 - r2) * (r1 - r2)) * (1 / N)) + y * (r1 - r2)) * (1 / N) - r1

/-- the regenerated definition: the nested-balls early return, then the closure body -/
theorem roundedCone_unfold (a b : V3 ℝ) (r1 r2 : ℝ) :
    Gen.sdf.RoundedCone a b r1 r2 =
      if (b.Sub a).Dot (b.Sub a) - (r1 - r2) * (r1 - r2) ≤ 0 then
        (if r2 ≤ r1 then Gen.sdf.Sphere a r1 else Gen.sdf.Sphere b r2)
      else fun p =>
        core ((b.Sub a).Dot (b.Sub a)) r1 r2 ((p.Sub a).Dot (b.Sub a))
          (Gen.sdf.dot2 (((p.Sub a).Scale ((b.Sub a).Dot (b.Sub a))).Sub ((b.Sub a).Scale ((p.Sub a).Dot (b.Sub a))))) := by
  simp only [Gen.sdf.RoundedCone, core, decide_eq_true_eq, Nat.cast_one, Nat.cast_zero, RS.sqrt_eq]

/-- the source's test `a2 ≤ 0` is exactly the negation of the guard `|r1 − r2| < |b − a|` -/
theorem a2_nonpos_iff (a b : V3 ℝ) (r1 r2 : ℝ) :
    (b.Sub a).Dot (b.Sub a) - (r1 - r2) * (r1 - r2) ≤ 0 ↔ ¬ |r1 - r2| < a.Distance b := by
  have hN : 0 ≤ (b.Sub a).Dot (b.Sub a) := by
    simp only [V3.Dot]
    nlinarith [mul_self_nonneg (b.Sub a).x, mul_self_nonneg (b.Sub a).y, mul_self_nonneg (b.Sub a).z]
  have hL : a.Distance b = Real.sqrt ((b.Sub a).Dot (b.Sub a)) := rfl
  rw [hL, not_lt, Real.sqrt_le_left (abs_nonneg _), sq_abs]
  constructor <;> intro h <;> nlinarith

theorem roundedCone_eq_core (a b : V3 ℝ) (r1 r2 : ℝ) (hg : |r1 - r2| < a.Distance b) (p : V3 ℝ) :
    Gen.sdf.RoundedCone a b r1 r2 p =
      core ((b.Sub a).Dot (b.Sub a)) r1 r2 ((p.Sub a).Dot (b.Sub a))
        (Gen.sdf.dot2 (((p.Sub a).Scale ((b.Sub a).Dot (b.Sub a))).Sub ((b.Sub a).Scale ((p.Sub a).Dot (b.Sub a))))) := by
  rw [roundedCone_unfold, if_neg (by rw [a2_nonpos_iff]; exact not_not.mpr hg)]

/-- nested or internally tangent balls: the early return of the source -/
theorem roundedCone_nested (a b : V3 ℝ) (r1 r2 : ℝ) (hg : ¬ |r1 - r2| < a.Distance b) :
    Gen.sdf.RoundedCone a b r1 r2 = if r2 ≤ r1 then Gen.sdf.Sphere a r1 else Gen.sdf.Sphere b r2 := by
  rw [roundedCone_unfold, if_pos ((a2_nonpos_iff a b r1 r2).mpr hg)]

/-! ### the closure body in profile coordinates -/

/-- the 2-D profile, parametrised by the axis length `L` and the unit vector `(s, c)` normal to the slanted side -/
noncomputable def prof (L s c r1 r2 h ρ : ℝ) : ℝ :=
  if c * L < c * h - s * ρ then Real.sqrt ((h - L) ^ 2 + ρ ^ 2) - r2
  else if c * h - s * ρ < 0 then Real.sqrt (h ^ 2 + ρ ^ 2) - r1
  else ρ * c + h * s - r1

theorem a2_eq {L s c : ℝ} (hsc : s ^ 2 + c ^ 2 = 1) : L * L - s * L * (s * L) = L ^ 2 * c ^ 2 := by
  linear_combination (-(L ^ 2)) * hsc

theorem k_eq {L s ρ : ℝ} (hL : 0 < L) (hρ : 0 ≤ ρ) :
    Gen.sdf.sign (s * L) * (s * L * (s * L)) * (L ^ 4 * ρ ^ 2) = L ^ 6 * ((s * ρ) * |s * ρ|) := by
  rw [sign_mul_pos _ hL, abs_mul, abs_of_nonneg hρ]
  have := sign_mul_sq s
  calc _ = L ^ 6 * ρ ^ 2 * (Gen.sdf.sign s * (s * s)) := by ring
    _ = _ := by rw [this]; ring

theorem side_eq {L s c : ℝ} (w : ℝ) (hL : 0 < L) (hc : 0 < c) (hsc : s ^ 2 + c ^ 2 = 1) :
    Gen.sdf.sign (w * L) * (L * L - s * L * (s * L)) * (w * L * (w * L) * (L * L)) = L ^ 6 * ((c * w) * |c * w|) := by
  rw [sign_mul_pos _ hL, abs_mul, abs_of_pos hc, a2_eq hsc]
  have := sign_mul_sq w
  calc _ = L ^ 6 * c ^ 2 * (Gen.sdf.sign w * (w * w)) := by ring
    _ = _ := by rw [this]; ring

/-- first test of the source, `sign(z)·a2·z2 > k`  ⇔  `c·L < ℓ` (exactly, boundary included) -/
theorem test1_iff {L s c h ρ : ℝ} (hL : 0 < L) (hc : 0 < c) (hsc : s ^ 2 + c ^ 2 = 1) (hρ : 0 ≤ ρ) :
    Gen.sdf.sign (s * L) * (s * L * (s * L)) * (L ^ 4 * ρ ^ 2)
      < Gen.sdf.sign (h * L - L * L) * (L * L - s * L * (s * L)) * ((h * L - L * L) * (h * L - L * L) * (L * L))
    ↔ c * L < c * h - s * ρ := by
  have e : h * L - L * L = (h - L) * L := by ring
  rw [k_eq hL hρ, e, side_eq (h - L) hL hc hsc, mul_lt_mul_iff_right₀ (by positivity), mul_abs_lt_iff]
  constructor <;> intro hh <;> linarith

/-- second test of the source, `sign(y)·a2·y2 < k`  ⇔  `ℓ < 0` (exactly) -/
theorem test2_iff {L s c h ρ : ℝ} (hL : 0 < L) (hc : 0 < c) (hsc : s ^ 2 + c ^ 2 = 1) (hρ : 0 ≤ ρ) :
    Gen.sdf.sign (h * L) * (L * L - s * L * (s * L)) * (h * L * (h * L) * (L * L))
      < Gen.sdf.sign (s * L) * (s * L * (s * L)) * (L ^ 4 * ρ ^ 2)
    ↔ c * h - s * ρ < 0 := by
  rw [k_eq hL hρ, side_eq h hL hc hsc, mul_lt_mul_iff_right₀ (by positivity), mul_abs_lt_iff]
  constructor <;> intro hh <;> linarith

theorem cap_val {L : ℝ} (w ρ : ℝ) (hL : 0 < L) :
    Real.sqrt (L ^ 4 * ρ ^ 2 + w * L * (w * L) * (L * L)) * (1 / (L * L)) = Real.sqrt (w ^ 2 + ρ ^ 2) := by
  have : L ^ 4 * ρ ^ 2 + w * L * (w * L) * (L * L) = (L ^ 2) ^ 2 * (w ^ 2 + ρ ^ 2) := by ring
  rw [this, Real.sqrt_mul (sq_nonneg _), Real.sqrt_sq (sq_nonneg L)]
  field_simp

theorem side_val {L s c : ℝ} (h ρ : ℝ) (hL : 0 < L) (hc : 0 < c) (hsc : s ^ 2 + c ^ 2 = 1) (hρ : 0 ≤ ρ) :
    (Real.sqrt (L ^ 4 * ρ ^ 2 * (L * L - s * L * (s * L)) * (1 / (L * L))) + h * L * (s * L)) * (1 / (L * L))
      = ρ * c + h * s := by
  have : L ^ 4 * ρ ^ 2 * (L * L - s * L * (s * L)) * (1 / (L * L)) = (L ^ 2 * ρ * c) ^ 2 := by
    rw [a2_eq hsc]; field_simp
  rw [this, Real.sqrt_sq (by positivity)]
  field_simp

/-- the closure body in profile coordinates: `N = L²`, `y = h·L`, `x2 = L⁴·ρ²`, `r1 − r2 = s·L` -/
theorem core_eq_prof {L s c r1 r2 h ρ : ℝ} (hL : 0 < L) (hc : 0 < c) (hsc : s ^ 2 + c ^ 2 = 1) (hρ : 0 ≤ ρ)
    (hrr : r1 - r2 = s * L) :
    core (L * L) r1 r2 (h * L) (L ^ 4 * ρ ^ 2) = prof L s c r1 r2 h ρ := by
  unfold core prof
  rw [hrr]
  simp only [test1_iff hL hc hsc hρ, test2_iff hL hc hsc hρ]
  have e : h * L - L * L = (h - L) * L := by ring
  rw [e, cap_val (h - L) ρ hL, cap_val h ρ hL, side_val h ρ hL hc hsc hρ]

/-! ### the profile is a minimum over the balls along the axis -/

/-- Cauchy–Schwarz against the unit vector `(s, c)`: the slanted-side value never exceeds the distance to an axis point -/
theorem side_le_sqrt {s c : ℝ} (hsc : s ^ 2 + c ^ 2 = 1) (w ρ : ℝ) : ρ * c + w * s ≤ Real.sqrt (w ^ 2 + ρ ^ 2) := by
  refine (le_abs_self _).trans (Real.abs_le_sqrt ?_)
  have : w ^ 2 + ρ ^ 2 - (ρ * c + w * s) ^ 2 = (w * c - ρ * s) ^ 2 := by
    linear_combination (-(w ^ 2 + ρ ^ 2)) * hsc
  nlinarith [sq_nonneg (w * c - ρ * s)]

/-- in the cap region `ℓ ≤ 0` the direction to the cap centre is at least as steep as the side normal: `h ≤ s·|X|` -/
theorem cap_key {s c h ρ : ℝ} (hsc : s ^ 2 + c ^ 2 = 1) (hc : 0 < c) (hρ : 0 ≤ ρ) (hl : c * h - s * ρ ≤ 0) :
    h ≤ s * Real.sqrt (h ^ 2 + ρ ^ 2) := by
  set D := Real.sqrt (h ^ 2 + ρ ^ 2) with hD
  have hD0 : 0 ≤ D := Real.sqrt_nonneg _
  have hD2 : D ^ 2 = h ^ 2 + ρ ^ 2 := Real.sq_sqrt (by positivity)
  by_contra hcon
  have hlt : s * D < h := not_le.mp hcon
  rcases le_or_gt 0 s with hs | hs
  · have h0 : 0 < h := lt_of_le_of_lt (mul_nonneg hs hD0) hlt
    have h1 : (s * D) ^ 2 < h ^ 2 := pow_lt_pow_left₀ hlt (mul_nonneg hs hD0) (by norm_num)
    have h2 : (s * ρ) ^ 2 < (c * h) ^ 2 := by
      have : (c * h) ^ 2 - (s * ρ) ^ 2 = h ^ 2 - (s * D) ^ 2 := by
        rw [mul_pow s D, hD2]; linear_combination (h ^ 2) * hsc
      linarith
    have h3 : s * ρ < c * h := lt_of_pow_lt_pow_left₀ 2 (mul_nonneg hc.le h0.le) h2
    linarith
  · have hsr : s * ρ ≤ 0 := mul_nonpos_of_nonpos_of_nonneg hs.le hρ
    have hch : c * h ≤ 0 := by linarith
    have h0 : h ≤ 0 := by
      by_contra hh; exact absurd (mul_pos hc (not_le.mp hh)) (not_lt.mpr hch)
    have h1 : (-h) ^ 2 < (-(s * D)) ^ 2 := pow_lt_pow_left₀ (by linarith) (by linarith) (by norm_num)
    have h2 : (-(c * h)) ^ 2 < (-(s * ρ)) ^ 2 := by
      have : (-(s * ρ)) ^ 2 - (-(c * h)) ^ 2 = (-(s * D)) ^ 2 - (-h) ^ 2 := by
        rw [neg_sq, neg_sq, neg_sq, neg_sq, mul_pow s D, hD2]; linear_combination (-(h ^ 2)) * hsc
      linarith
    have h3 : -(c * h) < -(s * ρ) := lt_of_pow_lt_pow_left₀ 2 (by linarith) h2
    linarith

/-- in the cap region the cap centre is the best axis point: moving the centre by `τ ≥ 0` along the axis (radius
    shrinking by `τ·s`) does not get closer -/
theorem cap_le {s c h ρ τ : ℝ} (hsc : s ^ 2 + c ^ 2 = 1) (hc : 0 < c) (hρ : 0 ≤ ρ) (hl : c * h - s * ρ ≤ 0)
    (hτ : 0 ≤ τ) : Real.sqrt (h ^ 2 + ρ ^ 2) ≤ Real.sqrt ((h - τ) ^ 2 + ρ ^ 2) + τ * s := by
  have key := cap_key hsc hc hρ hl
  set D := Real.sqrt (h ^ 2 + ρ ^ 2) with hD
  have hD2 : D ^ 2 = h ^ 2 + ρ ^ 2 := Real.sq_sqrt (by positivity)
  have : D - τ * s ≤ Real.sqrt ((h - τ) ^ 2 + ρ ^ 2) := by
    refine (le_abs_self _).trans (Real.abs_le_sqrt ?_)
    have e : (h - τ) ^ 2 + ρ ^ 2 - (D - τ * s) ^ 2 = (τ * c) ^ 2 + 2 * (τ * (s * D - h)) := by
      linear_combination (-1) * hD2 + (-(τ ^ 2)) * hsc
    nlinarith [sq_nonneg (τ * c), mul_nonneg hτ (sub_nonneg.mpr key)]
  linarith

/-- the gap between `X = (h, ρ)` and the ball centred at axis position `τ` with radius `r1 − τ·s` -/
noncomputable def ballGap (s r1 h ρ τ : ℝ) : ℝ := Real.sqrt ((h - τ) ^ 2 + ρ ^ 2) - (r1 - τ * s)

/-- the profile is a lower bound of every ball gap with centre on the axis segment -/
theorem prof_le {L s c r1 r2 h ρ : ℝ} (hc : 0 < c) (hsc : s ^ 2 + c ^ 2 = 1) (hρ : 0 ≤ ρ)
    (hrr : r1 - r2 = s * L) {τ : ℝ} (h0 : 0 ≤ τ) (h1 : τ ≤ L) :
    prof L s c r1 r2 h ρ ≤ ballGap s r1 h ρ τ := by
  unfold prof ballGap
  split_ifs with c1 c2
  · have := cap_le (s := -s) (h := L - h) (τ := L - τ) (ρ := ρ) (c := c) (by rw [neg_sq]; exact hsc) hc hρ
      (by linarith) (by linarith)
    have e1 : (L - h) ^ 2 = (h - L) ^ 2 := by ring
    have e2 : (L - h - (L - τ)) ^ 2 = (h - τ) ^ 2 := by ring
    rw [e1, e2] at this
    linarith
  · have := cap_le (τ := τ) hsc hc hρ c2.le h0
    linarith
  · have := side_le_sqrt hsc (h - τ) ρ
    linarith

/-- … and it is attained: at `τ = L` (cap at `b`), `τ = 0` (cap at `a`), `τ = ℓ/c` (side) -/
theorem prof_attained {L s c r1 r2 : ℝ} (h ρ : ℝ) (hc : 0 < c) (hsc : s ^ 2 + c ^ 2 = 1) (hρ : 0 ≤ ρ)
    (hL : 0 < L) (hrr : r1 - r2 = s * L) :
    ∃ τ, 0 ≤ τ ∧ τ ≤ L ∧ prof L s c r1 r2 h ρ = ballGap s r1 h ρ τ := by
  unfold prof ballGap
  split_ifs with c1 c2
  · exact ⟨L, hL.le, le_rfl, by linarith⟩
  · exact ⟨0, le_rfl, hL.le, by simp⟩
  · refine ⟨(c * h - s * ρ) / c, div_nonneg (not_lt.mp c2) hc.le, ?_, ?_⟩
    · rw [div_le_iff₀ hc]; linarith [not_lt.mp c1]
    · have e : (h - (c * h - s * ρ) / c) ^ 2 + ρ ^ 2 = (ρ / c) ^ 2 := by
        field_simp; linear_combination (ρ ^ 2) * hsc
      rw [e, Real.sqrt_sq (div_nonneg hρ hc.le)]
      field_simp
      linear_combination ρ * hsc

/-! ### cylindrical coordinates of a point about the axis `a → b` -/

/-- axial coordinate `h = (p − a)·u`, `u = (b − a)/|b − a|` -/
noncomputable def axial (a b p : V3 ℝ) : ℝ := (p.Sub a).Dot (b.Sub a) / a.Distance b

/-- distance from the axis: `ρ = √(|p − a|² − h²)` -/
noncomputable def radial (a b p : V3 ℝ) : ℝ := Real.sqrt ((p.Sub a).Dot (p.Sub a) - axial a b p ^ 2)

theorem radial_nonneg (a b p : V3 ℝ) : 0 ≤ radial a b p := Real.sqrt_nonneg _

theorem dot_self_nonneg (v : V3 ℝ) : 0 ≤ v.Dot v := by
  simp only [V3.Dot]; nlinarith [mul_self_nonneg v.x, mul_self_nonneg v.y, mul_self_nonneg v.z]

theorem distance_eq_sqrt_dot (a b : V3 ℝ) : a.Distance b = Real.sqrt ((b.Sub a).Dot (b.Sub a)) := rfl

theorem distance_mul_self (a b : V3 ℝ) : a.Distance b * a.Distance b = (b.Sub a).Dot (b.Sub a) := by
  rw [distance_eq_sqrt_dot]; exact Real.mul_self_sqrt (dot_self_nonneg _)

/-- Cauchy–Schwarz (Lagrange identity) for the model's dot product -/
theorem dot_sq_le (u v : V3 ℝ) : (u.Dot v) ^ 2 ≤ u.Dot u * v.Dot v := by
  simp only [V3.Dot]
  nlinarith [sq_nonneg (u.x * v.y - u.y * v.x), sq_nonneg (u.x * v.z - u.z * v.x), sq_nonneg (u.y * v.z - u.z * v.y)]

theorem axial_mul (a b p : V3 ℝ) (hL : 0 < a.Distance b) : axial a b p * a.Distance b = (p.Sub a).Dot (b.Sub a) := by
  unfold axial; field_simp

theorem radial_sq (a b p : V3 ℝ) (hL : 0 < a.Distance b) :
    radial a b p ^ 2 = (p.Sub a).Dot (p.Sub a) - axial a b p ^ 2 := by
  apply Real.sq_sqrt
  rw [sub_nonneg]
  unfold axial
  rw [div_pow, div_le_iff₀ (by positivity), sq (a.Distance b), distance_mul_self]
  exact dot_sq_le _ _

/-- `x2 = |pa·l2 − ba·y|²` of the source is `N²·|pa|² − N·y²` -/
theorem x2_eq (a b p : V3 ℝ) :
    Gen.sdf.dot2 (((p.Sub a).Scale ((b.Sub a).Dot (b.Sub a))).Sub ((b.Sub a).Scale ((p.Sub a).Dot (b.Sub a))))
      = ((b.Sub a).Dot (b.Sub a)) ^ 2 * (p.Sub a).Dot (p.Sub a)
          - (b.Sub a).Dot (b.Sub a) * ((p.Sub a).Dot (b.Sub a)) ^ 2 := by
  simp only [Gen.sdf.dot2, V3.Dot, V3.Sub, V3.Scale]; ring

/-- … which is `L⁴·ρ²` -/
theorem x2_eq_radial (a b p : V3 ℝ) (hL : 0 < a.Distance b) :
    Gen.sdf.dot2 (((p.Sub a).Scale ((b.Sub a).Dot (b.Sub a))).Sub ((b.Sub a).Scale ((p.Sub a).Dot (b.Sub a))))
      = a.Distance b ^ 4 * radial a b p ^ 2 := by
  rw [x2_eq, radial_sq a b p hL, ← axial_mul a b p hL, ← distance_mul_self a b]
  ring

/-- consequences of the guard `|r1 − r2| < |b − a|` -/
theorem guard_facts {L r1 r2 : ℝ} (hg : |r1 - r2| < L) :
    0 < L ∧ 0 < Real.sqrt (1 - ((r1 - r2) / L) ^ 2) ∧
      ((r1 - r2) / L) ^ 2 + Real.sqrt (1 - ((r1 - r2) / L) ^ 2) ^ 2 = 1 ∧ r1 - r2 = (r1 - r2) / L * L := by
  have hL : 0 < L := lt_of_le_of_lt (abs_nonneg _) hg
  have hs : ((r1 - r2) / L) ^ 2 < 1 := by
    rw [div_pow, div_lt_one (by positivity)]
    exact sq_lt_sq.mpr (by rwa [abs_of_pos hL])
  refine ⟨hL, Real.sqrt_pos.mpr (by linarith), ?_, by field_simp⟩
  rw [Real.sq_sqrt (by linarith)]; ring

/-- the generated rounded cone in cylindrical coordinates -/
theorem roundedCone_eq_prof (a b : V3 ℝ) (r1 r2 : ℝ) (hg : |r1 - r2| < a.Distance b) (p : V3 ℝ) :
    Gen.sdf.RoundedCone a b r1 r2 p =
      prof (a.Distance b) ((r1 - r2) / a.Distance b) (Real.sqrt (1 - ((r1 - r2) / a.Distance b) ^ 2)) r1 r2
        (axial a b p) (radial a b p) := by
  obtain ⟨hL, hc, hsc, hrr⟩ := guard_facts hg
  rw [roundedCone_eq_core a b r1 r2 hg, x2_eq_radial a b p hL, ← axial_mul a b p hL, ← distance_mul_self a b]
  exact core_eq_prof hL hc hsc (radial_nonneg a b p) hrr

/-- the distance from `p` to the axis point at parameter `t`, in cylindrical coordinates -/
theorem distance_axis_point (a b p : V3 ℝ) (hL : 0 < a.Distance b) (t : ℝ) :
    p.Distance (a.Add ((b.Sub a).Scale t))
      = Real.sqrt ((axial a b p - t * a.Distance b) ^ 2 + radial a b p ^ 2) := by
  have e : p.DistanceSquared (a.Add ((b.Sub a).Scale t))
      = (p.Sub a).Dot (p.Sub a) - 2 * t * (p.Sub a).Dot (b.Sub a) + t ^ 2 * (b.Sub a).Dot (b.Sub a) := by
    simp only [V3.DistanceSquared, V3.Add, V3.Sub, V3.Scale, V3.Dot]; ring
  show Real.sqrt (p.DistanceSquared (a.Add ((b.Sub a).Scale t))) = _
  rw [e, radial_sq a b p hL, ← axial_mul a b p hL, ← distance_mul_self a b]
  congr 1; ring

/-- lower bound: the field is below the gap to every ball `B(a + t(b − a), r1 + t(r2 − r1))`, `t ∈ [0, 1]` -/
theorem roundedCone_le_ball_guard (a b : V3 ℝ) (r1 r2 : ℝ) (hg : |r1 - r2| < a.Distance b) (p : V3 ℝ)
    {t : ℝ} (h0 : 0 ≤ t) (h1 : t ≤ 1) :
    Gen.sdf.RoundedCone a b r1 r2 p ≤ p.Distance (a.Add ((b.Sub a).Scale t)) - (r1 + t * (r2 - r1)) := by
  obtain ⟨hL, hc, hsc, hrr⟩ := guard_facts hg
  rw [roundedCone_eq_prof a b r1 r2 hg, distance_axis_point a b p hL]
  have := prof_le (h := axial a b p) hc hsc (radial_nonneg a b p) hrr (τ := t * a.Distance b)
    (mul_nonneg h0 hL.le) (by nlinarith)
  unfold ballGap at this
  have e : r1 - t * a.Distance b * ((r1 - r2) / a.Distance b) = r1 + t * (r2 - r1) := by
    field_simp; ring
  rwa [e] at this

/-- the bound is attained by some ball of the family -/
theorem roundedCone_attained_guard (a b : V3 ℝ) (r1 r2 : ℝ) (hg : |r1 - r2| < a.Distance b) (p : V3 ℝ) :
    ∃ t, 0 ≤ t ∧ t ≤ 1 ∧
      Gen.sdf.RoundedCone a b r1 r2 p = p.Distance (a.Add ((b.Sub a).Scale t)) - (r1 + t * (r2 - r1)) := by
  obtain ⟨hL, hc, hsc, hrr⟩ := guard_facts hg
  obtain ⟨τ, hτ0, hτ1, hτ⟩ := prof_attained (axial a b p) (radial a b p) hc hsc (radial_nonneg a b p) hL hrr
  refine ⟨τ / a.Distance b, div_nonneg hτ0 hL.le, (div_le_one hL).mpr hτ1, ?_⟩
  rw [roundedCone_eq_prof a b r1 r2 hg, distance_axis_point a b p hL, hτ]
  unfold ballGap
  have e1 : τ / a.Distance b * a.Distance b = τ := by field_simp
  have e2 : r1 - τ * ((r1 - r2) / a.Distance b) = r1 + τ / a.Distance b * (r2 - r1) := by
    field_simp; ring
  rw [e1, e2]

/-! ### all parameters: the nested case is the larger ball, which is again the least ball gap -/

theorem axis_point_zero (a b : V3 ℝ) : a.Add ((b.Sub a).Scale 0) = a := by
  ext <;> simp [V3.Add, V3.Scale]

theorem axis_point_one (a b : V3 ℝ) : a.Add ((b.Sub a).Scale 1) = b := by
  ext <;> simp [V3.Add, V3.Sub, V3.Scale]

theorem distance_axis_a (a b : V3 ℝ) {t : ℝ} (h0 : 0 ≤ t) :
    (a.Add ((b.Sub a).Scale t)).Distance a = t * a.Distance b := by
  rw [← dist_toE, toE_add, toE_scale, toE_sub, add_sub_cancel_left, norm_smul, Real.norm_eq_abs,
    abs_of_nonneg h0, dist_toE, V3.distance_comm b a]

theorem distance_axis_b (a b : V3 ℝ) {t : ℝ} (h1 : t ≤ 1) :
    (a.Add ((b.Sub a).Scale t)).Distance b = (1 - t) * a.Distance b := by
  rw [← dist_toE, toE_add, toE_scale, toE_sub]
  have : toE a + t • (toE b - toE a) - toE b = (1 - t) • (toE a - toE b) := by module
  rw [this, norm_smul, Real.norm_eq_abs, abs_of_nonneg (by linarith), dist_toE]

theorem sphere_apply (c : V3 ℝ) (r : ℝ) (p : V3 ℝ) : Gen.sdf.Sphere c r p = p.Distance c - r := rfl

/-- nested balls: the larger ball's gap is below every ball gap of the family -/
theorem nested_le_ball (a b : V3 ℝ) (r1 r2 : ℝ) (hg : ¬ |r1 - r2| < a.Distance b) (p : V3 ℝ)
    {t : ℝ} (h0 : 0 ≤ t) (h1 : t ≤ 1) :
    (if r2 ≤ r1 then Gen.sdf.Sphere a r1 else Gen.sdf.Sphere b r2) p
      ≤ p.Distance (a.Add ((b.Sub a).Scale t)) - (r1 + t * (r2 - r1)) := by
  have hg' := not_lt.mp hg
  split_ifs with h
  · rw [sphere_apply]
    have tri := V3.distance_triangle p (a.Add ((b.Sub a).Scale t)) a
    rw [distance_axis_a a b h0] at tri
    rw [abs_of_nonneg (by linarith)] at hg'
    nlinarith [mul_le_mul_of_nonneg_left hg' h0]
  · rw [sphere_apply]
    have tri := V3.distance_triangle p (a.Add ((b.Sub a).Scale t)) b
    rw [distance_axis_b a b h1] at tri
    rw [abs_of_neg (by linarith)] at hg'
    nlinarith [mul_le_mul_of_nonneg_left hg' (sub_nonneg.mpr h1)]

/-- lower bound, ALL parameters -/
theorem roundedCone_le_ball (a b : V3 ℝ) (r1 r2 : ℝ) (p : V3 ℝ) {t : ℝ} (h0 : 0 ≤ t) (h1 : t ≤ 1) :
    Gen.sdf.RoundedCone a b r1 r2 p ≤ p.Distance (a.Add ((b.Sub a).Scale t)) - (r1 + t * (r2 - r1)) := by
  by_cases hg : |r1 - r2| < a.Distance b
  · exact roundedCone_le_ball_guard a b r1 r2 hg p h0 h1
  · rw [roundedCone_nested a b r1 r2 hg]; exact nested_le_ball a b r1 r2 hg p h0 h1

/-- attained, ALL parameters (nested case: at `t = 0` or `t = 1`) -/
theorem roundedCone_attained (a b : V3 ℝ) (r1 r2 : ℝ) (p : V3 ℝ) :
    ∃ t, 0 ≤ t ∧ t ≤ 1 ∧
      Gen.sdf.RoundedCone a b r1 r2 p = p.Distance (a.Add ((b.Sub a).Scale t)) - (r1 + t * (r2 - r1)) := by
  by_cases hg : |r1 - r2| < a.Distance b
  · exact roundedCone_attained_guard a b r1 r2 hg p
  · rw [roundedCone_nested a b r1 r2 hg]
    split_ifs with h
    · exact ⟨0, le_rfl, zero_le_one, by rw [axis_point_zero, sphere_apply]; ring⟩
    · exact ⟨1, zero_le_one, le_rfl, by rw [axis_point_one, sphere_apply]; ring⟩

end Cone
end PolyVerif
