/-
  C08 (round 2) — the reader's ASCII loops over the REFERENCE text encoding (`PlySpec.specBody`, format ascii):
  face lines (integers only: no float-text law needed) and vertex lines (under the named law bundle `GoFloatText`
  plus `SpecIntText`, what `strconv.ParseFloat(·, 32)` does to the decimal text of a 32-bit integer).  Core Lean only.
-/
import PolyVerif.Lemmas.PlyAscii
import PolyVerif.Lemmas.PlyFaces

namespace PolyVerif
namespace PlyFacesAscii
open Ply PlySpec PlyLemmas PlyCompose PlyHeader PlyAscii PlyFaces

variable {α : Type}

theorem showInt_tok' (i : Int) : Tok (showInt i) := by
  unfold showInt
  split
  · refine ⟨by simp, ?_⟩
    intro b hb
    simp only [List.mem_cons] at hb
    rcases hb with rfl | hb
    · decide
    · exact (showNat_tok _).2 b hb
  · exact showNat_tok _

theorem parseInt32_showNat (n : Nat) (hn : n < 2 ^ 31) : parseInt32 (showNat n) = some (n : Int) := by
  rw [← showInt_nat]; exact parseInt32_showInt n hn

theorem mapM_parseInt32 : ∀ (vs : List Nat), (∀ v ∈ vs, v < 2 ^ 31) →
    (vs.map showNat).mapM parseInt32 = some (vs.map (fun v => ((v : Nat) : Int)))
  | [], _ => rfl
  | v :: vs, h => by
    have h1 := parseInt32_showNat v (h v (by simp))
    have h2 := mapM_parseInt32 vs (fun w hw => h w (by simp [hw]))
    simp [List.mapM_cons, h1, h2]

/-- what reading one reference-encoded ASCII face does to the buffers (≤ 4 indices) -/
def afterRefA (vs : List Nat) (b : FaceBufs α) : FaceBufs α :=
  { b with idx := overwrite b.idx (vs.map (fun v => ((v : Nat) : Int))) }

/-- ASCII face-property loop, one step: the index list (at most 4 entries: a longer one is an ERROR in ASCII) -/
theorem goA_idx (c : Coding α) (fs : FaceScan) (i : Nat) (hi : fs.idxProp = some i) (hti : fs.texProp ≠ some i)
    (p : Bytes × SType × SType) (vs : List Nat) (hv : ∀ v ∈ vs, v < 2 ^ 31) (h4 : vs.length ≤ 4)
    (tl : List ((Bytes × SType × SType) × Nat)) (points : Int) (bufs : FaceBufs α) (rest : List Bytes) :
    readFaceAscii.go c fs ((p, i) :: tl) points bufs (showNat vs.length :: (vs.map showNat ++ rest))
      = readFaceAscii.go c fs tl (vs.length : Nat) (afterRefA vs bufs) rest := by
  have hc := parseInt32_showNat vs.length (by omega)
  have hm := mapM_parseInt32 vs hv
  have hneg : ¬ (((vs.length : Nat) : Int) < 0) := by omega
  have h4' : ¬ (4 < vs.length) := by omega
  simp [readFaceAscii.go, hc, hi, hti, hm, h4', afterRefA]
  rw [if_neg hneg, if_neg (by omega)]

theorem goA_idx_long (c : Coding α) (fs : FaceScan) (i : Nat) (hi : fs.idxProp = some i)
    (p : Bytes × SType × SType) (vs : List Nat) (hn : vs.length < 2 ^ 31) (h4 : 4 < vs.length)
    (tl : List ((Bytes × SType × SType) × Nat)) (points : Int) (bufs : FaceBufs α) (rest : List Bytes) :
    readFaceAscii.go c fs ((p, i) :: tl) points bufs (showNat vs.length :: (vs.map showNat ++ rest)) = .error .err := by
  have hc := parseInt32_showNat vs.length hn
  simp [readFaceAscii.go, hc, hi, h4]

/-- ASCII face-property loop, one step: a list the reader does not look at -/
theorem goA_skip (c : Coding α) (fs : FaceScan) (i : Nat) (hi : fs.idxProp ≠ some i) (hti : fs.texProp ≠ some i)
    (p : Bytes × SType × SType) (xs : List Int) (hn : xs.length < 2 ^ 31)
    (tl : List ((Bytes × SType × SType) × Nat)) (points : Int) (bufs : FaceBufs α) (rest : List Bytes) :
    readFaceAscii.go c fs ((p, i) :: tl) points bufs (showNat xs.length :: (xs.map showInt ++ rest))
      = readFaceAscii.go c fs tl points bufs rest := by
  have hc := parseInt32_showNat xs.length hn
  have hneg : ¬ (((xs.length : Nat) : Int) < 0) := by omega
  simp [readFaceAscii.go, hc, hi, hti]
  rw [if_neg hneg, if_neg (by omega)]

/-- the tokens of one face line -/
def faceToksRef (c : Coding α) (fe : SpecFaceElem α) (fc : SpecFace α) : List Bytes :=
  (fe.lists.map (faceListAscii c fc)).flatten

theorem faceListAscii_tok (c : Coding α) (fc : SpecFace α) (x : Nat × Bytes × SType × SType × Bool) (hk : x.1 ≠ 1) :
    faceListAscii c fc x ≠ [] ∧ ∀ t ∈ faceListAscii c fc x, Tok t := by
  obtain ⟨k, n, ct, it, al⟩ := x
  match k, hk with
  | 0, _ =>
    refine ⟨by simp [faceListAscii], ?_⟩
    intro t ht
    simp only [faceListAscii, List.mem_cons, List.mem_map] at ht
    rcases ht with rfl | ⟨v, _, rfl⟩
    · exact showNat_tok _
    · exact showNat_tok _
  | k + 2, _ =>
    refine ⟨by simp [faceListAscii], ?_⟩
    intro t ht
    simp only [faceListAscii, List.mem_cons, List.mem_map] at ht
    rcases ht with rfl | ⟨v, _, rfl⟩
    · exact showNat_tok _
    · exact showInt_tok' _

theorem lists_kind (fe : SpecFaceElem α) (htex : fe.tex = none) : fe.lists ≠ [] ∧ ∀ x ∈ fe.lists, x.1 ≠ 1 := by
  obtain ⟨short, ct, it, al, tex, tf, ex, faces⟩ := fe
  simp only at htex
  subst htex
  rcases ex with _ | _ | _ <;> cases tf <;> simp [SpecFaceElem.lists]

theorem faceToksRef_tok (c : Coding α) (fe : SpecFaceElem α) (htex : fe.tex = none) (fc : SpecFace α) :
    faceToksRef c fe fc ≠ [] ∧ ∀ t ∈ faceToksRef c fe fc, Tok t := by
  obtain ⟨hne, hk⟩ := lists_kind fe htex
  constructor
  · intro h0
    simp only [faceToksRef, List.flatten_eq_nil_iff, List.mem_map] at h0
    cases hl : fe.lists with
    | nil => exact hne hl
    | cons x xs =>
      have hx : x ∈ fe.lists := by rw [hl]; simp
      exact (faceListAscii_tok c fc x (hk x hx)).1 (h0 _ ⟨x, hx, rfl⟩)
  · intro t ht
    simp only [faceToksRef, List.mem_flatten, List.mem_map] at ht
    obtain ⟨l, ⟨x, hx, rfl⟩, htl⟩ := ht
    exact (faceListAscii_tok c fc x (hk x hx)).2 t htl

/-- ONE FACE LINE of the reference encoding (≤ 4 indices) under the reader's property loop -/
theorem readFaceAscii_ref (c : Coding α) (fe : SpecFaceElem α) (htex : fe.tex = none) (fc : SpecFace α)
    (hok : FaceEncOK fe fc) (h4 : fc.verts.length ≤ 4) (bufs : FaceBufs α) :
    readFaceAscii c (lpOf fe) (findFaceProps (lpOf fe)) bufs (faceToksRef c fe fc)
      = .ok ((fc.verts.length : Nat), afterRefA fc.verts bufs) := by
  rw [findFaceProps_ref fe htex]
  obtain ⟨short, ct, it, al, tex, tf, ex, faces⟩ := fe
  simp only at htex
  subst htex
  obtain ⟨hv, _, _, hx⟩ := hok
  have hxn : fc.extra.length < 2 ^ 31 := by omega
  rcases ex with _ | _ | _
  · have := goA_idx c ⟨some 0, none⟩ 0 rfl (by simp)
      (if short then nm "vertex_index" else nm "vertex_indices", ct, it) fc.verts hv h4 [] (-1) bufs []
    cases tf <;>
      simpa [readFaceAscii, faceToksRef, lpOf, SpecFaceElem.lists, idxPos, List.zipIdx, faceListAscii,
        readFaceAscii.go] using this
  · have h1 := goA_idx c ⟨some 0, none⟩ 0 rfl (by simp)
      (if short then nm "vertex_index" else nm "vertex_indices", ct, it) fc.verts hv h4
      [((nm "flags", .uchar, .int), 1)] (-1) bufs (showNat fc.extra.length :: (fc.extra.map showInt ++ []))
    have h2 := goA_skip c ⟨some 0, none⟩ 1 (by simp) (by simp) (nm "flags", .uchar, .int) fc.extra hxn []
      (fc.verts.length : Nat) (afterRefA fc.verts bufs) []
    rw [h2] at h1
    cases tf <;>
      simpa [readFaceAscii, faceToksRef, lpOf, SpecFaceElem.lists, idxPos, List.zipIdx, faceListAscii,
        readFaceAscii.go] using h1
  · have h2 := goA_skip c ⟨some 1, none⟩ 0 (by simp) (by simp) (nm "flags", .uchar, .int) fc.extra hxn
      [((if short then nm "vertex_index" else nm "vertex_indices", ct, it), 1)] (-1) bufs
      (showNat fc.verts.length :: (fc.verts.map showNat ++ []))
    have h1 := goA_idx c ⟨some 1, none⟩ 1 rfl (by simp)
      (if short then nm "vertex_index" else nm "vertex_indices", ct, it) fc.verts hv h4 [] (-1) bufs []
    rw [h1] at h2
    cases tf <;>
      simpa [readFaceAscii, faceToksRef, lpOf, SpecFaceElem.lists, idxPos, List.zipIdx, faceListAscii,
        readFaceAscii.go] using h2

theorem afterRefA_eq (vs : List Nat) (h4 : vs.length ≤ 4) (b : FaceBufs α) : afterRefA vs b = afterRef vs b := by
  simp [afterRefA, afterRef, h4]

/-- the face lines of the reference text encoding -/
def faceLines (c : Coding α) (fe : SpecFaceElem α) (faces : List (SpecFace α)) : List Bytes :=
  faces.map (fun fc => intercalate sp (faceToksRef c fe fc))

theorem faceLines_pline (c : Coding α) (fe : SpecFaceElem α) (htex : fe.tex = none) (faces : List (SpecFace α)) :
    ∀ l ∈ faceLines c fe faces, PLine l := by
  intro l hl
  simp only [faceLines, List.mem_map] at hl
  obtain ⟨fc, _, rfl⟩ := hl
  obtain ⟨hne, ht⟩ := faceToksRef_tok c fe htex fc
  exact (token_line _ hne ht).1

/-- THE ASCII FACE LOOP over the reference face lines, all faces triangles / quads: fan indices in file order -/
theorem readFacesAscii_ref (c : Coding α) (fe : SpecFaceElem α) (htex : fe.tex = none) :
    ∀ (faces : List (SpecFace α)), (∀ fc ∈ faces, FaceEncOK fe fc ∧ TriOrQuad fc) → ∀ (b : FaceBufs α), BufsOk b →
      readFacesAscii c (lpOf fe) (findFaceProps (lpOf fe)) faces.length b (faceLines c fe faces)
        = .ok (fanIdx faces, []) := by
  intro faces
  induction faces with
  | nil => intro _ b _; simp [readFacesAscii, faceLines, fanIdx]
  | cons fc faces ih =>
    intro hall b hb
    obtain ⟨hok, htq⟩ := hall fc (by simp)
    have h4 : fc.verts.length ≤ 4 := by rcases htq with h | h <;> omega
    obtain ⟨hne, htk⟩ := faceToksRef_tok c fe htex fc
    have hfl := (token_line _ hne htk).2
    have h1 := readFaceAscii_ref c fe htex fc hok h4 b
    have h2 := emitFace_ref fc.verts htq b hb
    rw [← afterRefA_eq _ h4] at h2
    have hb' : BufsOk (afterRefA fc.verts b) := by rw [afterRefA_eq _ h4]; exact afterRef_ok _ _ hb
    have h3 := ih (fun g hg => hall g (by simp [hg])) (afterRefA fc.verts b) hb'
    have hT : (findFaceProps (lpOf fe)).texProp.isSome = false := by rw [findFaceProps_ref fe htex]; rfl
    simp only [faceLines, List.map_cons, List.length_cons, readFacesAscii, hfl, h1, bind, Except.bind, hT, h2] at h3 ⊢
    rw [h3]
    simp [fanIdx, pure, Except.pure]

/-! ## vertex lines -/

/-- NAMED LAW (hypothesis of the ASCII theorems, next to `GoFloatText`): `strconv.ParseFloat(s, 32)` accepts the decimal
text of every 32-bit integer; `imgZ i` is whatever it returns (for Go: the float32 nearest to `i`, NOT `i` itself
beyond 2²⁴ — known finding ascii-float32-precision) -/
structure SpecIntText (c : Coding α) where
  /-- the integers the law speaks about (for Go: −2³¹ ≤ i < 2³¹, the values of a PLY `int`) -/
  inRangeZ : Int → Prop
  imgZ : Int → α
  parse32_showInt : ∀ i : Int, inRangeZ i → c.parseF (showInt i) = some (imgZ i)

/-- what the ASCII reader makes of one datum's text (before the 8-bit normalisation of the reader that claims it) -/
def datumParsed (c : Coding α) (L : GoFloatText c) (Z : SpecIntText c) : Datum α → α
  | .u8 b => c.ofInt b.toNat
  | .i32 i => Z.imgZ i
  | .f32 x => L.imgF x
  | .f64 x => L.imgF x

/-- the datum is inside what the law bundle speaks about -/
def Datum.InRange (c : Coding α) (L : GoFloatText c) (Z : SpecIntText c) : Datum α → Prop
  | .u8 _ => True
  | .i32 i => Z.inRangeZ i
  | .f32 x => L.inRange x
  | .f64 x => L.inRange x

theorem datum_ascii_tok (c : Coding α) (L : GoFloatText c) (d : Datum α) : Tok (Datum.ascii c d) := by
  cases d with
  | u8 b => exact showNat_tok _
  | i32 i => exact showInt_tok' i
  | f32 x => exact L.tokF x
  | f64 x => exact L.tokF x

theorem datum_ascii_parse (c : Coding α) (L : GoFloatText c) (Z : SpecIntText c) (d : Datum α)
    (hr : Datum.InRange c L Z d) : c.parseF (Datum.ascii c d) = some (datumParsed c L Z d) := by
  cases d with
  | u8 b => exact L.parse32_showU8 b.toNat b.toNat_lt
  | i32 i => exact Z.parse32_showInt i hr
  | f32 x => exact L.parse32_showF x hr
  | f64 x => exact L.parse32_showF x hr

/-- what the located ASCII readers produce for one record -/
def rowOfS (c : Coding α) (L : GoFloatText c) (Z : SpecIntText c) (bl : List (Built × List Nat)) (r : List (Datum α)) :
    List (List α) :=
  bl.map (fun p => p.2.filterMap (fun i => (r[i]?).map (fun d =>
    if p.1.ty = some .uchar then c.norm8 p.1.names.length (datumParsed c L Z d) else datumParsed c L Z d)))

theorem readAscii_spec (c : Coding α) (L : GoFloatText c) (Z : SpecIntText c) (tys : List SType) (r : List (Datum α))
    (hty : r.map Datum.ty = tys) (hr : ∀ d ∈ r, Datum.InRange c L Z d) (b : Built) (idxs : List Nat)
    (hl : LocatedA tys b idxs) :
    b.readAscii c (r.map (Datum.ascii c)) = .ok (idxs.filterMap (fun i => (r[i]?).map (fun d =>
      if b.ty = some .uchar then c.norm8 b.names.length (datumParsed c L Z d) else datumParsed c L Z d))) := by
  have hlen : r.length = tys.length := by rw [← hty]; simp
  rw [readAscii_eq, hl.offs]
  have hmap : ∀ (l : List Nat), (∀ i ∈ l, i ∈ idxs) →
      l.mapM (colRead c (r.map (Datum.ascii c))) = .ok (l.filterMap (fun i => (r[i]?).map (datumParsed c L Z))) := by
    intro l
    induction l with
    | nil => intro _; rfl
    | cons i l ih =>
      intro hsub
      obtain ⟨hit, _⟩ := hl.inr i (hsub i (by simp))
      have hir : i < r.length := by omega
      have h1 : colRead c (r.map (Datum.ascii c)) i = .ok (datumParsed c L Z r[i]) := by
        simp [colRead, List.getElem?_eq_getElem hir, datum_ascii_parse c L Z _ (hr _ (List.getElem_mem hir))]
      have h2 := ih (fun j hj => hsub j (by simp [hj]))
      rw [List.mapM_cons, h1, h2]
      simp [List.getElem?_eq_getElem hir, bind, Except.bind, pure, Except.pure]
  rw [hmap idxs (fun i hi => hi)]
  by_cases hu : b.ty = some .uchar
  · simp [hu, bind, Except.bind, pure, Except.pure, List.map_filterMap, Option.map_map, Function.comp_def]
  · simp [hu, bind, Except.bind, pure, Except.pure]

/-- the vertex lines of the reference text encoding -/
def vertLines (c : Coding α) (verts : List (List (Datum α))) : List Bytes :=
  verts.map (fun r => intercalate sp (r.map (Datum.ascii c)))

theorem vertLines_pline (c : Coding α) (L : GoFloatText c) (verts : List (List (Datum α))) (hne : ∀ r ∈ verts, r ≠ []) :
    ∀ l ∈ vertLines c verts, PLine l := by
  intro l hl
  simp only [vertLines, List.mem_map] at hl
  obtain ⟨r, hr, rfl⟩ := hl
  refine (token_line _ (by simpa using hne r hr) ?_).1
  intro t ht
  simp only [List.mem_map] at ht
  obtain ⟨d, _, rfl⟩ := ht
  exact datum_ascii_tok c L d

/-- THE ASCII VERTEX BLOCK of the reference encoding under the reader's vertex loop: any order / type mix of the
properties, any located readers -/
theorem spec_vertex_block_ascii (c : Coding α) (L : GoFloatText c) (Z : SpecIntText c) (tys : List SType) (htys : tys ≠ [])
    (bl : List (Built × List Nat)) (hbl : ∀ p ∈ bl, LocatedA tys p.1 p.2) :
    ∀ (verts : List (List (Datum α))) (rest : List Bytes), (∀ r ∈ verts, r.map Datum.ty = tys) →
      (∀ r ∈ verts, ∀ d ∈ r, Datum.InRange c L Z d) →
      readVertsAscii c tys.length (bl.map (·.1)) verts.length (vertLines c verts ++ rest)
        = .ok (verts.map (rowOfS c L Z bl), rest) := by
  intro verts
  induction verts with
  | nil => intro rest _ _; simp [readVertsAscii, vertLines]
  | cons r verts ih =>
    intro rest hty hrg
    have hr := hty r (by simp)
    have hlen : r.length = tys.length := by rw [← hr]; simp
    have hne : r.map (Datum.ascii c) ≠ [] := by
      intro h0
      have : r.length = 0 := by simpa using congrArg List.length h0
      exact htys (List.length_eq_zero_iff.mp (by omega))
    have htok : ∀ t ∈ r.map (Datum.ascii c), Tok t := by
      intro t ht
      simp only [List.mem_map] at ht
      obtain ⟨d, _, rfl⟩ := ht
      exact datum_ascii_tok c L d
    have hfl := (token_line _ hne htok).2
    have hrow : (bl.map (·.1)).mapM (fun b => b.readAscii c (r.map (Datum.ascii c))) = .ok (rowOfS c L Z bl r) := by
      clear ih
      induction bl with
      | nil => simp [rowOfS, pure, Except.pure]
      | cons p bl ihb =>
        have hp := readAscii_spec c L Z tys r hr (hrg r (by simp)) p.1 p.2 (hbl p (by simp))
        have h2' := ihb (fun q hq => hbl q (by simp [hq]))
        simp only [rowOfS] at h2' ⊢
        simp [List.mapM_cons, hp, h2', bind, Except.bind, pure, Except.pure]
    have h3 := ih rest (fun q hq => hty q (by simp [hq])) (fun q hq => hrg q (by simp [hq]))
    have hnot : ¬ ((r.map (Datum.ascii c)).length < tys.length) := by simp; omega
    simp only [vertLines] at h3
    simp only [vertLines, List.map_cons, List.cons_append, List.length_cons, readVertsAscii, hfl, hnot, if_false, hrow,
      h3, bind, Except.bind, pure, Except.pure]

/-! ## faces of other sizes (ASCII) -/

/-- an index list with more than 4 entries is an ERROR in ASCII (`Int`: "can't fit …", not ignored as in binary) -/
theorem readFaceAscii_ref_long (c : Coding α) (fe : SpecFaceElem α) (htex : fe.tex = none) (fc : SpecFace α)
    (hok : FaceEncOK fe fc) (h4 : 4 < fc.verts.length) (bufs : FaceBufs α) :
    readFaceAscii c (lpOf fe) (findFaceProps (lpOf fe)) bufs (faceToksRef c fe fc) = .error .err := by
  rw [findFaceProps_ref fe htex]
  obtain ⟨short, ct, it, al, tex, tf, ex, faces⟩ := fe
  simp only at htex
  subst htex
  obtain ⟨hv, _, hn, hx⟩ := hok
  have hxn : fc.extra.length < 2 ^ 31 := by omega
  rcases ex with _ | _ | _
  · have := goA_idx_long c ⟨some 0, none⟩ 0 rfl
      (if short then nm "vertex_index" else nm "vertex_indices", ct, it) fc.verts hn h4 [] (-1) bufs []
    cases tf <;>
      simpa [readFaceAscii, faceToksRef, lpOf, SpecFaceElem.lists, idxPos, List.zipIdx, faceListAscii,
        readFaceAscii.go] using this
  · have h1 := goA_idx_long c ⟨some 0, none⟩ 0 rfl
      (if short then nm "vertex_index" else nm "vertex_indices", ct, it) fc.verts hn h4
      [((nm "flags", .uchar, .int), 1)] (-1) bufs (showNat fc.extra.length :: (fc.extra.map showInt ++ []))
    cases tf <;>
      simpa [readFaceAscii, faceToksRef, lpOf, SpecFaceElem.lists, idxPos, List.zipIdx, faceListAscii,
        readFaceAscii.go] using h1
  · have h2 := goA_skip c ⟨some 1, none⟩ 0 (by simp) (by simp) (nm "flags", .uchar, .int) fc.extra hxn
      [((if short then nm "vertex_index" else nm "vertex_indices", ct, it), 1)] (-1) bufs
      (showNat fc.verts.length :: (fc.verts.map showNat ++ []))
    have h1 := goA_idx_long c ⟨some 1, none⟩ 1 rfl
      (if short then nm "vertex_index" else nm "vertex_indices", ct, it) fc.verts hn h4 [] (-1) bufs []
    rw [h1] at h2
    cases tf <;>
      simpa [readFaceAscii, faceToksRef, lpOf, SpecFaceElem.lists, idxPos, List.zipIdx, faceListAscii,
        readFaceAscii.go] using h2

/-- the ASCII face loop over a run of triangle / quad lines goes on with the remaining faces on the following lines -/
theorem readFacesAscii_ref_prefix (c : Coding α) (fe : SpecFaceElem α) (htex : fe.tex = none) :
    ∀ (pre : List (SpecFace α)), (∀ fc ∈ pre, FaceEncOK fe fc ∧ TriOrQuad fc) → ∀ (b : FaceBufs α), BufsOk b →
      ∃ b', BufsOk b' ∧ ∀ (n : Nat) (tail : List Bytes),
        readFacesAscii c (lpOf fe) (findFaceProps (lpOf fe)) (pre.length + n) b (faceLines c fe pre ++ tail)
          = (do
              let (i, u) ← readFacesAscii c (lpOf fe) (findFaceProps (lpOf fe)) n b' tail
              pure (fanIdx pre ++ i, u)) := by
  intro pre
  induction pre with
  | nil =>
    intro _ b hb
    refine ⟨b, hb, fun n tail => ?_⟩
    simp only [List.length_nil, Nat.zero_add, faceLines, List.map_nil, List.nil_append, fanIdx, List.flatten_nil]
    cases readFacesAscii c (lpOf fe) (findFaceProps (lpOf fe)) n b tail <;> rfl
  | cons fc pre ih =>
    intro hpre b hb
    obtain ⟨hok, htq⟩ := hpre fc (by simp)
    have h4 : fc.verts.length ≤ 4 := by rcases htq with h | h <;> omega
    have hb' : BufsOk (afterRefA fc.verts b) := by rw [afterRefA_eq _ h4]; exact afterRef_ok _ _ hb
    obtain ⟨b', hb'', hrest⟩ := ih (fun g hg => hpre g (by simp [hg])) (afterRefA fc.verts b) hb'
    refine ⟨b', hb'', fun n tail => ?_⟩
    obtain ⟨hne, htk⟩ := faceToksRef_tok c fe htex fc
    have hfl := (token_line _ hne htk).2
    have h1 := readFaceAscii_ref c fe htex fc hok h4 b
    have h2 := emitFace_ref fc.verts htq b hb
    rw [← afterRefA_eq _ h4] at h2
    have hT : (findFaceProps (lpOf fe)).texProp.isSome = false := by rw [findFaceProps_ref fe htex]; rfl
    have hlen : (fc :: pre).length + n = (pre.length + n) + 1 := by simp; omega
    have h3 := hrest n tail
    simp only [faceLines] at h3
    rw [hlen]
    simp only [faceLines, List.map_cons, List.cons_append, readFacesAscii, hfl, h1, bind, Except.bind, hT, h2, h3]
    cases readFacesAscii c (lpOf fe) (findFaceProps (lpOf fe)) n b' tail with
    | error _ => rfl
    | ok r => simp [fanIdx, pure, Except.pure]

/-- A FACE OF ANOTHER SIZE after a run of triangles / quads: the ASCII loop stops with an error -/
theorem readFacesAscii_ref_reject (c : Coding α) (fe : SpecFaceElem α) (htex : fe.tex = none)
    (pre : List (SpecFace α)) (bad : SpecFace α) (post : List (SpecFace α))
    (hpre : ∀ fc ∈ pre, FaceEncOK fe fc ∧ TriOrQuad fc) (hbad : FaceEncOK fe bad) (hsize : ¬ TriOrQuad bad)
    (b : FaceBufs α) (hb : BufsOk b) :
    readFacesAscii c (lpOf fe) (findFaceProps (lpOf fe)) (pre ++ bad :: post).length b
        (faceLines c fe (pre ++ bad :: post)) = .error .err := by
  obtain ⟨b', _, h⟩ := readFacesAscii_ref_prefix c fe htex pre hpre b hb
  have hlen : (pre ++ bad :: post).length = pre.length + (post.length + 1) := by simp
  have hlines : faceLines c fe (pre ++ bad :: post)
      = faceLines c fe pre ++ (intercalate sp (faceToksRef c fe bad) :: faceLines c fe post) := by
    simp [faceLines]
  rw [hlen, hlines, h]
  obtain ⟨hne, htk⟩ := faceToksRef_tok c fe htex bad
  have hfl := (token_line _ hne htk).2
  by_cases h4 : bad.verts.length ≤ 4
  · have h1 := readFaceAscii_ref c fe htex bad hbad h4 b'
    have h2 := emitFace_reject bad.verts hsize (findFaceProps (lpOf fe)).texProp.isSome b'
    rw [← afterRefA_eq _ h4] at h2
    simp only [readFacesAscii, hfl, h1, bind, Except.bind, h2]
  · have h1 := readFaceAscii_ref_long c fe htex bad hbad (by omega) b'
    simp only [readFacesAscii, hfl, h1, bind, Except.bind]

end PlyFacesAscii
end PolyVerif
