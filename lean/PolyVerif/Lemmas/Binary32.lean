/-
  IEEE 754 binary32 over ℝ and the specification encoder `B32.roundMag` / `B32.q32spec` (Model/Binary32.lean, the
  definition the C07 driver runs for `c07.q32spec` against Go's `float32(x)`): the generalisation of
  Lemmas/Half.lean (binary16) — value of a finite pattern as an integer over 2^150, one-ulp steps, monotonicity,
  and for the encoder: the bracket `val h0 ≤ x < val h0 + ulp`, the nearest/ties-to-even choice, half-ulp and relative
  2^-24 error, overflow to the infinity pattern, idempotence on every finite pattern.
-/
import PolyVerif.Model.Binary32
import Mathlib.Tactic

set_option exponentiation.threshold 300

namespace PolyVerif
namespace B32

/-! ### the independent specification: IEEE 754-2008 §3.4, binary32 (w = 8, t = 23, p = 24, bias = 127, emin = −126) -/

namespace Ieee
inductive Value where
  | finite (x : ℝ)
  | inf (negative : Bool)
  | nan

/-- §3.4 a)–e) on the fields of a 32-bit pattern: sign = bit 31, biased exponent = bits 30–23, trailing
    significand = bits 22–0 -/
noncomputable def binary32 (b : BitVec 32) : Value :=
  let S := b.msb
  let Ex := (b.extractLsb' 23 8).toNat
  let T := (b.extractLsb' 0 23).toNat
  if Ex = 255 then (if T ≠ 0 then .nan else .inf S)
  else if 1 ≤ Ex then .finite ((-1) ^ S.toNat * (2 : ℝ) ^ ((Ex : ℤ) - 127) * (1 + (2 : ℝ) ^ (-23 : ℤ) * T))
  else .finite ((-1) ^ S.toNat * (2 : ℝ) ^ (-126 : ℤ) * (0 + (2 : ℝ) ^ (-23 : ℤ) * T))
end Ieee

/-! ### finite magnitudes as integers over 2^150 -/

theorem expOf_lt (h : Nat) (hh : h < 2147483648) : expOf h = h / 8388608 := by unfold expOf; omega

/-- exponent of the unit in the last place (over 2^150): `max e 1` -/
def ulpExp (h : Nat) : Nat := max (expOf h) 1

/-- consecutive non-negative patterns differ by exactly one unit in the last place of the lower one (the pattern
    after 0x7f7fffff, the infinity pattern, carries the would-be next value 2^128) -/
theorem num_succ (h : Nat) (hh : h + 1 < 2147483648) : num (h + 1) = num h + 2 ^ ulpExp h := by
  have e1 := expOf_lt h (by omega)
  have e2 := expOf_lt (h + 1) (by omega)
  unfold ulpExp num manOf
  rw [e1, e2]
  by_cases hm : h % 8388608 = 8388607
  · have a : (h + 1) / 8388608 = h / 8388608 + 1 := by omega
    have b : (h + 1) % 8388608 = 0 := by omega
    rw [a, b, hm]
    by_cases h0 : h / 8388608 = 0
    · simp [h0]
    · simp only [Nat.add_eq_zero_iff, one_ne_zero, and_false, if_false, h0, Nat.add_zero]
      rw [Nat.max_eq_left (by omega)]; ring
  · have a : (h + 1) / 8388608 = h / 8388608 := by omega
    have b : (h + 1) % 8388608 = h % 8388608 + 1 := by omega
    rw [a, b]
    by_cases h0 : h / 8388608 = 0
    · simp only [h0, if_true]; norm_num; ring
    · simp only [h0, if_false]
      rw [Nat.max_eq_left (by omega)]; ring

theorem num_lt_succ (h : Nat) (hh : h + 1 < 2147483648) : num h < num (h + 1) := by
  rw [num_succ h hh]; exact Nat.lt_add_of_pos_right (Nat.pow_pos (by norm_num))

theorem num_strictMono {a b : Nat} (hab : a < b) (hb : b < 2147483648) : num a < num b := by
  induction b with
  | zero => omega
  | succ b ih =>
    rcases Nat.lt_succ_iff_lt_or_eq.mp hab with h | h
    · exact lt_trans (ih h (by omega)) (num_lt_succ b hb)
    · subst h; exact num_lt_succ a hb

theorem num_mono {a b : Nat} (hab : a ≤ b) (hb : b < 2147483648) : num a ≤ num b := by
  rcases Nat.lt_or_eq_of_le hab with h | h
  · exact (num_strictMono h hb).le
  · subst h; exact le_refl _

theorem num_injective {a b : Nat} (ha : a < 2147483648) (hb : b < 2147483648) (h : num a = num b) : a = b := by
  rcases Nat.lt_trichotomy a b with l | e | g
  · exact absurd h (Nat.ne_of_lt (num_strictMono l hb))
  · exact e
  · exact absurd h.symm (Nat.ne_of_lt (num_strictMono g ha))

/-- every finite magnitude has a 24-bit significand: `num h = s·2^k`, `s < 2^24`, `1 ≤ k ≤ 254` -/
theorem num_dyadic (h : Nat) (he : expOf h ≠ 255) :
    ∃ s k : Nat, s < 2 ^ 24 ∧ 1 ≤ k ∧ k ≤ 254 ∧ num h = s * 2 ^ k := by
  have hm : manOf h < 8388608 := Nat.mod_lt _ (by norm_num)
  have hx : expOf h < 256 := Nat.mod_lt _ (by norm_num)
  unfold num
  by_cases h0 : expOf h = 0
  · exact ⟨manOf h, 1, by omega, le_refl _, by norm_num, by simp [h0]⟩
  · exact ⟨8388608 + manOf h, expOf h, by omega, by omega, by omega, by simp [h0]⟩

/-- the pattern with unit exponent `e` and integer significand `q` (hidden bit included; `q < 2^23` only in the
    subnormal range `e = 1`) -/
theorem pat_of (e q : Nat) (he1 : 1 ≤ e) (he2 : e ≤ 254) (hq : q < 16777216) (hs : e = 1 ∨ 8388608 ≤ q) :
    (e - 1) * 8388608 + q < infPat ∧ num ((e - 1) * 8388608 + q) = q * 2 ^ e ∧
      ulpExp ((e - 1) * 8388608 + q) = e := by
  unfold infPat ulpExp num
  by_cases hq2 : q < 8388608
  · have : e = 1 := by omega
    subst this
    have a : expOf ((1 - 1) * 8388608 + q) = 0 := by unfold expOf; omega
    have b : manOf ((1 - 1) * 8388608 + q) = q := by unfold manOf; omega
    rw [a, b, if_pos rfl]
    exact ⟨by omega, by ring, rfl⟩
  · have a : expOf ((e - 1) * 8388608 + q) = e := by unfold expOf; omega
    have b : manOf ((e - 1) * 8388608 + q) = q - 8388608 := by unfold manOf; omega
    rw [a, b, if_neg (by omega), Nat.max_eq_left he1]
    have hc : 8388608 + (q - 8388608) = q := by omega
    rw [hc]
    exact ⟨by omega, rfl, rfl⟩

/-! ### magnitudes as reals -/

/-- magnitude of a non-negative pattern (for 0x7f800000: the would-be next value 2^128) -/
noncomputable def val (h : Nat) : ℝ := (num h : ℝ) / 2 ^ 150

theorem val_nonneg (h : Nat) : 0 ≤ val h := by unfold val; positivity

theorem val_mono {a b : Nat} (hab : a ≤ b) (hb : b < 2147483648) : val a ≤ val b := by
  unfold val; gcongr; exact num_mono hab hb

theorem val_strictMono {a b : Nat} (hab : a < b) (hb : b < 2147483648) : val a < val b := by
  unfold val; gcongr; exact num_strictMono hab hb

theorem val_succ (h : Nat) (hh : h + 1 < 2147483648) : val (h + 1) = val h + 2 ^ ulpExp h / 2 ^ 150 := by
  unfold val; rw [num_succ h hh]; push_cast; ring

/-! ### the encoder -/

/-- the choice of the unit exponent: for `fl = ⌊y⌋ < 2^278` the integer significand `⌊fl / 2^e⌋` has 24 bits, with
    the hidden bit set above the subnormal range -/
theorem unit_exp (fl : Nat) (hfl : fl < 2 ^ 278) :
    let e := if fl < 16777216 then 1 else Nat.log2 fl - 23
    1 ≤ e ∧ e ≤ 254 ∧ fl / 2 ^ e < 16777216 ∧ (e = 1 ∨ 8388608 ≤ fl / 2 ^ e) := by
  intro e
  by_cases hs : fl < 16777216
  · have he : e = 1 := if_pos hs
    rw [he]
    refine ⟨le_refl _, by norm_num, ?_, Or.inl rfl⟩
    omega
  · have he : e = Nat.log2 fl - 23 := if_neg hs
    have hne : fl ≠ 0 := by omega
    have hlo : 2 ^ Nat.log2 fl ≤ fl := Nat.log2_self_le hne
    have hhi : fl < 2 ^ (Nat.log2 fl + 1) := Nat.lt_log2_self
    have hL : 24 ≤ Nat.log2 fl := by
      by_contra hc
      have : Nat.log2 fl + 1 ≤ 24 := by omega
      have := Nat.pow_le_pow_right (n := 2) (by norm_num) this
      omega
    have hU : Nat.log2 fl < 278 := by
      by_contra hc
      have := Nat.pow_le_pow_right (n := 2) (by norm_num) (show 278 ≤ Nat.log2 fl by omega)
      omega
    have hsplit : 2 ^ Nat.log2 fl = 8388608 * 2 ^ e := by
      rw [he, show (8388608 : ℕ) = 2 ^ 23 by norm_num, ← pow_add]; congr 1; omega
    have hsplit2 : 2 ^ (Nat.log2 fl + 1) = 16777216 * 2 ^ e := by
      rw [pow_succ, hsplit]; ring
    have hp : 0 < 2 ^ e := Nat.pow_pos (by norm_num)
    refine ⟨by omega, by omega, ?_, Or.inr ?_⟩
    · rw [Nat.div_lt_iff_lt_mul hp]; omega
    · rw [Nat.le_div_iff_mul_le hp]; omega

/-- what `pick` computes for `y = Y/d` when the integer significand `⌊y/2^e⌋` has 24 bits -/
structure Bracket (Y d R : Nat) (e h0 : Nat) : Prop where
  e1 : 1 ≤ e
  e2 : e ≤ 254
  fin : h0 < infPat
  ulp : ulpExp h0 = e
  /-- `val h0 ≤ x`, as integers: `num h0 · d ≤ Y` -/
  lo : num h0 * d ≤ Y
  /-- `x < val h0 + ulp` -/
  hi : Y < (num h0 + 2 ^ e) * d
  /-- the choice: below the midpoint the lower pattern, above it the upper, at it the even one -/
  choice : (R = h0 ∧ 2 * (Y - num h0 * d) ≤ 2 ^ e * d ∧ (2 * (Y - num h0 * d) = 2 ^ e * d → h0 % 2 = 0)) ∨
           (R = h0 + 1 ∧ 2 ^ e * d ≤ 2 * (Y - num h0 * d) ∧ (2 * (Y - num h0 * d) = 2 ^ e * d → h0 % 2 = 1))

theorem pick_core (Y Dq D r h0 B : Nat) (hdm : Dq + r = Y) (hml : r < D) (hfin : h0 < B) :
    Dq ≤ Y ∧ Y < Dq + D ∧
    ((min (if 2 * r < D then h0 else if D < 2 * r then h0 + 1 else if h0 % 2 = 0 then h0 else h0 + 1) B = h0 ∧
        2 * (Y - Dq) ≤ D ∧ (2 * (Y - Dq) = D → h0 % 2 = 0)) ∨
     (min (if 2 * r < D then h0 else if D < 2 * r then h0 + 1 else if h0 % 2 = 0 then h0 else h0 + 1) B = h0 + 1 ∧
        D ≤ 2 * (Y - Dq) ∧ (2 * (Y - Dq) = D → h0 % 2 = 1))) := by
  refine ⟨by omega, by omega, ?_⟩
  split_ifs with c1 c2 c3
  · left; exact ⟨Nat.min_eq_left (by omega), by omega, fun h => by omega⟩
  · right; exact ⟨Nat.min_eq_left (by omega), by omega, fun h => by omega⟩
  · left; exact ⟨Nat.min_eq_left (by omega), by omega, fun _ => c3⟩
  · right; exact ⟨Nat.min_eq_left (by omega), by omega, fun _ => by omega⟩

theorem pick_bracket (Y d e : Nat) (hd : 0 < d) (he1 : 1 ≤ e) (he2 : e ≤ 254)
    (hq : Y / (d * 2 ^ e) < 16777216) (hs : e = 1 ∨ 8388608 ≤ Y / (d * 2 ^ e)) :
    Bracket Y d (pick Y d e) e ((e - 1) * 8388608 + Y / (d * 2 ^ e)) := by
  have hD : 0 < d * 2 ^ e := Nat.mul_pos hd (Nat.pow_pos (by norm_num))
  obtain ⟨hfinp, hnum, hulp⟩ := pat_of e (Y / (d * 2 ^ e)) he1 he2 hq hs
  have hdm := Nat.div_add_mod Y (d * 2 ^ e)
  have hml := Nat.mod_lt Y hD
  have e1 : num ((e - 1) * 8388608 + Y / (d * 2 ^ e)) * d = d * 2 ^ e * (Y / (d * 2 ^ e)) := by rw [hnum]; ring
  have e2 : (num ((e - 1) * 8388608 + Y / (d * 2 ^ e)) + 2 ^ e) * d =
      d * 2 ^ e * (Y / (d * 2 ^ e)) + d * 2 ^ e := by rw [hnum]; ring
  have e3 : 2 ^ e * d = d * 2 ^ e := by ring
  obtain ⟨c1, c2, c3⟩ := pick_core Y (d * 2 ^ e * (Y / (d * 2 ^ e))) (d * 2 ^ e) (Y % (d * 2 ^ e))
    ((e - 1) * 8388608 + Y / (d * 2 ^ e)) infPat hdm hml hfinp
  refine ⟨he1, he2, hfinp, hulp, by rw [e1]; exact c1, by rw [e2]; exact c2, ?_⟩
  rw [e1, e3]
  exact c3

theorem roundMag_bracket (n d : Nat) (hd : 0 < d) (hfin : n * 2 ^ 150 / d < 2 ^ 278) :
    ∃ e h0, Bracket (n * 2 ^ 150) d (roundMag n d) e h0 := by
  obtain ⟨he1, he2, hq, hs⟩ := unit_exp (n * 2 ^ 150 / d) hfin
  rw [Nat.div_div_eq_div_mul] at hq hs
  exact ⟨_, _, pick_bracket _ d _ hd he1 he2 hq hs⟩

/-! ### consequences over ℝ for `x = n/d` -/

theorem bracket_real {n d R e h0 : Nat} (hd : 0 < d) (hB : Bracket (n * 2 ^ 150) d R e h0) :
    val h0 ≤ (n : ℝ) / d ∧ (n : ℝ) / d < val h0 + 2 ^ e / 2 ^ 150 ∧ |val R - (n : ℝ) / d| ≤ 2 ^ e / 2 ^ 151 := by
  have hdR : (0 : ℝ) < d := by exact_mod_cast hd
  have hlo : (num h0 : ℝ) * d ≤ n * 2 ^ 150 := by exact_mod_cast hB.lo
  have hhi : (n : ℝ) * 2 ^ 150 < (num h0 + 2 ^ e) * d := by exact_mod_cast hB.hi
  have h1 : val h0 ≤ (n : ℝ) / d := by
    unfold val; rw [div_le_div_iff₀ (by positivity) hdR]; linarith
  have h2 : (n : ℝ) / d < val h0 + 2 ^ e / 2 ^ 150 := by
    unfold val; rw [← add_div, div_lt_div_iff₀ hdR (by positivity)]; linarith
  have hsub : ((n * 2 ^ 150 - num h0 * d : ℕ) : ℝ) = (n : ℝ) * 2 ^ 150 - num h0 * d := by
    rw [Nat.cast_sub hB.lo]; push_cast; ring
  have hx : (n : ℝ) / d - val h0 = ((n : ℝ) * 2 ^ 150 - num h0 * d) / (d * 2 ^ 150) := by
    unfold val; field_simp
  refine ⟨h1, h2, ?_⟩
  rcases hB.choice with ⟨eR, c, _⟩ | ⟨eR, c, _⟩
  · have c' : (2 : ℝ) * ((n : ℝ) * 2 ^ 150 - num h0 * d) ≤ 2 ^ e * d := by
      rw [← hsub]; exact_mod_cast c
    rw [eR, abs_sub_comm, abs_of_nonneg (by linarith), hx, div_le_div_iff₀ (by positivity) (by positivity)]
    have : (2 : ℝ) ^ 151 = 2 * 2 ^ 150 := by norm_num
    rw [this]; nlinarith [pow_pos (show (0:ℝ) < 2 by norm_num) 150]
  · have c' : (2 : ℝ) ^ e * d ≤ 2 * ((n : ℝ) * 2 ^ 150 - num h0 * d) := by
      rw [← hsub]; exact_mod_cast c
    have hfin := hB.fin
    unfold infPat at hfin
    rw [eR, val_succ h0 (by omega), hB.ulp, abs_of_nonneg (by linarith)]
    have : val h0 + 2 ^ e / 2 ^ 150 - (n : ℝ) / d = 2 ^ e / 2 ^ 150 - ((n : ℝ) / d - val h0) := by ring
    rw [this, hx, sub_le_iff_le_add, div_add_div _ _ (by positivity) (by positivity),
      div_le_div_iff₀ (by positivity) (by positivity)]
    have : (2 : ℝ) ^ 151 = 2 * 2 ^ 150 := by norm_num
    rw [this]; nlinarith [pow_pos (show (0:ℝ) < 2 by norm_num) 150, pow_pos (show (0:ℝ) < 2 by norm_num) e]

/-! ### closed values, overflow, idempotence, relative error -/

theorem num_zero : num 0 = 0 := by decide
theorem num_minNormal : num 8388608 = 2 ^ 24 := by decide
theorem num_maxFinite : num 2139095039 = (2 ^ 24 - 1) * 2 ^ 254 := by decide
theorem num_infPat : num infPat = 2 ^ 278 := by decide
theorem ulpExp_maxFinite : ulpExp 2139095039 = 254 := by unfold ulpExp expOf; norm_num

/-- the overflow threshold `max finite + half ulp = (2^25 − 1)·2^103`, over 2^150 -/
def thrNum : Nat := (2 ^ 25 - 1) * 2 ^ 253
/-- largest finite value over 2^150, and half its unit in the last place -/
def maxNum : Nat := (2 ^ 24 - 1) * 2 ^ 254
def halfTop : Nat := 2 ^ 253
theorem thr_eq : thrNum = maxNum + halfTop := by decide
theorem pow254 : 2 ^ 254 = 2 * halfTop := by decide
theorem num_maxFinite' : num 2139095039 = maxNum := by decide
theorem maxNum_le_thr : maxNum ≤ thrNum := by decide
theorem thr_le : thrNum ≤ 2 ^ 278 := by decide

/-- at the top pattern: rounding up happens exactly from the threshold on -/
theorem top_core (Y d R : Nat) (hB : Bracket Y d R 254 2139095039) :
    (Y < thrNum * d → R = 2139095039) ∧ (thrNum * d ≤ Y → R = 2139095040) := by
  have hlo := hB.lo
  have hch := hB.choice
  rw [num_maxFinite'] at hlo hch
  rw [pow254] at hch
  have e1 : thrNum * d = maxNum * d + halfTop * d := by rw [thr_eq, Nat.add_mul]
  have e2 : 2 * halfTop * d = 2 * (halfTop * d) := Nat.mul_assoc _ _ _
  rw [e1]; rw [e2] at hch
  generalize maxNum * d = A at *
  generalize halfTop * d = B at *
  constructor
  · intro hx
    rcases hch with ⟨eR, _, _⟩ | ⟨_, c, _⟩
    · exact eR
    · omega
  · intro hx
    rcases hch with ⟨_, c, ct⟩ | ⟨eR, _, _⟩
    · have : 2 * (Y - A) = 2 * B := by omega
      have := ct this
      omega
    · exact eR

theorem bracket_unique {Y d R e h0 : Nat} (hd : 0 < d) (hB : Bracket Y d R e h0) (b : Nat) (hb : b < infPat)
    (h1 : num b * d ≤ Y) (h2 : Y < (num b + 2 ^ ulpExp b) * d) : h0 = b := by
  have hfin := hB.fin
  unfold infPat at hfin hb
  have s0 := num_succ h0 (by omega)
  have sb := num_succ b (by omega)
  rw [hB.ulp] at s0
  rcases Nat.lt_trichotomy h0 b with l | e | g
  · have := num_mono (show h0 + 1 ≤ b by omega) (by omega)
    have h3 := hB.hi
    rw [← s0] at h3
    have := Nat.mul_le_mul_right d this
    omega
  · exact e
  · have := num_mono (show b + 1 ≤ h0 by omega) (by omega)
    rw [← sb] at h2
    have := Nat.mul_le_mul_right d this
    have := hB.lo
    omega

/-- IDEMPOTENCE: a finite binary32 value is reproduced exactly -/
theorem roundMag_num (b : Nat) (hb : b < infPat) : roundMag (num b) (2 ^ 150) = b := by
  have hp : 0 < 2 ^ 150 := Nat.pow_pos (by norm_num)
  have hlt : num b < 2 ^ 278 := by
    rw [← num_infPat]; exact num_strictMono hb (by unfold infPat; norm_num)
  obtain ⟨e, h0, hB⟩ := roundMag_bracket (num b) (2 ^ 150) hp (by rw [Nat.mul_div_cancel _ hp]; exact hlt)
  have hu := bracket_unique hp hB b hb (le_refl _) (by
    rw [Nat.add_mul]; exact Nat.lt_add_of_pos_right (Nat.mul_pos (Nat.pow_pos (by norm_num)) hp))
  subst hu
  rcases hB.choice with ⟨eR, _, _⟩ | ⟨_, c, _⟩
  · exact eR
  · rw [Nat.sub_self, Nat.mul_zero] at c
    have : 0 < 2 ^ e * 2 ^ 150 := Nat.mul_pos (Nat.pow_pos (by norm_num)) hp
    omega

theorem pick_big (Y d e : Nat) (hE : 255 ≤ e) (hq : 8388608 ≤ Y / (d * 2 ^ e)) : pick Y d e = infPat := by
  unfold pick
  simp only []
  apply Nat.min_eq_right
  unfold infPat
  have := Nat.mul_le_mul_right 8388608 (show 254 ≤ e - 1 by omega)
  split_ifs <;> omega

/-- below the threshold the result is a finite pattern -/
theorem roundMag_finite (n d : Nat) (hd : 0 < d) (hx : n * 2 ^ 150 < thrNum * d) : roundMag n d < infPat := by
  have hfl : n * 2 ^ 150 / d < 2 ^ 278 := by
    rw [Nat.div_lt_iff_lt_mul hd]
    exact lt_of_lt_of_le hx (Nat.mul_le_mul_right d thr_le)
  obtain ⟨e, h0, hB⟩ := roundMag_bracket n d hd hfl
  have hfin := hB.fin
  rcases hB.choice with ⟨eR, _, _⟩ | ⟨eR, c, _⟩
  · rw [eR]; exact hfin
  · by_cases h0e : h0 = 2139095039
    · subst h0e
      have hu : e = 254 := by rw [← hB.ulp]; exact ulpExp_maxFinite
      subst hu
      rw [(top_core _ d _ hB).1 hx]; unfold infPat; norm_num
    · rw [eR]; unfold infPat at *; omega

/-- OVERFLOW: at and above `max finite + half ulp` (the tie goes to the even pattern, which is the infinity's) the
    result is the infinity pattern -/
theorem roundMag_overflow (n d : Nat) (hd : 0 < d) (hx : thrNum * d ≤ n * 2 ^ 150) : roundMag n d = infPat := by
  by_cases hfl : n * 2 ^ 150 / d < 2 ^ 278
  · obtain ⟨e, h0, hB⟩ := roundMag_bracket n d hd hfl
    have hfin := hB.fin
    have h0e : h0 = 2139095039 := by
      by_contra hne
      unfold infPat at hfin
      have hs := num_succ h0 (by omega)
      rw [hB.ulp] at hs
      have hm := num_mono (show h0 + 1 ≤ 2139095039 by omega) (by norm_num)
      rw [num_maxFinite'] at hm
      have hi := hB.hi
      rw [← hs] at hi
      have h1 := Nat.mul_le_mul_right d hm
      have h2 : maxNum * d ≤ thrNum * d := Nat.mul_le_mul_right d maxNum_le_thr
      exact absurd (lt_of_lt_of_le hi (le_trans h1 h2)) (not_lt.mpr hx)
    subst h0e
    have hu : e = 254 := by rw [← hB.ulp]; exact ulpExp_maxFinite
    subst hu
    exact (top_core _ d _ hB).2 hx
  · -- beyond 2^128: the pattern below is already past the infinity pattern
    have hge : 2 ^ 278 ≤ n * 2 ^ 150 / d := by omega
    generalize hfl' : n * 2 ^ 150 / d = fl at *
    have hne : fl ≠ 0 := by
      have : 0 < 2 ^ 278 := Nat.pow_pos (by norm_num)
      omega
    have hlo : 2 ^ Nat.log2 fl ≤ fl := Nat.log2_self_le hne
    have hhi : fl < 2 ^ (Nat.log2 fl + 1) := Nat.lt_log2_self
    have hL : 278 ≤ Nat.log2 fl := by
      by_contra hc
      have := Nat.pow_le_pow_right (n := 2) (by norm_num) (show Nat.log2 fl + 1 ≤ 278 by omega)
      omega
    have hns : ¬ fl < 16777216 := by
      have : (16777216 : ℕ) ≤ 2 ^ 278 := by norm_num
      omega
    have hsplit : 2 ^ Nat.log2 fl = 8388608 * 2 ^ (Nat.log2 fl - 23) := by
      rw [show (8388608 : ℕ) = 2 ^ 23 by norm_num, ← pow_add]; congr 1; omega
    have hp : 0 < 2 ^ (Nat.log2 fl - 23) := Nat.pow_pos (by norm_num)
    have hq : 8388608 ≤ fl / 2 ^ (Nat.log2 fl - 23) := by
      rw [Nat.le_div_iff_mul_le hp]; omega
    have hq2 : 8388608 ≤ n * 2 ^ 150 / (d * 2 ^ (Nat.log2 fl - 23)) := by
      rw [← Nat.div_div_eq_div_mul, hfl']; exact hq
    unfold roundMag
    simp only [hfl', if_neg hns]
    exact pick_big _ _ _ (by omega) hq2

/-- NORMAL RANGE: a pattern at or above the smallest normal one has value at least `2^23` units in the last place -/
theorem num_ge_normal (h : Nat) (h1 : 8388608 ≤ h) (h2 : h < 2147483648) : 8388608 * 2 ^ ulpExp h ≤ num h := by
  have he := expOf_lt h h2
  have hpos : 1 ≤ expOf h := by rw [he]; omega
  unfold ulpExp num
  rw [if_neg (by omega), Nat.max_eq_left hpos]
  exact Nat.mul_le_mul_right _ (by omega)

/-- relative error `2^-24` in the normal range `2^-126 ≤ x` -/
theorem bracket_relative {n d R e h0 : Nat} (hd : 0 < d) (hB : Bracket (n * 2 ^ 150) d R e h0)
    (hn : 2 ^ 24 * d ≤ n * 2 ^ 150) : |val R - (n : ℝ) / d| ≤ (n : ℝ) / d / 2 ^ 24 := by
  obtain ⟨h1, _, h3⟩ := bracket_real hd hB
  have hfin := hB.fin
  unfold infPat at hfin
  have hnorm : 8388608 ≤ h0 := by
    by_contra hc
    have hm := num_mono (show h0 + 1 ≤ 8388608 by omega) (by norm_num)
    rw [num_minNormal, num_succ h0 (by omega), hB.ulp] at hm
    have := Nat.mul_le_mul_right d hm
    have := hB.hi
    omega
  have hg := num_ge_normal h0 hnorm (by omega)
  rw [hB.ulp] at hg
  have hgR : (8388608 : ℝ) * 2 ^ e ≤ num h0 := by exact_mod_cast hg
  have hv : (2 : ℝ) ^ e / 2 ^ 151 ≤ val h0 / 2 ^ 24 := by
    unfold val
    rw [div_div, div_le_div_iff₀ (by positivity) (by positivity)]
    have h174 : (2 : ℝ) ^ 150 * 2 ^ 24 = 8388608 * 2 ^ 151 := by norm_num
    calc (2 : ℝ) ^ e * (2 ^ 150 * 2 ^ 24) = ((8388608 : ℝ) * 2 ^ e) * 2 ^ 151 := by rw [h174]; ring
      _ ≤ (num h0 : ℝ) * 2 ^ 151 := by gcongr
  calc |val R - (n : ℝ) / d| ≤ 2 ^ e / 2 ^ 151 := h3
    _ ≤ val h0 / 2 ^ 24 := hv
    _ ≤ (n : ℝ) / d / 2 ^ 24 := by gcongr

end B32
end PolyVerif
