/-
  C03 lemmas: weld = re-point every surviving corner at the representative of its key class, drop
  the vertices that are no longer referenced; nothing else.  Plus: what the representatives are.
-/
import PolyVerif.Lemmas.MeshAppend

namespace PolyVerif.Mesh
variable {α : Type}

theorem gather_getElem? {d : List α} {reps : List Nat} (h : ∀ r ∈ reps, r < d.length) {c r : Nat}
    (hc : reps[c]? = some r) : (gather d reps)[c]? = d[r]? := by
  have h1 := congrArg (fun l => l[c]?) (gather_map_some h)
  simp only [List.getElem?_map, hc, Option.map_some] at h1
  have hr : r < d.length := h r (List.mem_of_getElem? hc)
  rw [List.getElem?_eq_getElem hr] at h1 ⊢
  cases hg : (gather d reps)[c]? with
  | none => simp [hg] at h1
  | some v => simp only [hg, Option.map_some, Option.some.injEq] at h1; rw [h1]

theorem map_gather_eq {d : List α} {reps : List Nat} (h : ∀ r ∈ reps, r < d.length) :
    ∀ (T : List Nat), (∀ c ∈ T, c < reps.length) →
      T.map (fun c => (gather d reps)[c]?) = (T.filterMap fun c => reps[c]?).map fun i => d[i]?
  | [], _ => by simp
  | c :: T, hT => by
    have hc : c < reps.length := hT c (by simp)
    have hr : reps[c]? = some reps[c] := List.getElem?_eq_getElem hc
    simp only [List.map_cons, List.filterMap_cons, hr, gather_getElem? h hr]
    rw [map_gather_eq h T (fun c' hc' => hT c' (by simp [hc']))]

namespace MeshVal
section weld
variable {K : Type} [DecidableEq K]

/-- Weld keeps, for every surviving corner, the attribute tuple of its class representative, in
    order: the result has the corners of the input re-indexed by `weldRepIdx`. -/
theorem weld_corners {m m' : MeshVal α} (h : WF m) {k : AttrKey} {key : α → K}
    (hw : m.weld k key = some m') :
    ∃ d, m.attr? k = some d ∧ m'.topology = m.topology ∧ m'.materials = [] ∧
      m'.corners = (m.setIndices (weldRepIdx key d m.indices)).corners := by
  unfold weld at hw
  split at hw
  case isFalse => cases hw
  case isTrue ht =>
    split at hw
    · cases hw
    · rename_i d hd
      dsimp only at hw
      cases hw
      refine ⟨d, hd, rfl, rfl, ?_⟩
      have hkd : (k, d) ∈ m.attrs := Attrs.find?_mem hd
      have hdl : d.length = m.attrLen := h.1 _ hkd
      have hreps : ∀ kd ∈ m.attrs, ∀ i ∈ (firsts key d).map (·.2), i < kd.2.length := by
        intro kd hk i hi
        simp only [List.mem_map] at hi
        obtain ⟨c, hc, rfl⟩ := hi
        rw [h.1 kd hk, ← hdl]; exact firsts_bound key d c hc
      have hlt : ∀ i ∈ untriples ((triples m.indices).filterMap (weldTri key d (firsts key d))),
          i < (firsts key d).length := by
        intro i hi
        obtain ⟨t, ht', hx⟩ := mem_untriples hi
        simp only [List.mem_filterMap] at ht'
        obtain ⟨t0, _, ht0⟩ := ht'
        have := weldTri_lt ht0
        rcases hx with rfl | rfl | rfl
        · exact this.1
        · exact this.2.1
        · exact this.2.2
      have hw' : WF ({ topology := m.topology,
                       indices := untriples ((triples m.indices).filterMap (weldTri key d (firsts key d))),
                       materials := [],
                       attrs := mapAttrs (fun vals => gather vals ((firsts key d).map (·.2))) m.attrs } : MeshVal α) := by
        apply wf_of_uniform (firsts key d).length
        · intro kd hk
          simp only [mapAttrs, List.mem_map] at hk
          obtain ⟨kd0, hk0, rfl⟩ := hk
          rw [gather_length (hreps kd0 hk0)]; simp
        · exact hlt
        · intro hnil
          have : m.attrs = [] := by simpa [mapAttrs] using hnil
          rw [this] at hkd; simp at hkd
        · rw [ht]; show (untriples _).length % 3 = 0
          rw [length_untriples]; omega
      have hal := hw'.1 (k, gather d ((firsts key d).map (·.2))) (by
        simp only [mapAttrs, List.mem_map]; exact ⟨(k, d), hkd, rfl⟩)
      rw [gather_length (hreps _ hkd)] at hal
      simp only [List.length_map] at hal
      rw [compactVertices_corners hw' _ (by rw [usedFlags_length]; exact hal)
        (fun i hi => usedFlags_getElem? hi (hlt i hi))]
      simp only [corners, setIndices, mapAttrs, weldRepIdx, List.map_map]
      apply List.map_congr_left
      intro kd hk
      simp only [Function.comp, Prod.mk.injEq, true_and]
      exact map_gather_eq (hreps kd hk) _ (fun c hc => by simpa using hlt c hc)

/-! ### what the representatives are -/

/-- every entry `(κ, j)` of `firsts` is a vertex with key `κ`, and no earlier vertex has key `κ` -/
theorem firstsAux_spec (key : α → K) : ∀ (xs pre : List α) (acc : List (K × Nat)),
    (∀ c ∈ acc, (∃ x, pre[c.2]? = some x ∧ key x = c.1) ∧ ∀ j, j < c.2 → ∀ y, pre[j]? = some y → key y ≠ c.1) →
    (∀ y ∈ pre, acc.any (fun c => c.1 == key y) = true) →
    ∀ c ∈ firstsAux key xs pre.length acc,
      (∃ x, (pre ++ xs)[c.2]? = some x ∧ key x = c.1) ∧ ∀ j, j < c.2 → ∀ y, (pre ++ xs)[j]? = some y → key y ≠ c.1
  | [], pre, acc, hacc, _, c, hc => by
    simp only [firstsAux] at hc
    simpa using hacc c hc
  | x :: xs, pre, acc, hacc, hcov, c, hc => by
    simp only [firstsAux] at hc
    have hpre : pre ++ x :: xs = (pre ++ [x]) ++ xs := by simp
    have hlen : pre.length + 1 = (pre ++ [x]).length := by simp
    rw [hpre]
    -- invariant for the extended prefix, for entries already in acc
    have hacc' : ∀ c ∈ acc, (∃ x', (pre ++ [x])[c.2]? = some x' ∧ key x' = c.1) ∧
        ∀ j, j < c.2 → ∀ y, (pre ++ [x])[j]? = some y → key y ≠ c.1 := by
      intro c hc
      obtain ⟨⟨x', hx', hk'⟩, hmin⟩ := hacc c hc
      have hlt : c.2 < pre.length := (List.getElem?_eq_some_iff.mp hx').1
      refine ⟨⟨x', by rw [List.getElem?_append_left hlt]; exact hx', hk'⟩, ?_⟩
      intro j hj y hy
      rw [List.getElem?_append_left (by omega)] at hy
      exact hmin j hj y hy
    split at hc
    · rename_i hany
      rw [hlen] at hc
      refine firstsAux_spec key xs (pre ++ [x]) acc hacc' ?_ c hc
      intro y hy
      simp only [List.mem_append, List.mem_singleton] at hy
      rcases hy with hy | rfl
      · exact hcov y hy
      · exact hany
    · rename_i hany
      rw [hlen] at hc
      refine firstsAux_spec key xs (pre ++ [x]) (acc ++ [(key x, pre.length)]) ?_ ?_ c hc
      · intro c hc
        simp only [List.mem_append, List.mem_singleton] at hc
        rcases hc with hc | rfl
        · exact hacc' c hc
        · refine ⟨⟨x, by simp, rfl⟩, ?_⟩
          intro j hj y hy
          simp only at hj
          rw [List.getElem?_append_left hj] at hy
          have hmem : y ∈ pre := List.mem_of_getElem? hy
          intro hkey
          have := hcov y hmem
          rw [hkey] at this
          exact hany this
      · intro y hy
        simp only [List.mem_append, List.mem_singleton] at hy
        simp only [List.any_append, Bool.or_eq_true]
        rcases hy with hy | rfl
        · exact Or.inl (hcov y hy)
        · right; simp

/-- each class representative carries the class key, and is the *first* vertex with that key -/
theorem firsts_spec (key : α → K) (d : List α) : ∀ c ∈ firsts key d,
    (∃ x, d[c.2]? = some x ∧ key x = c.1) ∧ ∀ j, j < c.2 → ∀ y, d[j]? = some y → key y ≠ c.1 := by
  intro c hc
  have := firstsAux_spec key d [] [] (by simp) (by simp) c (by simpa [firsts] using hc)
  simpa using this

/-! ### which triangles survive -/

theorem firstsAux_mono (key : α → K) : ∀ (xs : List α) (i : Nat) (acc : List (K × Nat)),
    ∀ c ∈ acc, c ∈ firstsAux key xs i acc
  | [], _, _, c, hc => by simpa [firstsAux] using hc
  | x :: xs, i, acc, c, hc => by
    simp only [firstsAux]
    split
    · exact firstsAux_mono key xs (i + 1) acc c hc
    · exact firstsAux_mono key xs (i + 1) _ c (by simp [hc])

theorem firstsAux_cover (key : α → K) : ∀ (xs : List α) (i : Nat) (acc : List (K × Nat)),
    ∀ x ∈ xs, ∃ c ∈ firstsAux key xs i acc, c.1 = key x
  | [], _, _, x, hx => by simp at hx
  | y :: xs, i, acc, x, hx => by
    simp only [firstsAux]
    simp only [List.mem_cons] at hx
    split
    · rename_i hany
      rcases hx with rfl | hx
      · obtain ⟨c, hc, hk⟩ := List.any_eq_true.mp hany
        exact ⟨c, firstsAux_mono key xs (i + 1) acc c hc, by simpa using hk⟩
      · exact firstsAux_cover key xs (i + 1) acc x hx
    · rcases hx with rfl | hx
      · exact ⟨(key x, i), firstsAux_mono key xs (i + 1) _ _ (by simp), rfl⟩
      · exact firstsAux_cover key xs (i + 1) _ x hx

theorem classOf_isSome_of_mem (key : α → K) (d : List α) {x : α} (hx : x ∈ d) :
    (classOf (firsts key d) (key x)).isSome := by
  obtain ⟨c, hc, hk⟩ := firstsAux_cover key d 0 [] x hx
  unfold classOf
  rw [List.findIdx?_isSome]
  exact List.any_eq_true.mpr ⟨c, hc, by simp [hk]⟩

/-- a triangle survives welding exactly when its three corners have pairwise distinct keys -/
theorem weldTri_isSome_iff (key : α → K) (d : List α) (t : Nat × Nat × Nat) {x y z : α}
    (hx : d[t.1]? = some x) (hy : d[t.2.1]? = some y) (hz : d[t.2.2]? = some z) :
    (weldTri key d (firsts key d) t).isSome ↔ (key x ≠ key y ∧ key x ≠ key z ∧ key y ≠ key z) := by
  obtain ⟨a, ha⟩ := Option.isSome_iff_exists.mp (classOf_isSome_of_mem key d (List.mem_of_getElem? hx))
  obtain ⟨b, hb⟩ := Option.isSome_iff_exists.mp (classOf_isSome_of_mem key d (List.mem_of_getElem? hy))
  obtain ⟨c, hc⟩ := Option.isSome_iff_exists.mp (classOf_isSome_of_mem key d (List.mem_of_getElem? hz))
  unfold weldTri
  simp only [hx, hy, hz]
  by_cases hd : key x = key y ∨ key x = key z ∨ key y = key z
  · simp only [hd, if_true]
    constructor
    · intro h; simp at h
    · intro h; rcases hd with hd | hd | hd
      · exact absurd hd h.1
      · exact absurd hd h.2.1
      · exact absurd hd h.2.2
  · simp only [hd, if_false, ha, hb, hc]
    constructor
    · intro _
      refine ⟨fun h => hd (Or.inl h), fun h => hd (Or.inr (Or.inl h)), fun h => hd (Or.inr (Or.inr h))⟩
    · intro _; simp

end weld
end MeshVal
end PolyVerif.Mesh
