/-
  Lemmas and proofs for C07 (binary STL) about `PolyVerif.Model.Stl`.  The property theorems are restated
  in `PolyVerif/Props/C07.lean`; this file holds helper lemmas (`*_aux`), auxiliary definitions and proofs.
  Core Lean only.
-/
import PolyVerif.Model.Stl

namespace PolyVerif
namespace StlL
open Stl

/-! ### words -/

theorem le32_length (w : W32) : (le32 w).length = 4 := rfl
theorem le16_length (w : W16) : (le16 w).length = 2 := rfl

theorem rd32_le32_aux (w : W32) (r : List Byte) : rd32 (le32 w ++ r) = some (w, r) := by
  simp only [le32, List.cons_append, List.nil_append, rd32, BitVec.toNat_ofNat]
  congr 2
  apply BitVec.eq_of_toNat_eq
  have := w.isLt
  simp only [BitVec.toNat_ofNat]
  omega

theorem rd16_le16_aux (w : W16) (r : List Byte) : rd16 (le16 w ++ r) = some (w, r) := by
  simp only [le16, List.cons_append, List.nil_append, rd16, BitVec.toNat_ofNat]
  congr 2
  apply BitVec.eq_of_toNat_eq
  have := w.isLt
  simp only [BitVec.toNat_ofNat]
  omega

theorem rd32_inv_aux {bs : List Byte} {w : W32} {r : List Byte} (h : rd32 bs = some (w, r)) :
    bs = le32 w ++ r := by
  match bs, h with
  | b0 :: b1 :: b2 :: b3 :: r', h =>
    simp only [rd32, Option.some.injEq, Prod.mk.injEq] at h
    obtain ⟨hw, rfl⟩ := h
    subst hw
    have h0 := b0.isLt; have h1 := b1.isLt; have h2 := b2.isLt; have h3 := b3.isLt
    simp only [le32, List.cons_append, List.nil_append, BitVec.toNat_ofNat, List.cons.injEq, and_true]
    refine ⟨?_, ?_, ?_, ?_⟩ <;> apply BitVec.eq_of_toNat_eq <;> simp only [BitVec.toNat_ofNat] <;> omega

theorem rd16_inv_aux {bs : List Byte} {w : W16} {r : List Byte} (h : rd16 bs = some (w, r)) :
    bs = le16 w ++ r := by
  match bs, h with
  | b0 :: b1 :: r', h =>
    simp only [rd16, Option.some.injEq, Prod.mk.injEq] at h
    obtain ⟨hw, rfl⟩ := h
    subst hw
    have h0 := b0.isLt; have h1 := b1.isLt
    simp only [le16, List.cons_append, List.nil_append, BitVec.toNat_ofNat, List.cons.injEq, and_true]
    refine ⟨?_, ?_⟩ <;> apply BitVec.eq_of_toNat_eq <;> simp only [BitVec.toNat_ofNat] <;> omega

/-! ### records -/

theorem encP3_length (v : P3 W32) : (encP3 v).length = 12 := by simp [encP3, le32_length]

theorem encTri_length (t : Tri) : (encTri t).length = 50 := by
  simp [encTri, encP3_length, le16_length]

theorem encTris_length (ts : List Tri) : (encTris ts).length = 50 * ts.length := by
  induction ts with
  | nil => rfl
  | cons t ts ih => simp [encTris, encTri_length, ih]; omega

theorem rdP3_encP3_aux (v : P3 W32) (r : List Byte) : rdP3 (encP3 v ++ r) = some (v, r) := by
  simp [rdP3, encP3, List.append_assoc, rd32_le32_aux]

theorem rdTri_encTri_aux (t : Tri) (r : List Byte) : rdTri (encTri t ++ r) = some (t, r) := by
  simp [rdTri, encTri, List.append_assoc, rdP3_encP3_aux, rd16_le16_aux]

theorem rdTris_encTris_aux (ts : List Tri) (r : List Byte) :
    rdTris ts.length (encTris ts ++ r) = some (ts, r) := by
  induction ts with
  | nil => rfl
  | cons t ts ih => simp [rdTris, encTris, List.append_assoc, rdTri_encTri_aux, ih]

theorem rdP3_inv_aux {bs : List Byte} {v : P3 W32} {r : List Byte} (h : rdP3 bs = some (v, r)) :
    bs = encP3 v ++ r := by
  simp only [rdP3, Option.bind_eq_some_iff, Prod.exists, Option.some.injEq, Prod.mk.injEq] at h
  obtain ⟨x, b1, h1, y, b2, h2, z, b3, h3, rfl, rfl⟩ := h
  rw [rd32_inv_aux h1, rd32_inv_aux h2, rd32_inv_aux h3]
  simp [encP3, List.append_assoc]

theorem rdTri_inv_aux {bs : List Byte} {t : Tri} {r : List Byte} (h : rdTri bs = some (t, r)) :
    bs = encTri t ++ r := by
  simp only [rdTri, Option.bind_eq_some_iff, Prod.exists, Option.some.injEq, Prod.mk.injEq] at h
  obtain ⟨n, b1, h1, v1, b2, h2, v2, b3, h3, v3, b4, h4, a, b5, h5, rfl, rfl⟩ := h
  rw [rdP3_inv_aux h1, rdP3_inv_aux h2, rdP3_inv_aux h3, rdP3_inv_aux h4, rd16_inv_aux h5]
  simp [encTri, List.append_assoc]

theorem rdTris_inv_aux (k : Nat) {bs : List Byte} {ts : List Tri} {r : List Byte}
    (h : rdTris k bs = some (ts, r)) : bs = encTris ts ++ r ∧ ts.length = k := by
  induction k generalizing bs ts r with
  | zero => simp only [rdTris, Option.some.injEq, Prod.mk.injEq] at h; obtain ⟨rfl, rfl⟩ := h; simp [encTris]
  | succ k ih =>
    simp only [rdTris, Option.bind_eq_some_iff, Prod.exists, Option.some.injEq, Prod.mk.injEq] at h
    obtain ⟨t, b1, h1, ts', b2, h2, rfl, rfl⟩ := h
    obtain ⟨e, hl⟩ := ih h2
    rw [rdTri_inv_aux h1, e]
    simp [encTris, List.append_assoc, hl]

/-- a record stream shorter than `50·k` bytes cannot be read as `k` records -/
theorem rdTris_short_aux (k : Nat) (bs : List Byte) (h : bs.length < 50 * k) : rdTris k bs = none := by
  cases hr : rdTris k bs with
  | none => rfl
  | some p =>
    obtain ⟨ts, r⟩ := p
    obtain ⟨e, hl⟩ := rdTris_inv_aux k hr
    have := congrArg List.length e
    simp [encTris_length, hl] at this
    omega

theorem rd32_total_aux (bs : List Byte) (h : 4 ≤ bs.length) :
    ∃ w r, rd32 bs = some (w, r) ∧ r.length + 4 = bs.length := by
  match bs, h with
  | b0 :: b1 :: b2 :: b3 :: r, _ => exact ⟨_, r, rfl, by simp⟩

theorem rd16_total_aux (bs : List Byte) (h : 2 ≤ bs.length) :
    ∃ w r, rd16 bs = some (w, r) ∧ r.length + 2 = bs.length := by
  match bs, h with
  | b0 :: b1 :: r, _ => exact ⟨_, r, rfl, by simp⟩

theorem rdP3_total_aux (bs : List Byte) (h : 12 ≤ bs.length) :
    ∃ v r, rdP3 bs = some (v, r) ∧ r.length + 12 = bs.length := by
  obtain ⟨x, r1, e1, l1⟩ := rd32_total_aux bs (by omega)
  obtain ⟨y, r2, e2, l2⟩ := rd32_total_aux r1 (by omega)
  obtain ⟨z, r3, e3, l3⟩ := rd32_total_aux r2 (by omega)
  exact ⟨⟨x, y, z⟩, r3, by simp [rdP3, e1, e2, e3], by omega⟩

theorem rdTri_total_aux (bs : List Byte) (h : 50 ≤ bs.length) :
    ∃ t r, rdTri bs = some (t, r) ∧ r.length + 50 = bs.length := by
  obtain ⟨n, r1, e1, l1⟩ := rdP3_total_aux bs (by omega)
  obtain ⟨v1, r2, e2, l2⟩ := rdP3_total_aux r1 (by omega)
  obtain ⟨v2, r3, e3, l3⟩ := rdP3_total_aux r2 (by omega)
  obtain ⟨v3, r4, e4, l4⟩ := rdP3_total_aux r3 (by omega)
  obtain ⟨a, r5, e5, l5⟩ := rd16_total_aux r4 (by omega)
  exact ⟨⟨n, v1, v2, v3, a⟩, r5, by simp [rdTri, e1, e2, e3, e4, e5], by omega⟩

/-- … and one of at least `50·k` bytes always can -/
theorem rdTris_total_aux (k : Nat) (bs : List Byte) (h : 50 * k ≤ bs.length) :
    ∃ ts r, rdTris k bs = some (ts, r) := by
  induction k generalizing bs with
  | zero => exact ⟨[], bs, rfl⟩
  | succ k ih =>
    obtain ⟨t, r1, ht, hl⟩ := rdTri_total_aux bs (by omega)
    obtain ⟨ts, r, hts⟩ := ih r1 (by omega)
    exact ⟨t :: ts, r, by simp [rdTris, ht, hts]⟩

/-! ### the pure layout (`encodeRaw` / `decodeRaw`): exact at the bit level -/

/-- `stl.Write` produces exactly `84 + 50·n` bytes for `n` triangle records. -/
theorem raw_length_aux (h : Header) (ts : List Tri) : (encodeRaw h ts).length = 84 + 50 * ts.length := by
  simp [encodeRaw, h.len, le32_length, encTris_length]; omega



theorem rdHeader_aux (h : Header) (r : List Byte) : rdHeader (h.bytes ++ r) = some (h, r) := by
  obtain ⟨hb, hlen⟩ := h
  have h80 : 80 ≤ (hb ++ r).length := by simp [hlen]
  have ht : (hb ++ r).take 80 = hb := by rw [← hlen]; simp
  have hd : (hb ++ r).drop 80 = r := by rw [← hlen]; simp
  simp [rdHeader, ht, hd]; omega

/-- `stl.Read (stl.Write (hdr, ts))` returns `(hdr, ts)` exactly — every record, every bit,
    in order — for every list of fewer than `2^32` records, even if more bytes follow. -/
theorem raw_roundtrip_trailing_aux (h : Header) (ts : List Tri) (extra : List Byte)
    (hn : ts.length < 2 ^ 32) : decodeRaw (encodeRaw h ts ++ extra) = .ok (h, ts) := by
  have hc : (BitVec.ofNat 32 ts.length).toNat = ts.length := by
    simp only [BitVec.toNat_ofNat]; omega
  simp [decodeRaw, encodeRaw, List.append_assoc, rdHeader_aux, rd32_le32_aux, hc, rdTris_encTris_aux]

theorem raw_roundtrip_aux (h : Header) (ts : List Tri) (hn : ts.length < 2 ^ 32) :
    decodeRaw (encodeRaw h ts) = .ok (h, ts) := by
  simpa using raw_roundtrip_trailing_aux h ts [] hn

example : decodeRaw (encodeRaw zeroHeader [⟨⟨1,2,3⟩,⟨4,5,6⟩,⟨7,8,9⟩,⟨10,11,0xffc00001⟩,7⟩]) =
    .ok (zeroHeader, [⟨⟨1,2,3⟩,⟨4,5,6⟩,⟨7,8,9⟩,⟨10,11,0xffc00001⟩,7⟩]) := raw_roundtrip_aux _ _ (by decide)

/-- the count field is `uint32(len)`: beyond `2^32 - 1` records the file no longer says how many
    records it holds (`2^32` records read back as none).  This is why `raw_roundtrip_aux` carries its bound. -/
theorem raw_count_wraps_aux (h : Header) (ts : List Tri) (hn : ts.length = 2 ^ 32) :
    decodeRaw (encodeRaw h ts) = .ok (h, []) := by
  have hc : (BitVec.ofNat 32 ts.length).toNat = 0 := by
    simp only [BitVec.toNat_ofNat]; omega
  simp [decodeRaw, encodeRaw, List.append_assoc, rdHeader_aux, rd32_le32_aux, hc, rdTris]



theorem rdHeader_inv_aux {bs : List Byte} {h : Header} {r : List Byte} (e : rdHeader bs = some (h, r)) :
    bs = h.bytes ++ r := by
  unfold rdHeader at e
  split at e
  · simp only [Option.some.injEq, Prod.mk.injEq] at e
    obtain ⟨rfl, rfl⟩ := e
    simp
  · cases e

/-- whatever `stl.Read` accepts, `stl.Write` of the result is the prefix of the input that was
    consumed: header, count and all `n` records byte for byte. -/
theorem raw_reencode_prefix_aux {bs : List Byte} {h : Header} {ts : List Tri}
    (hd : decodeRaw bs = .ok (h, ts)) : ∃ extra, bs = encodeRaw h ts ++ extra ∧ ts.length < 2 ^ 32 := by
  unfold decodeRaw at hd
  split at hd
  · cases hd
  · rename_i h' b1 e1
    split at hd
    · cases hd
    · rename_i c b2 e2
      split at hd
      · cases hd
      · rename_i ts' b3 e3
        simp only [Except.ok.injEq, Prod.mk.injEq] at hd
        obtain ⟨rfl, rfl⟩ := hd
        obtain ⟨e, hl⟩ := rdTris_inv_aux _ e3
        have hc : BitVec.ofNat 32 ts'.length = c := by
          apply BitVec.eq_of_toNat_eq; have := c.isLt; simp only [BitVec.toNat_ofNat]; omega
        refine ⟨b3, ?_, by have := c.isLt; omega⟩
        rw [rdHeader_inv_aux e1, rd32_inv_aux e2, e]
        simp [encodeRaw, List.append_assoc, hc]

/-- for a well-formed file (length exactly `84 + 50·n`, `n` the count field) reading succeeds and
    writing the result reproduces the file exactly. -/
theorem raw_reencode_aux {bs : List Byte} (hwf : WellFormed bs) :
    ∃ h ts, decodeRaw bs = .ok (h, ts) ∧ encodeRaw h ts = bs := by
  obtain ⟨c, rest, hc, hlen⟩ := hwf
  have h80 : 80 ≤ bs.length := by omega
  have hrest : rest.length = 50 * c.toNat := by
    have := congrArg List.length (rd32_inv_aux hc)
    simp [le32_length, List.length_drop] at this
    omega
  obtain ⟨ts, r, hts⟩ := rdTris_total_aux c.toNat rest (by omega)
  have hdec : decodeRaw bs = .ok (⟨bs.take 80, by simp [List.length_take]; omega⟩, ts) := by
    simp [decodeRaw, rdHeader, h80, hc, hts]
  refine ⟨_, ts, hdec, ?_⟩
  obtain ⟨extra, he, _⟩ := raw_reencode_prefix_aux hdec
  have hl := congrArg List.length he
  rw [List.length_append, raw_length_aux] at hl
  obtain ⟨_, hk⟩ := rdTris_inv_aux _ hts
  have : extra = [] := List.eq_nil_of_length_eq_zero (by omega)
  rw [this, List.append_nil] at he
  exact he.symm

example : WellFormed (encodeRaw zeroHeader [⟨⟨1,2,3⟩,⟨4,5,6⟩,⟨7,8,9⟩,⟨10,11,12⟩,7⟩]) := by
  refine ⟨1, encTris [⟨⟨1,2,3⟩,⟨4,5,6⟩,⟨7,8,9⟩,⟨10,11,12⟩,7⟩], ?_, ?_⟩
  · simp [encodeRaw, zeroHeader, rd32_le32_aux]
  · rw [raw_length_aux]; rfl

/-! ### error branch: truncated input is rejected, never padded -/

/-- `stl.Read` succeeds exactly when the input holds the header, the count and `count` whole records. -/
theorem raw_decode_ok_iff_aux (bs : List Byte) :
    (∃ x, decodeRaw bs = .ok x) ↔ ∃ c rest, rd32 (bs.drop 80) = some (c, rest) ∧ 84 + 50 * c.toNat ≤ bs.length := by
  constructor
  · rintro ⟨⟨h, ts⟩, hd⟩
    obtain ⟨extra, he, hn⟩ := raw_reencode_prefix_aux hd
    refine ⟨BitVec.ofNat 32 ts.length, encTris ts ++ extra, ?_, ?_⟩
    · have hd : (h.bytes ++ (le32 (BitVec.ofNat 32 ts.length) ++ (encTris ts ++ extra))).drop 80
          = le32 (BitVec.ofNat 32 ts.length) ++ (encTris ts ++ extra) := by rw [← h.len]; simp
      rw [he]; simp only [encodeRaw, List.append_assoc, hd, rd32_le32_aux]
    · have := congrArg List.length he
      rw [List.length_append, raw_length_aux] at this
      simp only [BitVec.toNat_ofNat]
      have : ts.length % 2 ^ 32 = ts.length := Nat.mod_eq_of_lt hn
      omega
  · rintro ⟨c, rest, hc, hlen⟩
    have h80 : 80 ≤ bs.length := by omega
    have hrest : rest.length + 84 = bs.length := by
      have := congrArg List.length (rd32_inv_aux hc)
      simp [le32_length, List.length_drop] at this
      omega
    obtain ⟨ts, r, hts⟩ := rdTris_total_aux c.toNat rest (by omega)
    exact ⟨_, by simp [decodeRaw, rdHeader, h80, hc, hts]; rfl⟩

theorem raw_decode_short_aux (bs : List Byte) (h : bs.length < 84) : decodeRaw bs = .error .short := by
  cases hd : decodeRaw bs with
  | error e =>
    unfold decodeRaw at hd
    split at hd
    · cases hd; rfl
    · split at hd
      · cases hd; rfl
      · split at hd
        · cases hd; rfl
        · cases hd
  | ok x =>
    obtain ⟨c, rest, hc, hl⟩ := (raw_decode_ok_iff_aux bs).1 ⟨x, hd⟩
    omega

/-! ### NaN quieting by `encoding/binary` -/

theorem quiet_idem_aux (w : W32) : quiet (quiet w) = quiet w := by
  have hw := w.isLt
  by_cases h : isNaN32 w
  · by_cases h2 : w.toNat / 0x400000 % 2 = 1
    · have hq : quiet w = w := by simp [quiet, h, h2]
      rw [hq, hq]
    · have h' : 0x7f800000 < w.toNat % 0x80000000 := by simpa [isNaN32] using h
      have e : (BitVec.ofNat 32 (w.toNat + 0x400000)).toNat = w.toNat + 0x400000 := by
        simp only [BitVec.toNat_ofNat]; omega
      have hn : isNaN32 (BitVec.ofNat 32 (w.toNat + 0x400000)) = true := by
        simp only [isNaN32, e, decide_eq_true_eq]; omega
      have h3 : (BitVec.ofNat 32 (w.toNat + 0x400000)).toNat / 0x400000 % 2 = 1 := by rw [e]; omega
      have hq : quiet w = BitVec.ofNat 32 (w.toNat + 0x400000) := by
        unfold quiet; rw [if_pos h, if_neg h2]
      rw [hq]
      unfold quiet
      rw [if_pos hn, if_pos h3]
  · have hq : quiet w = w := by simp [quiet, h]
    rw [hq, hq]

theorem map_eq_self_aux {β : Type} (f : β → β) : ∀ (l : List β), (∀ t ∈ l, f t = t) → l.map f = l
  | [], _ => rfl
  | a :: l, h => by
    simp only [List.map_cons, h a (by simp), map_eq_self_aux f l (fun t ht => h t (by simp [ht]))]

theorem quietTri_idem_aux (t : Tri) : quietTri (quietTri t) = quietTri t := by
  simp [quietTri, quietV, quiet_idem_aux]

theorem quietTri_comp_aux : quietTri ∘ quietTri = quietTri := funext quietTri_idem_aux

theorem quietTris_idem_aux (ts : List Tri) : (ts.map quietTri).map quietTri = ts.map quietTri := by
  simp [List.map_map, quietTri_comp_aux]

/-- a bit pattern that is not a signalling NaN passes unchanged -/
theorem quiet_of_not_snan (w : W32) (h : isNaN32 w = false ∨ w.toNat / 0x400000 % 2 = 1) : quiet w = w := by
  unfold quiet; rcases h with h | h <;> simp [h]

/-! ### C07 clause 1: the size law -/

/-- `stl.Write` produces exactly `84 + 50·n` bytes for `n` triangle records. -/
theorem stl_length (h : Header) (ts : List Tri) : (encode h ts).length = 84 + 50 * ts.length := by
  simp [encode, raw_length_aux]

/-! ### C07 clause 2: byte-level round trip -/

/-- `stl.Read (stl.Write (hdr, ts))` returns the header and every record in order, bit for bit except
    that signalling-NaN words come back quieted (`quietTri`) — for every list of fewer than `2^32`
    records, even if more bytes follow. -/
theorem stl_roundtrip_trailing (h : Header) (ts : List Tri) (extra : List Byte)
    (hn : ts.length < 2 ^ 32) : decode (encode h ts ++ extra) = .ok (h, ts.map quietTri) := by
  simp [decode, encode, raw_roundtrip_trailing_aux h (ts.map quietTri) extra (by simpa using hn),
    Except.map, quietTri_comp_aux]

theorem stl_roundtrip (h : Header) (ts : List Tri) (hn : ts.length < 2 ^ 32) :
    decode (encode h ts) = .ok (h, ts.map quietTri) := by
  simpa using stl_roundtrip_trailing h ts [] hn

/-- … and exactly `(hdr, ts)` when no float field holds a signalling NaN. -/
theorem stl_roundtrip_exact (h : Header) (ts : List Tri) (hn : ts.length < 2 ^ 32)
    (hq : ∀ t ∈ ts, quietTri t = t) : decode (encode h ts) = .ok (h, ts) := by
  rw [stl_roundtrip h ts hn]
  rw [map_eq_self_aux _ _ hq]

example : decode (encode zeroHeader [⟨⟨1,2,3⟩,⟨4,5,6⟩,⟨7,8,9⟩,⟨10,0x7fc00001,0xffffffff⟩,7⟩]) =
    .ok (zeroHeader, [⟨⟨1,2,3⟩,⟨4,5,6⟩,⟨7,8,9⟩,⟨10,0x7fc00001,0xffffffff⟩,7⟩]) :=
  stl_roundtrip_exact _ _ (by decide) (by decide)

/-- the count field is `uint32(len)`: beyond `2^32 - 1` records the file no longer says how many
    records it holds (`2^32` records read back as none).  This is why `stl_roundtrip` carries its bound. -/
theorem stl_count_wraps (h : Header) (ts : List Tri) (hn : ts.length = 2 ^ 32) :
    decode (encode h ts) = .ok (h, []) := by
  simp [decode, encode, raw_count_wraps_aux h (ts.map quietTri) (by simpa using hn), Except.map]

/-! ### C07 clause 3: read-then-write reproduces a well-formed file -/

/-- whatever `stl.Read` accepts is `header ++ count ++ n records` followed by unread bytes; the records
    returned are those of the file (signalling NaNs quieted) and `stl.Write` lays them out unchanged. -/
theorem stl_reencode_prefix {bs : List Byte} {h : Header} {ts : List Tri}
    (hd : decode bs = .ok (h, ts)) :
    ∃ raw extra, bs = encodeRaw h raw ++ extra ∧ ts = raw.map quietTri ∧
      encode h ts = encodeRaw h ts ∧ ts.length < 2 ^ 32 := by
  unfold decode at hd
  cases hr : decodeRaw bs with
  | error e => rw [hr] at hd; cases hd
  | ok x =>
    obtain ⟨h', raw⟩ := x
    rw [hr] at hd
    simp only [Except.map, Except.ok.injEq, Prod.mk.injEq] at hd
    obtain ⟨rfl, rfl⟩ := hd
    obtain ⟨extra, he, hn⟩ := raw_reencode_prefix_aux hr
    exact ⟨raw, extra, he, rfl, by simp [encode, quietTri_comp_aux], by simpa using hn⟩

/-- **Re-save.** For a well-formed file (length exactly `84 + 50·n`, `n` the count field): reading
    succeeds with the file's own header and records (`bs = encodeRaw h raw`, signalling NaNs quieted);
    writing the result gives a file of the same length that reads back to the same records, and it is
    the input byte for byte when no float field holds a signalling NaN. -/
theorem stl_reencode {bs : List Byte} (hwf : WellFormed bs) :
    ∃ h raw, bs = encodeRaw h raw ∧ decode bs = .ok (h, raw.map quietTri) ∧
      encode h (raw.map quietTri) = encodeRaw h (raw.map quietTri) ∧
      decode (encode h (raw.map quietTri)) = decode bs ∧
      ((∀ t ∈ raw, quietTri t = t) → encode h (raw.map quietTri) = bs) := by
  obtain ⟨h, raw, hd, he⟩ := raw_reencode_aux hwf
  have hn : raw.length < 2 ^ 32 := by
    obtain ⟨_, _, hn⟩ := raw_reencode_prefix_aux hd; exact hn
  have hdec : decode bs = .ok (h, raw.map quietTri) := by simp [decode, hd, Except.map]
  refine ⟨h, raw, he.symm, hdec, by simp [encode, quietTri_comp_aux], ?_, ?_⟩
  · rw [hdec, stl_roundtrip h _ (by simpa using hn), quietTris_idem_aux]
  · intro hq
    have : raw.map quietTri = raw := map_eq_self_aux _ _ hq
    rw [this, encode, this, he]

example : WellFormed (encode zeroHeader [⟨⟨1,2,3⟩,⟨4,5,6⟩,⟨7,8,9⟩,⟨10,11,12⟩,7⟩]) := by
  refine ⟨1, encTris ([⟨⟨1,2,3⟩,⟨4,5,6⟩,⟨7,8,9⟩,⟨10,11,12⟩,7⟩].map quietTri), ?_, ?_⟩
  · simp [encode, encodeRaw, zeroHeader, rd32_le32_aux]
  · rw [stl_length]; rfl

/-! ### error branch: truncated input is rejected, never padded -/

/-- `stl.Read` succeeds exactly when the input holds the header, the count and `count` whole records. -/
theorem stl_decode_ok_iff (bs : List Byte) :
    (∃ x, decode bs = .ok x) ↔ ∃ c rest, rd32 (bs.drop 80) = some (c, rest) ∧ 84 + 50 * c.toNat ≤ bs.length := by
  rw [← raw_decode_ok_iff_aux]
  unfold decode
  cases decodeRaw bs <;> simp [Except.map]

theorem stl_decode_short (bs : List Byte) (h : bs.length < 84) : decode bs = .error .short := by
  simp [decode, raw_decode_short_aux bs h, Except.map]

/-! ### C07 clause 4: mesh level — `ReadMesh ∘ WriteMesh` -/

section mesh
variable {α : Type}

/-- index triples flattened back -/
def flat : List (Nat × Nat × Nat) → List Nat
  | [] => []
  | (a, b, c) :: r => a :: b :: c :: flat r

theorem chunks_length_aux : ∀ idx : List Nat, (chunks idx).length = idx.length / 3
  | [] => rfl
  | [_] => by simp [chunks]
  | [_, _] => by simp [chunks]
  | _ :: _ :: _ :: r => by simp [chunks, chunks_length_aux r]; omega

theorem flat_chunks_aux : ∀ idx : List Nat, idx.length % 3 = 0 → flat (chunks idx) = idx
  | [], _ => rfl
  | [_], h => by simp at h
  | [_, _], h => by simp at h
  | _ :: _ :: _ :: r, h => by simp [chunks, flat, flat_chunks_aux r (by simp at h; omega)]

theorem flat_mem_aux : ∀ (cs : List (Nat × Nat × Nat)) (t : Nat × Nat × Nat), t ∈ cs →
    t.1 ∈ flat cs ∧ t.2.1 ∈ flat cs ∧ t.2.2 ∈ flat cs
  | [], _, h => by cases h
  | (a, b, c) :: r, t, h => by
    rcases List.mem_cons.1 h with rfl | h
    · simp [flat]
    · obtain ⟨h1, h2, h3⟩ := flat_mem_aux r t h
      simp [flat, h1, h2, h3]

/-- the Go loop's index arithmetic (`Tri(i)` = `indices[3i], [3i+1], [3i+2]`, `i < len/3`) visits
    exactly the consecutive triples, and never reads out of range -/
theorem chunks_eq_triples : ∀ idx : List Nat, triples idx = (chunks idx).map some
  | [] => rfl
  | [_] => by simp [triples, chunks]
  | [_, _] => by simp [triples, chunks]
  | a :: b :: c :: r => by
    have ih := chunks_eq_triples r
    unfold triples at ih ⊢
    have hl : (a :: b :: c :: r).length / 3 = r.length / 3 + 1 := by simp; omega
    rw [hl, List.range_succ_eq_map, List.map_cons, List.map_map, chunks, List.map_cons, ← ih]
    congr 1

theorem storedNormal_some_aux (P : Params α) (n : Nat) (ns : Option (List (P3 α)))
    (hns : ∀ l, ns = some l → l.length = n) {a b c : Nat} (ha : a < n) (hb : b < n) (hc : c < n) :
    ∃ s, storedNormal P ns a b c = some s := by
  cases ns with
  | none => exact ⟨_, rfl⟩
  | some l =>
    have hl := hns l rfl
    have ea : l[a]? = some l[a] := List.getElem?_eq_getElem (by omega)
    have eb : l[b]? = some l[b] := List.getElem?_eq_getElem (by omega)
    have ec : l[c]? = some l[c] := List.getElem?_eq_getElem (by omega)
    exact ⟨(P.avgNormal l[a] l[b] l[c]).map P.q32, by simp [storedNormal, ea, eb, ec]⟩

theorem buildTris_spec_aux (P : Params α) (ps : List (P3 α)) (ns : Option (List (P3 α)))
    (hns : ∀ l, ns = some l → l.length = ps.length) :
    ∀ cs : List (Nat × Nat × Nat),
      (∀ t ∈ cs, t.1 < ps.length ∧ t.2.1 < ps.length ∧ t.2.2 < ps.length) →
      ∃ ts, buildTris P ps ns cs = .ok ts ∧ ts.length = cs.length ∧
        (corners P ts).map some = (flat cs).map (fun i => (ps[i]?).map (r32 P)) ∧
        some (cornerNormals P ts) = expectedNormals P ps ns cs ∧
        ts.any (fun t => !isZeroV t.n) = anyStored P ns cs
  | [], _ => ⟨[], rfl, rfl, rfl, rfl, rfl⟩
  | (a, b, c) :: r, h => by
    obtain ⟨ha, hb, hc⟩ := h (a, b, c) (by simp)
    obtain ⟨ts, e, hl, hc1, hc2, hc3⟩ := buildTris_spec_aux P ps ns hns r (fun t ht => h t (by simp [ht]))
    obtain ⟨s, es⟩ := storedNormal_some_aux P ps.length ns hns ha hb hc
    have ea : ps[a]? = some ps[a] := List.getElem?_eq_getElem ha
    have eb : ps[b]? = some ps[b] := List.getElem?_eq_getElem hb
    have ec : ps[c]? = some ps[c] := List.getElem?_eq_getElem hc
    refine ⟨⟨s, ps[a].map P.q32, ps[b].map P.q32, ps[c].map P.q32, 0⟩ :: ts, ?_, ?_, ?_, ?_, ?_⟩
    · simp [buildTris, ea, eb, ec, es, e]
    · simp [hl]
    · simp [corners, flat, ea, eb, ec, hc1, r32]
    · simp [cornerNormals, expectedNormals, ea, eb, ec, es, ← hc2, triNormal, r32]
    · simp [anyStored, es] at hc3 ⊢
      simp [hc3]

theorem storedNormal_quiet_aux (P : Params α) (hq : ∀ x, quiet (P.q32 x) = P.q32 x)
    (ns : Option (List (P3 α))) (a b c : Nat) (s : P3 W32) (h : storedNormal P ns a b c = some s) :
    quietV s = s := by
  unfold storedNormal at h
  split at h
  · cases h; decide
  · split at h
    · cases h; simp [quietV, P3.map, hq]
    · cases h

theorem buildTris_quiet_aux (P : Params α) (hq : ∀ x, quiet (P.q32 x) = P.q32 x) (ps : List (P3 α))
    (ns : Option (List (P3 α))) :
    ∀ (cs : List (Nat × Nat × Nat)) (ts : List Tri), buildTris P ps ns cs = .ok ts → ∀ t ∈ ts, quietTri t = t
  | [], ts, h => by
    simp only [buildTris, Except.ok.injEq] at h; subst h; intro t ht; cases ht
  | (a, b, c) :: r, ts, h => by
    unfold buildTris at h
    split at h
    · rename_i p1 p2 p3 n ts' e1 e2 e3 e4 e5
      cases h
      intro t ht
      rcases List.mem_cons.1 ht with rfl | ht
      · simp [quietTri, quietV, P3.map, hq]
        simpa [quietV] using storedNormal_quiet_aux P hq ns a b c n e4
      · exact buildTris_quiet_aux P hq ps ns r ts' e5 t ht
    · cases h

/-- **Mesh round trip.**  For every well-formed triangle mesh `m` with positions (any index pattern:
    welded, shared, duplicated or unreferenced vertices; with or without normals; zero triangles
    included) with fewer than `2^32` triangles, and for every rounding / normal functions `P`
    (`hq`: a float64→float32 conversion never yields a signalling NaN):
    `WriteMesh` does not panic, its output has exactly `84 + 50·n` bytes, `ReadMesh` accepts it, and
    the mesh read back satisfies `RoundTrips` — `n` triangles in order, corner `k` = float32
    rounding of position `indices[k]`, facet normal = stored normalised mean (geometric normal
    where that is zero), normal attribute absent iff every stored normal is zero. -/
theorem stl_mesh_roundtrip [DecidableEq α] (P : Params α) (hq : ∀ x, quiet (P.q32 x) = P.q32 x)
    (m : Mesh α) (hwf : WF m) (hn : m.indices.length / 3 < 2 ^ 32) :
    ∃ bs r, writeMesh P m = .ok bs ∧ bs.length = 84 + 50 * (m.indices.length / 3) ∧
      readMesh P bs = .ok r ∧ RoundTrips P m r = true := by
  obtain ⟨h3, ps, hps, hidx, hns⟩ := hwf
  have hin : ∀ t ∈ chunks m.indices, t.1 < ps.length ∧ t.2.1 < ps.length ∧ t.2.2 < ps.length := by
    intro t ht
    obtain ⟨h1, h2, h3'⟩ := flat_mem_aux _ t ht
    rw [flat_chunks_aux _ h3] at h1 h2 h3'
    exact ⟨hidx _ h1, hidx _ h2, hidx _ h3'⟩
  obtain ⟨ts, e, hl, hc1, hc2, hc3⟩ := buildTris_spec_aux P ps m.nrm hns (chunks m.indices) hin
  rw [chunks_length_aux] at hl
  rw [flat_chunks_aux _ h3] at hc1
  have hw : writeMesh P m = .ok (encode zeroHeader ts) := by
    simp [writeMesh, writeTris, hps, e, Except.map]
  have hqt : ts.map quietTri = ts := map_eq_self_aux _ _ (buildTris_quiet_aux P hq ps m.nrm _ ts e)
  have hr : readMesh P (encode zeroHeader ts) = .ok (meshOfTris P ts) := by
    simp [readMesh, stl_roundtrip zeroHeader ts (by omega), Except.map, hqt]
  refine ⟨_, _, hw, by rw [stl_length, hl], hr, ?_⟩
  cases ts with
  | nil =>
    have h0 : m.indices.length / 3 = 0 := by simpa using hl.symm
    simp [RoundTrips, hps, meshOfTris, h0]
  | cons t ts' =>
    have hpos : m.indices.length / 3 ≠ 0 := by simp at hl; omega
    simp only [RoundTrips, hps, meshOfTris, hl, hc1, hc3, ← hc2]
    simp [hpos]

example : WF (⟨[0, 1, 2, 2, 1, 3], some [⟨0, 0, 0⟩, ⟨1, 0, 0⟩, ⟨0, 1, 0⟩, ⟨1, 1, 5⟩],
    some [⟨0, 0, 1⟩, ⟨0, 0, 1⟩, ⟨0, 0, 1⟩, ⟨0, 1, 0⟩]⟩ : Mesh Int) :=
  ⟨rfl, _, rfl, by decide, by intro ns h; cases h; rfl⟩

/-- a mesh without a position attribute is written as the empty file (84 bytes, count 0), whatever
    its indices: `WriteMesh`'s explicit first branch. -/
theorem stl_mesh_nopos (P : Params α) (m : Mesh α) (h : m.pos = none) :
    writeMesh P m = .ok (encode zeroHeader []) ∧ (encode zeroHeader []).length = 84 := by
  simp [writeMesh, writeTris, h, Except.map, stl_length]

/-- an index that is out of range of the position array makes `WriteMesh` panic (no file). -/
theorem stl_mesh_oob (P : Params α) (m : Mesh α) (ps : List (P3 α)) (hp : m.pos = some ps)
    (a b c : Nat) (r : List Nat) (hi : m.indices = a :: b :: c :: r) (ha : ps.length ≤ a) :
    writeMesh P m = .error .panic := by
  have : ps[a]? = none := List.getElem?_eq_none ha
  simp [writeMesh, writeTris, hp, hi, chunks, buildTris, this, Except.map]

/-- `stl_mesh_roundtrip` is the proved part of the normal clause (`RoundTrips` lets the normal attribute be
    absent when every stored normal is zero); the full clause is `C07_geometric_normal_full` below. -/
theorem stl_mesh_roundtrip_partial [DecidableEq α] (P : Params α) (hq : ∀ x, quiet (P.q32 x) = P.q32 x)
    (m : Mesh α) (hwf : WF m) (hn : m.indices.length / 3 < 2 ^ 32) :
    ∃ bs r, writeMesh P m = .ok bs ∧ bs.length = 84 + 50 * (m.indices.length / 3) ∧
      readMesh P bs = .ok r ∧ RoundTrips P m r = true := stl_mesh_roundtrip P hq m hwf hn

/-- the normal clause at full strength (as C07 states it): every read-back triangle has a facet normal,
    the stored one if non-zero, else the geometric one — also "when none are stored" -/
def C07_geometric_normal_full [DecidableEq α] (P : Params α) : Prop :=
  ∀ m : Mesh α, WF m → m.indices ≠ [] → m.indices.length / 3 < 2 ^ 32 →
    ∃ bs r, writeMesh P m = .ok bs ∧ readMesh P bs = .ok r ∧ FullNormals P m r = true

/-- a concrete precision bundle over `Nat` payloads (small values only: never a NaN pattern) -/
def natParams : Params Nat where
  q32 n := BitVec.ofNat 32 (n % 1000)
  up w := w.toNat
  avgNormal a _ _ := a
  flatNormal a _ _ := a

theorem natParams_hq : ∀ x, quiet (natParams.q32 x) = natParams.q32 x := by
  intro x
  have h : isNaN32 (BitVec.ofNat 32 (x % 1000)) = false := by
    simp only [isNaN32, BitVec.toNat_ofNat, decide_eq_false_iff_not]; omega
  simp [natParams, quiet, h]

/-- the hypothesis `hq` of `stl_mesh_roundtrip` is satisfiable -/
example : ∃ P : Params Nat, ∀ x, quiet (P.q32 x) = P.q32 x := ⟨natParams, natParams_hq⟩

/-- one triangle, no normal attribute -/
def noNormalsWitness : Mesh Nat := ⟨[0, 1, 2], some [⟨0, 0, 0⟩, ⟨1, 0, 0⟩, ⟨0, 1, 0⟩], none⟩

theorem noNormalsWitness_wf : WF noNormalsWitness := ⟨rfl, _, rfl, by decide, by intro ns h; cases h⟩

/-- **Known finding (closed witness)**: the one-triangle mesh without normals is written and read back
    with NO normal attribute — `RoundTrips` holds, `FullNormals` does not. -/
theorem stl_no_normals_witness :
    ∃ bs r, writeMesh natParams noNormalsWitness = .ok bs ∧ readMesh natParams bs = .ok r ∧
      RoundTrips natParams noNormalsWitness r = true ∧ r.nrm = none ∧
      FullNormals natParams noNormalsWitness r = false := by
  obtain ⟨bs, r, hw, _, hr, hrt⟩ := stl_mesh_roundtrip natParams natParams_hq noNormalsWitness noNormalsWitness_wf (by decide)
  have hany : anyStored natParams noNormalsWitness.nrm (chunks noNormalsWitness.indices) = false := by decide
  have hnone : r.nrm = none := by
    unfold RoundTrips at hrt
    simp only [noNormalsWitness] at hrt hany
    simp only [hany, Bool.and_eq_true] at hrt
    have := hrt.2
    simpa using this
  refine ⟨bs, r, hw, hr, hrt, hnone, ?_⟩
  simp [FullNormals, noNormalsWitness, hnone]

/-- hence the full-strength clause is false of the (model of the) code -/
theorem stl_geometric_normal_counterexample : ¬ C07_geometric_normal_full natParams := by
  intro h
  obtain ⟨bs, r, hw, hr, hf⟩ := h noNormalsWitness noNormalsWitness_wf (by decide) (by decide)
  obtain ⟨bs', r', hw', hr', _, _, hf'⟩ := stl_no_normals_witness
  rw [hw] at hw'; cases hw'
  rw [hr] at hr'; cases hr'
  rw [hf] at hf'; cases hf'

end mesh

/-! ### NaN normals (what becomes of a facet normal whose mean is 0/0) -/

theorem isZero32_of_nan_aux (w : W32) (h : isNaN32 w = true) : isZero32 w = false := by
  have h' : 0x7f800000 < w.toNat % 0x80000000 := by simpa [isNaN32] using h
  have hm : (w &&& 0x7fffffff#32).toNat = w.toNat % 0x80000000 := by
    rw [BitVec.toNat_and]
    exact Nat.and_two_pow_sub_one_eq_mod w.toNat 31
  unfold isZero32
  apply Bool.eq_false_iff.mpr
  intro e
  have : w &&& 0x7fffffff#32 = 0#32 := by simpa using e
  rw [this] at hm
  simp at hm
  omega

/-- a stored facet normal with a NaN component is not "zero": `ReadMesh` keeps it (widened) instead of
    falling back to the geometric normal — this is what happens to the NaN that `WriteMesh` stores when the
    corner normals cancel (0/0) -/
theorem nan_normal_kept {α : Type} (P : Params α) (t : Tri)
    (h : isNaN32 t.n.x = true ∨ isNaN32 t.n.y = true ∨ isNaN32 t.n.z = true) : triNormal P t = t.n.map P.up := by
  have : isZeroV t.n = false := by
    unfold isZeroV
    rcases h with h | h | h <;> simp [isZero32_of_nan_aux _ h]
  simp [triNormal, this]

/-! ### ReadMesh → WriteMesh -/

section resave
variable {α : Type}

def triplesFrom : Nat → Nat → List (Nat × Nat × Nat)
  | _, 0 => []
  | o, n + 1 => (o, o + 1, o + 2) :: triplesFrom (o + 3) n

theorem chunks_range'_aux : ∀ (n o : Nat), chunks (List.range' o (3 * n)) = triplesFrom o n
  | 0, _ => rfl
  | n + 1, o => by
    have e : 3 * (n + 1) = (3 * n + 2) + 1 := by omega
    have e1 : 3 * n + 2 = (3 * n + 1) + 1 := by omega
    rw [e, List.range'_succ, e1, List.range'_succ, List.range'_succ]
    simp only [chunks, triplesFrom]
    have := chunks_range'_aux n (o + 3)
    simp only [Nat.add_assoc] at this ⊢
    rw [this]

theorem getElem?_after_aux {β : Type} (A : List β) (x y z : β) (rest : List β) :
    (A ++ x :: y :: z :: rest)[A.length]? = some x ∧ (A ++ x :: y :: z :: rest)[A.length + 1]? = some y ∧
    (A ++ x :: y :: z :: rest)[A.length + 2]? = some z := by
  refine ⟨by simp, ?_, ?_⟩
  · rw [List.getElem?_append_right (by omega)]; simp
  · rw [List.getElem?_append_right (by omega)]; simp

theorem buildTris_resave_aux (P : Params α) (keep : Bool) : ∀ (ts : List Tri) (A B : List (P3 α)),
    A.length = B.length →
    buildTris P (A ++ corners P ts) (if keep then some (B ++ cornerNormals P ts) else none)
      (triplesFrom A.length ts.length) = .ok (ts.map (resaveTri P keep))
  | [], _, _, _ => by simp [triplesFrom, buildTris]
  | t :: ts, A, B, hl => by
    obtain ⟨a1, a2, a3⟩ := getElem?_after_aux A (t.v1.map P.up) (t.v2.map P.up) (t.v3.map P.up) (corners P ts)
    obtain ⟨b1, b2, b3⟩ := getElem?_after_aux B (triNormal P t) (triNormal P t) (triNormal P t) (cornerNormals P ts)
    have ih := buildTris_resave_aux P keep ts (A ++ [t.v1.map P.up, t.v2.map P.up, t.v3.map P.up])
      (B ++ [triNormal P t, triNormal P t, triNormal P t]) (by simp [hl])
    have eA : (A ++ [t.v1.map P.up, t.v2.map P.up, t.v3.map P.up]) ++ corners P ts = A ++ corners P (t :: ts) := by
      simp [corners]
    have eB : (B ++ [triNormal P t, triNormal P t, triNormal P t]) ++ cornerNormals P ts = B ++ cornerNormals P (t :: ts) := by
      simp [cornerNormals]
    have eL : (A ++ [t.v1.map P.up, t.v2.map P.up, t.v3.map P.up]).length = A.length + 3 := by simp
    rw [eA, eB, eL] at ih
    have hsn : storedNormal P (if keep then some (B ++ cornerNormals P (t :: ts)) else none) A.length (A.length + 1) (A.length + 2)
        = some (if keep then (P.avgNormal (triNormal P t) (triNormal P t) (triNormal P t)).map P.q32 else zeroV) := by
      cases keep with
      | false => simp [storedNormal]
      | true =>
        have c1 : (B ++ cornerNormals P (t :: ts))[A.length]? = some (triNormal P t) := by rw [hl]; exact b1
        have c2 : (B ++ cornerNormals P (t :: ts))[A.length + 1]? = some (triNormal P t) := by rw [hl]; exact b2
        have c3 : (B ++ cornerNormals P (t :: ts))[A.length + 2]? = some (triNormal P t) := by rw [hl]; exact b3
        simp only [↓reduceIte, storedNormal, c1, c2, c3]
    have d1 : (A ++ corners P (t :: ts))[A.length]? = some (t.v1.map P.up) := a1
    have d2 : (A ++ corners P (t :: ts))[A.length + 1]? = some (t.v2.map P.up) := a2
    have d3 : (A ++ corners P (t :: ts))[A.length + 2]? = some (t.v3.map P.up) := a3
    simp only [List.length_cons, triplesFrom, buildTris, d1, d2, d3, hsn, ih]
    simp [resaveTri]

/-- **ReadMesh → WriteMesh, exactly.**  For every input `stl.Read` accepts (header `h`, records `ts`) and every
    precision bundle: re-saving through a mesh does not panic and yields the file with a ZERO header, the same
    number of records in order, every position word widened and narrowed again (`q32 (up w)`), every normal
    re-derived as `q32 (avgNormal n n n)` from the normal `n` ReadMesh gave the record's corners (stored one
    widened, or the geometric one where it is zero) — or all-zero when every stored normal is zero —, and
    attribute word 0. -/
theorem stl_mesh_resave (P : Params α) {bs : List Byte} {h : Header} {ts : List Tri}
    (hd : decode bs = .ok (h, ts)) : resaveMesh P bs = .ok (encode zeroHeader (resaveTris P ts)) := by
  unfold resaveMesh readMesh
  rw [hd]
  simp only [Except.map]
  cases ts with
  | nil => simp [meshOfTris, writeMesh, writeTris, resaveTris, Except.map]
  | cons t ts' =>
    have hb := buildTris_resave_aux P ((t :: ts').any fun t => !isZeroV t.n) (t :: ts') [] [] rfl
    simp only [List.nil_append, List.length_nil] at hb
    have hc : chunks (List.range (3 * (t :: ts').length)) = triplesFrom 0 (t :: ts').length := by
      rw [List.range_eq_range']; exact chunks_range'_aux _ 0
    simp only [meshOfTris, writeMesh, writeTris, hc, resaveTris]
    cases hk : ((t :: ts').any fun t => !isZeroV t.n) with
    | false => simp only [hk, Bool.false_eq_true, ↓reduceIte] at hb ⊢; rw [hb]; rfl
    | true => simp only [hk, ↓reduceIte] at hb ⊢; rw [hb]; rfl

/-- positions survive exactly when narrowing undoes widening on the stored words -/
theorem stl_mesh_resave_positions (P : Params α) (ts : List Tri)
    (hid : ∀ t ∈ ts, (t.v1.map P.up).map P.q32 = t.v1 ∧ (t.v2.map P.up).map P.q32 = t.v2 ∧ (t.v3.map P.up).map P.q32 = t.v3) :
    (resaveTris P ts).map (fun t => (t.v1, t.v2, t.v3)) = ts.map (fun t => (t.v1, t.v2, t.v3)) := by
  unfold resaveTris
  rw [List.map_map]
  apply List.map_congr_left
  intro t ht
  obtain ⟨h1, h2, h3⟩ := hid t ht
  simp [resaveTri, h1, h2, h3]

/-- the attribute word is always lost -/
theorem stl_mesh_resave_attr (P : Params α) (ts : List Tri) : ∀ t ∈ resaveTris P ts, t.attr = 0 := by
  intro t ht
  unfold resaveTris at ht
  obtain ⟨t0, _, rfl⟩ := List.mem_map.1 ht
  rfl

end resave

end StlL
end PolyVerif
