/-
  C03 lemmas: a transform of one attribute leaves everything else alone (frame), and the
  transformed attribute is exactly `f` of the old array.
-/
import PolyVerif.Lemmas.MeshWF3

namespace PolyVerif.Mesh
variable {α : Type}

theorem find?_filter_ne (as : Attrs α) {k k' : AttrKey} (h : k' ≠ k) :
    Attrs.find? (as.filter fun kd => kd.1 != k) k' = Attrs.find? as k' := by
  induction as with
  | nil => rfl
  | cons a t ih =>
    unfold Attrs.find? at ih ⊢
    rw [List.filter_cons]
    by_cases hak : a.1 = k
    · have hb : (a.1 != k) = false := by simp [hak]
      have hc : (a.1 == k') = false := by
        simp only [beq_eq_false_iff_ne, ne_eq]; intro h'; exact h (h' ▸ hak)
      rw [hb]
      simp only [Bool.false_eq_true, if_false, List.find?_cons, hc]
      exact ih
    · have hb : (a.1 != k) = true := by simp [hak]
      rw [hb]
      simp only [if_true, List.find?_cons]
      cases hc : (a.1 == k')
      · exact ih
      · rfl

theorem find?_replace_ne (as : Attrs α) {k k' : AttrKey} (data : List α) (h : k' ≠ k) :
    Attrs.find? (as.map fun kd => if kd.1 == k then (k, data) else kd) k' = Attrs.find? as k' := by
  induction as with
  | nil => rfl
  | cons a t ih =>
    unfold Attrs.find? at ih ⊢
    rw [List.map_cons]
    by_cases hak : a.1 = k
    · have hb : (a.1 == k) = true := by simp [hak]
      have hc : (a.1 == k') = false := by
        simp only [beq_eq_false_iff_ne, ne_eq]; intro h'; exact h (h' ▸ hak)
      have hd : (k == k') = false := by
        simp only [beq_eq_false_iff_ne, ne_eq]; intro h'; exact h h'.symm
      simp only [hb, if_true, List.find?_cons, hc, hd]
      exact ih
    · have hb : (a.1 == k) = false := by simp [hak]
      simp only [hb, Bool.false_eq_true, if_false, List.find?_cons]
      cases hc : (a.1 == k')
      · exact ih
      · rfl

theorem find?_append_ne (as : Attrs α) {k k' : AttrKey} (data : List α) (h : k' ≠ k) :
    Attrs.find? (as ++ [(k, data)]) k' = Attrs.find? as k' := by
  have h2 : ¬ k = k' := fun h' => h h'.symm
  simp only [Attrs.find?, List.find?_append]
  cases hf : List.find? (fun kd => kd.1 == k') as with
  | some x => simp
  | none => simp [List.find?_cons, h2]

theorem find?_replace_self (as : Attrs α) (k : AttrKey) (data : List α) (h : (Attrs.find? as k).isSome) :
    Attrs.find? (as.map fun kd => if kd.1 == k then (k, data) else kd) k = some data := by
  induction as with
  | nil => simp [Attrs.find?] at h
  | cons a t ih =>
    unfold Attrs.find? at ih h ⊢
    rw [List.map_cons]
    by_cases hak : a.1 = k
    · have hb : (a.1 == k) = true := by simp [hak]
      have hkk : (k == k) = true := by simp
      simp only [hb, if_true, List.find?_cons, hkk, Option.map_some]
    · have hb : (a.1 == k) = false := by simp [hak]
      simp only [hb, Bool.false_eq_true, if_false, List.find?_cons] at h ⊢
      exact ih h

theorem find?_append_self (as : Attrs α) (k : AttrKey) (data : List α) (h : Attrs.find? as k = none) :
    Attrs.find? (as ++ [(k, data)]) k = some data := by
  simp only [Attrs.find?, List.find?_append] at h ⊢
  cases hf : List.find? (fun kd => kd.1 == k) as with
  | some x => simp [hf] at h
  | none => simp [List.find?_cons]

theorem find?_filter_self (as : Attrs α) (k : AttrKey) :
    Attrs.find? (as.filter fun kd => kd.1 != k) k = none := by
  simp only [Attrs.find?, Option.map_eq_none_iff, List.find?_eq_none]
  intro kd hk
  have := (List.mem_filter.mp hk).2
  simpa using this

namespace MeshVal

/-- frame: `SetFloatNAttribute(k, ·)` does not touch any other attribute array -/
theorem setAttr_attr?_ne (m : MeshVal α) {k k' : AttrKey} (data : List α) (h : k' ≠ k) :
    (m.setAttr k data).attr? k' = m.attr? k' := by
  simp only [setAttr, attr?]
  split
  · exact find?_filter_ne _ h
  · split
    · exact find?_replace_ne _ _ h
    · exact find?_append_ne _ _ h

/-- the attribute itself: the new array, or no entry at all when the new array is empty -/
theorem setAttr_attr?_self (m : MeshVal α) (k : AttrKey) (data : List α) :
    (m.setAttr k data).attr? k = if data.isEmpty then none else some data := by
  simp only [setAttr, attr?]
  split
  · exact find?_filter_self _ _
  · split
    · rename_i hh
      exact find?_replace_self _ _ _ (by simpa [hasAttr] using hh)
    · rename_i hh
      apply find?_append_self
      simpa [hasAttr] using hh

theorem setAttr_frame (m : MeshVal α) (k : AttrKey) (data : List α) :
    (m.setAttr k data).topology = m.topology ∧ (m.setAttr k data).indices = m.indices ∧
    (m.setAttr k data).materials = m.materials := ⟨rfl, rfl, rfl⟩

end MeshVal
end PolyVerif.Mesh
