/-
  Helper lemmas for C01: the frame relation between heaps and what each heap primitive /
  each operation of Model/MeshHeap.lean does to it.
-/
import PolyVerif.Model.MeshHeap

namespace PolyVerif
namespace MeshHeap

variable {κ α : Type}

/-- `h'` is `h` with (possibly) more arrays and maps, where no array below `base` and no existing map was written -/
structure Frame (base : Nat) (h h' : Heap κ α) : Prop where
  base_le : base ≤ h.arrays.length
  size_le : h.arrays.length ≤ h'.arrays.length
  arr_eq : ∀ i, i < base → h'.arrays[i]? = h.arrays[i]?
  msize_le : h.maps.length ≤ h'.maps.length
  maps_eq : ∀ i, i < h.maps.length → h'.maps[i]? = h.maps[i]?

theorem Frame.refl {base : Nat} {h : Heap κ α} (hb : base ≤ h.arrays.length) : Frame base h h :=
  ⟨hb, Nat.le_refl _, fun _ _ => rfl, Nat.le_refl _, fun _ _ => rfl⟩

theorem Frame.trans {base : Nat} {h1 h2 h3 : Heap κ α} (a : Frame base h1 h2) (b : Frame base h2 h3) :
    Frame base h1 h3 :=
  ⟨a.base_le, Nat.le_trans a.size_le b.size_le,
   fun i hi => (b.arr_eq i hi).trans (a.arr_eq i hi),
   Nat.le_trans a.msize_le b.msize_le,
   fun i hi => (b.maps_eq i (Nat.lt_of_lt_of_le hi a.msize_le)).trans (a.maps_eq i hi)⟩

theorem Frame.base_le' {base : Nat} {h h' : Heap κ α} (f : Frame base h h') : base ≤ h'.arrays.length :=
  Nat.le_trans f.base_le f.size_le

theorem frame_alloc {base : Nat} {h : Heap κ α} (hb : base ≤ h.arrays.length) (c : List α) :
    Frame base h (h.alloc c).1 := by
  refine ⟨hb, by simp [Heap.alloc], ?_, by simp [Heap.alloc], fun _ _ => by simp [Heap.alloc]⟩
  intro i hi
  simp only [Heap.alloc]
  exact List.getElem?_append_left (by omega)

theorem frame_allocMap {base : Nat} {h : Heap κ α} (hb : base ≤ h.arrays.length) (es : List (κ × Slice)) :
    Frame base h (h.allocMap es).1 := by
  refine ⟨hb, by simp [Heap.allocMap], fun _ _ => by simp [Heap.allocMap], by simp [Heap.allocMap], ?_⟩
  intro i hi
  simp only [Heap.allocMap]
  exact List.getElem?_append_left hi

theorem frame_write {base : Nat} {h : Heap κ α} (hb : base ≤ h.arrays.length) (a i : Nat) (vs : List α)
    (ha : base ≤ a) : Frame base h (h.write a i vs) := by
  refine ⟨hb, by simp [Heap.write], ?_, by simp [Heap.write], fun _ _ => by simp [Heap.write]⟩
  intro j hj
  simp only [Heap.write, List.getElem?_modify]
  have : a ≠ j := by omega
  simp [this]

@[simp] theorem write_size (h : Heap κ α) (a i : Nat) (vs : List α) :
    (h.write a i vs).arrays.length = h.arrays.length := by simp [Heap.write]

@[simp] theorem alloc_size (h : Heap κ α) (c : List α) :
    (h.alloc c).1.arrays.length = h.arrays.length + 1 := by simp [Heap.alloc]

/-- the slice points into an array allocated at or after `base`, or has no array at all -/
def Fresh (base : Nat) (s : Slice) : Prop := base ≤ s.arr ∨ s.cap = 0

theorem Slice.Valid.mono {h h' : Heap κ α} {s : Slice} (v : s.Valid h) (hs : h.arrays.length ≤ h'.arrays.length) :
    s.Valid h' := by
  obtain ⟨a, b⟩ := v
  exact ⟨a, b.imp id (fun x => Nat.lt_of_lt_of_le x hs)⟩

theorem nil_valid (h : Heap κ α) : Slice.nil.Valid h := ⟨Nat.le_refl _, Or.inl rfl⟩
theorem nil_fresh (base : Nat) : Fresh base Slice.nil := Or.inr rfl

/-- Go `append` onto a fresh-or-nil slice touches nothing below `base`; the result is again fresh and valid -/
theorem goAppend_spec (E : Env α) {base : Nat} {h : Heap κ α} (hb : base ≤ h.arrays.length) {s : Slice}
    (fs : Fresh base s) (vs_ : s.Valid h) (vs : List α) :
    Frame base h (goAppend E h s vs).1 ∧ Fresh base (goAppend E h s vs).2 ∧
      (goAppend E h s vs).2.Valid (goAppend E h s vs).1 := by
  cases vs with
  | nil => exact ⟨Frame.refl hb, fs, vs_⟩
  | cons v vs =>
    simp only [goAppend]
    split
    · rename_i hfit
      have hcap : s.cap ≠ 0 := by simp at hfit; omega
      have harr : base ≤ s.arr := fs.resolve_right hcap
      refine ⟨frame_write hb _ _ _ harr, Or.inl harr, ?_⟩
      refine ⟨hfit, ?_⟩
      rw [write_size]
      exact vs_.2
    · refine ⟨frame_alloc hb _, Or.inl hb, ?_⟩
      refine ⟨by simp, Or.inr ?_⟩
      simp

theorem appendZeros_spec (E : Env α) {base : Nat} (n : Nat) : ∀ {h : Heap κ α} (_ : base ≤ h.arrays.length) {s : Slice}
    (_ : Fresh base s) (_ : s.Valid h),
    Frame base h (appendZeros E h s n).1 ∧ Fresh base (appendZeros E h s n).2 ∧
      (appendZeros E h s n).2.Valid (appendZeros E h s n).1 := by
  induction n with
  | zero => intro h hb s fs vs; exact ⟨Frame.refl hb, fs, vs⟩
  | succ n ih =>
    intro h hb s fs vs
    obtain ⟨f1, fr1, v1⟩ := goAppend_spec E hb fs vs [E.zero]
    obtain ⟨f2, fr2, v2⟩ := ih f1.base_le' fr1 v1
    exact ⟨f1.trans f2, fr2, v2⟩

theorem allocSlice_spec (E : Env α) {base : Nat} {h : Heap κ α} (hb : base ≤ h.arrays.length) (vs : List α) (sp : Nat) :
    Frame base h (allocSlice E h vs sp).1 ∧ Fresh base (allocSlice E h vs sp).2 ∧
      (allocSlice E h vs sp).2.Valid (allocSlice E h vs sp).1 := by
  refine ⟨frame_alloc hb _, Or.inl hb, ?_⟩
  simp only [allocSlice]
  exact ⟨by simp, Or.inr (by simp)⟩

/-! ### reading through a frame -/

theorem read_frame {base : Nat} {h h' : Heap κ α} (f : Frame base h h') {s : Slice}
    (hs : s.arr < base ∨ s.len = 0) : h'.read s = h.read s := by
  cases hs with
  | inl hlt => simp [Heap.read, Heap.array, f.arr_eq _ hlt]
  | inr h0 => simp [Heap.read, h0]

theorem read_frame_valid {h h' : Heap κ α} (f : Frame h.arrays.length h h') {s : Slice}
    (v : s.Valid h) : h'.read s = h.read s := by
  apply read_frame f
  obtain ⟨a, b⟩ := v
  cases b with
  | inl c => right; omega
  | inr c => left; exact c

theorem mapEntries_frame {base : Nat} {h h' : Heap κ α} (f : Frame base h h') {m : Option Nat}
    (v : MapRef.Valid h m) : h'.mapEntries m = h.mapEntries m := by
  cases m with
  | none => rfl
  | some i => simp [Heap.mapEntries, f.maps_eq i v.1]

theorem MapRef.Valid.mono {base : Nat} {h h' : Heap κ α} (f : Frame base h h') {m : Option Nat}
    (v : MapRef.Valid h m) : MapRef.Valid h' m := by
  cases m with
  | none => trivial
  | some i =>
    refine ⟨Nat.lt_of_lt_of_le v.1 f.msize_le, ?_⟩
    rw [f.maps_eq i v.1]
    intro e he
    exact (v.2 e he).mono f.size_le

theorem MeshRep.Valid.mono {base : Nat} {h h' : Heap κ α} (f : Frame base h h') {r : MeshRep}
    (v : r.Valid h) : r.Valid h' :=
  ⟨v.1.mono f.size_le, v.2.1.mono f.size_le, fun m hm => (v.2.2 m hm).mono f⟩

/-- the observable value of a valid mesh survives any heap change that leaves the arrays and maps
    existing at the time alone -/
theorem obs_frame {h h' : Heap κ α} (f : Frame h.arrays.length h h') {r : MeshRep} (v : r.Valid h) :
    obs h' r = obs h r := by
  obtain ⟨vi, vm, vmaps⟩ := v
  simp only [obs, read_frame_valid f vi, read_frame_valid f vm]
  congr 1
  apply List.map_congr_left
  intro m hm
  have vm' := vmaps m hm
  rw [mapEntries_frame f vm']
  apply List.map_congr_left
  intro e he
  have : Slice.Valid h e.2 := by
    cases m with
    | none => simp [Heap.mapEntries] at he
    | some i => exact vm'.2 e (by simpa [Heap.mapEntries] using he)
  rw [read_frame_valid f this]

/-! ### association lists -/
section maps
set_option linter.unusedSectionVars false
variable [DecidableEq κ]

theorem mem_insert {es : List (κ × Slice)} {k : κ} {s : Slice} {e : κ × Slice} (h : e ∈ insert es k s) :
    e ∈ es ∨ e = (k, s) := by
  unfold insert at h
  split at h
  · rw [List.mem_map] at h
    obtain ⟨x, hx, rfl⟩ := h
    split
    · right; rfl
    · left; exact hx
  · rw [List.mem_append] at h
    cases h with
    | inl h => left; exact h
    | inr h => right; simpa using h

theorem mem_erase {es : List (κ × Slice)} {k : κ} {e : κ × Slice} (h : e ∈ erase es k) : e ∈ es :=
  (List.mem_filter.mp h).1

theorem lookup_mem {es : List (κ × Slice)} {k : κ} {c : Slice} (h : lookup es k = some c) :
    ∃ e ∈ es, e.2 = c := by
  unfold lookup at h
  cases hf : es.find? (fun e => e.1 == k) with
  | none => simp [hf] at h
  | some e =>
    simp [hf] at h
    exact ⟨e, List.mem_of_find?_eq_some hf, h⟩

/-- every slice of a map under construction is fresh (or nil) and valid -/
def FinOK (base : Nat) (h : Heap κ α) (fin : List (κ × Slice)) : Prop :=
  ∀ e ∈ fin, Fresh base e.2 ∧ e.2.Valid h

theorem FinOK.mono {base : Nat} {h h' : Heap κ α} {fin : List (κ × Slice)} (a : FinOK base h fin)
    (hs : h.arrays.length ≤ h'.arrays.length) : FinOK base h' fin :=
  fun e he => ⟨(a e he).1, (a e he).2.mono hs⟩

theorem FinOK.insert {base : Nat} {h : Heap κ α} {fin : List (κ × Slice)} (a : FinOK base h fin)
    {k : κ} {s : Slice} (fs : Fresh base s) (vs : s.Valid h) : FinOK base h (insert fin k s) := by
  intro e he
  cases mem_insert he with
  | inl h1 => exact a e h1
  | inr h1 => subst h1; exact ⟨fs, vs⟩

theorem appendDataA_spec (E : Env α) {base : Nat} (b : List (κ × Slice)) (bLen : Nat) (a : List (κ × Slice)) :
    ∀ {h : Heap κ α} (_ : base ≤ h.arrays.length) {fin : List (κ × Slice)} (_ : FinOK base h fin),
    Frame base h (appendDataA E b bLen h a fin).1 ∧
      FinOK base (appendDataA E b bLen h a fin).1 (appendDataA E b bLen h a fin).2 := by
  induction a with
  | nil => intro h hb fin ok; exact ⟨Frame.refl hb, ok⟩
  | cons e rest ih =>
    intro h hb fin ok
    simp only [appendDataA]
    have f1 : Frame base h (h.alloc (h.read e.2 ++ List.replicate bLen E.zero)).1 := frame_alloc hb _
    have fc : Fresh base (⟨h.arrays.length, 0, e.2.len, e.2.len + bLen⟩ : Slice) := Or.inl hb
    have vc : Slice.Valid (h.alloc (h.read e.2 ++ List.replicate bLen E.zero)).1
        (⟨h.arrays.length, 0, e.2.len, e.2.len + bLen⟩ : Slice) := ⟨by simp, Or.inr (by simp)⟩
    split
    · obtain ⟨f2, ok2⟩ := ih f1.base_le' (FinOK.insert (k := e.1) (ok.mono f1.size_le) fc vc)
      exact ⟨f1.trans f2, ok2⟩
    · obtain ⟨fz, frz, vz⟩ := appendZeros_spec E bLen f1.base_le' fc vc
      obtain ⟨f2, ok2⟩ := ih fz.base_le' (FinOK.insert (k := e.1) (ok.mono (f1.trans fz).size_le) frz vz)
      exact ⟨(f1.trans fz).trans f2, ok2⟩

theorem appendDataB_spec (E : Env α) {base : Nat} (aLen : Nat) (b : List (κ × Slice)) :
    ∀ {h : Heap κ α} (_ : base ≤ h.arrays.length) {fin : List (κ × Slice)} (_ : FinOK base h fin),
    Frame base h (appendDataB E aLen h b fin).1 ∧
      FinOK base (appendDataB E aLen h b fin).1 (appendDataB E aLen h b fin).2 := by
  induction b with
  | nil => intro h hb fin ok; exact ⟨Frame.refl hb, ok⟩
  | cons e rest ih =>
    intro h hb fin ok
    simp only [appendDataB]
    split
    · rename_i c hc
      obtain ⟨e', he', rfl⟩ := lookup_mem hc
      obtain ⟨fc, vc⟩ := ok e' he'
      obtain ⟨f1, fr1, v1⟩ := goAppend_spec E hb fc vc (h.read e.2)
      obtain ⟨f2, ok2⟩ := ih f1.base_le' (FinOK.insert (k := e.1) (ok.mono f1.size_le) fr1 v1)
      exact ⟨f1.trans f2, ok2⟩
    · obtain ⟨fz, frz, vz⟩ := appendZeros_spec E aLen hb (nil_fresh base) (nil_valid h)
      obtain ⟨f1, fr1, v1⟩ := goAppend_spec E fz.base_le' frz vz ((appendZeros E h Slice.nil aLen).1.read e.2)
      obtain ⟨f2, ok2⟩ := ih f1.base_le' (FinOK.insert (k := e.1) (ok.mono (fz.trans f1).size_le) fr1 v1)
      exact ⟨(fz.trans f1).trans f2, ok2⟩

theorem FinOK.nil (base : Nat) (h : Heap κ α) : FinOK base h ([] : List (κ × Slice)) := fun _ he => by simp at he

/-- a freshly allocated map whose slices are valid is a valid map reference -/
theorem allocMap_valid {h : Heap κ α} {es : List (κ × Slice)} (v : ∀ e ∈ es, e.2.Valid h) :
    MapRef.Valid (h.allocMap es).1 (some (h.allocMap es).2) := by
  refine ⟨by simp [Heap.allocMap], ?_⟩
  simp only [Heap.allocMap, List.getElem?_append_right (Nat.le_refl _), Nat.sub_self, List.getElem?_cons_zero,
    Option.getD_some]
  intro e he
  exact (v e he).mono (Nat.le_refl _)

/-- one kind of the current `Append`: nothing below `base` is written; the returned map is valid -/
theorem appendKind_spec (E : Env α) {base : Nat} (aLen bLen : Nat) {h : Heap κ α} (hb : base ≤ h.arrays.length)
    (ma mb : Option Nat) :
    Frame base h (appendKind E false aLen bLen h ma mb).1 ∧
      MapRef.Valid (appendKind E false aLen bLen h ma mb).1 (some (appendKind E false aLen bLen h ma mb).2) := by
  simp only [appendKind, Bool.false_eq_true, if_false]
  obtain ⟨f1, ok1⟩ := appendDataA_spec E (h.mapEntries mb) bLen (h.mapEntries ma) hb (FinOK.nil base h)
  obtain ⟨f2, ok2⟩ := appendDataB_spec E aLen (h.mapEntries mb) f1.base_le' ok1
  exact ⟨(f1.trans f2).trans (frame_allocMap f2.base_le' _), allocMap_valid (fun e he => (ok2 e he).2)⟩

theorem appendMapsB_spec (E : Env α) {base : Nat} (aLen bLen : Nat) (os : List (Option Nat)) :
    ∀ {h : Heap κ α} (_ : base ≤ h.arrays.length),
    Frame base h (appendMapsB E false aLen bLen h os).1 ∧
      ∀ m ∈ (appendMapsB E false aLen bLen h os).2, MapRef.Valid (appendMapsB E false aLen bLen h os).1 m := by
  induction os with
  | nil => intro h hb; exact ⟨Frame.refl hb, fun m hm => by simp [appendMapsB] at hm⟩
  | cons mb os ih =>
    intro h hb
    simp only [appendMapsB]
    obtain ⟨f1, v1⟩ := appendKind_spec E aLen bLen hb none mb
    obtain ⟨f2, v2⟩ := ih f1.base_le'
    refine ⟨f1.trans f2, ?_⟩
    intro m hm
    rcases List.mem_cons.mp hm with rfl | hm
    · exact v1.mono f2
    · exact v2 m hm

theorem appendMaps_spec (E : Env α) {base : Nat} (aLen bLen : Nat) (ms : List (Option Nat)) :
    ∀ (os : List (Option Nat)) {h : Heap κ α} (_ : base ≤ h.arrays.length),
    Frame base h (appendMaps E false aLen bLen h ms os).1 ∧
      ∀ m ∈ (appendMaps E false aLen bLen h ms os).2, MapRef.Valid (appendMaps E false aLen bLen h ms os).1 m := by
  induction ms with
  | nil => intro os h hb; simp only [appendMaps]; exact appendMapsB_spec E aLen bLen os hb
  | cons ma ms ih =>
    intro os h hb
    simp only [appendMaps]
    obtain ⟨f1, v1⟩ := appendKind_spec E aLen bLen hb ma (headKind os)
    obtain ⟨f2, v2⟩ := ih os.tail f1.base_le'
    refine ⟨f1.trans f2, ?_⟩
    intro m hm
    rcases List.mem_cons.mp hm with rfl | hm
    · exact v1.mono f2
    · exact v2 m hm

end maps

section maps2
set_option linter.unusedSectionVars false
variable [DecidableEq κ]

theorem frame_write_nil {base : Nat} {h : Heap κ α} (hb : base ≤ h.arrays.length) (a i : Nat) :
    Frame base h (h.write a i []) := by
  refine ⟨hb, by simp [Heap.write], ?_, by simp [Heap.write], fun _ _ => by simp [Heap.write]⟩
  intro j _
  simp only [Heap.write, List.getElem?_modify]
  cases h.arrays[j]? <;> simp

theorem shiftTail_spec (E : Env α) {base : Nat} {h : Heap κ α} (hb : base ≤ h.arrays.length) {s : Slice}
    (fs : Fresh base s) (vs : s.Valid h) (from_ n : Nat) :
    Frame base h (shiftTail E h s from_ n) ∧ (shiftTail E h s from_ n).arrays.length = h.arrays.length := by
  refine ⟨?_, by simp [shiftTail]⟩
  cases fs with
  | inl ha => exact frame_write hb _ _ _ ha
  | inr hc =>
    have hl : s.len = 0 := by have := vs.1; omega
    simp only [shiftTail, Heap.read, hl, Nat.zero_sub, List.take_zero, List.map_nil]
    exact frame_write_nil hb _ _

/-- `Mesh.Append` as it is now writes only into arrays it allocated itself, and returns a valid mesh -/
theorem appendCopy_spec (E : Env α) {h h' : Heap κ α} {m o r : MeshRep} {aLen bLen : Nat} {base : Nat} (hb : base ≤ h.arrays.length)
    (hr : appendCopy E h m o aLen bLen = some (h', r)) : Frame base h h' ∧ r.Valid h' := by
  unfold appendCopy at hr
  split at hr
  · cases hr
  · simp only [Option.some.injEq, Prod.mk.injEq] at hr
    obtain ⟨rfl, rfl⟩ := hr
    obtain ⟨fm, vm⟩ := appendMaps_spec E aLen bLen m.maps o.maps hb
    generalize appendMaps E false aLen bLen h m.maps o.maps = rm at fm vm ⊢
    -- indices
    have f2 := frame_alloc (κ := κ) fm.base_le' (List.replicate (m.indices.len + o.indices.len) E.zero)
    have ft0 : Fresh base (⟨rm.1.arrays.length, 0, 0, m.indices.len + o.indices.len⟩ : Slice) := Or.inl fm.base_le'
    have vt0 : Slice.Valid (rm.1.alloc (List.replicate (m.indices.len + o.indices.len) E.zero)).1
        (⟨rm.1.arrays.length, 0, 0, m.indices.len + o.indices.len⟩ : Slice) := ⟨Nat.zero_le _, Or.inr (by simp)⟩
    obtain ⟨f3, ft1, vt1⟩ := goAppend_spec E f2.base_le' ft0 vt0
      ((rm.1.alloc (List.replicate (m.indices.len + o.indices.len) E.zero)).1.read m.indices)
    generalize goAppend E _ _ _ = t1 at f3 ft1 vt1 ⊢
    obtain ⟨f4, ft2, vt2⟩ := goAppend_spec E f3.base_le' ft1 vt1 (t1.1.read o.indices)
    generalize goAppend E _ _ _ = t2 at f4 ft2 vt2 ⊢
    -- materials
    have f5 := frame_alloc (κ := κ) f4.base_le' (List.replicate (m.materials.len + o.materials.len) E.zero)
    have fu0 : Fresh base (⟨t2.1.arrays.length, 0, 0, m.materials.len + o.materials.len⟩ : Slice) := Or.inl f4.base_le'
    have vu0 : Slice.Valid (t2.1.alloc (List.replicate (m.materials.len + o.materials.len) E.zero)).1
        (⟨t2.1.arrays.length, 0, 0, m.materials.len + o.materials.len⟩ : Slice) := ⟨Nat.zero_le _, Or.inr (by simp)⟩
    obtain ⟨f6, fu1, vu1⟩ := goAppend_spec E f5.base_le' fu0 vu0
      ((t2.1.alloc (List.replicate (m.materials.len + o.materials.len) E.zero)).1.read m.materials)
    generalize goAppend E _ _ _ = u1 at f6 fu1 vu1 ⊢
    obtain ⟨f7, fu2, vu2⟩ := goAppend_spec E f6.base_le' fu1 vu1 (u1.1.read o.materials)
    generalize goAppend E _ _ _ = u2 at f7 fu2 vu2 ⊢
    have vt2' : t2.2.Valid u2.1 := vt2.mono (Nat.le_trans f5.size_le (Nat.le_trans f6.size_le f7.size_le))
    obtain ⟨f8, hsz⟩ := shiftTail_spec E f7.base_le' ft2 vt2' m.indices.len aLen
    have fall := ((((((fm.trans f2).trans f3).trans f4).trans f5).trans f6).trans f7).trans f8
    refine ⟨fall, ?_, ?_, ?_⟩
    · exact vt2'.mono (Nat.le_of_eq hsz.symm)
    · exact vu2.mono (Nat.le_of_eq hsz.symm)
    · intro mm hmm
      exact (vm mm hmm).mono ((((((f2.trans f3).trans f4).trans f5).trans f6).trans f7).trans f8)

theorem allocEntries_spec (E : Env α) {base : Nat} (es : List (κ × List α × Nat)) :
    ∀ {h : Heap κ α} (_ : base ≤ h.arrays.length),
    Frame base h (allocEntries E h es).1 ∧ ∀ e ∈ (allocEntries E h es).2, e.2.Valid (allocEntries E h es).1 := by
  induction es with
  | nil => intro h hb; exact ⟨Frame.refl hb, fun e he => by simp [allocEntries] at he⟩
  | cons e rest ih =>
    intro h hb
    simp only [allocEntries]
    obtain ⟨f1, _, v1⟩ := allocSlice_spec (κ := κ) E hb e.2.1 e.2.2
    obtain ⟨f2, v2⟩ := ih f1.base_le'
    refine ⟨f1.trans f2, ?_⟩
    intro x hx
    rcases List.mem_cons.mp hx with rfl | hx
    · exact v1.mono f2.size_le
    · exact v2 x hx

theorem allocMapOf_spec (E : Env α) {base : Nat} (es : List (κ × List α × Nat)) {h : Heap κ α}
    (hb : base ≤ h.arrays.length) :
    Frame base h (allocMapOf E h es).1 ∧ MapRef.Valid (allocMapOf E h es).1 (some (allocMapOf E h es).2) := by
  simp only [allocMapOf]
  obtain ⟨f1, v1⟩ := allocEntries_spec E es hb
  exact ⟨f1.trans (frame_allocMap f1.base_le' _), allocMap_valid v1⟩

theorem allocMaps_spec (E : Env α) {base : Nat} (ess : List (List (κ × List α × Nat))) :
    ∀ {h : Heap κ α} (_ : base ≤ h.arrays.length),
    Frame base h (allocMaps E h ess).1 ∧ ∀ m ∈ (allocMaps E h ess).2, MapRef.Valid (allocMaps E h ess).1 m := by
  induction ess with
  | nil => intro h hb; exact ⟨Frame.refl hb, fun e he => by simp [allocMaps] at he⟩
  | cons es rest ih =>
    intro h hb
    simp only [allocMaps]
    obtain ⟨f1, v1⟩ := allocMapOf_spec E es hb
    obtain ⟨f2, v2⟩ := ih f1.base_le'
    refine ⟨f1.trans f2, ?_⟩
    intro x hx
    rcases List.mem_cons.mp hx with rfl | hx
    · exact v1.mono f2
    · exact v2 x hx

theorem setKind_valid {h : Heap κ α} {maps : List (Option Nat)} (v : ∀ m ∈ maps, MapRef.Valid h m) {kind id : Nat}
    (vi : MapRef.Valid h (some id)) : ∀ m ∈ setKind maps kind id, MapRef.Valid h m := by
  intro m hm
  rcases List.mem_or_eq_of_mem_set hm with h1 | h1
  · exact v m h1
  · subst h1; exact vi

theorem kindEntries_valid {h : Heap κ α} {maps : List (Option Nat)} (v : ∀ m ∈ maps, MapRef.Valid h m) (kind : Nat) :
    ∀ e ∈ h.mapEntries ((maps[kind]?).getD none), Slice.Valid h e.2 := by
  intro e he
  cases hk : maps[kind]? with
  | none => simp [hk, Heap.mapEntries] at he
  | some m =>
    have hm : m ∈ maps := List.mem_of_getElem? hk
    have vm := v m hm
    cases m with
    | none => simp [hk, Heap.mapEntries] at he
    | some i =>
      simp only [hk, Option.getD_some, Heap.mapEntries] at he
      exact vm.2 e he

theorem insertErase_valid {h : Heap κ α} {old : List (κ × Slice)} (vo : ∀ e ∈ old, Slice.Valid h e.2)
    {name : κ} {d : Slice} (vd : d.Valid h) (c : Prop) [Decidable c] :
    ∀ e ∈ (if c then erase (insert old name d) name else insert old name d), Slice.Valid h e.2 := by
  intro e he
  have : e ∈ insert old name d := by
    split at he
    · exact mem_erase he
    · exact he
  rcases mem_insert this with h1 | h1
  · exact vo e h1
  · subst h1; exact vd

/-- every operation of the current tree writes only into arrays it allocated itself, never into an
    existing map, and the meshes it returns are valid -/
theorem apply_spec (E : Env α) {s : State κ α} (vs : s.Valid) {op : Op κ α} (hc : op.current = true)
    {h' : Heap κ α} {rs : List MeshRep} (ha : op.apply E s = some (h', rs)) :
    Frame s.heap.arrays.length s.heap h' ∧ ∀ r ∈ rs, r.Valid h' := by
  have hb : s.heap.arrays.length ≤ s.heap.arrays.length := Nat.le_refl _
  cases op with
  | newMesh topo idx isp mats msp attrs =>
    simp only [Op.apply, Option.some.injEq, Prod.mk.injEq] at ha
    obtain ⟨rfl, rfl⟩ := ha
    obtain ⟨f1, _, v1⟩ := allocSlice_spec (κ := κ) E hb idx isp
    obtain ⟨f2, _, v2⟩ := allocSlice_spec (κ := κ) E f1.base_le' mats msp
    obtain ⟨f3, v3⟩ := allocMaps_spec E attrs f2.base_le'
    refine ⟨(f1.trans f2).trans f3, ?_⟩
    intro r hr
    simp only [List.mem_singleton] at hr
    subst hr
    exact ⟨v1.mono (f2.trans f3).size_le, v2.mono f3.size_le, v3⟩
  | setIndices m idx sp =>
    simp only [Op.apply, Option.bind_eq_bind, Option.bind_eq_some_iff, Option.pure_def, Option.some.injEq, Prod.mk.injEq] at ha
    obtain ⟨r, hr, rfl, rfl⟩ := ha
    have vr := vs r (List.mem_of_getElem? hr)
    obtain ⟨f1, _, v1⟩ := allocSlice_spec (κ := κ) E hb idx sp
    refine ⟨f1, ?_⟩
    intro x hx
    simp only [List.mem_singleton] at hx
    subst hx
    have vr' := vr.mono f1
    exact ⟨v1, vr'.2.1, vr'.2.2⟩
  | setMaterials m mats sp =>
    simp only [Op.apply, Option.bind_eq_bind, Option.bind_eq_some_iff, Option.pure_def, Option.some.injEq, Prod.mk.injEq] at ha
    obtain ⟨r, hr, rfl, rfl⟩ := ha
    have vr := vs r (List.mem_of_getElem? hr)
    obtain ⟨f1, _, v1⟩ := allocSlice_spec (κ := κ) E hb mats sp
    refine ⟨f1, ?_⟩
    intro x hx
    simp only [List.mem_singleton] at hx
    subst hx
    have vr' := vr.mono f1
    exact ⟨vr'.1, v1, vr'.2.2⟩
  | shareMaterials m src =>
    simp only [Op.apply, Option.bind_eq_bind, Option.bind_eq_some_iff, Option.pure_def, Option.some.injEq, Prod.mk.injEq] at ha
    obtain ⟨r, hr, q, hq, rfl, rfl⟩ := ha
    have vr := vs r (List.mem_of_getElem? hr)
    have vq := vs q (List.mem_of_getElem? hq)
    refine ⟨Frame.refl hb, ?_⟩
    intro x hx
    simp only [List.mem_singleton] at hx
    subst hx
    exact ⟨vr.1, vq.2.1, vr.2.2⟩
  | toPointCloud m pt n =>
    simp only [Op.apply, Option.bind_eq_bind, Option.bind_eq_some_iff, Option.pure_def] at ha
    obtain ⟨r, hr, ha⟩ := ha
    have vr := vs r (List.mem_of_getElem? hr)
    split at ha
    · simp only [Option.some.injEq, Prod.mk.injEq] at ha
      obtain ⟨rfl, rfl⟩ := ha
      refine ⟨Frame.refl hb, ?_⟩
      intro x hx
      simp only [List.mem_singleton] at hx
      subst hx
      exact vr
    · simp only [Option.some.injEq, Prod.mk.injEq] at ha
      obtain ⟨rfl, rfl⟩ := ha
      obtain ⟨f1, _, v1⟩ := allocSlice_spec (κ := κ) E hb ((List.range n).map E.ident) 0
      refine ⟨f1, ?_⟩
      intro x hx
      simp only [List.mem_singleton] at hx
      subst hx
      have vr' := vr.mono f1
      exact ⟨v1, vr'.2.1, vr'.2.2⟩
  | clearAttrs m =>
    simp only [Op.apply, Option.bind_eq_bind, Option.bind_eq_some_iff, Option.pure_def, Option.some.injEq, Prod.mk.injEq] at ha
    obtain ⟨r, hr, rfl, rfl⟩ := ha
    have vr := vs r (List.mem_of_getElem? hr)
    refine ⟨Frame.refl hb, ?_⟩
    intro x hx
    simp only [List.mem_singleton] at hx
    subst hx
    refine ⟨vr.1, vr.2.1, ?_⟩
    intro mm hmm
    simp only [List.mem_map] at hmm
    obtain ⟨_, _, rfl⟩ := hmm
    trivial
  | setData m kind es =>
    simp only [Op.apply, Option.bind_eq_bind, Option.bind_eq_some_iff, Option.pure_def, Option.some.injEq, Prod.mk.injEq] at ha
    obtain ⟨r, hr, rfl, rfl⟩ := ha
    have vr := vs r (List.mem_of_getElem? hr)
    obtain ⟨f1, v1⟩ := allocMapOf_spec E es hb
    refine ⟨f1, ?_⟩
    intro x hx
    simp only [List.mem_singleton] at hx
    subst hx
    have vr' := vr.mono f1
    exact ⟨vr'.1, vr'.2.1, setKind_valid vr'.2.2 v1⟩
  | setAttr m kind name data sp =>
    simp only [Op.apply, Option.bind_eq_bind, Option.bind_eq_some_iff, Option.pure_def, Option.some.injEq, Prod.mk.injEq] at ha
    obtain ⟨r, hr, rfl, rfl⟩ := ha
    have vr := vs r (List.mem_of_getElem? hr)
    obtain ⟨f1, _, v1⟩ := allocSlice_spec (κ := κ) E hb data sp
    have vold := kindEntries_valid vr.2.2 kind
    have ves := insertErase_valid (fun e he => (vold e he).mono f1.size_le) (name := name) v1 (data.length = 0)
    have f2 := frame_allocMap f1.base_le' (if data.length = 0 then
        erase (insert (s.heap.mapEntries ((r.maps[kind]?).getD none)) name (allocSlice E s.heap data sp).2) name
      else insert (s.heap.mapEntries ((r.maps[kind]?).getD none)) name (allocSlice E s.heap data sp).2)
    refine ⟨f1.trans f2, ?_⟩
    intro x hx
    simp only [List.mem_singleton] at hx
    subst hx
    have vr' := vr.mono (f1.trans f2)
    exact ⟨vr'.1, vr'.2.1, setKind_valid vr'.2.2 (allocMap_valid ves)⟩
  | copyAttr m src kind name =>
    simp only [Op.apply, Option.bind_eq_bind, Option.bind_eq_some_iff, Option.pure_def, Option.some.injEq, Prod.mk.injEq] at ha
    obtain ⟨r, hr, q, hq, rfl, rfl⟩ := ha
    have vr := vs r (List.mem_of_getElem? hr)
    have vq := vs q (List.mem_of_getElem? hq)
    have vold := kindEntries_valid vr.2.2 kind
    have vsrc := kindEntries_valid vq.2.2 kind
    have vd : Slice.Valid s.heap ((lookup (s.heap.mapEntries ((q.maps[kind]?).getD none)) name).getD Slice.nil) := by
      cases hl : lookup (s.heap.mapEntries ((q.maps[kind]?).getD none)) name with
      | none => exact nil_valid _
      | some c =>
        obtain ⟨e, he, rfl⟩ := lookup_mem hl
        exact vsrc e he
    have ves := insertErase_valid vold (name := name) vd
      (((lookup (s.heap.mapEntries ((q.maps[kind]?).getD none)) name).getD Slice.nil).len = 0)
    have f2 := frame_allocMap hb (if ((lookup (s.heap.mapEntries ((q.maps[kind]?).getD none)) name).getD Slice.nil).len = 0 then
        erase (insert (s.heap.mapEntries ((r.maps[kind]?).getD none)) name ((lookup (s.heap.mapEntries ((q.maps[kind]?).getD none)) name).getD Slice.nil)) name
      else insert (s.heap.mapEntries ((r.maps[kind]?).getD none)) name ((lookup (s.heap.mapEntries ((q.maps[kind]?).getD none)) name).getD Slice.nil))
    refine ⟨f2, ?_⟩
    intro x hx
    simp only [List.mem_singleton] at hx
    subst hx
    have vr' := vr.mono f2
    exact ⟨vr'.1, vr'.2.1, setKind_valid vr'.2.2 (allocMap_valid ves)⟩
  | rebuild m topo idx isp attrs mm =>
    simp only [Op.apply, Option.bind_eq_bind, Option.bind_eq_some_iff, Option.pure_def, Option.some.injEq, Prod.mk.injEq] at ha
    obtain ⟨r, hr, rfl, rfl⟩ := ha
    have vr := vs r (List.mem_of_getElem? hr)
    obtain ⟨f1, _, v1⟩ := allocSlice_spec (κ := κ) E hb idx isp
    obtain ⟨f2, v2⟩ := allocMaps_spec E attrs f1.base_le'
    refine ⟨f1.trans f2, ?_⟩
    intro x hx
    simp only [List.mem_singleton] at hx
    subst hx
    refine ⟨v1.mono f2.size_le, ?_, v2⟩
    cases mm with
    | share => exact (vr.mono (f1.trans f2)).2.1
    | drop => exact nil_valid _
  | readOnly m =>
    simp only [Op.apply, Option.bind_eq_bind, Option.bind_eq_some_iff, Option.pure_def, Option.some.injEq, Prod.mk.injEq] at ha
    obtain ⟨r, hr, rfl, rfl⟩ := ha
    exact ⟨Frame.refl hb, fun x hx => by simp at hx⟩
  | append m o aLen bLen =>
    simp only [Op.apply, Option.bind_eq_bind, Option.bind_eq_some_iff, Option.pure_def, Option.some.injEq, Prod.mk.injEq] at ha
    obtain ⟨r, hr, q, hq, x, hx, rfl, rfl⟩ := ha
    obtain ⟨f, v⟩ := appendCopy_spec E hb (show appendCopy E s.heap r q aLen bLen = some (x.1, x.2) from hx)
    refine ⟨f, ?_⟩
    intro y hy
    simp only [List.mem_singleton] at hy
    subst hy
    exact v
  | appendOld m o aLen bLen => simp [Op.current] at hc

end maps2

end MeshHeap
end PolyVerif
