/-
  Helper lemmas for C16, part 5: the closest point of a triangle element (`scopedTri.ClosestPoint`) lies in the
  triangle's bounding box.
-/
import PolyVerif.Lemmas.Bvh
namespace PolyVerif.Tree

/-- three reals with non-negative pairwise products and positive sum are all non-negative -/
theorem nonneg_of_pairwise (α β γ : ℝ) (hab : 0 ≤ α * β) (hac : 0 ≤ α * γ) (hbc : 0 ≤ β * γ) (hs : 0 < α + β + γ) :
    0 ≤ α ∧ 0 ≤ β ∧ 0 ≤ γ := by
  refine ⟨?_, ?_, ?_⟩ <;> by_contra h <;> push Not at h <;> nlinarith

section ids
variable (a1 a2 a3 b1 b2 b3 c1 c2 c3 q1 q2 q3 : ℝ)

/-- Lagrange-type identity used three times: for x, y, z, t the corners minus `q` in cyclic roles -/
theorem cross_dot_identity (x1 x2 x3 y1 y2 y3 z1 z2 z3 t1 t2 t3 n1 n2 n3 : ℝ) :
    ((x2 * y3 - x3 * y2) * n1 + (x3 * y1 - x1 * y3) * n2 + (x1 * y2 - x2 * y1) * n3) *
    ((z2 * t3 - z3 * t2) * n1 + (z3 * t1 - z1 * t3) * n2 + (z1 * t2 - z2 * t1) * n3) =
    (n1 ^ 2 + n2 ^ 2 + n3 ^ 2) *
      ((x2 * y3 - x3 * y2) * (z2 * t3 - z3 * t2) + (x3 * y1 - x1 * y3) * (z3 * t1 - z1 * t3) + (x1 * y2 - x2 * y1) * (z1 * t2 - z2 * t1)) -
    -- (x×y)×n · (z×t)×n with (x×y)×n = (x·n) y − (y·n) x
    (((x1 * n1 + x2 * n2 + x3 * n3) * y1 - (y1 * n1 + y2 * n2 + y3 * n3) * x1) * ((z1 * n1 + z2 * n2 + z3 * n3) * t1 - (t1 * n1 + t2 * n2 + t3 * n3) * z1) +
     ((x1 * n1 + x2 * n2 + x3 * n3) * y2 - (y1 * n1 + y2 * n2 + y3 * n3) * x2) * ((z1 * n1 + z2 * n2 + z3 * n3) * t2 - (t1 * n1 + t2 * n2 + t3 * n3) * z2) +
     ((x1 * n1 + x2 * n2 + x3 * n3) * y3 - (y1 * n1 + y2 * n2 + y3 * n3) * x3) * ((z1 * n1 + z2 * n2 + z3 * n3) * t3 - (t1 * n1 + t2 * n2 + t3 * n3) * z3)) := by
  ring
end ids
end PolyVerif.Tree
namespace PolyVerif.Tree

/-- Relative coordinates (`a = A − q` etc.): if `q` is in the plane of the triangle (`a·n = 0` for the normal
    `n = (b−a)×(c−a) ≠ 0`) and the three normals `u = b×c`, `v = c×a`, `w = a×b` pairwise agree, then `q` is a convex
    combination of the corners: `α a + β b + γ c = 0` with `α, β, γ ≥ 0`, `α + β + γ > 0`. -/
theorem tri_inside_rel (a1 a2 a3 b1 b2 b3 c1 c2 c3 n1 n2 n3 : ℝ)
    (hn1 : n1 = (b2 - a2) * (c3 - a3) - (b3 - a3) * (c2 - a2))
    (hn2 : n2 = (b3 - a3) * (c1 - a1) - (b1 - a1) * (c3 - a3))
    (hn3 : n3 = (b1 - a1) * (c2 - a2) - (b2 - a2) * (c1 - a1))
    (ha : a1 * n1 + a2 * n2 + a3 * n3 = 0) (hS : 0 < n1 ^ 2 + n2 ^ 2 + n3 ^ 2)
    (huv : 0 ≤ (b2 * c3 - b3 * c2) * (c2 * a3 - c3 * a2) + (b3 * c1 - b1 * c3) * (c3 * a1 - c1 * a3) + (b1 * c2 - b2 * c1) * (c1 * a2 - c2 * a1))
    (huw : 0 ≤ (b2 * c3 - b3 * c2) * (a2 * b3 - a3 * b2) + (b3 * c1 - b1 * c3) * (a3 * b1 - a1 * b3) + (b1 * c2 - b2 * c1) * (a1 * b2 - a2 * b1))
    (hvw : 0 ≤ (c2 * a3 - c3 * a2) * (a2 * b3 - a3 * b2) + (c3 * a1 - c1 * a3) * (a3 * b1 - a1 * b3) + (c1 * a2 - c2 * a1) * (a1 * b2 - a2 * b1)) :
    ∃ α β γ : ℝ, 0 ≤ α ∧ 0 ≤ β ∧ 0 ≤ γ ∧ 0 < α + β + γ ∧
      α * a1 + β * b1 + γ * c1 = 0 ∧ α * a2 + β * b2 + γ * c2 = 0 ∧ α * a3 + β * b3 + γ * c3 = 0 := by
  have hb : b1 * n1 + b2 * n2 + b3 * n3 = 0 := by
    have : b1 * n1 + b2 * n2 + b3 * n3 = a1 * n1 + a2 * n2 + a3 * n3 := by rw [hn1, hn2, hn3]; ring
    rw [this, ha]
  have hc : c1 * n1 + c2 * n2 + c3 * n3 = 0 := by
    have : c1 * n1 + c2 * n2 + c3 * n3 = a1 * n1 + a2 * n2 + a3 * n3 := by rw [hn1, hn2, hn3]; ring
    rw [this, ha]
  have pab := cross_dot_identity b1 b2 b3 c1 c2 c3 c1 c2 c3 a1 a2 a3 n1 n2 n3
  have pac := cross_dot_identity b1 b2 b3 c1 c2 c3 a1 a2 a3 b1 b2 b3 n1 n2 n3
  have pbc := cross_dot_identity c1 c2 c3 a1 a2 a3 a1 a2 a3 b1 b2 b3 n1 n2 n3
  rw [ha, hb, hc] at pab pac pbc
  simp only [zero_mul, sub_zero, mul_zero, add_zero, sub_self] at pab pac pbc
  have sum : ((b2 * c3 - b3 * c2) * n1 + (b3 * c1 - b1 * c3) * n2 + (b1 * c2 - b2 * c1) * n3) +
      ((c2 * a3 - c3 * a2) * n1 + (c3 * a1 - c1 * a3) * n2 + (c1 * a2 - c2 * a1) * n3) +
      ((a2 * b3 - a3 * b2) * n1 + (a3 * b1 - a1 * b3) * n2 + (a1 * b2 - a2 * b1) * n3) = n1 ^ 2 + n2 ^ 2 + n3 ^ 2 := by
    rw [hn1, hn2, hn3]; ring
  have nn := nonneg_of_pairwise _ _ _
    (by rw [pab]; exact mul_nonneg hS.le huv)
    (by rw [pac]; exact mul_nonneg hS.le huw)
    (by rw [pbc]; exact mul_nonneg hS.le hvw)
    (by rw [sum]; exact hS)
  refine ⟨_, _, _, nn.1, nn.2.1, nn.2.2, by rw [sum]; exact hS, ?_, ?_, ?_⟩
  · have : ((b2 * c3 - b3 * c2) * n1 + (b3 * c1 - b1 * c3) * n2 + (b1 * c2 - b2 * c1) * n3) * a1 +
        ((c2 * a3 - c3 * a2) * n1 + (c3 * a1 - c1 * a3) * n2 + (c1 * a2 - c2 * a1) * n3) * b1 +
        ((a2 * b3 - a3 * b2) * n1 + (a3 * b1 - a1 * b3) * n2 + (a1 * b2 - a2 * b1) * n3) * c1 =
        (a1 * (b2 * c3 - b3 * c2) + a2 * (b3 * c1 - b1 * c3) + a3 * (b1 * c2 - b2 * c1)) * n1 := by ring
    rw [this]
    have e : a1 * (b2 * c3 - b3 * c2) + a2 * (b3 * c1 - b1 * c3) + a3 * (b1 * c2 - b2 * c1) = a1 * n1 + a2 * n2 + a3 * n3 := by
      rw [hn1, hn2, hn3]; ring
    rw [e, ha, zero_mul]
  · have : ((b2 * c3 - b3 * c2) * n1 + (b3 * c1 - b1 * c3) * n2 + (b1 * c2 - b2 * c1) * n3) * a2 +
        ((c2 * a3 - c3 * a2) * n1 + (c3 * a1 - c1 * a3) * n2 + (c1 * a2 - c2 * a1) * n3) * b2 +
        ((a2 * b3 - a3 * b2) * n1 + (a3 * b1 - a1 * b3) * n2 + (a1 * b2 - a2 * b1) * n3) * c2 =
        (a1 * (b2 * c3 - b3 * c2) + a2 * (b3 * c1 - b1 * c3) + a3 * (b1 * c2 - b2 * c1)) * n2 := by ring
    rw [this]
    have e : a1 * (b2 * c3 - b3 * c2) + a2 * (b3 * c1 - b1 * c3) + a3 * (b1 * c2 - b2 * c1) = a1 * n1 + a2 * n2 + a3 * n3 := by
      rw [hn1, hn2, hn3]; ring
    rw [e, ha, zero_mul]
  · have : ((b2 * c3 - b3 * c2) * n1 + (b3 * c1 - b1 * c3) * n2 + (b1 * c2 - b2 * c1) * n3) * a3 +
        ((c2 * a3 - c3 * a2) * n1 + (c3 * a1 - c1 * a3) * n2 + (c1 * a2 - c2 * a1) * n3) * b3 +
        ((a2 * b3 - a3 * b2) * n1 + (a3 * b1 - a1 * b3) * n2 + (a1 * b2 - a2 * b1) * n3) * c3 =
        (a1 * (b2 * c3 - b3 * c2) + a2 * (b3 * c1 - b1 * c3) + a3 * (b1 * c2 - b2 * c1)) * n3 := by ring
    rw [this]
    have e : a1 * (b2 * c3 - b3 * c2) + a2 * (b3 * c1 - b1 * c3) + a3 * (b1 * c2 - b2 * c1) = a1 * n1 + a2 * n2 + a3 * n3 := by
      rw [hn1, hn2, hn3]; ring
    rw [e, ha, zero_mul]

end PolyVerif.Tree

namespace PolyVerif.Tree

theorem proj_in_plane (n1 n2 n3 p1 p2 p3 a1 a2 a3 L : ℝ) (hL : L * L = n1 * n1 + n2 * n2 + n3 * n3) (hL0 : L ≠ 0) :
    (p1 - n1 / L * (n1 / L * p1 + n2 / L * p2 + n3 / L * p3 - (n1 / L * a1 + n2 / L * a2 + n3 / L * a3)) - a1) * n1 +
    (p2 - n2 / L * (n1 / L * p1 + n2 / L * p2 + n3 / L * p3 - (n1 / L * a1 + n2 / L * a2 + n3 / L * a3)) - a2) * n2 +
    (p3 - n3 / L * (n1 / L * p1 + n2 / L * p2 + n3 / L * p3 - (n1 / L * a1 + n2 / L * a2 + n3 / L * a3)) - a3) * n3 = 0 := by
  have hS : n1 * n1 + n2 * n2 + n3 * n3 = L * L := hL.symm
  have key : ∀ X : ℝ, X - X / L * ((L * L) / L) = 0 := by intro X; field_simp; ring
  have := key ((p1 - a1) * n1 + (p2 - a2) * n2 + (p3 - a3) * n3)
  rw [← hS] at this
  rw [← this]
  field_simp
  ring

theorem convex_between (α β γ x y z q : ℝ) (ha : 0 ≤ α) (hb : 0 ≤ β) (hc : 0 ≤ γ) (hs : 0 < α + β + γ)
    (h : α * (x - q) + β * (y - q) + γ * (z - q) = 0) :
    min z (min y x) ≤ q ∧ q ≤ max z (max y x) := by
  have m1 : min z (min y x) ≤ x := le_trans (min_le_right _ _) (min_le_right _ _)
  have m2 : min z (min y x) ≤ y := le_trans (min_le_right _ _) (min_le_left _ _)
  have m3 : min z (min y x) ≤ z := min_le_left _ _
  have M1 : x ≤ max z (max y x) := le_trans (le_max_right _ _) (le_max_right _ _)
  have M2 : y ≤ max z (max y x) := le_trans (le_max_left _ _) (le_max_right _ _)
  have M3 : z ≤ max z (max y x) := le_max_left _ _
  generalize min z (min y x) = m at *
  generalize max z (max y x) = M at *
  constructor
  · by_contra hq; push Not at hq
    nlinarith [mul_nonneg ha (sub_nonneg.mpr m1), mul_nonneg hb (sub_nonneg.mpr m2), mul_nonneg hc (sub_nonneg.mpr m3)]
  · by_contra hq; push Not at hq
    nlinarith [mul_nonneg ha (sub_nonneg.mpr M1), mul_nonneg hb (sub_nonneg.mpr M2), mul_nonneg hc (sub_nonneg.mpr M3)]
end PolyVerif.Tree

namespace PolyVerif.Tree
open Gen.geometry

theorem seg_cp_cases' (a b v : P3) :
    (NewLine3D a b).ClosestPointOnLine v = b ∨ (NewLine3D a b).ClosestPointOnLine v = a ∨
    ∃ t : ℝ, 0 ≤ t ∧ t ≤ 1 ∧ (NewLine3D a b).ClosestPointOnLine v = a.Add ((b.Sub a).Scale t) := by
  simp only [Line3D.ClosestPointOnLine, NewLine3D, Nat.cast_one, Nat.cast_zero]
  generalize (V3.Sub v a).Dot (V3.Sub b a).Normalized / (V3.Sub b a).Length = t
  by_cases h1 : (1 : ℝ) ≤ t
  · left; simp [h1]
  · by_cases h0 : t ≤ 0
    · right; left; simp [h1, h0]
    · right; right
      exact ⟨t, le_of_lt (not_le.mp h0), le_of_lt (not_le.mp h1), by simp [h1, h0]⟩

theorem between_aux (x y t : ℝ) (h0 : 0 ≤ t) (h1 : t ≤ 1) : min y x ≤ x + (y - x) * t ∧ x + (y - x) * t ≤ max y x := by
  rcases le_total x y with h | h
  · rw [min_eq_right h, max_eq_left h]; constructor <;> nlinarith
  · rw [min_eq_left h, max_eq_right h]; constructor <;> nlinarith

/-- the closest point on a segment is, coordinate by coordinate, between the end points -/
theorem seg_cp_between (a b v : P3) :
    (min b.x a.x ≤ ((NewLine3D a b).ClosestPointOnLine v).x ∧ ((NewLine3D a b).ClosestPointOnLine v).x ≤ max b.x a.x) ∧
    (min b.y a.y ≤ ((NewLine3D a b).ClosestPointOnLine v).y ∧ ((NewLine3D a b).ClosestPointOnLine v).y ≤ max b.y a.y) ∧
    (min b.z a.z ≤ ((NewLine3D a b).ClosestPointOnLine v).z ∧ ((NewLine3D a b).ClosestPointOnLine v).z ≤ max b.z a.z) := by
  rcases seg_cp_cases' a b v with h | h | ⟨t, t0, t1, h⟩ <;> rw [h]
  · simp
  · simp
  · simp only [V3.Add, V3.Sub, V3.Scale]
    exact ⟨between_aux _ _ _ t0 t1, between_aux _ _ _ t0 t1, between_aux _ _ _ t0 t1⟩

theorem tri_box_min' (a b c : P3) : (aabbFromPoints3 a b c).Min =
    ⟨min c.x (min b.x a.x), min c.y (min b.y a.y), min c.z (min b.z a.z)⟩ := by
  simp only [aabbFromPoints3, NewAABB, AABB.Min, V3.Sub, V3.Add, V3.Scale, V3.New, RS.lit_eq]
  congr 1 <;> push_cast <;> ring

theorem tri_box_max' (a b c : P3) : (aabbFromPoints3 a b c).Max =
    ⟨max c.x (max b.x a.x), max c.y (max b.y a.y), max c.z (max b.z a.z)⟩ := by
  simp only [aabbFromPoints3, NewAABB, AABB.Max, V3.Sub, V3.Add, V3.Scale, V3.New, RS.lit_eq]
  congr 1 <;> push_cast <;> ring

/-- a coordinate between two of three numbers is between the least and the greatest of the three -/
theorem widen_ab (x y z r : ℝ) (h : min y x ≤ r ∧ r ≤ max y x) : min z (min y x) ≤ r ∧ r ≤ max z (max y x) :=
  ⟨le_trans (min_le_right _ _) h.1, le_trans h.2 (le_max_right _ _)⟩
theorem widen_bc (x y z r : ℝ) (h : min z y ≤ r ∧ r ≤ max z y) : min z (min y x) ≤ r ∧ r ≤ max z (max y x) :=
  ⟨le_trans (le_min (min_le_left _ _) (le_trans (min_le_right _ _) (min_le_left _ _))) h.1,
   le_trans h.2 (max_le (le_max_left _ _) (le_trans (le_max_left _ _) (le_max_right _ _)))⟩
theorem widen_ca (x y z r : ℝ) (h : min x z ≤ r ∧ r ≤ max x z) : min z (min y x) ≤ r ∧ r ≤ max z (max y x) :=
  ⟨le_trans (le_min (le_trans (min_le_right _ _) (min_le_right _ _)) (min_le_left _ _)) h.1,
   le_trans h.2 (max_le (le_trans (le_max_right _ _) (le_max_right _ _)) (le_max_left _ _))⟩

/-- the plane projection used by `scopedTri.ClosestPoint`, when `PointInSide` accepts it, is inside the box -/
theorem tri_proj_in_box (a b c v : P3)
    (hnd : 0 < ((b.Sub a).Cross (c.Sub a)).LengthSquared)
    (hin : triPointInSide a b c ((NewPlaneFromPoints a b c).ClosestPoint v) = true) :
    (aabbFromPoints3 a b c).Contains ((NewPlaneFromPoints a b c).ClosestPoint v) = true := by
  rw [aabb_contains_iff, tri_box_min', tri_box_max']
  -- the projected point
  generalize hq : (NewPlaneFromPoints a b c).ClosestPoint v = q at hin ⊢
  -- it lies in the plane
  have hplane : (a.x - q.x) * ((b.Sub a).Cross (c.Sub a)).x + (a.y - q.y) * ((b.Sub a).Cross (c.Sub a)).y +
      (a.z - q.z) * ((b.Sub a).Cross (c.Sub a)).z = 0 := by
    have hL := Real.mul_self_sqrt hnd.le
    have hL0 : Real.sqrt ((b.Sub a).Cross (c.Sub a)).LengthSquared ≠ 0 := by
      intro h; rw [h] at hL; linarith
    have := proj_in_plane ((b.Sub a).Cross (c.Sub a)).x ((b.Sub a).Cross (c.Sub a)).y ((b.Sub a).Cross (c.Sub a)).z
      v.x v.y v.z a.x a.y a.z _ (by rw [hL]; rfl) hL0
    rw [← hq]
    simp only [NewPlaneFromPoints, Plane.ClosestPoint, V3.Normalized, V3.DivByConstant, V3.Length, RS.sqrt_eq,
      V3.Dot, V3.Sub, V3.Scale]
    simp only [V3.Sub] at this
    linarith
  -- the three conditions of PointInSide
  simp only [triPointInSide, Nat.cast_zero] at hin
  by_cases h1 : ((b.Sub q).Cross (c.Sub q)).Dot ((c.Sub q).Cross (a.Sub q)) < 0
  · simp [h1] at hin
  · simp only [h1, decide_false, Bool.false_eq_true, if_false, Bool.and_eq_true, decide_eq_true_eq] at hin
    obtain ⟨h2, h3⟩ := hin
    obtain ⟨α, β, γ, ha, hb, hc, hs, e1, e2, e3⟩ := tri_inside_rel
      (a.x - q.x) (a.y - q.y) (a.z - q.z) (b.x - q.x) (b.y - q.y) (b.z - q.z) (c.x - q.x) (c.y - q.y) (c.z - q.z)
      ((b.Sub a).Cross (c.Sub a)).x ((b.Sub a).Cross (c.Sub a)).y ((b.Sub a).Cross (c.Sub a)).z
      (by simp only [V3.Cross, V3.Sub]; ring) (by simp only [V3.Cross, V3.Sub]; ring) (by simp only [V3.Cross, V3.Sub]; ring)
      hplane (by simpa [V3.LengthSquared, sq] using hnd)
      (by simpa [V3.Cross, V3.Sub, V3.Dot] using not_lt.mp h1)
      (by simpa [V3.Cross, V3.Sub, V3.Dot] using h2)
      (by simpa [V3.Cross, V3.Sub, V3.Dot] using h3)
    have cx := convex_between α β γ a.x b.x c.x q.x ha hb hc hs e1
    have cy := convex_between α β γ a.y b.y c.y q.y ha hb hc hs e2
    have cz := convex_between α β γ a.z b.z c.z q.z ha hb hc hs e3
    exact ⟨cx.1, cy.1, cz.1, cx.2, cy.2, cz.2⟩

/-- `scopedTri.ClosestPoint` of a non-degenerate triangle lies in the triangle's bounding box -/
theorem tri_closest_in_box_aux (a b c v : P3) (hnd : 0 < ((b.Sub a).Cross (c.Sub a)).LengthSquared) :
    (aabbFromPoints3 a b c).Contains (triClosestPoint a b c v) = true := by
  unfold triClosestPoint
  by_cases hin : triPointInSide a b c ((NewPlaneFromPoints a b c).ClosestPoint v) = true
  · simp only [hin, if_true]
    exact tri_proj_in_box a b c v hnd hin
  · have hin' : triPointInSide a b c ((NewPlaneFromPoints a b c).ClosestPoint v) = false := by simpa using hin
    simp only [hin', Bool.false_eq_true, if_false]
    generalize (NewPlaneFromPoints a b c).ClosestPoint v = q
    have k1 := seg_cp_between a b q
    have k2 := seg_cp_between b c q
    have k3 := seg_cp_between c a q
    have in1 : (aabbFromPoints3 a b c).Contains ((NewLine3D a b).ClosestPointOnLine q) = true := by
      rw [aabb_contains_iff, tri_box_min', tri_box_max']
      have x := widen_ab a.x b.x c.x _ k1.1
      have y := widen_ab a.y b.y c.y _ k1.2.1
      have z := widen_ab a.z b.z c.z _ k1.2.2
      exact ⟨x.1, y.1, z.1, x.2, y.2, z.2⟩
    have in2 : (aabbFromPoints3 a b c).Contains ((NewLine3D b c).ClosestPointOnLine q) = true := by
      rw [aabb_contains_iff, tri_box_min', tri_box_max']
      have x := widen_bc a.x b.x c.x _ k2.1
      have y := widen_bc a.y b.y c.y _ k2.2.1
      have z := widen_bc a.z b.z c.z _ k2.2.2
      exact ⟨x.1, y.1, z.1, x.2, y.2, z.2⟩
    have in3 : (aabbFromPoints3 a b c).Contains ((NewLine3D c a).ClosestPointOnLine q) = true := by
      rw [aabb_contains_iff, tri_box_min', tri_box_max']
      have x := widen_ca a.x b.x c.x _ k3.1
      have y := widen_ca a.y b.y c.y _ k3.2.1
      have z := widen_ca a.z b.z c.z _ k3.2.2
      exact ⟨x.1, y.1, z.1, x.2, y.2, z.2⟩
    split_ifs
    · exact in1
    · exact in2
    · exact in3

section traverseMono
variable {B E K : Type} [Preorder K]

/-- `r ⊆ r'` for ranges `[min, max]` -/
def rsub (r r' : K × K) : Prop := r'.1 ≤ r.1 ∧ r.2 ≤ r'.2

theorem rsub_refl (r : K × K) : rsub r r := ⟨le_refl _, le_refl _⟩
theorem rsub_trans {a b c : K × K} (h1 : rsub a b) (h2 : rsub b c) : rsub a c :=
  ⟨le_trans h2.1 h1.1, le_trans h1.2 h2.2⟩

/-- a callback that records the element and may move the range, but only INTO the current range and never below `rstar` -/
def MonoCallback (sh : E → K × K → List E → K × K) (rstar : K × K) : Prop :=
  ∀ e rng acc, rsub rstar rng → rsub (sh e rng acc) rng ∧ rsub rstar (sh e rng acc)

theorem traverse_elems_mono (slabE : E → K → K → Bool) (sh : E → K × K → List E → K × K) (rstar r0 : K × K)
    (hsh : MonoCallback sh rstar) :
    ∀ (es : List E), (∀ e ∈ es, ∀ r r', rsub r r' → slabE e r.1 r.2 = true → slabE e r'.1 r'.2 = true) →
    ∀ (rng : K × K) (s : List E), rsub rstar rng → rsub rng r0 →
      let st := es.foldl (fun (st : (K × K) × List E) e =>
        if slabE e st.1.1 st.1.2 then (sh e st.1 st.2, e :: st.2) else st) (rng, s)
      rsub rstar st.1 ∧ rsub st.1 r0 ∧ (∀ e ∈ s, e ∈ st.2) ∧
      (∀ e ∈ st.2, e ∈ s ∨ (e ∈ es ∧ slabE e r0.1 r0.2 = true)) ∧
      (∀ e ∈ es, slabE e rstar.1 rstar.2 = true → e ∈ st.2) := by
  intro es
  induction es with
  | nil => intro _ rng s h1 h2; simp [h1, h2]
  | cons x xs ih =>
    intro hEr rng s h1 h2
    have hErx := hEr x (List.mem_cons_self ..)
    have ih := ih (fun e he => hEr e (List.mem_cons_of_mem _ he))
    simp only [List.foldl_cons]
    by_cases hx : slabE x rng.1 rng.2 = true
    · simp only [hx, if_true]
      obtain ⟨k1, k2⟩ := hsh x rng s h1
      obtain ⟨a1, a2, a3, a4, a5⟩ := ih (sh x rng s) (x :: s) k2 (rsub_trans k1 h2)
      refine ⟨a1, a2, fun e he => a3 e (List.mem_cons_of_mem _ he), ?_, ?_⟩
      · intro e he
        rcases a4 e he with h | ⟨h, h'⟩
        · rcases List.mem_cons.mp h with rfl | h
          · exact Or.inr ⟨List.mem_cons_self .., hErx _ _ h2 hx⟩
          · exact Or.inl h
        · exact Or.inr ⟨List.mem_cons_of_mem _ h, h'⟩
      · intro e he hacc
        rcases List.mem_cons.mp he with rfl | he
        · exact a3 _ (List.mem_cons_self ..)
        · exact a5 e he hacc
    · have hx' : slabE x rng.1 rng.2 = false := by simpa using hx
      simp only [hx', Bool.false_eq_true, if_false]
      obtain ⟨a1, a2, a3, a4, a5⟩ := ih rng s h1 h2
      refine ⟨a1, a2, a3, ?_, ?_⟩
      · intro e he
        rcases a4 e he with h | ⟨h, h'⟩
        · exact Or.inl h
        · exact Or.inr ⟨List.mem_cons_of_mem _ h, h'⟩
      · intro e he hacc
        rcases List.mem_cons.mp he with rfl | he
        · have := hErx _ _ h1 hacc
          rw [this] at hx'; cases hx'
        · exact a5 e he hacc

/-- `TraverseIntersectingRay` with a monotone callback (records the element; may shorten the range, never below `rstar`):
    it visits only elements the exhaustive scan accepts for the INITIAL range, and it visits every element the scan
    accepts for `rstar` — on any tree whose node tests are implied by the tests of the elements below (`Inv`). -/
theorem traverse_mono_sandwich (slabB : B → K → K → Bool) (slabE : E → K → K → Bool)
    (sh : E → K × K → List E → K × K) (rstar r0 : K × K) (hsh : MonoCallback sh rstar)
    (R : B → E → Prop) (hR : ∀ b e, R b e → ∀ r : K × K, slabE e r.1 r.2 = true → slabB b r.1 r.2 = true) :
    ∀ t : Oct B E, Inv R t →
      (∀ e ∈ t.allElems, ∀ r r', rsub r r' → slabE e r.1 r.2 = true → slabE e r'.1 r'.2 = true) →
      ∀ (rng : K × K) (s : List E), rsub rstar rng → rsub rng r0 →
      (∀ e ∈ s, e ∈ t.traverse slabB slabE (fun e r a => (sh e r a, e :: a)) rng s) ∧
      (∀ e ∈ t.traverse slabB slabE (fun e r a => (sh e r a, e :: a)) rng s,
          e ∈ s ∨ (e ∈ t.allElems ∧ slabE e r0.1 r0.2 = true)) ∧
      (∀ e ∈ t.allElems, slabE e rstar.1 rstar.2 = true →
          e ∈ t.traverse slabB slabE (fun e r a => (sh e r a, e :: a)) rng s) := by
  intro t
  induction t using Oct.induct' with
  | h b es cs ih =>
    intro hinv hEr rng s h1 h2
    have hroot := hinv.root
    have hch := hinv.children
    simp only [Oct.traverse]
    by_cases hb : slabB b rng.1 rng.2 = true
    · simp only [hb, Bool.not_true, Bool.false_eq_true, if_false]
      obtain ⟨a1, a2, a3, a4, a5⟩ := traverse_elems_mono slabE sh rstar r0 hsh es
        (fun e he => hEr e (by rw [Oct.allElems_node]; exact List.mem_append_left _ he)) rng s h1 h2
      generalize es.foldl (fun (st : (K × K) × List E) e =>
        if slabE e st.1.1 st.1.2 then (sh e st.1 st.2, e :: st.2) else st) (rng, s) = st at a1 a2 a3 a4 a5
      -- the children, state threaded
      have key : ∀ (l : List (Oct B E)), (∀ c ∈ l, c ∈ cs) → ∀ s' : List E,
          (∀ e ∈ s', e ∈ l.foldl (fun s c => c.traverse slabB slabE (fun e r a => (sh e r a, e :: a)) st.1 s) s') ∧
          (∀ e ∈ l.foldl (fun s c => c.traverse slabB slabE (fun e r a => (sh e r a, e :: a)) st.1 s) s',
              e ∈ s' ∨ (e ∈ l.flatMap (fun c => c.allElems) ∧ slabE e r0.1 r0.2 = true)) ∧
          (∀ e ∈ l.flatMap (fun c => c.allElems), slabE e rstar.1 rstar.2 = true →
              e ∈ l.foldl (fun s c => c.traverse slabB slabE (fun e r a => (sh e r a, e :: a)) st.1 s) s') := by
        intro l
        induction l with
        | nil => intro _ s'; simp
        | cons c l ihl =>
          intro hl s'
          simp only [List.foldl_cons, List.flatMap_cons, List.mem_append]
          obtain ⟨c1, c2, c3⟩ := ih c (hl c (by simp)) (hch c (hl c (by simp)))
            (fun e he => hEr e (Oct.mem_allElems_of_child (hl c (by simp)) he)) st.1 s' a1 a2
          obtain ⟨d1, d2, d3⟩ := ihl (fun c' hc' => hl c' (by simp [hc']))
            (c.traverse slabB slabE (fun e r a => (sh e r a, e :: a)) st.1 s')
          refine ⟨fun e he => d1 e (c1 e he), ?_, ?_⟩
          · intro e he
            rcases d2 e he with h | ⟨h, h'⟩
            · rcases c2 e h with h | ⟨h, h'⟩
              · exact Or.inl h
              · exact Or.inr ⟨Or.inl h, h'⟩
            · exact Or.inr ⟨Or.inr h, h'⟩
          · rintro e (he | he) hacc
            · exact d1 e (c3 e he hacc)
            · exact d3 e he hacc
      obtain ⟨k1, k2, k3⟩ := key cs (fun c hc => hc) st.2
      refine ⟨fun e he => k1 e (a3 e he), ?_, ?_⟩
      · intro e he
        rw [Oct.allElems_node]
        rcases k2 e he with h | ⟨h, h'⟩
        · rcases a4 e h with h | ⟨h, h'⟩
          · exact Or.inl h
          · exact Or.inr ⟨List.mem_append_left _ h, h'⟩
        · exact Or.inr ⟨List.mem_append_right _ h, h'⟩
      · intro e he hacc
        rw [Oct.allElems_node] at he
        rcases List.mem_append.mp he with he | he
        · exact k1 e (a5 e he hacc)
        · exact k3 e he hacc
    · have hb' : slabB b rng.1 rng.2 = false := by simpa using hb
      simp only [hb', Bool.not_false, if_true]
      refine ⟨fun e he => he, fun e he => Or.inl he, ?_⟩
      intro e he hacc
      have := hR b e (hroot e he) rng (hEr e he rstar rng h1 hacc)
      rw [this] at hb'; cases hb'
end traverseMono

end PolyVerif.Tree
