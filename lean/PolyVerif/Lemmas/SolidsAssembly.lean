/-
  C18: `Model/SolidsCode.lean`'s code-built positions / normals of the six-quad box and of the cylinder caps EQUAL the
  interpretation (`Model/SolidsAssembly.lean`) of the assembly facts regenerated from cube.go / quad.go / cylinder.go
  (`Gen/PrimAssembly.lean`), for every scalar (syntactic equalities: `rfl` / unfolding).
-/
import PolyVerif.Model.SolidsAssembly
import PolyVerif.Gen.PrimAssembly
import PolyVerif.Lemmas.SolidsLoopsV
namespace PolyVerif.Solids
open PolyVerif.LoopIR Gen
variable {α : Type} [Scalar α]

theorem quads_pos_from_source (w h d : α) {v : Nat} (hv : v < 24) :
    assembleQuads Gen.PrimAssembly.cubeFaces Gen.PrimAssembly.cubeLocals Gen.PrimAssembly.quadLocals
      Gen.PrimAssembly.quadPositions false w h d v = cubeQuadsPosCode w h d v := by
  interval_cases v <;> rfl

theorem quads_nrm_from_source (w h d : α) {v : Nat} (hv : v < 24) :
    assembleQuads Gen.PrimAssembly.cubeFaces Gen.PrimAssembly.cubeLocals Gen.PrimAssembly.quadLocals
      Gen.PrimAssembly.quadNormals true w h d v = cubeQuadsNormalCode v := by
  interval_cases v <;> rfl

theorem cyl_fenv (radius height : α) (sides : Nat) :
    Gen.PrimLoops.cylinder.finalFenv [sides] [radius, height] 0 = height / n2a 2 := by
  simp only [Prog.finalFenv, Gen.PrimLoops.cylinder, execV, evalF, evalE, Loc.init, upd_app, List.getD_cons_zero,
    List.getD_cons_succ, ↓reduceIte, Nat.reduceEqDiff, n2a]

theorem cyl_caps_pos_from_source (radius height : α) (sides v : Nat) :
    cylinderPosCode radius height sides v =
      (let fpar : Nat → α := fun k => [radius, height].getD k ((0 : Nat) : α)
       let fenv := Gen.PrimLoops.cylinder.finalFenv [sides] [radius, height]
       if v < 2 * sides + 2 then cylinderPos radius height sides v
       else if v < 3 * sides + 3 then
         capPos Gen.PrimAssembly.cylinderCaps 0 fpar fenv (circlePos radius sides (v - (2 * sides + 2)))
       else capPos Gen.PrimAssembly.cylinderCaps 1 fpar fenv (circlePos radius sides (v - (3 * sides + 3)))) := by
  have hf := cyl_fenv radius height sides
  simp only [cylinderPosCode, capPos, Gen.PrimAssembly.cylinderCaps, List.getElem?_cons_zero, List.getElem?_cons_succ,
    placePos, evalVE, evalFE, evalV, evalF, evalE, hf, bottomCapQ, n2a]

theorem cyl_caps_nrm_from_source (radius height : α) (sides v : Nat) :
    (cylinderNormalCode sides v : V3 α) =
      (let fpar : Nat → α := fun k => [radius, height].getD k ((0 : Nat) : α)
       let fenv := Gen.PrimLoops.cylinder.finalFenv [sides] [radius, height]
       if v < 2 * sides + 2 then cylinderNormal sides v
       else if v < 3 * sides + 3 then capNrm Gen.PrimAssembly.cylinderCaps 0 fpar fenv circleNormal
       else capNrm Gen.PrimAssembly.cylinderCaps 1 fpar fenv circleNormal) := by
  simp only [cylinderNormalCode, capNrm, Gen.PrimAssembly.cylinderCaps, List.getElem?_cons_zero, List.getElem?_cons_succ,
    placeNrm, evalVE, evalFE, evalV, evalF, evalE, bottomCapQ, n2a]

end PolyVerif.Solids
