/-
  C18: the quaternion-rotated parts (six-quad box, cylinder bottom cap) as the code builds them
  (`Model/SolidsCode.lean`, over the regenerated `Gen.Transform` quaternion code) equal, over ℝ, the exact forms
  of `Model/Solids.lean` (corner table, `(x, −y, −z)`).
-/
import PolyVerif.Model.SolidsCode
import PolyVerif.Lemmas.SolidsMerge
namespace PolyVerif.Solids
open Real Gen

theorem half_angle (θ : ℝ) : cos (θ / 2) ^ 2 - sin (θ / 2) ^ 2 = cos θ ∧ 2 * sin (θ / 2) * cos (θ / 2) = sin θ ∧
    sin (θ / 2) ^ 2 + cos (θ / 2) ^ 2 = 1 := by
  have e : θ = 2 * (θ / 2) := by ring
  refine ⟨?_, ?_, sin_sq_add_cos_sq _⟩
  · conv_rhs => rw [e, cos_two_mul]
    have := sin_sq_add_cos_sq (θ / 2); linarith
  · conv_rhs => rw [e, sin_two_mul]

/-- rotation about +Z (`vector3.Forward`) by `θ`, as `quaternion.FromTheta` / `Quaternion.Rotate` compute it -/
theorem rotZ (θ : ℝ) (v : V3 ℝ) : (quaternion.FromTheta θ (V3.Forward : V3 ℝ)).Rotate v =
    ⟨v.x * cos θ - v.y * sin θ, v.x * sin θ + v.y * cos θ, v.z⟩ := by
  obtain ⟨h1, h2, h3⟩ := half_angle θ
  obtain ⟨x, y, z⟩ := v
  simp only [quaternion.FromTheta, quaternion.Quaternion.Rotate, V3.Forward, V3.Normalized, V3.Length, V3.LengthSquared,
    V3.DivByConstant, V3.Scale, V3.Dot, V3.Cross, V3.Add, Scalar.sq, RS.sqrt_eq, RS.sin_eq, RS.cos_eq]
  norm_num
  refine ⟨?_, ?_, ?_⟩
  · rw [← h1, ← h2]; ring
  · rw [← h1, ← h2]; ring
  · linear_combination z * h3

/-- rotation about −X (`vector3.Left`) by `θ` -/
theorem rotL (θ : ℝ) (v : V3 ℝ) : (quaternion.FromTheta θ (V3.Left : V3 ℝ)).Rotate v =
    ⟨v.x, v.y * cos θ + v.z * sin θ, v.z * cos θ - v.y * sin θ⟩ := by
  obtain ⟨h1, h2, h3⟩ := half_angle θ
  obtain ⟨x, y, z⟩ := v
  simp only [quaternion.FromTheta, quaternion.Quaternion.Rotate, V3.Left, V3.Normalized, V3.Length, V3.LengthSquared,
    V3.DivByConstant, V3.Scale, V3.Dot, V3.Cross, V3.Add, Scalar.sq, RS.sqrt_eq, RS.sin_eq, RS.cos_eq]
  norm_num
  refine ⟨?_, ?_, ?_⟩
  · linear_combination x * h3
  · rw [← h1, ← h2]; ring
  · rw [← h1, ← h2]; ring

/-- rotation about +X by `θ` (the cylinder's bottom cap uses `θ = π`) -/
theorem rotX (θ : ℝ) (v : V3 ℝ) : (quaternion.FromTheta θ (V3.New (n2a 1) (n2a 0) (n2a 0) : V3 ℝ)).Rotate v =
    ⟨v.x, v.y * cos θ - v.z * sin θ, v.z * cos θ + v.y * sin θ⟩ := by
  obtain ⟨h1, h2, h3⟩ := half_angle θ
  obtain ⟨x, y, z⟩ := v
  simp only [quaternion.FromTheta, quaternion.Quaternion.Rotate, V3.New, V3.Normalized, V3.Length, V3.LengthSquared,
    V3.DivByConstant, V3.Scale, V3.Dot, V3.Cross, V3.Add, Scalar.sq, RS.sqrt_eq, RS.sin_eq, RS.cos_eq, n2a_real]
  norm_num
  refine ⟨?_, ?_, ?_⟩
  · linear_combination x * h3
  · rw [← h1, ← h2]; ring
  · rw [← h1, ← h2]; ring
theorem rotX' (θ : ℝ) (v : V3 ℝ) : (quaternion.FromTheta θ (⟨1, 0, 0⟩ : V3 ℝ)).Rotate v =
    ⟨v.x, v.y * cos θ - v.z * sin θ, v.z * cos θ + v.y * sin θ⟩ := by
  have := rotX θ v
  simpa [V3.New] using this

theorem trig32 : cos (π * (3 / 2)) = 0 ∧ sin (π * (3 / 2)) = -1 := by
  have e : π * (3 / 2) = π / 2 + π := by ring
  rw [e, cos_add_pi, sin_add_pi]; simp

theorem trig12 : cos (π * 2⁻¹) = 0 ∧ sin (π * 2⁻¹) = 1 := by
  have e : π * 2⁻¹ = π / 2 := by ring
  rw [e]; simp

/-- **the corner table is what the code's construction yields**: the six quads, rotated by the regenerated quaternion
    code and translated as in `Cube.UnweldedQuads`, put vertex `v` exactly at corner `cubeQuadsCornerTable[v]` -/
theorem cubeQuadsPosCode_eq (w h d : ℝ) {v : Nat} (hv : v < 24) :
    cubeQuadsPosCode w h d v = cubeQuadsPos w h d v := by
  obtain ⟨c32, s32⟩ := trig32
  obtain ⟨c12, s12⟩ := trig12
  interval_cases v <;>
    simp [cubeQuadsPosCode, quadPos, rotZ, rotL, cubeQuadsPos, cubeQuadsPt, cubeQuadsCornerTable, cornerPos, V3.New,
      V3.Add, c32, s32, c12, s12]

theorem cubeQuadsNormalCode_eq {v : Nat} (hv : v < 24) :
    (cubeQuadsNormalCode v : V3 ℝ) = cubeQuadsNormal v := by
  obtain ⟨c32, s32⟩ := trig32
  obtain ⟨c12, s12⟩ := trig12
  interval_cases v <;>
    simp [cubeQuadsNormalCode, cubeQuadsNormal, rotZ, rotL, V3.Up, V3.New, c32, s32, c12, s12]

theorem cylinderPosCode_eq (r H : ℝ) (S : Nat) {v : Nat} (hv : v < cylinderNV S false false) :
    cylinderPosCode r H S v = cylinderPos r H S v := by
  simp only [cylinderNV, cylinderSideNV, circleNV, Bool.false_eq_true, if_false] at hv
  unfold cylinderPosCode
  split_ifs with h1 h2
  · rfl
  · -- top cap: circle translated by (0, H/2, 0)
    by_cases hc : v = 3 * S + 2
    · have a1 : ¬ v < 2 * S + 2 := by omega
      have a2 : ¬ v < 3 * S + 2 := by omega
      have e : v - (2 * S + 2) = S := by omega
      rw [e]
      have a3 : ¬ (3 * S + 2 < 2 * S + 2) := by omega
      subst hc
      simp [cylinderPos, a3, circlePos, V3.New, V3.Add]
    · have a1 : ¬ v < 2 * S + 2 := by omega
      have a2 : v < 3 * S + 2 := by omega
      have e : ¬ (v - (2 * S + 2) = S) := by omega
      simp [cylinderPos, a1, a2, circlePos, e, V3.New, V3.Add]
  · -- bottom cap: circle rotated by π about X, translated by (0, -H/2, 0)
    have a1 : ¬ v < 2 * S + 2 := by omega
    have a2 : ¬ v < 3 * S + 2 := by omega
    have a3 : ¬ v = 3 * S + 2 := by omega
    by_cases hc : v < 4 * S + 3
    · have e : ¬ (v - (3 * S + 3) = S) := by omega
      simp [cylinderPos, a1, a2, a3, hc, circlePos, e, bottomCapQ, rotX', V3.New, V3.Add]
    · have e : v - (3 * S + 3) = S := by omega
      rw [e]
      simp [cylinderPos, a1, a2, a3, hc, circlePos, bottomCapQ, rotX', V3.New, V3.Add]

theorem cylinderNormalCode_eq (S v : Nat) : (cylinderNormalCode S v : V3 ℝ) = cylinderNormal S v := by
  unfold cylinderNormalCode
  split_ifs with h1 h2
  · rfl
  · have a1 : ¬ v < 2 * S + 2 := by omega
    simp [cylinderNormal, a1, h2, circleNormal, V3.New]
  · have a1 : ¬ v < 2 * S + 2 := by omega
    simp [cylinderNormal, a1, h2, circleNormal, bottomCapQ, rotX', V3.New]


/-! ### congruence: the predicates only look at the vertices the triangles use -/

theorem outwardAt_congr {pos pos' : Nat → V3 ℝ} {ctr : V3 ℝ} {ts : List Tri}
    (h : ∀ t ∈ ts, pos t.1 = pos' t.1 ∧ pos t.2.1 = pos' t.2.1 ∧ pos t.2.2 = pos' t.2.2)
    (ho : OutwardAt pos' ctr ts) : OutwardAt pos ctr ts := by
  intro t ht; obtain ⟨a, b, c⟩ := h t ht; rw [a, b, c]; exact ho t ht

theorem normalsOutward_congr {pos pos' nrm nrm' : Nat → V3 ℝ} {ts : List Tri}
    (h : ∀ t ∈ ts, pos t.1 = pos' t.1 ∧ pos t.2.1 = pos' t.2.1 ∧ pos t.2.2 = pos' t.2.2)
    (hn : ∀ t ∈ ts, nrm t.1 = nrm' t.1 ∧ nrm t.2.1 = nrm' t.2.1 ∧ nrm t.2.2 = nrm' t.2.2)
    (ho : NormalsOutward pos' nrm' ts) : NormalsOutward pos nrm ts := by
  intro t ht
  obtain ⟨a, b, c⟩ := h t ht
  obtain ⟨a', b', c'⟩ := hn t ht
  simp only [a, b, c, a', b', c']
  exact ho t ht

theorem volume6_congr {pos pos' : Nat → V3 ℝ} {ts : List Tri}
    (h : ∀ t ∈ ts, pos t.1 = pos' t.1 ∧ pos t.2.1 = pos' t.2.1 ∧ pos t.2.2 = pos' t.2.2) :
    volume6 pos ts = volume6 pos' ts := by
  rw [volume6_eq_sum, volume6_eq_sum]
  congr 1
  refine List.map_congr_left fun t ht => ?_
  obtain ⟨a, b, c⟩ := h t ht; rw [a, b, c]

theorem cubeQuadsTris_lt : ∀ t ∈ cubeQuadsTris, t.1 < 24 ∧ t.2.1 < 24 ∧ t.2.2 < 24 := by decide

theorem cubeQuads_pos_agree (w h d : ℝ) : ∀ t ∈ cubeQuadsTris,
    cubeQuadsPosCode w h d t.1 = cubeQuadsPos w h d t.1 ∧ cubeQuadsPosCode w h d t.2.1 = cubeQuadsPos w h d t.2.1 ∧
      cubeQuadsPosCode w h d t.2.2 = cubeQuadsPos w h d t.2.2 := fun t ht =>
  let ⟨a, b, c⟩ := cubeQuadsTris_lt t ht
  ⟨cubeQuadsPosCode_eq w h d a, cubeQuadsPosCode_eq w h d b, cubeQuadsPosCode_eq w h d c⟩

theorem cubeQuads_nrm_agree : ∀ t ∈ cubeQuadsTris,
    (cubeQuadsNormalCode t.1 : V3 ℝ) = cubeQuadsNormal t.1 ∧ (cubeQuadsNormalCode t.2.1 : V3 ℝ) = cubeQuadsNormal t.2.1 ∧
      (cubeQuadsNormalCode t.2.2 : V3 ℝ) = cubeQuadsNormal t.2.2 := fun t ht =>
  let ⟨a, b, c⟩ := cubeQuadsTris_lt t ht
  ⟨cubeQuadsNormalCode_eq a, cubeQuadsNormalCode_eq b, cubeQuadsNormalCode_eq c⟩

theorem cylinderTris_lt {S : Nat} (hS : 1 ≤ S) : ∀ t ∈ cylinderTris S false false,
    t.1 < cylinderNV S false false ∧ t.2.1 < cylinderNV S false false ∧ t.2.2 < cylinderNV S false false := by
  intro t ht
  simp only [cylinderNV, cylinderSideNV, circleNV, Bool.false_eq_true, if_false]
  rcases mem_cylinderTris.1 ht with ⟨i, hi, rfl | rfl⟩ | (⟨i, hi, rfl⟩ | rfl) | (⟨i, hi, rfl⟩ | rfl) <;>
    simp only [cylinderSideNV, circleNV] <;> omega

theorem cylinder_pos_agree (r H : ℝ) {S : Nat} (hS : 1 ≤ S) : ∀ t ∈ cylinderTris S false false,
    cylinderPosCode r H S t.1 = cylinderPos r H S t.1 ∧ cylinderPosCode r H S t.2.1 = cylinderPos r H S t.2.1 ∧
      cylinderPosCode r H S t.2.2 = cylinderPos r H S t.2.2 := fun t ht =>
  let ⟨a, b, c⟩ := cylinderTris_lt hS t ht
  ⟨cylinderPosCode_eq r H S a, cylinderPosCode_eq r H S b, cylinderPosCode_eq r H S c⟩

theorem cylinderNormalCode_funext (S : Nat) : (cylinderNormalCode S : Nat → V3 ℝ) = cylinderNormal S :=
  funext fun v => cylinderNormalCode_eq S v

end PolyVerif.Solids
