/-
  C05, round 2 — composing the proved integer print/parse law with `obj_roundtrip_text`:
  the round trip through the text layer with the CONCRETE corner printer / parser (`ObjText.showCorner`,
  `ObjText.parseCorner`); only the scalar (float) transport `rt` stays a parameter.
  * the reader depends on the corner parser only through the tokens of the face lines (`readObj_congr_aux`);
  * a text the reader accepts has every index within its pools (`faces_bounded_aux`), so a scene whose pools
    are shorter than 2^63 never prints an index outside the int64 range.
  Core Lean only.
-/
import PolyVerif.Lemmas.ObjResave
import PolyVerif.Lemmas.ObjText

set_option linter.unusedSimpArgs false
set_option linter.unusedSectionVars false
set_option linter.unusedVariables false

namespace PolyVerif
namespace ObjTextL
open Obj ObjL ObjText

/-! ### the reader looks at the parser only on the face tokens -/

section congr
variable {τ α : Type} [DecidableEq τ]

theorem addCorner_congr_aux (pc pc' : τ → Except Err Corner) {t : τ} (h : pc t = pc' t) (s : RState τ α) (g : Group τ α) :
    addCorner pc s g t = addCorner pc' s g t := by
  unfold addCorner; rw [h]

theorem step_congr_aux (pc pc' : τ → Except Err Corner) (s : RState τ α) (l : Line τ α)
    (h : ∀ f ∈ faceToks [l], pc f.1 = pc' f.1 ∧ pc f.2.1 = pc' f.2.1 ∧ pc f.2.2 = pc' f.2.2) :
    step pc s l = step pc' s l := by
  cases l with
  | f a b c =>
    obtain ⟨ha, hb, hc⟩ := h (a, b, c) (by simp [faceToks])
    simp only at ha hb hc
    simp only [step, addCorner_congr_aux pc pc' ha, addCorner_congr_aux pc pc' hb, addCorner_congr_aux pc pc' hc]
  | _ => rfl

theorem steps_congr_aux (pc pc' : τ → Except Err Corner) : ∀ (ls : List (Line τ α)) (s : RState τ α),
    (∀ f ∈ faceToks ls, pc f.1 = pc' f.1 ∧ pc f.2.1 = pc' f.2.1 ∧ pc f.2.2 = pc' f.2.2) →
    steps pc s ls = steps pc' s ls
  | [], _, _ => rfl
  | l :: ls, s, h => by
    rw [faceToks_cons_aux] at h
    have h1 := step_congr_aux pc pc' s l (fun f hf => h f (List.mem_append_left _ hf))
    simp only [steps, h1]
    cases step pc' s l with
    | error e => rfl
    | ok s1 => exact steps_congr_aux pc pc' ls s1 (fun f hf => h f (List.mem_append_right _ hf))

theorem readObj_congr_aux (pc pc' : τ → Except Err Corner) (ls : List (Line τ α))
    (h : ∀ f ∈ faceToks ls, pc f.1 = pc' f.1 ∧ pc f.2.1 = pc' f.2.1 ∧ pc f.2.2 = pc' f.2.2) :
    readObj pc ls = readObj pc' ls := by
  unfold readObj; rw [steps_congr_aux pc pc' ls {} h]

end congr

/-! ### accepted texts have their indices within the pools -/

section bound
variable {α : Type}

theorem resolve_bound_aux {pv pn : List (V3 α)} {pt : List (V2 α)} {c : Corner}
    (h : (resolveCorner pv pn pt c).isSome) :
    c.v ≤ pv.length ∧ (∀ t, c.vt = some t → t ≤ pt.length) ∧ (∀ n, c.vn = some n → n ≤ pn.length) := by
  unfold resolveCorner at h
  by_cases hv0 : c.v = 0
  · simp [hv0] at h
  · simp only [hv0, ↓reduceIte] at h
    cases hp : pv[c.v - 1]? with
    | none => simp [hp] at h
    | some p =>
      have hlt := lt_of_getElem?_aux hp
      simp only [hp] at h
      have key : ∀ (o : Option Nat) (len : Nat), (∀ i, slot o = some i → i < len) → ∀ t, o = some t → t ≤ len := by
        intro o len hs t ht
        subst ht
        cases t with
        | zero => omega
        | succ k =>
          have := hs k (by simp [slot])
          omega
      refine ⟨by omega, key c.vt pt.length ?_, key c.vn pn.length ?_⟩
      · intro i hi
        cases e2 : slot c.vn <;> simp only [hi, e2] at h
        · cases hu : pt[i]? with
          | none => simp [hu] at h
          | some u => exact lt_of_getElem?_aux hu
        · rename_i j
          cases hu : pt[i]? with
          | none => simp [hu] at h
          | some u => exact lt_of_getElem?_aux hu
      · intro j hj
        cases e1 : slot c.vt <;> simp only [hj, e1] at h
        · cases hn : pn[j]? with
          | none => simp [hn] at h
          | some n => exact lt_of_getElem?_aux hn
        · rename_i i
          cases hn : pn[j]? with
          | none =>
            cases hu : pt[i]? <;> simp [hn, hu] at h
          | some n => exact lt_of_getElem?_aux hn

def CornerLe (nv nt nn : Nat) (c : Corner) : Prop :=
  c.v ≤ nv ∧ (∀ t, c.vt = some t → t ≤ nt) ∧ (∀ n, c.vn = some n → n ≤ nn)

/-- every face corner of a text the reader accepts (corner tokens = corners) lies within the text's pools -/
theorem faces_bounded_aux {ls : List (Line Corner α)} {gs : List (Group Corner α)} {libs : List String}
    (h : readObj pcId ls = .ok (gs, libs)) : ∀ f ∈ faceToks ls,
    CornerLe (poolV ls).length (poolT ls).length (poolN ls).length f.1 ∧
    CornerLe (poolV ls).length (poolT ls).length (poolN ls).length f.2.1 ∧
    CornerLe (poolV ls).length (poolT ls).length (poolN ls).length f.2.2 := by
  obtain ⟨_, _, _, hres⟩ := readObj_resolves_at_face pcId h
  intro f hf
  rw [← readObj_faces_content pcId h] at hf
  obtain ⟨g, hg, hfg⟩ := List.mem_flatMap.1 hf
  have hs := hres g hg f hfg
  obtain ⟨r, hr⟩ := Option.isSome_iff_exists.1 hs
  obtain ⟨a, b, c⟩ := f
  obtain ⟨x, y, z⟩ := r
  obtain ⟨ha, hb, hc⟩ := (resFace_iff_aux pcId _ _ _ a b c x y z).1 hr
  have conv : ∀ (t : Corner) (w : RCorner α), rcOf pcId (poolV ls) (poolN ls) (poolT ls) t = some w →
      CornerLe (poolV ls).length (poolT ls).length (poolN ls).length t := by
    intro t w hw
    exact resolve_bound_aux (by simpa [rcOf] using congrArg Option.isSome hw)
  exact ⟨conv a x ha, conv b y hb, conv c z hc⟩

theorem faceToks_map_aux {τ τ' β : Type} (ft : τ → τ') (fs : α → β) : ∀ ls : List (Line τ α),
    faceToks (ls.map (mapLine ft fs)) = (faceToks ls).map fun f => (ft f.1, ft f.2.1, ft f.2.2)
  | [] => rfl
  | l :: ls => by
    have ih := faceToks_map_aux ft fs ls
    cases l <;> simp [mapLine, faceToks, ih]

end bound

/-! ### the integer parser without the range check (a proof device: it agrees with `Atoi` on int64) -/

def intOfU (ds : List Char) : Except Err Int :=
  if ds ≠ [] ∧ ds.all ObjText.isDigit = true then .ok (digitsVal ds : Int) else .error .err

def parseCornerU (t : String) : Except Err Corner := parseCornerG intOfU t.toList

theorem intOfU_showNat_aux (k : Nat) : intOfU (showNat k) = .ok (k : Int) := by
  obtain ⟨h1, h2, h3⟩ := showNat_spec_aux k
  simp [intOfU, h3, all_digits_aux h2, h1]

theorem parseCornerU_showCorner (c : Corner) : parseCornerU (showCorner c) = .ok c := by
  simp only [parseCornerU, showCorner, String.toList_ofList]
  exact parseCornerG_showCornerL intOfU (fun _ => True) (fun k _ => intOfU_showNat_aux k) c trivial
    (fun _ _ => trivial) (fun _ _ => trivial)

theorem parseCorner_agree_aux (c : Corner) (nv nt nn : Nat) (hb : CornerLe nv nt nn c) (hv : nv < 2 ^ 63)
    (ht : nt < 2 ^ 63) (hn : nn < 2 ^ 63) : parseCorner (showCorner c) = parseCornerU (showCorner c) := by
  rw [parseCornerU_showCorner]
  simp only [parseCorner, showCorner, String.toList_ofList]
  exact parseCornerL_showCornerL c (by have := hb.1; omega) (fun t e => by have := hb.2.1 t e; omega)
    (fun n e => by have := hb.2.2 n e; omega)

/-! ### the round trip through the text layer with the concrete corner functions -/

section compose
variable {α : Type} [DecidableEq α]

theorem obj_roundtrip_text_ints (rt : α → α) (matFile : String) (ms : List (String × Mesh α))
    (hne : ms ≠ []) (hwf : ∀ p ∈ ms, WFMesh p.2) (hnb : NonemptyButLast ms)
    (hsv : (ms.flatMap fun p => optList p.2.pos).length < 2 ^ 63)
    (hst : (ms.flatMap fun p => optList p.2.uv).length < 2 ^ 63)
    (hsn : (ms.flatMap fun p => optList p.2.nrm).length < 2 ^ 63) :
    ∃ ls gs libs, writeObj matFile ms = .ok ls ∧
      readObj parseCorner (ls.map (mapLine showCorner rt)) = .ok (gs, libs) ∧
      RoundTripsCarry rt none ms (gs.map toMesh) = true ∧
      (NoMatlessAfterMat none ms → RoundTrips rt ms (gs.map toMesh) = true) := by
  obtain ⟨ls, gs, libs, hw, hr, hc, hs⟩ :=
    obj_roundtrip_text parseCornerU showCorner rt parseCornerU_showCorner matFile ms hne hwf hnb
  obtain ⟨ls0, gs0, hw0, hr0, _, pv0, pn0, pt0⟩ := obj_roundtrip_struct matFile ms hne hwf hnb
  have hls : ls0 = ls := by rw [hw] at hw0; cases hw0; rfl
  subst hls
  refine ⟨ls0, gs, libs, hw, ?_, hc, hs⟩
  rw [← hr]
  apply readObj_congr_aux
  intro f hf
  rw [faceToks_map_aux] at hf
  obtain ⟨f0, hf0, rfl⟩ := List.mem_map.1 hf
  obtain ⟨b1, b2, b3⟩ := faces_bounded_aux hr0 f0 hf0
  rw [pv0, pn0, pt0] at b1 b2 b3
  exact ⟨parseCorner_agree_aux _ _ _ _ b1 hsv hst hsn, parseCorner_agree_aux _ _ _ _ b2 hsv hst hsn,
    parseCorner_agree_aux _ _ _ _ b3 hsv hst hsn⟩

end compose

end ObjTextL
end PolyVerif
