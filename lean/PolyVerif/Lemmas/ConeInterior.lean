/-
  Lemmas for the exact-distance theorem of the rounded cone at INTERIOR points (Props/C19ConeInterior.lean):
  the supporting-line bound of the norm and the first-order optimality condition of a minimiser of
  `t ↦ |p − c(t)| − r(t)` on a segment, extracted without calculus.
-/
import PolyVerif.Lemmas.Euclid

namespace PolyVerif
namespace Cone

/-- supporting line of the norm at a unit vector: `‖R u − τ w‖ ≥ ⟨u, R u − τ w⟩ = R − τ ⟨u, w⟩` -/
theorem support_line (u w : E3) (hu : ‖u‖ = 1) (R τ : ℝ) : R - τ * inner ℝ u w ≤ ‖R • u - τ • w‖ := by
  have h := real_inner_le_norm u (R • u - τ • w)
  rw [hu, one_mul] at h
  have e : inner ℝ u (R • u - τ • w) = R - τ * inner ℝ u w := by
    rw [inner_sub_right, inner_smul_right, inner_smul_right, real_inner_self_eq_norm_sq, hu]; ring
  linarith

/-- first-order condition from minimality along a direction: if `ρ + ε B ≤ √(ρ² − 2 ε ρ A + ε² K)` for all small steps
    `ε ∈ (0, 1]` (the value at the minimiser, `ρ`, plus the affine change of the radius, stays below the distance at the
    displaced parameter), then the slope `A + B` is not positive -/
theorem first_order {ρ A B K : ℝ} (hρ : 0 < ρ) (hK : 0 ≤ K)
    (h : ∀ ε : ℝ, 0 < ε → ε ≤ 1 → ρ + ε * B ≤ Real.sqrt (ρ ^ 2 - 2 * ε * ρ * A + ε ^ 2 * K)) : A + B ≤ 0 := by
  by_contra hm
  push Not at hm
  have hB1 : 0 < |B| + 1 := by positivity
  have hK1 : 0 < K + 1 := by linarith
  set ε := min 1 (min (ρ / (|B| + 1)) (ρ * (A + B) / (K + 1))) with hε
  have hε0 : 0 < ε := lt_min one_pos (lt_min (div_pos hρ hB1) (div_pos (mul_pos hρ hm) hK1))
  have hε1 : ε ≤ 1 := min_le_left _ _
  have hε2 : ε * (|B| + 1) ≤ ρ := by
    have : ε ≤ ρ / (|B| + 1) := (min_le_right _ _).trans (min_le_left _ _)
    rwa [le_div_iff₀ hB1] at this
  have hε3 : ε * (K + 1) ≤ ρ * (A + B) := by
    have : ε ≤ ρ * (A + B) / (K + 1) := (min_le_right _ _).trans (min_le_right _ _)
    rwa [le_div_iff₀ hK1] at this
  have hpos : 0 < ρ + ε * B := by
    have h1 := neg_abs_le B
    have h2 : -(ε * |B|) ≤ ε * B := by nlinarith
    nlinarith
  have hsq := (Real.le_sqrt' hpos).mp (h ε hε0 hε1)
  have h1 : 2 * ρ * (A + B) * ε ≤ ε * K * ε := by nlinarith [sq_nonneg (ε * B)]
  have h2 : 2 * ρ * (A + B) ≤ ε * K := le_of_mul_le_mul_right h1 hε0
  nlinarith [mul_pos hρ hm]

end Cone
end PolyVerif
