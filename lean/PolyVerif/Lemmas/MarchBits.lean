/-
  C09 — the eight corner bits of a cell as a list, shared by the table-fact modules (so that they do not depend on
  one another and build in parallel).  Core Lean only.
-/
import PolyVerif.Model.March

namespace PolyVerif
namespace C09

/-- the eight corner bits of a cell, in the code's corner order -/
def bits8 (b0 b1 b2 b3 b4 b5 b6 b7 : Bool) : List Bool := [b0, b1, b2, b3, b4, b5, b6, b7]

end C09
end PolyVerif
