/-
  C02 lemmas, third batch: SplitOnUniqueMaterials, WeldByFloat3Attribute, repeat.
-/
import PolyVerif.Lemmas.MeshWF2

namespace PolyVerif.Mesh
variable {α : Type}

namespace MeshVal

/-! ### split -/

/-- invariant of the working meshes: only indices of the input, whole triangles -/
def PartsInv (idx : List Nat) (parts : List (Nat × List Nat)) : Prop :=
  ∀ p ∈ parts, (∀ x ∈ p.2, x ∈ idx) ∧ p.2.length % 3 = 0

theorem addToPart_inv {idx : List Nat} {parts : List (Nat × List Nat)} {mat : Nat} {t : Nat × Nat × Nat}
    (hp : PartsInv idx parts) (ht : t.1 ∈ idx ∧ t.2.1 ∈ idx ∧ t.2.2 ∈ idx) :
    PartsInv idx (addToPart parts mat t) := by
  intro p hpm
  unfold addToPart at hpm
  split at hpm
  · simp only [List.mem_map] at hpm
    obtain ⟨p0, hp0, rfl⟩ := hpm
    have := hp p0 hp0
    split
    · refine ⟨?_, ?_⟩
      · intro x hx
        simp only [List.mem_append, List.mem_cons, List.not_mem_nil, or_false] at hx
        rcases hx with hx | rfl | rfl | rfl
        · exact this.1 x hx
        · exact ht.1
        · exact ht.2.1
        · exact ht.2.2
      · simp only [List.length_append, List.length_cons, List.length_nil]; omega
    · exact this
  · simp only [List.mem_append, List.mem_singleton] at hpm
    rcases hpm with hpm | rfl
    · exact hp p hpm
    · refine ⟨?_, by simp⟩
      intro x hx
      simp only [List.mem_cons, List.not_mem_nil, or_false] at hx
      rcases hx with rfl | rfl | rfl
      · exact ht.1
      · exact ht.2.1
      · exact ht.2.2

theorem splitLoop_inv {idx : List Nat} : ∀ (ts : List (Nat × Nat × Nat)) (tri : Nat) (rest : List MatRange)
    (other : Nat) (parts res : List (Nat × List Nat)),
    (∀ t ∈ ts, t.1 ∈ idx ∧ t.2.1 ∈ idx ∧ t.2.2 ∈ idx) → PartsInv idx parts →
    splitLoop ts tri rest other parts = some res → PartsInv idx res
  | [], _, _, _, parts, res, _, hp, h => by
    simp only [splitLoop, Option.some.injEq] at h; rw [← h]; exact hp
  | t :: ts, tri, rest, other, parts, res, hts, hp, h => by
    simp only [splitLoop] at h
    split at h
    · cases h
    · rename_i rest' other' _
      split at h
      · cases h
      · rename_i r _
        exact splitLoop_inv ts (tri + 1) _ other' _ res (fun t' ht' => hts t' (by simp [ht']))
          (addToPart_inv hp (hts t (by simp))) h

theorem splitOnMaterials_wf {m : MeshVal α} {parts : List (MeshVal α)} (h : WF m)
    (hs : m.splitOnMaterials = some parts) : ∀ p ∈ parts, WF p := by
  unfold splitOnMaterials at hs
  split at hs
  · cases hs; intro p hp; simp at hp; subst hp; exact h
  · cases hs; intro p hp; simp at hp; subst hp; exact h
  · rename_i r0 _ _ _
    split at hs
    · rename_i ht
      simp only [Option.map_eq_some_iff] at hs
      obtain ⟨ps, hps, rfl⟩ := hs
      have hinv : PartsInv m.indices ps :=
        splitLoop_inv _ 0 _ 0 _ ps (fun t ht' => mem_of_mem_triples ht')
          (by intro p hp; simp at hp; subst hp; simp) hps
      intro p hp
      simp only [List.mem_map] at hp
      obtain ⟨q, hq, rfl⟩ := hp
      apply removeUnreferenced_wf
      apply setMaterial_wf
      refine setIndices_wf h _ (fun i hi => h.2.1 i ((hinv q hq).1 i hi)) ?_
      rw [ht]; exact (hinv q hq).2
    · cases hs

/-! ### weld -/

section weld
variable {K : Type} [DecidableEq K]

theorem firstsAux_bound (key : α → K) : ∀ (xs : List α) (i : Nat) (acc : List (K × Nat)),
    ∀ c ∈ firstsAux key xs i acc, c ∈ acc ∨ (i ≤ c.2 ∧ c.2 < i + xs.length)
  | [], _, acc, c, hc => by simp only [firstsAux] at hc; exact Or.inl hc
  | x :: xs, i, acc, c, hc => by
    simp only [firstsAux] at hc
    split at hc
    · rcases firstsAux_bound key xs (i + 1) acc c hc with h | h
      · exact Or.inl h
      · right; simp only [List.length_cons]; omega
    · rcases firstsAux_bound key xs (i + 1) _ c hc with h | h
      · simp only [List.mem_append, List.mem_singleton] at h
        rcases h with h | rfl
        · exact Or.inl h
        · right; simp only [List.length_cons]; omega
      · right; simp only [List.length_cons]; omega

theorem firsts_bound (key : α → K) (d : List α) : ∀ c ∈ firsts key d, c.2 < d.length := by
  intro c hc
  rcases firstsAux_bound key d 0 [] c hc with h | h
  · simp at h
  · omega

theorem classOf_lt {cls : List (K × Nat)} {k : K} {a : Nat} (h : classOf cls k = some a) : a < cls.length := by
  unfold classOf at h
  exact (List.findIdx?_eq_some_iff_getElem.mp h).1

theorem weldTri_lt {key : α → K} {d : List α} {cls : List (K × Nat)} {t t' : Nat × Nat × Nat}
    (h : weldTri key d cls t = some t') : t'.1 < cls.length ∧ t'.2.1 < cls.length ∧ t'.2.2 < cls.length := by
  unfold weldTri at h
  split at h
  · dsimp only at h
    split at h
    · cases h
    · split at h
      · rename_i a b c ha hb hc
        cases h
        exact ⟨classOf_lt ha, classOf_lt hb, classOf_lt hc⟩
      · cases h
  · cases h

theorem weld_wf {m m' : MeshVal α} (h : WF m) {k : AttrKey} {key : α → K}
    (hw : m.weld k key = some m') : WF m' := by
  unfold weld at hw
  split at hw
  case isFalse => cases hw
  case isTrue ht =>
    split at hw
    · cases hw
    · rename_i d hd
      dsimp only at hw
      cases hw
      have hkd : (k, d) ∈ m.attrs := Attrs.find?_mem hd
      have hdl : d.length = m.attrLen := h.1 _ hkd
      have hreps : ∀ kd ∈ m.attrs, ∀ i ∈ (firsts key d).map (·.2), i < kd.2.length := by
        intro kd hk i hi
        simp only [List.mem_map] at hi
        obtain ⟨c, hc, rfl⟩ := hi
        rw [h.1 kd hk, ← hdl]; exact firsts_bound key d c hc
      have hlt : ∀ i ∈ untriples ((triples m.indices).filterMap (weldTri key d (firsts key d))),
          i < (firsts key d).length := by
        intro i hi
        obtain ⟨t, ht', hx⟩ := mem_untriples hi
        simp only [List.mem_filterMap] at ht'
        obtain ⟨t0, _, ht0⟩ := ht'
        have := weldTri_lt ht0
        rcases hx with rfl | rfl | rfl
        · exact this.1
        · exact this.2.1
        · exact this.2.2
      have hw' : WF ({ topology := m.topology,
                       indices := untriples ((triples m.indices).filterMap (weldTri key d (firsts key d))),
                       materials := [],
                       attrs := mapAttrs (fun vals => gather vals ((firsts key d).map (·.2))) m.attrs } : MeshVal α) := by
        apply wf_of_uniform (firsts key d).length
        · intro kd hk
          simp only [mapAttrs, List.mem_map] at hk
          obtain ⟨kd0, hk0, rfl⟩ := hk
          rw [gather_length (hreps kd0 hk0)]; simp
        · exact hlt
        · intro hnil
          have : m.attrs = [] := by simpa [mapAttrs] using hnil
          rw [this] at hkd; simp at hkd
        · rw [ht]; show (untriples _).length % 3 = 0
          rw [length_untriples]; omega
      have hal := hw'.1 (k, gather d ((firsts key d).map (·.2))) (by
        simp only [mapAttrs, List.mem_map]; exact ⟨(k, d), hkd, rfl⟩)
      rw [gather_length (hreps _ hkd)] at hal
      simp only [List.length_map] at hal
      apply compactVertices_wf hw'
      · rw [usedFlags_length]; exact hal
      · intro i hi
        exact usedFlags_getElem? hi (hlt i hi)

end weld

/-! ### repeat -/

theorem empty_wf (t : Topology) : WF (MeshVal.empty t : MeshVal α) :=
  ⟨by simp [MeshVal.empty], by simp [MeshVal.empty], by simp only [MeshVal.empty]; exact Topology.fits_zero t⟩

theorem repeatMesh_wf {zero : Nat → α} {pos : AttrKey} {m r : MeshVal α} (h : WF m) :
    ∀ (ts : List (α → α)), repeatMesh zero pos m ts = some r → WF r := by
  intro ts
  unfold repeatMesh
  suffices hgen : ∀ (acc : Option (MeshVal α)), (∀ a, acc = some a → WF a) →
      ∀ r, ts.foldl (fun acc φ => do
        let r ← acc
        let c ← m.mapAttr pos φ
        append zero r c) acc = some r → WF r from
    hgen _ (fun a ha => by cases ha; exact empty_wf _) r
  induction ts with
  | nil => intro acc hacc r hr; exact hacc r hr
  | cons φ ts ih =>
    intro acc hacc r hr
    simp only [List.foldl_cons] at hr
    apply ih _ _ r hr
    intro a ha
    cases hacc' : acc with
    | none => simp [hacc'] at ha
    | some a0 =>
      simp only [hacc', Option.bind_eq_bind, Option.bind_some] at ha
      cases hc : m.mapAttr pos φ with
      | none => simp [hc] at ha
      | some c =>
        simp only [hc, Option.bind_some] at ha
        exact append_wf (hacc a0 hacc') (mapAttr_wf h hc) ha

end MeshVal
end PolyVerif.Mesh
