/-
  The reasoning scalar: `Scalar ℝ`.  All arithmetic fields are Mathlib's own
  instances (so `ring`, `linarith`, `nlinarith`, `positivity` see through them);
  `sqrt sin cos abs pi` are the real functions.
-/
import PolyVerif.Model.Vec
import Mathlib.Analysis.SpecialFunctions.Trigonometric.Basic
import Mathlib.Analysis.SpecialFunctions.Sqrt

namespace PolyVerif
open Classical

noncomputable instance instScalarReal : Scalar ℝ where
  toAdd := inferInstance
  toSub := inferInstance
  toMul := inferInstance
  toDiv := inferInstance
  toNeg := inferInstance
  toLT := inferInstance
  toLE := inferInstance
  toMin := inferInstance
  toMax := inferInstance
  toNatCast := inferInstance
  toInhabited := ⟨0⟩
  toBEq := ⟨fun a b => decide (a = b)⟩
  sqrt := Real.sqrt
  abs := fun x => |x|
  sin := Real.sin
  cos := Real.cos
  pi := Real.pi
  decLt := fun a b => inferInstance
  decLe := fun a b => inferInstance

namespace RS
@[simp] theorem sqrt_eq (x : ℝ) : Scalar.sqrt x = Real.sqrt x := rfl
@[simp] theorem abs_eq (x : ℝ) : Scalar.abs x = |x| := rfl
@[simp] theorem sin_eq (x : ℝ) : Scalar.sin x = Real.sin x := rfl
@[simp] theorem cos_eq (x : ℝ) : Scalar.cos x = Real.cos x := rfl
@[simp] theorem pi_eq : (Scalar.pi : ℝ) = Real.pi := rfl
@[simp] theorem sq_eq (x : ℝ) : Scalar.sq x = x * x := rfl
@[simp] theorem lit_eq (n d : ℕ) : (Scalar.lit n d : ℝ) = (n : ℝ) / (d : ℝ) := rfl
@[simp] theorem beq_eq (a b : ℝ) : (a == b) = decide (a = b) := rfl
end RS

example (a b : ℝ) : a + b * 2 = b + b + a := by ring
example (a b : ℝ) : (V3.New a b a).Dot (V3.New b a a) = 2 * a * b + a * a := by
  simp [V3.New, V3.Dot]; ring

end PolyVerif
