/-
  C09 — cheap table-level facts about the cap triangles of the cell polyhedron (see MarchVolume.lean): the low-face caps
  lie in the coordinate planes through the cell's low corner; the caps of a face depend only on the face's corner bits
  (canonical cap), with the low-face cap of a cell being the FLIPPED canonical cap.  Core Lean only.
-/
import PolyVerif.Lemmas.MarchVolume

namespace PolyVerif
namespace C09
open PolyVerif.March PolyVerif.Gen.March

/-- a vertex of the global surface-with-caps: a lattice edge (its vertex) or a lattice point; here RELATIVE to a cell origin -/
abbrev RV := LEdge ⊕ Pt

def rid (id : Nat) : RV := if id < 12 then Sum.inl (edgeRel id) else Sum.inr (cornerOff (id - 12))
def shiftRV (q : Pt) : RV → RV
  | .inl l => .inl (shiftL q l)
  | .inr c => .inr (padd q c)
def ridTri (t : Nat × Nat × Nat) : RV × RV × RV := (rid t.1, rid t.2.1, rid t.2.2)
def shiftTri (q : Pt) (t : RV × RV × RV) : RV × RV × RV := (shiftRV q t.1, shiftRV q t.2.1, shiftRV q t.2.2)
/-- the same triangle with the opposite orientation (first corner kept) -/
def flipTri {V : Type} (t : V × V × V) : V × V × V := (t.1, t.2.2, t.2.1)

/-- the sign pattern whose two faces perpendicular to `a` both carry the bits `fb` (`dupCase` is its case index) -/
def dupBits (a : Nat) (fb : List Bool) : List Bool :=
  (List.range 8).map fun i =>
    let q := cornerOff i
    let uv : Int × Int := if a = 0 then (q.2.1, q.2.2) else if a = 1 then (q.1, q.2.2) else (q.1, q.2.1)
    fb.getD (uv.1 + 2 * uv.2).toNat false

/-- canonical cap of a face ⟂`a` with corner bits `fb`, relative to the face's low corner: the high-face cap of `dupBits`,
    moved down by one cell -/
def capCanonRaw (a : Nat) (fb : List Bool) : List (RV × RV × RV) :=
  ((capTrisFace (dupBits a fb) a 1).map ridTri).map (shiftTri (negUnit a))
def capCanonTab (a : Nat) : List (List (RV × RV × RV)) := (List.range 16).map fun k => capCanonRaw a (bits4 k)
def capCanon (a : Nat) (fb : List Bool) : List (RV × RV × RV) := (capCanonTab a).getD (idx4 fb) []

namespace Tab

set_option maxRecDepth 100000 in
/-- every corner of a LOW-face cap triangle lies in the coordinate plane `coordinate a = 0` through the cell's low corner -/
theorem table_low_caps_planar : ∀ b0 b1 b2 b3 b4 b5 b6 b7 : Bool,
    (List.range 3).all (fun a => (capTrisFace (bits8 b0 b1 b2 b3 b4 b5 b6 b7) a 0).all fun t =>
      [t.1, t.2.1, t.2.2].all fun id =>
        decide (id < 20) && (if id < 12 then decide ((edgeRel id).2 < 3) && (edgeRel id).2 != a && coord a (edgeRel id).1 == 0
                             else coord a (cornerOff (id - 12)) == 0)) = true := by
  decide +kernel

set_option maxRecDepth 100000 in
/-- the cap a cell puts on its high face ⟂`a` is the canonical cap of that face's bits (moved up by one cell), the cap on
    its low face is the FLIPPED canonical cap of that face's bits — so the caps of two neighbouring cells on their shared
    face are mirror images -/
theorem table_cap_canonical : ∀ b0 b1 b2 b3 b4 b5 b6 b7 : Bool,
    (List.range 3).all (fun a =>
      let bits := bits8 b0 b1 b2 b3 b4 b5 b6 b7
      ((capTrisFace bits a 1).map ridTri).isPerm ((capCanon a (faceBits bits a 1)).map (shiftTri (unit a))) &&
      ((capTrisFace bits a 0).map ridTri).isPerm ((capCanon a (faceBits bits a 0)).map flipTri)) = true := by
  decide +kernel

/-- an all-outside face has no cap -/
theorem table_cap_canon_empty : capCanon 0 [false, false, false, false] = [] ∧ capCanon 1 [false, false, false, false] = [] ∧
    capCanon 2 [false, false, false, false] = [] := by decide +kernel

end Tab
end C09
end PolyVerif
