/-
  C09 — kernel-evaluated corner values of the cell solid (see MarchVolume.lean), sign patterns with first bit false.  Core Lean only.
-/
import PolyVerif.Lemmas.MarchVolume

namespace PolyVerif
namespace C09
open PolyVerif.March PolyVerif.Gen.March
namespace Tab

/-! `0 ≤ 6·volume` of the cell solid at EVERY corner of the parameter cube of every sign pattern (36 450 corners in all),
    in four chunks by the first two bits -/
set_option maxRecDepth 100000 in
theorem table_cell_volume_corners_ff : ∀ b2 b3 b4 b5 b6 b7 : Bool,
    (cornerSets (crossEdges (bits8 false false b2 b3 b4 b5 b6 b7)) []).all (fun M =>
      decide (3 * (solidTris (bits8 false false b2 b3 b4 b5 b6 b7)).length ≤ volShift (solidTris (bits8 false false b2 b3 b4 b5 b6 b7)) M)) = true := by
  decide +kernel

set_option maxRecDepth 100000 in
theorem table_cell_volume_corners_ft : ∀ b2 b3 b4 b5 b6 b7 : Bool,
    (cornerSets (crossEdges (bits8 false true b2 b3 b4 b5 b6 b7)) []).all (fun M =>
      decide (3 * (solidTris (bits8 false true b2 b3 b4 b5 b6 b7)).length ≤ volShift (solidTris (bits8 false true b2 b3 b4 b5 b6 b7)) M)) = true := by
  decide +kernel

end Tab
end C09
end PolyVerif
