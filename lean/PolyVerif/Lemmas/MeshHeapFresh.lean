/-
  C01 round 2: freshness of what the allocating primitives and `Mesh.Append` return (slices AND map objects with their
  entries), on top of the frame lemmas of Lemmas/MeshHeap.lean.
-/
import PolyVerif.Lemmas.MeshHeap
namespace PolyVerif
namespace MeshHeap
set_option linter.unusedSectionVars false
variable {κ α : Type} [DecidableEq κ]

/-- a map object allocated at or after `mbase`, present in `h'`, all of whose entries point into arrays allocated at or after `base` -/
def FreshMap (base mbase : Nat) (h' : Heap κ α) (m : Option Nat) : Prop :=
  ∃ id, m = some id ∧ mbase ≤ id ∧ id < h'.maps.length ∧ ∀ e ∈ h'.mapEntries (some id), Fresh base e.2

theorem FreshMap.mono {base mbase b2 : Nat} {h h' : Heap κ α} {m : Option Nat} (fm : FreshMap base mbase h m)
    (f : Frame b2 h h') : FreshMap base mbase h' m := by
  obtain ⟨id, rfl, h1, h2, h3⟩ := fm
  refine ⟨id, rfl, h1, Nat.lt_of_lt_of_le h2 f.msize_le, ?_⟩
  intro e he
  apply h3 e
  simpa [Heap.mapEntries, f.maps_eq id h2] using he

theorem allocMap_fresh {base mbase : Nat} {h : Heap κ α} (hm : mbase ≤ h.maps.length) {es : List (κ × Slice)}
    (v : ∀ e ∈ es, Fresh base e.2) : FreshMap base mbase (h.allocMap es).1 (some (h.allocMap es).2) := by
  refine ⟨_, rfl, hm, by simp [Heap.allocMap], ?_⟩
  simp only [Heap.mapEntries, Heap.allocMap, List.getElem?_append_right (Nat.le_refl _), Nat.sub_self, List.getElem?_cons_zero,
    Option.getD_some]
  exact v

theorem allocEntries_fresh (E : Env α) {base : Nat} (es : List (κ × List α × Nat)) :
    ∀ {h : Heap κ α} (_ : base ≤ h.arrays.length),
    (allocEntries E h es).1.maps = h.maps ∧ ∀ e ∈ (allocEntries E h es).2, Fresh base e.2 := by
  induction es with
  | nil => intro h hb; exact ⟨rfl, fun e he => by simp [allocEntries] at he⟩
  | cons e rest ih =>
    intro h hb
    simp only [allocEntries]
    obtain ⟨f1, fr1, _⟩ := allocSlice_spec (κ := κ) E hb e.2.1 e.2.2
    obtain ⟨m2, v2⟩ := ih f1.base_le'
    refine ⟨by rw [m2]; simp [allocSlice, Heap.alloc], ?_⟩
    intro x hx
    rcases List.mem_cons.mp hx with rfl | hx
    · exact fr1
    · exact v2 x hx

theorem allocMapOf_fresh (E : Env α) {base : Nat} (es : List (κ × List α × Nat)) {h : Heap κ α}
    (hb : base ≤ h.arrays.length) :
    FreshMap base h.maps.length (allocMapOf E h es).1 (some (allocMapOf E h es).2) := by
  simp only [allocMapOf]
  obtain ⟨m1, v1⟩ := allocEntries_fresh E es hb
  exact allocMap_fresh (by rw [m1]; exact Nat.le_refl _) v1

theorem allocMaps_fresh (E : Env α) {base mbase : Nat} (ess : List (List (κ × List α × Nat))) :
    ∀ {h : Heap κ α} (_ : base ≤ h.arrays.length) (_ : mbase ≤ h.maps.length),
    ∀ m ∈ (allocMaps E h ess).2, FreshMap base mbase (allocMaps E h ess).1 m := by
  induction ess with
  | nil => intro h hb hm e he; simp [allocMaps] at he
  | cons es rest ih =>
    intro h hb hm
    simp only [allocMaps]
    obtain ⟨f1, _⟩ := allocMapOf_spec E es hb
    have v1 := allocMapOf_fresh E es hb
    obtain ⟨f2, _⟩ := allocMaps_spec E rest f1.base_le'
    intro x hx
    rcases List.mem_cons.mp hx with rfl | hx
    · obtain ⟨id, e1, e2, e3, e4⟩ := v1
      exact FreshMap.mono ⟨id, e1, Nat.le_trans hm e2, e3, e4⟩ f2
    · exact ih f1.base_le' (Nat.le_trans hm f1.msize_le) x hx

theorem appendKind_fresh (E : Env α) {base mbase : Nat} (aLen bLen : Nat) {h : Heap κ α} (hb : base ≤ h.arrays.length)
    (hm : mbase ≤ h.maps.length) (ma mb : Option Nat) :
    FreshMap base mbase (appendKind E false aLen bLen h ma mb).1 (some (appendKind E false aLen bLen h ma mb).2) := by
  simp only [appendKind, Bool.false_eq_true, if_false]
  obtain ⟨f1, ok1⟩ := appendDataA_spec E (h.mapEntries mb) bLen (h.mapEntries ma) hb (FinOK.nil base h)
  obtain ⟨f2, ok2⟩ := appendDataB_spec E aLen (h.mapEntries mb) f1.base_le' ok1
  exact allocMap_fresh (Nat.le_trans hm (f1.trans f2).msize_le) (fun e he => (ok2 e he).1)

theorem appendMapsB_fresh (E : Env α) {base mbase : Nat} (aLen bLen : Nat) (os : List (Option Nat)) :
    ∀ {h : Heap κ α} (_ : base ≤ h.arrays.length) (_ : mbase ≤ h.maps.length),
      ∀ m ∈ (appendMapsB E false aLen bLen h os).2, FreshMap base mbase (appendMapsB E false aLen bLen h os).1 m := by
  induction os with
  | nil => intro h hb hm m hx; simp [appendMapsB] at hx
  | cons mb os ih =>
    intro h hb hm
    simp only [appendMapsB]
    obtain ⟨f1, _⟩ := appendKind_spec E aLen bLen hb none mb
    have v1 := appendKind_fresh E aLen bLen hb hm none mb
    obtain ⟨f2, _⟩ := appendMapsB_spec E aLen bLen os f1.base_le'
    intro m hx
    rcases List.mem_cons.mp hx with rfl | hx
    · exact v1.mono f2
    · exact ih f1.base_le' (Nat.le_trans hm f1.msize_le) m hx

theorem appendMaps_fresh (E : Env α) {base mbase : Nat} (aLen bLen : Nat) (ms : List (Option Nat)) :
    ∀ (os : List (Option Nat)) {h : Heap κ α} (_ : base ≤ h.arrays.length) (_ : mbase ≤ h.maps.length),
      ms.length ≤ (appendMaps E false aLen bLen h ms os).2.length ∧
      ∀ m ∈ (appendMaps E false aLen bLen h ms os).2, FreshMap base mbase (appendMaps E false aLen bLen h ms os).1 m := by
  induction ms with
  | nil => intro os h hb hm; simp only [appendMaps]; exact ⟨Nat.zero_le _, appendMapsB_fresh E aLen bLen os hb hm⟩
  | cons ma ms ih =>
    intro os h hb hm
    simp only [appendMaps]
    obtain ⟨f1, _⟩ := appendKind_spec E aLen bLen hb ma (headKind os)
    have v1 := appendKind_fresh E aLen bLen hb hm ma (headKind os)
    obtain ⟨f2, _⟩ := appendMaps_spec E aLen bLen ms os.tail f1.base_le'
    obtain ⟨l2, v2⟩ := ih os.tail f1.base_le' (Nat.le_trans hm f1.msize_le)
    refine ⟨by simp only [List.length_cons]; omega, ?_⟩
    intro m hx
    rcases List.mem_cons.mp hx with rfl | hx
    · exact v1.mono f2
    · exact v2 m hx

/-- `Mesh.Append` as it is now: index and material slices and every map (object and entries) are allocated by the call -/
theorem appendCopy_fresh (E : Env α) {h h' : Heap κ α} {m o r : MeshRep} {aLen bLen : Nat}
    (hr : appendCopy E h m o aLen bLen = some (h', r)) :
    r.topo = m.topo ∧ Fresh h.arrays.length r.indices ∧ Fresh h.arrays.length r.materials ∧ m.maps.length ≤ r.maps.length ∧
      ∀ x ∈ r.maps, FreshMap h.arrays.length h.maps.length h' x := by
  have hb : h.arrays.length ≤ h.arrays.length := Nat.le_refl _
  unfold appendCopy at hr
  split at hr
  · cases hr
  · simp only [Option.some.injEq, Prod.mk.injEq] at hr
    obtain ⟨rfl, rfl⟩ := hr
    obtain ⟨fm, vm⟩ := appendMaps_spec E aLen bLen m.maps o.maps hb
    obtain ⟨lm, frm⟩ := appendMaps_fresh (mbase := h.maps.length) E aLen bLen m.maps o.maps hb (Nat.le_refl _)
    generalize appendMaps E false aLen bLen h m.maps o.maps = rm at fm vm lm frm ⊢
    have f2 := frame_alloc (κ := κ) fm.base_le' (List.replicate (m.indices.len + o.indices.len) E.zero)
    have ft0 : Fresh h.arrays.length (⟨rm.1.arrays.length, 0, 0, m.indices.len + o.indices.len⟩ : Slice) := Or.inl fm.base_le'
    have vt0 : Slice.Valid (rm.1.alloc (List.replicate (m.indices.len + o.indices.len) E.zero)).1
        (⟨rm.1.arrays.length, 0, 0, m.indices.len + o.indices.len⟩ : Slice) := ⟨Nat.zero_le _, Or.inr (by simp)⟩
    obtain ⟨f3, ft1, vt1⟩ := goAppend_spec E f2.base_le' ft0 vt0
      ((rm.1.alloc (List.replicate (m.indices.len + o.indices.len) E.zero)).1.read m.indices)
    generalize goAppend E _ _ _ = t1 at f3 ft1 vt1 ⊢
    obtain ⟨f4, ft2, vt2⟩ := goAppend_spec E f3.base_le' ft1 vt1 (t1.1.read o.indices)
    generalize goAppend E _ _ _ = t2 at f4 ft2 vt2 ⊢
    have f5 := frame_alloc (κ := κ) f4.base_le' (List.replicate (m.materials.len + o.materials.len) E.zero)
    have fu0 : Fresh h.arrays.length (⟨t2.1.arrays.length, 0, 0, m.materials.len + o.materials.len⟩ : Slice) := Or.inl f4.base_le'
    have vu0 : Slice.Valid (t2.1.alloc (List.replicate (m.materials.len + o.materials.len) E.zero)).1
        (⟨t2.1.arrays.length, 0, 0, m.materials.len + o.materials.len⟩ : Slice) := ⟨Nat.zero_le _, Or.inr (by simp)⟩
    obtain ⟨f6, fu1, vu1⟩ := goAppend_spec E f5.base_le' fu0 vu0
      ((t2.1.alloc (List.replicate (m.materials.len + o.materials.len) E.zero)).1.read m.materials)
    generalize goAppend E _ _ _ = u1 at f6 fu1 vu1 ⊢
    obtain ⟨f7, fu2, vu2⟩ := goAppend_spec E f6.base_le' fu1 vu1 (u1.1.read o.materials)
    generalize goAppend E _ _ _ = u2 at f7 fu2 vu2 ⊢
    have vt2' : t2.2.Valid u2.1 := vt2.mono (Nat.le_trans f5.size_le (Nat.le_trans f6.size_le f7.size_le))
    obtain ⟨f8, hsz⟩ := shiftTail_spec E f7.base_le' ft2 vt2' m.indices.len aLen
    refine ⟨rfl, ft2, fu2, lm, ?_⟩
    intro x hx
    exact (frm x hx).mono ((((((f2.trans f3).trans f4).trans f5).trans f6).trans f7).trans f8)

end MeshHeap
end PolyVerif
