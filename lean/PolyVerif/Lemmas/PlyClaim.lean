/-
  C04 — the claim stage of the default PLY reader DERIVED from a header-level guard (core Lean only).

  `claimGuard ws` (Model/PlyClaim.lean) is a decidable predicate on the property writers that fire; here:
  * `buildReader_expect`: for distinct property names and a reader `r` of `defaultReader.Properties` inside the guard,
    `PropertyReader.build*` on the written header builds exactly the predicted reader `expectNames ws r`, located at the
    header positions of its names;
  * `claimCheck_of_guard`: the claim certificate of the composed round-trip theorems holds.
-/
import PolyVerif.Model.PlyClaim
import PolyVerif.Lemmas.Ply
import PolyVerif.Lemmas.PlyCompose

namespace PolyVerif
namespace PlyClaim
open Ply PlyLemmas PlyCompose

/-! ## the header of a writer list -/

theorem wsProps_eq (ws : List WProp) : wsProps ws = headerProps ws := rfl

theorem wsProps_names (ws : List WProp) : (wsProps ws).map (·.1) = wsNames ws := by
  induction ws with
  | nil => rfl
  | cons w ws ih =>
    simp only [wsProps, wsNames, List.map_cons, List.flatten_cons, List.map_append] at ih ⊢
    rw [ih]; simp [Function.comp_def]

theorem mem_wsProps (ws : List WProp) (n : Bytes) (t : SType) :
    (n, t) ∈ wsProps ws ↔ ∃ w ∈ ws, n ∈ w.names ∧ w.ty = t := by
  simp only [wsProps, List.mem_flatten, List.mem_map]
  constructor
  · rintro ⟨l, ⟨w, hw, rfl⟩, hm⟩
    simp only [List.mem_map, Prod.mk.injEq] at hm
    obtain ⟨n', hn', rfl, rfl⟩ := hm
    exact ⟨w, hw, hn', rfl⟩
  · rintro ⟨w, hw, hn, rfl⟩
    exact ⟨_, ⟨w, hw, rfl⟩, List.mem_map.mpr ⟨n, hn, rfl⟩⟩

theorem mem_wsNames (ws : List WProp) (n : Bytes) : n ∈ wsNames ws ↔ ∃ w ∈ ws, n ∈ w.names := by
  simp only [wsNames, List.mem_flatten, List.mem_map]
  constructor
  · rintro ⟨l, ⟨w, hw, rfl⟩, hm⟩; exact ⟨w, hw, hm⟩
  · rintro ⟨w, hw, hn⟩; exact ⟨_, ⟨w, hw, rfl⟩, hn⟩

/-- with distinct property names, a name belongs to one writer only -/
theorem same_writer : ∀ (ws : List WProp), (wsNames ws).Nodup → ∀ (w w' : WProp), w ∈ ws → w' ∈ ws → ∀ n, n ∈ w.names →
    n ∈ w'.names → w = w' := by
  intro ws
  induction ws with
  | nil => intro _ w _ hw; simp at hw
  | cons a ws ih =>
    intro hnd w w' hw hw' n h1 h2
    have hnd' : (a.names ++ wsNames ws).Nodup := by simpa [wsNames] using hnd
    obtain ⟨_, hr, hdis⟩ := List.nodup_append.mp hnd'
    simp only [List.mem_cons] at hw hw'
    rcases hw with rfl | hw <;> rcases hw' with rfl | hw'
    · rfl
    · exact absurd rfl (hdis n h1 n ((mem_wsNames ws n).mpr ⟨w', hw', h2⟩))
    · exact absurd rfl (hdis n h2 n ((mem_wsNames ws n).mpr ⟨w, hw, h1⟩))
    · exact ih hr w w' hw hw' n h1 h2

/-- where a property of the header sits: `posOf` finds it -/
theorem posOf_spec (props : List (Bytes × SType)) (hnd : (props.map (·.1)).Nodup) (n : Bytes) (t : SType)
    (h : (n, t) ∈ props) : ∃ hi : posOf props n < props.length, props[posOf props n] = (n, t) := by
  have hlt : posOf props n < props.length := by
    simp only [posOf]
    exact List.findIdx_lt_length_of_exists ⟨(n, t), h, by simp⟩
  refine ⟨hlt, ?_⟩
  have hp : (props[posOf props n]).1 = n := by
    have := @List.findIdx_getElem _ (fun (p : Bytes × SType) => p.1 = n) props hlt
    exact of_decide_eq_true this
  exact eq_of_fst_eq_of_nodup props hnd _ _ (List.getElem_mem _) h hp

theorem posOf_first (props : List (Bytes × SType)) (n : Bytes) (j : Nat) (hj : j < posOf props n) (hl : j < props.length) :
    props[j].1 ≠ n := by
  have := List.not_of_lt_findIdx (p := fun (p : Bytes × SType) => decide (p.1 = n)) (xs := props) (i := j) hj
  simpa using this

/-- the header positions of (some of) the names of one writer -/
theorem writer_positions (ws : List WProp) (hnd : (wsNames ws).Nodup) (w : WProp) (hw : w ∈ ws) (ns : List Bytes)
    (hsub : ∀ n ∈ ns, n ∈ w.names) (k : Nat) (hk : k < ns.length) :
    ∃ hi : posOf (wsProps ws) ns[k] < (wsProps ws).length, (wsProps ws)[posOf (wsProps ws) ns[k]] = (ns[k], w.ty) :=
  posOf_spec _ (by rw [wsProps_names]; exact hnd) _ _
    ((mem_wsProps ws _ _).mpr ⟨w, hw, hsub _ (List.getElem_mem hk), rfl⟩)

/-! ## the vector scan without any assumption on the types: an absent name leaves its slot empty -/

theorem scanComponent_len (pname : Bytes) (pty : SType) (f : Bool) (s : Scan) (k : Nat) (cname : Bytes) :
    (scanComponent pname pty f s k cname).offs.length = s.offs.length := by
  simp only [scanComponent]
  split <;> simp

theorem scanComponent_other (pname : Bytes) (pty : SType) (f : Bool) (s : Scan) (k' : Nat) (cname : Bytes) (k : Nat)
    (h : k' = k → cname ≠ pname) : (scanComponent pname pty f s k' cname).offs[k]? = s.offs[k]? := by
  simp only [scanComponent]
  split
  · rfl
  · rename_i hne
    have hkk : k' ≠ k := fun e => h e (by simp at hne; exact hne.symm)
    simp [List.getElem?_set_ne hkk]

theorem scanInner_len (pname : Bytes) (pty : SType) (force : Nat → Bool) :
    ∀ (l : List (Bytes × Nat)) (s : Scan), (scanInner pname pty force l s).offs.length = s.offs.length := by
  intro l
  induction l with
  | nil => intro s; rfl
  | cons x l ih =>
    intro s
    simp only [scanInner, List.foldl_cons] at ih ⊢
    rw [ih, scanComponent_len]

theorem scanInner_other (pname : Bytes) (pty : SType) (force : Nat → Bool) (k : Nat) :
    ∀ (l : List (Bytes × Nat)) (s : Scan), (∀ x ∈ l, x.2 = k → x.1 ≠ pname) →
      (scanInner pname pty force l s).offs[k]? = s.offs[k]? := by
  intro l
  induction l with
  | nil => intro s _; rfl
  | cons x l ih =>
    intro s h
    simp only [scanInner, List.foldl_cons] at ih ⊢
    rw [ih _ (fun y hy => h y (by simp [hy])), scanComponent_other _ _ _ _ _ _ _ (h x (by simp))]

theorem scanProp_len (binary : Bool) (names : List Bytes) (s : Scan) (p : Bytes × SType) :
    (scanProp binary names s p).offs.length = s.offs.length := by
  rw [scanProp_eq]; exact scanInner_len _ _ _ _ _

theorem scanProp_other (binary : Bool) (names : List Bytes) (s : Scan) (p : Bytes × SType) (k : Nat)
    (hk : k < names.length) (h : p.1 ≠ names[k]) : (scanProp binary names s p).offs[k]? = s.offs[k]? := by
  rw [scanProp_eq]
  apply scanInner_other
  intro x hx hxk
  obtain ⟨c, i⟩ := x
  have := List.mem_zipIdx_iff_getElem?.mp hx
  simp only at hxk
  subst hxk
  rw [List.getElem?_eq_getElem hk] at this
  simp at this
  subst this
  exact fun e => h e.symm

theorem scan_len (binary : Bool) (names : List Bytes) : ∀ (ps : List (Bytes × SType)) (s : Scan),
    (ps.foldl (scanProp binary names) s).offs.length = s.offs.length := by
  intro ps
  induction ps with
  | nil => intro s; rfl
  | cons p ps ih => intro s; simp only [List.foldl_cons]; rw [ih, scanProp_len]

theorem scan_absent (binary : Bool) (names : List Bytes) (k : Nat) (hk : k < names.length) :
    ∀ (ps : List (Bytes × SType)) (s : Scan), (∀ p ∈ ps, p.1 ≠ names[k]) →
      (ps.foldl (scanProp binary names) s).offs[k]? = s.offs[k]? := by
  intro ps
  induction ps with
  | nil => intro s _; rfl
  | cons p ps ih =>
    intro s h
    simp only [List.foldl_cons]
    rw [ih _ (fun q hq => h q (by simp [hq])), scanProp_other binary names s p k hk (h p (by simp))]

/-- a vector reader one of whose names is absent from the header is not built — whatever the property types -/
theorem buildVec_absent (binary : Bool) (props : List (Bytes × SType)) (attr : Bytes) (names : List Bytes)
    (k : Nat) (hk : k < names.length) (habs : ∀ p ∈ props, p.1 ≠ names[k]) :
    buildVec binary props attr names = none := by
  have := scan_absent binary names k hk props ⟨names.map (fun _ => none), none, 0⟩ habs
  simp only [List.getElem?_map, List.getElem?_eq_getElem hk, Option.map_some] at this
  simp only [buildVec, allSome_none _ k this]

theorem fallback_none {β : Type} (l : List (Option Nat)) (k : Nat) (hk : k < 3) (h : l[k]? = some none) (x : Option β) :
    (match l with
     | [some _, some _, some _, _] => x
     | _ => none) = none := by
  split
  · match k, hk with
    | 0, _ => simp at h
    | 1, _ => simp at h
    | 2, _ => simp at h
  · rfl

/-- `PropertyReader.build*` of a 2/3/4-vector reader one of whose NEEDED names is absent: nothing is built -/
theorem buildReader_absent (binary : Bool) (props : List (Bytes × SType)) (r : RProp) (hlen : 2 ≤ r.names.length)
    (k : Nat) (hk : k < r.names.length) (hk3 : r.ignorableW = true → k < 3) (habs : ∀ p ∈ props, p.1 ≠ r.names[k]) :
    buildReader binary props r = none := by
  have hnone := buildVec_absent binary props r.attr r.names k hk habs
  have hoff := scan_absent binary r.names k hk props ⟨r.names.map (fun _ => none), none, 0⟩ habs
  simp only [List.getElem?_map, List.getElem?_eq_getElem hk, Option.map_some] at hoff
  obtain ⟨attr, names, ign⟩ := r
  match names, hlen with
  | a :: b :: rest, _ =>
    simp only [buildReader, hnone]
    split
    · rename_i h4
      exact fallback_none _ k (hk3 h4.2) hoff _
    · rfl

/-! ## the IgnorableW fallback with the fourth name PRESENT, later in the header, with another type -/

theorem scanComponent_inv (t : SType) (pname : Bytes) (pty : SType) (s : Scan) (k' : Nat) (cname : Bytes) (k : Nat)
    (hty : s.ty = some t) (hoff : s.offs[k]? = some none) (hmis : k' = k → cname = pname → pty ≠ t) :
    (scanComponent pname pty false s k' cname).ty = some t ∧
      (scanComponent pname pty false s k' cname).offs[k]? = some none := by
  simp only [scanComponent]
  split
  · exact ⟨hty, hoff⟩
  · rename_i hne
    have hc : cname = pname := by simp at hne; exact hne.symm
    simp only [Bool.false_eq_true, if_false, hty]
    refine ⟨by first | trivial | rfl, ?_⟩
    by_cases hkk : k' = k
    · subst hkk
      have hp := hmis rfl hc
      have hlt : k' < s.offs.length := by
        rcases Nat.lt_or_ge k' s.offs.length with h | h
        · exact h
        · rw [List.getElem?_eq_none h] at hoff; simp at hoff
      have hne' : ¬ (some t = some pty) := by simp; exact fun e => hp e.symm
      simp [hne', List.getElem?_set_self hlt]
    · rw [List.getElem?_set_ne hkk]; exact hoff

theorem scanInner_inv (t : SType) (pname : Bytes) (pty : SType) (k : Nat) :
    ∀ (l : List (Bytes × Nat)) (s : Scan), s.ty = some t → s.offs[k]? = some none →
      (∀ x ∈ l, x.2 = k → x.1 = pname → pty ≠ t) →
      (scanInner pname pty (fun _ => false) l s).ty = some t ∧
        (scanInner pname pty (fun _ => false) l s).offs[k]? = some none := by
  intro l
  induction l with
  | nil => intro s h1 h2 _; exact ⟨h1, h2⟩
  | cons x l ih =>
    intro s h1 h2 h
    simp only [scanInner, List.foldl_cons] at ih ⊢
    obtain ⟨a, b⟩ := scanComponent_inv t pname pty s x.2 x.1 k h1 h2 (h x (by simp))
    exact ih _ a b (fun y hy => h y (by simp [hy]))

theorem scanProp_inv (binary : Bool) (names : List Bytes) (t : SType) (k : Nat) (hk : k < names.length) (s : Scan)
    (p : Bytes × SType) (h1 : s.ty = some t) (h2 : s.offs[k]? = some none) (hmis : p.1 = names[k] → p.2 ≠ t) :
    (scanProp binary names s p).ty = some t ∧ (scanProp binary names s p).offs[k]? = some none := by
  rw [scanProp_eq]
  have := scanInner_inv t p.1 p.2 k names.zipIdx s h1 h2 (by
    intro x hx hxk hxn
    obtain ⟨c, i⟩ := x
    have hm := List.mem_zipIdx_iff_getElem?.mp hx
    simp only at hxk hxn
    subst hxk
    rw [List.getElem?_eq_getElem hk] at hm
    simp at hm
    exact hmis (by rw [← hxn, hm]))
  exact this

theorem scan_inv (binary : Bool) (names : List Bytes) (t : SType) (k : Nat) (hk : k < names.length) :
    ∀ (ps : List (Bytes × SType)) (s : Scan), s.ty = some t → s.offs[k]? = some none →
      (∀ p ∈ ps, p.1 = names[k] → p.2 ≠ t) →
      (ps.foldl (scanProp binary names) s).ty = some t ∧ (ps.foldl (scanProp binary names) s).offs[k]? = some none := by
  intro ps
  induction ps with
  | nil => intro s h1 h2 _; exact ⟨h1, h2⟩
  | cons p ps ih =>
    intro s h1 h2 h
    simp only [List.foldl_cons]
    obtain ⟨a, b⟩ := scanProp_inv binary names t k hk s p h1 h2 (h p (by simp))
    exact ih _ a b (fun q hq => h q (by simp [hq]))

theorem offs_four' (l : List (Option Nat)) (hl : l.length = 4)
    (h0 : ∃ a, l[0]? = some (some a)) (h1 : ∃ a, l[1]? = some (some a)) (h2 : ∃ a, l[2]? = some (some a))
    (h3 : l[3]? = some none) : ∃ a b c, l = [some a, some b, some c, none] := by
  obtain ⟨a, h0⟩ := h0
  obtain ⟨b, h1⟩ := h1
  obtain ⟨c, h2⟩ := h2
  exact ⟨a, b, c, offs_four l hl a b c h0 h1 h2 h3⟩

/-- THE IGNORABLE-W FALLBACK, fourth name present: the header is `pre ++ post`, the first three names sit in `pre` with one
type `t`, the fourth name sits in `post` with ANOTHER type — the 4-vector scan takes its type from the first member it
meets (`t`), finds the fourth "mixed", and `build*` falls back to the 3-vector reader over the first three names -/
theorem buildReader_fallback_mixed (binary : Bool) (pre post : List (Bytes × SType)) (r : RProp)
    (hlen : r.names.length = 4) (hign : r.ignorableW = true) (hn : r.names.Nodup)
    (hnd : ((pre ++ post).map (·.1)).Nodup) (t t' : SType) (htt : t' ≠ t)
    (hpre : ∀ k (hk : k < 3), (r.names[k]'(by omega), t) ∈ pre) (hpost : (r.names[3]'(by omega), t') ∈ post)
    (idx : List Nat) (hl : idx.length = 3)
    (hidx : ∀ k (hk : k < 3), ∃ hi : idx[k]'(by omega) < (pre ++ post).length,
      (pre ++ post)[idx[k]'(by omega)] = (r.names[k]'(by omega), t)) :
    buildReader binary (pre ++ post) r
      = some ⟨r.attr, r.names.take 3, idx.map (locOf binary (pre ++ post)), some t⟩ := by
  have hnd' := hnd
  rw [List.map_append, List.nodup_append] at hnd'
  obtain ⟨hndpre, hndpost, hdis⟩ := hnd'
  have hdis' : ∀ p ∈ pre, ∀ q ∈ post, p.1 ≠ q.1 := fun p hp q hq =>
    hdis p.1 (List.mem_map_of_mem hp) q.1 (List.mem_map_of_mem hq)
  -- scan of `pre`: uniform type t
  have huni : ∀ p ∈ pre, p.1 ∈ r.names → p.2 = t := by
    intro p hp hm
    obtain ⟨k, hk, hke⟩ := List.getElem_of_mem hm
    by_cases hk3 : k = 3
    · subst hk3
      exact absurd hke.symm (hdis' p hp _ hpost)
    · have := eq_of_fst_eq_of_nodup pre hndpre p _ hp (hpre k (by omega)) hke.symm
      rw [this]
  obtain ⟨_, hlen1, h3, h4, _⟩ := scan_fold binary r.names hn t pre ⟨r.names.map (fun _ => none), none, 0⟩ hndpre huni
    (.inl rfl) (by simp)
  have hty1 : (pre.foldl (scanProp binary r.names) ⟨r.names.map (fun _ => none), none, 0⟩).ty = some t :=
    h4 ⟨_, hpre 0 (by omega), List.getElem_mem _⟩
  have hoff1 : ∀ k (hk : k < 3), ∃ a, (pre.foldl (scanProp binary r.names) ⟨r.names.map (fun _ => none), none, 0⟩).offs[k]?
      = some (some a) := by
    intro k hk
    obtain ⟨i, hi, hie⟩ := List.getElem_of_mem (hpre k hk)
    exact ⟨_, (h3 k (by omega)).1 i hi (by rw [hie])⟩
  have hoff13 : (pre.foldl (scanProp binary r.names) ⟨r.names.map (fun _ => none), none, 0⟩).offs[3]? = some none := by
    have := (h3 3 (by omega)).2 (fun p hp e => hdis' p hp _ hpost e)
    simpa [List.getElem?_map, List.getElem?_eq_getElem (show 3 < r.names.length by omega)] using this
  -- scan of `post`
  have hs : (pre ++ post).foldl (scanProp binary r.names) ⟨r.names.map (fun _ => none), none, 0⟩
      = post.foldl (scanProp binary r.names) (pre.foldl (scanProp binary r.names) ⟨r.names.map (fun _ => none), none, 0⟩) :=
    List.foldl_append
  have hoff2 : ∀ k (hk : k < 3), ∃ a, ((pre ++ post).foldl (scanProp binary r.names)
      ⟨r.names.map (fun _ => none), none, 0⟩).offs[k]? = some (some a) := by
    intro k hk
    obtain ⟨a, ha⟩ := hoff1 k hk
    refine ⟨a, ?_⟩
    rw [hs, scan_absent binary r.names k (by omega) post _ (fun q hq e => hdis' _ (hpre k hk) q hq e.symm)]
    exact ha
  have hoff23 : ((pre ++ post).foldl (scanProp binary r.names) ⟨r.names.map (fun _ => none), none, 0⟩).offs[3]? = some none := by
    rw [hs]
    refine (scan_inv binary r.names t 3 (by omega) post _ hty1 hoff13 ?_).2
    intro q hq e
    have := eq_of_fst_eq_of_nodup post hndpost q _ hq hpost e
    rw [this]; exact htt
  have hlen2 : ((pre ++ post).foldl (scanProp binary r.names) ⟨r.names.map (fun _ => none), none, 0⟩).offs.length = 4 := by
    rw [scan_len]; simp [hlen]
  obtain ⟨a, b, c, hform⟩ := offs_four' _ hlen2 (hoff2 0 (by omega)) (hoff2 1 (by omega)) (hoff2 2 (by omega)) hoff23
  have hnone : buildVec binary (pre ++ post) r.attr r.names = none := by
    simp only [buildVec, allSome_none _ 3 hoff23]
  -- the 3-vector reader
  have hn3 : (r.names.take 3).Nodup := List.Nodup.sublist (List.take_sublist _ _) hn
  have hb3 := buildVec_spec binary (pre ++ post) r.attr (r.names.take 3) hn3
    (by intro h; have := congrArg List.length h; simp [hlen] at this) hnd t idx (by simp [hl, hlen])
    (fun k hk => by
      have hk3 : k < 3 := by simp [hlen] at hk; omega
      obtain ⟨hi, hpe⟩ := hidx k hk3
      exact ⟨hi, by rw [hpe]; simp⟩)
  obtain ⟨attr, names, ign⟩ := r
  simp only at hlen hign hnone hform hb3 ⊢
  match names, hlen with
  | [n0, n1, n2, n3], _ =>
    simp only [buildReader, hnone, hign, hform]
    simpa using hb3

/-! ## one default reader on the written header: built exactly as predicted (binary offsets / ASCII columns) -/

/-- the decoding type a built reader carries: the writer's type — except for the ASCII scalar reader, which never
learns it (reader_vector1.go:38-57) -/
def tyOf (binary : Bool) (r : RProp) (t : SType) : Option SType :=
  if binary || decide (r.names.length ≠ 1) then some t else none

/-- the predicted reader with its location: component `k` at the byte offset (binary) / column (ASCII) of the header
position of its name -/
def expectBuilt (binary : Bool) (ws : List WProp) (r : RProp) : Option Built :=
  (expectNames ws r).map (fun p =>
    ⟨r.attr, p.1, (p.1.map (posOf (wsProps ws))).map (locOf binary (wsProps ws)), tyOf binary r p.2⟩)

theorem buildV1_go_none (binary : Bool) (attr name : Bytes) : ∀ (props : List (Bytes × SType)) (pos : Nat),
    (∀ p ∈ props, p.1 ≠ name) → buildV1.go binary attr name props pos = none := by
  intro props
  induction props with
  | nil => intro _ _; simp [buildV1.go]
  | cons x xs ih =>
    intro pos h
    obtain ⟨n, t⟩ := x
    have hn : n ≠ name := h (n, t) (by simp)
    simp only [buildV1.go, hn, if_false]
    exact ih _ (fun q hq => h q (by simp [hq]))

theorem props_name_mem (ws : List WProp) (p : Bytes × SType) (hp : p ∈ wsProps ws) : p.1 ∈ wsNames ws := by
  rw [← wsProps_names]; exact List.mem_map_of_mem hp

/-- outside a prediction, the guard names a needed component that is absent from the header -/
theorem guard_absent (ws : List WProp) (r : RProp) (hone : r.names.length ≠ 1) (hg : readerGuard ws r = true)
    (hex : expectNames ws r = none) :
    ∃ k, ∃ hk : k < r.names.length, (r.ignorableW = true → k < 3) ∧ ∀ p ∈ wsProps ws, p.1 ≠ r.names[k] := by
  simp only [readerGuard, hex, hone, Option.isSome_none, decide_false, Bool.false_or, List.any_eq_true,
    Bool.not_eq_true', List.contains_eq_mem, decide_eq_false_iff_not] at hg
  obtain ⟨n, hn, hnot⟩ := hg
  by_cases hi : r.ignorableW = true
  · simp only [RProp.needed, hi, if_true] at hn
    obtain ⟨k, hk, hke⟩ := List.getElem_of_mem hn
    have hk' : k < 3 ∧ k < r.names.length := by simp at hk; omega
    refine ⟨k, hk'.2, fun _ => hk'.1, ?_⟩
    intro p hp e
    apply hnot
    have : r.names[k] = n := by rw [← hke]; simp
    rw [← this, ← e]; exact props_name_mem ws p hp
  · have hi' : r.ignorableW = false := by simpa using hi
    simp only [RProp.needed, hi', Bool.false_eq_true, if_false] at hn
    obtain ⟨k, hk, hke⟩ := List.getElem_of_mem hn
    refine ⟨k, hk, fun h => absurd h hi, ?_⟩
    intro p hp e
    apply hnot
    rw [← hke, ← e]; exact props_name_mem ws p hp

/-- `ws` split at (the first occurrence of) `w` -/
theorem split_at_writer : ∀ (ws : List WProp) (w : WProp), w ∈ ws → ∃ A, ws = A ++ w :: writersAfter ws w := by
  intro ws w
  induction ws with
  | nil => intro h; simp at h
  | cons x ws ih =>
    intro hw
    by_cases hx : x = w
    · subst hx
      exact ⟨[], by simp [writersAfter]⟩
    · have hw' : w ∈ ws := by simpa [Ne.symm hx] using hw
      obtain ⟨A, hA⟩ := ih hw'
      refine ⟨x :: A, ?_⟩
      have : writersAfter (x :: ws) w = writersAfter ws w := by
        simp [writersAfter, hx]
      rw [this]
      simpa using hA

theorem wsProps_append (a b : List WProp) : wsProps (a ++ b) = wsProps a ++ wsProps b := by
  simp [wsProps]

/-- THE CLAIM OF ONE DEFAULT READER on the header the writers `ws` produce, inside the guard: `PropertyReader.build*`
builds exactly the predicted reader — all names of one writer, or the first three of an IgnorableW group whose fourth
name is absent, the scalar property, or nothing — located at the header positions of its names, with the writer's type -/
theorem buildReader_expect (binary : Bool) (ws : List WProp) (hnd : (wsNames ws).Nodup) (r : RProp)
    (h1 : 1 ≤ r.names.length) (hrn : r.names.Nodup) (hign : r.ignorableW = true → r.names.length = 4)
    (hg : readerGuard ws r = true) :
    buildReader binary (wsProps ws) r = expectBuilt binary ws r := by
  have hpn : ((wsProps ws).map (·.1)).Nodup := by rw [wsProps_names]; exact hnd
  by_cases hone : r.names.length = 1
  · obtain ⟨attr, names, ign⟩ := r
    match names, hone with
    | [n], _ =>
      simp only [buildReader, expectBuilt, expectNames, List.length_singleton, if_true]
      cases hf : ws.find? (fun w => [n].all (fun n => w.names.contains n)) with
      | none =>
        have habs : ∀ p ∈ wsProps ws, p.1 ≠ n := by
          intro p hp e
          obtain ⟨w, hw, hn⟩ := (mem_wsNames ws p.1).mp (props_name_mem ws p hp)
          have := List.find?_eq_none.mp hf w hw
          simp [← e, hn] at this
        simp [buildV1, buildV1_go_none binary attr n _ 0 habs]
      | some w =>
        have hw := List.mem_of_find?_eq_some hf
        have hp := List.find?_some hf
        simp only [List.all_cons, List.all_nil, Bool.and_true, List.contains_eq_mem, decide_eq_true_eq] at hp
        obtain ⟨hi, hpe⟩ := posOf_spec _ hpn n w.ty ((mem_wsProps ws _ _).mpr ⟨w, hw, hp, rfl⟩)
        rw [buildV1_spec binary attr n (wsProps ws) (posOf (wsProps ws) n) hi (by rw [hpe])
          (fun j hj => posOf_first _ _ j hj (by omega))]
        cases binary <;> simp [hpe, tyOf]
  · have hlen : 2 ≤ r.names.length := by omega
    have hty : ∀ t, tyOf binary r t = some t := by intro t; simp [tyOf, hone]
    cases hf : ws.find? (fun w => w.names == r.names) with
    | some w =>
      have hw := List.mem_of_find?_eq_some hf
      have hwn : w.names = r.names := by simpa using List.find?_some hf
      have := buildReader_all binary (wsProps ws) r hlen hrn hpn w.ty (r.names.map (posOf (wsProps ws))) (by simp)
        (fun k hk => by
          obtain ⟨hi, hpe⟩ := writer_positions ws hnd w hw r.names (by rw [hwn]; exact fun n h => h) k hk
          exact ⟨by simpa using hi, by simpa using hpe⟩)
      rw [this]
      simp [expectBuilt, expectNames, hone, hf, hty]
    | none =>
      by_cases hi : r.ignorableW = true
      · have h4 := hign hi
        have hg3 : r.names.getD 3 [] = r.names[3]'(by omega) := by
          simp [List.getD_eq_getElem?_getD, List.getElem?_eq_getElem (show 3 < r.names.length by omega)]
        cases hf3 : ws.find? (fun w => w.names == r.names.take 3) with
        | some w =>
          have hw := List.mem_of_find?_eq_some hf3
          have hwn : w.names = r.names.take 3 := by simpa using List.find?_some hf3
          have hsub : ∀ n ∈ r.names.take 3, n ∈ w.names := by rw [hwn]; exact fun n h => h
          have hpos : ∀ k (hk : k < 3), ∃ hi : posOf (wsProps ws) (r.names[k]'(by omega)) < (wsProps ws).length,
              (wsProps ws)[posOf (wsProps ws) (r.names[k]'(by omega))] = (r.names[k]'(by omega), w.ty) := by
            intro k hk
            obtain ⟨hi', hpe⟩ := writer_positions ws hnd w hw (r.names.take 3) hsub k (by simp [h4]; omega)
            simp only [List.getElem_take] at hi' hpe
            exact ⟨hi', hpe⟩
          by_cases hh : wHarmless ws w (r.names.getD 3 []) = true
          · have hex : expectNames ws r = some (r.names.take 3, w.ty) := by
              simp only [expectNames, hone, if_false, hf, hi, if_true, hf3, hh]
            simp only [expectBuilt, hex, Option.map_some, hty]
            simp only [wHarmless, Bool.or_eq_true, Bool.not_eq_true', List.contains_eq_mem, decide_eq_false_iff_not,
              List.any_eq_true, Bool.and_eq_true, decide_eq_true_eq, bne_iff_ne] at hh
            rcases hh with habs | ⟨w', hw', ha', hty'⟩
            · -- fourth name absent
              have := buildReader_fallback binary (wsProps ws) r h4 hi hrn hpn w.ty ((r.names.take 3).map (posOf (wsProps ws)))
                (by simp [h4])
                (fun k hk => by
                  obtain ⟨hi', hpe⟩ := hpos k hk
                  exact ⟨by simpa using hi', by simpa using hpe⟩)
                (by
                  intro p hp e
                  apply habs
                  rw [hg3, ← e]; exact props_name_mem ws p hp)
              rw [this]
            · -- fourth name later in the header, another type
              obtain ⟨A, hA⟩ := split_at_writer ws w hw
              have hsplit : wsProps ws = wsProps (A ++ [w]) ++ wsProps (writersAfter ws w) := by
                rw [← wsProps_append]
                have : A ++ [w] ++ writersAfter ws w = ws := by
                  simp only [List.append_assoc, List.singleton_append]; exact hA.symm
                rw [this]
              have hpos' := hpos
              have hpn' := hpn
              rw [hsplit] at hpn'
              simp only [hsplit] at hpos' ⊢
              have := buildReader_fallback_mixed binary (wsProps (A ++ [w])) (wsProps (writersAfter ws w)) r h4 hi hrn hpn'
                w.ty w'.ty hty'
                (fun k hk => (mem_wsProps _ _ _).mpr ⟨w, by simp, by
                  rw [hwn]
                  have : (r.names.take 3)[k]'(by simp [h4]; omega) = r.names[k]'(by omega) := by simp
                  rw [← this]; exact List.getElem_mem _, rfl⟩)
                ((mem_wsProps _ _ _).mpr ⟨w', hw', by rw [← hg3]; exact ha', rfl⟩)
                ((r.names.take 3).map (posOf (wsProps (A ++ [w]) ++ wsProps (writersAfter ws w)))) (by simp [h4])
                (fun k hk => by
                  obtain ⟨hi', hpe⟩ := hpos' k hk
                  exact ⟨by simpa using hi', by simpa using hpe⟩)
              rw [this]
          · have hex : expectNames ws r = none := by
              simp only [expectNames, hone, if_false, hf, hi, if_true, hf3, hh]; rfl
            obtain ⟨k, hk, hk3, habs⟩ := guard_absent ws r hone hg hex
            rw [buildReader_absent binary _ r hlen k hk hk3 habs]
            simp [expectBuilt, hex]
        | none =>
          have hex : expectNames ws r = none := by
            simp only [expectNames, hone, if_false, hf, hi, if_true, hf3]
          obtain ⟨k, hk, hk3, habs⟩ := guard_absent ws r hone hg hex
          rw [buildReader_absent binary _ r hlen k hk hk3 habs]
          simp [expectBuilt, hex]
      · have hex : expectNames ws r = none := by
          simp only [expectNames, hone, if_false, hf, hi]; rfl
        obtain ⟨k, hk, hk3, habs⟩ := guard_absent ws r hone hg hex
        rw [buildReader_absent binary _ r hlen k hk hk3 habs]
        simp [expectBuilt, hex]

/-! ## the whole reader list -/

theorem defaultReaders_shape : ∀ r ∈ defaultReaders,
    1 ≤ r.names.length ∧ r.names.Nodup ∧ (r.ignorableW = true → r.names.length = 4) := by decide

/-- the name of a scalar default reader is not a component of a vector default reader -/
theorem defaultReaders_scalar_apart : ∀ r ∈ defaultReaders, ∀ r' ∈ defaultReaders, r.names.length = 1 →
    r'.names.length ≠ 1 → ∀ n ∈ r.names, n ∉ r'.names := by decide

theorem claimGuard_parts (ws : List WProp) (hg : claimGuard ws = true) :
    (∀ r ∈ defaultReaders, readerGuard ws r = true) ∧ (expectKeys ws).Nodup ∧
    (∀ r ∈ defaultReaders, r.names.length = 1 → (expectNames ws r).isSome = true → r.attr ∉ wsNames ws) := by
  simp only [claimGuard, Bool.and_eq_true, List.all_eq_true, decide_eq_true_eq] at hg
  obtain ⟨⟨h1, h2⟩, h3⟩ := hg
  refine ⟨h1, h2, ?_⟩
  intro r hr hl hs hm
  have := h3 r hr
  simp [hl, hs, hm] at this

theorem filterMap_congr' {β γ : Type} (f g : β → Option γ) : ∀ (l : List β), (∀ x ∈ l, f x = g x) →
    l.filterMap f = l.filterMap g := by
  intro l
  induction l with
  | nil => intro _; rfl
  | cons x l ih =>
    intro h
    simp only [List.filterMap_cons, h x (by simp), ih (fun y hy => h y (by simp [hy]))]

/-- the default readers built on the written header are exactly the predicted ones, in reader order -/
theorem built_default (binary : Bool) (ws : List WProp) (hnd : (wsNames ws).Nodup) (hg : claimGuard ws = true) :
    defaultReaders.filterMap (buildReader binary (wsProps ws)) = defaultReaders.filterMap (expectBuilt binary ws) := by
  apply filterMap_congr'
  intro r hr
  obtain ⟨a, b, c⟩ := defaultReaders_shape r hr
  exact buildReader_expect binary ws hnd r a b c ((claimGuard_parts ws hg).1 r hr)

/-- what a prediction is made of: names of ONE writer, its type; all the reader's names or the first three -/
theorem expectNames_some (ws : List WProp) (r : RProp) (ns : List Bytes) (t : SType)
    (h : expectNames ws r = some (ns, t)) :
    ∃ w ∈ ws, w.ty = t ∧ (∀ n ∈ ns, n ∈ w.names) ∧ (ns = r.names ∨ (r.ignorableW = true ∧ ns = r.names.take 3)) := by
  simp only [expectNames] at h
  split at h
  · simp only [Option.map_eq_some_iff, Prod.mk.injEq] at h
    obtain ⟨w, hf, rfl, rfl⟩ := h
    have hp := List.find?_some hf
    simp only [List.all_eq_true, List.contains_eq_mem, decide_eq_true_eq] at hp
    exact ⟨w, List.mem_of_find?_eq_some hf, rfl, hp, .inl rfl⟩
  · split at h
    · rename_i w hf
      simp only [Option.some.injEq, Prod.mk.injEq] at h
      obtain ⟨rfl, rfl⟩ := h
      have hwn : w.names = r.names := by simpa using List.find?_some hf
      exact ⟨w, List.mem_of_find?_eq_some hf, rfl, by rw [hwn]; exact fun n h => h, .inl rfl⟩
    · split at h
      · rename_i hi
        split at h
        · rename_i w hf
          split at h
          · simp only [Option.some.injEq, Prod.mk.injEq] at h
            obtain ⟨rfl, rfl⟩ := h
            have hwn : w.names = r.names.take 3 := by simpa using List.find?_some hf
            exact ⟨w, List.mem_of_find?_eq_some hf, rfl, by rw [hwn]; exact fun n h => h, .inr ⟨hi, rfl⟩⟩
          · simp at h
        · simp at h
      · simp at h

/-- a reader that decodes, with the type of ONE writer, (some of) that writer's properties where they sit in the header;
the ASCII scalar reader carries no type and then sits on a property that is not `uchar` -/
def Good (binary : Bool) (ws : List WProp) (b : Built) : Prop :=
  ∃ w ∈ ws, (∀ n ∈ b.names, n ∈ w.names) ∧
    b.offs = (b.names.map (posOf (wsProps ws))).map (locOf binary (wsProps ws)) ∧
    (b.ty = some w.ty ∨ (binary = false ∧ b.ty = none ∧ w.ty ≠ .uchar))

theorem located_of_good (ws : List WProp) (hnd : (wsNames ws).Nodup) (b : Built) (h : Good true ws b) :
    LocatedNamed (headerProps ws) b (b.names.map (posOf (headerProps ws))) := by
  obtain ⟨w, hw, hsub, hoffs, hty⟩ := h
  have hty : b.ty = some w.ty := by rcases hty with h | ⟨h, _⟩; exact h; simp at h
  rw [← wsProps_eq]
  refine ⟨⟨⟨w.ty, hty, ?_⟩, ?_⟩, by simp, ?_⟩
  · intro i hi
    obtain ⟨n, hn, rfl⟩ := List.mem_map.mp hi
    obtain ⟨k, hk, rfl⟩ := List.getElem_of_mem hn
    obtain ⟨h1, h2⟩ := writer_positions ws hnd w hw b.names hsub k hk
    exact ⟨by simpa using h1, by simp [h2]⟩
  · rw [hoffs]
    simp [locOf_binary]
  · intro k hk hk'
    obtain ⟨h1, h2⟩ := writer_positions ws hnd w hw b.names hsub k hk'
    simp [List.getElem?_eq_getElem h1, h2]

/-- inside the ASCII guard, a `uchar` writer's names are claimed by a built vector reader -/
theorem uchar_claimed (binary : Bool) (ws : List WProp) (hA : asciiGuard ws = true) (w : WProp) (hw : w ∈ ws)
    (hu : w.ty = .uchar) :
    ∃ r ∈ defaultReaders, r.names.length ≠ 1 ∧ ∃ d, expectBuilt binary ws r = some d ∧ d.names = w.names := by
  simp only [asciiGuard, List.all_eq_true, Bool.or_eq_true, bne_iff_ne, List.any_eq_true, Bool.and_eq_true,
    decide_eq_true_eq, beq_iff_eq] at hA
  rcases hA w hw with h | ⟨r, hr, hone, hex⟩
  · exact absurd hu h
  · refine ⟨r, hr, hone, ?_⟩
    cases he : expectNames ws r with
    | none => simp [he] at hex
    | some p =>
      simp only [he, Option.map_some, Option.some.injEq] at hex
      exact ⟨_, by simp only [expectBuilt, he, Option.map_some]; rfl, hex⟩

theorem expectBuilt_good (binary : Bool) (ws : List WProp)
    (hA : binary = false → asciiGuard ws = true) (r : RProp) (hr : r ∈ defaultReaders) (b : Built)
    (h : expectBuilt binary ws r = some b) :
    Good binary ws b ∧ b.attr = r.attr ∧ (b.names = r.names ∨ (r.ignorableW = true ∧ b.names = r.names.take 3)) ∧
      (expectNames ws r).isSome = true := by
  simp only [expectBuilt, Option.map_eq_some_iff] at h
  obtain ⟨⟨ns, t⟩, hex, rfl⟩ := h
  obtain ⟨w, hw, rfl, hsub, hor⟩ := expectNames_some ws r ns _ hex
  refine ⟨⟨w, hw, hsub, rfl, ?_⟩, rfl, hor, by simp [hex]⟩
  by_cases hb : (binary || decide (r.names.length ≠ 1)) = true
  · left; simp only [tyOf, hb, if_true]
  · right
    simp only [Bool.or_eq_true, decide_eq_true_eq, not_or, Bool.not_eq_true, Decidable.not_not] at hb
    refine ⟨hb.1, by simp [tyOf, hb.1, hb.2], ?_⟩
    intro hu
    obtain ⟨r', hr', hone', d, hd, hdn⟩ := uchar_claimed binary ws (hA hb.1) w hw hu
    obtain ⟨s1, _, _⟩ := defaultReaders_shape r hr
    -- the scalar reader's name would be a component of the vector reader r'
    have hns : ns = r.names := by
      rcases hor with h | ⟨hi, _⟩
      · exact h
      · have := (defaultReaders_shape r hr).2.2 hi; omega
    have hn0 : r.names[0]'(by omega) ∈ w.names := hsub _ (by rw [hns]; exact List.getElem_mem _)
    simp only [expectBuilt, Option.map_eq_some_iff] at hd
    obtain ⟨⟨ns', t'⟩, hex', rfl⟩ := hd
    simp only at hdn
    obtain ⟨_, _, _, _, hor'⟩ := expectNames_some ws r' ns' _ hex'
    have : r.names[0]'(by omega) ∈ r'.names := by
      rw [← hdn] at hn0
      rcases hor' with h | ⟨_, h⟩
      · rw [← h]; exact hn0
      · rw [h] at hn0; exact List.mem_of_mem_take hn0
    exact defaultReaders_scalar_apart r hr r' hr' hb.2 hone' _ (List.getElem_mem _) this

/-- the scalar reader of a property no built default reader claims -/
theorem buildV1_good (binary : Bool) (ws : List WProp) (hnd : (wsNames ws).Nodup)
    (hA : binary = false → asciiGuard ws = true) (p : Bytes × SType) (hp : p ∈ wsProps ws) (b : Built)
    (h : buildV1 binary (wsProps ws) p.1 p.1 = some b)
    (hun : ∀ d ∈ defaultReaders.filterMap (expectBuilt binary ws), d.claims p.1 = false) :
    Good binary ws b ∧ b.attr = p.1 ∧ b.names = [p.1] := by
  obtain ⟨n, t⟩ := p
  obtain ⟨w, hw, hn, rfl⟩ := (mem_wsProps ws n t).mp hp
  obtain ⟨hi, hpe⟩ := posOf_spec _ (by rw [wsProps_names]; exact hnd) n w.ty hp
  rw [buildV1_spec binary n n (wsProps ws) (posOf (wsProps ws) n) hi (by rw [hpe])
    (fun j hj => posOf_first _ _ j hj (by omega))] at h
  simp only [Option.some.injEq] at h
  subst h
  refine ⟨⟨w, hw, by simpa using hn, by simp, ?_⟩, rfl, rfl⟩
  cases hb : binary with
  | true => left; simp [hpe]
  | false =>
    right
    refine ⟨rfl, by simp, ?_⟩
    intro hu
    obtain ⟨r', hr', _, d, hd, hdn⟩ := uchar_claimed false ws (hA hb) w hw hu
    have := hun d (List.mem_filterMap.mpr ⟨r', hr', by rw [hb]; exact hd⟩)
    simp [Built.claims, hdn, hn] at this

/-- an invariant of the unclaimed-scalar fold: what holds for the readers given and for every scalar reader added for a
property none of the GIVEN readers claims, holds for the whole list -/
theorem foldl_unclaimed_all (binary : Bool) (props : List (Bytes × SType)) (D : List Built) (P : Built → Prop) :
    ∀ (l : List (Bytes × SType)) (acc : List Built),
      (∀ p ∈ l, ∀ b, buildV1 binary props p.1 p.1 = some b → (∀ d ∈ D, d.claims p.1 = false) → P b) →
      (∀ d ∈ D, d ∈ acc) → (∀ b ∈ acc, P b) →
      ∀ b ∈ l.foldl (unclaimedStep binary props) acc, P b := by
  intro l
  induction l with
  | nil => intro acc _ _ h; exact h
  | cons p l ih =>
    intro acc hstep hsub hacc
    simp only [List.foldl_cons]
    have hstep' : ∀ q ∈ l, ∀ b, buildV1 binary props q.1 q.1 = some b → (∀ d ∈ D, d.claims q.1 = false) → P b :=
      fun q hq => hstep q (by simp [hq])
    simp only [unclaimedStep]
    split
    · exact ih acc hstep' hsub hacc
    · rename_i hany
      split
      · rename_i b' hb'
        apply ih _ hstep' (fun d hd => by simp [hsub d hd])
        intro b hb
        simp only [List.mem_append, List.mem_singleton] at hb
        rcases hb with hb | rfl
        · exact hacc b hb
        · refine hstep p (by simp) _ hb' ?_
          intro d hd
          simp only [List.any_eq_true, not_exists, not_and, Bool.not_eq_true] at hany
          exact hany d (hsub d hd)
      · exact ih acc hstep' hsub hacc

/-- keys stay distinct along the unclaimed-scalar fold -/
theorem foldl_unclaimed_keys (binary : Bool) (props : List (Bytes × SType)) (D : List Built)
    (hD : ∀ b ∈ D, ∀ p ∈ props, Built.key b ≠ (1, p.1)) :
    ∀ (l : List (Bytes × SType)) (acc : List Built), (∀ p ∈ l, p ∈ props) →
      (acc.map Built.key).Nodup → (∀ b ∈ acc, b ∈ D ∨ b.names = [b.attr]) →
      ((l.foldl (unclaimedStep binary props) acc).map Built.key).Nodup := by
  intro l
  induction l with
  | nil => intro acc _ h _; exact h
  | cons p l ih =>
    intro acc hl hnd hinv
    simp only [List.foldl_cons]
    have hl' : ∀ q ∈ l, q ∈ props := fun q hq => hl q (by simp [hq])
    simp only [unclaimedStep]
    split
    · exact ih acc hl' hnd hinv
    · rename_i hany
      split
      · rename_i b' hb'
        have hb'n : b'.names = [p.1] ∧ b'.attr = p.1 := by
          simp only [buildV1] at hb'
          by_cases hex : ∃ q ∈ props, q.1 = p.1
          · obtain ⟨b'', hb'', hn, ha⟩ := buildV1_go_found binary p.1 p.1 props 0 hex
            rw [hb''] at hb'; simp at hb'; subst hb'; exact ⟨hn, ha⟩
          · exact absurd ⟨p, hl p (by simp), rfl⟩ hex
        apply ih _ hl'
        · rw [List.map_append, List.nodup_append]
          refine ⟨hnd, by simp, ?_⟩
          intro k hk k' hk' e
          simp only [List.map_cons, List.map_nil, List.mem_singleton] at hk'
          subst hk'
          subst e
          obtain ⟨b, hb, hbk⟩ := List.mem_map.mp hk
          have hkey : Built.key b' = (1, p.1) := by simp [Built.key, hb'n.1, hb'n.2]
          rcases hinv b hb with hbD | hbs
          · exact hD b hbD p (hl p (by simp)) (by rw [hbk, hkey])
          · apply hany
            simp only [List.any_eq_true]
            refine ⟨b, hb, ?_⟩
            have : b.attr = p.1 := by
              have := congrArg Prod.snd (hbk.trans hkey)
              simpa [Built.key] using this
            simp [Built.claims, hbs, this]
        · intro b hb
          simp only [List.mem_append, List.mem_singleton] at hb
          rcases hb with hb | rfl
          · exact hinv b hb
          · exact .inr (by rw [hb'n.1, hb'n.2])
      · exact ih acc hl' hnd hinv

theorem expect_reserved (binary : Bool) (ws : List WProp) (r : RProp) (hr : r ∈ defaultReaders) (b : Built)
    (h : expectBuilt binary ws r = some b) : ∀ n ∈ b.names, n ∈ reservedNames := by
  simp only [expectBuilt, Option.map_eq_some_iff] at h
  obtain ⟨⟨ns, t⟩, hex, rfl⟩ := h
  obtain ⟨_, _, _, _, hor⟩ := expectNames_some ws r ns _ hex
  intro n hn
  have : n ∈ r.names := by
    rcases hor with h | ⟨_, h⟩
    · rw [← h]; exact hn
    · simp only [h] at hn; exact List.mem_of_mem_take hn
  exact List.mem_flatten.mpr ⟨r.names, List.mem_map.mpr ⟨r, hr, rfl⟩, this⟩

/-- a writer whose names a default reader recognises is predicted to be claimed, under exactly its names -/
theorem expect_of_comesBack (ws : List WProp) (hnd : (wsNames ws).Nodup) (hg : claimGuard ws = true) (w : WProp)
    (hw : w ∈ ws) (r : RProp) (hr : r ∈ defaultReaders)
    (hnames : r.names = w.names ∨ (r.ignorableW = true ∧ r.names.take 3 = w.names)) :
    ∃ t, expectNames ws r = some (w.names, t) := by
  obtain ⟨s1, s2, s3⟩ := defaultReaders_shape r hr
  rcases hnames with hn | ⟨hign, hn⟩
  · by_cases hone : r.names.length = 1
    · have : (ws.find? (fun w' => r.names.all (fun n => w'.names.contains n))).isSome = true := by
        rw [List.find?_isSome]; exact ⟨w, hw, by simp [hn]⟩
      obtain ⟨w', hw'⟩ := Option.isSome_iff_exists.mp this
      exact ⟨w'.ty, by rw [← hn]; simp only [expectNames, hone, if_true, hw', Option.map_some]⟩
    · have : (ws.find? (fun w' => w'.names == r.names)).isSome = true := by
        rw [List.find?_isSome]; exact ⟨w, hw, by simp [hn]⟩
      obtain ⟨w', hw'⟩ := Option.isSome_iff_exists.mp this
      exact ⟨w'.ty, by rw [← hn]; simp only [expectNames, hone, if_false, hw']⟩
  · have h4 := s3 hign
    have hone : r.names.length ≠ 1 := by omega
    have hmem : ∀ k (hk : k < 3), r.names[k]'(by omega) ∈ w.names := by
      intro k hk
      rw [← hn]
      have : (r.names.take 3)[k]'(by simp [h4]; omega) = r.names[k]'(by omega) := by simp
      rw [← this]; exact List.getElem_mem _
    have hf : ws.find? (fun w' => w'.names == r.names) = none := by
      cases hf : ws.find? (fun w' => w'.names == r.names) with
      | none => rfl
      | some w' =>
        exfalso
        have hw' := List.mem_of_find?_eq_some hf
        have hwn : w'.names = r.names := by simpa using List.find?_some hf
        have := same_writer ws hnd w w' hw hw' (r.names[0]'(by omega)) (hmem 0 (by omega))
          (by rw [hwn]; exact List.getElem_mem _)
        subst this
        have h3 : w.names.length = 3 := by rw [← hn]; simp [h4]
        rw [hwn] at h3; omega
    cases hex : expectNames ws r with
    | none =>
      exfalso
      obtain ⟨k, hk, hk3, habs⟩ := guard_absent ws r hone ((claimGuard_parts ws hg).1 r hr) hex
      exact habs (r.names[k], w.ty) ((mem_wsProps ws _ _).mpr ⟨w, hw, hmem k (hk3 hign), rfl⟩) rfl
    | some p =>
      obtain ⟨ns, t⟩ := p
      obtain ⟨_, _, _, _, hor⟩ := expectNames_some ws r ns t hex
      rcases hor with h | ⟨_, h⟩
      · exfalso
        subst h
        simp only [expectNames, hone, if_false, hf, hign, if_true] at hex
        split at hex
        · split at hex
          · simp only [Option.some.injEq, Prod.mk.injEq] at hex
            have := congrArg List.length hex.1
            simp [h4] at this
          · simp at hex
        · simp at hex
      · exact ⟨t, by rw [← hn, ← h]⟩

/-- THE CLAIM STAGE on the header of `ws`, inside the guard (binary offsets or ASCII columns): every built reader is
`Good`, no two share a key, every writer the reader recognises has a reader with its attribute and exactly its names -/
theorem claim_of_guard_ws (binary : Bool) (ws : List WProp) (hnd : (wsNames ws).Nodup) (hg : claimGuard ws = true)
    (hA : binary = false → asciiGuard ws = true) :
    (∀ b ∈ buildAll binary (headerProps ws) defaultReaders true, Good binary ws b) ∧
    ((buildAll binary (headerProps ws) defaultReaders true).map Built.key).Nodup ∧
    (∀ w ∈ ws, comesBack w = true →
      ∃ b ∈ buildAll binary (headerProps ws) defaultReaders true, b.attr = w.attr ∧ b.names = w.names) := by
  have hpn : ((wsProps ws).map (·.1)).Nodup := by rw [wsProps_names]; exact hnd
  have hL : buildAll binary (headerProps ws) defaultReaders true
      = (wsProps ws).foldl (unclaimedStep binary (wsProps ws)) (defaultReaders.filterMap (expectBuilt binary ws)) := by
    simp only [buildAll, if_true, ← wsProps_eq, built_default binary ws hnd hg, addUnclaimed_eq]
  rw [hL]
  have hDgood : ∀ b ∈ defaultReaders.filterMap (expectBuilt binary ws),
      ∃ r ∈ defaultReaders, expectBuilt binary ws r = some b := by
    intro b hb
    obtain ⟨r, hr, hrb⟩ := List.mem_filterMap.mp hb
    exact ⟨r, hr, hrb⟩
  refine ⟨?_, ?_, ?_⟩
  · intro b hb
    refine foldl_unclaimed_all binary (wsProps ws) (defaultReaders.filterMap (expectBuilt binary ws))
      (Good binary ws) _ _ ?_ (fun d hd => hd) ?_ b hb
    · intro p hp b' hb' hun
      exact (buildV1_good binary ws hnd hA p hp b' hb' hun).1
    · intro b' hb'
      obtain ⟨r, hr, hrb⟩ := hDgood b' hb'
      exact (expectBuilt_good binary ws hA r hr b' hrb).1
  · apply foldl_unclaimed_keys binary (wsProps ws) (defaultReaders.filterMap (expectBuilt binary ws))
    · intro b hb p hp hkey
      obtain ⟨r, hr, hrb⟩ := hDgood b hb
      obtain ⟨_, hattr, hor, hex⟩ := expectBuilt_good binary ws hA r hr b hrb
      obtain ⟨_, _, s3⟩ := defaultReaders_shape r hr
      simp only [Built.key, Prod.mk.injEq] at hkey
      have hone : r.names.length = 1 := by
        rcases hor with h | ⟨hi, h⟩
        · rw [← h]; exact hkey.1
        · have := s3 hi
          rw [h] at hkey; simp [this] at hkey
      refine (claimGuard_parts ws hg).2.2 r hr hone hex ?_
      rw [← hattr, hkey.2]; exact props_name_mem ws p hp
    · exact fun p hp => hp
    · have : (defaultReaders.filterMap (expectBuilt binary ws)).map Built.key = expectKeys ws := by
        simp only [List.map_filterMap, expectKeys]
        apply filterMap_congr'
        intro r _
        simp [expectBuilt, Option.map_map, Built.key, Function.comp_def]
      rw [this]; exact (claimGuard_parts ws hg).2.1
    · exact fun b hb => .inl hb
  · intro w hw hcb
    simp only [comesBack, Bool.or_eq_true, List.any_eq_true, Bool.and_eq_true, decide_eq_true_eq,
      Bool.not_eq_true'] at hcb
    rcases hcb with ⟨r, hr, hattr, hnames⟩ | ⟨hself, hres⟩
    · obtain ⟨t, hex⟩ := expect_of_comesBack ws hnd hg w hw r hr hnames
      refine ⟨⟨r.attr, w.names, (w.names.map (posOf (wsProps ws))).map (locOf binary (wsProps ws)), tyOf binary r t⟩,
        ?_, hattr, rfl⟩
      apply foldl_unclaimed_mono
      exact List.mem_filterMap.mpr ⟨r, hr, by simp [expectBuilt, hex]⟩
    · have hmem : (w.attr, w.ty) ∈ wsProps ws := (mem_wsProps ws _ _).mpr ⟨w, hw, by simp [hself], rfl⟩
      obtain ⟨hi, hpe⟩ := posOf_spec _ hpn _ _ hmem
      have hadd := addUnclaimed_adds binary (wsProps ws) (defaultReaders.filterMap (expectBuilt binary ws)) hpn _ hi
        (by
          intro b hb
          obtain ⟨r, hr, hrb⟩ := hDgood b hb
          have hres' := expect_reserved binary ws r hr b hrb
          rw [hpe]
          simp only [Built.claims, List.contains_eq_mem, decide_eq_false_iff_not]
          intro hc
          have := hres' _ hc
          simp [List.contains_eq_mem, this] at hres)
      rw [addUnclaimed_eq] at hadd
      exact ⟨_, hadd, by simp [hpe], by simp [hpe, hself]⟩

/-- from membership and distinct keys to the indexed form `ClaimOK` / `ClaimOKA` ask for -/
theorem demanded_of_keys (L : List Built) (f : Built → List Nat) (hk : (L.map Built.key).Nodup) (b : Built) (hb : b ∈ L) :
    ∃ j, ∃ hj : j < (L.map (fun b => (b, f b))).length, ((L.map (fun b => (b, f b)))[j]).1 = b ∧
      ∀ j' (hj' : j' < (L.map (fun b => (b, f b))).length), j < j' →
        Built.key ((L.map (fun b => (b, f b)))[j']).1 ≠ Built.key ((L.map (fun b => (b, f b)))[j]).1 := by
  obtain ⟨j, hj, hje⟩ := List.getElem_of_mem hb
  refine ⟨j, by simpa using hj, by simp [hje], ?_⟩
  intro j' hj' hlt
  have hj'' : j' < L.length := by simpa using hj'
  have := (List.pairwise_iff_getElem.mp hk) j j' (by simpa using hj) (by simpa using hj'') hlt
  simp only [List.getElem_map] at this ⊢
  exact fun e => this e.symm

/-- THE CLAIM STAGE FROM THE HEADER-LEVEL GUARD (binary): for property names that are pairwise distinct (what a successful
`MeshWriter.Write` guarantees) and writers inside `claimGuard`, the readers `MeshReader.Read` builds on the written
header are located where their names are, and every writer the reader recognises has its reader, the only one with that
key — `ClaimOK`, the hypothesis of the composed round-trip theorems, with the reader list `buildAll` itself as witness -/
theorem claimOK_of_guard {α : Type} (cfg : WriterCfg) (m : MeshVal α)
    (hnd : (wsNames (selectWriters cfg m)).Nodup) (hg : claimGuard (selectWriters cfg m) = true) :
    ClaimOK cfg m ((buildAll true (headerProps (selectWriters cfg m)) defaultReaders true).map
      (fun b => (b, b.names.map (posOf (headerProps (selectWriters cfg m)))))) := by
  obtain ⟨h1, h2, h3⟩ := claim_of_guard_ws true (selectWriters cfg m) hnd hg (by simp)
  refine ⟨by simp [Function.comp_def], ?_, ?_⟩
  · intro p hp
    obtain ⟨b, hb, rfl⟩ := List.mem_map.mp hp
    exact located_of_good _ hnd b (h1 b hb)
  · intro w hw hcb
    obtain ⟨b, hb, ha, hn⟩ := h3 w hw hcb
    obtain ⟨j, hj, hje, hlast⟩ := demanded_of_keys _ (fun b => b.names.map (posOf (headerProps (selectWriters cfg m)))) h2 b hb
    exact ⟨j, hj, by rw [hje]; exact ha, by rw [hje]; exact hn, hlast⟩

/-! ## the reader list, exactly: predicted default readers, then the unclaimed scalars in header order -/

/-- the scalar reader `addUnclaimed` builds for property `p` of the header -/
def v1Of (binary : Bool) (props : List (Bytes × SType)) (p : Bytes × SType) : Built :=
  ⟨p.1, [p.1], [locOf binary props (posOf props p.1)], if binary then some p.2 else none⟩

theorem buildV1_mem (binary : Bool) (props : List (Bytes × SType)) (hnd : (props.map (·.1)).Nodup)
    (p : Bytes × SType) (hp : p ∈ props) : buildV1 binary props p.1 p.1 = some (v1Of binary props p) := by
  obtain ⟨n, t⟩ := p
  obtain ⟨hi, hpe⟩ := posOf_spec props hnd n t hp
  rw [buildV1_spec binary n n props (posOf props n) hi (by rw [hpe]) (fun j hj => posOf_first _ _ j hj (by omega))]
  simp [v1Of, hpe]

theorem foldl_unclaimed_exact (binary : Bool) (props : List (Bytes × SType)) (hnd : (props.map (·.1)).Nodup) :
    ∀ (l : List (Bytes × SType)) (acc : List Built), (∀ p ∈ l, p ∈ props) → (l.map (·.1)).Nodup →
      l.foldl (unclaimedStep binary props) acc
        = acc ++ (l.filter (fun p => !acc.any (fun b => b.claims p.1))).map (v1Of binary props) := by
  intro l
  induction l with
  | nil => intro acc _ _; simp
  | cons p l ih =>
    intro acc hl hn
    have hc := List.nodup_cons.mp (by simpa using hn : (p.1 :: l.map (·.1)).Nodup)
    have hl' : ∀ q ∈ l, q ∈ props := fun q hq => hl q (by simp [hq])
    simp only [List.foldl_cons, unclaimedStep]
    by_cases hany : acc.any (fun b => b.claims p.1) = true
    · simp only [hany, if_true]
      rw [ih acc hl' hc.2, List.filter_cons_of_neg (by simp [hany])]
    · have hany' : acc.any (fun b => b.claims p.1) = false := by simpa using hany
      simp only [hany', Bool.false_eq_true, if_false, buildV1_mem binary props hnd p (hl p (by simp))]
      rw [ih _ hl' hc.2, List.filter_cons_of_pos (by simp [hany'])]
      have hfc : l.filter (fun q => !(acc ++ [v1Of binary props p]).any (fun b => b.claims q.1))
          = l.filter (fun q => !acc.any (fun b => b.claims q.1)) := by
        apply List.filter_congr
        intro q hq
        have hne : q.1 ≠ p.1 := fun e => hc.1 (e ▸ List.mem_map_of_mem hq)
        simp [List.any_append, v1Of, Built.claims, hne]
      rw [hfc]
      simp

theorem any_filterMap' {β γ : Type} (f : β → Option γ) (q : γ → Bool) : ∀ (l : List β),
    (l.filterMap f).any q = l.any (fun x => match f x with | some y => q y | none => false) := by
  intro l
  induction l with
  | nil => rfl
  | cons x l ih =>
    cases hf : f x with
    | none => simp [hf, ih]
    | some y => simp [hf, ih]

/-- THE WHOLE CLAIM STAGE, EXACTLY: inside the guard, the readers `MeshReader.Read` builds on the header of the writers
`ws` are — as (attribute, names, decoding type) — exactly `claimSpec ws`: the predicted default readers in reader order,
then one scalar reader per property none of them claims, in header order.  This is the very comparison the oracle
`c04.holds.claim_ok` makes on the header of every file the real writer emits (`claimAgrees`). -/
theorem claimSpec_exact (ws : List WProp) (hnd : (wsNames ws).Nodup) (hg : claimGuard ws = true) :
    (buildAll true (wsProps ws) defaultReaders true).map (fun b => (b.attr, b.names, b.ty))
      = (claimSpec ws).map (fun x => (x.1, x.2.1, some x.2.2)) := by
  have hpn : ((wsProps ws).map (·.1)).Nodup := by rw [wsProps_names]; exact hnd
  simp only [buildAll, if_true, built_default true ws hnd hg, addUnclaimed_eq]
  rw [foldl_unclaimed_exact true (wsProps ws) hpn _ _ (fun p hp => hp) hpn]
  simp only [claimSpec, List.map_append, List.map_map]
  congr 1
  · simp only [List.map_filterMap]
    apply filterMap_congr'
    intro r _
    cases he : expectNames ws r <;> simp [expectBuilt, he, tyOf]
  · have hf : ∀ p ∈ wsProps ws,
        (!(defaultReaders.filterMap (expectBuilt true ws)).any (fun b => b.claims p.1))
        = (!(defaultReaders.filterMap (fun r => (expectNames ws r).map (fun q => (r.attr, q.1, q.2)))).any
            (fun x => x.2.1.contains p.1)) := by
      intro p _
      rw [any_filterMap', any_filterMap']
      congr 2
      funext r
      cases he : expectNames ws r <;> simp [expectBuilt, he, Built.claims]
    rw [List.filter_congr hf]
    apply List.map_congr_left
    intro p _
    simp [v1Of]

/-- … hence the oracle predicate is a theorem on the header the MODEL writer produces -/
theorem claimAgrees_of_guard (ws : List WProp) (hnd : (wsNames ws).Nodup) : claimAgrees ws (wsProps ws) = true := by
  simp only [claimAgrees, beq_self_eq_true, Bool.true_and, Bool.or_eq_true, Bool.not_eq_true', beq_iff_eq]
  by_cases hg : claimGuard ws = true
  · exact .inr (claimSpec_exact ws hnd hg)
  · exact .inl (by simpa using hg)

end PlyClaim
end PolyVerif
