/-
  C09 — the closed polyhedron of one cell: the table's triangles plus CAP triangles on the six cell faces
  (the inside part of each face, fanned from a face corner), and its signed volume at the corners of the
  parameter cube.  Core Lean only; the two `decide +kernel` facts are cached here, restated in Props/C09.lean.

  Vertex ids of the cell polyhedron: `0 … 11` = the vertex on cube edge `e`, `12 + i` = cube corner `i`.
-/
import PolyVerif.Lemmas.MarchBits

namespace PolyVerif
namespace C09
open PolyVerif.March PolyVerif.Gen.March

/-- cube edge joining two cube corners (12 = none) -/
def edgeBetween (c1 c2 : Nat) : Nat :=
  ((List.range 12).find? fun e => (cA e == c1 && cB e == c2) || (cA e == c2 && cB e == c1)).getD 12

/-- the four corners of face `(a, s)`, counter-clockwise seen from `+e_a` -/
def faceCycle (a : Nat) (s : Int) : List Pt :=
  if a = 0 then [(s, 0, 0), (s, 1, 0), (s, 1, 1), (s, 0, 1)]
  else if a = 1 then [(0, s, 0), (0, s, 1), (1, s, 1), (1, s, 0)]
  else [(0, 0, s), (1, 0, s), (1, 1, s), (0, 1, s)]

/-- … seen from OUTSIDE the cell: the high face as is, the low face reversed (same first corner) -/
def outerCycle (a : Nat) (s : Int) : List Pt :=
  match faceCycle a s with
  | [c0, c1, c2, c3] => if s = 1 then [c0, c1, c2, c3] else [c0, c3, c2, c1]
  | l => l

/-- the part of the face boundary that bounds the inside region, along one directed cube edge `p → q` -/
def edgePiece (bits : List Bool) (p q : Pt) : List (Nat × Nat) :=
  let ci := cornerAt p; let cj := cornerAt q
  let bi := bits.getD ci false; let bj := bits.getD cj false
  if bi && bj then [(12 + ci, 12 + cj)]
  else if bi then [(12 + ci, edgeBetween ci cj)]
  else if bj then [(edgeBetween ci cj, 12 + cj)]
  else []

/-- directed segments the case draws in face `(a, s)`, in cube-edge indices -/
def faceSegsIdx (c : Nat) (a : Nat) (s : Int) : List (Nat × Nat) :=
  (caseSegs c).filter fun e => onFace a s (edgeRel e.1) && onFace a s (edgeRel e.2)

/-- boundary chain of the cap on face `(a, s)`: the pieces of the four face edges next to inside corners,
    and the REVERSES of the segments the case draws in that face -/
def capChain (bits : List Bool) (a : Nat) (s : Int) : List (Nat × Nat) :=
  (match outerCycle a s with
   | [c0, c1, c2, c3] => edgePiece bits c0 c1 ++ edgePiece bits c1 c2 ++ edgePiece bits c2 c3 ++ edgePiece bits c3 c0
   | _ => [])
  ++ (faceSegsIdx (caseIndex bits) a s).map swapE

/-- cap triangles of face `(a, s)`: fan of the chain from the first corner of the face -/
def capTrisFace (bits : List Bool) (a : Nat) (s : Int) : List (Nat × Nat × Nat) :=
  let apex := 12 + cornerAt ((outerCycle a s).getD 0 (0, 0, 0))
  (capChain bits a s).filterMap fun e => if e.1 != apex && e.2 != apex then some (apex, e.1, e.2) else none

def capTris (bits : List Bool) : List (Nat × Nat × Nat) :=
  capTrisFace bits 0 0 ++ capTrisFace bits 0 1 ++ capTrisFace bits 1 0 ++ capTrisFace bits 1 1
    ++ capTrisFace bits 2 0 ++ capTrisFace bits 2 1

/-- the part of the cell polyhedron that can have volume against the cell's LOW corner: the table's triangles and the caps of
    the three HIGH faces (the caps of the three low faces lie in the coordinate planes through that corner) -/
def solidTris (bits : List Bool) : List (Nat × Nat × Nat) :=
  caseTris (caseIndex bits) ++ (capTrisFace bits 0 1 ++ capTrisFace bits 1 1 ++ capTrisFace bits 2 1)

/-- the closed polyhedron of the cell: table triangles, then caps -/
def polyTris (bits : List Bool) : List (Nat × Nat × Nat) := caseTris (caseIndex bits) ++ capTris bits

/-- cube edges whose two corners have different bits (the edges that carry a vertex) -/
def crossEdges (bits : List Bool) : List Nat :=
  (List.range 12).filter fun e => bits.getD (cA e) false != bits.getD (cB e) false

/-! ### fast corner evaluation: positions as 3-bit codes `x + 2y + 4z`, determinants from packed tables -/

def ptCode (p : Pt) : Nat := p.1.toNat + 2 * p.2.1.toNat + 4 * p.2.2.toNat
def codePt (c : Nat) : Pt := (Int.ofNat (c % 2), Int.ofNat (c / 2 % 2), Int.ofNat (c / 4 % 2))

/-- code of the low end of cube edge `e`, the code increment of a step along its axis, corner codes (closed tables) -/
def edgeLoCode : List Nat := (List.range 12).map fun e => ptCode (edgeRel e).1
def edgeStepCode : List Nat := (List.range 12).map fun e => 2 ^ (edgeRel e).2
def cornerCode : List Nat := (List.range 8).map fun i => ptCode (cornerOff i)

/-- code of the position of polyhedron vertex `id`; `hi` = the edge vertex sits at the high end of its edge -/
def vposCk (hi : Bool) (id : Nat) : Nat :=
  if id < 12 then edgeLoCode.getD id 0 + (if hi then edgeStepCode.getD id 0 else 0) else cornerCode.getD (id - 12) 0

/-- the same as a lattice point -/
def vposIk (hi : Bool) (id : Nat) : Pt :=
  if id < 12 then
    let k : Int := if hi then 1 else 0
    let l := edgeRel id
    let u := unit l.2
    (l.1.1 + k * u.1, l.1.2.1 + k * u.2.1, l.1.2.2 + k * u.2.2)
  else cornerOff (id - 12)

/-- position of vertex `id` at the corner of the parameter cube where exactly the edge vertices in `M` are at the high end -/
def vposI (M : List Nat) (id : Nat) : Pt := vposIk (M.contains id) id

def det3I (a b c : Pt) : Int :=
  a.1 * (b.2.1 * c.2.2 - b.2.2 * c.2.1) - a.2.1 * (b.1 * c.2.2 - b.2.2 * c.1) + a.2.2 * (b.1 * c.2.1 - b.2.1 * c.1)

/-- positive / negative part of `det` of three 0/1 vectors given by their codes -/
def detPosOf (a b c : Nat) : Nat :=
  let x (p : Nat) := p % 2; let y (p : Nat) := p / 2 % 2; let z (p : Nat) := p / 4 % 2
  x a * y b * z c + y a * z b * x c + z a * x b * y c
def detNegOf (a b c : Nat) : Nat :=
  let x (p : Nat) := p % 2; let y (p : Nat) := p / 2 % 2; let z (p : Nat) := p / 4 % 2
  x a * z b * y c + y a * x b * z c + z a * y b * x c

/-- the two 512-entry tables packed into one natural number each, 2 bits per entry -/
def detPosPacked : Nat := (List.range 512).foldr (fun i acc => acc * 4 + detPosOf (i / 64) (i / 8 % 8) (i % 8)) 0
def detNegPacked : Nat := (List.range 512).foldr (fun i acc => acc * 4 + detNegOf (i / 64) (i / 8 % 8) (i % 8)) 0
def detPosC (a b c : Nat) : Nat := (detPosPacked >>> (2 * (a * 64 + b * 8 + c))) % 4
def detNegC (a b c : Nat) : Nat := (detNegPacked >>> (2 * (a * 64 + b * 8 + c))) % 4

def sumN : List Nat → Nat
  | [] => 0
  | x :: r => x + sumN r

/-- `Σ (3 + det⁺ − det⁻)` over a triangle list at the corner `M` of the parameter cube (one pass, naturals only):
    six times the signed volume against the cell's low corner is `volShift − 3·length` -/
def volShift (T : List (Nat × Nat × Nat)) (M : List Nat) : Nat :=
  sumN (T.map fun t =>
    let a := vposCk (M.contains t.1) t.1; let b := vposCk (M.contains t.2.1) t.2.1; let c := vposCk (M.contains t.2.2) t.2.2
    3 + detPosC a b c - detNegC a b c)

/-- the specification the fast evaluation stands for: Σ det over the triangle list, vertices as lattice points -/
def sumI : List Int → Int
  | [] => 0
  | x :: r => x + sumI r
def vol6I (T : List (Nat × Nat × Nat)) (M : List Nat) : Int :=
  sumI (T.map fun t => det3I (vposI M t.1) (vposI M t.2.1) (vposI M t.2.2))

/-- all corners of the parameter cube over the edges `E`, as sets of edges at their high end -/
def cornerSets : List Nat → List Nat → List (List Nat)
  | [], L => [L]
  | e :: r, L => cornerSets r L ++ cornerSets r (e :: L)

/-! ### fast closedness check: directed edges of the cell polyhedron as codes `i·20 + j` -/

def revCode (c : Nat) : Nat := (c % 20) * 20 + c / 20
def balancedCodes (L : List Nat) : Bool := L.all fun c => L.count c == L.count (revCode c)
def polyEdgeCodes (bits : List Bool) : List Nat :=
  (polyTris bits).flatMap fun t => [t.1 * 20 + t.2.1, t.2.1 * 20 + t.2.2, t.2.2 * 20 + t.1]

namespace Tab

set_option maxRecDepth 100000 in
/-- every triangle of the cell polyhedron has three different corners (ids < 20) and every edge vertex it uses lies on a
    sign-changing cube edge — for all 256 sign patterns -/
theorem table_poly_wellformed : ∀ b0 b1 b2 b3 b4 b5 b6 b7 : Bool,
    (polyTris (bits8 b0 b1 b2 b3 b4 b5 b6 b7)).all (fun t =>
        t.1 != t.2.1 && t.1 != t.2.2 && t.2.1 != t.2.2 && t.1 < 20 && t.2.1 < 20 && t.2.2 < 20 &&
        [t.1, t.2.1, t.2.2].all fun i => decide (12 ≤ i) || (crossEdges (bits8 b0 b1 b2 b3 b4 b5 b6 b7)).contains i) = true := by
  decide +kernel

/-- the packed tables and the position codes are what they stand for -/
theorem table_det_codes : (List.range 512).all (fun i =>
      decide ((Int.ofNat (detPosC (i / 64) (i / 8 % 8) (i % 8)) - Int.ofNat (detNegC (i / 64) (i / 8 % 8) (i % 8)))
        = det3I (codePt (i / 64)) (codePt (i / 8 % 8)) (codePt (i % 8)))) = true := by decide +kernel

theorem table_pos_codes : (List.range 20).all (fun id =>
      decide (vposCk true id < 8 ∧ vposCk false id < 8 ∧
        codePt (vposCk true id) = vposIk true id ∧ codePt (vposCk false id) = vposIk false id)) = true := by decide +kernel

end Tab
end C09
end PolyVerif
