/-
  C18 — ONE UMBRELLA PER VERTEX, continued.

  (A) the capped cylinder, for ALL side counts `S ≥ 3`: the link of every point of the logical mesh `cylL S`
      (top centre, bottom centre, top rim, bottom rim) is exhibited as one duplicate-free cycle (`UmbrellaCycle`), and
      carried to the form the property uses (the raw triangle list mapped to logical points, i.e. "modulo the merge").
      The unwelded sphere mapped to its source vertices is the welded sphere, so it inherits `uvSphere_umbrella`.
  (B) soundness of the executable checker `umbrellaB` / `Umbrella` (Model/SolidsTopo.lean): whenever it accepts, the walk
      it computed is a witness of `UmbrellaCycle`.
-/
import PolyVerif.Lemmas.SolidsUmbrella
import PolyVerif.Model.SolidsTopo
namespace PolyVerif.Solids
open List
set_option linter.unusedSimpArgs false
set_option linter.unusedVariables false

/-- try the disjuncts of the goal one after the other, each with `omega` -/
local macro "omega_disj" : tactic => `(tactic| first
  | (refine Or.inl ?_; omega)
  | (refine Or.inr (Or.inl ?_); omega)
  | (refine Or.inr (Or.inr (Or.inl ?_)); omega)
  | (refine Or.inr (Or.inr (Or.inr (Or.inl ?_))); omega)
  | (refine Or.inr (Or.inr (Or.inr (Or.inr (Or.inl ?_)))); omega)
  | (refine Or.inr (Or.inr (Or.inr (Or.inr (Or.inr ?_)))); omega)
  | (refine Or.inr (Or.inr (Or.inr (Or.inr ?_))); omega)
  | (refine Or.inr (Or.inr (Or.inr ?_)); omega))

/-- close an equation between explicit logical triangles -/
local macro "tri_eq" : tactic => `(tactic| (simp only [Prod.mk.injEq, true_and, and_true]; omega))

/-- close the `Nodup` goal of an explicit cycle of logical points -/
local macro "cyc_nodup" : tactic => `(tactic| (
  simp only [List.nodup_cons, List.mem_cons, List.not_mem_nil, Prod.mk.injEq, not_or, or_false, List.nodup_nil,
    not_false_eq_true, and_true]
  omega))

/-! ### (A) capped cylinder -/

/-- the triangles of the logical capped cylinder: side strip (two per column), top cap, bottom cap -/
theorem mem_cylL {S : Nat} {t : LP × LP × LP} : t ∈ cylL S ↔
    (∃ i, i < S ∧ (t = ((2, i), (1, i), (1, (i + 1) % S)) ∨ t = ((2, i), (1, (i + 1) % S), (2, (i + 1) % S)))) ∨
    (∃ i, i < S ∧ t = ((1, i), (0, 0), (1, (i + 1) % S))) ∨
    (∃ m, m < S ∧ t = ((2, (m + 1) % S), (3, 0), (2, m))) := by
  simp only [cylL, List.mem_append, List.mem_flatMap, List.mem_map, List.mem_range, List.mem_cons, List.not_mem_nil,
    or_false, or_assoc]
  refine or_congr Iff.rfl (or_congr ?_ ?_)
  · constructor
    · rintro ⟨i, hi, rfl⟩; exact ⟨i, hi, rfl⟩
    · rintro ⟨i, hi, rfl⟩; exact ⟨i, hi, rfl⟩
  · constructor
    · rintro ⟨k, hk, rfl⟩; exact ⟨S - 1 - k, by omega, rfl⟩
    · rintro ⟨m, hm, rfl⟩
      refine ⟨S - 1 - m, by omega, ?_⟩
      rw [show S - 1 - (S - 1 - m) = m by omega]

/-- the points of the logical capped cylinder -/
def CylValidP (S : Nat) (p : LP) : Prop :=
  p = (0, 0) ∨ p = (3, 0) ∨ (∃ c, c < S ∧ p = (1, c)) ∨ (∃ c, c < S ∧ p = (2, c))

/-- link of a top-rim point: next rim point, the bottom-rim point below, the previous bottom-rim point, the previous rim
    point, the top centre -/
theorem cylL_link_toprim {S c : Nat} (hS : 3 ≤ S) (hc : c < S) (x y : LP) :
    LinkEdge (cylL S) (1, c) x y ↔
      (x, y) ∈ cyclicPairs [((1, (c + 1) % S) : LP), (2, c), (2, (c + S - 1) % S), (1, (c + S - 1) % S), (0, 0)] := by
  obtain ⟨x1, x2⟩ := x; obtain ⟨y1, y2⟩ := y
  rw [cyclicPairs5]
  simp only [List.mem_cons, List.not_mem_nil, or_false, Prod.mk.injEq]
  constructor
  · intro h
    simp only [LinkEdge, mem_cylL, Prod.mk.injEq] at h
    rcases h with (⟨i, hi, h | h⟩ | ⟨i, hi, h⟩ | ⟨i, hi, h⟩) | (⟨i, hi, h | h⟩ | ⟨i, hi, h⟩ | ⟨i, hi, h⟩) |
      (⟨i, hi, h | h⟩ | ⟨i, hi, h⟩ | ⟨i, hi, h⟩)
    all_goals try (exfalso; omega)
    all_goals
      have hi' := nx_spec hi
      have hn := nx_spec hc
      obtain ⟨hp, hnp⟩ := pd_spec hc
      have hpn := nx_spec hp
      omega_disj
  · have hn := nx_spec hc
    obtain ⟨hp, hnp⟩ := pd_spec hc
    have hpn := nx_spec hp
    rintro (h | h | h | h | h)
    · refine Or.inr (Or.inl (mem_cylL.2 (Or.inl ⟨c, hc, Or.inl ?_⟩)))
      tri_eq
    · refine Or.inr (Or.inl (mem_cylL.2 (Or.inl ⟨_, hp, Or.inr ?_⟩)))
      tri_eq
    · refine Or.inr (Or.inr (mem_cylL.2 (Or.inl ⟨_, hp, Or.inl ?_⟩)))
      tri_eq
    · refine Or.inr (Or.inr (mem_cylL.2 (Or.inr (Or.inl ⟨_, hp, ?_⟩))))
      tri_eq
    · refine Or.inl (mem_cylL.2 (Or.inr (Or.inl ⟨c, hc, ?_⟩)))
      tri_eq

/-- link of a bottom-rim point: the top-rim point above, the next top-rim point, the next bottom-rim point, the bottom
    centre, the previous bottom-rim point -/
theorem cylL_link_botrim {S c : Nat} (hS : 3 ≤ S) (hc : c < S) (x y : LP) :
    LinkEdge (cylL S) (2, c) x y ↔
      (x, y) ∈ cyclicPairs [((1, c) : LP), (1, (c + 1) % S), (2, (c + 1) % S), (3, 0), (2, (c + S - 1) % S)] := by
  obtain ⟨x1, x2⟩ := x; obtain ⟨y1, y2⟩ := y
  rw [cyclicPairs5]
  simp only [List.mem_cons, List.not_mem_nil, or_false, Prod.mk.injEq]
  constructor
  · intro h
    simp only [LinkEdge, mem_cylL, Prod.mk.injEq] at h
    rcases h with (⟨i, hi, h | h⟩ | ⟨i, hi, h⟩ | ⟨i, hi, h⟩) | (⟨i, hi, h | h⟩ | ⟨i, hi, h⟩ | ⟨i, hi, h⟩) |
      (⟨i, hi, h | h⟩ | ⟨i, hi, h⟩ | ⟨i, hi, h⟩)
    all_goals try (exfalso; omega)
    all_goals
      have hi' := nx_spec hi
      have hn := nx_spec hc
      obtain ⟨hp, hnp⟩ := pd_spec hc
      have hpn := nx_spec hp
      omega_disj
  · have hn := nx_spec hc
    obtain ⟨hp, hnp⟩ := pd_spec hc
    have hpn := nx_spec hp
    rintro (h | h | h | h | h)
    · refine Or.inl (mem_cylL.2 (Or.inl ⟨c, hc, Or.inl ?_⟩))
      tri_eq
    · refine Or.inl (mem_cylL.2 (Or.inl ⟨c, hc, Or.inr ?_⟩))
      tri_eq
    · refine Or.inr (Or.inr (mem_cylL.2 (Or.inr (Or.inr ⟨c, hc, ?_⟩))))
      tri_eq
    · refine Or.inl (mem_cylL.2 (Or.inr (Or.inr ⟨_, hp, ?_⟩)))
      tri_eq
    · refine Or.inr (Or.inr (mem_cylL.2 (Or.inl ⟨_, hp, Or.inr ?_⟩)))
      tri_eq

/-- the top centre: its link is the top rim, run backwards -/
theorem cylL_umbrella_top {S : Nat} (hS : 3 ≤ S) : UmbrellaCycle (cylL S) ((0, 0) : LP) := by
  refine ⟨(List.range S).map (fun k => ((1, S - 1 - k) : LP)),
    by simp only [List.length_map, List.length_range]; exact hS, ?_, ?_⟩
  · refine List.Nodup.map_on ?_ List.nodup_range
    intro x hx y hy hxy
    have hx := List.mem_range.1 hx
    have hy := List.mem_range.1 hy
    simp only [Prod.mk.injEq, true_and] at hxy
    omega
  · intro b c
    rw [mem_cyclicPairs_range_map]
    obtain ⟨b1, b2⟩ := b; obtain ⟨c1, c2⟩ := c
    constructor
    · intro h
      simp only [LinkEdge, mem_cylL, Prod.mk.injEq] at h
      rcases h with (⟨i, hi, h | h⟩ | ⟨i, hi, h⟩ | ⟨i, hi, h⟩) | (⟨i, hi, h | h⟩ | ⟨i, hi, h⟩ | ⟨i, hi, h⟩) |
        (⟨i, hi, h | h⟩ | ⟨i, hi, h⟩ | ⟨i, hi, h⟩)
      all_goals try (exfalso; omega)
      have h1 := nx_spec hi
      have hk : S - 1 - (i + 1) % S < S := by omega
      have h2 := nx_spec hk
      refine ⟨S - 1 - (i + 1) % S, hk, ?_, ?_⟩
      · simp only [Prod.mk.injEq]; omega
      · simp only [Prod.mk.injEq]; omega
    · rintro ⟨k, hk, h1, h2⟩
      have h3 := nx_spec hk
      simp only [Prod.mk.injEq] at h1 h2
      have hi : S - 1 - (k + 1) % S < S := by omega
      have h4 := nx_spec hi
      refine Or.inr (Or.inl (mem_cylL.2 (Or.inr (Or.inl ⟨S - 1 - (k + 1) % S, hi, ?_⟩))))
      simp only [Prod.mk.injEq, true_and, and_true]
      omega

/-- the bottom centre: its link is the bottom rim -/
theorem cylL_umbrella_bot {S : Nat} (hS : 3 ≤ S) : UmbrellaCycle (cylL S) ((3, 0) : LP) := by
  refine ⟨(List.range S).map (fun k => ((2, k) : LP)),
    by simp only [List.length_map, List.length_range]; exact hS, ?_, ?_⟩
  · refine List.Nodup.map_on ?_ List.nodup_range
    intro x hx y hy hxy
    simp only [Prod.mk.injEq, true_and] at hxy
    exact hxy
  · intro b c
    rw [mem_cyclicPairs_range_map]
    obtain ⟨b1, b2⟩ := b; obtain ⟨c1, c2⟩ := c
    constructor
    · intro h
      simp only [LinkEdge, mem_cylL, Prod.mk.injEq] at h
      rcases h with (⟨i, hi, h | h⟩ | ⟨i, hi, h⟩ | ⟨i, hi, h⟩) | (⟨i, hi, h | h⟩ | ⟨i, hi, h⟩ | ⟨i, hi, h⟩) |
        (⟨i, hi, h | h⟩ | ⟨i, hi, h⟩ | ⟨i, hi, h⟩)
      all_goals try (exfalso; omega)
      refine ⟨i, hi, ?_, ?_⟩
      · simp only [Prod.mk.injEq]; omega
      · simp only [Prod.mk.injEq]; omega
    · rintro ⟨k, hk, h1, h2⟩
      simp only [Prod.mk.injEq] at h1 h2
      refine Or.inr (Or.inl (mem_cylL.2 (Or.inr (Or.inr ⟨k, hk, ?_⟩))))
      simp only [Prod.mk.injEq, true_and, and_true]
      omega

/-- **every point of the logical capped cylinder has exactly one umbrella** (all side counts `S ≥ 3`) -/
theorem cylL_umbrella {S : Nat} (hS : 3 ≤ S) (p : LP) (hp : CylValidP S p) : UmbrellaCycle (cylL S) p := by
  rcases hp with rfl | rfl | ⟨c, hc, rfl⟩ | ⟨c, hc, rfl⟩
  · exact cylL_umbrella_top hS
  · exact cylL_umbrella_bot hS
  · have hn := nx_spec hc
    obtain ⟨hp, hnp⟩ := pd_spec hc
    have hpn := nx_spec hp
    refine ⟨_, ?_, ?_, cylL_link_toprim hS hc⟩
    · simp only [List.length_cons, List.length_nil]; omega
    · cyc_nodup
  · have hn := nx_spec hc
    obtain ⟨hp, hnp⟩ := pd_spec hc
    have hpn := nx_spec hp
    refine ⟨_, ?_, ?_, cylL_link_botrim hS hc⟩
    · simp only [List.length_cons, List.length_nil]; omega
    · cyc_nodup

/-- **the capped cylinder, modulo the merge of coincident vertices**: in the raw triangle list with every vertex replaced
    by its logical point, every vertex has exactly one umbrella -/
theorem cylinder_umbrella_mod_merge {S : Nat} (hS : 3 ≤ S) {v : Nat} (hv : v < cylinderNV S false false) :
    UmbrellaCycle ((cylinderTris S false false).map (tmap (cylinderPt S))) (cylinderPt S v) := by
  rw [cylinder_map_pt (by omega)]
  exact cylL_umbrella hS _ (cylValid_cases (cylinderPt_valid hS hv))

/-- **the unwelded sphere, modulo the merge**: with every vertex replaced by its source vertex it is the welded sphere -/
theorem uvSphereUnwelded_umbrella_mod_merge {R C : Nat} (hR : 2 ≤ R) (hC : 3 ≤ C) {v : Nat}
    (hv : v < uvSphereNV R C) :
    UmbrellaCycle ((uvSphereUnweldedTris R C).map (tmap (uvUnweldedSrc R C))) v := by
  rw [uvUnwelded_map_src]
  exact uvSphere_umbrella hR hC hv

/-! ### (B) soundness of the executable checker `umbrellaB` -/

section
variable {β : Type} [DecidableEq β]

/-- the executable link-edge list lists exactly the link edges -/
theorem mem_linkEdges (ts : List (β × β × β)) (v b c : β) : (b, c) ∈ linkEdges ts v ↔ LinkEdge ts v b c := by
  unfold linkEdges LinkEdge
  rw [List.mem_flatMap]
  constructor
  · rintro ⟨⟨t1, t2, t3⟩, ht, h⟩
    simp only [List.mem_append] at h
    rcases h with (h | h) | h
    · split_ifs at h with he
      · simp only [List.mem_singleton, Prod.mk.injEq] at h
        obtain ⟨rfl, rfl⟩ := h
        subst he
        exact Or.inl ht
      · simp at h
    · split_ifs at h with he
      · simp only [List.mem_singleton, Prod.mk.injEq] at h
        obtain ⟨rfl, rfl⟩ := h
        subst he
        exact Or.inr (Or.inl ht)
      · simp at h
    · split_ifs at h with he
      · simp only [List.mem_singleton, Prod.mk.injEq] at h
        obtain ⟨rfl, rfl⟩ := h
        subst he
        exact Or.inr (Or.inr ht)
      · simp at h
  · rintro (h | h | h)
    · exact ⟨(v, b, c), h, by simp⟩
    · exact ⟨(c, v, b), h, by simp⟩
    · exact ⟨(b, c, v), h, by simp⟩

/-- a successor found by `linkNext` is joined to its predecessor by a link edge -/
theorem linkNext_some {l : List (β × β)} {b c : β} (h : linkNext l b = some c) : (b, c) ∈ l := by
  unfold linkNext at h
  rw [Option.map_eq_some_iff] at h
  obtain ⟨e, he, rfl⟩ := h
  have h1 := List.find?_some he
  have h2 := List.mem_of_find?_eq_some he
  simp only [decide_eq_true_eq] at h1
  subst h1
  exact h2

/-- the walk starts at its start vertex -/
theorem linkWalk_head {l : List (β × β)} {n : Nat} {b x : β} (h : (linkWalk l n b)[0]? = some x) : x = b := by
  cases n with
  | zero => simp [linkWalk] at h
  | succ n => simpa [linkWalk] using h.symm

/-- consecutive vertices of the walk are joined by link edges -/
theorem linkWalk_step {l : List (β × β)} : ∀ (n : Nat) (b : β) (k : Nat) (x y : β),
    (linkWalk l n b)[k]? = some x → (linkWalk l n b)[k + 1]? = some y → (x, y) ∈ l := by
  intro n
  induction n with
  | zero => intro b k x y h; simp [linkWalk] at h
  | succ n ih =>
    intro b k x y h1 h2
    rw [linkWalk] at h1 h2
    cases hn : linkNext l b with
    | none => rw [hn] at h2; simp at h2
    | some c =>
      rw [hn] at h1 h2
      simp only [List.getElem?_cons_succ] at h2
      cases k with
      | zero =>
        simp only [List.getElem?_cons_zero, Option.some.injEq] at h1
        subst h1
        obtain rfl := linkWalk_head h2
        exact linkNext_some hn
      | succ k =>
        simp only [List.getElem?_cons_succ] at h1
        exact ih c k x y h1 h2

theorem length_cyclicPairs {γ : Type} (w : List γ) : (cyclicPairs w).length = w.length := by
  simp [cyclicPairs]

theorem map_fst_cyclicPairs {γ : Type} (w : List γ) : (cyclicPairs w).map Prod.fst = w := by
  unfold cyclicPairs
  exact List.map_fst_zip (by simp)

/-- **soundness of the executable umbrella check**: whenever `umbrellaB` accepts, the walk it computed is ONE duplicate-free
    cycle of length ≥ 3 whose consecutive pairs are exactly the link edges of `v`.
    (every consecutive pair of the walk and the closing pair is a link edge; the pairs have pairwise distinct first
    components, so they are `|walk| = |link|` distinct link edges, hence all of them) -/
theorem umbrella_sound (ts : List (β × β × β)) (v : β) (h : Umbrella ts v) : UmbrellaCycle ts v := by
  unfold Umbrella umbrellaB at h
  simp only at h
  generalize hl : linkEdges ts v = l at h
  cases hh : l.head? with
  | none => rw [hh] at h; simp at h
  | some e0 =>
    rw [hh] at h
    simp only [Bool.and_eq_true, decide_eq_true_eq, beq_iff_eq] at h
    obtain ⟨⟨⟨⟨h3, hfst⟩, hlen⟩, hnd⟩, hclose⟩ := h
    generalize hw : linkWalk l l.length e0.1 = w at hlen hnd hclose
    rw [Option.bind_eq_some_iff] at hclose
    obtain ⟨last, hlast, hnext⟩ := hclose
    have hcl := linkNext_some hnext
    have hsub : cyclicPairs w ⊆ l := by
      rintro ⟨x, y⟩ hxy
      obtain ⟨k, hk, h1, h2⟩ := mem_cyclicPairs.1 hxy
      by_cases hk1 : k + 1 < w.length
      · rw [Nat.mod_eq_of_lt hk1] at h2
        subst hw
        exact linkWalk_step _ _ k x y h1 h2
      · have hkl : k + 1 = w.length := by omega
        rw [hkl, Nat.mod_self] at h2
        have hy : y = e0.1 := by subst hw; exact linkWalk_head h2
        have hx : x = last := by
          rw [List.getLast?_eq_getElem?, show w.length - 1 = k by omega, h1] at hlast
          exact Option.some.inj hlast
        rw [hx, hy]; exact hcl
    have hndc : (cyclicPairs w).Nodup := by
      apply List.Nodup.of_map Prod.fst
      rw [map_fst_cyclicPairs]; exact hnd
    have hperm : (cyclicPairs w).Perm l :=
      (List.subperm_of_subset hndc hsub).perm_of_length_le (by rw [length_cyclicPairs, hlen])
    refine ⟨w, by omega, hnd, fun b c => ?_⟩
    rw [← mem_linkEdges, hl, hperm.mem_iff]

/-- the decidable vertex-manifold predicate gives an exhibited umbrella at every used vertex -/
theorem vertexManifold_sound (ts : List (β × β × β)) (h : VertexManifold ts) :
    ∀ v ∈ cornersOf ts, UmbrellaCycle ts v := fun v hv => umbrella_sound ts v (h v hv)
end

end PolyVerif.Solids
