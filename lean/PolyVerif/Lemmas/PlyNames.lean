/-
  What an accepted `MeshWriter.Write` says about the header's property names (writer.go:144-158, fix 858df3c).
-/
import PolyVerif.Lemmas.PlyHeader
import PolyVerif.Lemmas.PlyCompose
namespace PolyVerif
namespace PlyHeader
open Ply PlyLemmas PlyCompose

theorem fieldsAux_tokens : ∀ (s cur : Bytes), (∀ b ∈ cur, isSpace b = false) →
    ∀ tok ∈ fieldsAux s cur, tok ≠ [] ∧ ∀ b ∈ tok, isSpace b = false := by
  intro s
  induction s with
  | nil =>
    intro cur hc tok ht
    simp only [fieldsAux] at ht
    split at ht
    · simp at ht
    · rename_i hne
      simp at ht; subst ht
      refine ⟨by intro h; simp at h; simp [h] at hne, ?_⟩
      intro b hb; exact hc b (by simpa using hb)
  | cons x s ih =>
    intro cur hc tok ht
    simp only [fieldsAux] at ht
    by_cases hx : isSpace x = true
    · simp only [hx, if_true] at ht
      split at ht
      · exact ih [] (by simp) tok ht
      · rename_i hne
        simp at ht
        rcases ht with rfl | ht
        · refine ⟨by intro h; simp at h; simp [h] at hne, ?_⟩
          intro b hb; exact hc b (by simpa using hb)
        · exact ih [] (by simp) tok ht
    · have hx' : isSpace x = false := by simpa using hx
      simp only [hx', Bool.false_eq_true, if_false] at ht
      exact ih (x :: cur) (by intro b hb; simp at hb; rcases hb with rfl | hb; exact hx'; exact hc b hb) tok ht

theorem tok_of_fields_self (t : Bytes) (h : fields t = [t]) : Tok t := by
  have := fieldsAux_tokens t [] (by simp) t (by rw [← fields, h]; simp)
  exact this

/-- what an accepted `Write` tells about the header's property names (writer.go:144-158) -/
theorem names_of_writeBody_ok {α : Type} (c : Coding α) (cfg : WriterCfg) (m : MeshVal α) (body : Bytes)
    (h : writeBody c cfg m = .ok body) :
    (∀ w ∈ selectWriters cfg m, ∀ n ∈ w.names, Tok n) ∧ ((headerProps (selectWriters cfg m)).map (·.1)).Nodup := by
  obtain ⟨hn, _⟩ := writeBody_core_of_ok c cfg m body h
  simp only [namesOK, Bool.and_eq_true, List.all_eq_true, beq_iff_eq, decide_eq_true_eq] at hn
  have hmap : (headerProps (selectWriters cfg m)).map (·.1) = ((selectWriters cfg m).map WProp.names).flatten := by
    simp only [headerProps]
    induction selectWriters cfg m with
    | nil => rfl
    | cons w ws ih => simp [ih, Function.comp_def]
  refine ⟨?_, by rw [hmap]; exact hn.2⟩
  intro w hw n hnn
  exact tok_of_fields_self n (hn.1 n (by simp only [List.mem_flatten, List.mem_map]; exact ⟨w.names, ⟨w, hw, rfl⟩, hnn⟩))

end PlyHeader
end PolyVerif
