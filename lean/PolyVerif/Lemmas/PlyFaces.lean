/-
  C08 (round 2) — the reader's binary face loop over the REFERENCE face encoding (`PlySpec.faceListBin`): any count
  type the reader implements (uchar | int | uint), any index type it implements (int | uint), both byte orders, an
  optional unrecognised list before or after the index list; faces with 3 / 4 indices (fan), any other size rejected.
  Core Lean only.
-/
import PolyVerif.Model.Ply
import PolyVerif.Model.PlySpec
import PolyVerif.Lemmas.Ply
import PolyVerif.Lemmas.PlyCompose

namespace PolyVerif
namespace PlyFaces
open Ply PlySpec PlyLemmas PlyCompose

variable {α : Type}

/-- the list count types `listBinaryPropertyReader.Count` implements -/
def CountTyOK (t : SType) : Prop := t = .uchar ∨ t = .int ∨ t = .uint
/-- the list item types `listBinaryPropertyReader.Int` implements -/
def IndexTyOK (t : SType) : Prop := t = .int ∨ t = .uint

instance (t : SType) : Decidable (CountTyOK t) := by unfold CountTyOK; infer_instance
instance (t : SType) : Decidable (IndexTyOK t) := by unfold IndexTyOK; infer_instance

theorem drop_put32 (e : Endian) (w : UInt32) (l : Bytes) : (put32 e w ++ l).drop 4 = l := by
  obtain ⟨_, _, _, _, h⟩ := put32_bytes e w
  simp [h]

/-- one list property in the reference encoding: count field of a type the reader implements, then the payload -/
theorem readListBin_ref (e : Endian) (ct it : SType) (hct : CountTyOK ct) (n : Nat) (hn8 : ct = .uchar → n < 256)
    (hn : n < 2 ^ 31) (pl rest : Bytes) (hpl : pl.length = n * it.size) :
    readListBin e ct it (putCount e ct (n : Int) ++ (pl ++ rest)) = .ok ((n : Int), pl, rest) := by
  have hneg : ¬ ((n : Int) < 0) := by omega
  rcases hct with rfl | rfl | rfl
  · have h8 := hn8 rfl
    have hb : (UInt8.ofNat n).toNat = n := by simp [UInt8.toNat_ofNat']; omega
    simp [readListBin, putCount, bind, Except.bind, pure, Except.pure, hb, hpl]
    rw [if_neg hneg, if_neg (by omega)]
  · have ht : toInt32 (ofInt32 (n : Int)) = n := toInt32_ofInt32' _ ⟨by omega, by omega⟩
    simp [readListBin, putCount, bind, Except.bind, pure, Except.pure, put32_get32, drop_put32, ht, hpl]
    rw [if_neg hneg, if_neg (by omega)]
  · have ht : toInt32 (ofInt32 (n : Int)) = n := toInt32_ofInt32' _ ⟨by omega, by omega⟩
    simp [readListBin, putCount, bind, Except.bind, pure, Except.pure, put32_get32, drop_put32, ht, hpl]
    rw [if_neg hneg, if_neg (by omega)]

/-- a count type the reader does not implement is an error (`Count`: "unimplemented list property count type") -/
theorem readListBin_badCount (e : Endian) (ct it : SType) (hct : ¬ CountTyOK ct) (bs : Bytes) :
    readListBin e ct it bs = .error .err := by
  cases ct <;> simp_all [CountTyOK, readListBin, bind, Except.bind]

theorem putCount_index (e : Endian) (it : SType) (hit : IndexTyOK it) (v : Int) : putCount e it v = put32 e (ofInt32 v) := by
  rcases hit with rfl | rfl <;> rfl

/-- `Int(indicesBuf)` on up to four 32-bit words -/
theorem listIntsBin_words (e : Endian) (it : SType) (hit : IndexTyOK it) (ws : List UInt32) (hl : ws.length ≤ 4) :
    listIntsBin e it ws.length ((ws.map (put32 e)).flatten) 4 = some (ws.map toInt32) := by
  match ws, hl with
  | [], _ => rcases hit with rfl | rfl <;> simp [listIntsBin]
  | [a], _ =>
    obtain ⟨_, _, _, _, ha⟩ := put32_bytes e a
    rcases hit with rfl | rfl <;>
      simp [listIntsBin, List.range, List.range.loop, ha, get32_of_put e a _ _ _ _ _ ha]
  | [a, b], _ =>
    obtain ⟨_, _, _, _, ha⟩ := put32_bytes e a
    obtain ⟨_, _, _, _, hb⟩ := put32_bytes e b
    rcases hit with rfl | rfl <;>
      simp [listIntsBin, List.range, List.range.loop, ha, hb, get32_of_put e a _ _ _ _ _ ha, get32_of_put e b _ _ _ _ _ hb]
  | [a, b, d], _ =>
    obtain ⟨_, _, _, _, ha⟩ := put32_bytes e a
    obtain ⟨_, _, _, _, hb⟩ := put32_bytes e b
    obtain ⟨_, _, _, _, hd⟩ := put32_bytes e d
    rcases hit with rfl | rfl <;>
      simp [listIntsBin, List.range, List.range.loop, ha, hb, hd, get32_of_put e a _ _ _ _ _ ha,
        get32_of_put e b _ _ _ _ _ hb, get32_of_put e d _ _ _ _ _ hd]
  | [a, b, d, g], _ =>
    obtain ⟨_, _, _, _, ha⟩ := put32_bytes e a
    obtain ⟨_, _, _, _, hb⟩ := put32_bytes e b
    obtain ⟨_, _, _, _, hd⟩ := put32_bytes e d
    obtain ⟨_, _, _, _, hg⟩ := put32_bytes e g
    rcases hit with rfl | rfl <;>
      simp [listIntsBin, List.range, List.range.loop, ha, hb, hd, hg, get32_of_put e a _ _ _ _ _ ha,
        get32_of_put e b _ _ _ _ _ hb, get32_of_put e d _ _ _ _ _ hd, get32_of_put e g _ _ _ _ _ hg]

/-- the payload of an index list -/
def idxPayload (e : Endian) (it : SType) (vs : List Nat) : Bytes := (vs.map (fun v => putCount e it (v : Nat))).flatten

theorem idxPayload_words (e : Endian) (it : SType) (hit : IndexTyOK it) (vs : List Nat) :
    idxPayload e it vs = ((vs.map (fun v => ofInt32 (v : Nat))).map (put32 e)).flatten := by
  simp only [idxPayload, List.map_map]
  congr 1
  apply List.map_congr_left
  intro v _
  exact putCount_index e it hit _

theorem payload_length (e : Endian) (it : SType) (hit : IndexTyOK it) (xs : List Int) :
    ((xs.map (putCount e it)).flatten).length = xs.length * it.size := by
  have hs : it.size = 4 := by rcases hit with rfl | rfl <;> rfl
  rw [hs]
  induction xs with
  | nil => rfl
  | cons x xs ih => simp [putCount_index e it hit, put32_length, ih]; omega

theorem idxPayload_length (e : Endian) (it : SType) (hit : IndexTyOK it) (vs : List Nat) :
    (idxPayload e it vs).length = vs.length * it.size := by
  have := payload_length e it hit (vs.map (fun v => ((v : Nat) : Int)))
  simpa [idxPayload, List.map_map, Function.comp_def] using this

/-- `Int(indicesBuf)` on a reference-encoded index list: the listed vertex numbers when they fit the 4-entry buffer, an
(ignored) error otherwise -/
theorem listIntsBin_ref (e : Endian) (it : SType) (hit : IndexTyOK it) (vs : List Nat) (hv : ∀ v ∈ vs, v < 2 ^ 31) :
    listIntsBin e it vs.length (idxPayload e it vs) 4
      = if vs.length ≤ 4 then some (vs.map (fun v => ((v : Nat) : Int))) else none := by
  by_cases hl : vs.length ≤ 4
  · have h := listIntsBin_words e it hit (vs.map (fun v => ofInt32 (v : Nat))) (by simpa using hl)
    rw [idxPayload_words e it hit, if_pos hl]
    simp only [List.length_map] at h
    rw [h, List.map_map]
    congr 1
    apply List.map_congr_left
    intro v hvm
    exact toInt32_ofInt32' _ ⟨by omega, by have := hv v hvm; omega⟩
  · have : 4 < vs.length := by omega
    simp [listIntsBin, this, hl]

/-- what reading one reference-encoded face does to the reader's buffers (no `texcoord` list) -/
def afterRef (vs : List Nat) (b : FaceBufs α) : FaceBufs α :=
  if vs.length ≤ 4 then { b with idx := overwrite b.idx (vs.map (fun v => ((v : Nat) : Int))) } else b

/-- face-property loop, one step: the index list -/
theorem go_idx (c : Coding α) (e : Endian) (fs : FaceScan) (i : Nat) (hi : fs.idxProp = some i) (hti : fs.texProp ≠ some i)
    (name : Bytes) (ct it : SType) (hct : CountTyOK ct) (hit : IndexTyOK it) (vs : List Nat)
    (hv : ∀ v ∈ vs, v < 2 ^ 31) (hn8 : ct = .uchar → vs.length < 256) (hn : vs.length < 2 ^ 31)
    (tl : List ((Bytes × SType × SType) × Nat)) (points : Int) (bufs : FaceBufs α) (rest : Bytes) :
    readFaceBin.go c e fs (((name, ct, it), i) :: tl) points bufs
        (putCount e ct (vs.length : Nat) ++ (idxPayload e it vs ++ rest))
      = readFaceBin.go c e fs tl (vs.length : Nat) (afterRef vs bufs) rest := by
  have hr := readListBin_ref e ct it hct vs.length hn8 hn (idxPayload e it vs) rest (idxPayload_length e it hit vs)
  have hl := listIntsBin_ref e it hit vs hv
  simp only [readFaceBin.go, hr, bind, Except.bind, hi, if_true, Int.toNat_natCast, hl, hti, if_false]
  by_cases h4 : vs.length ≤ 4 <;> simp [afterRef, h4]

/-- face-property loop, one step: a list the reader does not look at -/
theorem go_skip (c : Coding α) (e : Endian) (fs : FaceScan) (i : Nat) (hi : fs.idxProp ≠ some i) (hti : fs.texProp ≠ some i)
    (name : Bytes) (ct it : SType) (hct : CountTyOK ct) (hit : IndexTyOK it) (xs : List Int)
    (hn8 : ct = .uchar → xs.length < 256) (hn : xs.length < 2 ^ 31)
    (tl : List ((Bytes × SType × SType) × Nat)) (points : Int) (bufs : FaceBufs α) (rest : Bytes) :
    readFaceBin.go c e fs (((name, ct, it), i) :: tl) points bufs
        (putCount e ct (xs.length : Nat) ++ ((xs.map (putCount e it)).flatten ++ rest))
      = readFaceBin.go c e fs tl points bufs rest := by
  have hr := readListBin_ref e ct it hct xs.length hn8 hn _ rest (payload_length e it hit xs)
  simp only [readFaceBin.go, hr, bind, Except.bind, hi, hti, if_false]

/-- the face element's list declarations as the header parser hands them to the reader -/
def lpOf (fe : SpecFaceElem α) : List (Bytes × SType × SType) := fe.lists.map (fun x => (x.2.1, x.2.2.1, x.2.2.2.1))

theorem listProps_lists (fe : SpecFaceElem α) :
    listProps (fe.lists.map (fun x => PProp.list x.2.1 x.2.2.1 x.2.2.2.1)) = some (lpOf fe) := by
  simp only [lpOf]
  induction fe.lists with
  | nil => rfl
  | cons x xs ih => simp [listProps, ih]

/-- position of the index list among the declarations (no `texcoord`) -/
def idxPos (fe : SpecFaceElem α) : Nat := if fe.extra = some true then 1 else 0

theorem findFaceProps_ref (fe : SpecFaceElem α) (htex : fe.tex = none) :
    findFaceProps (lpOf fe) = ⟨some (idxPos fe), none⟩ := by
  obtain ⟨short, ct, it, al, tex, tf, ex, faces⟩ := fe
  simp only at htex
  subst htex
  have h1 : (nm "flags" = nm "vertex_index") = False := by simp; decide
  have h2 : (nm "flags" = nm "vertex_indices") = False := by simp; decide
  have h3 : (nm "flags" = nm "texcoord") = False := by simp; decide
  have h4 : (nm "vertex_index" = nm "texcoord") = False := by simp; decide
  have h5 : (nm "vertex_indices" = nm "texcoord") = False := by simp; decide
  have h6 : (nm "vertex_indices" = nm "vertex_index") = False := by simp; decide
  have h7 : (nm "vertex_index" = nm "vertex_indices") = False := by simp; decide
  rcases ex with _ | _ | _ <;> cases tf <;> cases short <;>
    simp [lpOf, SpecFaceElem.lists, findFaceProps, idxPos, List.zipIdx, h1, h2, h3, h4, h5, h6, h7]

/-- the guards under which a face is inside the reference grammar's binary encoding: vertex numbers are 31-bit, the
count fits its field -/
structure FaceEncOK (fe : SpecFaceElem α) (fc : SpecFace α) : Prop where
  vert : ∀ v ∈ fc.verts, v < 2 ^ 31
  cnt8 : fe.cntTy = .uchar → fc.verts.length < 256
  cnt : fc.verts.length < 2 ^ 31
  extra : fc.extra.length < 256

/-- ONE FACE RECORD of the reference encoding under the reader's property loop: every list is consumed exactly, the
index list lands in `indicesBuf` (when it fits), `points` is its length -/
theorem readFaceBin_ref (c : Coding α) (e : Endian) (fe : SpecFaceElem α) (htex : fe.tex = none)
    (hct : CountTyOK fe.cntTy) (hit : IndexTyOK fe.idxTy) (fc : SpecFace α) (hok : FaceEncOK fe fc)
    (bufs : FaceBufs α) (rest : Bytes) :
    readFaceBin c e (lpOf fe) (findFaceProps (lpOf fe)) bufs ((fe.lists.map (faceListBin c e fc)).flatten ++ rest)
      = .ok ((fc.verts.length : Nat), afterRef fc.verts bufs, rest) := by
  rw [findFaceProps_ref fe htex]
  obtain ⟨short, ct, it, al, tex, tf, ex, faces⟩ := fe
  simp only at htex hct hit
  subst htex
  obtain ⟨hv, h8, hn, hx⟩ := hok
  simp only at h8
  have hxc : SType.uchar = SType.uchar → fc.extra.length < 256 := fun _ => hx
  have hxn : fc.extra.length < 2 ^ 31 := by omega
  have hu : CountTyOK .uchar := Or.inl rfl
  have hii : IndexTyOK .int := Or.inl rfl
  rcases ex with _ | _ | _
  · -- no extra list
    have := go_idx c e ⟨some 0, none⟩ 0 rfl (by simp) (if short then nm "vertex_index" else nm "vertex_indices")
      ct it hct hit fc.verts hv h8 hn [] (-1) bufs rest
    cases tf <;>
      simpa [readFaceBin, lpOf, SpecFaceElem.lists, idxPos, List.zipIdx, faceListBin, idxPayload, List.append_assoc,
        readFaceBin.go] using this
  · -- extra list declared last
    have h1 := go_idx c e ⟨some 0, none⟩ 0 rfl (by simp) (if short then nm "vertex_index" else nm "vertex_indices")
      ct it hct hit fc.verts hv h8 hn [((nm "flags", .uchar, .int), 1)] (-1) bufs
      (putCount e .uchar (fc.extra.length : Nat) ++ ((fc.extra.map (putCount e .int)).flatten ++ rest))
    have h2 := go_skip c e ⟨some 0, none⟩ 1 (by simp) (by simp) (nm "flags") .uchar .int hu hii fc.extra hxc hxn []
      (fc.verts.length : Nat) (afterRef fc.verts bufs) rest
    rw [h2] at h1
    cases tf <;>
      simpa [readFaceBin, lpOf, SpecFaceElem.lists, idxPos, List.zipIdx, faceListBin, idxPayload, List.append_assoc,
        readFaceBin.go] using h1
  · -- extra list declared first
    have h2 := go_skip c e ⟨some 1, none⟩ 0 (by simp) (by simp) (nm "flags") .uchar .int hu hii fc.extra hxc hxn
      [((if short then nm "vertex_index" else nm "vertex_indices", ct, it), 1)] (-1) bufs
      (putCount e ct (fc.verts.length : Nat) ++ (idxPayload e it fc.verts ++ rest))
    have h1 := go_idx c e ⟨some 1, none⟩ 1 rfl (by simp) (if short then nm "vertex_index" else nm "vertex_indices")
      ct it hct hit fc.verts hv h8 hn [] (-1) bufs rest
    rw [h1] at h2
    cases tf <;>
      simpa [readFaceBin, lpOf, SpecFaceElem.lists, idxPos, List.zipIdx, faceListBin, idxPayload, List.append_assoc,
        readFaceBin.go] using h2

/-- a face of the supported sizes -/
def TriOrQuad (fc : SpecFace α) : Prop := fc.verts.length = 3 ∨ fc.verts.length = 4

theorem afterRef_ok (vs : List Nat) (b : FaceBufs α) (hb : BufsOk b) : BufsOk (afterRef vs b) := by
  obtain ⟨h1, h2⟩ := hb
  unfold afterRef
  split
  · refine ⟨?_, h2⟩
    simp only [overwrite, List.length_append, List.length_map, List.length_drop]
    omega
  · exact ⟨h1, h2⟩

/-- triangle → its three indices, quad → the two fan triangles (0,1,2), (0,2,3); no UVs without `texcoord` -/
theorem emitFace_ref (vs : List Nat) (hv : vs.length = 3 ∨ vs.length = 4) (b : FaceBufs α) (hb : BufsOk b) :
    emitFace (vs.length : Nat) false (afterRef vs b) = .ok (fan vs, []) := by
  obtain ⟨idx, tex⟩ := b
  obtain ⟨hi, ht⟩ := hb
  simp only at hi ht
  match idx, hi, tex, ht with
  | [a0, a1, a2, a3], _, [t0, t1, t2, t3, t4, t5, t6, t7], _ =>
    rcases hv with h | h
    · match vs, h with
      | [x, y, z], _ => simp [emitFace, afterRef, overwrite, fan]
    · match vs, h with
      | [x, y, z, w], _ => simp [emitFace, afterRef, overwrite, fan]

/-- any other size is rejected ("face contained indices entry of size n") -/
theorem emitFace_reject (vs : List Nat) (hv : ¬ (vs.length = 3 ∨ vs.length = 4)) (hasTex : Bool) (b : FaceBufs α) :
    emitFace (vs.length : Nat) hasTex (afterRef vs b) = .error .err := by
  have : ((vs.length : Nat) : Int) < 3 ∨ ((vs.length : Nat) : Int) > 4 := by omega
  simp [emitFace, this]

/-- indices the file denotes: fan triangles in file order -/
def fanIdx (faces : List (SpecFace α)) : List Int := (faces.map (fun fc => fan fc.verts)).flatten

/-- bytes of the face records -/
def faceBytes (c : Coding α) (e : Endian) (fe : SpecFaceElem α) (faces : List (SpecFace α)) : Bytes :=
  (faces.map (fun fc => (fe.lists.map (faceListBin c e fc)).flatten)).flatten

/-- THE FACE LOOP over a run of triangle / quad records: their fan indices come out in file order and the loop goes on
with the remaining `n` faces on exactly the bytes that follow -/
theorem readFacesBin_ref_prefix (c : Coding α) (e : Endian) (fe : SpecFaceElem α) (htex : fe.tex = none)
    (hct : CountTyOK fe.cntTy) (hit : IndexTyOK fe.idxTy) :
    ∀ (pre : List (SpecFace α)), (∀ fc ∈ pre, FaceEncOK fe fc ∧ TriOrQuad fc) → ∀ (b : FaceBufs α), BufsOk b →
      ∃ b', BufsOk b' ∧ ∀ (n : Nat) (tail : Bytes),
        readFacesBin c e (lpOf fe) (findFaceProps (lpOf fe)) (pre.length + n) b (faceBytes c e fe pre ++ tail)
          = (do
              let (i, u) ← readFacesBin c e (lpOf fe) (findFaceProps (lpOf fe)) n b' tail
              pure (fanIdx pre ++ i, u)) := by
  intro pre
  induction pre with
  | nil =>
    intro _ b hb
    refine ⟨b, hb, fun n tail => ?_⟩
    simp only [List.length_nil, Nat.zero_add, faceBytes, List.map_nil, List.flatten_nil, List.nil_append, fanIdx]
    cases readFacesBin c e (lpOf fe) (findFaceProps (lpOf fe)) n b tail <;> rfl
  | cons fc pre ih =>
    intro hpre b hb
    obtain ⟨hok, htq⟩ := hpre fc (by simp)
    obtain ⟨b', hb', hrest⟩ := ih (fun g hg => hpre g (by simp [hg])) (afterRef fc.verts b) (afterRef_ok _ _ hb)
    refine ⟨b', hb', fun n tail => ?_⟩
    have h1 := readFaceBin_ref c e fe htex hct hit fc hok b (faceBytes c e fe pre ++ tail)
    have h2 := emitFace_ref fc.verts htq b hb
    have hT : (findFaceProps (lpOf fe)).texProp.isSome = false := by rw [findFaceProps_ref fe htex]; rfl
    have hlen : (fc :: pre).length + n = (pre.length + n) + 1 := by simp; omega
    have hbytes : faceBytes c e fe (fc :: pre) ++ tail
        = (fe.lists.map (faceListBin c e fc)).flatten ++ (faceBytes c e fe pre ++ tail) := by
      simp [faceBytes, List.append_assoc]
    rw [hlen, hbytes]
    simp only [readFacesBin, h1, bind, Except.bind, hT, h2, hrest n tail]
    cases readFacesBin c e (lpOf fe) (findFaceProps (lpOf fe)) n b' tail with
    | error _ => rfl
    | ok r => simp [fanIdx, pure, Except.pure]

/-- ALL FACES triangles / quads: the loop returns the fan indices in file order, no UVs, and consumes exactly the face
records -/
theorem readFacesBin_ref (c : Coding α) (e : Endian) (fe : SpecFaceElem α) (htex : fe.tex = none)
    (hct : CountTyOK fe.cntTy) (hit : IndexTyOK fe.idxTy) (hall : ∀ fc ∈ fe.faces, FaceEncOK fe fc ∧ TriOrQuad fc)
    (b : FaceBufs α) (hb : BufsOk b) :
    readFacesBin c e (lpOf fe) (findFaceProps (lpOf fe)) fe.faces.length b (faceBytes c e fe fe.faces)
      = .ok (fanIdx fe.faces, []) := by
  obtain ⟨b', _, h⟩ := readFacesBin_ref_prefix c e fe htex hct hit fe.faces hall b hb
  have := h 0 []
  simpa [readFacesBin, bind, Except.bind, pure, Except.pure] using this

/-- A FACE OF ANOTHER SIZE (0, 1, 2, 5 … indices) after a run of triangles / quads: the loop stops with an error -/
theorem readFacesBin_ref_reject (c : Coding α) (e : Endian) (fe : SpecFaceElem α) (htex : fe.tex = none)
    (hct : CountTyOK fe.cntTy) (hit : IndexTyOK fe.idxTy) (pre : List (SpecFace α)) (bad : SpecFace α)
    (post : List (SpecFace α)) (hpre : ∀ fc ∈ pre, FaceEncOK fe fc ∧ TriOrQuad fc) (hbad : FaceEncOK fe bad)
    (hsize : ¬ TriOrQuad bad) (b : FaceBufs α) (hb : BufsOk b) (tail : Bytes) :
    readFacesBin c e (lpOf fe) (findFaceProps (lpOf fe)) (pre ++ bad :: post).length b
        (faceBytes c e fe (pre ++ bad :: post) ++ tail) = .error .err := by
  obtain ⟨b', _, h⟩ := readFacesBin_ref_prefix c e fe htex hct hit pre hpre b hb
  have hlen : (pre ++ bad :: post).length = pre.length + (post.length + 1) := by simp
  have hbytes : faceBytes c e fe (pre ++ bad :: post) ++ tail
      = faceBytes c e fe pre ++ ((fe.lists.map (faceListBin c e bad)).flatten ++ (faceBytes c e fe post ++ tail)) := by
    simp [faceBytes, List.append_assoc]
  rw [hlen, hbytes, h]
  have h1 := readFaceBin_ref c e fe htex hct hit bad hbad b' (faceBytes c e fe post ++ tail)
  have h2 := emitFace_reject bad.verts hsize (findFaceProps (lpOf fe)).texProp.isSome b'
  simp only [readFacesBin, h1, bind, Except.bind, h2]

end PlyFaces
end PolyVerif
