/-
  C09 — kernel-evaluated closedness facts of the cell polyhedron (see MarchVolume.lean), closedness of the cell polyhedron, first bit true.  Core Lean only.
-/
import PolyVerif.Lemmas.MarchVolume

namespace PolyVerif
namespace C09
open PolyVerif.March PolyVerif.Gen.March
namespace Tab

set_option maxRecDepth 100000 in
/-- the cell polyhedron is closed: every directed edge (as a code) occurs as often as its reverse -/
theorem table_poly_closed_tf : ∀ b2 b3 b4 b5 b6 b7 : Bool,
    balancedCodes (polyEdgeCodes (bits8 true false b2 b3 b4 b5 b6 b7)) = true := by decide +kernel

set_option maxRecDepth 100000 in
/-- the cell polyhedron is closed: every directed edge (as a code) occurs as often as its reverse -/
theorem table_poly_closed_tt : ∀ b2 b3 b4 b5 b6 b7 : Bool,
    balancedCodes (polyEdgeCodes (bits8 true true b2 b3 b4 b5 b6 b7)) = true := by decide +kernel

end Tab
end C09
end PolyVerif
