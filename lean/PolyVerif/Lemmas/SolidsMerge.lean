/-
  C18: the merge maps of `Model/Solids.lean` merge EXACTLY the vertices whose (real) positions coincide.
-/
import PolyVerif.Lemmas.SolidsGeom
import Mathlib.Analysis.SpecialFunctions.Trigonometric.Angle
namespace PolyVerif.Solids
open Real

/-! ### the cylinder's merge map merges exactly the coincident positions (over ℝ) -/

/-- logical position of the capped cylinder -/
noncomputable def cylPosL (r H : ℝ) (S : Nat) (p : LP) : V3 ℝ :=
  if p.1 = 0 then ⟨0, H / 2, 0⟩ else if p.1 = 1 then cpos r (angOf S p.2) (H / 2)
  else if p.1 = 2 then cpos r (angOf S p.2) (-(H / 2)) else ⟨0, -(H / 2), 0⟩

theorem angOf_S {S : Nat} (hS : 1 ≤ S) : angOf S S = 2 * π := by
  have : (S : ℝ) ≠ 0 := by positivity
  unfold angOf; field_simp

theorem cpos_two_pi (r y : ℝ) : cpos r (2 * π) y = cpos r 0 y := by simp [cpos]

theorem angOf_compl {S k : Nat} (hS : 1 ≤ S) (hk : k ≤ S) : angOf S (S - k) = 2 * π - angOf S k := by
  have : (S : ℝ) ≠ 0 := by positivity
  unfold angOf; rw [Nat.cast_sub hk]; field_simp

theorem cposB_eq (r a y : ℝ) : cposB r a y = cpos r (2 * π - a) y := by
  simp [cposB, cpos, sin_two_pi_sub, cos_two_pi_sub]

/-- soundness: every vertex sits at the position of its logical point -/
theorem cylinderPos_eq_L {S : Nat} (r H : ℝ) (hS : 3 ≤ S) {v : Nat} (hv : v < cylinderNV S false false) :
    cylinderPos r H S v = cylPosL r H S (cylinderPt S v) := by
  simp only [cylinderNV, cylinderSideNV, circleNV, Bool.false_eq_true, if_false] at hv
  by_cases h1 : v < 2 * S + 2
  · -- side
    obtain ⟨k, rfl | rfl⟩ : ∃ k, v = 2 * k ∨ v = 2 * k + 1 := ⟨v / 2, by omega⟩
    · have hk : k ≤ S := by omega
      rw [(cylPos_side r H hk).1, (cylPt_side (by omega) hk).1]
      rcases Nat.lt_or_eq_of_le hk with hlt | rfl
      · simp [cylPosL, Nat.mod_eq_of_lt hlt]
      · have z : angOf k 0 = 0 := by simp [angOf]
        simp only [cylPosL, Nat.mod_self, angOf_S (show 1 ≤ k by omega), cpos_two_pi, z]; simp
    · have hk : k ≤ S := by omega
      rw [(cylPos_side r H hk).2, (cylPt_side (by omega) hk).2]
      rcases Nat.lt_or_eq_of_le hk with hlt | rfl
      · simp [cylPosL, Nat.mod_eq_of_lt hlt]
      · have z : angOf k 0 = 0 := by simp [angOf]
        simp only [cylPosL, Nat.mod_self, angOf_S (show 1 ≤ k by omega), cpos_two_pi, z]; simp
  · by_cases h2 : v < 3 * S + 2
    · obtain ⟨k, hk, rfl⟩ : ∃ k, k < S ∧ v = k + cylinderSideNV S := ⟨v - (2 * S + 2), by omega, by
        simp only [cylinderSideNV]; omega⟩
      rw [cylPos_top r H hk, cylPt_top hk]; simp [cylPosL]
    · by_cases h3 : v = 3 * S + 2
      · have : v = S + cylinderSideNV S := by simp only [cylinderSideNV]; omega
        rw [this, cylPos_topc, cylPt_topc]; simp [cylPosL]
      · by_cases h4 : v < 4 * S + 3
        · obtain ⟨k, hk, rfl⟩ : ∃ k, k < S ∧ v = k + (cylinderSideNV S + circleNV S) :=
            ⟨v - (3 * S + 3), by omega, by simp only [cylinderSideNV, circleNV]; omega⟩
          rw [cylPos_bot r H hk, cylPt_bot hk, cposB_eq]
          rcases Nat.eq_zero_or_pos k with rfl | hpos
          · simp [cylPosL, Nat.mod_self, angOf, cpos]
          · have hm : (S - k) % S = S - k := Nat.mod_eq_of_lt (by omega)
            simp [cylPosL, hm, angOf_compl (show 1 ≤ S by omega) hk.le]
        · have : v = S + (cylinderSideNV S + circleNV S) := by simp only [cylinderSideNV, circleNV]; omega
          rw [this, cylPos_botc, cylPt_botc]; simp [cylPosL]
theorem ang_inj {S c c' : Nat} (hS : 1 ≤ S) (hc : c < S) (hc' : c' < S)
    (h1 : cos (angOf S c) = cos (angOf S c')) (h2 : sin (angOf S c) = sin (angOf S c')) : c = c' := by
  have hS0 : (S : ℝ) ≠ 0 := by positivity
  have h := Real.Angle.cos_sin_inj h1 h2
  rw [Real.Angle.angle_eq_iff_two_pi_dvd_sub] at h
  obtain ⟨k, hk⟩ := h
  have hk' : ((c : ℝ) - c') = k * S := by
    have hπ : π ≠ 0 := pi_ne_zero
    unfold angOf at hk
    field_simp at hk
    linarith
  have hkz : ((c : ℤ) - c') = k * S := by exact_mod_cast hk'
  have hcz : (c : ℤ) < S := by exact_mod_cast hc
  have hcz' : (c' : ℤ) < S := by exact_mod_cast hc'
  have h0 : (0 : ℤ) ≤ c := Int.natCast_nonneg c
  have h0' : (0 : ℤ) ≤ c' := Int.natCast_nonneg c'
  have hk0 : k = 0 := by
    rcases lt_trichotomy k 0 with hneg | hz | hpos
    · have : k * (S : ℤ) ≤ -1 * S := by nlinarith
      omega
    · exact hz
    · have : 1 * (S : ℤ) ≤ k * S := by nlinarith
      omega
  rw [hk0] at hkz
  omega

def CylValid (S : Nat) (p : LP) : Prop := p = (0, 0) ∨ p = (3, 0) ∨ (p.1 = 1 ∧ p.2 < S) ∨ (p.1 = 2 ∧ p.2 < S)

theorem cpos_inj {S c c' : Nat} {r y : ℝ} (hr : 0 < r) (hS : 1 ≤ S) (hc : c < S) (hc' : c' < S)
    (h : cpos r (angOf S c) y = cpos r (angOf S c') y) : c = c' := by
  simp only [cpos, V3.mk.injEq] at h
  have hr0 : r ≠ 0 := hr.ne'
  exact ang_inj hS hc hc' (mul_right_cancel₀ hr0 h.1) (mul_right_cancel₀ hr0 h.2.2)

theorem cpos_ne_axis (r a y y' : ℝ) (hr : 0 < r) : cpos r a y ≠ ⟨0, y', 0⟩ := by
  intro h
  simp only [cpos, V3.mk.injEq] at h
  have h1 : cos a = 0 := by have := h.1; rcases mul_eq_zero.1 this with h | h; exact h; exact absurd h hr.ne'
  have h2 : sin a = 0 := by have := h.2.2; rcases mul_eq_zero.1 this with h | h; exact h; exact absurd h hr.ne'
  have := sin_sq_add_cos_sq a
  rw [h1, h2] at this; norm_num at this

theorem cylValid_cases {S : Nat} {p : LP} (hp : CylValid S p) :
    p = (0, 0) ∨ p = (3, 0) ∨ (∃ c, c < S ∧ p = (1, c)) ∨ (∃ c, c < S ∧ p = (2, c)) := by
  obtain ⟨p1, p2⟩ := p
  rcases hp with h | h | ⟨h1, h2⟩ | ⟨h1, h2⟩
  · exact Or.inl h
  · exact Or.inr (Or.inl h)
  · simp only at h1 h2; subst h1; exact Or.inr (Or.inr (Or.inl ⟨p2, h2, rfl⟩))
  · simp only at h1 h2; subst h1; exact Or.inr (Or.inr (Or.inr ⟨p2, h2, rfl⟩))

theorem cylPosL_vals (r H : ℝ) (S c : Nat) :
    cylPosL r H S (0, 0) = ⟨0, H / 2, 0⟩ ∧ cylPosL r H S (3, 0) = ⟨0, -(H / 2), 0⟩ ∧
    cylPosL r H S (1, c) = cpos r (angOf S c) (H / 2) ∧ cylPosL r H S (2, c) = cpos r (angOf S c) (-(H / 2)) := by
  simp [cylPosL]

/-- completeness: distinct logical points have distinct positions -/
theorem cylPosL_inj {S : Nat} {r H : ℝ} (hr : 0 < r) (hH : 0 < H) (hS : 3 ≤ S) {p q : LP}
    (hp : CylValid S p) (hq : CylValid S q) (h : cylPosL r H S p = cylPosL r H S q) : p = q := by
  have hy : H / 2 ≠ -(H / 2) := by intro h; linarith
  have hy' : -(H / 2) ≠ H / 2 := fun h => hy h.symm
  have yne : ∀ a b : ℝ, cpos r a (H / 2) ≠ cpos r b (-(H / 2)) := by
    intro a b h; simp only [cpos, V3.mk.injEq] at h; exact hy h.2.1
  have axne : (⟨0, H / 2, 0⟩ : V3 ℝ) ≠ ⟨0, -(H / 2), 0⟩ := by
    intro h; simp only [V3.mk.injEq] at h; exact hy h.2.1
  rcases cylValid_cases hp with rfl | rfl | ⟨c, hc, rfl⟩ | ⟨c, hc, rfl⟩ <;>
    rcases cylValid_cases hq with rfl | rfl | ⟨c', hc', rfl⟩ | ⟨c', hc', rfl⟩
  all_goals
    (try rw [(cylPosL_vals r H S 0).1] at h)
    (try rw [(cylPosL_vals r H S 0).2.1] at h)
    (try rw [(cylPosL_vals r H S c).2.2.1] at h)
    (try rw [(cylPosL_vals r H S c).2.2.2] at h)
    (try rw [(cylPosL_vals r H S c').2.2.1] at h)
    (try rw [(cylPosL_vals r H S c').2.2.2] at h)
  all_goals first
    | exact absurd h axne
    | exact absurd h.symm axne
    | exact absurd h (cpos_ne_axis _ _ _ _ hr)
    | exact absurd h.symm (cpos_ne_axis _ _ _ _ hr)
    | exact absurd h (yne _ _)
    | exact absurd h.symm (yne _ _)
    | rw [cpos_inj hr (by omega) hc hc' h]

theorem cylinderPt_valid {S : Nat} (hS : 3 ≤ S) {v : Nat} (hv : v < cylinderNV S false false) :
    CylValid S (cylinderPt S v) := by
  simp only [cylinderNV, cylinderSideNV, circleNV, Bool.false_eq_true, if_false] at hv
  have hm : ∀ x, x % S < S := fun x => Nat.mod_lt _ (by omega)
  unfold cylinderPt CylValid
  split_ifs with h1 h2 h3 h4
  · have := hm (v / 2)
    rcases Nat.mod_two_eq_zero_or_one v with h | h <;> simp [h, this]
  · right; right; left; exact ⟨rfl, by simp only; omega⟩
  · left; rfl
  · right; right; right; exact ⟨rfl, hm _⟩
  · right; left; rfl

/-- **the cylinder's merge map merges exactly the coincident vertices** -/
theorem cylinder_merge_exact_aux {S : Nat} {r H : ℝ} (hr : 0 < r) (hH : 0 < H) (hS : 3 ≤ S) {v w : Nat}
    (hv : v < cylinderNV S false false) (hw : w < cylinderNV S false false) :
    cylinderPt S v = cylinderPt S w ↔ cylinderPos r H S v = cylinderPos r H S w := by
  rw [cylinderPos_eq_L r H hS hv, cylinderPos_eq_L r H hS hw]
  constructor
  · intro h; rw [h]
  · exact cylPosL_inj hr hH hS (cylinderPt_valid hS hv) (cylinderPt_valid hS hw)

/-! ### six-quad box: the corner table merges exactly the coincident vertices -/

theorem pm_eq_iff {a : ℝ} (ha : 0 < a) (p q : Prop) [Decidable p] [Decidable q] :
    (if p then a else -a) = (if q then a else -a) ↔ (p ↔ q) := by
  by_cases hp : p <;> by_cases hq : q <;> simp [hp, hq] <;> linarith

theorem cornerPos_inj {w h d : ℝ} (hw : 0 < w) (hh : 0 < h) (hd : 0 < d) {c c' : Nat} (hc : c < 8) (hc' : c' < 8)
    (e : cornerPos w h d c = cornerPos w h d c') : c = c' := by
  simp only [cornerPos, V3.New, V3.mk.injEq, n2a_real] at e
  obtain ⟨e1, e2, e3⟩ := e
  have hw2 : 0 < w / ((2 : ℕ) : ℝ) := by positivity
  have hh2 : 0 < h / ((2 : ℕ) : ℝ) := by positivity
  have hd2 : 0 < d / ((2 : ℕ) : ℝ) := by positivity
  rw [pm_eq_iff hw2] at e1
  rw [pm_eq_iff hh2] at e2
  rw [pm_eq_iff hd2] at e3
  omega

theorem cubeQuadsPt_lt {v : Nat} (hv : v < 24) : cubeQuadsPt v < 8 := by
  interval_cases v <;> decide

/-- the six-quad box's corner table merges exactly the coincident vertices -/
theorem cubeQuads_merge_exact_aux {w h d : ℝ} (hw : 0 < w) (hh : 0 < h) (hd : 0 < d) {v v' : Nat}
    (hv : v < cubeQuadsNV) (hv' : v' < cubeQuadsNV) :
    cubeQuadsPt v = cubeQuadsPt v' ↔ cubeQuadsPos w h d v = cubeQuadsPos w h d v' := by
  constructor
  · intro e; simp only [cubeQuadsPos, e]
  · exact cornerPos_inj hw hh hd (cubeQuadsPt_lt hv) (cubeQuadsPt_lt hv')

/-! ### sphere: distinct logical points have distinct positions; the unwelded copy map is exact -/

theorem thetaOf_eq_angOf (C c : Nat) : thetaOf C c = angOf C c := by unfold thetaOf angOf; ring

theorem phiOf_mem {R ρ : Nat} (hR : 1 ≤ R) (h : ρ ≤ R) : phiOf R ρ ∈ Set.Icc 0 π := by
  have hR0 : (0 : ℝ) < R := by exact_mod_cast (by omega : 0 < R)
  have h' : (ρ : ℝ) ≤ R := by exact_mod_cast h
  constructor
  · unfold phiOf; positivity
  · unfold phiOf; rw [div_le_iff₀ hR0]; nlinarith [pi_pos]

theorem phiOf_inj {R ρ ρ' : Nat} (hR : 1 ≤ R) (h : phiOf R ρ = phiOf R ρ') : ρ = ρ' := by
  have hR0 : (R : ℝ) ≠ 0 := by positivity
  unfold phiOf at h
  have hπ : π ≠ 0 := pi_ne_zero
  field_simp at h
  exact_mod_cast h

theorem uvValid_ring_le {R C : Nat} {p : LP} (hp : UvValid R C p) : p.1 ≤ R := by
  rcases hp with rfl | rfl | ⟨_, h, _⟩
  · exact Nat.zero_le _
  · exact le_refl _
  · exact h.le

theorem uvPosL_inj {R C : Nat} {r : ℝ} (hr : 0 < r) (hR : 2 ≤ R) (hC : 3 ≤ C) {p q : LP}
    (hp : UvValid R C p) (hq : UvValid R C q) (h : uvPosL r R C p = uvPosL r R C q) : p = q := by
  have hr0 : r ≠ 0 := hr.ne'
  simp only [uvPosL, Pang, V3.New, V3.Scale, V3.mk.injEq] at h
  obtain ⟨hx, hy, hz⟩ := h
  have hcos : cos (phiOf R p.1) = cos (phiOf R q.1) := mul_right_cancel₀ hr0 hy
  have hphi := Real.injOn_cos (phiOf_mem (by omega) (uvValid_ring_le hp)) (phiOf_mem (by omega) (uvValid_ring_le hq)) hcos
  have hρ : p.1 = q.1 := phiOf_inj (by omega) hphi
  rcases hp with rfl | rfl | ⟨p1, p2, p3⟩
  · rcases hq with rfl | rfl | ⟨q1, q2, q3⟩
    · rfl
    · simp only at hρ; omega
    · simp only at hρ; omega
  · rcases hq with rfl | rfl | ⟨q1, q2, q3⟩
    · simp only at hρ; omega
    · rfl
    · simp only at hρ; omega
  · rcases hq with rfl | rfl | ⟨q1, q2, q3⟩
    · simp only at hρ; omega
    · simp only at hρ; omega
    · obtain ⟨ρ, c⟩ := p
      obtain ⟨ρ', c'⟩ := q
      simp only at hρ p1 p2 p3 q1 q2 q3 hx hz
      subst hρ
      have hs : sin (phiOf R ρ) ≠ 0 := (sin_phi_pos p1 p2).ne'
      have hcx : cos (thetaOf C c) = cos (thetaOf C c') := mul_left_cancel₀ hs (mul_right_cancel₀ hr0 hx)
      have hcz : sin (thetaOf C c) = sin (thetaOf C c') := mul_left_cancel₀ hs (mul_right_cancel₀ hr0 hz)
      rw [thetaOf_eq_angOf, thetaOf_eq_angOf] at hcx hcz
      rw [ang_inj (by omega) p3 q3 hcx hcz]

/-- the welded sphere merges nothing: distinct vertex ids have distinct positions -/
theorem uvSpherePos_inj_enc {R C : Nat} {r : ℝ} (hr : 0 < r) (hR : 2 ≤ R) (hC : 3 ≤ C) {p q : LP}
    (hp : UvValid R C p) (hq : UvValid R C q)
    (h : uvSpherePos r R C (uvEnc R C p) = uvSpherePos r R C (uvEnc R C q)) : uvEnc R C p = uvEnc R C q := by
  rw [uvSpherePos_enc r hR hC p hp, uvSpherePos_enc r hR hC q hq] at h
  rw [uvPosL_inj hr hR hC hp hq h]
theorem src_is_enc {R C : Nat} (hR : 2 ≤ R) (hC : 3 ≤ C) {v : Nat} (hv : v < uvUnweldedNV R C) :
    ∃ p, UvValid R C p ∧ uvUnweldedSrc R C v = uvEnc R C p := by
  unfold uvUnweldedNV at hv
  have hR12 : R - 1 - 1 = R - 2 := by omega
  by_cases h6 : v < 6 * C
  · -- fan vertices
    obtain ⟨i, k, hi, hk, rfl⟩ : ∃ i k, i < C ∧ k < 6 ∧ v = 6 * i + k := ⟨v / 6, v % 6, by omega, by omega, by omega⟩
    have hn : (i + 1) % C < C := Nat.mod_lt _ (by omega)
    rw [src_fan hi hk]
    interval_cases k
    · exact ⟨(0, 0), Or.inl rfl, (uvEnc_top R C).symm⟩
    · exact ⟨(1, (i + 1) % C), Or.inr (Or.inr ⟨le_refl 1, by simp only; omega, hn⟩), by
        rw [uvEnc_grid C _ (le_refl 1) (by omega)]; simp; omega⟩
    · exact ⟨(1, i), Or.inr (Or.inr ⟨le_refl 1, by simp only; omega, hi⟩), by
        rw [uvEnc_grid C _ (le_refl 1) (by omega)]; simp; omega⟩
    · exact ⟨(R, 0), Or.inr (Or.inl rfl), (uvEnc_bot C hR).symm⟩
    · exact ⟨(R - 1, i), Or.inr (Or.inr ⟨by simp only; omega, by simp only; omega, hi⟩), by
        rw [uvEnc_grid C _ (by omega) (by omega), hR12, Nat.mul_comm C (R - 2)]; simp only; omega⟩
    · exact ⟨(R - 1, (i + 1) % C), Or.inr (Or.inr ⟨by simp only; omega, by simp only; omega, hn⟩), by
        rw [uvEnc_grid C _ (by omega) (by omega), hR12, Nat.mul_comm C (R - 2)]; simp only; omega⟩
  · -- quad vertices
    have hC0 : 0 < C := by omega
    set u := v - 6 * C with hu
    have hu4 : u < 4 * ((R - 2) * C) := by omega
    have hq : u / 4 < (R - 2) * C := by omega
    have hj : u / 4 / C < R - 2 := (Nat.div_lt_iff_lt_mul hC0).2 hq
    have hi : u / 4 % C < C := Nat.mod_lt _ hC0
    have hk : u % 4 < 4 := Nat.mod_lt _ (by omega)
    have hdm : u / 4 / C * C + u / 4 % C = u / 4 := by rw [Nat.mul_comm]; exact Nat.div_add_mod _ _
    have hv' : v = 6 * C + 4 * (u / 4 / C * C + u / 4 % C) + u % 4 := by rw [hdm]; omega
    generalize u / 4 / C = j at *
    generalize u / 4 % C = i at *
    generalize u % 4 = k at *
    have hn : (i + 1) % C < C := Nat.mod_lt _ hC0
    rw [hv', src_quad hi hk]
    interval_cases k
    · exact ⟨(j + 1, i), Or.inr (Or.inr ⟨by simp only; omega, by simp only; omega, hi⟩), by
        rw [uvEnc_grid C _ (by omega) (by omega)]; simp⟩
    · exact ⟨(j + 1, (i + 1) % C), Or.inr (Or.inr ⟨by simp only; omega, by simp only; omega, hn⟩), by
        rw [uvEnc_grid C _ (by omega) (by omega)]; simp⟩
    · exact ⟨(j + 2, (i + 1) % C), Or.inr (Or.inr ⟨by simp only; omega, by simp only; omega, hn⟩), by
        rw [uvEnc_grid C _ (by omega) (by omega)]; simp⟩
    · exact ⟨(j + 2, i), Or.inr (Or.inr ⟨by simp only; omega, by simp only; omega, hi⟩), by
        rw [uvEnc_grid C _ (by omega) (by omega)]; simp⟩

/-- **the unwelded sphere's copy map merges exactly the coincident vertices** -/
theorem uvUnwelded_merge_exact_aux {R C : Nat} {r : ℝ} (hr : 0 < r) (hR : 2 ≤ R) (hC : 3 ≤ C) {v w : Nat}
    (hv : v < uvUnweldedNV R C) (hw : w < uvUnweldedNV R C) :
    uvUnweldedSrc R C v = uvUnweldedSrc R C w ↔ uvUnweldedPos r R C v = uvUnweldedPos r R C w := by
  unfold uvUnweldedPos
  constructor
  · intro h; rw [h]
  · intro h
    obtain ⟨p, hp, ep⟩ := src_is_enc hR hC hv
    obtain ⟨q, hq, eq⟩ := src_is_enc hR hC hw
    rw [ep, eq] at h ⊢
    exact uvSpherePos_inj_enc hr hR hC hp hq h

theorem uvEnc_uvDec {R C : Nat} (hR : 2 ≤ R) (hC : 3 ≤ C) {v : Nat} (hv : v < uvSphereNV R C) :
    UvValid R C (uvDec R C v) ∧ uvEnc R C (uvDec R C v) = v := by
  unfold uvSphereNV at hv
  by_cases h0 : v = 0
  · subst h0; simp [uvDec, UvValid, uvEnc_top]
  · by_cases h1 : v = uvBottom R C
    · have hb : uvBottom R C ≠ 0 := by simp [uvBottom]
      have e : uvDec R C v = (R, 0) := by simp [uvDec, h1, hb]
      rw [e]; exact ⟨Or.inr (Or.inl rfl), by rw [uvEnc_bot C hR, h1]⟩
    · have hC0 : 0 < C := by omega
      have e : uvDec R C v = ((v - 1) / C + 1, (v - 1) % C) := by simp [uvDec, h0, h1]
      unfold uvBottom at h1
      have hlt : v - 1 < (R - 1) * C := by omega
      have hq : (v - 1) / C < R - 1 := (Nat.div_lt_iff_lt_mul hC0).2 hlt
      have hm : (v - 1) % C < C := Nat.mod_lt _ hC0
      have hdm : (v - 1) / C * C + (v - 1) % C = v - 1 := by rw [Nat.mul_comm]; exact Nat.div_add_mod _ _
      rw [e]
      generalize (v - 1) / C = a at *
      generalize (v - 1) % C = b at *
      refine ⟨Or.inr (Or.inr ⟨by simp only; omega, by simp only; omega, hm⟩), ?_⟩
      rw [uvEnc_grid C _ (by omega) (by omega)]
      simp only [Nat.add_sub_cancel]
      omega

/-- the welded sphere has no coincident vertices: it merges nothing -/
theorem uvSphere_pos_inj_aux {R C : Nat} {r : ℝ} (hr : 0 < r) (hR : 2 ≤ R) (hC : 3 ≤ C) {v w : Nat}
    (hv : v < uvSphereNV R C) (hw : w < uvSphereNV R C) (h : uvSpherePos r R C v = uvSpherePos r R C w) : v = w := by
  obtain ⟨pv, ev⟩ := uvEnc_uvDec hR hC hv
  obtain ⟨pw, ew⟩ := uvEnc_uvDec hR hC hw
  rw [← ev, ← ew] at h ⊢
  exact uvSpherePos_inj_enc hr hR hC pv pw h

/-- `Closed` in counting form: every directed edge occurs exactly once, its reverse occurs exactly once, no loops -/
theorem closed_iff_count {β : Type} [DecidableEq β] (ts : List (β × β × β)) :
    Closed ts ↔ ∀ e ∈ edges ts, (edges ts).count e = 1 ∧ (edges ts).count (e.2, e.1) = 1 ∧ e.1 ≠ e.2 := by
  constructor
  · rintro ⟨hnd, htw, hnl⟩ e he
    exact ⟨List.count_eq_one_of_mem hnd he, List.count_eq_one_of_mem hnd (htw e he), hnl e he⟩
  · intro h
    refine ⟨?_, ?_, ?_⟩
    · rw [List.nodup_iff_count_le_one]
      intro e
      by_cases he : e ∈ edges ts
      · exact (h e he).1.le
      · rw [List.count_eq_zero_of_not_mem he]; exact Nat.zero_le _
    · intro e he
      have := (h e he).2.1
      exact List.count_pos_iff.1 (by omega)
    · exact fun e he => (h e he).2.2

/-! ### hemisphere: no two vertices coincide -/

theorem psiOf_inj {R ρ ρ' : Nat} (hR : 1 ≤ R) (h1 : 1 ≤ ρ) (h1' : 1 ≤ ρ') (h : psiOf R ρ = psiOf R ρ') : ρ = ρ' := by
  have hR0 : (R : ℝ) ≠ 0 := by positivity
  have hπ : π ≠ 0 := pi_ne_zero
  unfold psiOf at h
  have : ((ρ - 1 : ℕ) : ℝ) = ((ρ' - 1 : ℕ) : ℝ) := by
    field_simp at h
    linarith
  have : ρ - 1 = ρ' - 1 := by exact_mod_cast this
  omega

theorem hemiPosL_inj {R C : Nat} {r : ℝ} (hr : 0 < r) (hR : 2 ≤ R) (hC : 3 ≤ C) {p q : LP}
    (hp : UvValid R C p) (hq : UvValid R C q) (h : hemiPosL r R C p = hemiPosL r R C q) : p = q := by
  have hr0 : r ≠ 0 := hr.ne'
  have hR0 : R ≠ 0 := by omega
  -- the pole is `Pang r 0 θ`
  have pole : ∀ θ, (⟨0, r, 0⟩ : V3 ℝ) = Pang r 0 θ := by intro θ; simp [Pang, V3.New, V3.Scale]
  -- a point on the sphere is not the origin
  have ne0 : ∀ φ θ, Pang r φ θ ≠ ⟨0, 0, 0⟩ := by
    intro φ θ e
    have := Pang_lengthSquared r φ θ
    rw [e] at this
    simp [V3.LengthSquared] at this
    exact hr0 (pow_eq_zero_iff (by norm_num) |>.1 this.symm)
  -- sphere points: equal positions force equal polar angle (in [0, π/2]) and, off the pole, equal azimuth
  have key : ∀ {φ φ' θ θ' : ℝ}, 0 ≤ φ → φ ≤ π → 0 ≤ φ' → φ' ≤ π → Pang r φ θ = Pang r φ' θ' →
      φ = φ' ∧ (0 < sin φ → cos θ = cos θ' ∧ sin θ = sin θ') := by
    intro φ φ' θ θ' a1 a2 b1 b2 e
    simp only [Pang, V3.New, V3.Scale, V3.mk.injEq] at e
    obtain ⟨hx, hy, hz⟩ := e
    have hφ : φ = φ' := Real.injOn_cos ⟨a1, a2⟩ ⟨b1, b2⟩ (mul_right_cancel₀ hr0 hy)
    subst hφ
    refine ⟨rfl, fun hs => ?_⟩
    exact ⟨mul_left_cancel₀ hs.ne' (mul_right_cancel₀ hr0 hx), mul_left_cancel₀ hs.ne' (mul_right_cancel₀ hr0 hz)⟩
  have psi_rng : ∀ {ρ}, 1 ≤ ρ → ρ < R → 0 < psiOf R ρ ∧ psiOf R ρ ≤ π := fun h1 h2 =>
    ⟨(psiOf_pos_le h1 h2).1, by linarith [(psiOf_pos_le h1 h2).2, pi_pos]⟩
  rcases hp with rfl | rfl | ⟨p1, p2, p3⟩ <;> rcases hq with rfl | rfl | ⟨q1, q2, q3⟩
  · rfl
  · simp only [hemiPosL, if_true, hR0, if_false] at h
    rw [pole 0] at h; exact absurd h.symm (ne0 _ _)
  · obtain ⟨ρ', c'⟩ := q
    simp only at q1 q2 q3
    simp only [hemiPosL, if_true, if_false, show ρ' ≠ 0 by omega, show ρ' ≠ R by omega] at h
    exact absurd h.symm (ne0 _ _)
  · simp only [hemiPosL, if_true, hR0, if_false] at h
    rw [pole 0] at h; exact absurd h (ne0 _ _)
  · rfl
  · obtain ⟨ρ', c'⟩ := q
    simp only at q1 q2 q3
    simp only [hemiPosL, if_true, if_false, hR0, show ρ' ≠ 0 by omega, show ρ' ≠ R by omega] at h
    rw [pole 0] at h
    have := (key (le_refl 0) pi_pos.le (psi_rng q1 q2).1.le (psi_rng q1 q2).2 h).1
    linarith [(psi_rng q1 q2).1]
  · obtain ⟨ρ, c⟩ := p
    simp only at p1 p2 p3
    simp only [hemiPosL, if_true, if_false, show ρ ≠ 0 by omega, show ρ ≠ R by omega] at h
    exact absurd h (ne0 _ _)
  · obtain ⟨ρ, c⟩ := p
    simp only at p1 p2 p3
    simp only [hemiPosL, if_true, if_false, hR0, show ρ ≠ 0 by omega, show ρ ≠ R by omega] at h
    rw [pole 0] at h
    have := (key (psi_rng p1 p2).1.le (psi_rng p1 p2).2 (le_refl 0) pi_pos.le h).1
    linarith [(psi_rng p1 p2).1]
  · obtain ⟨ρ, c⟩ := p
    obtain ⟨ρ', c'⟩ := q
    simp only at p1 p2 p3 q1 q2 q3
    simp only [hemiPosL, if_false, show ρ ≠ 0 by omega, show ρ ≠ R by omega, show ρ' ≠ 0 by omega,
      show ρ' ≠ R by omega] at h
    obtain ⟨hψ, hθ⟩ := key (psi_rng p1 p2).1.le (psi_rng p1 p2).2 (psi_rng q1 q2).1.le (psi_rng q1 q2).2 h
    have hρ : ρ = ρ' := psiOf_inj (by omega) p1 q1 hψ
    subst hρ
    obtain ⟨hc, hs⟩ := hθ (sin_psi_pos p1 p2)
    rw [thetaOf_eq_angOf, thetaOf_eq_angOf] at hc hs
    rw [ang_inj (by omega) p3 q3 hc hs]

/-- the hemisphere has no two vertices at the same position -/
theorem hemisphere_pos_inj_aux {R C : Nat} {r : ℝ} (hr : 0 < r) (hR : 2 ≤ R) (hC : 3 ≤ C) {v w : Nat}
    (hv : v < uvSphereNV R C) (hw : w < uvSphereNV R C) (h : hemispherePos r R C v = hemispherePos r R C w) : v = w := by
  obtain ⟨pv, ev⟩ := uvEnc_uvDec hR hC hv
  obtain ⟨pw, ew⟩ := uvEnc_uvDec hR hC hw
  rw [← ev, ← ew] at h ⊢
  rw [hemispherePos_enc r hR hC _ pv, hemispherePos_enc r hR hC _ pw] at h
  rw [hemiPosL_inj hr hR hC pv pw h]

end PolyVerif.Solids
