/-
  C11 — dependency cones, the inductive invariant (I1, I2) and the correctness of `Eval`
  (core Lean only).
-/
import PolyVerif.Lemmas.Nodes

namespace PolyVerif.Nodes
variable {V : Type}

/-! ### dependency cone -/

/-- `Reach g i k`: `k` is in the dependency cone of `i` (reflexive-transitive dependencies) -/
inductive Reach (g : Graph V) : Nat → Nat → Prop
  | refl (i : Nat) : Reach g i i
  | step {i : Nat} {s : SNode V} {d k : Nat} : g i = .struct s → d ∈ s.deps → Reach g d k → Reach g i k

theorem Reach.rank_le {rank : Nat → Nat} {F : Nat} {g : Graph V} (hwf : Ranked rank F g) {i k : Nat}
    (h : Reach g i k) : rank k ≤ rank i := by
  induction h with
  | refl => exact Nat.le_refl _
  | step hs hd _ ih => have := hwf.2 _ _ hs _ hd; omega

/-- a node is not in the cone of its own dependencies -/
theorem Reach.not_dep {rank : Nat → Nat} {F : Nat} {g : Graph V} (hwf : Ranked rank F g) {i d : Nat} {s : SNode V}
    (hs : g i = .struct s) (hd : d ∈ s.deps) : ¬ Reach g d i := by
  intro h
  have := h.rank_le hwf
  have := hwf.2 i s hs d hd
  omega

theorem Reach.trans {g : Graph V} {i j k : Nat} (h1 : Reach g i j) (h2 : Reach g j k) : Reach g i k := by
  induction h1 with
  | refl => exact h2
  | step hs hd _ ih => exact .step hs hd (ih h2)

theorem Reach.of_static {g g' : Graph V} (hs : SameStatic g' g) {i k : Nat} (h : Reach g i k) : Reach g' i k := by
  induction h with
  | refl => exact .refl _
  | @step i s d _ hsi hd _ ih =>
    have h1 := hs i
    rw [hsi] at h1
    obtain ⟨t, ht, -, -, -, hdeps⟩ := StaticEq.struct_left h1
    exact .step ht (hdeps ▸ hd) ih

/-- the executable cone of the driver's oracle is the cone of the theorems -/
theorem inCone_iff {rank : Nat → Nat} {F : Nat} {g : Graph V} (hwf : Ranked rank F g) (f j k : Nat) (hf : rank j < f) :
    inCone f g j k = true ↔ Reach g j k := by
  induction f generalizing j with
  | zero => omega
  | succ f ih =>
    simp only [inCone, Bool.or_eq_true, beq_iff_eq]
    constructor
    · rintro (h | h)
      · subst h; exact .refl _
      · cases hs : g j with
        | param x v => rw [hs] at h; cases h
        | struct s =>
          rw [hs] at h
          simp only [List.any_eq_true] at h
          obtain ⟨d, hd, hdk⟩ := h
          have := hwf.2 j s hs d hd
          exact .step hs hd ((ih d (by omega)).1 hdk)
    · intro h
      cases h with
      | refl => exact .inl rfl
      | @step _ s d _ hs hd hr =>
        right
        rw [hs]
        simp only [List.any_eq_true]
        have := hwf.2 j s hs d hd
        exact ⟨d, hd, (ih d (by omega)).2 hr⟩

/-- `Outdated` looks only at the cone (fuel level, no guard needed) -/
theorem outdated_congr_cone (f : Nat) (g g' : Graph V) (k : Nat)
    (h : ∀ j, Reach g k j → g' j = g j) : outdated f g' k = outdated f g k := by
  induction f generalizing k with
  | zero => rfl
  | succ f ih =>
    simp only [outdated]
    rw [h k (.refl k)]
    cases hs : g k with
    | param x v => rfl
    | struct s =>
      dsimp only
      cases hr : s.remembered with
      | none => rfl
      | some rv =>
        dsimp only
        congr 1
        apply mismatch_congr
        intro d hd
        refine ⟨?_, ih d (fun j hj => h j (.step hs hd hj))⟩
        simp [ver, h d (.step hs hd (.refl d))]

theorem evalSpec_congr_cone (f : Nat) (g g' : Graph V) (k : Nat)
    (h : ∀ j, Reach g k j → g' j = g j) : evalSpec f g' k = evalSpec f g k := by
  induction f generalizing k with
  | zero => simp [evalSpec, val, h k (.refl k)]
  | succ f ih =>
    simp only [evalSpec]
    rw [h k (.refl k)]
    cases hs : g k with
    | param x v => rfl
    | struct s =>
      dsimp only
      congr 1
      apply specPullS_congr
      intro d hd
      exact ih d (fun j hj => h j (.step hs hd hj))

theorem Outdated_congr_cone (F : Nat) (g g' : Graph V) (k : Nat) (h : ∀ j, Reach g k j → g' j = g j) :
    Outdated F g' k = Outdated F g k := outdated_congr_cone _ g g' k h

theorem Spec_congr_cone (F : Nat) (g g' : Graph V) (k : Nat) (h : ∀ j, Reach g k j → g' j = g j) :
    Spec F g' k = Spec F g k := evalSpec_congr_cone _ g g' k h

/-- `evalSpec` looks only at parameters, processors and wiring -/
theorem Spec_static {rank : Nat → Nat} {F : Nat} {g g' : Graph V} (hwf : Ranked rank F g) (hs : SameStatic g' g) (i : Nat) :
    Spec F g' i = Spec F g i := by
  induction hn : rank i using Nat.strongRecOn generalizing i with
  | _ n ih =>
    subst hn
    rw [Spec_eq g' (hwf.of_static hs), Spec_eq g hwf]
    have h1 := hs i
    cases hg : g i with
    | param x v =>
      rw [hg] at h1
      rw [StaticEq.param_left h1]
    | struct t =>
      rw [hg] at h1
      obtain ⟨s, hs', hfn, hsc, har, hdeps⟩ := StaticEq.struct_left h1
      have hrd : s.next = t.next := by rw [hs'] at h1; exact StaticEq.reads_eq h1
      rw [hs']
      dsimp only
      rw [hfn, hsc, har, hdeps, hrd]
      congr 1
      apply specPullS_congr
      intro d hd
      exact ih (rank d) (hwf.2 i t hg d hd) d rfl

/-! ### staleness propagates upwards -/

section
variable {rank : Nat → Nat} {F : Nat}

theorem Outdated_of_dep {g : Graph V} (hwf : Ranked rank F g) {k d : Nat} {s : SNode V} (hs : g k = .struct s)
    (hd : d ∈ s.deps) (hod : Outdated F g d = true) : Outdated F g k = true := by
  rw [Outdated_eq g hwf, hs]
  dsimp only
  cases hr : s.remembered with
  | none => rfl
  | some rv =>
    dsimp only
    rw [mismatch_true_of_mem g _ _ rv d hd hod]
    simp

theorem Outdated_of_reach {g : Graph V} (hwf : Ranked rank F g) {k j : Nat} (h : Reach g k j)
    (hod : Outdated F g j = true) : Outdated F g k = true := by
  induction h with
  | refl => exact hod
  | step hs hd _ ih => exact Outdated_of_dep hwf hs hd (ih hod)

theorem Outdated_param {g : Graph V} (hwf : Ranked rank F g) {p : Nat} {x : V} {v : Nat} (h : g p = .param x v) :
    Outdated F g p = false := by
  rw [Outdated_eq g hwf, h]

/-- a processed node: remembered versions cover all dependencies position by position -/
theorem Outdated_false_struct {g : Graph V} (hwf : Ranked rank F g) {k : Nat} {s : SNode V} (hs : g k = .struct s)
    (h : Outdated F g k = false) :
    ∃ rv, s.remembered = some rv ∧ s.flag = false ∧ mismatch g (Outdated F g) s.deps rv = false := by
  rw [Outdated_eq g hwf, hs] at h
  dsimp only at h
  cases hr : s.remembered with
  | none => rw [hr] at h; cases h
  | some rv =>
    rw [hr] at h
    dsimp only at h
    simp only [Bool.or_eq_false_iff] at h
    exact ⟨rv, rfl, h.1, h.2⟩

end

/-! ### the invariant -/

structure Inv (F : Nat) (g : Graph V) : Prop where
  /-- the guard: acyclic, fewer than `F` levels -/
  wf : Acyclic F g
  /-- I1: a node that is not outdated holds the from-scratch value -/
  fresh : ∀ i s, g i = .struct s → Outdated F g i = false → s.cache = Spec F g i
  /-- I2: remembered dependency versions are as many as the dependencies and pointwise `≤` the
      current ones, unless the node is flagged -/
  rem : ∀ i s rv, g i = .struct s → s.remembered = some rv → s.flag = false →
    All2 (fun d r => r ≤ ver g d) s.deps rv

section
variable {F : Nat}

theorem val_eq_spec {g : Graph V} (hinv : Inv F g) {d : Nat} (h : Outdated F g d = false) : val g d = Spec F g d := by
  obtain ⟨rank, hwf⟩ := hinv.wf
  cases hs : g d with
  | param x v => rw [Spec_eq g hwf, hs]; simp [val, hs]
  | struct s => simp only [val, hs]; exact hinv.fresh d s hs h

theorem ver_set_ne (g : Graph V) {p j : Nat} (n : Node V) (h : j ≠ p) : ver (g.set p n) j = ver g j := by
  simp [ver, Graph.set_ne g n h]

/-- a node whose version went up makes everything above it outdated -/
theorem bump_up {g : Graph V} (hinv : Inv F g) (p : Nat) (n' : Node V) (hwf' : Acyclic F (g.set p n'))
    (hver : ver g p < ver (g.set p n') p) {k : Nat} (hk : k ≠ p) (h : Reach (g.set p n') k p) :
    Outdated F (g.set p n') k = true := by
  obtain ⟨rank', hwf'⟩ := hwf'
  suffices haux : ∀ k q, Reach (g.set p n') k q → q = p → k ≠ p → Outdated F (g.set p n') k = true from
    haux k p h rfl hk
  intro k q h
  induction h with
  | refl => intro h1 h2; exact absurd h1 h2
  | @step i s d _ hs hd hreach ih =>
    intro hq hk
    by_cases hdp : d = p
    · subst hdp
      rw [Graph.set_ne g n' hk] at hs
      rw [Outdated_eq _ hwf', Graph.set_ne g n' hk, hs]
      dsimp only
      cases hr : s.remembered with
      | none => rfl
      | some rv =>
        dsimp only
        cases hf : s.flag with
        | true => rfl
        | false =>
          have h2 := hinv.rem i s rv hs hr hf
          rw [mismatch_true_of_forall₂ _ _ _ _ _ h2 d hd (fun r hr => by omega)]
          rfl
    · exact Outdated_of_dep hwf' hs hd (ih hq hdp)

/-- a change confined to node `p` that leaves everything above `p` outdated preserves the invariant -/
theorem Inv.local {g : Graph V} (hinv : Inv F g) (p : Nat) (n' : Node V)
    (hwf' : Acyclic F (g.set p n'))
    (hver : ver g p ≤ ver (g.set p n') p)
    (hup : ∀ k, k ≠ p → Reach (g.set p n') k p → Outdated F (g.set p n') k = true)
    (hfresh : ∀ s, n' = .struct s → Outdated F (g.set p n') p = false → s.cache = Spec F (g.set p n') p)
    (hrem : ∀ s rv, n' = .struct s → s.remembered = some rv → s.flag = false →
      All2 (fun d r => r ≤ ver (g.set p n') d) s.deps rv) :
    Inv F (g.set p n') := by
  have hmono : ∀ d, ver g d ≤ ver (g.set p n') d := by
    intro d
    by_cases hd : d = p
    · subst hd; exact hver
    · rw [ver_set_ne g n' hd]; exact Nat.le_refl _
  refine ⟨hwf', ?_, ?_⟩
  · intro k s hs hod
    by_cases hk : k = p
    · subst hk
      rw [Graph.set_same] at hs
      exact hfresh s hs hod
    · have hnr : ¬ Reach (g.set p n') k p := by
        intro hr
        rw [hup k hk hr] at hod
        cases hod
      have hagree : ∀ j, Reach (g.set p n') k j → g j = (g.set p n') j := by
        intro j hj
        by_cases hjp : j = p
        · subst hjp; exact absurd hj hnr
        · rw [Graph.set_ne g n' hjp]
      rw [Graph.set_ne g n' hk] at hs
      rw [← Outdated_congr_cone F _ g k hagree] at hod
      rw [← Spec_congr_cone F _ g k hagree]
      exact hinv.fresh k s hs hod
  · intro k s rv hs hr hf
    by_cases hk : k = p
    · subst hk
      rw [Graph.set_same] at hs
      exact hrem s rv hs hr hf
    · rw [Graph.set_ne g n' hk] at hs
      exact (hinv.rem k s rv hs hr hf).imp (fun a b _ hab => Nat.le_trans hab (hmono a))

end

/-! ### states reachable by evaluation steps -/

structure Evolves (F : Nat) (g g' : Graph V) : Prop where
  static : SameStatic g' g
  /-- only outdated nodes are touched -/
  keep : ∀ k, Outdated F g k = false → g' k = g k
  mono : ∀ k, ver g k ≤ ver g' k

section
variable {rank : Nat → Nat} {F : Nat}

theorem Evolves.refl (g : Graph V) : Evolves F g g :=
  ⟨SameStatic.refl g, fun _ _ => rfl, fun _ => Nat.le_refl _⟩

/-- a node that is not outdated stays so when only outdated nodes are touched -/
theorem Outdated_stable {g g' : Graph V} (hwf : Ranked rank F g) (hkeep : ∀ k, Outdated F g k = false → g' k = g k)
    {k : Nat} (h : Outdated F g k = false) : Outdated F g' k = false := by
  rw [Outdated_congr_cone F g g' k]
  · exact h
  · intro j hj
    apply hkeep
    cases hoj : Outdated F g j with
    | false => rfl
    | true => rw [Outdated_of_reach hwf hj hoj] at h; cases h

theorem Evolves.trans {a b c : Graph V} (hwf : Ranked rank F a) (h1 : Evolves F a b) (h2 : Evolves F b c) : Evolves F a c := by
  refine ⟨h2.static.trans h1.static, ?_, fun k => Nat.le_trans (h1.mono k) (h2.mono k)⟩
  intro k hk
  rw [h2.keep k (Outdated_stable hwf h1.keep hk), h1.keep k hk]

end

/-! ### correctness of `Eval` (`Struct.Value()`) -/

def cnt (l : Log) (k : Nat) : Nat := l.countP (fun e => e.1 == k)

theorem cnt_append (l1 l2 : Log) (k : Nat) : cnt (l1 ++ l2) k = cnt l1 k + cnt l2 k := by
  simp [cnt, List.countP_append]

theorem cnt_eq_zero {l : Log} {k : Nat} (h : ∀ e ∈ l, e.1 ≠ k) : cnt l k = 0 := by
  simp only [cnt, List.countP_eq_zero]
  intro e he
  simpa using h e he

structure EvalOK (F : Nat) (g : Graph V) (i : Nat) (r : Graph V × Log) : Prop where
  inv : Inv F r.1
  evo : Evolves F g r.1
  /-- the value `Value()` returns is the from-scratch value — for every processor -/
  value : val r.1 i = Spec F g i
  /-- for processors that read all their inputs the node ends up `Processed` (for a processor
      that skipped a stale struct input it does not: the known finding) -/
  fresh : ReadsAll g → Outdated F r.1 i = false
  /-- I3: only nodes of the cone of `i` change -/
  frame : ∀ k, ¬ Reach g i k → r.1 k = g k
  logOut : ∀ e ∈ r.2, Outdated F g e.1 = true
  logCone : ∀ e ∈ r.2, Reach g i e.1
  count : ∀ k, ver r.1 k = ver g k + cnt r.2 k

structure PullOK (F : Nat) (g : Graph V) (next : List (Option V) → Option Nat) (ds : List Nat) (m : Nat)
    (es : List (Option V)) (r : Graph V × List (Option V) × Log) : Prop where
  inv : Inv F r.1
  evo : Evolves F g r.1
  /-- an input pulled during this `Process()` is `Processed` at the end (all-reading graphs) -/
  fresh : ReadsAll g → ∀ (k d : Nat), ds[k]? = some d → es[k]? = some none → (∃ v, r.2.1[k]? = some (some v)) →
    Outdated F r.1 d = false
  /-- the entries `Process()` collected are those of the from-scratch `Process()` -/
  vals : r.2.1 = specPullS (Spec F g) next ds m es
  frame : ∀ k, (∀ d ∈ ds, ¬ Reach g d k) → r.1 k = g k
  logOut : ∀ e ∈ r.2.2, Outdated F g e.1 = true
  logCone : ∀ e ∈ r.2.2, ∃ d ∈ ds, Reach g d e.1
  count : ∀ k, ver r.1 k = ver g k + cnt r.2.2 k

section
variable {rank : Nat → Nat} {F : Nat}

theorem pull_ok (n : Nat)
    (ih : ∀ d, rank d < n → ∀ g : Graph V, Ranked rank F g → Inv F g → EvalOK F g d (Eval F g d))
    (next : List (Option V) → Option Nat)
    (ds : List Nat) (hds : ∀ d ∈ ds, rank d < n) (m : Nat) (g : Graph V) (es : List (Option V))
    (hwf : Ranked rank F g) (hinv : Inv F g) :
    PullOK F g next ds m es (pullS (Eval F) next ds m g es) := by
  have stop : ∀ (m' : Nat) (g : Graph V) (es : List (Option V)), Inv F g →
      specPullS (Spec F g) next ds m' es = es → PullOK F g next ds m' es (g, es, []) := by
    intro m' g es hinv hx
    refine ⟨hinv, Evolves.refl g, ?_, hx.symm, fun _ _ => rfl, by simp, by simp, by simp [cnt]⟩
    intro _ k d _ h1 h2
    obtain ⟨v, h2⟩ := h2
    dsimp only at h2
    rw [h1] at h2
    cases h2
  induction m generalizing g es with
  | zero => exact stop 0 g es hinv rfl
  | succ m ihm =>
    have stop' := stop (m+1) g es hinv
    simp only [pullS]
    cases hnx : next es with
    | none => exact stop' (by simp [specPullS, hnx])
    | some k =>
      dsimp only
      cases hdk : ds[k]? with
      | none => exact stop' (by simp [specPullS, hnx, hdk])
      | some d =>
        dsimp only
        have hdm : d ∈ ds := List.mem_of_getElem? hdk
        have hd : rank d < n := hds d hdm
        have h1 := ih d hd g hwf hinv
        have hwf1 : Ranked rank F (Eval F g d).1 := hwf.of_static h1.evo.static
        have h2 := ihm (Eval F g d).1 (es.set k (some (val (Eval F g d).1 d))) hwf1 h1.inv
        refine ⟨h2.inv, Evolves.trans hwf h1.evo h2.evo, ?_, ?_, ?_, ?_, ?_, ?_⟩
        · intro hra k' d' hk' hes' hfin
          by_cases hkk : k' = k
          · subst hkk
            rw [hdk] at hk'
            cases hk'
            exact Outdated_stable hwf1 h2.evo.keep (h1.fresh hra)
          · refine h2.fresh (hra.of_static h1.evo.static) k' d' hk' ?_ hfin
            rw [List.getElem?_set_ne (fun h => hkk h.symm)]
            exact hes'
        · dsimp only
          rw [h2.vals, h1.value]
          have hsp : specPullS (Spec F g) next ds (m+1) es
              = specPullS (Spec F g) next ds m (es.set k (some (Spec F g d))) := by
            simp [specPullS, hnx, hdk]
          rw [hsp]
          apply specPullS_congr
          intro e _
          exact Spec_static hwf h1.evo.static e
        · intro k' hk'
          dsimp only
          rw [h2.frame k' (fun e he hr => hk' e he (hr.of_static h1.evo.static.symm)), h1.frame k' (hk' d hdm)]
        · intro e he
          dsimp only at he
          rcases List.mem_append.1 he with he | he
          · exact h1.logOut e he
          · have := h2.logOut e he
            cases ho : Outdated F g e.1 with
            | true => rfl
            | false => rw [Outdated_stable hwf h1.evo.keep ho] at this; exact absurd this (by simp)
        · intro e he
          dsimp only at he
          rcases List.mem_append.1 he with he | he
          · exact ⟨d, hdm, h1.logCone e he⟩
          · obtain ⟨d', hd', hr⟩ := h2.logCone e he
            exact ⟨d', hd', hr.of_static h1.evo.static.symm⟩
        · intro k'
          dsimp only
          rw [h2.count k', h1.count k', cnt_append]
          omega

end

/-! ### the all-reading strategy fills every slot -/

theorem specPullS_length (ev : Nat → V) (next : List (Option V) → Option Nat) (ds : List Nat) (m : Nat)
    (es : List (Option V)) (n : Nat) (h : es.length = n) : (specPullS ev next ds m es).length = n := by
  induction m generalizing es with
  | zero => exact h
  | succ m ih =>
    simp only [specPullS]
    split
    · exact h
    · split
      · exact h
      · exact ih _ (by simp [h])


theorem nextAll_fills (ev : Nat → V) (ds : List Nat) (m : Nat) (es : List (Option V))
    (hlen : es.length = ds.length) (hm : es.countP Option.isNone ≤ m) :
    ∀ x ∈ specPullS ev nextAll ds m es, x.isNone = false := by
  induction m generalizing es with
  | zero =>
    simp only [specPullS]
    intro x hx
    cases hxn : x.isNone with
    | false => rfl
    | true =>
      have := List.countP_pos_iff.2 ⟨x, hx, hxn⟩
      omega
  | succ m ih =>
    simp only [specPullS]
    cases hnx : nextAll es with
    | none =>
      dsimp only
      exact List.findIdx?_eq_none_iff.1 hnx
    | some k =>
      dsimp only
      obtain ⟨hk, hpk, -⟩ := List.findIdx?_eq_some_iff_getElem.1 hnx
      have hkd : k < ds.length := hlen ▸ hk
      rw [List.getElem?_eq_getElem hkd]
      dsimp only
      apply ih
      · simp [hlen]
      · have hc : (es.set k (some (ev ds[k]))).countP Option.isNone + 1 = es.countP Option.isNone := by
          rw [List.countP_set hk]
          simp [hpk]
          have := List.countP_pos_iff.2 ⟨es[k], List.getElem_mem hk, hpk⟩
          omega
        omega

section
variable {rank : Nat → Nat} {F : Nat}

theorem Eval_ok_aux (n : Nat) : ∀ i, rank i = n → ∀ g : Graph V, Ranked rank F g → Inv F g →
    EvalOK F g i (Eval F g i) := by
  induction n using Nat.strongRecOn with
  | _ n ih =>
    intro i hi g hwf hinv
    subst hi
    have trivialCase : Outdated F g i = false → EvalOK F g i (g, []) := fun ho =>
      ⟨hinv, Evolves.refl g, val_eq_spec hinv ho, fun _ => ho, fun _ _ => rfl, by simp, by simp, by simp [cnt]⟩
    rw [Eval_eq g hwf]
    cases hs : g i with
    | param x v => exact trivialCase (Outdated_param hwf hs)
    | struct s =>
      dsimp only
      cases ho : Outdated F g i with
      | false => simpa using trivialCase ho
      | true =>
        simp only [if_true]
        have hp := pull_ok (rank i) (fun d hd g' hw' hi' => ih (rank d) hd d rfl g' hw' hi')
          (s.next s.scalars s.arrays) s.deps (hwf.2 i s hs) s.deps.length g (List.replicate s.deps.length none) hwf hinv
        generalize hr : pullS (Eval F) (s.next s.scalars s.arrays) s.deps s.deps.length g
          (List.replicate s.deps.length none) = r at hp
        have hwf1 : Ranked rank F r.1 := hwf.of_static hp.evo.static
        -- the state after the dependencies have been pulled
        have hg1i : r.1 i = .struct s := by
          rw [hp.frame i (fun d hd => Reach.not_dep hwf hs hd), hs]
        have hver1 : ver r.1 i = s.version := by simp [ver, hg1i]
        have hstat : SameStatic (r.1.set i (.struct (s.executed r.1 r.2.1))) g := by
          intro j
          by_cases hj : j = i
          · subst hj; rw [Graph.set_same, hs]; simp [StaticEq, SNode.executed]
          · rw [Graph.set_ne _ _ hj]; exact hp.evo.static j
        have hwf' : Ranked rank F (r.1.set i (.struct (s.executed r.1 r.2.1))) := hwf.of_static hstat
        have hdne : ∀ d ∈ s.deps, d ≠ i := fun d hd h => by
          have := hwf.2 i s hs d hd; subst h; omega
        have hverd : ∀ d ∈ s.deps, ver (r.1.set i (.struct (s.executed r.1 r.2.1))) d = ver r.1 d :=
          fun d hd => ver_set_ne _ _ (hdne d hd)
        have hvi : ver (r.1.set i (.struct (s.executed r.1 r.2.1))) i = s.version + 1 := by
          simp [ver, SNode.executed]
        -- the stored value is the from-scratch value, whatever was skipped
        have hcache : (s.executed r.1 r.2.1).cache = Spec F g i := by
          rw [Spec_eq g hwf, hs]
          simp only [SNode.executed]
          rw [hp.vals]
        have hfresh' : ReadsAll g → Outdated F (r.1.set i (.struct (s.executed r.1 r.2.1))) i = false := by
          intro hra
          rw [Outdated_eq _ hwf', Graph.set_same]
          simp only [SNode.executed, Bool.false_or]
          change mismatch _ _ s.deps _ = false
          rw [mismatch_congr _ r.1 _ (Outdated F r.1) s.deps _ ?_]
          · refine mismatch_map_ver r.1 _ s.deps ?_
            intro d hd
            obtain ⟨k, hk⟩ := List.mem_iff_getElem?.1 hd
            have hklt : k < s.deps.length := by
              rcases Nat.lt_or_ge k s.deps.length with h | h
              · exact h
              · rw [List.getElem?_eq_none h] at hk; cases hk
            refine hp.fresh hra k d hk (by simp [hklt]) ?_
            -- the all-reading strategy filled slot k
            have hall := nextAll_fills (Spec F g) s.deps s.deps.length (List.replicate s.deps.length none)
              (by simp) (by simp [List.countP_replicate])
            rw [hp.vals, hra i s hs]
            have hlen : (specPullS (Spec F g) nextAll s.deps s.deps.length (List.replicate s.deps.length none)).length
                = s.deps.length := specPullS_length _ _ _ _ _ _ (by simp)
            have hk2 : k < (specPullS (Spec F g) nextAll s.deps s.deps.length
                (List.replicate s.deps.length none)).length := by rw [hlen]; exact hklt
            rw [List.getElem?_eq_getElem hk2]
            have := hall _ (List.getElem_mem hk2)
            cases hx : (specPullS (Spec F g) nextAll s.deps s.deps.length (List.replicate s.deps.length none))[k] with
            | none => rw [hx] at this; cases this
            | some v => exact ⟨v, rfl⟩
          · intro d hd
            refine ⟨hverd d hd, ?_⟩
            apply Outdated_congr_cone
            intro j hj
            have := Reach.rank_le hwf1 hj
            have := hwf.2 i s hs d hd
            exact Graph.set_ne _ _ (fun h => by subst h; omega)
        have hinv' : Inv F (r.1.set i (.struct (s.executed r.1 r.2.1))) := by
          apply Inv.local hp.inv i _ ⟨rank, hwf'⟩
          · rw [hvi, hver1]; omega
          · intro k hk hreach
            exact bump_up hp.inv i _ ⟨rank, hwf'⟩ (by rw [hvi, hver1]; omega) hk hreach
          · intro s' hs' _
            cases hs'
            rw [Spec_static hwf hstat]
            exact hcache
          · intro s' rv hs' hrv _
            cases hs'
            simp only [SNode.executed, Option.some.injEq] at hrv
            subst hrv
            change All2 _ s.deps _
            apply All2.map_right
            intro d hd
            rw [hverd d hd]
            exact Nat.le_refl _
        refine ⟨hinv', ⟨hstat, ?_, ?_⟩, ?_, hfresh', ?_, ?_, ?_, ?_⟩
        · intro k hk
          have hki : k ≠ i := by intro h; subst h; rw [ho] at hk; cases hk
          dsimp only
          rw [Graph.set_ne _ _ hki, hp.evo.keep k hk]
        · intro k
          dsimp only
          by_cases hki : k = i
          · subst hki; rw [hvi]; simp [ver, hs]
          · rw [ver_set_ne _ _ hki]; exact hp.evo.mono k
        · dsimp only
          simp only [val, Graph.set_same]
          exact hcache
        · intro k hk
          dsimp only
          have hki : k ≠ i := fun h => hk (h ▸ .refl _)
          rw [Graph.set_ne _ _ hki, hp.frame k (fun d hd hr => hk (.step hs hd hr))]
        · intro e he
          dsimp only at he
          rcases List.mem_append.1 he with he | he
          · exact hp.logOut e he
          · simp only [List.mem_singleton] at he
            subst he
            exact ho
        · intro e he
          dsimp only at he
          rcases List.mem_append.1 he with he | he
          · obtain ⟨d, hd, hr⟩ := hp.logCone e he
            exact .step hs hd hr
          · simp only [List.mem_singleton] at he
            subst he
            exact .refl _
        · intro k
          dsimp only
          rw [cnt_append]
          by_cases hki : k = i
          · subst hki
            rw [hvi, cnt_eq_zero (fun e he h => by
              obtain ⟨d, hd, hr⟩ := hp.logCone e he
              rw [h] at hr
              exact Reach.not_dep hwf hs hd hr)]
            simp [cnt, ver, hs]
          · rw [ver_set_ne _ _ hki, hp.count k]
            have : cnt [(i, s.version + 1)] k = 0 := by
              apply cnt_eq_zero
              intro e he
              simp only [List.mem_singleton] at he
              subst he
              exact fun h => hki h.symm
            omega

end

theorem Eval_ok {F : Nat} (i : Nat) (g : Graph V) (hinv : Inv F g) : EvalOK F g i (Eval F g i) := by
  obtain ⟨rank, hwf⟩ := hinv.wf
  exact Eval_ok_aux (rank i) i rfl g hwf hinv

end PolyVerif.Nodes
