/-
  The PLY header TEXT layer: lemmas about `Ply.Header.render` (the writer's header printing) under `Ply.parseHeader`
  (the model of `ply.ReadHeader`: byte-wise line reading, CR dropping, `strings.Fields`, `strconv.ParseInt`, the type
  alias table).  Core Lean only.
-/
import PolyVerif.Model.Ply
import PolyVerif.Lemmas.Ply
import PolyVerif.Model.PlySpec

namespace PolyVerif
namespace PlyHeader
open Ply PlyLemmas

/-! ## tokens and `strings.Fields` -/

/-- a header token: non-empty, no white space (hence no CR / LF) -/
def Tok (t : Bytes) : Prop := t ≠ [] ∧ ∀ b ∈ t, isSpace b = false

theorem fieldsAux_tok (t : Bytes) (ht : ∀ b ∈ t, isSpace b = false) : ∀ (rest cur : Bytes),
    fieldsAux (t ++ rest) cur = fieldsAux rest (t.reverse ++ cur) := by
  induction t with
  | nil => intro rest cur; rfl
  | cons b t ih =>
    intro rest cur
    have hb := ht b (by simp)
    simp only [List.cons_append, fieldsAux, hb, Bool.false_eq_true, if_false]
    rw [ih (fun x hx => ht x (by simp [hx]))]
    simp

/-- a token followed by a blank -/
theorem fields_tok_sp (t : Bytes) (ht : Tok t) (rest : Bytes) :
    fieldsAux (t ++ 32 :: rest) [] = t :: fieldsAux rest [] := by
  rw [fieldsAux_tok t ht.2]
  have hne : (t.reverse ++ []).isEmpty = false := by
    cases t with
    | nil => exact absurd rfl ht.1
    | cons b t => simp
  simp only [fieldsAux]
  have : isSpace 32 = true := by decide
  simp [this, hne, ht.1]

/-- the last token of a line -/
theorem fields_tok_end (t : Bytes) (ht : Tok t) : fieldsAux t [] = [t] := by
  have := fieldsAux_tok t ht.2 [] []
  simp only [List.append_nil] at this
  rw [this]
  cases t with
  | nil => exact absurd rfl ht.1
  | cons b t => simp [fieldsAux]

theorem tok_no_nl (t : Bytes) (ht : Tok t) : ∀ b ∈ t, b ≠ 10 ∧ b ≠ 13 := by
  intro b hb
  have := ht.2 b hb
  constructor <;> (intro h; subst h; revert this; decide)

theorem tok_not_blank (t : Bytes) (ht : Tok t) (rest : Bytes) : isBlank (t ++ rest) = false := by
  cases t with
  | nil => exact absurd rfl ht.1
  | cons b t => simp [isBlank, ht.2 b (by simp)]

/-! ## decimal integers: `strconv.ParseInt ∘ strconv.AppendInt` -/

theorem parseDigits_append : ∀ (xs ys : Bytes) (a : Nat),
    parseDigits (xs ++ ys) a = (parseDigits xs a).bind (parseDigits ys) := by
  intro xs
  induction xs with
  | nil => intro ys a; rfl
  | cons b xs ih =>
    intro ys a
    simp only [List.cons_append, parseDigits]
    split
    · exact ih ys _
    · rfl

theorem digit_byte (d : Nat) (hd : d < 10) :
    (48 : UInt8) ≤ UInt8.ofNat (48 + d) ∧ UInt8.ofNat (48 + d) ≤ 57 ∧ (UInt8.ofNat (48 + d)).toNat - 48 = d ∧
      isSpace (UInt8.ofNat (48 + d)) = false := by
  have : ∀ d : Fin 10, (48 : UInt8) ≤ UInt8.ofNat (48 + d.val) ∧ UInt8.ofNat (48 + d.val) ≤ 57 ∧
      (UInt8.ofNat (48 + d.val)).toNat - 48 = d.val ∧ isSpace (UInt8.ofNat (48 + d.val)) = false := by decide
  exact this ⟨d, hd⟩

/-- the digits `digitsAux` puts in front of the accumulator: they parse back to the number, and they are a token -/
theorem digitsAux_spec : ∀ (fuel n : Nat) (acc : Bytes), n < fuel →
    ∃ ds, digitsAux fuel n acc = ds ++ acc ∧ ds ≠ [] ∧ (∀ b ∈ ds, isSpace b = false) ∧
      ∀ a, parseDigits ds a = some (a * 10 ^ ds.length + n) := by
  intro fuel
  induction fuel with
  | zero => intro n acc h; omega
  | succ fuel ih =>
    intro n acc hn
    obtain ⟨h1, h2, h3, h4⟩ := digit_byte (n % 10) (Nat.mod_lt _ (by omega))
    simp only [digitsAux]
    generalize hdg : UInt8.ofNat (48 + n % 10) = dg at h1 h2 h3 h4 ⊢
    by_cases hz : n / 10 = 0
    · refine ⟨[dg], by simp [hz], by simp, by simpa using h4, ?_⟩
      intro a
      have hn10 : n % 10 = n := by omega
      simp only [parseDigits, h1, h2, and_self, if_true, h3, hn10, List.length_cons, List.length_nil]
      try simp
    · obtain ⟨ds, hds, hne, hsp, hp⟩ := ih (n / 10) (dg :: acc) (by omega)
      refine ⟨ds ++ [dg], by simp [hz, hds], by simp, ?_, ?_⟩
      · intro b hb
        simp at hb
        rcases hb with hb | rfl
        · exact hsp b hb
        · exact h4
      · intro a
        rw [parseDigits_append, hp]
        simp only [Option.bind_some, parseDigits, h1, h2, h3, and_self, if_true, List.length_append, List.length_cons,
          List.length_nil]
        congr 1
        have := Nat.div_add_mod n 10
        rw [Nat.pow_succ]
        have e1 : (a * 10 ^ ds.length + n / 10) * 10 = a * (10 ^ ds.length * 10) + (n / 10) * 10 := by
          rw [Nat.add_mul, Nat.mul_assoc]
        omega

theorem showNat_spec (n : Nat) : ∃ ds, showNat n = ds ∧ Tok ds ∧ parseDigits ds 0 = some n := by
  obtain ⟨ds, hds, hne, hsp, hp⟩ := digitsAux_spec (n + 1) n [] (by omega)
  refine ⟨ds, by simp [showNat, hds], ⟨hne, hsp⟩, by simpa using hp 0⟩

theorem showNat_tok (n : Nat) : Tok (showNat n) := by
  obtain ⟨ds, h, ht, _⟩ := showNat_spec n; rw [h]; exact ht

theorem showNat_head (n : Nat) : ∀ b, (showNat n).head? = some b → 48 ≤ b ∧ b ≤ 57 := by
  obtain ⟨ds, hds, _, _, hp⟩ := digitsAux_spec (n + 1) n [] (by omega)
  intro b hb
  have hs : showNat n = ds := by simp [showNat, hds]
  rw [hs] at hb
  cases ds with
  | nil => simp at hb
  | cons x xs =>
    simp at hb; subst hb
    have := hp 0
    simp only [parseDigits] at this
    split at this
    · assumption
    · simp at this

/-- `strconv.ParseInt(strconv.AppendInt(n), 10, 64) = n` for the element counts the writer prints -/
theorem parseInt64_showInt (n : Nat) (hn : n < 2 ^ 63) : parseInt64 (showInt (n : Int)) = some (n : Int) := by
  obtain ⟨ds, hds, ht, hp⟩ := showNat_spec n
  have hnn : ¬ ((n : Int) < 0) := by omega
  have hh := showNat_head n
  rw [hds] at hh
  simp only [showInt, hnn, if_false, Int.natAbs_natCast, hds, parseInt64, parseIntBits]
  cases ds with
  | nil => exact absurd rfl ht.1
  | cons b bs =>
    have hb := hh b rfl
    have h45 : b ≠ 45 := by intro h; subst h; revert hb; decide
    have h43 : b ≠ 43 := by intro h; subst h; revert hb; decide
    split
    · rename_i r heq; simp at heq; exact absurd heq.1 h45
    · rename_i r heq; simp at heq; exact absurd heq.1 h43
    · rename_i r
      simp only [List.isEmpty_cons, Bool.false_eq_true, if_false, hp]
      have : (-(2 ^ (64 - 1) : Int) ≤ (n : Int) ∧ (n : Int) < 2 ^ (64 - 1)) := by
        constructor <;> omega
      have h63 : (n : Int) < 9223372036854775808 := by omega
      simp [this, h63]

/-! ## one header line under `headerStep` -/

theorem nm_comment : nm "comment" = [99, 111, 109, 109, 101, 110, 116] := by decide
theorem nm_comment_sp : nm "comment " = [99, 111, 109, 109, 101, 110, 116, 32] := by decide
theorem nm_element : nm "element" = [101, 108, 101, 109, 101, 110, 116] := by decide
theorem nm_element_sp : nm "element " = [101, 108, 101, 109, 101, 110, 116, 32] := by decide
theorem nm_property : nm "property" = [112, 114, 111, 112, 101, 114, 116, 121] := by decide
theorem nm_property_sp : nm "property " = [112, 114, 111, 112, 101, 114, 116, 121, 32] := by decide
theorem nm_property_list_sp : nm "property list " = [112, 114, 111, 112, 101, 114, 116, 121, 32, 108, 105, 115, 116, 32] := by decide
theorem nm_list : nm "list" = [108, 105, 115, 116] := by decide
theorem nm_end_header : nm "end_header" = [101, 110, 100, 95, 104, 101, 97, 100, 101, 114] := by decide

theorem tok_lit_comment : Tok [99, 111, 109, 109, 101, 110, 116] := by refine ⟨by simp, by decide⟩
theorem tok_lit_element : Tok [101, 108, 101, 109, 101, 110, 116] := by refine ⟨by simp, by decide⟩
theorem tok_lit_property : Tok [112, 114, 111, 112, 101, 114, 116, 121] := by refine ⟨by simp, by decide⟩
theorem tok_lit_list : Tok [108, 105, 115, 116] := by refine ⟨by simp, by decide⟩

theorem trimLeft_of_head (c : Bytes) (h : ∀ b, c.head? = some b → isSpace b = false) : trimLeft c = c := by
  cases c with
  | nil => rfl
  | cons b c => simp [trimLeft, h b rfl]

/-- comment text the writer can print and the parser gives back unchanged: no CR / LF, no leading / trailing blank -/
def CommentOK (c : Bytes) : Prop := (∀ b ∈ c, b ≠ 10 ∧ b ≠ 13) ∧ trimSpace c = c

theorem step_comment (s : HState) (hs : s.phase = .body) (c : Bytes) (hc : trimSpace c = c) :
    headerStep s (nm "comment " ++ c) = .ok (.inl { s with comments := c :: s.comments }) := by
  have hf : fields (nm "comment " ++ c) = nm "comment" :: fieldsAux c [] := by
    rw [nm_comment_sp, nm_comment]
    have := fields_tok_sp _ tok_lit_comment c
    simpa [fields] using this
  have htrim : trimSpace (32 :: c) = trimSpace c := by
    simp [trimSpace, trimLeft, show isSpace 32 = true by decide]
  simp only [headerStep, hs, hf]
  rw [nm_comment_sp, nm_end_header, nm_comment]
  simp [isBlank, isSpace, indexOf, List.isPrefixOf, htrim, hc]


theorem step_magic : headerStep .init (nm "ply") = .ok (.inl { HState.init with phase := .format }) := by
  simp [headerStep, HState.init]

theorem step_format (s : HState) (hs : s.phase = .format) (f : Format) :
    headerStep s f.line = .ok (.inl { s with phase := .body, format := f }) := by
  have hb : ∀ f : Format, isBlank f.line = false := by intro f; cases f <;> decide
  have h1 : fields Format.ascii.line = [nm "format", nm "ascii", nm "1.0"] := by decide
  have h2 : fields Format.le.line = [nm "format", nm "binary_little_endian", nm "1.0"] := by decide
  have h3 : fields Format.be.line = [nm "format", nm "binary_big_endian", nm "1.0"] := by decide
  have n1 : nm "binary_little_endian" ≠ nm "ascii" := by decide
  have n2 : nm "binary_big_endian" ≠ nm "ascii" := by decide
  have n3 : nm "binary_big_endian" ≠ nm "binary_little_endian" := by decide
  cases f <;> simp [headerStep, hs, hb, h1, h2, h3, n1, n2, n3]

theorem step_end (s : HState) (hs : s.phase = .body) : headerStep s (nm "end_header") = .ok (.inr s.header) := by
  have : isBlank (nm "end_header") = false := by decide
  simp [headerStep, hs, this]

/-- names the writer may print as element / property names -/
def NameOK (n : Bytes) : Prop := Tok n

theorem step_element (s : HState) (hs : s.phase = .body) (name : Bytes) (hn : Tok name) (hl : lower name = name)
    (count : Nat) (hc : count < 2 ^ 63) :
    headerStep s (nm "element " ++ name ++ sp ++ showInt (count : Int))
      = .ok (.inl { s with elements := ⟨name, count, []⟩ :: s.elements }) := by
  have hnn : ¬ ((count : Int) < 0) := by omega
  have hshow : showInt (count : Int) = showNat count := by simp [showInt, hnn]
  have hf : fields (nm "element " ++ name ++ sp ++ showInt (count : Int)) = [nm "element", name, showNat count] := by
    rw [nm_element_sp, nm_element, hshow]
    have e : ([101, 108, 101, 109, 101, 110, 116, 32] : Bytes) ++ name ++ sp ++ showNat count
        = [101, 108, 101, 109, 101, 110, 116] ++ 32 :: (name ++ 32 :: showNat count) := by simp [sp]
    rw [fields, e, fields_tok_sp _ tok_lit_element, fields_tok_sp _ hn, fields_tok_end _ (showNat_tok count)]
  have hp := parseInt64_showInt count hc
  rw [hshow] at hp
  have hnb : isBlank (nm "element " ++ name ++ sp ++ showInt (count : Int)) = false := by
    rw [nm_element_sp]; simp [isBlank, isSpace]
  have hne : (nm "element " ++ name ++ sp ++ showInt (count : Int)) ≠ nm "end_header" := by
    rw [nm_element_sp, nm_end_header]; simp
  simp only [headerStep, hs, hnb, Bool.false_eq_true, if_false, hne, hf]
  have h1 : nm "element" ≠ nm "comment" := by decide
  simp [h1, hp, hl]

theorem parseSType_name (t : SType) : parseSType t.name = .ok t ∧ lower t.name ≠ nm "list" ∧ Tok t.name := by
  cases t <;> exact ⟨by decide, by decide, ⟨by decide, by decide⟩⟩

theorem step_scalar (s : HState) (hs : s.phase = .body) (e : Element) (es : List Element) (he : s.elements = e :: es)
    (n : Bytes) (hn : Tok n) (t : SType) :
    headerStep s (PProp.scalar n t).render.dropLast
      = .ok (.inl { s with elements := { e with props := e.props ++ [.scalar n t] } :: es }) := by
  obtain ⟨hp, hlist, htok⟩ := parseSType_name t
  have hline : (PProp.scalar n t).render.dropLast = nm "property " ++ t.name ++ sp ++ n := by
    simp [PProp.render, nl, List.dropLast_concat, ← List.append_assoc]
  have hf : fields (nm "property " ++ t.name ++ sp ++ n) = [nm "property", t.name, n] := by
    rw [nm_property_sp, nm_property]
    have e' : ([112, 114, 111, 112, 101, 114, 116, 121, 32] : Bytes) ++ t.name ++ sp ++ n
        = [112, 114, 111, 112, 101, 114, 116, 121] ++ 32 :: (t.name ++ 32 :: n) := by simp [sp]
    rw [fields, e', fields_tok_sp _ tok_lit_property, fields_tok_sp _ htok, fields_tok_end _ hn]
  have hnb : isBlank (nm "property " ++ t.name ++ sp ++ n) = false := by
    rw [nm_property_sp]; simp [isBlank, isSpace]
  have hne : (nm "property " ++ t.name ++ sp ++ n) ≠ nm "end_header" := by
    rw [nm_property_sp, nm_end_header]; simp
  rw [hline]
  simp only [headerStep, hs, hnb, Bool.false_eq_true, if_false, hne, hf]
  have h1 : nm "property" ≠ nm "comment" := by decide
  have h2 : nm "property" ≠ nm "element" := by decide
  simp [h1, h2, parseProperty, hlist, hp, he, bind, Except.bind, pure, Except.pure]

theorem step_list (s : HState) (hs : s.phase = .body) (e : Element) (es : List Element) (he : s.elements = e :: es)
    (n : Bytes) (hn : Tok n) (hl : lower n = n) (ct it : SType) :
    headerStep s (PProp.list n ct it).render.dropLast
      = .ok (.inl { s with elements := { e with props := e.props ++ [.list n ct it] } :: es }) := by
  obtain ⟨hp1, _, htok1⟩ := parseSType_name ct
  obtain ⟨hp2, _, htok2⟩ := parseSType_name it
  have hline : (PProp.list n ct it).render.dropLast = nm "property list " ++ ct.name ++ sp ++ it.name ++ sp ++ n := by
    simp [PProp.render, nl, List.dropLast_concat, ← List.append_assoc]
  have hf : fields (nm "property list " ++ ct.name ++ sp ++ it.name ++ sp ++ n)
      = [nm "property", nm "list", ct.name, it.name, n] := by
    rw [nm_property_list_sp, nm_property, nm_list]
    have e' : ([112, 114, 111, 112, 101, 114, 116, 121, 32, 108, 105, 115, 116, 32] : Bytes) ++ ct.name ++ sp ++ it.name ++ sp ++ n
        = [112, 114, 111, 112, 101, 114, 116, 121] ++ 32 :: ([108, 105, 115, 116] ++ 32 :: (ct.name ++ 32 :: (it.name ++ 32 :: n))) := by
      simp [sp]
    rw [fields, e', fields_tok_sp _ tok_lit_property, fields_tok_sp _ tok_lit_list, fields_tok_sp _ htok1,
      fields_tok_sp _ htok2, fields_tok_end _ hn]
  have hnb : isBlank (nm "property list " ++ ct.name ++ sp ++ it.name ++ sp ++ n) = false := by
    rw [nm_property_list_sp]; simp [isBlank, isSpace]
  have hne : (nm "property list " ++ ct.name ++ sp ++ it.name ++ sp ++ n) ≠ nm "end_header" := by
    rw [nm_property_list_sp, nm_end_header]; simp
  rw [hline]
  simp only [headerStep, hs, hnb, Bool.false_eq_true, if_false, hne, hf]
  have h1 : nm "property" ≠ nm "comment" := by decide
  have h2 : nm "property" ≠ nm "element" := by decide
  have h3 : lower (nm "list") = nm "list" := by decide
  simp [h1, h2, parseProperty, h3, hp1, hp2, he, hl, bind, Except.bind, pure, Except.pure]


/-! ## running the header loop over complete lines -/

theorem headerLoop_step (s : HState) (bs line rest : Bytes) (h : readLine bs = some (line, rest)) :
    headerLoop s bs = (match headerStep s line with
      | .error e => .error e
      | .ok (.inr hdr) => .ok (hdr, rest)
      | .ok (.inl s') => headerLoop s' rest) := by
  rw [headerLoop]
  split
  · rename_i h'; rw [h] at h'; simp at h'
  · rename_i line' rest' h'
    rw [h] at h'
    simp at h'
    obtain ⟨rfl, rfl⟩ := h'
    rfl

theorem headerLoop_eof (s : HState) (bs : Bytes) (h : readLine bs = none) : headerLoop s bs = .error .err := by
  rw [headerLoop]
  split
  · rfl
  · rename_i h'; rw [h] at h'; simp at h'

def flatLines (ls : List Bytes) : Bytes := (ls.map (· ++ [10])).flatten

/-- the header lines before `end_header`, all accepted -/
def steps : HState → List Bytes → Option HState
  | s, [] => some s
  | s, l :: ls =>
    match headerStep s l with
    | .ok (.inl s') => steps s' ls
    | _ => none

def LineOK (l : Bytes) : Prop := ∀ b ∈ l, b ≠ 10 ∧ b ≠ 13

theorem run_lines : ∀ (ls : List Bytes) (s s' : HState) (rest : Bytes), (∀ l ∈ ls, LineOK l) → steps s ls = some s' →
    headerLoop s (flatLines ls ++ rest) = headerLoop s' rest := by
  intro ls
  induction ls with
  | nil => intro s s' rest _ h; simp [steps] at h; subst h; simp [flatLines]
  | cons l ls ih =>
    intro s s' rest hok h
    have hr : readLine (flatLines (l :: ls) ++ rest) = some (l, flatLines ls ++ rest) := by
      have := readLine_lf l (flatLines ls ++ rest) (hok l (by simp))
      simpa [flatLines, List.append_assoc] using this
    rw [headerLoop_step s _ l _ hr]
    simp only [steps] at h
    cases hst : headerStep s l with
    | error e => simp [hst] at h
    | ok r =>
      cases r with
      | inr hdr => simp [hst] at h
      | inl s1 =>
        simp only [hst] at h ⊢
        exact ih s1 s' rest (fun l' hl' => hok l' (by simp [hl'])) h

theorem steps_append : ∀ (a b : List Bytes) (s : HState),
    steps s (a ++ b) = (steps s a).bind (fun s' => steps s' b) := by
  intro a
  induction a with
  | nil => intro b s; rfl
  | cons l a ih =>
    intro b s
    simp only [List.cons_append, steps]
    cases headerStep s l with
    | error e => rfl
    | ok r => cases r with
      | inl s1 => exact ih b s1
      | inr h => rfl


/-! ## the lines of a printed header -/

def PropOK : PProp → Prop
  | .scalar n _ => Tok n
  | .list n _ _ => Tok n ∧ lower n = n

structure ElemOK (e : Element) : Prop where
  name : Tok e.name
  lowered : lower e.name = e.name
  nonneg : 0 ≤ e.count
  small : e.count < 2 ^ 63
  props : ∀ p ∈ e.props, PropOK p

/-- headers `Header.Write` prints such that `ReadHeader` gives back exactly the same header: no obj_info (the parser
drops those lines), comments without CR / LF and without leading / trailing blanks, element and property names that are
non-empty and free of white space, element names and list-property names in lower case (the parser lowers them), counts
in `0 … 2⁶³−1` -/
structure HeaderOK (h : Header) : Prop where
  noObjInfo : h.objInfo = []
  comments : ∀ c ∈ h.comments, CommentOK c
  elements : ∀ e ∈ h.elements, ElemOK e

def elemLines (e : Element) : List Bytes :=
  (nm "element " ++ e.name ++ sp ++ showInt e.count) :: e.props.map (fun p => p.render.dropLast)

def hlines (h : Header) : List Bytes :=
  [nm "ply", h.format.line] ++ h.comments.map (fun c => nm "comment " ++ c) ++ (h.elements.map elemLines).flatten

theorem prop_render (p : PProp) : p.render = p.render.dropLast ++ [10] := by
  cases p <;> simp [PProp.render, nl, ← List.append_assoc, List.dropLast_concat]

theorem flatLines_append (a b : List Bytes) : flatLines (a ++ b) = flatLines a ++ flatLines b := by
  simp [flatLines]

theorem flatLines_cons (l : Bytes) (ls : List Bytes) : flatLines (l :: ls) = l ++ 10 :: flatLines ls := by
  simp [flatLines]

theorem elem_render (e : Element) : e.render = flatLines (elemLines e) := by
  simp only [Element.render, elemLines, flatLines_cons, nl]
  have : (e.props.map PProp.render).flatten = flatLines (e.props.map (fun p => p.render.dropLast)) := by
    induction e.props with
    | nil => rfl
    | cons p ps ih =>
      simp only [List.map_cons, List.flatten_cons, flatLines_cons, ih]
      conv => lhs; rw [prop_render p]
      simp
  rw [this]; simp

theorem render_eq (h : Header) (ho : h.objInfo = []) : h.render = flatLines (hlines h ++ [nm "end_header"]) := by
  have hc : (h.comments.map (fun c => nm "comment " ++ c ++ nl)).flatten
      = flatLines (h.comments.map (fun c => nm "comment " ++ c)) := by
    simp [flatLines, nl, Function.comp_def, List.append_assoc]
  have he : (h.elements.map Element.render).flatten = flatLines ((h.elements.map elemLines).flatten) := by
    induction h.elements with
    | nil => rfl
    | cons e es ih => simp [flatLines_append, elem_render, ih]
  simp only [Header.render, ho, List.map_nil, List.flatten_nil, List.append_nil, hc, he, hlines, flatLines_append,
    flatLines_cons]
  simp [flatLines, nl, List.append_assoc]


/-! ## the parser accepts every line of a printed header -/

theorem steps_comments : ∀ (cs : List Bytes) (s : HState), s.phase = .body → (∀ c ∈ cs, CommentOK c) →
    steps s (cs.map (fun c => nm "comment " ++ c)) = some { s with comments := cs.reverse ++ s.comments } := by
  intro cs
  induction cs with
  | nil => intro s _ _; rfl
  | cons c cs ih =>
    intro s hs hok
    simp only [List.map_cons, steps, step_comment s hs c (hok c (by simp)).2]
    have := ih { s with comments := c :: s.comments } hs (fun c' hc' => hok c' (by simp [hc']))
    rw [this]
    simp

theorem steps_props : ∀ (ps : List PProp) (s : HState) (e : Element) (es : List Element), s.phase = .body →
    s.elements = e :: es → (∀ p ∈ ps, PropOK p) →
    steps s (ps.map (fun p => p.render.dropLast))
      = some { s with elements := { e with props := e.props ++ ps } :: es } := by
  intro ps
  induction ps with
  | nil => intro s e es _ he _; simp [steps, ← he]
  | cons p ps ih =>
    intro s e es hs he hok
    have hp := hok p (by simp)
    have hstep : headerStep s p.render.dropLast
        = .ok (.inl { s with elements := { e with props := e.props ++ [p] } :: es }) := by
      cases p with
      | scalar n t => exact step_scalar s hs e es he n hp t
      | list n ct it => exact step_list s hs e es he n hp.1 hp.2 ct it
    simp only [List.map_cons, steps, hstep]
    have := ih { s with elements := { e with props := e.props ++ [p] } :: es } { e with props := e.props ++ [p] } es hs rfl
      (fun q hq => hok q (by simp [hq]))
    rw [this]
    simp

theorem steps_element (s : HState) (hs : s.phase = .body) (e : Element) (he : ElemOK e) :
    steps s (elemLines e) = some { s with elements := e :: s.elements } := by
  have hcount : e.count = ((e.count.toNat : Nat) : Int) := by have := he.nonneg; omega
  have hsmall : e.count.toNat < 2 ^ 63 := by have := he.small; have := he.nonneg; omega
  have h1 := step_element s hs e.name he.name he.lowered e.count.toNat hsmall
  rw [← hcount] at h1
  simp only [elemLines, steps, h1]
  have := steps_props e.props { s with elements := ⟨e.name, e.count, []⟩ :: s.elements } ⟨e.name, e.count, []⟩ s.elements hs rfl
    he.props
  rw [this]
  simp

theorem steps_elements : ∀ (es : List Element) (s : HState), s.phase = .body → (∀ e ∈ es, ElemOK e) →
    steps s ((es.map elemLines).flatten) = some { s with elements := es.reverse ++ s.elements } := by
  intro es
  induction es with
  | nil => intro s _ _; rfl
  | cons e es ih =>
    intro s hs hok
    simp only [List.map_cons, List.flatten_cons, steps_append, steps_element s hs e (hok e (by simp)), Option.bind_some]
    have := ih { s with elements := e :: s.elements } hs (fun e' he' => hok e' (by simp [he']))
    rw [this]
    simp

theorem steps_header (h : Header) (hok : HeaderOK h) :
    ∃ s, steps .init (hlines h) = some s ∧ s.phase = .body ∧ s.header = h := by
  refine ⟨⟨.body, h.format, h.elements.reverse, h.comments.reverse⟩, ?_, rfl, ?_⟩
  · simp only [hlines, List.append_assoc, List.cons_append, List.nil_append, steps, step_magic,
      step_format _ (rfl : ({ HState.init with phase := HPhase.format } : HState).phase = .format) h.format]
    rw [steps_append, steps_comments _ _ rfl hok.comments]
    simp only [Option.bind_some]
    rw [steps_elements _ _ rfl hok.elements]
    simp [HState.init]
  · cases h
    simp only [HState.header, List.reverse_reverse]
    have := hok.noObjInfo
    simp_all


/-! ## the two theorems: printed headers parse back; cut headers are rejected -/

theorem tok_line (t : Bytes) (ht : Tok t) : LineOK t := tok_no_nl t ht

theorem lineOK_append (a b : Bytes) (ha : LineOK a) (hb : LineOK b) : LineOK (a ++ b) := by
  intro x hx; simp at hx; rcases hx with h | h
  · exact ha x h
  · exact hb x h

theorem lineOK_lit (l : Bytes) (h : l.all (fun b => b != 10 && b != 13) = true) : LineOK l := by
  intro b hb
  simp only [List.all_eq_true, Bool.and_eq_true, bne_iff_ne] at h
  exact h b hb

theorem hlines_ok (h : Header) (hok : HeaderOK h) : ∀ l ∈ hlines h, LineOK l := by
  intro l hl
  simp only [hlines, List.mem_append, List.mem_cons, List.mem_map, List.mem_flatten, List.not_mem_nil, or_false] at hl
  rcases hl with ((rfl | rfl) | ⟨c, hc, rfl⟩) | ⟨ls, ⟨e, he, rfl⟩, hl⟩
  · exact lineOK_lit _ (by decide)
  · cases h.format <;> exact lineOK_lit _ (by decide)
  · exact lineOK_append _ _ (lineOK_lit _ (by decide)) (hok.comments c hc).1
  · have heo := hok.elements e he
    simp only [elemLines, List.mem_cons, List.mem_map] at hl
    rcases hl with rfl | ⟨p, hp, rfl⟩
    · obtain ⟨n, hn⟩ : ∃ n : Nat, e.count = (n : Int) := ⟨e.count.toNat, by have := heo.nonneg; omega⟩
      have hshow : showInt e.count = showNat n := by
        rw [hn]; simp [showInt, show ¬ ((n : Int) < 0) by omega]
      rw [hshow]
      exact lineOK_append _ _ (lineOK_append _ _ (lineOK_append _ _ (lineOK_lit _ (by decide)) (tok_line _ heo.name))
        (lineOK_lit _ (by decide))) (tok_line _ (showNat_tok _))
    · have hpo := heo.props p hp
      cases p with
      | scalar n t =>
        have : (PProp.scalar n t).render.dropLast = nm "property " ++ t.name ++ sp ++ n := by
          simp [PProp.render, nl, List.dropLast_concat, ← List.append_assoc]
        rw [this]
        exact lineOK_append _ _ (lineOK_append _ _ (lineOK_append _ _ (lineOK_lit _ (by decide))
          (tok_line _ (parseSType_name t).2.2)) (lineOK_lit _ (by decide))) (tok_line _ hpo)
      | list n ct it =>
        have : (PProp.list n ct it).render.dropLast = nm "property list " ++ ct.name ++ sp ++ it.name ++ sp ++ n := by
          simp [PProp.render, nl, List.dropLast_concat, ← List.append_assoc]
        rw [this]
        exact lineOK_append _ _ (lineOK_append _ _ (lineOK_append _ _ (lineOK_append _ _ (lineOK_append _ _
          (lineOK_lit _ (by decide)) (tok_line _ (parseSType_name ct).2.2)) (lineOK_lit _ (by decide)))
          (tok_line _ (parseSType_name it).2.2)) (lineOK_lit _ (by decide))) (tok_line _ hpo.1)

/-- `ReadHeader ∘ Header.Write = id` on the bytes: the printed header followed by ANY body parses to exactly the header
that was printed, and the unread rest is exactly the body -/
theorem parse_render (h : Header) (hok : HeaderOK h) (body : Bytes) :
    parseHeader (h.render ++ body) = .ok (h, body) := by
  obtain ⟨s, hs, hph, hhdr⟩ := steps_header h hok
  rw [parseHeader, render_eq h hok.noObjInfo, flatLines_append, List.append_assoc,
    run_lines (hlines h) .init s _ (hlines_ok h hok) hs]
  have hr : readLine (flatLines [nm "end_header"] ++ body) = some (nm "end_header", body) := by
    have := readLine_lf (nm "end_header") body (lineOK_lit _ (by decide))
    simpa [flatLines] using this
  rw [headerLoop_step s _ _ _ hr, step_end s hph, hhdr]

theorem readLine_none (q : Bytes) (h : ∀ b ∈ q, b ≠ 10) : readLine q = none := by
  induction q with
  | nil => rfl
  | cons b q ih =>
    have hb := h b (by simp)
    simp [readLine, hb, ih (fun x hx => h x (by simp [hx]))]

theorem cut_err : ∀ (ls : List Bytes) (s s' : HState) (fin : Bytes), (∀ l ∈ ls, LineOK l) → steps s ls = some s' →
    LineOK fin → ∀ (p t : Bytes), p ++ t = flatLines ls ++ (fin ++ [10]) → t ≠ [] → headerLoop s p = .error .err := by
  intro ls
  induction ls with
  | nil =>
    intro s s' fin _ _ hfin p t hpt ht
    apply headerLoop_eof
    apply readLine_none
    intro b hb h10
    subst h10
    simp only [flatLines, List.map_nil, List.flatten_nil, List.nil_append] at hpt
    -- p is a prefix of fin (t is non-empty and ends the line)
    rcases List.append_eq_append_iff.mp hpt with ⟨a', ha, hb'⟩ | ⟨c', hc, hd⟩
    · exact (hfin 10 (by rw [ha]; simp [hb])).1 rfl
    · cases c' with
      | nil =>
        simp at hc
        exact (hfin 10 (by rw [← hc]; exact hb)).1 rfl
      | cons x c' =>
        have : t = [] := by
          have := congrArg List.length hd
          simp at this
          cases t with
          | nil => rfl
          | cons y t => simp at this
        exact (ht this).elim
  | cons l ls ih =>
    intro s s' fin hok hsteps hfin p t hpt ht
    simp only [steps] at hsteps
    rw [flatLines_cons, List.append_assoc, List.cons_append] at hpt
    rcases List.append_eq_append_iff.mp hpt with ⟨a', ha, hb'⟩ | ⟨c', hc, hd⟩
    · -- cut inside the first line
      apply headerLoop_eof
      apply readLine_none
      intro b hb h10
      subst h10
      exact ((hok l (by simp)) 10 (by rw [ha]; simp [hb])).1 rfl
    · cases c' with
      | nil =>
        simp at hc
        apply headerLoop_eof
        apply readLine_none
        intro b hb h10
        subst h10
        exact ((hok l (by simp)) 10 (by rw [← hc]; exact hb)).1 rfl
      | cons x c' =>
        simp at hd
        obtain ⟨rfl, hd⟩ := hd
        subst hc
        have hr : readLine (l ++ 10 :: c') = some (l, c') := readLine_lf l c' (hok l (by simp))
        rw [headerLoop_step s _ _ _ hr]
        cases hst : headerStep s l with
        | error e => simp [hst] at hsteps
        | ok r =>
          cases r with
          | inr hdr => simp [hst] at hsteps
          | inl s1 =>
            simp only [hst] at hsteps ⊢
            exact ih s1 s' fin (fun l' hl' => hok l' (by simp [hl'])) hsteps hfin c' t hd.symm ht

/-- EVERY STRICT PREFIX OF A PRINTED HEADER IS REJECTED with an error (never a header, never a panic): a file cut
anywhere inside the header text does not load -/
theorem parse_cut (h : Header) (hok : HeaderOK h) (p t : Bytes) (hpt : p ++ t = h.render) (ht : t ≠ []) :
    parseHeader p = .error .err := by
  obtain ⟨s, hs, _, _⟩ := steps_header h hok
  rw [render_eq h hok.noObjInfo, flatLines_append] at hpt
  have : flatLines [nm "end_header"] = nm "end_header" ++ [10] := by simp [flatLines]
  rw [this] at hpt
  exact cut_err (hlines h) .init s _ (hlines_ok h hok) hs (lineOK_lit _ (by decide)) p t hpt ht


/-! ## foreign-tool headers: any spelling, comments anywhere, LF / CRLF -/

open PlySpec

/-- comment line with any text: the parser stores the trimmed text -/
theorem step_comment' (s : HState) (hs : s.phase = .body) (c : Bytes) :
    headerStep s (nm "comment " ++ c) = .ok (.inl { s with comments := trimSpace c :: s.comments }) := by
  have hf : fields (nm "comment " ++ c) = nm "comment" :: fieldsAux c [] := by
    rw [nm_comment_sp, nm_comment]
    have := fields_tok_sp _ tok_lit_comment c
    simpa [fields] using this
  have htrim : trimSpace (32 :: c) = trimSpace c := by
    simp [trimSpace, trimLeft, show isSpace 32 = true by decide]
  simp only [headerStep, hs, hf]
  rw [nm_comment_sp, nm_end_header, nm_comment]
  simp [isBlank, isSpace, indexOf, List.isPrefixOf, htrim]

theorem nm_objinfo_sp : nm "obj_info " = [111, 98, 106, 95, 105, 110, 102, 111, 32] := by decide
theorem nm_objinfo : nm "obj_info" = [111, 98, 106, 95, 105, 110, 102, 111] := by decide
theorem tok_lit_objinfo : Tok [111, 98, 106, 95, 105, 110, 102, 111] := by refine ⟨by simp, by decide⟩

/-- obj_info lines are read and dropped -/
theorem step_objinfo (s : HState) (hs : s.phase = .body) (c : Bytes) :
    headerStep s (nm "obj_info " ++ c) = .ok (.inl s) := by
  have hf : fields (nm "obj_info " ++ c) = nm "obj_info" :: fieldsAux c [] := by
    rw [nm_objinfo_sp, nm_objinfo]
    have := fields_tok_sp _ tok_lit_objinfo c
    simpa [fields] using this
  simp only [headerStep, hs, hf]
  have h1 : nm "obj_info" ≠ nm "comment" := by decide
  have h2 : nm "obj_info" ≠ nm "element" := by decide
  have h3 : nm "obj_info" ≠ nm "property" := by decide
  rw [nm_objinfo_sp, nm_end_header]
  simp [isBlank, isSpace, h1, h2, h3]

/-- a type spelling the parser maps to `t` -/
def Spells (tn : Bytes) (t : SType) : Prop := parseSType tn = .ok t ∧ lower tn ≠ nm "list" ∧ Tok tn

theorem spells_typeName (t : SType) (al : Bool) : Spells (typeName t al) t := by
  cases t <;> cases al <;> exact ⟨by decide, by decide, ⟨by decide, by decide⟩⟩

theorem step_scalar' (s : HState) (hs : s.phase = .body) (e : Element) (es : List Element) (he : s.elements = e :: es)
    (n : Bytes) (hn : Tok n) (t : SType) (tn : Bytes) (htn : Spells tn t) :
    headerStep s (nm "property " ++ tn ++ sp ++ n)
      = .ok (.inl { s with elements := { e with props := e.props ++ [.scalar n t] } :: es }) := by
  obtain ⟨hp, hlist, htok⟩ := htn
  have hf : fields (nm "property " ++ tn ++ sp ++ n) = [nm "property", tn, n] := by
    rw [nm_property_sp, nm_property]
    have e' : ([112, 114, 111, 112, 101, 114, 116, 121, 32] : Bytes) ++ tn ++ sp ++ n
        = [112, 114, 111, 112, 101, 114, 116, 121] ++ 32 :: (tn ++ 32 :: n) := by simp [sp]
    rw [fields, e', fields_tok_sp _ tok_lit_property, fields_tok_sp _ htok, fields_tok_end _ hn]
  have hnb : isBlank (nm "property " ++ tn ++ sp ++ n) = false := by
    rw [nm_property_sp]; simp [isBlank, isSpace]
  have hne : (nm "property " ++ tn ++ sp ++ n) ≠ nm "end_header" := by
    rw [nm_property_sp, nm_end_header]; simp
  simp only [headerStep, hs, hnb, Bool.false_eq_true, if_false, hne, hf]
  have h1 : nm "property" ≠ nm "comment" := by decide
  have h2 : nm "property" ≠ nm "element" := by decide
  simp [h1, h2, parseProperty, hlist, hp, he, bind, Except.bind, pure, Except.pure]

theorem step_list' (s : HState) (hs : s.phase = .body) (e : Element) (es : List Element) (he : s.elements = e :: es)
    (n : Bytes) (hn : Tok n) (hl : lower n = n) (ct it : SType) (cn tn : Bytes) (hcn : Spells cn ct) (htn : Spells tn it) :
    headerStep s (nm "property list " ++ cn ++ sp ++ tn ++ sp ++ n)
      = .ok (.inl { s with elements := { e with props := e.props ++ [.list n ct it] } :: es }) := by
  obtain ⟨hp1, _, htok1⟩ := hcn
  obtain ⟨hp2, _, htok2⟩ := htn
  have hf : fields (nm "property list " ++ cn ++ sp ++ tn ++ sp ++ n) = [nm "property", nm "list", cn, tn, n] := by
    rw [nm_property_list_sp, nm_property, nm_list]
    have e' : ([112, 114, 111, 112, 101, 114, 116, 121, 32, 108, 105, 115, 116, 32] : Bytes) ++ cn ++ sp ++ tn ++ sp ++ n
        = [112, 114, 111, 112, 101, 114, 116, 121] ++ 32 :: ([108, 105, 115, 116] ++ 32 :: (cn ++ 32 :: (tn ++ 32 :: n))) := by
      simp [sp]
    rw [fields, e', fields_tok_sp _ tok_lit_property, fields_tok_sp _ tok_lit_list, fields_tok_sp _ htok1,
      fields_tok_sp _ htok2, fields_tok_end _ hn]
  have hnb : isBlank (nm "property list " ++ cn ++ sp ++ tn ++ sp ++ n) = false := by
    rw [nm_property_list_sp]; simp [isBlank, isSpace]
  have hne : (nm "property list " ++ cn ++ sp ++ tn ++ sp ++ n) ≠ nm "end_header" := by
    rw [nm_property_list_sp, nm_end_header]; simp
  simp only [headerStep, hs, hnb, Bool.false_eq_true, if_false, hne, hf]
  have h1 : nm "property" ≠ nm "comment" := by decide
  have h2 : nm "property" ≠ nm "element" := by decide
  have h3 : lower (nm "list") = nm "list" := by decide
  simp [h1, h2, parseProperty, h3, hp1, hp2, he, hl, bind, Except.bind, pure, Except.pure]

/-! ## lines ended by LF or CRLF -/

def flatLinesE (crlf : Bool) (ls : List Bytes) : Bytes := (ls.map (· ++ eol crlf)).flatten

theorem run_linesE (crlf : Bool) : ∀ (ls : List Bytes) (s s' : HState) (rest : Bytes), (∀ l ∈ ls, LineOK l) →
    steps s ls = some s' → headerLoop s (flatLinesE crlf ls ++ rest) = headerLoop s' rest := by
  intro ls
  induction ls with
  | nil => intro s s' rest _ h; simp [steps] at h; subst h; simp [flatLinesE]
  | cons l ls ih =>
    intro s s' rest hok h
    have hr : readLine (flatLinesE crlf (l :: ls) ++ rest) = some (l, flatLinesE crlf ls ++ rest) := by
      cases crlf with
      | false =>
        have := readLine_lf l (flatLinesE false ls ++ rest) (hok l (by simp))
        simpa [flatLinesE, eol, List.append_assoc] using this
      | true =>
        have := readLine_crlf l (flatLinesE true ls ++ rest) (hok l (by simp))
        simpa [flatLinesE, eol, List.append_assoc] using this
    rw [headerLoop_step s _ l _ hr]
    simp only [steps] at h
    cases hst : headerStep s l with
    | error e => simp [hst] at h
    | ok r =>
      cases r with
      | inr hdr => simp [hst] at h
      | inl s1 =>
        simp only [hst] at h ⊢
        exact ih s1 s' rest (fun l' hl' => hok l' (by simp [hl'])) h


/-! ## the header the reference encoder prints (C08) -/

variable {α : Type}

def _root_.PolyVerif.PlySpec.HItem.text : HItem → Bytes
  | .comment t => t
  | .objInfo t => t

def itemLine : HItem → Bytes
  | .comment t => nm "comment " ++ t
  | .objInfo t => nm "obj_info " ++ t

/-- the comments `ReadHeader` collects: the comment texts, trimmed, in file order (obj_info lines are dropped) -/
def specComments (f : SpecFile α) : List Bytes :=
  (f.pre ++ f.mid ++ f.post).filterMap (fun i => match i with | .comment t => some (trimSpace t) | .objInfo _ => none)

def specProps (f : SpecFile α) : List (Bytes × SType) := f.vprops.map (fun p => (p.name, p.ty))

/-- the header `ReadHeader` returns for `specHeader f` -/
def specHdr (f : SpecFile α) : Header :=
  { format := f.format
    elements :=
      [⟨nm "vertex", f.verts.length, f.vprops.map (fun p => .scalar p.name p.ty)⟩] ++
      (match f.face with
       | none => []
       | some fe => [⟨nm "face", fe.faces.length, fe.lists.map (fun x => .list x.2.1 x.2.2.1 x.2.2.2.1)⟩])
    comments := specComments f }

def propLine (p : SpecProp) : Bytes := nm "property " ++ typeName p.ty p.alias ++ sp ++ p.name

def listLine (x : Nat × Bytes × SType × SType × Bool) : Bytes :=
  nm "property list " ++ typeName x.2.2.1 false ++ sp ++ typeName x.2.2.2.1 x.2.2.2.2 ++ sp ++ x.2.1

def faceLines (f : SpecFile α) : List Bytes :=
  match f.face with
  | none => []
  | some fe => (nm "element " ++ nm "face" ++ sp ++ showInt (fe.faces.length : Int)) :: fe.lists.map listLine

def slines (f : SpecFile α) : List Bytes :=
  [nm "ply", f.format.line] ++ f.pre.map itemLine ++
  [nm "element " ++ nm "vertex" ++ sp ++ showInt (f.verts.length : Int)] ++ f.vprops.map propLine ++
  f.mid.map itemLine ++ faceLines f ++ f.post.map itemLine

theorem showInt_nat (n : Nat) : showInt (n : Int) = showNat n := by
  simp [showInt, show ¬ ((n : Int) < 0) by omega]

theorem hline_item (crlf : Bool) (i : HItem) : hline crlf i.words = itemLine i ++ eol crlf := by
  cases i <;> simp [hline, joinWords, intercalate, HItem.words, itemLine, nm_comment, nm_comment_sp, nm_objinfo, nm_objinfo_sp]

theorem flatLinesE_append (crlf : Bool) (a b : List Bytes) :
    flatLinesE crlf (a ++ b) = flatLinesE crlf a ++ flatLinesE crlf b := by simp [flatLinesE]

theorem flatLinesE_one (crlf : Bool) (l : Bytes) : flatLinesE crlf [l] = l ++ eol crlf := by simp [flatLinesE]

theorem seg_items (crlf : Bool) (its : List HItem) :
    (its.map (fun i => hline crlf i.words)).flatten = flatLinesE crlf (its.map itemLine) := by
  simp [flatLinesE, List.map_map, Function.comp_def, hline_item]

theorem seg_props (crlf : Bool) (ps : List SpecProp) :
    (ps.map (fun p => hline crlf [nm "property", typeName p.ty p.alias, p.name])).flatten
      = flatLinesE crlf (ps.map propLine) := by
  have : ∀ p : SpecProp, hline crlf [nm "property", typeName p.ty p.alias, p.name] = propLine p ++ eol crlf := by
    intro p; simp [hline, joinWords, intercalate, propLine, sp, nm_property, nm_property_sp]
  simp [flatLinesE, List.map_map, Function.comp_def, this]

theorem seg_lists (crlf : Bool) (xs : List (Nat × Bytes × SType × SType × Bool)) :
    (xs.map (fun x => hline crlf [nm "property", nm "list", typeName x.2.2.1 false, typeName x.2.2.2.1 x.2.2.2.2, x.2.1])).flatten
      = flatLinesE crlf (xs.map listLine) := by
  have : ∀ x : Nat × Bytes × SType × SType × Bool,
      hline crlf [nm "property", nm "list", typeName x.2.2.1 false, typeName x.2.2.2.1 x.2.2.2.2, x.2.1] = listLine x ++ eol crlf := by
    intro x; simp [hline, joinWords, intercalate, listLine, sp, nm_property, nm_list, nm_property_list_sp]
  simp [flatLinesE, List.map_map, Function.comp_def, this]

theorem seg_element (crlf : Bool) (name : Bytes) (n : Nat) :
    hline crlf [nm "element", name, showNat n] = (nm "element " ++ name ++ sp ++ showInt (n : Int)) ++ eol crlf := by
  simp [hline, joinWords, intercalate, sp, showInt_nat, nm_element, nm_element_sp]

theorem specHeader_eq (f : SpecFile α) : specHeader f = flatLinesE f.crlf (slines f ++ [nm "end_header"]) := by
  have hfmt : joinWords [nm "format", formatWord f.format, nm "1.0"] = f.format.line := by
    cases f.format <;> decide
  have hply : hline f.crlf [nm "ply"] = flatLinesE f.crlf [nm "ply"] := by simp [hline, joinWords, intercalate, flatLinesE]
  have hend : hline f.crlf [nm "end_header"] = flatLinesE f.crlf [nm "end_header"] := by
    simp [hline, joinWords, intercalate, flatLinesE]
  have hfl : hline f.crlf [nm "format", formatWord f.format, nm "1.0"] = flatLinesE f.crlf [f.format.line] := by
    simp [hline, hfmt, flatLinesE]
  have hv : hline f.crlf [nm "element", nm "vertex", showNat f.verts.length]
      = flatLinesE f.crlf [nm "element " ++ nm "vertex" ++ sp ++ showInt (f.verts.length : Int)] := by
    rw [seg_element, flatLinesE_one]
  cases hf : f.face with
  | none =>
    simp only [specHeader, hf, slines, faceLines, hply, hfl, hv, hend, seg_items, seg_props, ← flatLinesE_append,
      List.append_assoc, List.append_nil, List.nil_append]
    simp
  | some fe =>
    have hfe : hline f.crlf [nm "element", nm "face", showNat fe.faces.length]
        = flatLinesE f.crlf [nm "element " ++ nm "face" ++ sp ++ showInt (fe.faces.length : Int)] := by
      rw [seg_element, flatLinesE_one]
    simp only [specHeader, hf, slines, faceLines, hply, hfl, hv, hend, hfe, seg_items, seg_props, seg_lists,
      ← flatLinesE_append, List.append_assoc, List.append_nil, List.nil_append]
    simp


/-- guards of the header text layer for reference-encoded files: property names are tokens, comment / obj_info texts
hold no CR / LF, counts fit int64 -/
structure SpecHeaderOK (f : SpecFile α) : Prop where
  names : ∀ p ∈ f.vprops, Tok p.name
  items : ∀ i ∈ f.pre ++ f.mid ++ f.post, LineOK i.text
  nverts : f.verts.length < 2 ^ 63
  nfaces : ∀ fe, f.face = some fe → fe.faces.length < 2 ^ 63

def itemComments (its : List HItem) : List Bytes :=
  its.filterMap (fun i => match i with | .comment t => some (trimSpace t) | .objInfo _ => none)

theorem steps_items : ∀ (its : List HItem) (s : HState), s.phase = .body →
    steps s (its.map itemLine) = some { s with comments := (itemComments its).reverse ++ s.comments } := by
  intro its
  induction its with
  | nil => intro s _; rfl
  | cons i its ih =>
    intro s hs
    cases i with
    | comment t =>
      simp only [List.map_cons, itemLine, steps, step_comment' s hs t]
      have := ih { s with comments := trimSpace t :: s.comments } hs
      rw [this]; simp [itemComments]
    | objInfo t =>
      simp only [List.map_cons, itemLine, steps, step_objinfo s hs t]
      rw [ih s hs]; simp [itemComments]

theorem steps_vprops : ∀ (ps : List SpecProp) (s : HState) (e : Element) (es : List Element), s.phase = .body →
    s.elements = e :: es → (∀ p ∈ ps, Tok p.name) →
    steps s (ps.map propLine)
      = some { s with elements := { e with props := e.props ++ ps.map (fun p => .scalar p.name p.ty) } :: es } := by
  intro ps
  induction ps with
  | nil => intro s e es _ he _; simp [steps, ← he]
  | cons p ps ih =>
    intro s e es hs he hok
    have hstep := step_scalar' s hs e es he p.name (hok p (by simp)) p.ty _ (spells_typeName p.ty p.alias)
    simp only [List.map_cons, propLine, steps, hstep]
    have := ih { s with elements := { e with props := e.props ++ [.scalar p.name p.ty] } :: es }
      { e with props := e.props ++ [.scalar p.name p.ty] } es hs rfl (fun q hq => hok q (by simp [hq]))
    simp only [propLine] at this
    rw [this]; simp

theorem steps_lists : ∀ (xs : List (Nat × Bytes × SType × SType × Bool)) (s : HState) (e : Element) (es : List Element),
    s.phase = .body → s.elements = e :: es → (∀ x ∈ xs, Tok x.2.1 ∧ lower x.2.1 = x.2.1) →
    steps s (xs.map listLine)
      = some { s with elements := { e with props := e.props ++ xs.map (fun x => .list x.2.1 x.2.2.1 x.2.2.2.1) } :: es } := by
  intro xs
  induction xs with
  | nil => intro s e es _ he _; simp [steps, ← he]
  | cons x xs ih =>
    intro s e es hs he hok
    have hx := hok x (by simp)
    have hstep := step_list' s hs e es he x.2.1 hx.1 hx.2 x.2.2.1 x.2.2.2.1 _ _ (spells_typeName x.2.2.1 false)
      (spells_typeName x.2.2.2.1 x.2.2.2.2)
    simp only [List.map_cons, listLine, steps, hstep]
    have := ih { s with elements := { e with props := e.props ++ [.list x.2.1 x.2.2.1 x.2.2.2.1] } :: es }
      { e with props := e.props ++ [.list x.2.1 x.2.2.1 x.2.2.2.1] } es hs rfl (fun q hq => hok q (by simp [hq]))
    simp only [listLine] at this
    rw [this]; simp

def faceListNames : List Bytes := [nm "vertex_index", nm "vertex_indices", nm "texcoord", nm "flags"]

theorem lists_names_mem (fe : SpecFaceElem α) : fe.lists.all (fun x => faceListNames.contains x.2.1) = true := by
  obtain ⟨short, ct, it, ia, tex, tf, ex, faces⟩ := fe
  cases short <;> cases tex <;> cases tf <;> cases ex <;> (try rename_i b; cases b) <;>
    simp [SpecFaceElem.lists, faceListNames] <;> decide

theorem lists_names_ok (fe : SpecFaceElem α) : ∀ x ∈ fe.lists, Tok x.2.1 ∧ lower x.2.1 = x.2.1 := by
  have hall : ∀ n ∈ faceListNames, Tok n ∧ lower n = n := by
    intro n hn
    simp only [faceListNames, List.mem_cons, List.not_mem_nil, or_false] at hn
    rcases hn with rfl | rfl | rfl | rfl <;> exact ⟨⟨by decide, by decide⟩, by decide⟩
  intro x hx
  have := List.all_eq_true.mp (lists_names_mem fe) x hx
  exact hall _ (by simpa using this)


theorem steps_slines (f : SpecFile α) (hok : SpecHeaderOK f) :
    ∃ s, steps .init (slines f) = some s ∧ s.phase = .body ∧ s.header = specHdr f := by
  have hvert : Tok (nm "vertex") ∧ lower (nm "vertex") = nm "vertex" := ⟨⟨by decide, by decide⟩, by decide⟩
  have hface : Tok (nm "face") ∧ lower (nm "face") = nm "face" := ⟨⟨by decide, by decide⟩, by decide⟩
  -- after magic, format and the first block of items
  let s1 : HState := ⟨.body, f.format, [], (itemComments f.pre).reverse⟩
  have h1 : steps .init ([nm "ply", f.format.line] ++ f.pre.map itemLine) = some s1 := by
    simp only [List.cons_append, List.nil_append, steps, step_magic,
      step_format _ (rfl : ({ HState.init with phase := HPhase.format } : HState).phase = .format) f.format]
    rw [steps_items f.pre _ rfl]; simp [HState.init, s1]
  let s1v : HState := { s1 with elements := [⟨nm "vertex", f.verts.length, []⟩] }
  have h2a : steps s1 [nm "element " ++ nm "vertex" ++ sp ++ showInt (f.verts.length : Int)] = some s1v := by
    simp only [steps, step_element s1 rfl (nm "vertex") hvert.1 hvert.2 f.verts.length hok.nverts]
    simp [s1v, s1]
  let s2 : HState := { s1 with elements := [⟨nm "vertex", f.verts.length, f.vprops.map (fun p => .scalar p.name p.ty)⟩] }
  have h2b : steps s1v (f.vprops.map propLine) = some s2 := by
    rw [steps_vprops f.vprops s1v ⟨nm "vertex", f.verts.length, []⟩ [] rfl rfl hok.names]
    simp [s2, s1v, s1]
  let s3 : HState := { s2 with comments := (itemComments f.mid).reverse ++ s2.comments }
  have h3 : steps s2 (f.mid.map itemLine) = some s3 := steps_items f.mid s2 rfl
  let faceEls : List Element := match f.face with
    | none => []
    | some fe => [⟨nm "face", fe.faces.length, fe.lists.map (fun x => .list x.2.1 x.2.2.1 x.2.2.2.1)⟩]
  let s4 : HState := { s3 with elements := faceEls.reverse ++ s3.elements }
  have h4 : steps s3 (faceLines f) = some s4 := by
    cases hf : f.face with
    | none => simp [faceLines, hf, steps, s4, faceEls]
    | some fe =>
      simp only [faceLines, hf, steps, step_element s3 rfl (nm "face") hface.1 hface.2 fe.faces.length (hok.nfaces fe hf)]
      rw [steps_lists fe.lists _ ⟨nm "face", fe.faces.length, []⟩ s3.elements rfl rfl (lists_names_ok fe)]
      simp [s4, faceEls, hf]
  let s5 : HState := { s4 with comments := (itemComments f.post).reverse ++ s4.comments }
  have h5 : steps s4 (f.post.map itemLine) = some s5 := steps_items f.post s4 rfl
  refine ⟨s5, ?_, rfl, ?_⟩
  · unfold slines
    rw [steps_append, steps_append, steps_append, steps_append, steps_append, h1]
    simp only [Option.bind_some, h2a, h2b, h3, h4, h5]
  · simp only [HState.header, specHdr, specComments, s5, s4, s3, s2, s1, faceEls]
    cases hf : f.face <;>
      simp [itemComments, List.filterMap_append, List.reverse_append]

theorem slines_ok (f : SpecFile α) (hok : SpecHeaderOK f) : ∀ l ∈ slines f, LineOK l := by
  have hitem : ∀ i ∈ f.pre ++ f.mid ++ f.post, LineOK (itemLine i) := by
    intro i hi
    have := hok.items i hi
    cases i <;> exact lineOK_append _ _ (lineOK_lit _ (by decide)) this
  have helem : ∀ (name : Bytes) (n : Nat), Tok name → LineOK (nm "element " ++ name ++ sp ++ showInt (n : Int)) := by
    intro name n hn
    rw [showInt_nat]
    exact lineOK_append _ _ (lineOK_append _ _ (lineOK_append _ _ (lineOK_lit _ (by decide)) (tok_line _ hn))
      (lineOK_lit _ (by decide))) (tok_line _ (showNat_tok _))
  intro l hl
  simp only [slines, List.mem_append, List.mem_cons, List.mem_map, List.not_mem_nil, or_false] at hl
  rcases hl with (((((( rfl | rfl) | ⟨i, hi, rfl⟩) | rfl) | ⟨p, hp, rfl⟩) | ⟨i, hi, rfl⟩) | hl) | ⟨i, hi, rfl⟩
  · exact lineOK_lit _ (by decide)
  · cases f.format <;> exact lineOK_lit _ (by decide)
  · exact hitem i (by simp [hi])
  · exact helem _ _ ⟨by decide, by decide⟩
  · exact lineOK_append _ _ (lineOK_append _ _ (lineOK_append _ _ (lineOK_lit _ (by decide))
      (tok_line _ (spells_typeName p.ty p.alias).2.2)) (lineOK_lit _ (by decide))) (tok_line _ (hok.names p hp))
  · exact hitem i (by simp [hi])
  · cases hf : f.face with
    | none => simp [faceLines, hf] at hl
    | some fe =>
      simp only [faceLines, hf, List.mem_cons, List.mem_map] at hl
      rcases hl with rfl | ⟨x, hx, rfl⟩
      · exact helem _ _ ⟨by decide, by decide⟩
      · exact lineOK_append _ _ (lineOK_append _ _ (lineOK_append _ _ (lineOK_append _ _ (lineOK_append _ _
          (lineOK_lit _ (by decide)) (tok_line _ (spells_typeName _ _).2.2)) (lineOK_lit _ (by decide)))
          (tok_line _ (spells_typeName _ _).2.2)) (lineOK_lit _ (by decide))) (tok_line _ (lists_names_ok fe x hx).1)
  · exact hitem i (by simp [hi])

/-- THE HEADER A FOREIGN TOOL PRINTS PARSES TO WHAT IT SAYS: `ReadHeader` on the reference encoder's header text — any
property order, alias spellings, comment / obj_info lines before, between and after the elements, LF or CRLF — followed
by any body returns `specHdr f` and leaves exactly the body -/
theorem parse_specHeader (f : SpecFile α) (hok : SpecHeaderOK f) (body : Bytes) :
    parseHeader (specHeader f ++ body) = .ok (specHdr f, body) := by
  obtain ⟨s, hs, hph, hhdr⟩ := steps_slines f hok
  rw [parseHeader, specHeader_eq, flatLinesE_append, List.append_assoc,
    run_linesE f.crlf (slines f) .init s _ (slines_ok f hok) hs]
  have hr : readLine (flatLinesE f.crlf [nm "end_header"] ++ body) = some (nm "end_header", body) := by
    cases hc : f.crlf with
    | false =>
      have := readLine_lf (nm "end_header") body (lineOK_lit _ (by decide))
      simpa [flatLinesE, eol] using this
    | true =>
      have := readLine_crlf (nm "end_header") body (lineOK_lit _ (by decide))
      simpa [flatLinesE, eol] using this
  rw [headerLoop_step s _ _ _ hr, step_end s hph, hhdr]


end PlyHeader
end PolyVerif
