/-
  C10 — safety of the job / result channel protocol (Model/ParChan.lean): an invariant of every reachable configuration.
  Core Lean only.
-/
import PolyVerif.Model.ParChan

namespace PolyVerif.Par.Chan

variable {J R : Type}

@[simp] theorem held_append (a b : List (W J)) : held (a ++ b) = held a ++ held b := by simp [held]
@[simp] theorem held_idle (ws : List (W J)) : held (W.idle :: ws) = held ws := by simp [held]
@[simp] theorem held_exited (ws : List (W J)) : held (W.exited :: ws) = held ws := by simp [held]
@[simp] theorem held_busy (j : J) (ws : List (W J)) : held (W.busy j :: ws) = j :: held ws := by simp [held]
@[simp] theorem exitedCount_append (a b : List (W J)) : exitedCount (a ++ b) = exitedCount a + exitedCount b := by
  simp [exitedCount]
@[simp] theorem exitedCount_idle (ws : List (W J)) : exitedCount (W.idle :: ws) = exitedCount ws := by simp [exitedCount]
@[simp] theorem exitedCount_busy (j : J) (ws : List (W J)) : exitedCount (W.busy j :: ws) = exitedCount ws := by
  simp [exitedCount]
@[simp] theorem exitedCount_exited (ws : List (W J)) : exitedCount (W.exited :: ws) = exitedCount ws + 1 := by
  simp [exitedCount]

theorem exitedCount_le (ws : List (W J)) : exitedCount ws ≤ ws.length := List.countP_le_length

theorem held_of_all_exited : ∀ (ws : List (W J)), exitedCount ws = ws.length → held ws = []
  | [], _ => rfl
  | W.idle :: ws, h => by have := exitedCount_le ws; simp at h; omega
  | W.busy j :: ws, h => by have := exitedCount_le ws; simp at h; omega
  | W.exited :: ws, h => by simp at h; simpa using held_of_all_exited ws h

structure Inv [DecidableEq J] (mode : Mode) (f : J → R) (jobs : List J) (n expect : Nat) (c : Cfg J R) : Prop where
  /-- conservation: every job is in exactly one place -/
  cnt : ∀ x, jobs.count x = c.processed.count x + (held c.workers).count x + c.jobsQ.count x + c.toSend.count x
  closed_sent : c.closed = true → c.toSend = []
  exited_drained : 0 < exitedCount c.workers → c.jobsQ = [] ∧ c.closed = true
  col : c.toCollect + c.collected.length = expect
  resJob : mode = Mode.perJob → c.collected ++ c.resQ = c.processed.map (fun j => Msg.res (f j))
  resWorker : mode = Mode.perWorker → c.collected ++ c.resQ = List.replicate (exitedCount c.workers) Msg.done
  wlen : c.workers.length = n

theorem inv_init [DecidableEq J] (mode : Mode) (f : J → R) (jobs : List J) (n expect : Nat) :
    Inv mode f jobs n expect (init jobs n expect) := by
  have hh : ∀ n, held (List.replicate n (W.idle : W J)) = [] := by
    intro n; induction n with
    | zero => rfl
    | succ n ih => simp [List.replicate_succ, ih]
  have he : ∀ n, exitedCount (List.replicate n (W.idle : W J)) = 0 := by
    intro n; induction n with
    | zero => rfl
    | succ n ih => simp [List.replicate_succ, ih]
  constructor <;> simp [init, hh, he]

theorem inv_step [DecidableEq J] {mode : Mode} {jobsCap resCap : Nat} {f : J → R} {jobs : List J} {n expect : Nat} {c c' : Cfg J R}
    (h : Inv mode f jobs n expect c) (st : Step mode jobsCap resCap f c c') : Inv mode f jobs n expect c' := by
  cases st with
  | send hs _ =>
    refine ⟨fun x => ?_, ?_, fun he => absurd (h.closed_sent (h.exited_drained he).2) (by simp [hs]), h.col, h.resJob, h.resWorker, h.wlen⟩
    · have := h.cnt x; simp only [hs, List.count_cons, List.count_append, List.count_nil] at this ⊢; omega
    · intro hc; have := h.closed_sent hc; simp [hs] at this
  | handoff hs hq hw =>
    refine ⟨fun x => ?_, ?_, ?_, h.col, h.resJob, ?_, ?_⟩
    · have := h.cnt x
      simp only [hs, hw, held_append, held_idle, held_busy, List.count_cons, List.count_append] at this ⊢; omega
    · intro hc; have := h.closed_sent hc; simp [hs] at this
    · intro he; have := h.exited_drained (by simpa [hw] using he); exact absurd (h.closed_sent this.2) (by simp [hs])
    · intro hm; simpa [hw] using h.resWorker hm
    · simpa [hw] using h.wlen
  | close hs _ =>
    exact ⟨h.cnt, fun _ => hs, fun he => ⟨(h.exited_drained he).1, rfl⟩, h.col, h.resJob, h.resWorker, h.wlen⟩
  | recv hq hw =>
    refine ⟨fun x => ?_, h.closed_sent, ?_, h.col, h.resJob, ?_, ?_⟩
    · have := h.cnt x
      simp only [hq, hw, held_append, held_idle, held_busy, List.count_cons, List.count_append] at this ⊢; omega
    · intro he; have := h.exited_drained (by simpa [hw] using he); simp [hq] at this
    · intro hm; simpa [hw] using h.resWorker hm
    · simpa [hw] using h.wlen
  | finishSend hm hw _ =>
    refine ⟨fun x => ?_, h.closed_sent, ?_, h.col, ?_, ?_, ?_⟩
    · have := h.cnt x
      simp only [hw, held_append, held_idle, held_busy, List.count_cons, List.count_append, List.count_nil] at this ⊢; omega
    · intro he; exact h.exited_drained (by simpa [hw] using he)
    · intro _; have := h.resJob hm; simp only [List.map_append, List.map_cons, List.map_nil, ← List.append_assoc, this]
    · intro hm'; rw [hm] at hm'; cases hm'
    · simpa [hw] using h.wlen
  | finishQuiet hm hw =>
    refine ⟨fun x => ?_, h.closed_sent, ?_, h.col, ?_, ?_, ?_⟩
    · have := h.cnt x
      simp only [hw, held_append, held_idle, held_busy, List.count_cons, List.count_append, List.count_nil] at this ⊢; omega
    · intro he; exact h.exited_drained (by simpa [hw] using he)
    · intro hm'; rw [hm] at hm'; cases hm'
    · intro _; simpa [hw] using h.resWorker hm
    · simpa [hw] using h.wlen
  | exitQuiet hm hw hq hc =>
    refine ⟨fun x => ?_, h.closed_sent, fun _ => ⟨hq, hc⟩, h.col, h.resJob, ?_, ?_⟩
    · have := h.cnt x
      simp only [hw, held_append, held_idle, held_exited] at this ⊢; omega
    · intro hm'; rw [hm] at hm'; cases hm'
    · simpa [hw] using h.wlen
  | exitSend hm hw hq hc _ =>
    refine ⟨fun x => ?_, h.closed_sent, fun _ => ⟨hq, hc⟩, h.col, ?_, ?_, ?_⟩
    · have := h.cnt x
      simp only [hw, held_append, held_idle, held_exited] at this ⊢; omega
    · intro hm'; rw [hm] at hm'; cases hm'
    · intro _
      have := h.resWorker hm
      simp only [hw, exitedCount_append, exitedCount_idle, exitedCount_exited] at this ⊢
      rw [← List.append_assoc, this, ← Nat.add_assoc, List.replicate_succ', ]
    · simpa [hw] using h.wlen
  | collect hr hk =>
    refine ⟨h.cnt, h.closed_sent, h.exited_drained, ?_, ?_, ?_, h.wlen⟩
    · have := h.col; simp only [hk, List.length_append, List.length_cons, List.length_nil] at this ⊢; omega
    · intro hm; have := h.resJob hm; simp only [hr] at this; simpa using this
    · intro hm; have := h.resWorker hm; simp only [hr] at this; simpa using this

theorem inv_reach [DecidableEq J] {mode : Mode} {jobsCap resCap : Nat} {f : J → R} {jobs : List J} {n expect : Nat} {c : Cfg J R}
    (hr : Reach mode jobsCap resCap f (init jobs n expect) c) : Inv mode f jobs n expect c := by
  induction hr with
  | refl => exact inv_init mode f jobs n expect
  | tail _ st ih => exact inv_step ih st

theorem inv_perm [DecidableEq J] {mode : Mode} {f : J → R} {jobs : List J} {n expect : Nat} {c : Cfg J R}
    (h : Inv mode f jobs n expect c) : jobs.Perm (c.processed ++ held c.workers ++ c.jobsQ ++ c.toSend) := by
  rw [List.perm_iff_count]
  intro x
  simp only [List.count_append]
  exact h.cnt x

/-- at any moment of any execution no job has been processed twice and none was invented -/
theorem processed_sub [DecidableEq J] {mode : Mode} {jobsCap resCap : Nat} {f : J → R} {jobs : List J} {n expect : Nat}
    {c : Cfg J R} (hr : Reach mode jobsCap resCap f (init jobs n expect) c) : ∀ x, c.processed.count x ≤ jobs.count x := by
  intro x; have := (inv_reach hr).cnt x; omega

/-- result-per-job protocol, collector loop bound = number of jobs sent: whenever (on whatever schedule, with whatever number
    of workers and channel capacities) the collector has finished its loop, every job has been processed exactly once, the
    collector holds exactly one result per job — in the order the jobs completed — and nothing is left anywhere -/
theorem perJob_complete [DecidableEq J] {jobsCap resCap : Nat} {f : J → R} {jobs : List J} {n : Nat} {c : Cfg J R}
    (hr : Reach Mode.perJob jobsCap resCap f (init jobs n jobs.length) c) (hdone : c.toCollect = 0) :
    c.processed.Perm jobs ∧ c.collected = c.processed.map (fun j => Msg.res (f j)) ∧
    c.resQ = [] ∧ held c.workers = [] ∧ c.jobsQ = [] ∧ c.toSend = [] := by
  have h := inv_reach hr
  have hp := inv_perm h
  have hl := hp.length_eq
  have hc := h.col
  have hres := h.resJob rfl
  have hrl := congrArg List.length hres
  simp only [List.length_append, List.length_map] at hl hrl
  rw [hdone] at hc
  have h1 : c.resQ.length = 0 := by omega
  have h2 : (held c.workers).length = 0 := by omega
  have h3 : c.jobsQ.length = 0 := by omega
  have h4 : c.toSend.length = 0 := by omega
  have e1 := List.eq_nil_of_length_eq_zero h1
  have e2 := List.eq_nil_of_length_eq_zero h2
  have e3 := List.eq_nil_of_length_eq_zero h3
  have e4 := List.eq_nil_of_length_eq_zero h4
  rw [e2, e3, e4] at hp
  rw [e1] at hres
  simp only [List.append_nil] at hp hres
  exact ⟨hp.symm, hres, e1, e2, e3, e4⟩

/-- completion-per-worker protocol, collector loop bound = number of workers: whenever the collector has finished its loop,
    every worker has left its `range jobs` loop and every job has been processed exactly once -/
theorem perWorker_complete [DecidableEq J] {jobsCap resCap : Nat} {f : J → R} {jobs : List J} {n : Nat} {c : Cfg J R}
    (hn : 0 < n) (hr : Reach Mode.perWorker jobsCap resCap f (init jobs n n) c) (hdone : c.toCollect = 0) :
    c.processed.Perm jobs ∧ exitedCount c.workers = n ∧ held c.workers = [] ∧ c.jobsQ = [] ∧ c.toSend = [] := by
  have h := inv_reach hr
  have hp := inv_perm h
  have hc := h.col
  have hres := h.resWorker rfl
  have hrl := congrArg List.length hres
  simp only [List.length_append, List.length_replicate] at hrl
  rw [hdone] at hc
  have hle := exitedCount_le c.workers
  have hw := h.wlen
  have hall : exitedCount c.workers = n := by omega
  have e2 := held_of_all_exited c.workers (by omega)
  have hd := h.exited_drained (by omega)
  have e4 := h.closed_sent hd.2
  rw [e2, hd.1, e4] at hp
  simp only [List.append_nil] at hp
  exact ⟨hp.symm, hall, e2, hd.1, e4⟩

/-! ### progress -/

theorem workers_cases : ∀ (ws : List (W J)),
    (∃ j ws1 ws2, ws = ws1 ++ W.busy j :: ws2) ∨ (∃ ws1 ws2, ws = ws1 ++ W.idle :: ws2) ∨ exitedCount ws = ws.length
  | [] => Or.inr (Or.inr rfl)
  | W.busy j :: ws => Or.inl ⟨j, [], ws, rfl⟩
  | W.idle :: ws => Or.inr (Or.inl ⟨[], ws, rfl⟩)
  | W.exited :: ws => by
    rcases workers_cases ws with ⟨j, a, b, rfl⟩ | ⟨a, b, rfl⟩ | h
    · exact Or.inl ⟨j, W.exited :: a, b, rfl⟩
    · exact Or.inr (Or.inl ⟨W.exited :: a, b, rfl⟩)
    · exact Or.inr (Or.inr (by simp [h]))

/-- with the jobs channel as large as the job list (the source: `make(chan …, numJobs)`), the producer's `jobs <- j` never blocks,
    whatever the workers and the collector are doing -/
theorem producer_never_blocks [DecidableEq J] {mode : Mode} {jobsCap resCap : Nat} {f : J → R} {jobs : List J} {n expect : Nat}
    {c : Cfg J R} (hcap : jobs.length ≤ jobsCap) (hr : Reach mode jobsCap resCap f (init jobs n expect) c)
    {j : J} {t : List J} (hs : c.toSend = j :: t) : c.jobsQ.length < jobsCap := by
  have hl := (inv_perm (inv_reach hr)).length_eq
  simp only [List.length_append, hs, List.length_cons] at hl
  omega

/-- deadlock freedom, result-per-job protocol (collector bound = number of jobs, at least one worker, a results channel with
    room for one message): as long as the collector has not finished, some step is enabled — no reachable state is stuck -/
theorem perJob_progress [DecidableEq J] {jobsCap resCap : Nat} {f : J → R} {jobs : List J} {n : Nat} {c : Cfg J R}
    (hn : 0 < n) (hcap : jobs ≠ [] → 0 < resCap)
    (hr : Reach Mode.perJob jobsCap resCap f (init jobs n jobs.length) c) (hgo : 0 < c.toCollect) :
    ∃ c', Step Mode.perJob jobsCap resCap f c c' := by
  have h := inv_reach hr
  obtain ⟨k, hk⟩ : ∃ k, c.toCollect = k + 1 := ⟨c.toCollect - 1, by omega⟩
  cases hq : c.resQ with
  | cons m q => exact ⟨_, Step.collect hq hk⟩
  | nil =>
    rcases workers_cases c.workers with ⟨j, a, b, hw⟩ | ⟨a, b, hw⟩ | hall
    · have hne : jobs ≠ [] := by
        intro e
        have := h.cnt j
        simp [e, hw] at this
        omega
      exact ⟨_, Step.finishSend rfl hw (by rw [hq]; exact hcap hne)⟩
    · cases hjq : c.jobsQ with
      | cons j q => exact ⟨_, Step.recv hjq hw⟩
      | nil =>
        cases hts : c.toSend with
        | cons j t => exact ⟨_, Step.handoff hts hjq hw⟩
        | nil =>
          cases hcl : c.closed with
          | false => exact ⟨_, Step.close hts hcl⟩
          | true => exact ⟨_, Step.exitQuiet rfl hw hjq hcl⟩
    · exfalso
      have hw := h.wlen
      have hd := h.exited_drained (by omega)
      have e4 := h.closed_sent hd.2
      have e2 := held_of_all_exited c.workers hall
      have hl := (inv_perm h).length_eq
      have hres := congrArg List.length (h.resJob rfl)
      have hc := h.col
      simp only [e2, hd.1, e4, hq, List.length_append, List.length_nil, List.length_map] at hl hres
      omega

/-- deadlock freedom, completion-per-worker protocol (collector bound = number of workers ≥ 1, results channel with room for
    one message per worker) -/
theorem perWorker_progress [DecidableEq J] {jobsCap resCap : Nat} {f : J → R} {jobs : List J} {n : Nat} {c : Cfg J R}
    (_hn : 0 < n) (hcap : 0 < resCap)
    (hr : Reach Mode.perWorker jobsCap resCap f (init jobs n n) c) (hgo : 0 < c.toCollect) :
    ∃ c', Step Mode.perWorker jobsCap resCap f c c' := by
  have h := inv_reach hr
  obtain ⟨k, hk⟩ : ∃ k, c.toCollect = k + 1 := ⟨c.toCollect - 1, by omega⟩
  cases hq : c.resQ with
  | cons m q => exact ⟨_, Step.collect hq hk⟩
  | nil =>
    rcases workers_cases c.workers with ⟨j, a, b, hw⟩ | ⟨a, b, hw⟩ | hall
    · exact ⟨_, Step.finishQuiet rfl hw⟩
    · cases hjq : c.jobsQ with
      | cons j q => exact ⟨_, Step.recv hjq hw⟩
      | nil =>
        cases hts : c.toSend with
        | cons j t => exact ⟨_, Step.handoff hts hjq hw⟩
        | nil =>
          cases hcl : c.closed with
          | false => exact ⟨_, Step.close hts hcl⟩
          | true => exact ⟨_, Step.exitSend rfl hw hjq hcl (by rw [hq]; exact hcap)⟩
    · exfalso
      have hw := h.wlen
      have hres := congrArg List.length (h.resWorker rfl)
      have hc := h.col
      simp only [hq, List.length_append, List.length_nil, List.length_replicate] at hres
      omega

end PolyVerif.Par.Chan
