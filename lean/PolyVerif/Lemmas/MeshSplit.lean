/-
  C03 lemmas: SplitOnUniqueMaterials groups the triangles by the material the range loop assigns,
  in order, keeping every corner.
-/
import PolyVerif.Lemmas.MeshAllRef

namespace PolyVerif.Mesh
variable {α : Type}

namespace MeshVal

/-- the material the split loop assigns to each triangle (same recursion as `splitLoop`) -/
def assignLoop : List (Nat × Nat × Nat) → Nat → List MatRange → Nat → Option (List Nat)
  | [], _, _, _ => some []
  | _ :: ts, tri, rest, other =>
    match advanceMat rest other tri with
    | none => none
    | some (rest', other') =>
      match rest' with
      | [] => none
      | r :: _ => (assignLoop ts (tri + 1) rest' other').map (r.mat :: ·)

def groupFold (parts : List (Nat × List Nat)) (l : List (Nat × (Nat × Nat × Nat))) : List (Nat × List Nat) :=
  l.foldl (fun ps e => addToPart ps e.1 e.2) parts

theorem splitLoop_eq : ∀ (ts : List (Nat × Nat × Nat)) (tri : Nat) (rest : List MatRange) (other : Nat)
    (parts : List (Nat × List Nat)),
    splitLoop ts tri rest other parts =
      (assignLoop ts tri rest other).map fun mats => groupFold parts (mats.zip ts)
  | [], _, _, _, parts => by simp [splitLoop, assignLoop, groupFold]
  | t :: ts, tri, rest, other, parts => by
    simp only [splitLoop, assignLoop]
    cases advanceMat rest other tri with
    | none => rfl
    | some ro =>
      obtain ⟨rest', other'⟩ := ro
      cases rest' with
      | nil => rfl
      | cons r rs =>
        simp only [splitLoop_eq ts (tri + 1) (r :: rs) other' _, Option.map_map]
        congr 1

theorem assignLoop_length : ∀ (ts : List (Nat × Nat × Nat)) (tri : Nat) (rest : List MatRange) (other : Nat)
    (mats : List Nat), assignLoop ts tri rest other = some mats → mats.length = ts.length
  | [], _, _, _, mats, h => by simp only [assignLoop, Option.some.injEq] at h; subst h; simp
  | t :: ts, tri, rest, other, mats, h => by
    simp only [assignLoop] at h
    split at h
    · cases h
    · split at h
      · cases h
      · simp only [Option.map_eq_some_iff] at h
        obtain ⟨ms, hms, rfl⟩ := h
        simp [assignLoop_length ts _ _ _ ms hms]

/-- the index list a material collects -/
def sel (μ : Nat) (l : List (Nat × (Nat × Nat × Nat))) : List Nat :=
  untriples ((l.filter fun e => e.1 == μ).map (·.2))

theorem untriples_append {β : Type} (a b : List (β × β × β)) : untriples (a ++ b) = untriples a ++ untriples b := by
  induction a with
  | nil => rfl
  | cons x t ih => obtain ⟨p, q, r⟩ := x; simp [untriples, ih]

theorem sel_snoc (μ : Nat) (l : List (Nat × (Nat × Nat × Nat))) (e : Nat × (Nat × Nat × Nat)) :
    sel μ (l ++ [e]) = sel μ l ++ (if e.1 == μ then [e.2.1, e.2.2.1, e.2.2.2] else []) := by
  simp only [sel, List.filter_append, List.map_append, untriples_append]
  cases h : (e.1 == μ) <;> simp [List.filter_cons, h, untriples]

/-- invariant of the working meshes against the triangles processed so far -/
def GroupInv (parts : List (Nat × List Nat)) (done : List (Nat × (Nat × Nat × Nat))) : Prop :=
  (∀ q ∈ parts, q.2 = sel q.1 done) ∧ (∀ e ∈ done, parts.any (fun p => p.1 == e.1) = true)

theorem addToPart_inv' {parts : List (Nat × List Nat)} {done : List (Nat × (Nat × Nat × Nat))}
    (h : GroupInv parts done) (e : Nat × (Nat × Nat × Nat)) :
    GroupInv (addToPart parts e.1 e.2) (done ++ [e]) := by
  unfold addToPart
  split
  · rename_i hany
    refine ⟨?_, ?_⟩
    · intro q hq
      simp only [List.mem_map] at hq
      obtain ⟨q0, hq0, rfl⟩ := hq
      have := h.1 q0 hq0
      rw [sel_snoc]
      by_cases hk : q0.1 = e.1
      · have h1 : (q0.1 == e.1) = true := by simp [hk]
        have h2 : (e.1 == q0.1) = true := by simp [hk]
        simp only [h1, if_true, h2, this]
      · have h1 : (q0.1 == e.1) = false := by simp [hk]
        have h2 : (e.1 == q0.1) = false := by simp; exact fun h' => hk h'.symm
        simp only [h1, Bool.false_eq_true, if_false, h2, List.append_nil, this]
    · intro e' he'
      simp only [List.mem_append, List.mem_singleton] at he'
      simp only [List.any_map]
      rcases he' with he' | rfl
      · have := h.2 e' he'
        rw [List.any_eq_true] at this ⊢
        obtain ⟨p, hp, hpe⟩ := this
        refine ⟨p, hp, ?_⟩
        simp only [Function.comp]
        split <;> simpa using hpe
      · rw [List.any_eq_true] at hany ⊢
        obtain ⟨p, hp, hpe⟩ := hany
        refine ⟨p, hp, ?_⟩
        simp only [Function.comp]
        split <;> simpa using hpe
  · rename_i hany
    have hnone : ∀ q ∈ parts, ¬ q.1 = e.1 := by
      intro q hq hk
      apply hany
      exact List.any_eq_true.mpr ⟨q, hq, by simp [hk]⟩
    have hsel0 : sel e.1 done = [] := by
      have : (done.filter fun e' => e'.1 == e.1) = [] := by
        apply List.filter_eq_nil_iff.mpr
        intro e' he'
        have := h.2 e' he'
        obtain ⟨p, hp, hpe⟩ := List.any_eq_true.mp this
        have hpk : p.1 = e'.1 := by simpa using hpe
        intro hk
        have : e'.1 = e.1 := by simpa using hk
        exact hnone p hp (hpk.trans this)
      simp [sel, this, untriples]
    refine ⟨?_, ?_⟩
    · intro q hq
      simp only [List.mem_append, List.mem_singleton] at hq
      rcases hq with hq | rfl
      · rw [sel_snoc]
        have hk : (e.1 == q.1) = false := by simp; exact fun h' => hnone q hq h'.symm
        simp only [hk, Bool.false_eq_true, if_false, List.append_nil]
        exact h.1 q hq
      · rw [sel_snoc, hsel0]; simp
    · intro e' he'
      simp only [List.mem_append, List.mem_singleton] at he'
      simp only [List.any_append, Bool.or_eq_true]
      rcases he' with he' | rfl
      · exact Or.inl (h.2 e' he')
      · right; simp

theorem groupFold_inv : ∀ (l : List (Nat × (Nat × Nat × Nat))) (parts : List (Nat × List Nat))
    (done : List (Nat × (Nat × Nat × Nat))), GroupInv parts done → GroupInv (groupFold parts l) (done ++ l)
  | [], parts, done, h => by simpa [groupFold] using h
  | e :: l, parts, done, h => by
    have := groupFold_inv l (addToPart parts e.1 e.2) (done ++ [e]) (addToPart_inv' h e)
    simpa [groupFold] using this

/-- selecting the triangles of material `μ` = keeping the corners flagged by the assignment -/
theorem sel_eq_keepAt (μ : Nat) : ∀ (l : List Nat) (assign : List Nat), assign.length = (triples l).length →
    sel μ (assign.zip (triples l)) = keepAt (assign.flatMap fun ν => List.replicate 3 (ν == μ)) l
  | [], assign, h => by
    have : assign = [] := List.eq_nil_of_length_eq_zero (by simpa [triples] using h)
    simp [this, sel, untriples, keepAt]
  | [_], assign, h => by
    have : assign = [] := List.eq_nil_of_length_eq_zero (by simpa [triples] using h)
    simp [this, sel, untriples, keepAt]
  | [_, _], assign, h => by
    have : assign = [] := List.eq_nil_of_length_eq_zero (by simpa [triples] using h)
    simp [this, sel, untriples, keepAt]
  | a :: b :: c :: rest, [], h => by simp [triples] at h
  | a :: b :: c :: rest, ν :: as, h => by
    have hl : as.length = (triples rest).length := by simpa [triples] using h
    have ih := sel_eq_keepAt μ rest as hl
    simp only [sel] at ih ⊢
    simp only [triples, List.zip_cons_cons, List.filter_cons, List.flatMap_cons]
    cases hν : (ν == μ)
    · simp only [Bool.false_eq_true, if_false, ih]
      simp [keepAt, List.replicate]
    · simp only [if_true, List.map_cons, untriples, ih]
      simp [keepAt, List.replicate]

theorem zip_filter_length (μ : Nat) : ∀ (assign : List Nat) (T : List (Nat × Nat × Nat)), assign.length = T.length →
    ((assign.zip T).filter fun e => e.1 == μ).length = (assign.filter (· == μ)).length
  | [], _, _ => by simp
  | _ :: _, [], h => by simp at h
  | ν :: as, t :: T, h => by
    have ih := zip_filter_length μ as T (by simpa using h)
    simp only [List.zip_cons_cons, List.filter_cons]
    cases (ν == μ) <;> simp [ih]

/-- **Split, main statement**: when the split succeeds on a mesh with two or more ranges, the loop
    assigns a material to every triangle (`assign`), and every part is exactly the sub-mesh of the
    triangles assigned its material — in order, corners kept, one range counting them. -/
theorem split_parts [DecidableEq α] {m : MeshVal α} {parts : List (MeshVal α)} (h : WF m)
    (h2 : 2 ≤ m.materials.length) (hs : m.splitOnMaterials = some parts) :
    ∃ assign, assignLoop (triples m.indices) 0 m.materials 0 = some assign ∧
      assign.length = (triples m.indices).length ∧
      (∀ p ∈ parts, ∃ μ, PartSpec m assign p μ) ∧
      (∀ μ ∈ assign, ∃ p ∈ parts, PartSpec m assign p μ) := by
  unfold splitOnMaterials at hs
  split at hs
  · rename_i hm; rw [hm] at h2; simp at h2
  · rename_i hm; rw [hm] at h2; simp at h2
  · rename_i r0 _ _ _
    split at hs
    case isFalse => cases hs
    case isTrue ht =>
      rw [splitLoop_eq] at hs
      simp only [Option.map_map, Option.map_eq_some_iff] at hs
      obtain ⟨assign, hassign, rfl⟩ := hs
      have hlen := assignLoop_length _ _ _ _ _ hassign
      have hinv : GroupInv (groupFold [(r0.mat, [])] (assign.zip (triples m.indices))) (assign.zip (triples m.indices)) := by
        have := groupFold_inv (assign.zip (triples m.indices)) [(r0.mat, [])] []
          ⟨by intro q hq; simp at hq; subst hq; simp [sel, untriples], by simp⟩
        simpa using this
      -- what one working mesh turns into
      have hpart : ∀ q ∈ groupFold [(r0.mat, [])] (assign.zip (triples m.indices)),
          PartSpec m assign (((m.setIndices q.2).setMaterial q.1).removeUnreferenced) q.1 := by
        intro q hq
        have hq2 : q.2 = keepAt (assign.flatMap fun ν => List.replicate 3 (ν == q.1)) m.indices := by
          rw [hinv.1 q hq, sel_eq_keepAt q.1 m.indices assign hlen]
        have hq2len : q.2.length = 3 * (assign.filter (· == q.1)).length := by
          rw [hinv.1 q hq, sel, length_untriples, List.length_map, zip_filter_length q.1 assign _ hlen]
        have hwf : WF ((m.setIndices q.2).setMaterial q.1) := by
          apply setMaterial_wf
          rw [hq2]
          apply setIndices_keepAt_wf h
          rw [← hq2, ht]; show q.2.length % 3 = 0; omega
        refine ⟨rfl, ?_, ?_⟩
        · show [MatRange.mk ((m.setIndices q.2).indices.length / (m.setIndices q.2).topology.indexSize) q.1] = _
          have : (m.setIndices q.2).topology.indexSize = 3 := by show m.topology.indexSize = 3; rw [ht]; rfl
          rw [this]; show [MatRange.mk (q.2.length / 3) q.1] = _
          rw [hq2len]; congr 2; omega
        · rw [removeUnreferenced_corners hwf]
          show (if q.2 = [] then [] else (m.setIndices q.2).corners) = _
          rw [hq2, setIndices_keepAt_corners]
      refine ⟨assign, hassign, hlen, ?_, ?_⟩
      · intro p hp
        have hp' : p ∈ (groupFold [(r0.mat, [])] (assign.zip (triples m.indices))).map
            (fun q => ((m.setIndices q.2).setMaterial q.1).removeUnreferenced) := hp
        obtain ⟨q, hq, rfl⟩ := List.mem_map.mp hp'
        exact ⟨q.1, hpart q hq⟩
      · intro μ hμ
        -- some triangle has material μ, so a working mesh with key μ exists
        obtain ⟨j, hj, hjμ⟩ := List.getElem_of_mem hμ
        have hjT : j < (triples m.indices).length := by omega
        have hmem : (μ, (triples m.indices)[j]) ∈ assign.zip (triples m.indices) := by
          rw [List.mem_iff_getElem]
          exact ⟨j, by rw [List.length_zip]; omega, by simp [List.getElem_zip, hjμ]⟩
        have := hinv.2 _ hmem
        obtain ⟨q, hq, hqk⟩ := List.any_eq_true.mp this
        have hqk' : q.1 = μ := by simpa using hqk
        have hin : ((m.setIndices q.2).setMaterial q.1).removeUnreferenced ∈
            (groupFold [(r0.mat, [])] (assign.zip (triples m.indices))).map
              (fun q => ((m.setIndices q.2).setMaterial q.1).removeUnreferenced) :=
          List.mem_map.mpr ⟨q, hq, rfl⟩
        refine ⟨_, hin, ?_⟩
        rw [← hqk']; exact hpart q hq

/-! ### the loop's assignment is the written-out ranges -/

theorem matOfTris_cons (r : MatRange) (rs : List MatRange) :
    matOfTris (r :: rs) = List.replicate r.count r.mat ++ matOfTris rs := by
  simp [matOfTris]

theorem drop_replicate_append_ge {β : Type} (c k : Nat) (x : β) (L : List β) (h : c ≤ k) :
    (List.replicate c x ++ L).drop k = L.drop (k - c) := by
  rw [List.drop_append]
  simp [List.drop_replicate]
  omega

theorem drop_replicate_append_lt {β : Type} (c k : Nat) (x : β) (L : List β) (h : k < c) :
    (List.replicate c x ++ L).drop k = x :: (List.replicate c x ++ L).drop (k + 1) := by
  have hlen : k < (List.replicate c x ++ L).length := by simp; omega
  rw [List.drop_eq_getElem_cons hlen]
  congr 1
  rw [List.getElem_append_left (by simp; exact h)]
  simp

theorem advanceMat_spec : ∀ (rest : List MatRange) (other tri : Nat) (rest' : List MatRange) (other' : Nat),
    advanceMat rest other tri = some (rest', other') → other ≤ tri →
    other' ≤ tri ∧ (matOfTris rest).drop (tri - other) = (matOfTris rest').drop (tri - other') ∧
    (∀ r rs, rest' = r :: rs → tri - other' < r.count)
  | [], _, _, _, _, h, _ => by simp [advanceMat] at h
  | r :: rs, other, tri, rest', other', h, hle => by
    simp only [advanceMat] at h
    split at h
    · rename_i hc
      obtain ⟨h1, h2, h3⟩ := advanceMat_spec rs (other + r.count) tri rest' other' h (by omega)
      refine ⟨h1, ?_, h3⟩
      rw [matOfTris_cons, drop_replicate_append_ge _ _ _ _ (by omega), ← h2]
      congr 1; omega
    · rename_i hc
      simp only [Option.some.injEq, Prod.mk.injEq] at h
      obtain ⟨rfl, rfl⟩ := h
      refine ⟨hle, rfl, ?_⟩
      intro r' rs' heq
      simp only [List.cons.injEq] at heq
      rw [← heq.1]; omega

theorem assignLoop_spec : ∀ (ts : List (Nat × Nat × Nat)) (tri : Nat) (rest : List MatRange) (other : Nat)
    (assign : List Nat), assignLoop ts tri rest other = some assign → other ≤ tri →
    assign = ((matOfTris rest).drop (tri - other)).take ts.length
  | [], _, _, _, assign, h, _ => by simp only [assignLoop, Option.some.injEq] at h; subst h; simp
  | t :: ts, tri, rest, other, assign, h, hle => by
    simp only [assignLoop] at h
    split at h
    · cases h
    · rename_i rest' other' hadv
      split at h
      · cases h
      · rename_i r rs
        simp only [Option.map_eq_some_iff] at h
        obtain ⟨as, has, rfl⟩ := h
        obtain ⟨h1, h2, h3⟩ := advanceMat_spec rest other tri _ other' hadv hle
        have hlt := h3 r rs rfl
        have ih := assignLoop_spec ts (tri + 1) (r :: rs) other' as has (by omega)
        rw [h2, matOfTris_cons, drop_replicate_append_lt _ _ _ _ hlt, List.length_cons, List.take_succ_cons]
        rw [ih, matOfTris_cons]
        congr 3; omega

/-! ### order of the parts -/

def keyStep (acc : List Nat) (x : Nat) : List Nat := if acc.contains x then acc else acc ++ [x]

theorem addToPart_keys (parts : List (Nat × List Nat)) (μ : Nat) (t : Nat × Nat × Nat) :
    (addToPart parts μ t).map (·.1) = keyStep (parts.map (·.1)) μ := by
  unfold addToPart keyStep
  have hany : parts.any (fun p => p.1 == μ) = (parts.map (·.1)).contains μ := by
    induction parts with
    | nil => rfl
    | cons a t ih =>
      simp only [List.any_cons, List.map_cons, List.contains_cons, ih]
      congr 1
      exact Bool.beq_comm
  rw [hany]
  split
  · rw [List.map_map]
    apply List.map_congr_left
    intro p _
    simp only [Function.comp]
    split <;> rfl
  · simp

theorem groupFold_keys : ∀ (l : List (Nat × (Nat × Nat × Nat))) (parts : List (Nat × List Nat)),
    (groupFold parts l).map (·.1) = (l.map (·.1)).foldl keyStep (parts.map (·.1))
  | [], parts => rfl
  | e :: l, parts => by
    have := groupFold_keys l (addToPart parts e.1 e.2)
    simp only [groupFold, List.foldl_cons, List.map_cons] at this ⊢
    rw [this, addToPart_keys]

theorem zip_map_fst : ∀ (a : List Nat) (T : List (Nat × Nat × Nat)), a.length = T.length → (a.zip T).map (·.1) = a
  | [], _, _ => by simp
  | _ :: _, [], h => by simp at h
  | x :: a, t :: T, h => by simp [zip_map_fst a T (by simpa using h)]

theorem dedupNat_cons (x : Nat) (l : List Nat) : dedupNat (x :: l) = l.foldl keyStep [x] := rfl

/-- the loop assigns triangle `j` the material of the range that covers `j` when the ranges are
    written out one after another -/
theorem assignLoop_eq_take {ms : List MatRange} {T : List (Nat × Nat × Nat)} {assign : List Nat}
    (h : assignLoop T 0 ms 0 = some assign) : assign = (matOfTris ms).take T.length := by
  have := assignLoop_spec T 0 ms 0 assign h (Nat.le_refl _)
  simpa using this

/-- **the whole split contract** -/
theorem split_spec [DecidableEq α] {m : MeshVal α} {parts : List (MeshVal α)} (h : WF m)
    (hs : m.splitOnMaterials = some parts) : SplitSpec m parts := by
  unfold SplitSpec
  split
  · rename_i hlt
    have hsingle : m.splitOnMaterials = some [m] := by
      unfold splitOnMaterials
      cases hm : m.materials with
      | nil => rfl
      | cons a t =>
        cases t with
        | nil => rfl
        | cons b t' => rw [hm] at hlt; simp at hlt; omega
    rw [hsingle] at hs
    cases hs; rfl
  · rename_i hge
    unfold splitOnMaterials at hs
    split at hs
    · rename_i hm; rw [hm] at hge; simp at hge
    · rename_i hm; rw [hm] at hge; simp at hge
    · rename_i _ r0 _ _ hmeq
      split at hs
      case isFalse => cases hs
      case isTrue ht =>
        rw [splitLoop_eq] at hs
        simp only [Option.map_map, Option.map_eq_some_iff] at hs
        obtain ⟨assign, hassign, hparts⟩ := hs
        have hlen := assignLoop_length _ _ _ _ _ hassign
        have hassign_eq := assignLoop_eq_take hassign
        have hinv : GroupInv (groupFold [(r0.mat, [])] (assign.zip (triples m.indices))) (assign.zip (triples m.indices)) := by
          have := groupFold_inv (assign.zip (triples m.indices)) [(r0.mat, [])] []
            ⟨by intro q hq; simp at hq; subst hq; simp [sel, untriples], by simp⟩
          simpa using this
        have hpart : ∀ q ∈ groupFold [(r0.mat, [])] (assign.zip (triples m.indices)),
            PartSpec m assign (((m.setIndices q.2).setMaterial q.1).removeUnreferenced) q.1 := by
          intro q hq
          have hq2 : q.2 = keepAt (assign.flatMap fun ν => List.replicate 3 (ν == q.1)) m.indices := by
            rw [hinv.1 q hq, sel_eq_keepAt q.1 m.indices assign hlen]
          have hq2len : q.2.length = 3 * (assign.filter (· == q.1)).length := by
            rw [hinv.1 q hq, sel, length_untriples, List.length_map, zip_filter_length q.1 assign _ hlen]
          have hwf : WF ((m.setIndices q.2).setMaterial q.1) := by
            apply setMaterial_wf
            rw [hq2]
            apply setIndices_keepAt_wf h
            rw [← hq2, ht]; show q.2.length % 3 = 0; omega
          refine ⟨rfl, ?_, ?_⟩
          · show [MatRange.mk ((m.setIndices q.2).indices.length / (m.setIndices q.2).topology.indexSize) q.1] = _
            have : (m.setIndices q.2).topology.indexSize = 3 := by show m.topology.indexSize = 3; rw [ht]; rfl
            rw [this]; show [MatRange.mk (q.2.length / 3) q.1] = _
            rw [hq2len]; congr 2; omega
          · rw [removeUnreferenced_corners hwf]
            show (if q.2 = [] then [] else (m.setIndices q.2).corners) = _
            rw [hq2, setIndices_keepAt_corners]
        -- the order of the parts
        have hkeys : (groupFold [(r0.mat, [])] (assign.zip (triples m.indices))).map (·.1) =
            dedupNat ((m.materials.map (·.mat)).take 1 ++ assign) := by
          rw [groupFold_keys, zip_map_fst assign _ hlen]
          have : (m.materials.map (·.mat)).take 1 = [r0.mat] := by rw [hmeq]; simp
          rw [this]
          show assign.foldl keyStep [r0.mat] = dedupNat (r0.mat :: assign)
          rw [dedupNat_cons]
        have hpe : parts = (groupFold [(r0.mat, [])] (assign.zip (triples m.indices))).map
            (fun q => ((m.setIndices q.2).setMaterial q.1).removeUnreferenced) := hparts.symm
        rw [← hassign_eq, ← hkeys, hpe]
        refine ⟨hlen, by simp, ?_⟩
        intro pm hpm
        rw [List.zip_map'] at hpm
        obtain ⟨q, hq, rfl⟩ := List.mem_map.mp hpm
        exact hpart q hq

end MeshVal
end PolyVerif.Mesh
