/-
  C18: vertex-manifoldness and connectedness (predicates of `Model/SolidsTopo.lean`): the boxes by `decide` on the
  complete tables; the UV sphere is connected for ALL rows, cols (every vertex is reached from the top pole).
-/
import PolyVerif.Model.SolidsTopo
import PolyVerif.Lemmas.SolidsMerge
import PolyVerif.Gen.CubeTable
import Mathlib.Logic.Relation
namespace PolyVerif.Solids

theorem cubeWelded_vm : VertexManifold (unflat Gen.CubeTable.cubeVertIndices) := by
  unfold VertexManifold Umbrella; decide +kernel
set_option maxRecDepth 20000 in
theorem cubeWelded_conn : Connected (unflat Gen.CubeTable.cubeVertIndices) := by unfold Connected; decide
theorem cubeQuads_vm : VertexManifold (cubeQuadsTris.map (tmap cubeQuadsPt)) := by
  unfold VertexManifold Umbrella; decide +kernel
set_option maxRecDepth 20000 in
theorem cubeQuads_conn : Connected (cubeQuadsTris.map (tmap cubeQuadsPt)) := by unfold Connected; decide

/-- edge relation of a triangle list -/
def Adj {β : Type} (ts : List (β × β × β)) (a b : β) : Prop := (a, b) ∈ edges ts

/-- every valid logical point of the sphere is reachable from the top pole along edges -/
theorem sphereL_reach {R C : Nat} (hR : 2 ≤ R) (hC : 3 ≤ C) (p : LP) (hp : UvValid R C p) :
    Relation.ReflTransGen (Adj (sphereL R C)) (0, 0) p := by
  -- ring 1
  have ring1 : ∀ c, c < C → Relation.ReflTransGen (Adj (sphereL R C)) (0, 0) (1, c) := by
    intro c hc
    obtain ⟨hp', h2⟩ := pd_spec hc
    refine Relation.ReflTransGen.single ?_
    refine mem_edges_sphereL.2 (Or.inl ⟨(c + C - 1) % C, hp', ?_⟩)
    simp [fanE, h2]
  -- down the column
  have col : ∀ ρ, 1 ≤ ρ → ρ < R → ∀ c, c < C → Relation.ReflTransGen (Adj (sphereL R C)) (0, 0) (ρ, c) := by
    intro ρ h1
    induction ρ, h1 using Nat.le_induction with
    | base => intro _ c hc; exact ring1 c hc
    | succ ρ h1 ih =>
      intro h2 c hc
      refine Relation.ReflTransGen.tail (ih (by omega) c hc) ?_
      -- edge (ρ, c) → (ρ+1, c): reverse of QuadB slot 5, i.e. QuadA slot 1 of the previous column
      obtain ⟨hp', hq⟩ := pd_spec hc
      refine mem_edges_sphereL.2 (Or.inr ⟨ρ - 1, by omega, (c + C - 1) % C, hp', ?_⟩)
      have e1 : ρ - 1 + 1 = ρ := by omega
      have e2 : ρ - 1 + 2 = ρ + 1 := by omega
      simp [quadE, hq, e1, e2]
  rcases hp with rfl | rfl | ⟨h1, h2, h3⟩
  · exact Relation.ReflTransGen.refl
  · -- bottom pole: from (R-1, 1 % C ...) use fan slot 5: ((R-1, (i+1)%C), (R,0)) with i = 0
    refine Relation.ReflTransGen.tail (col (R - 1) (by omega) (by omega) ((0 + 1) % C) (Nat.mod_lt _ (by omega))) ?_
    refine mem_edges_sphereL.2 (Or.inl ⟨0, by omega, ?_⟩)
    simp [fanE]
  · obtain ⟨ρ, c⟩ := p
    exact col ρ h1 h2 c h3


theorem adj_map {β γ : Type} (f : β → γ) (ts : List (β × β × β)) {a b : β} (h : Adj ts a b) :
    Adj (ts.map (tm f)) (f a) (f b) := by
  unfold Adj at *; rw [edges_map]; exact List.mem_map.2 ⟨(a, b), h, rfl⟩

/-- the welded UV sphere is connected, all sizes: every vertex id is reached from vertex 0 (the top pole) along edges -/
theorem uvSphere_reach {R C : Nat} (hR : 2 ≤ R) (hC : 3 ≤ C) {v : Nat} (hv : v < uvSphereNV R C) :
    Relation.ReflTransGen (Adj (uvSphereTris R C)) 0 v := by
  obtain ⟨pv, ev⟩ := uvEnc_uvDec hR hC hv
  have h := sphereL_reach hR hC _ pv
  rw [uvSphereTris_eq_map hR, ← ev, ← uvEnc_top R C]
  exact Relation.ReflTransGen.lift (uvEnc R C) (fun a b hab => adj_map _ _ hab) _ _ h

end PolyVerif.Solids
