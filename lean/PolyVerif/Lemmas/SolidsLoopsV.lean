/-
  C18: the vertex POSITIONS and supplied NORMALS of `Model/Solids.lean` / `Model/SolidsCode.lean` EQUAL the float/vector
  interpretation (`LoopIR.execV`) of the loop programs regenerated from /repo (`Gen/PrimLoops.lean`), for ALL parameters
  and for EVERY scalar type `α` with `[Scalar α]` — in particular at `ℝ` (where the geometric theorems live) and at
  `Float` (what the driver runs): the equalities are syntactic, no field axioms are used.  A changed angle formula,
  radius factor or pole position in the Go source changes the generated program and breaks the corresponding theorem.
-/
import PolyVerif.Gen.PrimLoops
import PolyVerif.Lemmas.SolidsLoops
import PolyVerif.Model.SolidsCode
namespace PolyVerif.Solids
open PolyVerif.LoopIR

variable {α : Type}

/-- a loop that appends one vertex `G i` per iteration to the target slice -/
theorem vfold1 (s : Nat) (G : Nat → V3 α) (n : Nat) (m0 : St × (Nat → V3 α)) :
    (List.range n).foldl (fun m i => (upd m.1 s (m.1 s ++ [0]), upd m.2 (m.1 s).length (G i))) m0 =
      (upd m0.1 s (m0.1 s ++ List.replicate n 0),
        fun v => if (m0.1 s).length ≤ v ∧ v < (m0.1 s).length + n then G (v - (m0.1 s).length) else m0.2 v) := by
  induction n with
  | zero =>
    simp only [List.range_zero, List.foldl_nil, List.replicate_zero, List.append_nil]
    refine Prod.ext ?_ ?_
    · funext x; simp only [upd]; split <;> simp_all
    · funext v; simp only [Nat.add_zero]; split
      · omega
      · rfl
  | succ n ih =>
    rw [List.range_succ, List.foldl_append, ih]
    simp only [List.foldl_cons, List.foldl_nil, upd_same, upd_upd, List.length_append, List.length_replicate]
    refine Prod.ext ?_ ?_
    · simp only [List.replicate_succ', List.append_assoc]
    · funext v
      simp only [upd]
      by_cases h : v = (m0.1 s).length + n
      · subst h; simp
      · simp only [h, if_false]
        by_cases h2 : (m0.1 s).length ≤ v ∧ v < (m0.1 s).length + n
        · have : (m0.1 s).length ≤ v ∧ v < (m0.1 s).length + (n + 1) := by omega
          simp [h2, this]
        · have : ¬ ((m0.1 s).length ≤ v ∧ v < (m0.1 s).length + (n + 1)) := by omega
          simp [h2, this]

/-- a loop whose iteration `i` appends a block of `k` vertices `G i 0 … G i (k-1)` -/
theorem vfoldBlock (s k : Nat) (hk : 0 < k) (G : Nat → Nat → V3 α) (n : Nat) (m0 : St × (Nat → V3 α)) :
    (List.range n).foldl (fun (m : St × (Nat → V3 α)) i => (upd m.1 s (m.1 s ++ List.replicate k 0),
        fun v => if (m.1 s).length ≤ v ∧ v < (m.1 s).length + k then G i (v - (m.1 s).length) else m.2 v)) m0 =
      (upd m0.1 s (m0.1 s ++ List.replicate (k * n) 0),
        fun v => if (m0.1 s).length ≤ v ∧ v < (m0.1 s).length + k * n
          then G ((v - (m0.1 s).length) / k) ((v - (m0.1 s).length) % k) else m0.2 v) := by
  induction n with
  | zero =>
    simp only [List.range_zero, List.foldl_nil, Nat.mul_zero, List.replicate_zero, List.append_nil]
    refine Prod.ext ?_ ?_
    · funext x; simp only [upd]; split <;> simp_all
    · funext v; simp only [Nat.add_zero]; split
      · omega
      · rfl
  | succ n ih =>
    rw [List.range_succ, List.foldl_append, ih]
    simp only [List.foldl_cons, List.foldl_nil, upd_same, upd_upd, List.length_append, List.length_replicate]
    refine Prod.ext ?_ ?_
    · simp only [Nat.mul_succ, List.replicate_add, List.append_assoc]
    · funext v
      set L := (m0.1 s).length with hL
      by_cases h1 : L + k * n ≤ v ∧ v < L + k * n + k
      · have h2 : L ≤ v ∧ v < L + k * (n + 1) := by rw [Nat.mul_succ]; omega
        have e1 : (v - L) / k = n := by
          have : v - L = k * n + (v - (L + k * n)) := by omega
          rw [this, Nat.mul_add_div hk, Nat.div_eq_of_lt (by omega)]; rfl
        have e2 : (v - L) % k = v - (L + k * n) := by
          have : v - L = k * n + (v - (L + k * n)) := by omega
          rw [this, Nat.mul_add_mod, Nat.mod_eq_of_lt (by omega)]
        simp only [h1, h2, and_self, if_true, e1, e2]
      · simp only [h1, if_false]
        by_cases h2 : L ≤ v ∧ v < L + k * n
        · have : L ≤ v ∧ v < L + k * (n + 1) := by rw [Nat.mul_succ]; omega
          simp only [h2, this, and_self, if_true]
        · have : ¬ (L ≤ v ∧ v < L + k * (n + 1)) := by rw [Nat.mul_succ]; omega
          simp only [h2, this, if_false]



theorem foldl_snd_inv {σ τ : Type} (B : σ × τ → Nat → σ × τ) (hB : ∀ m i, (B m i).2 = m.2) (l : List Nat) (m0 : σ × τ) :
    (l.foldl B m0).2 = m0.2 := by
  induction l generalizing m0 with
  | nil => rfl
  | cons a l ih => rw [List.foldl_cons, ih, hB]

theorem foldl_snd1 {σ τ : Type} (F : σ × τ → Nat → σ) (l : List Nat) (m0 : σ × τ) :
    (l.foldl (fun m i => (F m i, m.2)) m0).2 = m0.2 :=
  foldl_snd_inv (fun m i => (F m i, m.2)) (fun _ _ => rfl) l m0

theorem foldl_snd2 {σ τ : Type} (F : Nat → σ × τ → Nat → σ) (l2 : Nat → List Nat) (l : List Nat) (m0 : σ × τ) :
    (l.foldl (fun m i => (l2 i).foldl (fun m j => (F i m j, m.2)) m) m0).2 = m0.2 :=
  foldl_snd_inv (fun m i => (l2 i).foldl (fun m j => (F i m j, m.2)) m) (fun m i => foldl_snd1 (F i) (l2 i) m) l m0

/-- a loop that sets entry `i` to `G i` -/
theorem setfold1 (G : Nat → V3 α) (n : Nat) (m0 : St × (Nat → V3 α)) :
    (List.range n).foldl (fun (m : St × (Nat → V3 α)) i => (m.1, upd m.2 i (G i))) m0 =
      (m0.1, fun v => if v < n then G v else m0.2 v) := by
  induction n with
  | zero => simp
  | succ n ih =>
    rw [List.range_succ, List.foldl_append, ih]
    simp only [List.foldl_cons, List.foldl_nil]
    refine Prod.ext rfl ?_
    funext v
    simp only [upd]
    by_cases h : v = n
    · subst h; simp
    · by_cases h2 : v < n
      · have : v < n + 1 := by omega
        simp [h, h2, this]
      · have : ¬ v < n + 1 := by omega
        simp [h, h2, this]

/-- a loop that sets entries `i*2` and `i*2+1` to `A i`, `B i` -/
theorem setfold2 (A B : Nat → V3 α) (n : Nat) (m0 : St × (Nat → V3 α)) :
    (List.range n).foldl (fun (m : St × (Nat → V3 α)) i => (m.1, upd (upd m.2 (i * 2) (A i)) (i * 2 + 1) (B i))) m0 =
      (m0.1, fun v => if v < 2 * n then (if v % 2 = 0 then A (v / 2) else B (v / 2)) else m0.2 v) := by
  induction n with
  | zero => simp
  | succ n ih =>
    rw [List.range_succ, List.foldl_append, ih]
    simp only [List.foldl_cons, List.foldl_nil]
    refine Prod.ext rfl ?_
    funext v
    simp only [upd]
    by_cases h1 : v = n * 2 + 1
    · subst h1
      have a1 : n * 2 + 1 < 2 * (n + 1) := by omega
      have a2 : ¬ ((n * 2 + 1) % 2 = 0) := by omega
      have a3 : (n * 2 + 1) / 2 = n := by omega
      simp [a1, a2, a3]
    · by_cases h2 : v = n * 2
      · subst h2
        have a1 : n * 2 < 2 * (n + 1) := by omega
        have a2 : (n * 2) % 2 = 0 := by omega
        have a3 : (n * 2) / 2 = n := by omega
        simp [a1, a2, a3]
      · by_cases h3 : v < 2 * n
        · have : v < 2 * (n + 1) := by omega
          simp [h1, h2, h3, this]
        · have : ¬ v < 2 * (n + 1) := by omega
          simp [h1, h2, h3, this]


section
variable [Scalar α]

theorem sphere_pos (radius : α) (rows cols v : Nat) (hC : 0 < cols) (hv : v < uvSphereNV rows cols) :
    Gen.PrimLoops.uvSphere.positions [rows, cols] [radius] v = uvSpherePos radius rows cols v := by
  simp only [Prog.positions, Prog.vslice, Gen.PrimLoops.uvSphere, execV, evalV, evalF, evalE, Loc.init, Prog.env, writeAt,
    List.map_cons, List.map_nil, upd_app, upd_upd, List.getD_cons_zero, List.getD_cons_succ, Nat.reduceEqDiff, ↓reduceIte,
    Nat.add_zero, Nat.sub_zero, Nat.zero_add, Bool.false_eq_true]
  simp only [foldl_snd2, foldl_snd1]
  have inner := fun (i : Nat) (m : St × (Nat → V3 α)) => vfold1 0 (fun i_1 => (V3.New (Scalar.sin (Scalar.pi * ((i + 1 : Nat) : α) / (rows : α)) *
        Scalar.cos (((2 : Nat) : α) * Scalar.pi * (i_1 : α) / (cols : α)))
      (Scalar.cos (Scalar.pi * ((i + 1 : Nat) : α) / (rows : α)))
      (Scalar.sin (Scalar.pi * ((i + 1 : Nat) : α) / (rows : α)) *
        Scalar.sin (((2 : Nat) : α) * Scalar.pi * (i_1 : α) / (cols : α)))).Scale radius) cols m
  simp only [inner]
  have outer := fun (m : St × (Nat → V3 α)) => vfoldBlock 0 cols hC (fun i i_1 => (V3.New (Scalar.sin (Scalar.pi * ((i + 1 : Nat) : α) / (rows : α)) *
        Scalar.cos (((2 : Nat) : α) * Scalar.pi * (i_1 : α) / (cols : α)))
      (Scalar.cos (Scalar.pi * ((i + 1 : Nat) : α) / (rows : α)))
      (Scalar.sin (Scalar.pi * ((i + 1 : Nat) : α) / (rows : α)) *
        Scalar.sin (((2 : Nat) : α) * Scalar.pi * (i_1 : α) / (cols : α)))).Scale radius) (rows - 1) m
  simp only [outer, upd_app, ↓reduceIte, List.replicate_zero, List.nil_append, List.length_cons, List.length_nil,
    List.length_append, List.length_replicate, Nat.zero_add]
  unfold uvSphereNV at hv
  have hb : uvBottom rows cols = 1 + cols * (rows - 1) := by unfold uvBottom; rw [Nat.mul_comm]
  simp only [uvSpherePos, hb, n2a]
  by_cases h0 : v = 0
  · subst h0
    have : ¬ (0 = 1 + cols * (rows - 1)) := by omega
    simp [this]
  · by_cases h1 : v = 1 + cols * (rows - 1)
    · simp [h1]
    · have h2 : 1 ≤ v ∧ v < 1 + cols * (rows - 1) := by
        have : (rows - 1) * cols = cols * (rows - 1) := Nat.mul_comm _ _
        omega
      simp only [h0, h1, h2, and_self, if_true, if_false]

theorem hemisphere_pos (radius : α) (rows cols v : Nat) (hC : 0 < cols) (hv : v < uvSphereNV rows cols) :
    Gen.PrimLoops.hemisphere.positions [rows, cols] [radius] v = hemispherePos radius rows cols v := by
  simp only [Prog.positions, Prog.vslice, Gen.PrimLoops.hemisphere, execV, evalV, evalF, evalE, Loc.init, Prog.env, writeAt,
    List.map_cons, List.map_nil, upd_app, upd_upd, List.getD_cons_zero, List.getD_cons_succ, Nat.reduceEqDiff, ↓reduceIte,
    Nat.add_zero, Nat.sub_zero, Nat.zero_add, Bool.false_eq_true]
  simp only [foldl_snd2, foldl_snd1]
  have inner := fun (i : Nat) (m : St × (Nat → V3 α)) => vfold1 0 (fun i_1 => (V3.New (Scalar.sin (-Scalar.pi * (i : α) / (rows : α) / ((2 : Nat) : α) + Scalar.pi / ((2 : Nat) : α)) *
        Scalar.cos (((2 : Nat) : α) * Scalar.pi * ((i_1 : α) / (cols : α))))
      (Scalar.cos (-Scalar.pi * (i : α) / (rows : α) / ((2 : Nat) : α) + Scalar.pi / ((2 : Nat) : α)))
      (Scalar.sin (-Scalar.pi * (i : α) / (rows : α) / ((2 : Nat) : α) + Scalar.pi / ((2 : Nat) : α)) *
        Scalar.sin (((2 : Nat) : α) * Scalar.pi * ((i_1 : α) / (cols : α))))).Scale radius) cols m
  simp only [inner]
  have outer := fun (m : St × (Nat → V3 α)) => vfoldBlock 0 cols hC (fun i i_1 => (V3.New (Scalar.sin (-Scalar.pi * (i : α) / (rows : α) / ((2 : Nat) : α) + Scalar.pi / ((2 : Nat) : α)) *
        Scalar.cos (((2 : Nat) : α) * Scalar.pi * ((i_1 : α) / (cols : α))))
      (Scalar.cos (-Scalar.pi * (i : α) / (rows : α) / ((2 : Nat) : α) + Scalar.pi / ((2 : Nat) : α)))
      (Scalar.sin (-Scalar.pi * (i : α) / (rows : α) / ((2 : Nat) : α) + Scalar.pi / ((2 : Nat) : α)) *
        Scalar.sin (((2 : Nat) : α) * Scalar.pi * ((i_1 : α) / (cols : α))))).Scale radius) (rows - 1) m
  simp only [outer, upd_app, ↓reduceIte, List.replicate_zero, List.nil_append, List.length_cons, List.length_nil,
    List.length_append, List.length_replicate, Nat.zero_add]
  unfold uvSphereNV at hv
  have hb : uvBottom rows cols = 1 + cols * (rows - 1) := by unfold uvBottom; rw [Nat.mul_comm]
  simp only [hemispherePos, hb, n2a]
  by_cases h0 : v = 0
  · subst h0
    have : ¬ (0 = 1 + cols * (rows - 1)) := by omega
    simp [this]
  · by_cases h1 : v = 1 + cols * (rows - 1)
    · simp [h1]
    · have h2 : 1 ≤ v ∧ v < 1 + cols * (rows - 1) := by
        have : (rows - 1) * cols = cols * (rows - 1) := Nat.mul_comm _ _
        omega
      simp only [h0, h1, h2, and_self, if_true, if_false]

theorem circle_pos (radius : α) (sides v : Nat) (hv : v < circleNV sides) :
    Gen.PrimLoops.circle.positions [sides] [radius] v = circlePos radius sides v := by
  simp only [Prog.positions, Prog.vslice, Gen.PrimLoops.circle, execV, evalV, evalF, evalE, Loc.init, Prog.env, writeAt,
    List.map_cons, List.map_nil, upd_app, upd_upd, List.getD_cons_zero, List.getD_cons_succ, Nat.reduceEqDiff, ↓reduceIte,
    Nat.add_zero, Nat.sub_zero, Nat.zero_add, Bool.false_eq_true, OfNat.zero_ne_ofNat, OfNat.one_ne_ofNat, zero_ne_one,
    one_ne_zero]
  simp only [foldl_snd2, foldl_snd1, setfold1, upd_app]
  unfold circleNV at hv
  simp only [circlePos, angleIncrement, n2a]
  by_cases h : v = sides
  · simp only [h, if_true]
  · have : v < sides := by omega
    simp only [h, this, if_true, if_false]

theorem circle_nrm (radius : α) (sides v : Nat) (hv : v < circleNV sides) :
    Gen.PrimLoops.circle.normals [sides] [radius] = some (Gen.PrimLoops.circle.vslice 1 [sides] [radius]) ∧
    Gen.PrimLoops.circle.vslice 1 [sides] [radius] v = V3.New (n2a 0) (n2a 1) (n2a 0) := by
  refine ⟨rfl, ?_⟩
  simp only [Prog.vslice, Gen.PrimLoops.circle, execV, evalV, evalF, evalE, Loc.init, Prog.env, writeAt,
    List.map_cons, List.map_nil, upd_app, upd_upd, List.getD_cons_zero, List.getD_cons_succ, Nat.reduceEqDiff, ↓reduceIte,
    Nat.add_zero, Nat.sub_zero, Nat.zero_add, Bool.false_eq_true, OfNat.zero_ne_ofNat, OfNat.one_ne_ofNat, zero_ne_one,
    one_ne_zero]
  simp only [foldl_snd2, foldl_snd1, setfold1, upd_app]
  unfold circleNV at hv
  simp only [n2a]
  by_cases h : v = sides
  · simp only [h, if_true]
  · have : v < sides := by omega
    simp only [h, this, if_true, if_false]

theorem cylinderSide_pos (radius height : α) (sides v : Nat) (hv : v < cylinderSideNV sides) :
    Gen.PrimLoops.cylinder.positions [sides] [radius, height] v = cylinderPos radius height sides v := by
  simp only [Prog.positions, Prog.vslice, Gen.PrimLoops.cylinder, execV, evalV, evalF, evalE, Loc.init, Prog.env, writeAt,
    List.map_cons, List.map_nil, upd_app, upd_upd, List.getD_cons_zero, List.getD_cons_succ, Nat.reduceEqDiff, ↓reduceIte,
    Nat.add_zero, Nat.sub_zero, Nat.zero_add, Bool.false_eq_true, OfNat.zero_ne_ofNat, OfNat.one_ne_ofNat, zero_ne_one,
    one_ne_zero]
  simp only [foldl_snd2, foldl_snd1, setfold2]
  unfold cylinderSideNV at hv
  have h1 : v < 2 * (sides + 1) := by omega
  have h2 : v < 2 * sides + 2 := by omega
  simp only [cylinderPos, angleIncrement, n2a, h1, h2, if_true]
  by_cases h : v % 2 = 0
  · simp only [h, if_true]
  · simp only [h, if_false]

theorem cylinderSide_nrm (radius height : α) (sides v : Nat) (hv : v < cylinderSideNV sides) :
    Gen.PrimLoops.cylinder.vslice 1 [sides] [radius, height] v = cylinderNormal sides v := by
  simp only [Prog.vslice, Gen.PrimLoops.cylinder, execV, evalV, evalF, evalE, Loc.init, Prog.env, writeAt,
    List.map_cons, List.map_nil, upd_app, upd_upd, List.getD_cons_zero, List.getD_cons_succ, Nat.reduceEqDiff, ↓reduceIte,
    Nat.add_zero, Nat.sub_zero, Nat.zero_add, Bool.false_eq_true, OfNat.zero_ne_ofNat, OfNat.one_ne_ofNat, zero_ne_one,
    one_ne_zero]
  simp only [foldl_snd2, foldl_snd1, setfold2]
  unfold cylinderSideNV at hv
  have h1 : v < 2 * (sides + 1) := by omega
  have h2 : v < 2 * sides + 2 := by omega
  simp only [cylinderNormal, angleIncrement, n2a, h1, h2, if_true]
  by_cases h : v % 2 = 0
  · simp only [h, if_true]
  · simp only [h, if_false]
end
end PolyVerif.Solids
