/-
  Lemmas for C18 (closedness of the solid primitives).  Mathlib tactics allowed here.

  Strategy.  Each primitive's triangle list is related to a *logical* triangle list over logical points
  `LP = (ring, column)` (`sphereL`, `cylL`), whose directed-edge list is a concatenation of `flatMap`s over
  `List.range`.  Closedness of the logical list is proved for ALL sizes:
    * `Nodup`: every 6-edge block is duplicate-free and two blocks with different loop indices are
      disjoint (`omega`, with `(i+1) % C` abstracted through `nx_spec`),
    * twins: for each of the edge slots an explicit block containing the reversed edge,
    * no loops.
  The welded primitives are the image of the logical list under an injective vertex numbering
  (`uvEnc`), the unwelded / appended ones map onto it under their merge map.
-/
import PolyVerif.Model.Solids
import Mathlib.Tactic
namespace PolyVerif.Solids
open List

theorem nodup_flatMap_range {α : Type} (n : Nat) (f : Nat → List α) (h1 : ∀ i < n, (f i).Nodup)
    (h2 : ∀ i < n, ∀ i' < n, i ≠ i' → ∀ e ∈ f i, e ∉ f i') : ((List.range n).flatMap f).Nodup := by
  rw [List.nodup_flatMap]
  refine ⟨fun i hi => h1 i (List.mem_range.1 hi), ?_⟩
  apply List.Nodup.pairwise_of_forall_ne List.nodup_range
  intro a ha b hb hab
  simp only [Function.onFun, List.disjoint_left] 
  exact h2 a (List.mem_range.1 ha) b (List.mem_range.1 hb) hab


/-- logical sphere triangles -/
def sphereL (R C : Nat) : List (LP × LP × LP) :=
  ((List.range C).flatMap fun i =>
    [ ((0, 0), (1, (i + 1) % C), (1, i)), ((R, 0), (R - 1, i), (R - 1, (i + 1) % C)) ])
  ++ (List.range (R - 2)).flatMap fun j =>
      (List.range C).flatMap fun i =>
        [ ((j + 1, i), (j + 1, (i + 1) % C), (j + 2, (i + 1) % C)),
          ((j + 1, i), (j + 2, (i + 1) % C), (j + 2, i)) ]

def fanE (R C i : Nat) : List (LP × LP) :=
  [ ((0, 0), (1, (i + 1) % C)), ((1, (i + 1) % C), (1, i)), ((1, i), (0, 0)),
    ((R, 0), (R - 1, i)), ((R - 1, i), (R - 1, (i + 1) % C)), ((R - 1, (i + 1) % C), (R, 0)) ]

def quadE (C j i : Nat) : List (LP × LP) :=
  [ ((j + 1, i), (j + 1, (i + 1) % C)), ((j + 1, (i + 1) % C), (j + 2, (i + 1) % C)), ((j + 2, (i + 1) % C), (j + 1, i)),
    ((j + 1, i), (j + 2, (i + 1) % C)), ((j + 2, (i + 1) % C), (j + 2, i)), ((j + 2, i), (j + 1, i)) ]

theorem edges_sphereL (R C : Nat) : edges (sphereL R C) =
    (List.range C).flatMap (fanE R C) ++ (List.range (R - 2)).flatMap (fun j => (List.range C).flatMap (quadE C j)) := by
  simp only [edges, sphereL, List.flatMap_append, List.flatMap_assoc, triEdges, List.flatMap_cons, List.flatMap_nil, List.cons_append, List.nil_append, List.append_nil]
  rfl
theorem nx_spec {i C : Nat} (h : i < C) :
    ((i + 1) % C = i + 1 ∧ i + 1 < C) ∨ ((i + 1) % C = 0 ∧ i + 1 = C) := by
  rcases Nat.lt_or_ge (i + 1) C with h1 | h1
  · exact Or.inl ⟨Nat.mod_eq_of_lt h1, h1⟩
  · have : i + 1 = C := by omega
    exact Or.inr ⟨by rw [this, Nat.mod_self], this⟩

theorem fanE_nodup {R C i : Nat} (hR : 2 ≤ R) (hC : 3 ≤ C) (hi : i < C) : (fanE R C i).Nodup := by
  have := nx_spec hi
  simp only [fanE, List.nodup_cons, List.mem_cons, List.not_mem_nil, Prod.mk.injEq,
    not_or, List.nodup_nil, not_false_eq_true, and_true]
  omega

theorem quadE_nodup {C j i : Nat} (hC : 3 ≤ C) (hi : i < C) : (quadE C j i).Nodup := by
  have := nx_spec hi
  simp only [quadE, List.nodup_cons, List.mem_cons, List.not_mem_nil, Prod.mk.injEq,
    not_or, List.nodup_nil, not_false_eq_true, and_true]
  omega

theorem fanE_inj {R C i i' : Nat} (hR : 2 ≤ R) (hC : 3 ≤ C) (hi : i < C) (hi' : i' < C) (hne : i ≠ i')
    : ∀ e ∈ fanE R C i, e ∉ fanE R C i' := by
  have := nx_spec hi
  have := nx_spec hi'
  simp only [fanE, List.mem_cons, List.not_mem_nil, Prod.mk.injEq, 
    not_or, or_false, forall_eq_or_imp, forall_eq]
  omega
theorem quadE_inj {C j i j' i' : Nat} (hC : 3 ≤ C) (hi : i < C) (hi' : i' < C) (hne : j ≠ j' ∨ i ≠ i')
    : ∀ e ∈ quadE C j i, e ∉ quadE C j' i' := by
  have := nx_spec hi
  have := nx_spec hi'
  simp only [quadE, List.mem_cons, List.not_mem_nil, Prod.mk.injEq,
    not_or, or_false, forall_eq_or_imp, forall_eq]
  omega

theorem fan_quad_disj {R C i j i' : Nat} (hR : 2 ≤ R) (hC : 3 ≤ C) (hi : i < C) (hi' : i' < C) (hj : j < R - 2)
    : ∀ e ∈ fanE R C i, e ∉ quadE C j i' := by
  have := nx_spec hi
  have := nx_spec hi'
  simp only [fanE, quadE, List.mem_cons, List.not_mem_nil, Prod.mk.injEq,
    not_or, or_false, forall_eq_or_imp, forall_eq]
  omega

theorem mem_edges_sphereL {R C : Nat} {e : LP × LP} : e ∈ edges (sphereL R C) ↔
    (∃ i, i < C ∧ e ∈ fanE R C i) ∨ (∃ j, j < R - 2 ∧ ∃ i, i < C ∧ e ∈ quadE C j i) := by
  simp only [edges_sphereL, List.mem_append, List.mem_flatMap, List.mem_range]

theorem sphereL_nodup {R C : Nat} (hR : 2 ≤ R) (hC : 3 ≤ C) : (edges (sphereL R C)).Nodup := by
  rw [edges_sphereL, List.nodup_append]
  refine ⟨?_, ?_, ?_⟩
  · exact nodup_flatMap_range _ _ (fun i hi => fanE_nodup hR hC hi)
      (fun i hi i' hi' hne => fanE_inj hR hC hi hi' hne)
  · refine nodup_flatMap_range _ _ (fun j _ => ?_) (fun j _ j' _ hne e he he' => ?_)
    · exact nodup_flatMap_range _ _ (fun i hi => quadE_nodup hC hi)
        (fun i hi i' hi' hne => quadE_inj hC hi hi' (Or.inr hne))
    · simp only [List.mem_flatMap, List.mem_range] at he he'
      obtain ⟨i, hi, hei⟩ := he
      obtain ⟨i', hi', hei'⟩ := he'
      exact quadE_inj hC hi hi' (Or.inl hne) e hei hei'
  · intro a ha b hb hab
    subst hab
    simp only [List.mem_flatMap, List.mem_range] at ha hb
    obtain ⟨i, hi, hei⟩ := ha
    obtain ⟨j, hj, i', hi', hei'⟩ := hb
    exact fan_quad_disj hR hC hi hi' hj a hei hei'
theorem pd_spec {i C : Nat} (h : i < C) :
    (i + C - 1) % C < C ∧ ((i + C - 1) % C + 1) % C = i := by
  have hC : 0 < C := by omega
  refine ⟨Nat.mod_lt _ hC, ?_⟩
  rcases Nat.eq_zero_or_pos i with h0 | h0
  · subst h0
    have : (0 + C - 1) % C = C - 1 := by rw [Nat.zero_add]; exact Nat.mod_eq_of_lt (by omega)
    rw [this, show C - 1 + 1 = C by omega, Nat.mod_self]
  · have : (i + C - 1) % C = i - 1 := by
      rw [show i + C - 1 = (i - 1) + C by omega, Nat.add_mod_right]; exact Nat.mod_eq_of_lt (by omega)
    rw [this, show i - 1 + 1 = i by omega]; exact Nat.mod_eq_of_lt h

theorem fan_sub {R C i : Nat} (hi : i < C) : ∀ e ∈ fanE R C i, e ∈ edges (sphereL R C) :=
  fun _ he => mem_edges_sphereL.2 (Or.inl ⟨i, hi, he⟩)

theorem quad_sub {R C j i : Nat} (hj : j < R - 2) (hi : i < C) : ∀ e ∈ quadE C j i, e ∈ edges (sphereL R C) :=
  fun _ he => mem_edges_sphereL.2 (Or.inr ⟨j, hj, i, hi, he⟩)


theorem sphereL_twin {R C : Nat} (hR : 2 ≤ R) (hC : 3 ≤ C) :
    ∀ e ∈ edges (sphereL R C), (e.2, e.1) ∈ edges (sphereL R C) := by
  intro e he
  rcases mem_edges_sphereL.1 he with ⟨i, hi, h⟩ | ⟨j, hj, i, hi, h⟩
  · have h1 := nx_spec hi
    obtain ⟨hp, h2⟩ := pd_spec hi
    have hn : (i + 1) % C < C := Nat.mod_lt _ (by omega)
    have fn := @fan_sub R C _ hn
    have fp := @fan_sub R C _ hp
    have fi := @fan_sub R C _ hi
    have q0 : 2 < R → ∀ e ∈ quadE C 0 i, e ∈ edges (sphereL R C) := fun h => quad_sub (by omega) hi
    have q3 : 2 < R → ∀ e ∈ quadE C (R - 3) i, e ∈ edges (sphereL R C) := fun h => quad_sub (by omega) hi
    simp only [fanE, quadE] at h fn fp fi q0 q3
    generalize (i + C - 1) % C = p at *
    generalize (i + 1) % C = n at *
    simp only [List.mem_cons, List.not_mem_nil, or_false] at h
    rcases h with rfl | rfl | rfl | rfl | rfl | rfl
    · exact fn _ (by simp)
    · rcases Nat.lt_or_ge 2 R with h | h
      · exact q0 h _ (by simp)
      · exact fi _ (by simp; omega)
    · exact fp _ (by simp [h2])
    · exact fp _ (by simp [h2])
    · rcases Nat.lt_or_ge 2 R with h | h
      · exact q3 h _ (by simp; omega)
      · exact fi _ (by simp; omega)
    · exact fn _ (by simp)
  · have h1 := nx_spec hi
    obtain ⟨hp, h2⟩ := pd_spec hi
    have hn : (i + 1) % C < C := Nat.mod_lt _ (by omega)
    have qn := @quad_sub R C j _ hj hn
    have qp := @quad_sub R C j _ hj hp
    have qi := @quad_sub R C j _ hj hi
    have fi := @fan_sub R C _ hi
    have qa : 0 < j → ∀ e ∈ quadE C (j - 1) i, e ∈ edges (sphereL R C) := fun h => quad_sub (by omega) hi
    have qb : j + 3 < R → ∀ e ∈ quadE C (j + 1) i, e ∈ edges (sphereL R C) := fun h => quad_sub (by omega) hi
    simp only [fanE, quadE] at h qn qp qi fi qa qb
    generalize (i + C - 1) % C = p at *
    generalize (i + 1) % C = n at *
    simp only [List.mem_cons, List.not_mem_nil, or_false] at h
    rcases h with rfl | rfl | rfl | rfl | rfl | rfl
    · rcases Nat.eq_zero_or_pos j with h | h
      · subst h; exact fi _ (by simp)
      · exact qa h _ (by simp; omega)
    · exact qn _ (by simp)
    · exact qi _ (by simp)
    · exact qi _ (by simp)
    · rcases Nat.lt_or_ge (j + 3) R with h | h
      · exact qb h _ (by simp)
      · exact fi _ (by simp; omega)
    · exact qp _ (by simp [h2])

theorem sphereL_noloop {R C : Nat} (hR : 2 ≤ R) (hC : 3 ≤ C) :
    ∀ e ∈ edges (sphereL R C), e.1 ≠ e.2 := by
  intro e he
  rcases mem_edges_sphereL.1 he with ⟨i, hi, h⟩ | ⟨j, hj, i, hi, h⟩
  · have h1 := nx_spec hi
    simp only [fanE, List.mem_cons, List.not_mem_nil, or_false] at h
    rcases h with rfl | rfl | rfl | rfl | rfl | rfl <;> simp <;> omega
  · have h1 := nx_spec hi
    simp only [quadE, List.mem_cons, List.not_mem_nil, or_false] at h
    rcases h with rfl | rfl | rfl | rfl | rfl | rfl <;> simp <;> omega

theorem sphereL_closed {R C : Nat} (hR : 2 ≤ R) (hC : 3 ≤ C) : Closed (sphereL R C) :=
  ⟨sphereL_nodup hR hC, sphereL_twin hR hC, sphereL_noloop hR hC⟩
/-! ### transport along vertex maps -/

/-- apply a point map to the three corners of a logical triangle -/
def tm {β γ : Type} (f : β → γ) (t : β × β × β) : γ × γ × γ := (f t.1, f t.2.1, f t.2.2)

theorem edges_map {β γ : Type} (f : β → γ) (ts : List (β × β × β)) :
    edges (ts.map (tm f)) = (edges ts).map (Prod.map f f) := by
  simp only [edges, List.flatMap_map, List.map_flatMap]
  rfl

theorem Closed.map_of_injOn {β γ : Type} {f : β → γ} {ts : List (β × β × β)} (V : β → Prop)
    (hV : ∀ e ∈ edges ts, V e.1 ∧ V e.2) (hinj : ∀ p q, V p → V q → f p = f q → p = q)
    (h : Closed ts) : Closed (ts.map (tm f)) := by
  obtain ⟨hnd, htw, hnl⟩ := h
  rw [Closed, edges_map]
  refine ⟨?_, ?_, ?_⟩
  · refine List.Nodup.map_on ?_ hnd
    intro x hx y hy hxy
    have h1 := hinj _ _ (hV x hx).1 (hV y hy).1 (congrArg Prod.fst hxy)
    have h2 := hinj _ _ (hV x hx).2 (hV y hy).2 (congrArg Prod.snd hxy)
    exact Prod.ext h1 h2
  · intro e he
    obtain ⟨x, hx, rfl⟩ := List.mem_map.1 he
    exact List.mem_map.2 ⟨(x.2, x.1), htw x hx, rfl⟩
  · intro e he
    obtain ⟨x, hx, rfl⟩ := List.mem_map.1 he
    intro hxy
    exact hnl x hx (hinj _ _ (hV x hx).1 (hV x hx).2 hxy)

/-- valid logical points of the `R`-row, `C`-column sphere -/
def UvValid (R C : Nat) (p : LP) : Prop := p = (0, 0) ∨ p = (R, 0) ∨ (1 ≤ p.1 ∧ p.1 < R ∧ p.2 < C)

theorem uvEnc_top (R C : Nat) : uvEnc R C (0, 0) = 0 := by simp [uvEnc]
theorem uvEnc_bot {R : Nat} (C : Nat) (hR : 2 ≤ R) : uvEnc R C (R, 0) = uvBottom R C := by
  have : R ≠ 0 := by omega
  simp [uvEnc, this]
theorem uvEnc_grid {R r : Nat} (C c : Nat) (h1 : 1 ≤ r) (h2 : r < R) : uvEnc R C (r, c) = (r - 1) * C + 1 + c := by
  have : r ≠ 0 := by omega
  have : r ≠ R := by omega
  simp [uvEnc, *]

theorem uvDec_uvEnc {R C : Nat} (hR : 2 ≤ R) (hC : 3 ≤ C) (p : LP) (hv : UvValid R C p) :
    uvDec R C (uvEnc R C p) = p := by
  rcases hv with rfl | rfl | ⟨h1, h2, h3⟩
  · simp [uvEnc_top, uvDec]
  · rw [uvEnc_bot C hR]
    have : uvBottom R C ≠ 0 := by simp [uvBottom]
    simp [uvDec, this]
  · obtain ⟨r, c⟩ := p
    simp only at h1 h2 h3
    rw [uvEnc_grid C c h1 h2]
    have hle : (r - 1 + 1) * C ≤ (R - 1) * C := Nat.mul_le_mul_right C (by omega)
    rw [Nat.succ_mul] at hle
    have e1 : (r - 1) * C + 1 + c - 1 = C * (r - 1) + c := by rw [Nat.mul_comm]; omega
    have n0 : (r - 1) * C + 1 + c ≠ 0 := by omega
    have n1 : (r - 1) * C + 1 + c ≠ uvBottom R C := by unfold uvBottom; omega
    simp only [uvDec, n0, n1, if_false, e1]
    rw [Nat.mul_add_div (by omega), Nat.mul_add_mod, Nat.div_eq_of_lt h3, Nat.mod_eq_of_lt h3]
    ext <;> simp <;> omega

theorem uvEnc_injOn {R C : Nat} (hR : 2 ≤ R) (hC : 3 ≤ C) (p q : LP) (hp : UvValid R C p) (hq : UvValid R C q)
    (h : uvEnc R C p = uvEnc R C q) : p = q := by
  rw [← uvDec_uvEnc hR hC p hp, ← uvDec_uvEnc hR hC q hq, h]

theorem sphereL_valid {R C : Nat} (hR : 2 ≤ R) (hC : 3 ≤ C) :
    ∀ e ∈ edges (sphereL R C), UvValid R C e.1 ∧ UvValid R C e.2 := by
  intro e he
  rcases mem_edges_sphereL.1 he with ⟨i, hi, h⟩ | ⟨j, hj, i, hi, h⟩
  · have hn : (i + 1) % C < C := Nat.mod_lt _ (by omega)
    simp only [fanE, List.mem_cons, List.not_mem_nil, or_false] at h
    rcases h with rfl | rfl | rfl | rfl | rfl | rfl <;> simp [UvValid] <;> omega
  · have hn : (i + 1) % C < C := Nat.mod_lt _ (by omega)
    simp only [quadE, List.mem_cons, List.not_mem_nil, or_false] at h
    rcases h with rfl | rfl | rfl | rfl | rfl | rfl <;> simp [UvValid] <;> omega

theorem uvSphereTris_eq_map {R C : Nat} (hR : 2 ≤ R) :
    uvSphereTris R C = (sphereL R C).map (tm (uvEnc R C)) := by
  simp only [uvSphereTris, sphereL, List.map_append, List.map_flatMap, List.map_cons, List.map_nil, tm]
  congr 1
  · refine List.flatMap_congr fun i hi => ?_
    rw [uvEnc_top, uvEnc_bot C hR, uvEnc_grid C _ (by omega) (by omega), uvEnc_grid C _ (by omega) (by omega),
      uvEnc_grid C _ (by omega) (by omega), uvEnc_grid C _ (by omega) (by omega)]
    have : R - 1 - 1 = R - 2 := by omega
    simp only [this, Nat.sub_self, Nat.zero_mul, Nat.mul_comm C (R - 2), List.cons.injEq, Prod.mk.injEq,
      and_true, true_and]
    omega
  · refine List.flatMap_congr fun j hj => List.flatMap_congr fun i hi => ?_
    have hj := List.mem_range.1 hj
    rw [uvEnc_grid C _ (by omega) (by omega), uvEnc_grid C _ (by omega) (by omega),
      uvEnc_grid C _ (by omega) (by omega), uvEnc_grid C _ (by omega) (by omega)]
    simp

/-! ### reversing every triangle -/
def flipT {β : Type} (t : β × β × β) : β × β × β := (t.1, t.2.2, t.2.1)

theorem edges_flip_perm {β : Type} (ts : List (β × β × β)) :
    List.Perm (edges (ts.map flipT)) ((edges ts).map Prod.swap) := by
  simp only [edges, List.flatMap_map, List.map_flatMap]
  refine List.Perm.flatMap_left _ fun t _ => ?_
  obtain ⟨a, b, c⟩ := t
  simp only [triEdges, flipT, List.map_cons, List.map_nil, Prod.swap]
  exact List.reverse_perm [(b, a), (c, b), (a, c)]

theorem Closed.flip {β : Type} {ts : List (β × β × β)} (h : Closed ts) : Closed (ts.map flipT) := by
  obtain ⟨hnd, htw, hnl⟩ := h
  have hp := edges_flip_perm ts
  have hmem : ∀ e, e ∈ edges (ts.map flipT) ↔ (e.2, e.1) ∈ edges ts := by
    intro e
    rw [hp.mem_iff, List.mem_map]
    constructor
    · rintro ⟨x, hx, rfl⟩; exact hx
    · intro h; exact ⟨(e.2, e.1), h, rfl⟩
  refine ⟨?_, ?_, ?_⟩
  · rw [hp.nodup_iff]
    exact hnd.map Prod.swap_injective
  · intro e he
    rw [hmem] at he ⊢
    exact htw _ he
  · intro e he
    rw [hmem] at he
    exact fun h => hnl _ he h.symm

theorem hemisphereTris_eq_flip (R C : Nat) : hemisphereTris R C = (uvSphereTris R C).map flipT := by
  simp only [hemisphereTris, uvSphereTris, List.map_append, List.map_flatMap, List.map_cons, List.map_nil, flipT]
theorem src_fan {R C i k : Nat} (hi : i < C) (hk : k < 6) :
    uvUnweldedSrc R C (6 * i + k) =
      match k with
      | 0 => 0
      | 1 => (i + 1) % C + 1
      | 2 => i + 1
      | 3 => uvBottom R C
      | 4 => i + C * (R - 2) + 1
      | _ => (i + 1) % C + C * (R - 2) + 1 := by
  have h1 : 6 * i + k < 6 * C := by omega
  have h2 : (6 * i + k) / 6 = i := by omega
  have h3 : (6 * i + k) % 6 = k := by omega
  simp only [uvUnweldedSrc, h1, if_true, h2, h3]
  interval_cases k <;> rfl

theorem src_quad {R C j i k : Nat} (hi : i < C) (hk : k < 4) :
    uvUnweldedSrc R C (6 * C + 4 * (j * C + i) + k) =
      match k with
      | 0 => j * C + 1 + i
      | 1 => j * C + 1 + (i + 1) % C
      | 2 => (j + 1) * C + 1 + (i + 1) % C
      | _ => (j + 1) * C + 1 + i := by
  have h1 : ¬ (6 * C + 4 * (j * C + i) + k < 6 * C) := by omega
  have h2 : (6 * C + 4 * (j * C + i) + k - 6 * C) / 4 = j * C + i := by omega
  have h3 : (6 * C + 4 * (j * C + i) + k - 6 * C) % 4 = k := by omega
  have h4 : (j * C + i) / C = j := by
    rw [Nat.mul_comm, Nat.mul_add_div (by omega), Nat.div_eq_of_lt hi, Nat.add_zero]
  have h5 : (j * C + i) % C = i := by
    rw [Nat.mul_comm, Nat.mul_add_mod, Nat.mod_eq_of_lt hi]
  simp only [uvUnweldedSrc, h1, if_false, h2, h3, h4, h5]
  interval_cases k <;> rfl

theorem uvUnwelded_map_src (R C : Nat) :
    (uvSphereUnweldedTris R C).map (tmap (uvUnweldedSrc R C)) = uvSphereTris R C := by
  simp only [uvSphereUnweldedTris, uvSphereTris, List.map_append, List.map_flatMap, List.map_cons, List.map_nil, tmap]
  congr 1
  · refine List.flatMap_congr fun i hi => ?_
    have hi := List.mem_range.1 hi
    have e0 := @src_fan R C i 0 hi (by omega)
    have e1 := @src_fan R C i 1 hi (by omega)
    have e2 := @src_fan R C i 2 hi (by omega)
    have e3 := @src_fan R C i 3 hi (by omega)
    have e4 := @src_fan R C i 4 hi (by omega)
    have e5 := @src_fan R C i 5 hi (by omega)
    simp only [Nat.add_zero] at e0
    simp only [e0, e1, e2, e3, e4, e5]
  · refine List.flatMap_congr fun j _ => List.flatMap_congr fun i hi => ?_
    have hi := List.mem_range.1 hi
    have e0 := @src_quad R C j i 0 hi (by omega)
    have e1 := @src_quad R C j i 1 hi (by omega)
    have e2 := @src_quad R C j i 2 hi (by omega)
    have e3 := @src_quad R C j i 3 hi (by omega)
    simp only [Nat.add_zero] at e0
    simp only [e0, e1, e2, e3]

/-! ### capped cylinder -/

/-- logical triangles of the capped cylinder, in the order of `cylinderTris S false false`:
    ring 1 = top rim, ring 2 = bottom rim, `(0,0)` top centre, `(3,0)` bottom centre -/
def cylL (S : Nat) : List (LP × LP × LP) :=
  ((List.range S).flatMap fun i =>
    [ ((2, i), (1, i), (1, (i + 1) % S)), ((2, i), (1, (i + 1) % S), (2, (i + 1) % S)) ])
  ++ ((List.range S).map fun i => ((1, i), (0, 0), (1, (i + 1) % S)))
  ++ ((List.range S).map fun k => ((2, (S - 1 - k + 1) % S), (3, 0), (2, S - 1 - k)))

def sideE (S i : Nat) : List (LP × LP) :=
  [ ((2, i), (1, i)), ((1, i), (1, (i + 1) % S)), ((1, (i + 1) % S), (2, i)),
    ((2, i), (1, (i + 1) % S)), ((1, (i + 1) % S), (2, (i + 1) % S)), ((2, (i + 1) % S), (2, i)) ]

def topE (S i : Nat) : List (LP × LP) :=
  [ ((1, i), (0, 0)), ((0, 0), (1, (i + 1) % S)), ((1, (i + 1) % S), (1, i)) ]

def botE (S m : Nat) : List (LP × LP) :=
  [ ((2, (m + 1) % S), (3, 0)), ((3, 0), (2, m)), ((2, m), (2, (m + 1) % S)) ]

theorem edges_cylL (S : Nat) : edges (cylL S) =
    (List.range S).flatMap (sideE S) ++ (List.range S).flatMap (topE S)
      ++ (List.range S).flatMap (fun k => botE S (S - 1 - k)) := by
  simp only [edges, cylL, List.flatMap_append, List.flatMap_assoc, List.flatMap_map, triEdges, List.flatMap_cons,
    List.flatMap_nil, List.cons_append, List.nil_append, List.append_nil]
  rfl

theorem mem_edges_cylL {S : Nat} {e : LP × LP} : e ∈ edges (cylL S) ↔
    (∃ i, i < S ∧ e ∈ sideE S i) ∨ (∃ i, i < S ∧ e ∈ topE S i) ∨ (∃ m, m < S ∧ e ∈ botE S m) := by
  simp only [edges_cylL, List.mem_append, List.mem_flatMap, List.mem_range, or_assoc]
  refine or_congr Iff.rfl (or_congr Iff.rfl ⟨?_, ?_⟩)
  · rintro ⟨k, hk, h⟩; exact ⟨S - 1 - k, by omega, h⟩
  · rintro ⟨m, hm, h⟩; exact ⟨S - 1 - m, by omega, by rwa [show S - 1 - (S - 1 - m) = m by omega]⟩

theorem sideE_nodup {S i : Nat} (_hS : 3 ≤ S) (hi : i < S) : (sideE S i).Nodup := by
  have := nx_spec hi
  simp only [sideE, List.nodup_cons, List.mem_cons, List.not_mem_nil, Prod.mk.injEq,
    not_or, List.nodup_nil, not_false_eq_true, and_true]
  omega

theorem topE_nodup {S i : Nat} (_hS : 3 ≤ S) (hi : i < S) : (topE S i).Nodup := by
  have := nx_spec hi
  simp only [topE, List.nodup_cons, List.mem_cons, List.not_mem_nil, Prod.mk.injEq,
    not_or, List.nodup_nil, not_false_eq_true, and_true]
  omega

theorem botE_nodup {S i : Nat} (hS : 3 ≤ S) (hi : i < S) : (botE S i).Nodup := by
  have := nx_spec hi
  simp only [botE, List.nodup_cons, List.mem_cons, List.not_mem_nil, Prod.mk.injEq,
    not_or, List.nodup_nil, not_false_eq_true, and_true]
  omega

theorem cyl_block_disj {S i i' : Nat} (hS : 3 ≤ S) (hi : i < S) (hi' : i' < S) :
    (i ≠ i' → ∀ e ∈ sideE S i, e ∉ sideE S i') ∧ (i ≠ i' → ∀ e ∈ topE S i, e ∉ topE S i') ∧
    (i ≠ i' → ∀ e ∈ botE S i, e ∉ botE S i') ∧ (∀ e ∈ sideE S i, e ∉ topE S i') ∧
    (∀ e ∈ sideE S i, e ∉ botE S i') ∧ (∀ e ∈ topE S i, e ∉ botE S i') := by
  have := nx_spec hi
  have := nx_spec hi'
  simp only [sideE, topE, botE, List.mem_cons, List.not_mem_nil, Prod.mk.injEq,
    not_or, or_false, forall_eq_or_imp, forall_eq]
  omega

theorem cylL_nodup {S : Nat} (hS : 3 ≤ S) : (edges (cylL S)).Nodup := by
  rw [edges_cylL, List.nodup_append, List.nodup_append]
  refine ⟨⟨?_, ?_, ?_⟩, ?_, ?_⟩
  · exact nodup_flatMap_range _ _ (fun i hi => sideE_nodup hS hi)
      (fun i hi i' hi' hne => (cyl_block_disj hS hi hi').1 hne)
  · exact nodup_flatMap_range _ _ (fun i hi => topE_nodup hS hi)
      (fun i hi i' hi' hne => (cyl_block_disj hS hi hi').2.1 hne)
  · intro a ha b hb hab
    subst hab
    simp only [List.mem_flatMap, List.mem_range] at ha hb
    obtain ⟨i, hi, hei⟩ := ha
    obtain ⟨i', hi', hei'⟩ := hb
    exact (cyl_block_disj hS hi hi').2.2.2.1 a hei hei'
  · exact nodup_flatMap_range _ _ (fun k hk => botE_nodup hS (by omega))
      (fun k hk k' hk' hne => (cyl_block_disj hS (by omega) (by omega)).2.2.1 (by omega))
  · intro a ha b hb hab
    subst hab
    simp only [List.mem_append, List.mem_flatMap, List.mem_range] at ha hb
    obtain ⟨k, hk, hek⟩ := hb
    rcases ha with ⟨i, hi, hei⟩ | ⟨i, hi, hei⟩
    · exact (cyl_block_disj hS hi (show S - 1 - k < S by omega)).2.2.2.2.1 a hei hek
    · exact (cyl_block_disj hS hi (show S - 1 - k < S by omega)).2.2.2.2.2 a hei hek
theorem cylL_twin {S : Nat} (hS : 3 ≤ S) : ∀ e ∈ edges (cylL S), (e.2, e.1) ∈ edges (cylL S) := by
  have sd : ∀ i, i < S → ∀ e ∈ sideE S i, e ∈ edges (cylL S) := fun i hi e he => mem_edges_cylL.2 (Or.inl ⟨i, hi, he⟩)
  have tp : ∀ i, i < S → ∀ e ∈ topE S i, e ∈ edges (cylL S) := fun i hi e he => mem_edges_cylL.2 (Or.inr (Or.inl ⟨i, hi, he⟩))
  have bt : ∀ i, i < S → ∀ e ∈ botE S i, e ∈ edges (cylL S) := fun i hi e he => mem_edges_cylL.2 (Or.inr (Or.inr ⟨i, hi, he⟩))
  intro e he
  have key : ∀ i, i < S → (e ∈ sideE S i ∨ e ∈ topE S i ∨ e ∈ botE S i) → (e.2, e.1) ∈ edges (cylL S) := by
    intro i hi h
    have h1 := nx_spec hi
    obtain ⟨hp, h2⟩ := pd_spec hi
    have hn : (i + 1) % S < S := Nat.mod_lt _ (by omega)
    have sn := sd _ hn; have sp := sd _ hp; have si := sd _ hi
    have tn := tp _ hn; have tq := tp _ hp; have ti := tp _ hi
    have bn := bt _ hn; have bp := bt _ hp; have bi := bt _ hi
    simp only [sideE, topE, botE] at h sn sp si tn tq ti bn bp bi
    generalize (i + S - 1) % S = p at *
    generalize (i + 1) % S = n at *
    simp only [List.mem_cons, List.not_mem_nil, or_false] at h
    rcases h with (rfl | rfl | rfl | rfl | rfl | rfl) | (rfl | rfl | rfl) | (rfl | rfl | rfl)
    · exact sp _ (by simp [h2])
    · exact ti _ (by simp)
    · exact si _ (by simp)
    · exact si _ (by simp)
    · exact sn _ (by simp)
    · exact bi _ (by simp)
    · exact tq _ (by simp [h2])
    · exact tn _ (by simp)
    · exact si _ (by simp)
    · exact bn _ (by simp)
    · exact bp _ (by simp [h2])
    · exact si _ (by simp)
  rcases mem_edges_cylL.1 he with ⟨i, hi, h⟩ | ⟨i, hi, h⟩ | ⟨i, hi, h⟩
  · exact key i hi (Or.inl h)
  · exact key i hi (Or.inr (Or.inl h))
  · exact key i hi (Or.inr (Or.inr h))

theorem cylL_noloop {S : Nat} (hS : 3 ≤ S) : ∀ e ∈ edges (cylL S), e.1 ≠ e.2 := by
  intro e he
  rcases mem_edges_cylL.1 he with ⟨i, hi, h⟩ | ⟨i, hi, h⟩ | ⟨i, hi, h⟩
  · have h1 := nx_spec hi
    simp only [sideE, List.mem_cons, List.not_mem_nil, or_false] at h
    rcases h with rfl | rfl | rfl | rfl | rfl | rfl <;> simp <;> omega
  · have h1 := nx_spec hi
    simp only [topE, List.mem_cons, List.not_mem_nil, or_false] at h
    rcases h with rfl | rfl | rfl <;> simp <;> omega
  · have h1 := nx_spec hi
    simp only [botE, List.mem_cons, List.not_mem_nil, or_false] at h
    rcases h with rfl | rfl | rfl <;> simp <;> omega

theorem cylL_closed {S : Nat} (hS : 3 ≤ S) : Closed (cylL S) :=
  ⟨cylL_nodup hS, cylL_twin hS, cylL_noloop hS⟩
theorem range_map_last {β : Type} (S : Nat) (hS : 1 ≤ S) (f g : Nat → β) (last : β)
    (h1 : ∀ i, i < S - 1 → f i = g i) (h2 : last = g (S - 1)) :
    (List.range (S - 1)).map f ++ [last] = (List.range S).map g := by
  obtain ⟨n, rfl⟩ : ∃ n, S = n + 1 := ⟨S - 1, by omega⟩
  simp only [Nat.add_sub_cancel] at *
  rw [List.range_succ, List.map_append, List.map_singleton, h2]
  congr 1
  exact List.map_congr_left fun i hi => h1 i (List.mem_range.1 hi)

theorem cylPt_side {S i : Nat} (hS : 1 ≤ S) (hi : i ≤ S) :
    cylinderPt S (2 * i) = (1, i % S) ∧ cylinderPt S (2 * i + 1) = (2, i % S) := by
  have a1 : 2 * i < 2 * S + 2 := by omega
  have a2 : 2 * i + 1 < 2 * S + 2 := by omega
  have a3 : 2 * i / 2 = i := by omega
  have a4 : (2 * i + 1) / 2 = i := by omega
  have a5 : 2 * i % 2 = 0 := by omega
  have a6 : (2 * i + 1) % 2 = 1 := by omega
  simp only [cylinderPt, a1, a2, a3, a4, a5, a6, if_true, and_self]

theorem cylPt_top {S k : Nat} (hk : k < S) : cylinderPt S (k + cylinderSideNV S) = (1, k) := by
  have a1 : ¬ (k + (S * 2 + 2) < 2 * S + 2) := by omega
  have a2 : k + (S * 2 + 2) < 3 * S + 2 := by omega
  have a3 : k + (S * 2 + 2) - (2 * S + 2) = k := by omega
  simp only [cylinderPt, cylinderSideNV, a1, a2, a3, if_true, if_false]

theorem cylPt_topc (S : Nat) : cylinderPt S (S + cylinderSideNV S) = (0, 0) := by
  have a3 : S + (S * 2 + 2) = 3 * S + 2 := by omega
  have a1 : ¬ (3 * S + 2 < 2 * S + 2) := by omega
  have a2 : ¬ (3 * S + 2 < 3 * S + 2) := by omega
  simp only [cylinderPt, cylinderSideNV, a3, a1, a2, if_true, if_false]

theorem cylPt_bot {S k : Nat} (hk : k < S) :
    cylinderPt S (k + (cylinderSideNV S + circleNV S)) = (2, (S - k) % S) := by
  have a1 : ¬ (k + (S * 2 + 2 + (S + 1)) < 2 * S + 2) := by omega
  have a2 : ¬ (k + (S * 2 + 2 + (S + 1)) < 3 * S + 2) := by omega
  have a3 : ¬ (k + (S * 2 + 2 + (S + 1)) = 3 * S + 2) := by omega
  have a4 : k + (S * 2 + 2 + (S + 1)) < 4 * S + 3 := by omega
  have a5 : k + (S * 2 + 2 + (S + 1)) - (3 * S + 3) = k := by omega
  simp only [cylinderPt, cylinderSideNV, circleNV, a1, a2, a3, a4, a5, if_true, if_false]

theorem cylPt_botc (S : Nat) : cylinderPt S (S + (cylinderSideNV S + circleNV S)) = (3, 0) := by
  have a1 : ¬ (S + (S * 2 + 2 + (S + 1)) < 2 * S + 2) := by omega
  have a2 : ¬ (S + (S * 2 + 2 + (S + 1)) < 3 * S + 2) := by omega
  have a3 : ¬ (S + (S * 2 + 2 + (S + 1)) = 3 * S + 2) := by omega
  have a4 : ¬ (S + (S * 2 + 2 + (S + 1)) < 4 * S + 3) := by omega
  simp only [cylinderPt, cylinderSideNV, circleNV, a1, a2, a3, a4, if_false]

theorem cylinder_map_pt {S : Nat} (hS : 1 ≤ S) :
    (cylinderTris S false false).map (tmap (cylinderPt S)) = cylL S := by
  simp only [cylinderTris, cylL, Bool.false_eq_true, if_false, List.map_append, shift, circleTris, List.map_map,
    List.map_cons, List.map_nil, cylinderSideTris, List.map_flatMap]
  congr 1
  congr 1
  · refine List.flatMap_congr fun i hi => ?_
    have hi := List.mem_range.1 hi
    have e0 := @cylPt_side S i hS (by omega)
    have e1 := @cylPt_side S (i + 1) hS (by omega)
    have m : i % S = i := Nat.mod_eq_of_lt hi
    simp only [tmap, show 2 * i + 2 = 2 * (i + 1) by omega, show 2 * i + 3 = 2 * (i + 1) + 1 by omega, e0.1, e0.2,
      e1.1, e1.2, m]
  · refine range_map_last S hS _ _ _ (fun i hi => ?_) ?_
    · simp only [Function.comp, tmap, cylPt_top (show i < S by omega), cylPt_top (show i + 1 < S by omega), cylPt_topc,
        Nat.mod_eq_of_lt (show i + 1 < S by omega)]
    · simp only [tmap, cylPt_top (show S - 1 < S by omega), cylPt_top (show 0 < S by omega), cylPt_topc,
        show S - 1 + 1 = S by omega, Nat.mod_self]
  · refine range_map_last S hS _ _ _ (fun i hi => ?_) ?_
    · simp only [Function.comp, tmap, cylPt_bot (show i < S by omega), cylPt_bot (show i + 1 < S by omega), cylPt_botc,
        show S - 1 - i + 1 = S - i by omega, show S - (i + 1) = S - 1 - i by omega,
        Nat.mod_eq_of_lt (show S - 1 - i < S by omega)]
    · simp only [tmap, cylPt_bot (show S - 1 < S by omega), cylPt_bot (show 0 < S by omega), cylPt_botc,
        show S - 1 - (S - 1) = 0 by omega, Nat.sub_zero, Nat.mod_self, show S - (S - 1) = 0 + 1 by omega]

end PolyVerif.Solids
