/-
  Real-number lemmas for the exact-distance (attained) theorems of the rounded box and the rounded
  cylinder (Props/C19Exact.lean): one coordinate of the ray that starts at the nearest point of the
  core (the clamp of `x` into `[-h, h]`) and runs through `x`.
-/
import Mathlib.Tactic
import Mathlib.Analysis.SpecialFunctions.Sqrt

namespace PolyVerif
namespace SdfExact

/-- clamp of `x` into `[-h, h]` (same expression as `boxClamp` uses) -/
noncomputable def clampH (x h : ℝ) : ℝ := max (-h) (min x h)

/-- the point at parameter `t` of the ray from the clamp of `x` through `x` (`t = 0`: the clamp, `t = 1`: `x`) -/
noncomputable def rayH (x h t : ℝ) : ℝ := clampH x h + t * (x - clampH x h)

theorem clampH_of_le {x h : ℝ} (hx : |x| - h ≤ 0) : clampH x h = x := by
  have h1 : |x| ≤ h := by linarith
  obtain ⟨h2, h3⟩ := abs_le.mp h1
  unfold clampH; rw [min_eq_left h3, max_eq_right h2]

theorem rayH_of_le {x h : ℝ} (t : ℝ) (hx : |x| - h ≤ 0) : rayH x h t = x := by
  unfold rayH; rw [clampH_of_le hx]; ring

/-- a coordinate outside the slab: its excess over `h` is scaled by `t` -/
theorem rayH_of_ge {x h t : ℝ} (hh : 0 ≤ h) (ht : 0 ≤ t) (hx : 0 ≤ |x| - h) :
    |rayH x h t| - h = t * (|x| - h) := by
  unfold rayH clampH
  rcases le_total 0 x with h0 | h0
  · rw [abs_of_nonneg h0] at hx ⊢
    rw [min_eq_right (by linarith), max_eq_right (by linarith)]
    rw [abs_of_nonneg (by nlinarith)]; ring
  · rw [abs_of_nonpos h0] at hx ⊢
    rw [min_eq_left (by linarith), max_eq_left (by linarith)]
    rw [abs_of_nonpos (by nlinarith)]; ring

/-- positive part of the excess is scaled by `t` -/
theorem rayH_pos {x h t : ℝ} (hh : 0 ≤ h) (ht : 0 ≤ t) :
    max (|rayH x h t| - h) 0 = t * max (|x| - h) 0 := by
  rcases le_total (|x| - h) 0 with hx | hx
  · rw [rayH_of_le t hx, max_eq_right hx]; simp
  · rw [rayH_of_ge hh ht hx, max_eq_left hx, max_eq_left (mul_nonneg ht hx)]

/-- distance travelled along the coordinate -/
theorem rayH_dist {x h : ℝ} (t : ℝ) (hh : 0 ≤ h) : (x - rayH x h t) ^ 2 = ((1 - t) * max (|x| - h) 0) ^ 2 := by
  have e : x - rayH x h t = (1 - t) * (x - clampH x h) := by unfold rayH; ring
  have c : |x - clampH x h| = max (|x| - h) 0 := by
    unfold clampH
    rcases le_total x (-h) with h1 | h1
    · rw [min_eq_left (by linarith), max_eq_left h1, abs_of_nonpos (by linarith), abs_of_nonpos (by linarith),
        max_eq_left (by linarith)]; ring
    · rcases le_total x h with h2 | h2
      · rw [min_eq_left h2, max_eq_right h1, sub_self, abs_zero, max_eq_right]
        rw [sub_nonpos, abs_le]; exact ⟨h1, h2⟩
      · rw [min_eq_right h2, max_eq_right (by linarith), abs_of_nonneg (by linarith), abs_of_nonneg (by linarith),
          max_eq_left (by linarith)]
  rw [e, mul_pow, mul_pow, ← c, sq_abs]

/-- one coordinate pushed outward (away from 0) by `δ ≥ 0`: its absolute value grows by exactly `δ` -/
noncomputable def pushOut (x δ : ℝ) : ℝ := if 0 ≤ x then x + δ else x - δ

theorem pushOut_abs {x δ : ℝ} (hδ : 0 ≤ δ) : |pushOut x δ| = |x| + δ := by
  unfold pushOut; split
  · rename_i h; rw [abs_of_nonneg h, abs_of_nonneg (by linarith)]
  · rename_i h; push Not at h; rw [abs_of_neg h, abs_of_neg (by linarith)]; ring

theorem pushOut_dist (x δ : ℝ) : (x - pushOut x δ) ^ 2 = δ ^ 2 := by
  unfold pushOut; split <;> ring

theorem sqrt_scale {t S : ℝ} (ht : 0 ≤ t) : Real.sqrt (t ^ 2 * S) = t * Real.sqrt S := by
  rw [Real.sqrt_mul (sq_nonneg t), Real.sqrt_sq ht]

theorem sqrt_scale_abs (t S : ℝ) : Real.sqrt (t ^ 2 * S) = |t| * Real.sqrt S := by
  rw [Real.sqrt_mul (sq_nonneg t), Real.sqrt_sq_eq_abs]

/-! ### the radial coordinate of the cylinder: ray from the clamp of `ρ` into `[0, R]` through `ρ` -/

noncomputable def rayR (ρ R t : ℝ) : ℝ := min ρ R + t * max (ρ - R) 0

theorem rayR_nonneg {ρ R t : ℝ} (hρ : 0 ≤ ρ) (hR : 0 ≤ R) (ht : 0 ≤ t) : 0 ≤ rayR ρ R t :=
  add_nonneg (le_min hρ hR) (mul_nonneg ht (le_max_right _ _))

theorem rayR_of_le {ρ R : ℝ} (t : ℝ) (h : ρ - R ≤ 0) : rayR ρ R t = ρ := by
  unfold rayR; rw [min_eq_left (by linarith), max_eq_right h]; ring

theorem rayR_of_ge {ρ R : ℝ} (t : ℝ) (h : 0 ≤ ρ - R) : rayR ρ R t - R = t * (ρ - R) := by
  unfold rayR; rw [min_eq_right (by linarith), max_eq_left h]; ring

theorem rayR_pos {ρ R t : ℝ} (ht : 0 ≤ t) : max (rayR ρ R t - R) 0 = t * max (ρ - R) 0 := by
  rcases le_total (ρ - R) 0 with h | h
  · rw [rayR_of_le t h, max_eq_right h]; simp
  · rw [rayR_of_ge t h, max_eq_left h, max_eq_left (mul_nonneg ht h)]

theorem rayR_dist (ρ R t : ℝ) : (ρ - rayR ρ R t) ^ 2 = ((1 - t) * max (ρ - R) 0) ^ 2 := by
  rcases le_total (ρ - R) 0 with h | h
  · rw [rayR_of_le t h, max_eq_right h]; ring
  · have := rayR_of_ge t h
    rw [max_eq_left h, show ρ - rayR ρ R t = (ρ - R) - (rayR ρ R t - R) by ring, this]; ring

/-! ### the 2-D profile `g2 u v = |(u⁺, v⁺)| + min (max u v) 0` (signed distance to the quadrant `u, v ≤ 0`) -/

noncomputable def g2 (u v : ℝ) : ℝ := Real.sqrt ((max u 0) ^ 2 + (max v 0) ^ 2) + min (max u v) 0

theorem g2_of_nonpos {u v : ℝ} (h : max u v ≤ 0) : g2 u v = max u v := by
  have hu : u ≤ 0 := (le_max_left _ _).trans h
  have hv : v ≤ 0 := (le_max_right _ _).trans h
  unfold g2; rw [max_eq_right hu, max_eq_right hv, min_eq_left h]; simp

theorem g2_of_nonneg {u v : ℝ} (h : 0 ≤ max u v) : g2 u v = Real.sqrt ((max u 0) ^ 2 + (max v 0) ^ 2) := by
  unfold g2; rw [min_eq_right h, add_zero]

/-- every level `r ≥ 0` of the profile of a cylinder (radius `R ≥ 0`, half height `h ≥ 0`) is reached from every
    point `(ρ, y)` of the half plane `ρ ≥ 0` within distance exactly `|g2 − r|`, without leaving the half plane -/
theorem profile_level_attained (ρ y R h r : ℝ) (hρ : 0 ≤ ρ) (hR : 0 ≤ R) (hh : 0 ≤ h) (hr : 0 ≤ r) :
    ∃ ρ' y' : ℝ, 0 ≤ ρ' ∧ g2 (ρ' - R) (|y'| - h) = r ∧
      (ρ - ρ') ^ 2 + (y - y') ^ 2 = (g2 (ρ - R) (|y| - h) - r) ^ 2 := by
  rcases le_or_gt (max (ρ - R) (|y| - h)) 0 with hin | hout
  · have hu : ρ - R ≤ 0 := (le_max_left _ _).trans hin
    have hv : |y| - h ≤ 0 := (le_max_right _ _).trans hin
    rw [g2_of_nonpos hin]
    rcases le_total (ρ - R) (|y| - h) with hm | hm
    · -- the cap is nearest: push axially
      have hδ : 0 ≤ r - (|y| - h) := by linarith
      refine ⟨ρ, pushOut y (r - (|y| - h)), hρ, ?_, ?_⟩
      · rw [pushOut_abs hδ, show |y| + (r - (|y| - h)) - h = r by ring,
          g2_of_nonneg (le_max_of_le_right hr), max_eq_right hu, max_eq_left hr]
        simp [Real.sqrt_sq hr]
      · rw [max_eq_right hm, pushOut_dist]; ring
    · -- the side is nearest: push radially
      have hδ : 0 ≤ r - (ρ - R) := by linarith
      refine ⟨ρ + (r - (ρ - R)), y, by linarith, ?_, ?_⟩
      · rw [show ρ + (r - (ρ - R)) - R = r by ring, g2_of_nonneg (le_max_of_le_left hr), max_eq_right hv,
          max_eq_left hr]
        simp [Real.sqrt_sq hr]
      · rw [max_eq_left hm]; ring
  · -- outside the core: the ray from the nearest core point
    rw [g2_of_nonneg hout.le]
    set S := (max (ρ - R) 0) ^ 2 + (max (|y| - h) 0) ^ 2 with hS
    have hS0 : 0 < S := by
      rcases lt_max_iff.mp hout with h1 | h1
      · have : 0 < (max (ρ - R) 0) ^ 2 := by rw [max_eq_left h1.le]; positivity
        have := sq_nonneg (max (|y| - h) 0); linarith
      · have : 0 < (max (|y| - h) 0) ^ 2 := by rw [max_eq_left h1.le]; positivity
        have := sq_nonneg (max (ρ - R) 0); linarith
    have hd : 0 < Real.sqrt S := Real.sqrt_pos.mpr hS0
    have hdd : Real.sqrt S ^ 2 = S := Real.sq_sqrt hS0.le
    set t := r / Real.sqrt S with ht
    have ht0 : 0 ≤ t := div_nonneg hr hd.le
    have htd : t * Real.sqrt S = r := by rw [ht]; field_simp
    refine ⟨rayR ρ R t, rayH y h t, rayR_nonneg hρ hR ht0, ?_, ?_⟩
    · have hs : 0 ≤ max (rayR ρ R t - R) (|rayH y h t| - h) := by
        rcases lt_max_iff.mp hout with h1 | h1
        · exact le_max_of_le_left (by rw [rayR_of_ge t h1.le]; exact mul_nonneg ht0 h1.le)
        · exact le_max_of_le_right (by rw [rayH_of_ge hh ht0 h1.le]; exact mul_nonneg ht0 h1.le)
      rw [g2_of_nonneg hs, rayR_pos ht0, rayH_pos hh ht0, ← htd, ← sqrt_scale ht0]
      congr 1; rw [hS]; ring
    · rw [rayR_dist, rayH_dist t hh, ← htd]
      have : (Real.sqrt S - t * Real.sqrt S) ^ 2 = (1 - t) ^ 2 * S := by
        calc (Real.sqrt S - t * Real.sqrt S) ^ 2 = (1 - t) ^ 2 * Real.sqrt S ^ 2 := by ring
          _ = (1 - t) ^ 2 * S := by rw [hdd]
      rw [this, hS]; ring

/-- a unit direction `(ux, uz)` in which the planar vector `(a, c)` points (any unit vector when `(a, c) = 0`) -/
theorem radial_dir (a c : ℝ) : ∃ ux uz : ℝ, ux ^ 2 + uz ^ 2 = 1 ∧
    a = Real.sqrt (a ^ 2 + c ^ 2) * ux ∧ c = Real.sqrt (a ^ 2 + c ^ 2) * uz := by
  have hS : 0 ≤ a ^ 2 + c ^ 2 := by positivity
  rcases hS.lt_or_eq with h | h
  · have hd : 0 < Real.sqrt (a ^ 2 + c ^ 2) := Real.sqrt_pos.mpr h
    have hdd : Real.sqrt (a ^ 2 + c ^ 2) ^ 2 = a ^ 2 + c ^ 2 := Real.sq_sqrt hS
    refine ⟨a / Real.sqrt (a ^ 2 + c ^ 2), c / Real.sqrt (a ^ 2 + c ^ 2), ?_, ?_, ?_⟩
    · rw [div_pow, div_pow, hdd]; field_simp
    · field_simp
    · field_simp
  · have ha : a = 0 := by nlinarith [sq_nonneg a, sq_nonneg c]
    have hc : c = 0 := by nlinarith [sq_nonneg a, sq_nonneg c]
    refine ⟨1, 0, by norm_num, ?_, ?_⟩
    · rw [← h, Real.sqrt_zero, ha]; ring
    · rw [hc]; ring

end SdfExact
end PolyVerif
