/-
  C18 — FACE connectedness ("the surface is ONE component"): every triangle of the list is reached from every other one
  by crossing shared edges.  General theorem: if every used vertex has ONE umbrella (`UmbrellaCycle`) and every used vertex
  is reached from one root vertex along edges, then the dual graph (triangles, adjacent when they traverse a common edge
  in opposite directions) is connected.  Also: soundness of the executable `Connected` check (`connectedB`), transport
  along vertex maps / triangle reversal, and the form "modulo a merge map" on the RAW index triangles.
-/
import PolyVerif.Lemmas.SolidsTopo2
import Mathlib.Logic.Relation
namespace PolyVerif.Solids
open Relation

section
variable {β : Type}

/-- two triangles of the list traverse a common edge in opposite directions -/
def FaceAdj (ts : List (β × β × β)) (t t' : β × β × β) : Prop :=
  t ∈ ts ∧ t' ∈ ts ∧ ∃ a b, (a, b) ∈ triEdges t ∧ (b, a) ∈ triEdges t'

/-- **face-connected**: any triangle is reached from any other by crossing shared edges (one component) -/
def FaceConnected (ts : List (β × β × β)) : Prop :=
  ∀ t ∈ ts, ∀ t' ∈ ts, ReflTransGen (FaceAdj ts) t t'

theorem faceAdj_symm (ts : List (β × β × β)) {t t' : β × β × β} (h : FaceAdj ts t t') : FaceAdj ts t' t := by
  obtain ⟨h1, h2, a, b, h3, h4⟩ := h
  exact ⟨h2, h1, b, a, h4, h3⟩

theorem faceConn_symm (ts : List (β × β × β)) {a b : β × β × β} (h : ReflTransGen (FaceAdj ts) a b) :
    ReflTransGen (FaceAdj ts) b a := by
  induction h with
  | refl => exact ReflTransGen.refl
  | tail _ hbc ih => exact ReflTransGen.head (faceAdj_symm ts hbc) ih

/-- `t`, rotated so that `v` comes first, is `(v, b, c)` -/
def HasRot (t : β × β × β) (v b c : β) : Prop := t = (v, b, c) ∨ t = (c, v, b) ∨ t = (b, c, v)

def IsCorner (v : β) (t : β × β × β) : Prop := v = t.1 ∨ v = t.2.1 ∨ v = t.2.2

theorem linkEdge_iff_rot {ts : List (β × β × β)} {v b c : β} :
    LinkEdge ts v b c ↔ ∃ t ∈ ts, HasRot t v b c := by
  unfold LinkEdge HasRot
  constructor
  · rintro (h | h | h)
    · exact ⟨_, h, Or.inl rfl⟩
    · exact ⟨_, h, Or.inr (Or.inl rfl)⟩
    · exact ⟨_, h, Or.inr (Or.inr rfl)⟩
  · rintro ⟨t, ht, rfl | rfl | rfl⟩
    · exact Or.inl ht
    · exact Or.inr (Or.inl ht)
    · exact Or.inr (Or.inr ht)

theorem isCorner_rot {t : β × β × β} {v : β} (h : IsCorner v t) : ∃ b c, HasRot t v b c := by
  obtain ⟨a, b, c⟩ := t
  rcases h with rfl | rfl | rfl
  · exact ⟨b, c, Or.inl rfl⟩
  · exact ⟨c, a, Or.inr (Or.inl rfl)⟩
  · exact ⟨a, b, Or.inr (Or.inr rfl)⟩

/-- consecutive triangles of an umbrella share the spoke between them -/
theorem faceAdj_of_rot {ts : List (β × β × β)} {t t' : β × β × β} {v x y z : β} (ht : t ∈ ts) (ht' : t' ∈ ts)
    (h : HasRot t v x y) (h' : HasRot t' v y z) : FaceAdj ts t t' := by
  refine ⟨ht, ht', y, v, ?_, ?_⟩
  · rcases h with rfl | rfl | rfl <;> simp [triEdges]
  · rcases h' with rfl | rfl | rfl <;> simp [triEdges]

theorem mem_cornersOf {ts : List (β × β × β)} {v : β} : v ∈ cornersOf ts ↔ ∃ t ∈ ts, IsCorner v t := by
  simp only [cornersOf, List.mem_flatMap, List.mem_cons, List.not_mem_nil, or_false, IsCorner]

/-- every directed edge lies in a triangle that has both its ends as corners -/
theorem edge_tri {ts : List (β × β × β)} {a b : β} (h : (a, b) ∈ edges ts) :
    ∃ t ∈ ts, IsCorner a t ∧ IsCorner b t := by
  simp only [edges, List.mem_flatMap] at h
  obtain ⟨t, ht, he⟩ := h
  refine ⟨t, ht, ?_⟩
  obtain ⟨p, q, r⟩ := t
  simp only [triEdges, List.mem_cons, Prod.mk.injEq, List.not_mem_nil, or_false] at he
  unfold IsCorner
  rcases he with ⟨rfl, rfl⟩ | ⟨rfl, rfl⟩ | ⟨rfl, rfl⟩ <;> simp

/-- **the triangles around a vertex with one umbrella are face-connected** (walk round the link cycle) -/
theorem umbrella_faceConn {ts : List (β × β × β)} {v : β} (hU : UmbrellaCycle ts v) {t t' : β × β × β}
    (ht : t ∈ ts) (ht' : t' ∈ ts) (hc : IsCorner v t) (hc' : IsCorner v t') :
    ReflTransGen (FaceAdj ts) t t' := by
  obtain ⟨cyc, h3, -, hlink⟩ := hU
  -- `At s k`: `s` is a triangle of the list sitting on the `k`-th link edge
  let At : (β × β × β) → Nat → Prop := fun s k =>
    s ∈ ts ∧ ∃ x y, cyc[k]? = some x ∧ cyc[(k + 1) % cyc.length]? = some y ∧ HasRot s v x y
  have exAt : ∀ k, k < cyc.length → ∃ s, At s k := by
    intro k hk
    have hm : (k + 1) % cyc.length < cyc.length := Nat.mod_lt _ (by omega)
    have hp : (cyc[k], cyc[(k + 1) % cyc.length]) ∈ cyclicPairs cyc :=
      mem_cyclicPairs.2 ⟨k, hk, List.getElem?_eq_getElem hk, List.getElem?_eq_getElem hm⟩
    obtain ⟨s, hs, hr⟩ := linkEdge_iff_rot.1 ((hlink _ _).2 hp)
    exact ⟨s, hs, _, _, List.getElem?_eq_getElem hk, List.getElem?_eq_getElem hm, hr⟩
  have atOf : ∀ s, s ∈ ts → IsCorner v s → ∃ k, k < cyc.length ∧ At s k := by
    intro s hs hcs
    obtain ⟨b, c, hr⟩ := isCorner_rot hcs
    have hl : LinkEdge ts v b c := linkEdge_iff_rot.2 ⟨s, hs, hr⟩
    obtain ⟨k, hk, h1, h2⟩ := mem_cyclicPairs.1 ((hlink _ _).1 hl)
    exact ⟨k, hk, hs, b, c, h1, h2, hr⟩
  have step : ∀ s s' k, At s k → At s' ((k + 1) % cyc.length) → FaceAdj ts s s' := by
    rintro s s' k ⟨hs, x, y, -, hy, hr⟩ ⟨hs', y', z, hy', -, hr'⟩
    have : y = y' := by rw [hy] at hy'; exact Option.some.inj hy'
    subst this
    exact faceAdj_of_rot hs hs' hr hr'
  have walk : ∀ m s s' k, At s k → At s' ((k + m + 1) % cyc.length) → ReflTransGen (FaceAdj ts) s s' := by
    intro m
    induction m with
    | zero => intro s s' k h h'; exact ReflTransGen.single (step s s' k h h')
    | succ m ih =>
      intro s s' k h h'
      have hm : (k + m + 1) % cyc.length < cyc.length := Nat.mod_lt _ (by omega)
      obtain ⟨s'', hs''⟩ := exAt _ hm
      refine ReflTransGen.tail (ih s s'' k h hs'') (step s'' s' _ hs'' ?_)
      have e : ((k + m + 1) % cyc.length + 1) % cyc.length = (k + (m + 1) + 1) % cyc.length := by
        rw [Nat.mod_add_mod, show k + m + 1 + 1 = k + (m + 1) + 1 by omega]
      rw [e]; exact h'
  obtain ⟨k, hk, hAt⟩ := atOf t ht hc
  obtain ⟨j, hj, hAt'⟩ := atOf t' ht' hc'
  refine walk (j + cyc.length - k - 1) t t' k hAt ?_
  have e : (k + (j + cyc.length - k - 1) + 1) % cyc.length = j := by
    rw [show k + (j + cyc.length - k - 1) + 1 = j + cyc.length by omega, Nat.add_mod_right, Nat.mod_eq_of_lt hj]
  rw [e]; exact hAt'

/-- **one umbrella per vertex + every vertex reached from a root along edges ⟹ face-connected** -/
theorem faceConnected_of_umbrellas_reach (ts : List (β × β × β)) (v0 : β)
    (hU : ∀ v ∈ cornersOf ts, UmbrellaCycle ts v)
    (hR : ∀ v ∈ cornersOf ts, ReflTransGen (Adj ts) v0 v) : FaceConnected ts := by
  -- along a vertex path: triangles at the start are connected to triangles at the end
  have path : ∀ a b, ReflTransGen (Adj ts) a b → ∀ t1 ∈ ts, ∀ t2 ∈ ts, IsCorner a t1 → IsCorner b t2 →
      ReflTransGen (FaceAdj ts) t1 t2 := by
    intro a b hab
    induction hab with
    | refl =>
      intro t1 h1 t2 h2 c1 c2
      exact umbrella_faceConn (hU a (mem_cornersOf.2 ⟨t1, h1, c1⟩)) h1 h2 c1 c2
    | @tail b c _ hbc ih =>
      intro t1 h1 t2 h2 c1 c2
      obtain ⟨t3, h3, cb, cc⟩ := edge_tri hbc
      exact (ih t1 h1 t3 h3 c1 cb).trans
        (umbrella_faceConn (hU c (mem_cornersOf.2 ⟨t3, h3, cc⟩)) h3 h2 cc c2)
  intro t ht t' ht'
  have ct : IsCorner t.1 t := Or.inl rfl
  have ct' : IsCorner t'.1 t' := Or.inl rfl
  have r := hR t.1 (mem_cornersOf.2 ⟨t, ht, ct⟩)
  have r' := hR t'.1 (mem_cornersOf.2 ⟨t', ht', ct'⟩)
  -- a triangle at the root
  have hT0 : ∃ T0 ∈ ts, IsCorner v0 T0 := by
    rcases ReflTransGen.cases_head r with h | ⟨c, hc, -⟩
    · exact ⟨t, ht, h ▸ ct⟩
    · obtain ⟨T0, h0, c0, -⟩ := edge_tri hc
      exact ⟨T0, h0, c0⟩
  obtain ⟨T0, h0, c0⟩ := hT0
  exact (faceConn_symm ts (path _ _ r T0 h0 t ht c0 ct)).trans (path _ _ r' T0 h0 t' ht' c0 ct')

/-- a vertex map keeps face-connectedness (shared edges stay shared) -/
theorem FaceConnected.map {γ : Type} (f : β → γ) {ts : List (β × β × β)} (h : FaceConnected ts) :
    FaceConnected (ts.map (tm f)) := by
  intro t ht t' ht'
  obtain ⟨s, hs, rfl⟩ := List.mem_map.1 ht
  obtain ⟨s', hs', rfl⟩ := List.mem_map.1 ht'
  refine ReflTransGen.lift (tm f) ?_ _ _ (h s hs s' hs')
  rintro u u' ⟨hu, hu', a, b, h1, h2⟩
  refine ⟨List.mem_map.2 ⟨u, hu, rfl⟩, List.mem_map.2 ⟨u', hu', rfl⟩, f a, f b, ?_, ?_⟩
  · simp only [triEdges, tm, List.mem_cons, Prod.mk.injEq, List.not_mem_nil, or_false] at h1 ⊢
    rcases h1 with ⟨rfl, rfl⟩ | ⟨rfl, rfl⟩ | ⟨rfl, rfl⟩ <;> simp
  · simp only [triEdges, tm, List.mem_cons, Prod.mk.injEq, List.not_mem_nil, or_false] at h2 ⊢
    rcases h2 with ⟨rfl, rfl⟩ | ⟨rfl, rfl⟩ | ⟨rfl, rfl⟩ <;> simp

/-- reversing every triangle keeps face-connectedness -/
theorem FaceConnected.flip {ts : List (β × β × β)} (h : FaceConnected ts) : FaceConnected (ts.map flipT) := by
  intro t ht t' ht'
  obtain ⟨s, hs, rfl⟩ := List.mem_map.1 ht
  obtain ⟨s', hs', rfl⟩ := List.mem_map.1 ht'
  refine ReflTransGen.lift flipT ?_ _ _ (h s hs s' hs')
  rintro u u' ⟨hu, hu', a, b, h1, h2⟩
  refine ⟨List.mem_map.2 ⟨u, hu, rfl⟩, List.mem_map.2 ⟨u', hu', rfl⟩, b, a, ?_, ?_⟩
  · simp only [triEdges, flipT, List.mem_cons, Prod.mk.injEq, List.not_mem_nil, or_false] at h1 ⊢
    rcases h1 with ⟨rfl, rfl⟩ | ⟨rfl, rfl⟩ | ⟨rfl, rfl⟩ <;> simp
  · simp only [triEdges, flipT, List.mem_cons, Prod.mk.injEq, List.not_mem_nil, or_false] at h2 ⊢
    rcases h2 with ⟨rfl, rfl⟩ | ⟨rfl, rfl⟩ | ⟨rfl, rfl⟩ <;> simp

/-! ### modulo a merge map, on the RAW triangles -/

/-- two raw triangles share, once their corners are merged by `pt`, an edge traversed in opposite directions -/
def FaceAdjMod {α : Type} (pt : α → β) (ts : List (α × α × α)) (t t' : α × α × α) : Prop :=
  t ∈ ts ∧ t' ∈ ts ∧ ∃ e ∈ triEdges t, ∃ e' ∈ triEdges t', pt e.1 = pt e'.2 ∧ pt e.2 = pt e'.1

/-- face-connected once coincident vertices are merged: statement about the raw index triangles -/
def FaceConnectedMod {α : Type} (pt : α → β) (ts : List (α × α × α)) : Prop :=
  ∀ t ∈ ts, ∀ t' ∈ ts, ReflTransGen (FaceAdjMod pt ts) t t'

theorem mem_triEdges_tm {α : Type} (f : α → β) (s : α × α × α) {a b : β} (h : (a, b) ∈ triEdges (tm f s)) :
    ∃ e ∈ triEdges s, f e.1 = a ∧ f e.2 = b := by
  obtain ⟨p, q, r⟩ := s
  simp only [triEdges, tm, List.mem_cons, Prod.mk.injEq, List.not_mem_nil, or_false] at h
  rcases h with ⟨rfl, rfl⟩ | ⟨rfl, rfl⟩ | ⟨rfl, rfl⟩
  · exact ⟨(p, q), by simp [triEdges], rfl, rfl⟩
  · exact ⟨(q, r), by simp [triEdges], rfl, rfl⟩
  · exact ⟨(r, p), by simp [triEdges], rfl, rfl⟩

/-- a list whose directed edges are pairwise distinct has pairwise distinct triangles -/
theorem nodup_of_edges_nodup {ts : List (β × β × β)} (h : (edges ts).Nodup) : ts.Nodup := by
  unfold edges at h
  rw [List.nodup_flatMap] at h
  refine h.2.imp ?_
  intro a b hd hab
  subst hab
  exact hd (a := (a.1, a.2.1)) (by simp [triEdges]) (by simp [triEdges])

/-- from the merged triangle list back to the raw triangles (no two raw triangles have the same merged image, because
    the merged list is `Closed`) -/
theorem FaceConnectedMod.of_map {α : Type} (pt : α → β) {ts : List (α × α × α)}
    (hcl : Closed (ts.map (tm pt))) (h : FaceConnected (ts.map (tm pt))) : FaceConnectedMod pt ts := by
  intro t ht t' ht'
  have key : ∀ u, ReflTransGen (FaceAdj (ts.map (tm pt))) (tm pt t) u → ∀ s ∈ ts, tm pt s = u →
      ReflTransGen (FaceAdjMod pt ts) t s := by
    intro u hu
    induction hu with
    | refl =>
      intro s hs e
      rw [List.inj_on_of_nodup_map (nodup_of_edges_nodup hcl.1) hs ht e]
    | @tail u' u _ hstep ih =>
      intro s hs e
      obtain ⟨hu', -, a, b, h1, h2⟩ := hstep
      obtain ⟨s', hs', e'⟩ := List.mem_map.1 hu'
      subst e
      rw [← e'] at h1
      obtain ⟨e1, he1, ha, hb⟩ := mem_triEdges_tm pt s' h1
      obtain ⟨e2, he2, hb', ha'⟩ := mem_triEdges_tm pt s h2
      refine ReflTransGen.tail (ih s' hs' e') ⟨hs', hs, e1, he1, e2, he2, ?_, ?_⟩
      · rw [ha, ha']
      · rw [hb, hb']
  exact key _ (h _ (List.mem_map.2 ⟨t, ht, rfl⟩) _ (List.mem_map.2 ⟨t', ht', rfl⟩)) t' ht' rfl
end

/-! ### soundness of the executable `Connected` check -/

section
variable {β : Type} [DecidableEq β]

theorem reachStep_sound (E : β → β → Prop) (v0 : β) :
    ∀ (es : List (β × β)) (acc : List β), (∀ e ∈ es, E e.1 e.2) → (∀ x ∈ acc, ReflTransGen E v0 x) →
      ∀ x ∈ es.foldl (fun acc e => if e.1 ∈ acc ∧ e.2 ∉ acc then e.2 :: acc else acc) acc, ReflTransGen E v0 x := by
  intro es
  induction es with
  | nil => intro acc _ h; simpa using h
  | cons e es ih =>
    intro acc hE h
    rw [List.foldl_cons]
    refine ih _ (fun e' he' => hE e' (List.mem_cons_of_mem _ he')) ?_
    split
    · rename_i hc
      intro x hx
      rcases List.mem_cons.1 hx with rfl | hx
      · exact ReflTransGen.tail (h _ hc.1) (hE e List.mem_cons_self)
      · exact h x hx
    · exact h

theorem reachIter_sound (es : List (β × β)) (v0 : β) :
    ∀ (n : Nat) (r : List β), (∀ x ∈ r, ReflTransGen (fun a b => (a, b) ∈ es) v0 x) →
      ∀ x ∈ reachIter es n r, ReflTransGen (fun a b => (a, b) ∈ es) v0 x := by
  intro n
  induction n with
  | zero => intro r h; simpa [reachIter] using h
  | succ n ih =>
    intro r h
    rw [reachIter]
    exact ih _ (reachStep_sound _ v0 es r (fun e he => he) h)

/-- **soundness of the executable connectedness check**: whenever `connectedB` accepts, every used vertex is reached
    from the first corner along directed edges -/
theorem connected_sound (ts : List (β × β × β)) (h : Connected ts) (v0 : β) (h0 : (cornersOf ts).head? = some v0) :
    ∀ v ∈ cornersOf ts, ReflTransGen (Adj ts) v0 v := by
  unfold Connected connectedB at h
  simp only [h0, List.all_eq_true, decide_eq_true_eq] at h
  intro v hv
  refine reachIter_sound (edges ts) v0 _ [v0] ?_ v (h v hv)
  intro x hx
  rw [List.mem_singleton.1 hx]

/-- what the oracle `c18.holds.manifold` evaluates implies face-connectedness -/
theorem faceConnected_of_checks (ts : List (β × β × β)) (hv : VertexManifold ts) (hc : Connected ts) :
    FaceConnected ts := by
  cases h0 : (cornersOf ts).head? with
  | none =>
    intro t ht
    have : t.1 ∈ cornersOf ts := mem_cornersOf.2 ⟨t, ht, Or.inl rfl⟩
    rw [List.head?_eq_none_iff.1 h0] at this
    simp at this
  | some v0 =>
    exact faceConnected_of_umbrellas_reach ts v0 (vertexManifold_sound ts hv) (connected_sound ts hc v0 h0)
end

/-! ### the logical sphere and the logical capped cylinder -/

theorem corner_edge {β : Type} {ts : List (β × β × β)} {t : β × β × β} {v : β} (ht : t ∈ ts) (hc : IsCorner v t) :
    ∃ w, (v, w) ∈ edges ts := by
  obtain ⟨a, b, c⟩ := t
  simp only [edges, List.mem_flatMap]
  rcases hc with rfl | rfl | rfl
  · exact ⟨b, _, ht, by simp [triEdges]⟩
  · exact ⟨c, _, ht, by simp [triEdges]⟩
  · exact ⟨a, _, ht, by simp [triEdges]⟩

theorem sphereL_corner_valid {R C : Nat} (hR : 2 ≤ R) (hC : 3 ≤ C) {p : LP} (hp : p ∈ cornersOf (sphereL R C)) :
    UvValid R C p := by
  obtain ⟨t, ht, hc⟩ := mem_cornersOf.1 hp
  obtain ⟨w, hw⟩ := corner_edge ht hc
  exact (sphereL_valid hR hC _ hw).1

/-- the logical UV sphere is face-connected, all sizes -/
theorem sphereL_faceConnected {R C : Nat} (hR : 2 ≤ R) (hC : 3 ≤ C) : FaceConnected (sphereL R C) :=
  faceConnected_of_umbrellas_reach _ (0, 0)
    (fun p hp => sphereL_umbrella hR hC p (sphereL_corner_valid hR hC hp))
    (fun p hp => sphereL_reach hR hC p (sphereL_corner_valid hR hC hp))

theorem cylL_corner_valid {S : Nat} (hS : 3 ≤ S) {p : LP} (hp : p ∈ cornersOf (cylL S)) : CylValidP S p := by
  obtain ⟨t, ht, hc⟩ := mem_cornersOf.1 hp
  have hm : ∀ i, (i + 1) % S < S := fun i => Nat.mod_lt _ (by omega)
  unfold CylValidP
  rcases mem_cylL.1 ht with ⟨i, hi, rfl | rfl⟩ | ⟨i, hi, rfl⟩ | ⟨m, hm', rfl⟩ <;>
    rcases hc with rfl | rfl | rfl
  · exact Or.inr (Or.inr (Or.inr ⟨i, hi, rfl⟩))
  · exact Or.inr (Or.inr (Or.inl ⟨i, hi, rfl⟩))
  · exact Or.inr (Or.inr (Or.inl ⟨_, hm i, rfl⟩))
  · exact Or.inr (Or.inr (Or.inr ⟨i, hi, rfl⟩))
  · exact Or.inr (Or.inr (Or.inl ⟨_, hm i, rfl⟩))
  · exact Or.inr (Or.inr (Or.inr ⟨_, hm i, rfl⟩))
  · exact Or.inr (Or.inr (Or.inl ⟨i, hi, rfl⟩))
  · exact Or.inl rfl
  · exact Or.inr (Or.inr (Or.inl ⟨_, hm i, rfl⟩))
  · exact Or.inr (Or.inr (Or.inr ⟨_, hm m, rfl⟩))
  · exact Or.inr (Or.inl rfl)
  · exact Or.inr (Or.inr (Or.inr ⟨m, hm', rfl⟩))

/-- the logical capped cylinder is face-connected, all side counts `≥ 3` -/
theorem cylL_faceConnected {S : Nat} (hS : 3 ≤ S) : FaceConnected (cylL S) :=
  faceConnected_of_umbrellas_reach _ (0, 0)
    (fun p hp => cylL_umbrella hS p (cylL_corner_valid hS hp))
    (fun p hp => cylL_reach hS p (cylL_corner_valid hS hp))

end PolyVerif.Solids
