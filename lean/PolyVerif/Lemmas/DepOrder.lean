/-
  Helper lemmas for C12 (core Lean only): the string-level facts about `depLess`
  (the model of instance.go `dependencyNameLess`).
-/
import PolyVerif.Model.GraphIO

namespace PolyVerif
namespace GraphIO

/-! ### Go's string `<` is a strict total order -/

theorem strLt_irrefl (a : Name) : strLt a a = false := by
  induction a with
  | nil => rfl
  | cons c cs ih => simp [strLt, Char.lt_irrefl, ih]

theorem strLt_trans {a b c : Name} (h1 : strLt a b = true) (h2 : strLt b c = true) : strLt a c = true := by
  induction a generalizing b c with
  | nil =>
    cases b with
    | nil => simp [strLt] at h1
    | cons y ys => cases c with
      | nil => simp [strLt] at h2
      | cons z zs => simp [strLt]
  | cons x xs ih =>
    cases b with
    | nil => simp [strLt] at h1
    | cons y ys =>
      cases c with
      | nil => simp [strLt] at h2
      | cons z zs =>
        simp only [strLt] at h1 h2 ⊢
        by_cases hxy : x < y
        · by_cases hyz : y < z
          · simp [Char.lt_trans hxy hyz]
          · simp only [hyz, if_false] at h2
            by_cases hzy : z < y
            · simp [hzy] at h2
            · have : y = z := Char.le_antisymm (Char.not_lt.mp hzy) (Char.not_lt.mp hyz)
              subst this; simp [hxy]
        · simp only [hxy, if_false] at h1
          by_cases hyx : y < x
          · simp [hyx] at h1
          · have : x = y := Char.le_antisymm (Char.not_lt.mp hyx) (Char.not_lt.mp hxy)
            subst this
            simp only [hyx, if_false] at h1
            by_cases hxz : x < z
            · simp [hxz]
            · simp only [hxz, if_false] at h2 ⊢
              by_cases hzx : z < x
              · simp [hzx] at h2
              · simp only [hzx, if_false] at h2 ⊢
                exact ih h1 h2

theorem strLt_asymm {a b : Name} (h1 : strLt a b = true) (h2 : strLt b a = true) : False := by
  have := strLt_trans h1 h2
  rw [strLt_irrefl] at this
  cases this

theorem strLt_total {a b : Name} (h : a ≠ b) : strLt a b = true ∨ strLt b a = true := by
  induction a generalizing b with
  | nil =>
    cases b with
    | nil => exact absurd rfl h
    | cons y ys => left; rfl
  | cons x xs ih =>
    cases b with
    | nil => right; rfl
    | cons y ys =>
      simp only [strLt]
      by_cases hxy : x < y
      · left; simp [hxy]
      · by_cases hyx : y < x
        · right; simp [hyx]
        · have : x = y := Char.le_antisymm (Char.not_lt.mp hyx) (Char.not_lt.mp hxy)
          subst this
          simp only [hxy, if_false]
          exact ih (fun e => h (e ▸ rfl))

/-- two strings that share a prefix `pre` compare alike with anything that does not start with `pre` -/
theorem strLt_prefix_left {pre : Name} (x y : Name) {w : Name} (h : ¬ pre <+: w) :
    strLt (pre ++ x) w = strLt (pre ++ y) w := by
  induction pre generalizing w with
  | nil => exact absurd (List.nil_prefix) h
  | cons c cs ih =>
    cases w with
    | nil => simp [strLt]
    | cons d ds =>
      simp only [List.cons_append, strLt]
      by_cases h1 : c < d
      · simp [h1]
      · by_cases h2 : d < c
        · simp [h1, h2]
        · have : c = d := Char.le_antisymm (Char.not_lt.mp h2) (Char.not_lt.mp h1)
          subst this
          simp only [h1, if_false]
          exact ih (fun hp => h ((List.cons_prefix_cons).mpr ⟨rfl, hp⟩))

theorem strLt_prefix_right {pre : Name} (x y : Name) {w : Name} (h : ¬ pre <+: w) :
    strLt w (pre ++ x) = strLt w (pre ++ y) := by
  induction pre generalizing w with
  | nil => exact absurd (List.nil_prefix) h
  | cons c cs ih =>
    cases w with
    | nil => simp [strLt]
    | cons d ds =>
      simp only [List.cons_append, strLt]
      by_cases h1 : d < c
      · simp [h1]
      · by_cases h2 : c < d
        · simp [h1, h2]
        · have : c = d := Char.le_antisymm (Char.not_lt.mp h1) (Char.not_lt.mp h2)
          subst this
          simp only [h1, if_false]
          exact ih (fun hp => h ((List.cons_prefix_cons).mpr ⟨rfl, hp⟩))

/-! ### decimal digits -/

theorem digitChar_spec (d : Nat) (h : d < 10) :
    isDigit (digitChar d) = true ∧ (digitChar d).toNat - 48 = d ∧ digitChar d ≠ '.' ∧
      lowerC (digitChar d) = digitChar d := by
  match d, h with
  | 0, _ => decide
  | 1, _ => decide
  | 2, _ => decide
  | 3, _ => decide
  | 4, _ => decide
  | 5, _ => decide
  | 6, _ => decide
  | 7, _ => decide
  | 8, _ => decide
  | 9, _ => decide
  | d + 10, h => omega

theorem digitsVal_snoc (xs : List Char) (c : Char) (acc : Nat) :
    digitsVal (xs ++ [c]) acc =
      match digitsVal xs acc with
      | some v => if isDigit c then some (v * 10 + (c.toNat - 48)) else none
      | none => none := by
  induction xs generalizing acc with
  | nil => simp [digitsVal]
  | cons x xs ih =>
    simp only [List.cons_append, digitsVal]
    split
    · exact ih _
    · rfl

theorem natDigitsF_spec (f n : Nat) (h : n < f) :
    digitsVal (natDigitsF f n) 0 = some n ∧ natDigitsF f n ≠ [] ∧
      (∀ c ∈ natDigitsF f n, isDigit c = true ∧ c ≠ '.' ∧ lowerC c = c) := by
  induction f generalizing n with
  | zero => omega
  | succ f ih =>
    unfold natDigitsF
    split
    · rename_i hlt
      obtain ⟨h1, h2, h3, h4⟩ := digitChar_spec n hlt
      refine ⟨by simp [digitsVal, h1, h2], by simp, ?_⟩
      intro c hc
      simp only [List.mem_singleton] at hc
      subst hc
      exact ⟨h1, h3, h4⟩
    · rename_i hge
      obtain ⟨i1, i2, i3⟩ := ih (n / 10) (by omega)
      obtain ⟨h1, h2, h3, h4⟩ := digitChar_spec (n % 10) (Nat.mod_lt _ (by omega))
      refine ⟨?_, by simp, ?_⟩
      · rw [digitsVal_snoc, i1]
        simp only [h1, if_true, h2]
        congr 1
        omega
      · intro c hc
        rcases List.mem_append.mp hc with hc | hc
        · exact i3 c hc
        · simp only [List.mem_singleton] at hc
          subst hc
          exact ⟨h1, h3, h4⟩

theorem natDigits_spec (n : Nat) :
    digitsVal (natDigits n) 0 = some n ∧ natDigits n ≠ [] ∧
      (∀ c ∈ natDigits n, isDigit c = true ∧ c ≠ '.' ∧ lowerC c = c) :=
  natDigitsF_spec (n + 1) n (by omega)

theorem natDigits_noDot (n : Nat) : '.' ∉ natDigits n :=
  fun h => ((natDigits_spec n).2.2 _ h).2.1 rfl

theorem lower_natDigits (n : Nat) : lower (natDigits n) = natDigits n := by
  unfold lower
  have := (natDigits_spec n).2.2
  generalize natDigits n = l at this
  induction l with
  | nil => rfl
  | cons c cs ih =>
    simp only [List.map_cons]
    rw [(this c List.mem_cons_self).2.2, ih (fun c' hc' => this c' (List.mem_cons_of_mem _ hc'))]

/-- strconv.Atoi reads back what `%d` printed, as long as it fits an int64 (a Go slice index always does) -/
theorem atoi_natDigits (n : Nat) (h : n < 2 ^ 63) : atoi (natDigits n) = some (n : Int) := by
  obtain ⟨h1, h2, h3⟩ := natDigits_spec n
  cases hs : natDigits n with
  | nil => exact absurd hs h2
  | cons c cs =>
    rw [hs] at h1 h3
    have hd := (h3 c List.mem_cons_self).1
    have hm : c ≠ '-' := by intro e; subst e; revert hd; decide
    have hp : c ≠ '+' := by intro e; subst e; revert hd; decide
    unfold atoi
    split
    · rename_i r heq; cases heq; exact absurd rfl hm
    · rename_i r heq; cases heq; exact absurd rfl hp
    · simp [atoiU, h1, h]

/-! ### splitting at the last dot -/

theorem splitLast_noDot {s : Name} (h : '.' ∉ s) : splitLast s = none := by
  induction s with
  | nil => rfl
  | cons c cs ih =>
    have hc : c ≠ '.' := fun e => h (e ▸ List.mem_cons_self)
    have hcs : '.' ∉ cs := fun e => h (List.mem_cons_of_mem _ e)
    simp [splitLast, ih hcs, hc]

theorem splitLast_append (p : Name) {ds : Name} (h : '.' ∉ ds) : splitLast (p ++ '.' :: ds) = some (p, ds) := by
  induction p with
  | nil => simp [splitLast, splitLast_noDot h]
  | cons c cs ih => simp [splitLast, ih]

theorem splitLast_arrName (p : Name) (i : Nat) : splitLast (arrName p i) = some (p, natDigits i) :=
  splitLast_append p (natDigits_noDot i)

theorem lower_append (a b : Name) : lower (a ++ b) = lower a ++ lower b := by simp [lower]

theorem lower_arrName (p : Name) (i : Nat) : lower (arrName p i) = lower p ++ '.' :: natDigits i := by
  unfold arrName
  rw [lower_append]
  congr 1
  show lower ('.' :: natDigits i) = _
  simp only [lower, List.map_cons]
  congr 1
  exact lower_natDigits i

/-! ### the repaired comparator on the names the code generates -/

/-- entries of one array input are ordered by their index, for every index a Go slice can have -/
theorem depLess_same_port (p : Name) (i j : Nat) (hi : i < 2 ^ 63) (hj : j < 2 ^ 63) :
    depLess (arrName p i) (arrName p j) = decide (i < j) := by
  unfold depLess
  rw [splitLast_arrName, splitLast_arrName]
  simp only [if_true, atoi_natDigits i hi, atoi_natDigits j hj]
  simp

/-! ### the names of one node, as codes -/

/-- a dependency name: a scalar field `q`, or element `i` of array field `p` -/
inductive Code where
  | s (q : Name)
  | a (p : Name) (i : Nat)
deriving DecidableEq

def Code.render : Code → Name
  | .s q => q
  | .a p i => arrName p i

def Code.port : Code → Option Name
  | .s _ => none
  | .a p _ => some p

def Code.idx : Code → Nat
  | .s _ => 0
  | .a _ i => i

/-- what the comparator proof needs from the input ports of a node type: no dot in a (lower-cased) port name and
    no two ports that differ only by case (Go field names; checked on every registered type by the
    `c12.holds.ports_distinct` oracle).  RESTRICTION: `lower` is Go's ToLower / EqualFold only on the alphabet of
    `lowerC` (ASCII, Latin-1 letters, Greek without final sigma, Cyrillic); for port names outside it the theorems about
    `depLess` say nothing about the Go comparator (no registered type has such a name). -/
structure PortsOK (T : NodeType) : Prop where
  noDot : ∀ p ∈ T.scal.map (·.1) ++ T.arrs.map (·.1), '.' ∉ lower p
  distinct : ∀ p ∈ T.scal.map (·.1) ++ T.arrs.map (·.1), ∀ q ∈ T.scal.map (·.1) ++ T.arrs.map (·.1),
    lower p = lower q → p = q
  disjoint : ∀ p ∈ T.scal.map (·.1), p ∉ T.arrs.map (·.1)

def Code.Valid (T : NodeType) : Code → Prop
  | .s q => q ∈ T.scal.map (·.1)
  | .a p i => p ∈ T.arrs.map (·.1) ∧ i < 2 ^ 63

def Code.L (c : Code) : Name := lower c.render

def codeLt (c d : Code) : Bool := depLess c.render d.render

theorem prefix_dot_eq {a b r : Name} (ha : '.' ∉ a) (hb : '.' ∉ b) (h : (a ++ ['.']) <+: (b ++ '.' :: r)) : a = b := by
  induction a generalizing b with
  | nil =>
    cases b with
    | nil => rfl
    | cons y ys =>
      simp only [List.nil_append, List.cons_append, List.cons_prefix_cons] at h
      exact absurd (h.1 ▸ List.mem_cons_self) hb
  | cons x xs ih =>
    cases b with
    | nil =>
      simp only [List.cons_append, List.nil_append, List.cons_prefix_cons] at h
      exact absurd (h.1 ▸ List.mem_cons_self) ha
    | cons y ys =>
      simp only [List.cons_append, List.cons_prefix_cons] at h
      rw [h.1, ih (fun e => ha (List.mem_cons_of_mem _ e)) (fun e => hb (List.mem_cons_of_mem _ e)) h.2]

theorem Code.L_arr (p : Name) (i : Nat) : (Code.a p i).L = (lower p ++ ['.']) ++ natDigits i := by
  simp [Code.L, Code.render, lower_arrName]

theorem mem_ports_of_valid {T : NodeType} {c : Code} (h : c.Valid T) :
    (match c with | .s q => q | .a p _ => p) ∈ T.scal.map (·.1) ++ T.arrs.map (·.1) := by
  cases c with
  | s q => exact List.mem_append_left _ h
  | a p i => exact List.mem_append_right _ h.1

/-- a name that is not an element of array port `p` does not start with `lower p ++ "."` -/
theorem not_prefix_of_other_port {T : NodeType} (hP : PortsOK T) {p : Name} (hp : p ∈ T.arrs.map (·.1))
    {z : Code} (hz : z.Valid T) (hne : z.port ≠ some p) : ¬ (lower p ++ ['.']) <+: z.L := by
  intro hpre
  cases z with
  | s q =>
    have hq := hP.noDot q (List.mem_append_left _ hz)
    apply hq
    have : '.' ∈ lower p ++ ['.'] := by simp
    exact hpre.subset this
  | a q j =>
    have hq := hP.noDot q (List.mem_append_right _ hz.1)
    have hp' := hP.noDot p (List.mem_append_right _ hp)
    rw [Code.L_arr, List.append_assoc] at hpre
    have := prefix_dot_eq hp' hq hpre
    have := hP.distinct p (List.mem_append_right _ hp) q (List.mem_append_right _ hz.1) this
    subst this
    exact hne rfl

theorem codeLt_sp {p : Name} {c d : Code} {T : NodeType} (hc : c.Valid T) (hd : d.Valid T)
    (h1 : c.port = some p) (h2 : d.port = some p) : codeLt c d = decide (c.idx < d.idx) := by
  cases c with
  | s q => cases h1
  | a p1 i =>
    cases d with
    | s q => cases h2
    | a p2 j =>
      simp only [Code.port, Option.some.injEq] at h1 h2
      subst h1; subst h2
      exact depLess_same_port _ i j hc.2 hd.2

theorem codeLt_nsp {T : NodeType} (hP : PortsOK T) (hdotS : ∀ q ∈ T.scal.map (·.1), '.' ∉ q)
    {c d : Code} (hc : c.Valid T) (hd : d.Valid T)
    (h : ¬ (c.port = d.port ∧ c.port.isSome)) : codeLt c d = strLt c.L d.L := by
  unfold codeLt depLess Code.L
  cases c with
  | s q => simp [Code.render, splitLast_noDot (hdotS q hc)]
  | a p i =>
    cases d with
    | s q =>
      simp only [Code.render, splitLast_noDot (hdotS q hd)]
      split
      · rename_i heq; cases heq
      · rfl
    | a p2 j =>
      have hne : lower p ≠ lower p2 := by
        intro e
        have := hP.distinct p (List.mem_append_right _ hc.1) p2 (List.mem_append_right _ hd.1) e
        subst this
        exact h ⟨rfl, rfl⟩
      simp [Code.render, splitLast_arrName, hne]

theorem code_group {T : NodeType} (hP : PortsOK T) {p : Name} {c c' z : Code} (hc : c.Valid T) (hc' : c'.Valid T)
    (hz : z.Valid T) (h1 : c.port = some p) (h2 : c'.port = some p) (h3 : z.port ≠ some p) :
    strLt c.L z.L = strLt c'.L z.L ∧ strLt z.L c.L = strLt z.L c'.L := by
  cases c with
  | s q => cases h1
  | a p1 i =>
    cases c' with
    | s q => cases h2
    | a p2 j =>
      simp only [Code.port, Option.some.injEq] at h1 h2
      subst h1; subst h2
      have hnp := not_prefix_of_other_port hP hc.1 hz h3
      rw [Code.L_arr, Code.L_arr]
      exact ⟨strLt_prefix_left _ _ hnp, strLt_prefix_right _ _ hnp⟩

theorem L_ne {T : NodeType} (hP : PortsOK T) {c d : Code} (hc : c.Valid T) (hd : d.Valid T)
    (h : ¬ (c.port = d.port ∧ c.port.isSome)) (hne : c ≠ d) : c.L ≠ d.L := by
  intro e
  cases c with
  | s q =>
    cases d with
    | s q2 =>
      apply hne
      have := hP.distinct q (List.mem_append_left _ hc) q2 (List.mem_append_left _ hd) e
      rw [this]
    | a p2 j =>
      have hq := hP.noDot q (List.mem_append_left _ hc)
      rw [Code.L_arr] at e
      apply hq
      show '.' ∈ (Code.s q).L
      rw [e]; simp
  | a p i =>
    cases d with
    | s q2 =>
      have hq := hP.noDot q2 (List.mem_append_left _ hd)
      rw [Code.L_arr] at e
      apply hq
      show '.' ∈ (Code.s q2).L
      rw [← e]; simp
    | a p2 j =>
      have hp := hP.noDot p (List.mem_append_right _ hc.1)
      have hp2 := hP.noDot p2 (List.mem_append_right _ hd.1)
      rw [Code.L_arr, Code.L_arr, List.append_assoc, List.append_assoc] at e
      have hpre : (lower p ++ ['.']) <+: (lower p2 ++ '.' :: natDigits j) := by
        rw [show lower p2 ++ '.' :: natDigits j = lower p2 ++ (['.'] ++ natDigits j) from rfl, ← e, ← List.append_assoc]
        exact List.prefix_append _ _
      have := hP.distinct p (List.mem_append_right _ hc.1) p2 (List.mem_append_right _ hd.1) (prefix_dot_eq hp hp2 hpre)
      subst this
      exact h ⟨rfl, rfl⟩

/-- on the valid codes of a node type the repaired comparator is a strict total order -/
theorem codeLt_strict {T : NodeType} (hP : PortsOK T) (hdotS : ∀ q ∈ T.scal.map (·.1), '.' ∉ q) (l : List Code)
    (hv : ∀ c ∈ l, c.Valid T) : StrictTotalOn codeLt l := by
  have sp_or : ∀ c d : Code, (∃ p, c.port = some p ∧ d.port = some p) ∨ ¬ (c.port = d.port ∧ c.port.isSome) := by
    intro c d
    cases hc : c.port with
    | none => right; simp
    | some p =>
      by_cases hd : d.port = some p
      · left; exact ⟨p, rfl, hd⟩
      · right; intro h; exact hd (h.1 ▸ rfl)
  refine ⟨?_, ?_, ?_⟩
  · intro c hc d hd h1 h2
    rcases sp_or c d with ⟨p, hp1, hp2⟩ | hn
    · rw [codeLt_sp (hv c hc) (hv d hd) hp1 hp2] at h1
      rw [codeLt_sp (hv d hd) (hv c hc) hp2 hp1] at h2
      simp only [decide_eq_true_eq] at h1 h2
      omega
    · rw [codeLt_nsp hP hdotS (hv c hc) (hv d hd) hn] at h1
      rw [codeLt_nsp hP hdotS (hv d hd) (hv c hc) (fun h => hn ⟨h.1.symm, h.1 ▸ h.2⟩)] at h2
      exact strLt_asymm h1 h2
  · intro c hc d hd e he h1 h2
    have vc := hv c hc; have vd := hv d hd; have ve := hv e he
    rcases sp_or c d with ⟨p, hp1, hp2⟩ | hn
    · rw [codeLt_sp vc vd hp1 hp2] at h1
      by_cases hpe : e.port = some p
      · rw [codeLt_sp vd ve hp2 hpe] at h2
        rw [codeLt_sp vc ve hp1 hpe]
        simp only [decide_eq_true_eq] at h1 h2 ⊢
        omega
      · have n1 : ¬ (d.port = e.port ∧ d.port.isSome) := fun h => hpe (h.1 ▸ hp2)
        have n2 : ¬ (c.port = e.port ∧ c.port.isSome) := fun h => hpe (h.1 ▸ hp1)
        rw [codeLt_nsp hP hdotS vd ve n1] at h2
        rw [codeLt_nsp hP hdotS vc ve n2, (code_group hP vc vd ve hp1 hp2 hpe).1]
        exact h2
    · rw [codeLt_nsp hP hdotS vc vd hn] at h1
      rcases sp_or d e with ⟨p, hp1, hp2⟩ | hn2
      · have hpc : c.port ≠ some p := fun h => hn ⟨h.trans hp1.symm, by simp [h]⟩
        have n2 : ¬ (c.port = e.port ∧ c.port.isSome) := fun h => hpc (h.1.trans hp2)
        rw [codeLt_nsp hP hdotS vc ve n2, ← (code_group hP vd ve vc hp1 hp2 hpc).2]
        exact h1
      · rw [codeLt_nsp hP hdotS vd ve hn2] at h2
        rcases sp_or c e with ⟨p, hp1, hp2⟩ | hn3
        · have hpd : d.port ≠ some p := fun h => hn ⟨hp1.trans h.symm, by simp [hp1]⟩
          rw [(code_group hP vc ve vd hp1 hp2 hpd).1] at h1
          exact (strLt_asymm h1 h2).elim
        · rw [codeLt_nsp hP hdotS vc ve hn3]
          exact strLt_trans h1 h2
  · intro c hc d hd hne
    have vc := hv c hc; have vd := hv d hd
    rcases sp_or c d with ⟨p, hp1, hp2⟩ | hn
    · rw [codeLt_sp vc vd hp1 hp2, codeLt_sp vd vc hp2 hp1]
      simp only [decide_eq_true_eq]
      have : c.idx ≠ d.idx := by
        intro e
        apply hne
        cases c with
        | s q => cases hp1
        | a p1 i =>
          cases d with
          | s q => cases hp2
          | a p2 j =>
            simp only [Code.port, Option.some.injEq] at hp1 hp2
            simp only [Code.idx] at e
            subst hp1 hp2 e
            rfl
      omega
    · rw [codeLt_nsp hP hdotS vc vd hn, codeLt_nsp hP hdotS vd vc (fun h => hn ⟨h.1.symm, h.1 ▸ h.2⟩)]
      exact strLt_total (L_ne hP vc vd hn hne)

/-! ### node ids: `Node-k` is injective in k, so the bounded search of `firstFree` cannot exhaust its fuel -/

theorem natDigits_inj {a b : Nat} (h : natDigits a = natDigits b) : a = b := by
  have ha := (natDigits_spec a).1
  rw [h, (natDigits_spec b).1] at ha
  exact (Option.some.inj ha).symm

theorem nodeIdOf_inj {a b : Nat} (h : nodeIdOf a = nodeIdOf b) : a = b := by
  unfold nodeIdOf at h
  exact natDigits_inj (String.ofList_injective ((String.append_right_inj _).mp h))

theorem firstFree_none {ids : List Id} {fuel k : Nat} (h : firstFree ids fuel k = none) :
    ∀ j, j < fuel → nodeIdOf (k + j) ∈ ids := by
  induction fuel generalizing k with
  | zero => intro j hj; omega
  | succ f ih =>
    unfold firstFree at h
    split at h
    · rename_i hk
      intro j hj
      cases j with
      | zero => simpa using hk
      | succ j =>
        have := ih h j (by omega)
        rwa [show k + 1 + j = k + (j + 1) by omega] at this
    · cases h

/-- pigeonhole: `fuel` different candidate ids cannot all be among fewer than `fuel` used ids -/
theorem firstFree_sufficient_aux {ids : List Id} {fuel : Nat} (k : Nat) (h : ids.length < fuel) :
    ∃ id, firstFree ids fuel k = some id := by
  cases hf : firstFree ids fuel k with
  | some id => exact ⟨id, rfl⟩
  | none =>
    have hall := firstFree_none hf
    have hnd : ((List.range fuel).map (fun j => nodeIdOf (k + j))).Nodup := by
      apply List.pairwise_map.mpr
      exact (List.pairwise_lt_range (n := fuel)).imp (fun {a b} hab e => by have := nodeIdOf_inj e; omega)
    have hsub : ((List.range fuel).map (fun j => nodeIdOf (k + j))) ⊆ ids := by
      intro x hx
      obtain ⟨j, hj, rfl⟩ := List.mem_map.mp hx
      exact hall j (List.mem_range.mp hj)
    have := hnd.length_le_of_subset hsub
    simp at this
    omega

end GraphIO
end PolyVerif
