/-
  C18 — ONE UMBRELLA PER VERTEX of the UV sphere (vertex-manifoldness), for ALL sizes.

  `Closed` (Lemmas/Solids.lean) says every directed edge has exactly one twin; it does not exclude a "pinched" vertex
  whose incident triangles form two or more fans.  Here the link of every vertex is exhibited: the link edges of `v`
  (`b → c` such that some triangle, rotated so that `v` comes first, is `(v, b, c)`) are exactly the consecutive pairs
  of ONE duplicate-free cycle (`UmbrellaCycle`).  The cycle is given per vertex class of the logical sphere `sphereL`
  (poles, ring 1, last ring, interior rings, the single ring of `R = 2`), then transported to the raw vertex ids of
  `uvSphereTris` (injective numbering `uvEnc`) and to `hemisphereTris` (every triangle reversed: the cycle reversed).
-/
import PolyVerif.Lemmas.SolidsMerge
namespace PolyVerif.Solids
open List
set_option linter.unusedSimpArgs false

/-- `b → c` is a link edge of `v`: some triangle, rotated so that `v` comes first, is `(v, b, c)` -/
def LinkEdge {β : Type} (ts : List (β × β × β)) (v b c : β) : Prop :=
  (v, b, c) ∈ ts ∨ (c, v, b) ∈ ts ∨ (b, c, v) ∈ ts
/-- consecutive pairs of a cyclic list -/
def cyclicPairs {β : Type} (l : List β) : List (β × β) := l.zip (l.rotate 1)
/-- ONE UMBRELLA, exhibited: the link edges of `v` are exactly the consecutive pairs of one duplicate-free cycle -/
def UmbrellaCycle {β : Type} (ts : List (β × β × β)) (v : β) : Prop :=
  ∃ cyc : List β, 3 ≤ cyc.length ∧ cyc.Nodup ∧ ∀ b c, LinkEdge ts v b c ↔ (b, c) ∈ cyclicPairs cyc

theorem mem_cyclicPairs {β : Type} {l : List β} {x y : β} :
    (x, y) ∈ cyclicPairs l ↔ ∃ k, k < l.length ∧ l[k]? = some x ∧ l[(k + 1) % l.length]? = some y := by
  unfold cyclicPairs
  rw [List.mem_iff_getElem?]
  constructor
  · rintro ⟨k, hk⟩
    rw [List.getElem?_zip_eq_some] at hk
    obtain ⟨h1, h2⟩ := hk
    have hk : k < l.length := by
      by_contra h
      rw [List.getElem?_eq_none (by omega)] at h1
      simp at h1
    rw [List.getElem?_rotate hk] at h2
    exact ⟨k, hk, h1, h2⟩
  · rintro ⟨k, hk, h1, h2⟩
    refine ⟨k, ?_⟩
    rw [List.getElem?_zip_eq_some, List.getElem?_rotate hk]
    exact ⟨h1, h2⟩

theorem mem_cyclicPairs_range_map {β : Type} {C : Nat} (f : Nat → β) {x y : β} :
    (x, y) ∈ cyclicPairs ((List.range C).map f) ↔ ∃ k, k < C ∧ x = f k ∧ y = f ((k + 1) % C) := by
  rw [mem_cyclicPairs]
  simp only [List.length_map, List.length_range, List.getElem?_map]
  constructor
  · rintro ⟨k, hk, h1, h2⟩
    have hm : (k + 1) % C < C := Nat.mod_lt _ (by omega)
    rw [List.getElem?_range hk] at h1
    rw [List.getElem?_range hm] at h2
    simp only [Option.map_some, Option.some.injEq] at h1 h2
    exact ⟨k, hk, h1.symm, h2.symm⟩
  · rintro ⟨k, hk, rfl, rfl⟩
    have hm : (k + 1) % C < C := Nat.mod_lt _ (by omega)
    refine ⟨k, hk, ?_, ?_⟩
    · rw [List.getElem?_range hk]; rfl
    · rw [List.getElem?_range hm]; rfl

theorem cyclicPairs4 {β : Type} (a b c d : β) : cyclicPairs [a, b, c, d] = [(a, b), (b, c), (c, d), (d, a)] := rfl
theorem cyclicPairs5 {β : Type} (a b c d e : β) :
    cyclicPairs [a, b, c, d, e] = [(a, b), (b, c), (c, d), (d, e), (e, a)] := rfl
theorem cyclicPairs6 {β : Type} (a b c d e f : β) :
    cyclicPairs [a, b, c, d, e, f] = [(a, b), (b, c), (c, d), (d, e), (e, f), (f, a)] := rfl


/-- try the disjuncts of the goal one after the other, each with `omega` -/
local macro "omega_disj" : tactic => `(tactic| first
  | (refine Or.inl ?_; omega)
  | (refine Or.inr (Or.inl ?_); omega)
  | (refine Or.inr (Or.inr (Or.inl ?_)); omega)
  | (refine Or.inr (Or.inr (Or.inr (Or.inl ?_))); omega)
  | (refine Or.inr (Or.inr (Or.inr (Or.inr (Or.inl ?_)))); omega)
  | (refine Or.inr (Or.inr (Or.inr (Or.inr (Or.inr ?_)))); omega)
  | (refine Or.inr (Or.inr (Or.inr (Or.inr ?_))); omega)
  | (refine Or.inr (Or.inr (Or.inr ?_)); omega))

/-- close an equation between explicit logical triangles -/
local macro "tri_eq" : tactic => `(tactic| (simp only [Prod.mk.injEq, true_and, and_true]; omega))

theorem sphereL_link_interior {R C ρ c : Nat} (hC : 3 ≤ C) (h1 : 2 ≤ ρ) (h2 : ρ + 2 ≤ R) (hc : c < C) (x y : LP) :
    LinkEdge (sphereL R C) (ρ, c) x y ↔
      (x, y) ∈ cyclicPairs [((ρ, (c + 1) % C) : LP), (ρ + 1, (c + 1) % C), (ρ + 1, c), (ρ, (c + C - 1) % C),
        (ρ - 1, (c + C - 1) % C), (ρ - 1, c)] := by
  obtain ⟨x1, x2⟩ := x; obtain ⟨y1, y2⟩ := y
  rw [cyclicPairs6]
  simp only [List.mem_cons, List.not_mem_nil, or_false, Prod.mk.injEq]
  constructor
  · intro h
    simp only [LinkEdge, mem_sphereL, Prod.mk.injEq] at h
    rcases h with (⟨i, hi, h | h⟩ | ⟨j, hj, i, hi, h | h⟩) | (⟨i, hi, h | h⟩ | ⟨j, hj, i, hi, h | h⟩) |
      (⟨i, hi, h | h⟩ | ⟨j, hj, i, hi, h | h⟩)
    all_goals try (exfalso; omega)
    all_goals
      have hi' := nx_spec hi
      have hn := nx_spec hc
      obtain ⟨hp, hnp⟩ := pd_spec hc
      have hpn := nx_spec hp
      omega_disj
  · have hn := nx_spec hc
    obtain ⟨hp, hnp⟩ := pd_spec hc
    have hpn := nx_spec hp
    rintro (h | h | h | h | h | h)
    · refine Or.inl (mem_sphereL.2 (Or.inr ⟨ρ - 1, by omega, c, hc, Or.inl ?_⟩))
      tri_eq
    · refine Or.inl (mem_sphereL.2 (Or.inr ⟨ρ - 1, by omega, c, hc, Or.inr ?_⟩))
      tri_eq
    · refine Or.inr (Or.inl (mem_sphereL.2 (Or.inr ⟨ρ - 1, by omega, _, hp, Or.inl ?_⟩)))
      tri_eq
    · refine Or.inr (Or.inl (mem_sphereL.2 (Or.inr ⟨ρ - 2, by omega, _, hp, Or.inr ?_⟩)))
      tri_eq
    · refine Or.inr (Or.inr (mem_sphereL.2 (Or.inr ⟨ρ - 2, by omega, _, hp, Or.inl ?_⟩)))
      tri_eq
    · refine Or.inr (Or.inr (mem_sphereL.2 (Or.inr ⟨ρ - 2, by omega, c, hc, Or.inr ?_⟩)))
      tri_eq


theorem sphereL_link_ring1 {R C c : Nat} (hC : 3 ≤ C) (hR : 3 ≤ R) (hc : c < C) (x y : LP) :
    LinkEdge (sphereL R C) (1, c) x y ↔
      (x, y) ∈ cyclicPairs [((1, (c + 1) % C) : LP), (2, (c + 1) % C), (2, c), (1, (c + C - 1) % C), (0, 0)] := by
  obtain ⟨x1, x2⟩ := x; obtain ⟨y1, y2⟩ := y
  rw [cyclicPairs5]
  simp only [List.mem_cons, List.not_mem_nil, or_false, Prod.mk.injEq]
  constructor
  · intro h
    simp only [LinkEdge, mem_sphereL, Prod.mk.injEq] at h
    rcases h with (⟨i, hi, h | h⟩ | ⟨j, hj, i, hi, h | h⟩) | (⟨i, hi, h | h⟩ | ⟨j, hj, i, hi, h | h⟩) |
      (⟨i, hi, h | h⟩ | ⟨j, hj, i, hi, h | h⟩)
    all_goals try (exfalso; omega)
    all_goals
      have hi' := nx_spec hi
      have hn := nx_spec hc
      obtain ⟨hp, hnp⟩ := pd_spec hc
      have hpn := nx_spec hp
      omega_disj
  · have hn := nx_spec hc
    obtain ⟨hp, hnp⟩ := pd_spec hc
    have hpn := nx_spec hp
    rintro (h | h | h | h | h)
    · refine Or.inl (mem_sphereL.2 (Or.inr ⟨0, by omega, c, hc, Or.inl ?_⟩))
      tri_eq
    · refine Or.inl (mem_sphereL.2 (Or.inr ⟨0, by omega, c, hc, Or.inr ?_⟩))
      tri_eq
    · refine Or.inr (Or.inl (mem_sphereL.2 (Or.inr ⟨0, by omega, _, hp, Or.inl ?_⟩)))
      tri_eq
    · refine Or.inr (Or.inl (mem_sphereL.2 (Or.inl ⟨_, hp, Or.inl ?_⟩)))
      tri_eq
    · refine Or.inr (Or.inr (mem_sphereL.2 (Or.inl ⟨c, hc, Or.inl ?_⟩)))
      tri_eq

theorem sphereL_link_last {R C ρ c : Nat} (hC : 3 ≤ C) (h1 : 2 ≤ ρ) (h2 : ρ + 1 = R) (hc : c < C) (x y : LP) :
    LinkEdge (sphereL R C) (ρ, c) x y ↔
      (x, y) ∈ cyclicPairs [((ρ, (c + 1) % C) : LP), (R, 0), (ρ, (c + C - 1) % C), (ρ - 1, (c + C - 1) % C),
        (ρ - 1, c)] := by
  obtain ⟨x1, x2⟩ := x; obtain ⟨y1, y2⟩ := y
  rw [cyclicPairs5]
  simp only [List.mem_cons, List.not_mem_nil, or_false, Prod.mk.injEq]
  constructor
  · intro h
    simp only [LinkEdge, mem_sphereL, Prod.mk.injEq] at h
    rcases h with (⟨i, hi, h | h⟩ | ⟨j, hj, i, hi, h | h⟩) | (⟨i, hi, h | h⟩ | ⟨j, hj, i, hi, h | h⟩) |
      (⟨i, hi, h | h⟩ | ⟨j, hj, i, hi, h | h⟩)
    all_goals try (exfalso; omega)
    all_goals
      have hi' := nx_spec hi
      have hn := nx_spec hc
      obtain ⟨hp, hnp⟩ := pd_spec hc
      have hpn := nx_spec hp
      omega_disj
  · have hn := nx_spec hc
    obtain ⟨hp, hnp⟩ := pd_spec hc
    have hpn := nx_spec hp
    rintro (h | h | h | h | h)
    · refine Or.inr (Or.inl (mem_sphereL.2 (Or.inl ⟨c, hc, Or.inr ?_⟩)))
      tri_eq
    · refine Or.inr (Or.inr (mem_sphereL.2 (Or.inl ⟨_, hp, Or.inr ?_⟩)))
      tri_eq
    · refine Or.inr (Or.inl (mem_sphereL.2 (Or.inr ⟨ρ - 2, by omega, _, hp, Or.inr ?_⟩)))
      tri_eq
    · refine Or.inr (Or.inr (mem_sphereL.2 (Or.inr ⟨ρ - 2, by omega, _, hp, Or.inl ?_⟩)))
      tri_eq
    · refine Or.inr (Or.inr (mem_sphereL.2 (Or.inr ⟨ρ - 2, by omega, c, hc, Or.inr ?_⟩)))
      tri_eq

theorem sphereL_link_two {C c : Nat} (hC : 3 ≤ C) (hc : c < C) (x y : LP) :
    LinkEdge (sphereL 2 C) (1, c) x y ↔
      (x, y) ∈ cyclicPairs [((1, (c + 1) % C) : LP), (2, 0), (1, (c + C - 1) % C), (0, 0)] := by
  obtain ⟨x1, x2⟩ := x; obtain ⟨y1, y2⟩ := y
  rw [cyclicPairs4]
  simp only [List.mem_cons, List.not_mem_nil, or_false, Prod.mk.injEq]
  constructor
  · intro h
    simp only [LinkEdge, mem_sphereL, Prod.mk.injEq] at h
    rcases h with (⟨i, hi, h | h⟩ | ⟨j, hj, i, hi, h | h⟩) | (⟨i, hi, h | h⟩ | ⟨j, hj, i, hi, h | h⟩) |
      (⟨i, hi, h | h⟩ | ⟨j, hj, i, hi, h | h⟩)
    all_goals try (exfalso; omega)
    all_goals
      have hi' := nx_spec hi
      have hn := nx_spec hc
      obtain ⟨hp, hnp⟩ := pd_spec hc
      have hpn := nx_spec hp
      omega_disj
  · have hn := nx_spec hc
    obtain ⟨hp, hnp⟩ := pd_spec hc
    have hpn := nx_spec hp
    rintro (h | h | h | h)
    · refine Or.inr (Or.inl (mem_sphereL.2 (Or.inl ⟨c, hc, Or.inr ?_⟩)))
      tri_eq
    · refine Or.inr (Or.inr (mem_sphereL.2 (Or.inl ⟨_, hp, Or.inr ?_⟩)))
      tri_eq
    · refine Or.inr (Or.inl (mem_sphereL.2 (Or.inl ⟨_, hp, Or.inl ?_⟩)))
      tri_eq
    · refine Or.inr (Or.inr (mem_sphereL.2 (Or.inl ⟨c, hc, Or.inl ?_⟩)))
      tri_eq


theorem sphereL_umbrella_top {R C : Nat} (hR : 2 ≤ R) (hC : 3 ≤ C) : UmbrellaCycle (sphereL R C) ((0, 0) : LP) := by
  refine ⟨(List.range C).map (fun k => ((1, C - 1 - k) : LP)), by simp only [List.length_map, List.length_range]; exact hC, ?_, ?_⟩
  · refine List.Nodup.map_on ?_ List.nodup_range
    intro x hx y hy hxy
    have hx := List.mem_range.1 hx
    have hy := List.mem_range.1 hy
    simp only [Prod.mk.injEq, true_and] at hxy
    omega
  · intro b c
    rw [mem_cyclicPairs_range_map]
    obtain ⟨b1, b2⟩ := b; obtain ⟨c1, c2⟩ := c
    constructor
    · intro h
      simp only [LinkEdge, mem_sphereL, Prod.mk.injEq] at h
      rcases h with (⟨i, hi, h | h⟩ | ⟨j, hj, i, hi, h | h⟩) | (⟨i, hi, h | h⟩ | ⟨j, hj, i, hi, h | h⟩) |
        (⟨i, hi, h | h⟩ | ⟨j, hj, i, hi, h | h⟩)
      all_goals try omega
      have h1 := nx_spec hi
      have hk : C - 1 - (i + 1) % C < C := by omega
      have h2 := nx_spec hk
      refine ⟨C - 1 - (i + 1) % C, hk, ?_, ?_⟩
      · simp only [Prod.mk.injEq]; omega
      · simp only [Prod.mk.injEq]; omega
    · rintro ⟨k, hk, h1, h2⟩
      have h3 := nx_spec hk
      simp only [Prod.mk.injEq] at h1 h2
      have hi : C - 1 - (k + 1) % C < C := by omega
      have h4 := nx_spec hi
      refine Or.inl (mem_sphereL.2 (Or.inl ⟨C - 1 - (k + 1) % C, hi, Or.inl ?_⟩))
      simp only [Prod.mk.injEq, true_and]
      omega

theorem sphereL_umbrella_bot {R C : Nat} (hR : 2 ≤ R) (hC : 3 ≤ C) : UmbrellaCycle (sphereL R C) ((R, 0) : LP) := by
  refine ⟨(List.range C).map (fun k => ((R - 1, k) : LP)), by simp only [List.length_map, List.length_range]; exact hC, ?_, ?_⟩
  · refine List.Nodup.map_on ?_ List.nodup_range
    intro x hx y hy hxy
    simp only [Prod.mk.injEq, true_and] at hxy
    exact hxy
  · intro b c
    rw [mem_cyclicPairs_range_map]
    obtain ⟨b1, b2⟩ := b; obtain ⟨c1, c2⟩ := c
    constructor
    · intro h
      simp only [LinkEdge, mem_sphereL, Prod.mk.injEq] at h
      rcases h with (⟨i, hi, h | h⟩ | ⟨j, hj, i, hi, h | h⟩) | (⟨i, hi, h | h⟩ | ⟨j, hj, i, hi, h | h⟩) |
        (⟨i, hi, h | h⟩ | ⟨j, hj, i, hi, h | h⟩)
      all_goals try omega
      refine ⟨i, hi, ?_, ?_⟩
      · simp only [Prod.mk.injEq]; omega
      · simp only [Prod.mk.injEq]; omega
    · rintro ⟨k, hk, h1, h2⟩
      simp only [Prod.mk.injEq] at h1 h2
      refine Or.inl (mem_sphereL.2 (Or.inl ⟨k, hk, Or.inr ?_⟩))
      simp only [Prod.mk.injEq, true_and]
      omega


/-- close the `Nodup` goal of an explicit cycle of logical points -/
local macro "cyc_nodup" : tactic => `(tactic| (
  simp only [List.nodup_cons, List.mem_cons, List.not_mem_nil, Prod.mk.injEq, not_or, or_false, List.nodup_nil,
    not_false_eq_true, and_true]
  omega))

/-- **every vertex of the logical UV sphere has exactly one umbrella**: its link edges are the consecutive pairs of one
    duplicate-free cycle (exhibited per vertex class). -/
theorem sphereL_umbrella {R C : Nat} (hR : 2 ≤ R) (hC : 3 ≤ C) (p : LP) (hp : UvValid R C p) :
    UmbrellaCycle (sphereL R C) p := by
  rcases hp with rfl | rfl | ⟨h1, h2, h3⟩
  · exact sphereL_umbrella_top hR hC
  · exact sphereL_umbrella_bot hR hC
  · obtain ⟨ρ, c⟩ := p
    simp only at h1 h2 h3
    have hn := nx_spec h3
    obtain ⟨hp, hnp⟩ := pd_spec h3
    have hpn := nx_spec hp
    by_cases hR2 : R = 2
    · subst hR2
      obtain rfl : ρ = 1 := by omega
      refine ⟨_, ?_, ?_, sphereL_link_two hC h3⟩
      · simp only [List.length_cons, List.length_nil]; omega
      · cyc_nodup
    · by_cases hρ1 : ρ = 1
      · subst hρ1
        refine ⟨_, ?_, ?_, sphereL_link_ring1 hC (by omega) h3⟩
        · simp only [List.length_cons, List.length_nil]; omega
        · cyc_nodup
      · by_cases hρl : ρ + 1 = R
        · refine ⟨_, ?_, ?_, sphereL_link_last hC (by omega) hρl h3⟩
          · simp only [List.length_cons, List.length_nil]; omega
          · cyc_nodup
        · refine ⟨_, ?_, ?_, sphereL_link_interior hC (by omega) (by omega) h3⟩
          · simp only [List.length_cons, List.length_nil]; omega
          · cyc_nodup

/-! ### transport of umbrellas along vertex maps and along reversal -/

theorem cyclicPairs_map {β γ : Type} (f : β → γ) (l : List β) :
    cyclicPairs (l.map f) = (cyclicPairs l).map (Prod.map f f) := by
  unfold cyclicPairs
  rw [← List.map_rotate, List.zip_map]

/-- every element of a (non-empty) cyclic list starts one of its consecutive pairs -/
theorem exists_cyclicPair_of_mem {β : Type} {l : List β} {x : β} (h : x ∈ l) : ∃ y, (x, y) ∈ cyclicPairs l := by
  obtain ⟨k, hk, rfl⟩ := List.mem_iff_getElem.1 h
  have hm : (k + 1) % l.length < l.length := Nat.mod_lt _ (by omega)
  exact ⟨l[(k + 1) % l.length], mem_cyclicPairs.2 ⟨k, hk, List.getElem?_eq_getElem hk, List.getElem?_eq_getElem hm⟩⟩

theorem mem_map_tm {β γ : Type} {f : β → γ} {ts : List (β × β × β)} {u v w : γ} (h : (u, v, w) ∈ ts.map (tm f)) :
    ∃ a b c, (a, b, c) ∈ ts ∧ f a = u ∧ f b = v ∧ f c = w := by
  obtain ⟨⟨a, b, c⟩, ht, he⟩ := List.mem_map.1 h
  simp only [tm, Prod.mk.injEq] at he
  exact ⟨a, b, c, ht, he.1, he.2.1, he.2.2⟩

/-- an umbrella is carried along a vertex map that is injective on the points that occur -/
theorem UmbrellaCycle.map_of_injOn {β γ : Type} {f : β → γ} {ts : List (β × β × β)} {p : β} (V : β → Prop)
    (hV : ∀ t ∈ ts, V t.1 ∧ V t.2.1 ∧ V t.2.2) (hp : V p) (hinj : ∀ a b, V a → V b → f a = f b → a = b)
    (h : UmbrellaCycle ts p) : UmbrellaCycle (ts.map (tm f)) (f p) := by
  obtain ⟨cyc, hlen, hnd, hiff⟩ := h
  have hVcyc : ∀ b ∈ cyc, V b := by
    intro b hb
    obtain ⟨c, hbc⟩ := exists_cyclicPair_of_mem hb
    rcases (hiff b c).2 hbc with h | h | h
    · exact (hV _ h).2.1
    · exact (hV _ h).2.2
    · exact (hV _ h).1
  refine ⟨cyc.map f, by rw [List.length_map]; exact hlen,
    List.Nodup.map_on (fun a ha b hb => hinj a b (hVcyc a ha) (hVcyc b hb)) hnd, ?_⟩
  intro b' c'
  rw [cyclicPairs_map, List.mem_map]
  constructor
  · rintro (h | h | h)
    · obtain ⟨a, b, c, ht, e1, e2, e3⟩ := mem_map_tm h
      obtain rfl := hinj a p (hV _ ht).1 hp e1
      exact ⟨(b, c), (hiff b c).1 (Or.inl ht), by rw [← e2, ← e3]; rfl⟩
    · obtain ⟨c, a, b, ht, e3, e1, e2⟩ := mem_map_tm h
      obtain rfl := hinj a p (hV _ ht).2.1 hp e1
      exact ⟨(b, c), (hiff b c).1 (Or.inr (Or.inl ht)), by rw [← e2, ← e3]; rfl⟩
    · obtain ⟨b, c, a, ht, e2, e3, e1⟩ := mem_map_tm h
      obtain rfl := hinj a p (hV _ ht).2.2 hp e1
      exact ⟨(b, c), (hiff b c).1 (Or.inr (Or.inr ht)), by rw [← e2, ← e3]; rfl⟩
  · rintro ⟨⟨b, c⟩, hbc, he⟩
    simp only [Prod.map, Prod.mk.injEq] at he
    obtain ⟨rfl, rfl⟩ := he
    rcases (hiff b c).2 hbc with h | h | h
    · exact Or.inl (List.mem_map.2 ⟨(p, b, c), h, rfl⟩)
    · exact Or.inr (Or.inl (List.mem_map.2 ⟨(c, p, b), h, rfl⟩))
    · exact Or.inr (Or.inr (List.mem_map.2 ⟨(b, c, p), h, rfl⟩))

theorem mem_cyclicPairs_reverse_of {β : Type} {l : List β} {x y : β} (h : (y, x) ∈ cyclicPairs l) :
    (x, y) ∈ cyclicPairs l.reverse := by
  obtain ⟨k, hk, h1, h2⟩ := mem_cyclicPairs.1 h
  rw [mem_cyclicPairs, List.length_reverse]
  have hn1 := nx_spec hk
  have hm : l.length - 1 - (k + 1) % l.length < l.length := by omega
  have hn2 := nx_spec hm
  have hm' : (l.length - 1 - (k + 1) % l.length + 1) % l.length < l.length := Nat.mod_lt _ (by omega)
  refine ⟨_, hm, ?_, ?_⟩
  · rw [List.getElem?_reverse hm, ← h2]
    congr 1
    omega
  · rw [List.getElem?_reverse hm', ← h1]
    congr 1
    omega

theorem mem_cyclicPairs_reverse {β : Type} {l : List β} {x y : β} :
    (x, y) ∈ cyclicPairs l.reverse ↔ (y, x) ∈ cyclicPairs l :=
  ⟨fun h => by simpa only [List.reverse_reverse] using mem_cyclicPairs_reverse_of h, mem_cyclicPairs_reverse_of⟩

theorem mem_map_flipT {β : Type} {ts : List (β × β × β)} {a b c : β} :
    (a, b, c) ∈ ts.map flipT ↔ (a, c, b) ∈ ts := by
  rw [List.mem_map]
  constructor
  · rintro ⟨⟨u, v, w⟩, ht, he⟩
    simp only [flipT, Prod.mk.injEq] at he
    obtain ⟨rfl, rfl, rfl⟩ := he
    exact ht
  · intro h
    exact ⟨(a, c, b), h, rfl⟩

theorem linkEdge_flip {β : Type} {ts : List (β × β × β)} {v b c : β} :
    LinkEdge (ts.map flipT) v b c ↔ LinkEdge ts v c b := by
  simp only [LinkEdge, mem_map_flipT]
  constructor
  · rintro (h | h | h)
    · exact Or.inl h
    · exact Or.inr (Or.inr h)
    · exact Or.inr (Or.inl h)
  · rintro (h | h | h)
    · exact Or.inl h
    · exact Or.inr (Or.inr h)
    · exact Or.inr (Or.inl h)

/-- reversing every triangle reverses the link cycle -/
theorem UmbrellaCycle.flip {β : Type} {ts : List (β × β × β)} {v : β} (h : UmbrellaCycle ts v) :
    UmbrellaCycle (ts.map flipT) v := by
  obtain ⟨cyc, hlen, hnd, hiff⟩ := h
  refine ⟨cyc.reverse, by rw [List.length_reverse]; exact hlen, List.nodup_reverse.2 hnd, fun b c => ?_⟩
  rw [linkEdge_flip, mem_cyclicPairs_reverse]
  exact hiff c b

/-- **every vertex of the welded UV sphere (raw vertex ids) has exactly one umbrella** -/
theorem uvSphere_umbrella {R C : Nat} (hR : 2 ≤ R) (hC : 3 ≤ C) {v : Nat} (hv : v < uvSphereNV R C) :
    UmbrellaCycle (uvSphereTris R C) v := by
  obtain ⟨hval, henc⟩ := uvEnc_uvDec hR hC hv
  have h := UmbrellaCycle.map_of_injOn (f := uvEnc R C) (UvValid R C) (fun t ht => sphereL_tri_valid hR hC ht) hval
    (uvEnc_injOn hR hC) (sphereL_umbrella hR hC _ hval)
  rwa [henc, ← uvSphereTris_eq_map hR] at h

/-- **every vertex of the hemisphere (the same pattern with every triangle reversed) has exactly one umbrella** -/
theorem hemisphere_umbrella {R C : Nat} (hR : 2 ≤ R) (hC : 3 ≤ C) {v : Nat} (hv : v < uvSphereNV R C) :
    UmbrellaCycle (hemisphereTris R C) v := by
  rw [hemisphereTris_eq_flip]
  exact (uvSphere_umbrella hR hC hv).flip

end PolyVerif.Solids
