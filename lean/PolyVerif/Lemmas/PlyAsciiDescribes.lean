/-
  C04 — "the header describes the body", ASCII encoding: the line / token structure of what `writeBody` prints
  (core Lean only).  Only the token part of the law bundle `GoFloatText` is used (printed numbers are single words).
-/
import PolyVerif.Lemmas.PlyAscii

namespace PolyVerif
namespace PlyAscii
open Ply PlyLemmas PlyHeader PlyCompose

variable {α : Type}

theorem encScalarAscii_tok' (c : Coding α) (L : GoFloatText c) (t : SType) (v : α) (tok : Bytes)
    (h : encScalarAscii c t v = .ok tok) : Tok tok := by
  cases t <;> simp [encScalarAscii] at h <;> subst h <;>
    first | exact showNat_tok _ | exact L.tokI v | exact L.tokF v

theorem filter_nonempty_plines' (ls : List Bytes) (h : ∀ l ∈ ls, PLine l) :
    ls.filter (fun l => !l.isEmpty) = ls := by
  apply List.filter_eq_self.mpr
  intro l hl
  have := (h l hl).ne
  cases l <;> simp_all

/-- the printed vertex block: one line per record, each with exactly one token per header property -/
theorem vertex_lines_ascii (c : Coding α) (L : GoFloatText c) (tys : List SType) (htys : tys ≠ []) :
    ∀ (recs : List (List α)) (encs : List Bytes),
      All2 (fun vals rec => encRecordAscii c tys vals = .ok rec) recs encs →
      (∀ vals ∈ recs, vals.length = tys.length) →
      ∃ vlines, encs.flatten = flatLines vlines ∧ (∀ l ∈ vlines, PLine l ∧ (fields l).length = tys.length) ∧
        vlines.length = recs.length := by
  intro recs encs hall
  induction hall with
  | nil => intro _; exact ⟨[], rfl, by simp, rfl⟩
  | @cons vals rec recs encs hxy _ ih =>
    intro hlen
    have hv := hlen vals (by simp)
    obtain ⟨vlines, h1, h2, h3⟩ := ih (fun v hv' => hlen v (by simp [hv']))
    obtain ⟨toks, htoks, hrec⟩ := encRecordAscii_toks c tys vals rec hxy
    obtain ⟨htl, hat⟩ := toks_at c tys vals toks hv htoks
    have htne : toks ≠ [] := by
      intro h0; rw [h0] at htl; simp at htl; exact htys (List.length_eq_zero_iff.mp htl.symm)
    have htok : ∀ t ∈ toks, Tok t := by
      intro t ht
      obtain ⟨i, hi, rfl⟩ := List.getElem_of_mem ht
      exact encScalarAscii_tok' c L _ _ _ (hat i (by omega) (by omega) hi)
    obtain ⟨hpl, hfl⟩ := token_line toks htne htok
    simp only [htne, if_false] at hrec
    refine ⟨intercalate sp toks :: vlines, by simp [hrec, h1, flatLines_cons, nl], ?_, by simp [h3]⟩
    intro l hl
    simp at hl
    rcases hl with rfl | hl
    · exact ⟨hpl, by rw [hfl, htl]⟩
    · exact h2 l hl

/-- a vertex element without properties prints nothing -/
theorem vertex_lines_empty (c : Coding α) : ∀ (recs : List (List α)) (encs : List Bytes),
    All2 (fun vals rec => encRecordAscii c [] vals = .ok rec) recs encs → encs.flatten = [] := by
  intro recs encs hall
  induction hall with
  | nil => rfl
  | @cons vals rec recs encs hxy _ ih =>
    simp [encRecordAscii, pure, Except.pure, bind, Except.bind] at hxy
    simp [← hxy, ih]

theorem faceToks_length (c : Coding α) (f : WFace α) (hasTex : Bool) (huv : UvOk hasTex f) :
    (faceToks c f).length = if hasTex then 11 else 4 := by
  obtain ⟨idx, uv⟩ := f
  cases uv with
  | none => simp only [UvOk] at huv; simp [faceToks, huv]
  | some uv => simp only [UvOk] at huv; simp [faceToks, huv.1, huv.2]

/-- THE HEADER DESCRIBES THE BODY, ASCII: the body `MeshWriter.Write` prints after the header consists of exactly
`attrLen` vertex lines (none when the vertex element has no property) with one token per header property each, followed by
exactly `triCount` face lines of `1 + 3` (with TexCoord: `+ 1 + 6`) tokens — `asciiBodyDescribed`, the predicate the
oracle `c04.holds.header_describes` evaluates on the written files -/
theorem header_describes_ascii (c : Coding α) (L : GoFloatText c) (cfg : WriterCfg) (m : MeshVal α) (body : Bytes)
    (hf : cfg.format = .ascii) (hwf : m.WF = true) (h : writeBody c cfg m = .ok body) (hsize : m.attrLen ≤ 2 ^ 31) :
    asciiBodyDescribed body (writerTypes (selectWriters cfg m)).length m.attrLen
      (if m.topo = .triangle then triCount m else 0) (if hasTexCoord m then 11 else 4) = true := by
  obtain ⟨recs, vbytes, faceBytes, hrecs, hall, hbody, hpt, htri⟩ := writeBody_ascii_parts c cfg m body hf h
  have hrl := mapM_ok_forall₂ _ _ _ hrecs
  have hlen : recs.length = m.attrLen := by simpa using hrl.length_eq
  have hvl : ∀ vals ∈ recs, vals.length = (writerTypes (selectWriters cfg m)).length :=
    All2.forall_right (Q := fun r => r.length = (writerTypes (selectWriters cfg m)).length)
      (fun i r hir => vertexRecord_length m hwf i _ r hir) hrl
  -- the vertex lines
  obtain ⟨vlines, hv1, hv2, hv3⟩ : ∃ vlines, vbytes.flatten = flatLines vlines ∧
      (∀ l ∈ vlines, PLine l ∧ (fields l).length = (writerTypes (selectWriters cfg m)).length) ∧
      vlines.length = (if (writerTypes (selectWriters cfg m)).length = 0 then 0 else m.attrLen) := by
    by_cases hne : writerTypes (selectWriters cfg m) = []
    · rw [hne] at hall
      exact ⟨[], by rw [vertex_lines_empty c recs vbytes hall]; rfl, by simp, by simp [hne]⟩
    · obtain ⟨vlines, a, b, d⟩ := vertex_lines_ascii c L _ hne recs vbytes hall hvl
      have : (writerTypes (selectWriters cfg m)).length ≠ 0 := by
        intro h0; exact hne (List.length_eq_zero_iff.mp h0)
      exact ⟨vlines, a, b, by simp [d, hlen, this]⟩
  have hvp : ∀ l ∈ vlines, PLine l := fun l hl => (hv2 l hl).1
  by_cases ht : m.topo = .triangle
  · obtain ⟨fs, hfs0, hfb⟩ := htri ht
    obtain ⟨tris, hc⟩ := WF_tri m hwf ht
    rw [chunk3Floor_of_chunk3 _ _ hc] at hfs0
    obtain ⟨hidx, huv⟩ := faceRecords_shape m hwf tris fs hfs0
    have hiok := idxOk_of_wf m hwf hsize tris hc fs hidx
    have hfl : faceBytes = flatLines (fs.map (fun f => intercalate sp (faceToks c f))) := by
      rw [hfb]
      simp only [flatLines, List.map_map, Function.comp_def]
      congr 1
      apply List.map_congr_left
      intro f hf'
      rw [encFaceAscii_eq c f (hasTexCoord m) (huv f hf')]; simp [nl]
    have hfp : ∀ l ∈ fs.map (fun f => intercalate sp (faceToks c f)),
        PLine l ∧ (fields l).length = (if hasTexCoord m then 11 else 4) := by
      intro l hl
      simp only [List.mem_map] at hl
      obtain ⟨f, hf', rfl⟩ := hl
      obtain ⟨h1, h2⟩ := token_line (faceToks c f) (by simp [faceToks]) (faceToks_tok c L f (hiok f hf'))
      exact ⟨h1, by rw [h2, faceToks_length c f _ (huv f hf')]⟩
    have hb : body = flatLines (vlines ++ fs.map (fun f => intercalate sp (faceToks c f))) := by
      rw [hbody, hv1, hfl, flatLines_append]
    have hall' : ∀ l ∈ vlines ++ fs.map (fun f => intercalate sp (faceToks c f)), PLine l := by
      intro l hl
      rcases List.mem_append.mp hl with hl | hl
      · exact hvp l hl
      · exact (hfp l hl).1
    have hlines : (scanLines body).filter (fun l => !l.isEmpty)
        = vlines ++ fs.map (fun f => intercalate sp (faceToks c f)) := by
      rw [hb, scanLines_flat _ hall', filter_nonempty_plines' _ hall']
    have hcount : triCount m = fs.length := by
      have := chunk3_length _ _ hc
      have h2 : fs.length = tris.length := by rw [← hidx]; simp
      simp [triCount, h2, this]
    simp only [asciiBodyDescribed, hlines, ht, if_true, Bool.and_eq_true, decide_eq_true_eq, List.all_eq_true]
    refine ⟨⟨by simp [hv3, hcount], ?_⟩, ?_⟩
    · intro l hl
      rw [List.take_left' hv3] at hl
      exact (hv2 l hl).2
    · intro l hl
      rw [List.drop_left' hv3] at hl
      exact (hfp l hl).2
  · have hb : body = flatLines vlines := by rw [hbody, hpt ht, hv1]; simp
    have hlines : (scanLines body).filter (fun l => !l.isEmpty) = vlines := by
      rw [hb, scanLines_flat _ hvp, filter_nonempty_plines' _ hvp]
    simp only [asciiBodyDescribed, hlines, ht, if_false, Bool.and_eq_true, decide_eq_true_eq, List.all_eq_true]
    refine ⟨⟨by simp [hv3], ?_⟩, ?_⟩
    · intro l hl
      exact (hv2 l (List.mem_of_mem_take hl)).2
    · intro l hl
      rw [← hv3] at hl
      simp at hl

end PlyAscii
end PolyVerif
