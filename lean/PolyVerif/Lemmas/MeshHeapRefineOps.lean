/-
  C01 refine, part 2: the allocate-only operation classes refine their pure meaning; `apply_refines` for every class.
-/
import PolyVerif.Lemmas.MeshHeapRefine

namespace PolyVerif
namespace MeshHeap

variable {κ α : Type}
set_option linter.unusedSectionVars false

theorem allocSlice_refine (E : Env α) (h : Heap κ α) (vs : List α) (sp : Nat) :
    Frame h.arrays.length h (allocSlice E h vs sp).1 ∧ BoundedS (allocSlice E h vs sp).1 (allocSlice E h vs sp).2 ∧
      (allocSlice E h vs sp).1.read (allocSlice E h vs sp).2 = vs := by
  refine ⟨frame_alloc (Nat.le_refl _) _, ⟨by simp [allocSlice], Or.inr ⟨_, alloc_get _ _, by simp [allocSlice]⟩⟩, ?_⟩
  simp only [allocSlice]
  rw [alloc_read _ _ _ _ (by simp)]
  exact List.take_left' rfl

section
variable [DecidableEq κ]

theorem allocEntries_refine (E : Env α) (es : List (κ × List α × Nat)) : ∀ (h : Heap κ α),
    Frame h.arrays.length h (allocEntries E h es).1 ∧ (∀ e ∈ (allocEntries E h es).2, BoundedS (allocEntries E h es).1 e.2) ∧
      (allocEntries E h es).2.map (rd (allocEntries E h es).1) = entriesV es := by
  induction es with
  | nil => intro h; exact ⟨Frame.refl (Nat.le_refl _), fun e he => by simp [allocEntries] at he, rfl⟩
  | cons e rest ih =>
    intro h
    obtain ⟨f1, b1, r1⟩ := allocSlice_refine (κ := κ) E h e.2.1 e.2.2
    obtain ⟨f2, b2, r2⟩ := ih (allocSlice E h e.2.1 e.2.2).1
    simp only [allocEntries]
    refine ⟨f1.trans (f2.weaken f1.size_le), ?_, ?_⟩
    · intro x hx
      rcases List.mem_cons.mp hx with rfl | hx
      · exact b1.frame_size f2
      · exact b2 x hx
    · simp only [List.map_cons, entriesV, rd] at r2 ⊢
      rw [r2, read_frame_valid f2 b1.valid, r1]

theorem allocMapOf_refine (E : Env α) (es : List (κ × List α × Nat)) (h : Heap κ α) :
    Frame h.arrays.length h (allocMapOf E h es).1 ∧ MapRefB (allocMapOf E h es).1 (some (allocMapOf E h es).2) ∧
      obsMap (allocMapOf E h es).1 (some (allocMapOf E h es).2) = entriesV es := by
  obtain ⟨f1, b1, r1⟩ := allocEntries_refine E es h
  obtain ⟨mb, mo⟩ := allocMap_refine b1
  simp only [allocMapOf]
  exact ⟨f1.trans (frame_allocMap f1.base_le' _), mb, mo.trans r1⟩

theorem allocMaps_refine (E : Env α) (ess : List (List (κ × List α × Nat))) : ∀ (h : Heap κ α),
    Frame h.arrays.length h (allocMaps E h ess).1 ∧ (∀ m ∈ (allocMaps E h ess).2, MapRefB (allocMaps E h ess).1 m) ∧
      (allocMaps E h ess).2.map (obsMap (allocMaps E h ess).1) = ess.map entriesV := by
  induction ess with
  | nil => intro h; exact ⟨Frame.refl (Nat.le_refl _), fun e he => by simp [allocMaps] at he, rfl⟩
  | cons es rest ih =>
    intro h
    obtain ⟨f1, b1, o1⟩ := allocMapOf_refine E es h
    obtain ⟨f2, b2, o2⟩ := ih (allocMapOf E h es).1
    obtain ⟨b1', o1', _⟩ := b1.frame f2
    simp only [allocMaps]
    refine ⟨f1.trans (f2.weaken f1.size_le), ?_, ?_⟩
    · intro x hx
      rcases List.mem_cons.mp hx with rfl | hx
      · exact b1'
      · exact b2 x hx
    · simp only [List.map_cons]
      rw [o2, o1', o1]

/-- every pool mesh bounded -/
def State.Bounded (s : State κ α) : Prop := ∀ r ∈ s.pool, r.Bounded s.heap

theorem MeshRep.Bounded.valid {h : Heap κ α} {r : MeshRep} (b : r.Bounded h) : r.Valid h :=
  ⟨b.1.valid, b.2.1.valid, fun m hm => by
    have bm := b.2.2 m hm
    cases m with
    | none => trivial
    | some i => exact ⟨bm.1, fun e he => (bm.2 e he).valid⟩⟩

theorem State.Bounded.valid {s : State κ α} (b : s.Bounded) : s.Valid := fun r hr => (b r hr).valid

theorem obsMap_kind (h : Heap κ α) (r : MeshRep) (kind : Nat) :
    obsMap h ((r.maps[kind]?).getD none) = (((obs h r).attrs)[kind]?).getD [] := by
  rw [obs_attrs, List.getElem?_map]
  cases r.maps[kind]? <;> rfl

theorem kind_B {h : Heap κ α} {r : MeshRep} (b : r.Bounded h) (kind : Nat) : MapRefB h ((r.maps[kind]?).getD none) := by
  cases hk : r.maps[kind]? with
  | none => trivial
  | some m => exact b.2.2 m (List.mem_of_getElem? hk)

theorem obs_setKind (h : Heap κ α) (r : MeshRep) (kind id : Nat) :
    (r.maps.set kind (some id)).map (obsMap h) = (r.maps.map (obsMap h)).set kind (obsMap h (some id)) := by
  rw [List.map_set]

theorem obs_mk (h : Heap κ α) (topo : Nat) (i m : Slice) (maps : List (Option Nat)) :
    obs h ⟨topo, i, m, maps⟩ = ⟨topo, h.read i, h.read m, maps.map (obsMap h)⟩ := rfl

theorem pool_get {s : State κ α} {m : Nat} {r : MeshRep} (h : s.pool[m]? = some r) :
    (s.pool.map (obs s.heap))[m]? = some (obs s.heap r) := by simp [h]

/-- obs of a mesh that shares everything with `r` except what is overridden, after a frame -/
theorem obs_after {h h' : Heap κ α} (f : Frame h.arrays.length h h') {r : MeshRep} (b : r.Bounded h) :
    h'.read r.indices = (obs h r).indices ∧ h'.read r.materials = (obs h r).materials ∧
      r.maps.map (obsMap h') = (obs h r).attrs :=
  ⟨read_frame_valid f b.1.valid, read_frame_valid f b.2.1.valid, (mapsB_frame f b.2.2).2⟩

theorem entries_insertErase {h h' : Heap κ α} (old : List (κ × Slice)) (name : κ) (d : Slice) (c : Prop) [Decidable c]
    (hr : ∀ e ∈ old, h'.read e.2 = h.read e.2) :
    (if c then erase (insert old name d) name else insert old name d).map (rd h')
      = (if c then eraseV (insertV (old.map (rd h)) name (h'.read d)) name else insertV (old.map (rd h)) name (h'.read d)) := by
  have hi : (insert old name d).map (rd h') = insertV (old.map (rd h)) name (h'.read d) := by
    rw [insert_eq, rd_eq_mp, rd_eq_mp]
    exact map_insertV_agree old name d h'.read h.read (fun e he _ => hr e he)
  split
  · rw [erase_eq, rd_eq_mp, eraseV_map, ← rd_eq_mp, hi]
  · exact hi

/-- **every operation of the current tree refines its pure meaning**: if the heap-level operation succeeds in a bounded
    state, the pure operation applied to the pool's observable values succeeds and returns exactly the observable
    values of the meshes returned -/
theorem apply_refines (E : Env α) {s : State κ α} (bs : s.Bounded) {op : Op κ α} (hc : op.current = true)
    {h' : Heap κ α} {rs : List MeshRep} (ha : op.apply E s = some (h', rs)) :
    pureOp E (s.pool.map (obs s.heap)) op = some (rs.map (obs h')) := by
  cases op with
  | newMesh topo idx isp mats msp attrs =>
    simp only [Op.apply, Option.some.injEq, Prod.mk.injEq] at ha
    obtain ⟨rfl, rfl⟩ := ha
    obtain ⟨f1, b1, r1⟩ := allocSlice_refine (κ := κ) E s.heap idx isp
    obtain ⟨f2, b2, r2⟩ := allocSlice_refine (κ := κ) E (allocSlice E s.heap idx isp).1 mats msp
    obtain ⟨f3, b3, o3⟩ := allocMaps_refine E attrs (allocSlice E (allocSlice E s.heap idx isp).1 mats msp).1
    simp only [pureOp, List.map_cons, List.map_nil, obs, Option.some.injEq, List.cons.injEq, and_true]
    rw [read_frame_valid f3 b2.valid, r2, read_frame_valid f3 (b1.frame_size f2).valid, read_frame_valid f2 b1.valid, r1]
    congr 1
    exact o3.symm
  | setIndices m idx sp =>
    simp only [Op.apply, Option.bind_eq_bind, Option.bind_eq_some_iff, Option.pure_def, Option.some.injEq, Prod.mk.injEq] at ha
    obtain ⟨r, hr, rfl, rfl⟩ := ha
    obtain ⟨f1, b1, r1⟩ := allocSlice_refine (κ := κ) E s.heap idx sp
    obtain ⟨_, e2, e3⟩ := obs_after f1 (bs r (List.mem_of_getElem? hr))
    simp only [pureOp, pool_get hr, Option.bind_eq_bind, Option.bind_some, Option.pure_def, List.map_cons, List.map_nil,
      Option.some.injEq, List.cons.injEq, and_true]
    refine Eq.trans ?_ (obs_mk _ _ _ _ _).symm
    rw [r1, e2, e3]
    rfl
  | setMaterials m mats sp =>
    simp only [Op.apply, Option.bind_eq_bind, Option.bind_eq_some_iff, Option.pure_def, Option.some.injEq, Prod.mk.injEq] at ha
    obtain ⟨r, hr, rfl, rfl⟩ := ha
    obtain ⟨f1, b1, r1⟩ := allocSlice_refine (κ := κ) E s.heap mats sp
    obtain ⟨e1, _, e3⟩ := obs_after f1 (bs r (List.mem_of_getElem? hr))
    simp only [pureOp, pool_get hr, Option.bind_eq_bind, Option.bind_some, Option.pure_def, List.map_cons, List.map_nil,
      Option.some.injEq, List.cons.injEq, and_true]
    refine Eq.trans ?_ (obs_mk _ _ _ _ _).symm
    rw [r1, e1, e3]
    rfl
  | shareMaterials m src =>
    simp only [Op.apply, Option.bind_eq_bind, Option.bind_eq_some_iff, Option.pure_def, Option.some.injEq, Prod.mk.injEq] at ha
    obtain ⟨r, hr, q, hq, rfl, rfl⟩ := ha
    simp only [pureOp, pool_get hr, pool_get hq, Option.bind_eq_bind, Option.bind_some, Option.pure_def, List.map_cons,
      List.map_nil]
    rfl
  | toPointCloud m pt n =>
    simp only [Op.apply, Option.bind_eq_bind, Option.bind_eq_some_iff, Option.pure_def] at ha
    obtain ⟨r, hr, ha⟩ := ha
    have br := bs r (List.mem_of_getElem? hr)
    simp only [pureOp, pool_get hr, Option.bind_eq_bind, Option.bind_some, Option.pure_def]
    have ht : (obs s.heap r).topo = r.topo := rfl
    rw [ht]
    split at ha
    · rename_i hpt
      simp only [Option.some.injEq, Prod.mk.injEq] at ha
      obtain ⟨rfl, rfl⟩ := ha
      simp [hpt]
    · rename_i hpt
      simp only [Option.some.injEq, Prod.mk.injEq] at ha
      obtain ⟨rfl, rfl⟩ := ha
      obtain ⟨f1, b1, r1⟩ := allocSlice_refine (κ := κ) E s.heap ((List.range n).map E.ident) 0
      obtain ⟨_, e2, e3⟩ := obs_after f1 br
      simp only [hpt, if_false, List.map_cons, List.map_nil, Option.some.injEq, List.cons.injEq, and_true]
      refine Eq.trans ?_ (obs_mk _ _ _ _ _).symm
      rw [r1, e2, e3]
  | clearAttrs m =>
    simp only [Op.apply, Option.bind_eq_bind, Option.bind_eq_some_iff, Option.pure_def, Option.some.injEq, Prod.mk.injEq] at ha
    obtain ⟨r, hr, rfl, rfl⟩ := ha
    simp only [pureOp, pool_get hr, Option.bind_eq_bind, Option.bind_some, Option.pure_def, List.map_cons, List.map_nil,
      Option.some.injEq, List.cons.injEq, and_true]
    refine Eq.trans ?_ (obs_mk _ _ _ _ _).symm
    rw [List.map_map, obs_attrs, List.map_map]
    rfl
  | setData m kind es =>
    simp only [Op.apply, Option.bind_eq_bind, Option.bind_eq_some_iff, Option.pure_def, Option.some.injEq, Prod.mk.injEq] at ha
    obtain ⟨r, hr, rfl, rfl⟩ := ha
    obtain ⟨f1, b1, o1⟩ := allocMapOf_refine E es s.heap
    obtain ⟨e1, e2, e3⟩ := obs_after f1 (bs r (List.mem_of_getElem? hr))
    simp only [pureOp, pool_get hr, Option.bind_eq_bind, Option.bind_some, Option.pure_def, List.map_cons, List.map_nil,
      Option.some.injEq, List.cons.injEq, and_true]
    refine Eq.trans ?_ (obs_mk _ _ _ _ _).symm
    simp only [setKind]
    rw [e1, e2, obs_setKind, e3, o1]
    rfl
  | setAttr m kind name data sp =>
    simp only [Op.apply, Option.bind_eq_bind, Option.bind_eq_some_iff, Option.pure_def, Option.some.injEq, Prod.mk.injEq] at ha
    obtain ⟨r, hr, rfl, rfl⟩ := ha
    have br := bs r (List.mem_of_getElem? hr)
    obtain ⟨f1, b1, r1⟩ := allocSlice_refine (κ := κ) E s.heap data sp
    have bk := kind_B br kind
    have bold : ∀ e ∈ s.heap.mapEntries ((r.maps[kind]?).getD none), BoundedS (allocSlice E s.heap data sp).1 e.2 :=
      fun e he => (bk.entries e he).frame_size f1
    have hrd : ∀ e ∈ s.heap.mapEntries ((r.maps[kind]?).getD none),
        (allocSlice E s.heap data sp).1.read e.2 = s.heap.read e.2 :=
      fun e he => read_frame_valid f1 (bk.entries e he).valid
    have hes := entries_insertErase (h := s.heap) (h' := (allocSlice E s.heap data sp).1) _ name
      (allocSlice E s.heap data sp).2 (data.length = 0) hrd
    have bes : ∀ e ∈ (if data.length = 0 then erase (insert (s.heap.mapEntries ((r.maps[kind]?).getD none)) name
          (allocSlice E s.heap data sp).2) name
        else insert (s.heap.mapEntries ((r.maps[kind]?).getD none)) name (allocSlice E s.heap data sp).2),
        BoundedS (allocSlice E s.heap data sp).1 e.2 := by
      intro e he
      have : e ∈ insert (s.heap.mapEntries ((r.maps[kind]?).getD none)) name (allocSlice E s.heap data sp).2 := by
        split at he
        · exact mem_erase he
        · exact he
      rcases mem_insert this with h1 | h1
      · exact bold e h1
      · subst h1; exact b1
    obtain ⟨mb, mo⟩ := allocMap_refine bes
    have f2 := f1.trans (frame_allocMap f1.base_le' (if data.length = 0 then
        erase (insert (s.heap.mapEntries ((r.maps[kind]?).getD none)) name (allocSlice E s.heap data sp).2) name
      else insert (s.heap.mapEntries ((r.maps[kind]?).getD none)) name (allocSlice E s.heap data sp).2))
    obtain ⟨e1, e2, e3⟩ := obs_after f2 br
    simp only [pureOp, pool_get hr, Option.bind_eq_bind, Option.bind_some, Option.pure_def, List.map_cons, List.map_nil,
      Option.some.injEq, List.cons.injEq, and_true]
    refine Eq.trans ?_ (obs_mk _ _ _ _ _).symm
    simp only [setKind]
    rw [e1, e2, obs_setKind, e3, mo, hes, r1, ← obsMap_kind]
    rfl
  | copyAttr m src kind name =>
    simp only [Op.apply, Option.bind_eq_bind, Option.bind_eq_some_iff, Option.pure_def, Option.some.injEq, Prod.mk.injEq] at ha
    obtain ⟨r, hr, q, hq, rfl, rfl⟩ := ha
    have br := bs r (List.mem_of_getElem? hr)
    have bq := bs q (List.mem_of_getElem? hq)
    have bk := kind_B br kind
    have bqk := kind_B bq kind
    -- the copied slice
    have hd : BoundedS s.heap ((lookup (s.heap.mapEntries ((q.maps[kind]?).getD none)) name).getD Slice.nil) ∧
        s.heap.read ((lookup (s.heap.mapEntries ((q.maps[kind]?).getD none)) name).getD Slice.nil)
          = (lookupV (obsMap s.heap ((q.maps[kind]?).getD none)) name).getD [] := by
      unfold obsMap
      rw [rd_eq_mp, lookupV_map, ← lookup_eq]
      cases hl : lookup (s.heap.mapEntries ((q.maps[kind]?).getD none)) name with
      | none => exact ⟨nil_bounded _, read_nil _⟩
      | some c =>
        obtain ⟨e, he, rfl⟩ := lookup_mem hl
        exact ⟨bqk.entries e he, rfl⟩
    generalize (lookup (s.heap.mapEntries ((q.maps[kind]?).getD none)) name).getD Slice.nil = d at hd ⊢
    obtain ⟨bd, rdd⟩ := hd
    have hes := entries_insertErase (h := s.heap) (h' := s.heap) (s.heap.mapEntries ((r.maps[kind]?).getD none)) name d
      (d.len = 0) (fun _ _ => rfl)
    have bes : ∀ e ∈ (if d.len = 0 then erase (insert (s.heap.mapEntries ((r.maps[kind]?).getD none)) name d) name
        else insert (s.heap.mapEntries ((r.maps[kind]?).getD none)) name d), BoundedS s.heap e.2 := by
      intro e he
      have : e ∈ insert (s.heap.mapEntries ((r.maps[kind]?).getD none)) name d := by
        split at he
        · exact mem_erase he
        · exact he
      rcases mem_insert this with h1 | h1
      · exact bk.entries e h1
      · subst h1; exact bd
    obtain ⟨mb, mo⟩ := allocMap_refine bes
    have f2 := frame_allocMap (Nat.le_refl s.heap.arrays.length) (if d.len = 0 then
        erase (insert (s.heap.mapEntries ((r.maps[kind]?).getD none)) name d) name
      else insert (s.heap.mapEntries ((r.maps[kind]?).getD none)) name d)
    obtain ⟨e1, e2, e3⟩ := obs_after f2 br
    simp only [pureOp, pool_get hr, pool_get hq, Option.bind_eq_bind, Option.bind_some, Option.pure_def, List.map_cons,
      List.map_nil, Option.some.injEq, List.cons.injEq, and_true]
    refine Eq.trans ?_ (obs_mk _ _ _ _ _).symm
    simp only [setKind]
    rw [e1, e2, obs_setKind, e3, mo, hes, rdd, ← obsMap_kind s.heap r kind, ← obsMap_kind s.heap q kind]
    have hlen : (d.len = 0) = (((lookupV (obsMap s.heap ((q.maps[kind]?).getD none)) name).getD []).length = 0) := by
      rw [← rdd, bd.read_length]
    simp only [hlen]
    rfl
  | rebuild m topo idx isp attrs mm =>
    simp only [Op.apply, Option.bind_eq_bind, Option.bind_eq_some_iff, Option.pure_def, Option.some.injEq, Prod.mk.injEq] at ha
    obtain ⟨r, hr, rfl, rfl⟩ := ha
    have br := bs r (List.mem_of_getElem? hr)
    obtain ⟨f1, b1, r1⟩ := allocSlice_refine (κ := κ) E s.heap idx isp
    obtain ⟨f2, b2, o2⟩ := allocMaps_refine E attrs (allocSlice E s.heap idx isp).1
    obtain ⟨_, e2, _⟩ := obs_after (f1.trans (f2.weaken f1.size_le)) br
    simp only [pureOp, pool_get hr, Option.bind_eq_bind, Option.bind_some, Option.pure_def, List.map_cons, List.map_nil,
      Option.some.injEq, List.cons.injEq, and_true]
    refine Eq.trans ?_ (obs_mk _ _ _ _ _).symm
    rw [read_frame_valid f2 b1.valid, r1, o2]
    cases mm with
    | share => simp only; rw [e2]
    | drop => simp only; rw [read_nil]
  | readOnly m =>
    simp only [Op.apply, Option.bind_eq_bind, Option.bind_eq_some_iff, Option.pure_def, Option.some.injEq, Prod.mk.injEq] at ha
    obtain ⟨r, hr, rfl, rfl⟩ := ha
    simp [pureOp, pool_get hr]
  | append m o aLen bLen =>
    simp only [Op.apply, Option.bind_eq_bind, Option.bind_eq_some_iff, Option.pure_def, Option.some.injEq, Prod.mk.injEq] at ha
    obtain ⟨r, hr, q, hq, x, hx, rfl, rfl⟩ := ha
    have := appendCopy_refine E (bs r (List.mem_of_getElem? hr)) (bs q (List.mem_of_getElem? hq)) aLen bLen
    rw [hx] at this
    simp only [pureOp, pool_get hr, pool_get hq, Option.bind_eq_bind, Option.bind_some, Option.pure_def, ← this]
    rfl
  | appendOld m o aLen bLen => simp [Op.current] at hc

end

end MeshHeap
end PolyVerif
