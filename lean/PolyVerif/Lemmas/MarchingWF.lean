import PolyVerif.Model.Marching
import PolyVerif.Lemmas.MeshWF3

namespace PolyVerif.March
open PolyVerif.Mesh PolyVerif.Mesh.MeshVal
variable {V K : Type} [DecidableEq K]

/-- the `LookupOrAdd` invariant -/
def Inv (w : Working V K) : Prop :=
  (∀ e ∈ w.lookup, e.2 < w.verts.length) ∧ (∀ i ∈ w.tris, i < w.verts.length) ∧ w.tris.length % 3 = 0

theorem lookupOrAdd_inv (key : V → K) {w : Working V K} (h : Inv w) (v : V) :
    Inv (lookupOrAdd key w v).1 ∧ (lookupOrAdd key w v).2 < (lookupOrAdd key w v).1.verts.length ∧
    w.verts.length ≤ (lookupOrAdd key w v).1.verts.length ∧ (lookupOrAdd key w v).1.tris = w.tris := by
  unfold lookupOrAdd
  split
  · rename_i e he
    exact ⟨h, h.1 e (List.mem_of_find?_eq_some he), Nat.le_refl _, rfl⟩
  · refine ⟨⟨?_, ?_, h.2.2⟩, by simp, by simp, rfl⟩
    · intro e he
      simp only [List.mem_append, List.mem_singleton] at he
      rcases he with he | rfl
      · have := h.1 e he; simp; omega
      · simp
    · intro i hi
      have := h.2.1 i hi; simp; omega

theorem addTri_inv (key : V → K) {w : Working V K} (h : Inv w) (t : V × V × V) : Inv (addTri key w t) := by
  unfold addTri
  obtain ⟨h1, a1, l1, t1⟩ := lookupOrAdd_inv key h t.1
  obtain ⟨h2, a2, l2, t2⟩ := lookupOrAdd_inv key h1 t.2.1
  obtain ⟨h3, a3, l3, t3⟩ := lookupOrAdd_inv key h2 t.2.2
  dsimp only
  refine ⟨h3.1, ?_, ?_⟩
  · intro i hi
    show i < (lookupOrAdd key (lookupOrAdd key (lookupOrAdd key w t.1).1 t.2.1).1 t.2.2).1.verts.length
    simp only [List.mem_append, List.mem_cons, List.not_mem_nil, or_false] at hi
    rcases hi with hi | rfl | rfl | rfl
    · exact h3.2.1 i hi
    · omega
    · omega
    · exact a3
  · have := h3.2.2
    simp only [List.length_append, List.length_cons, List.length_nil]; omega

theorem marchBlock_inv (key : V → K) (ts : List (V × V × V)) : Inv (marchBlock key ts) := by
  unfold marchBlock
  suffices hgen : ∀ (w : Working V K), Inv w → Inv (ts.foldl (addTri key) w) from
    hgen _ ⟨by simp, by simp, by simp⟩
  induction ts with
  | nil => intro w hw; exact hw
  | cons t ts ih => intro w hw; exact ih _ (addTri_inv key hw t)

theorem blockMesh_wf (key : V → K) (attr : AttrKey) (ts : List (V × V × V)) :
    WF (blockMesh attr (marchBlock key ts)) := by
  have h := marchBlock_inv key ts
  refine ⟨?_, ?_, ?_⟩
  · intro kd hk; simp only [blockMesh, List.mem_singleton] at hk; subst hk; simp [blockMesh, attrLen]
  · intro i hi; simpa [blockMesh, attrLen] using h.2.1 i hi
  · exact h.2.2

end PolyVerif.March
