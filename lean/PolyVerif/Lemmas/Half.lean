/-
  Lemmas about `Spz.halfToFloat` (Model/Spz.lean, the transcription of /repo/formats/spz/util.go that the
  C15 driver runs for every version-1 position) for Props/C15Half: bit fields on `BitVec 16`, the value as
  an integer numerator over 2^25, consecutive patterns, monotonicity, and a reference round-to-nearest-even
  encoder (the repository has no float → half encoder: `spz.Write` writes a header only).
-/
import PolyVerif.Model.SpzHalf
import PolyVerif.Lemmas.RealScalar
import Mathlib.Tactic

namespace PolyVerif
namespace Half
open Spz Scalar

/-! ### bit fields (definitions in Model/SpzHalf.lean) -/

/-- `signMul` -/
def sgnR (h : Nat) : ℝ := if h / 32768 % 2 = 1 then -1 else 1

theorem exp_bits (h : BitVec 16) : ((h >>> 10) &&& 0x1f#16).toNat = h.toNat / 1024 % 32 := by
  rw [BitVec.toNat_and, BitVec.toNat_ushiftRight, Nat.shiftRight_eq_div_pow]
  exact Nat.and_two_pow_sub_one_eq_mod _ 5

theorem man_bits (h : BitVec 16) : (h &&& 0x3ff#16).toNat = h.toNat % 1024 := by
  rw [BitVec.toNat_and]
  exact Nat.and_two_pow_sub_one_eq_mod _ 10

theorem sign_bits (h : BitVec 16) : ((h >>> 15) &&& 0x1#16).toNat = h.toNat / 32768 % 2 := by
  rw [BitVec.toNat_and, BitVec.toNat_ushiftRight, Nat.shiftRight_eq_div_pow]
  exact Nat.and_two_pow_sub_one_eq_mod _ 1

theorem msb_bits (h : BitVec 16) : h.msb = decide (h.toNat / 32768 % 2 = 1) := by
  rw [BitVec.msb_eq_decide]; have := h.isLt; congr 1; simp only [eq_iff_iff]; omega

theorem exp_field (h : BitVec 16) : (h.extractLsb' 10 5).toNat = h.toNat / 1024 % 32 := by
  rw [BitVec.extractLsb'_toNat, Nat.shiftRight_eq_div_pow]

theorem man_field (h : BitVec 16) : (h.extractLsb' 0 10).toNat = h.toNat % 1024 := by
  rw [BitVec.extractLsb'_toNat, Nat.shiftRight_eq_div_pow]; simp

/-- the operator form and the div/mod form (the one the driver runs) are the same function -/
theorem halfToFloatBits_eq {α : Type} [Scalar α] (E : Env α) (h : BitVec 16) :
    halfToFloatBits E h = halfToFloat E h.toNat := by
  have e1 : ((h >>> 10) &&& 0x1f#16 = 0#16) ↔ h.toNat / 1024 % 32 = 0 := by
    rw [← BitVec.toNat_inj, exp_bits]; rfl
  have e2 : ((h >>> 10) &&& 0x1f#16 = 31#16) ↔ h.toNat / 1024 % 32 = 31 := by
    rw [← BitVec.toNat_inj, exp_bits]; rfl
  have e3 : ((h >>> 15) &&& 0x1#16 = 1#16) ↔ h.toNat / 32768 % 2 = 1 := by
    rw [← BitVec.toNat_inj, sign_bits]; rfl
  have e4 : (h &&& 0x3ff#16 = 0#16) ↔ h.toNat % 1024 = 0 := by
    rw [← BitVec.toNat_inj, man_bits]; rfl
  simp only [halfToFloatBits, halfToFloat, e1, e2, e3, ne_eq, e4, exp_bits, man_bits]

/-! ### the value of a finite pattern as an integer over 2^25 -/

/-- the arithmetic of the decoder at ℝ: `math.Pow(2.0, k)` is the real power -/
def RealEnv (E : Env ℝ) : Prop := ∀ k : Int, E.pow2 k = (2 : ℝ) ^ k

theorem halfToFloat_finite (E : Env ℝ) (hE : RealEnv E) (h : Nat) (he : expOf h ≠ 31) :
    halfToFloat E h = sgnR h * ((num h : ℝ) / 2 ^ 25) := by
  unfold halfToFloat
  simp only [natF, Nat.cast_one, Nat.cast_ofNat]
  unfold expOf at he
  by_cases h0 : h / 1024 % 32 = 0
  · simp only [h0, if_true, num, expOf, manOf, sgnR]
    rw [hE, show ((-14 : ℤ)) = -((14 : ℕ) : ℤ) by norm_num, zpow_neg, zpow_natCast]
    split_ifs <;> · push_cast; ring
  · simp only [h0, he, if_false, num, expOf, manOf, sgnR]
    rw [hE, zpow_sub₀ (by norm_num : (2 : ℝ) ≠ 0), zpow_natCast,
      show ((15 : ℤ)) = ((15 : ℕ) : ℤ) by norm_num, zpow_natCast]
    split_ifs <;> · push_cast; field_simp; ring

theorem expOf_lt (h : Nat) (hh : h < 32768) : expOf h = h / 1024 := by unfold expOf; omega

/-- exponent of the unit in the last place (over 2^25): `max e 1` -/
def ulpExp (h : Nat) : Nat := max (expOf h) 1

/-- consecutive non-negative finite patterns differ by exactly one unit in the last place of the lower one -/
theorem num_succ (h : Nat) (hh : h + 1 < 31744) : num (h + 1) = num h + 2 ^ ulpExp h := by
  have e1 := expOf_lt h (by omega)
  have e2 := expOf_lt (h + 1) (by omega)
  unfold ulpExp num manOf
  rw [e1, e2]
  by_cases hm : h % 1024 = 1023
  · have a : (h + 1) / 1024 = h / 1024 + 1 := by omega
    have b : (h + 1) % 1024 = 0 := by omega
    rw [a, b, hm]
    by_cases h0 : h / 1024 = 0
    · simp [h0]
    · simp only [Nat.add_eq_zero_iff, one_ne_zero, and_false, if_false, h0, Nat.add_zero]
      rw [Nat.max_eq_left (by omega)]; ring
  · have a : (h + 1) / 1024 = h / 1024 := by omega
    have b : (h + 1) % 1024 = h % 1024 + 1 := by omega
    rw [a, b]
    by_cases h0 : h / 1024 = 0
    · simp only [h0, if_true]; norm_num; ring
    · simp only [h0, if_false]
      rw [Nat.max_eq_left (by omega)]; ring

theorem num_lt_succ (h : Nat) (hh : h + 1 < 31744) : num h < num (h + 1) := by
  rw [num_succ h hh]; exact Nat.lt_add_of_pos_right (Nat.pow_pos (by norm_num))

/-- strictly increasing on the non-negative finite patterns `0 … 0x7bff` -/
theorem num_strictMono {a b : Nat} (hab : a < b) (hb : b < 31744) : num a < num b := by
  induction b with
  | zero => omega
  | succ b ih =>
    rcases Nat.lt_succ_iff_lt_or_eq.mp hab with h | h
    · exact lt_trans (ih h (by omega)) (num_lt_succ b hb)
    · subst h; exact num_lt_succ a hb

theorem num_mono {a b : Nat} (hab : a ≤ b) (hb : b < 31744) : num a ≤ num b := by
  rcases Nat.lt_or_eq_of_le hab with h | h
  · exact (num_strictMono h hb).le
  · subst h; exact le_refl _

theorem num_injective {a b : Nat} (ha : a < 31744) (hb : b < 31744) (h : num a = num b) : a = b := by
  rcases Nat.lt_trichotomy a b with l | e | g
  · exact absurd h (Nat.ne_of_lt (num_strictMono l hb))
  · exact e
  · exact absurd h.symm (Nat.ne_of_lt (num_strictMono g ha))

theorem ulpExp_mono {a b : Nat} (hab : a ≤ b) (hb : b < 32768) : ulpExp a ≤ ulpExp b := by
  unfold ulpExp
  rw [expOf_lt a (by omega), expOf_lt b hb]
  have := Nat.div_le_div_right (c := 1024) hab
  omega

theorem num_zero : num 0 = 0 := by decide
theorem num_max : num 31743 = 65504 * 2 ^ 25 := by decide

/-- every finite magnitude has an 11-bit significand: `num h = s·2^k` with `s < 2^11`, `1 ≤ k ≤ 30` -/
theorem num_dyadic (h : Nat) (he : expOf h ≠ 31) :
    ∃ s k : Nat, s < 2 ^ 11 ∧ 1 ≤ k ∧ k ≤ 30 ∧ num h = s * 2 ^ k := by
  have hm : manOf h < 1024 := Nat.mod_lt _ (by norm_num)
  have hx : expOf h < 32 := Nat.mod_lt _ (by norm_num)
  unfold num
  by_cases h0 : expOf h = 0
  · exact ⟨manOf h, 1, by omega, le_refl _, by norm_num, by simp [h0]⟩
  · exact ⟨1024 + manOf h, expOf h, by omega, by omega, by omega, by simp [h0]⟩

/-! ### magnitudes as reals, reference encoder (round to nearest, ties to the even pattern) -/

/-- magnitude of a non-negative finite pattern -/
noncomputable def val (h : Nat) : ℝ := (num h : ℝ) / 2 ^ 25

theorem val_zero : val 0 = 0 := by simp [val, num_zero]
theorem val_max : val 31743 = 65504 := by rw [val, num_max]; norm_num

theorem val_mono {a b : Nat} (hab : a ≤ b) (hb : b < 31744) : val a ≤ val b := by
  unfold val; gcongr; exact num_mono hab hb

theorem val_strictMono {a b : Nat} (hab : a < b) (hb : b < 31744) : val a < val b := by
  unfold val; gcongr; exact num_strictMono hab hb

theorem val_succ (h : Nat) (hh : h + 1 < 31744) : val (h + 1) = val h + 2 ^ ulpExp h / 2 ^ 25 := by
  unfold val; rw [num_succ h hh]; push_cast; ring

/-- value of the first pattern of binade `e` (1 ≤ e): `2^e·1024 / 2^25 = 2^(e−15)` -/
theorem val_binade (e : Nat) (h1 : 1 ≤ e) (h2 : e ≤ 30) : val (e * 1024) = 2 ^ e / 2 ^ 15 := by
  have a : expOf (e * 1024) = e := by unfold expOf; omega
  have b : manOf (e * 1024) = 0 := by unfold manOf; omega
  unfold val num
  rw [a, b, if_neg (by omega)]
  push_cast; ring

open Classical in
/-- the greatest non-negative finite pattern whose value is `≤ x` (pattern 0 when there is none) -/
noncomputable def floorPat (x : ℝ) : Nat := Nat.findGreatest (fun k => val k ≤ x) 31743

open Classical in
/-- reference encoder for magnitudes: the nearer of the two neighbouring patterns, ties to the even pattern
    (IEEE roundTiesToEven on `0 ≤ x ≤ 65504`; beyond the largest finite value it saturates, which is why the
    theorems carry the range as a guard) -/
noncomputable def encodeMag (x : ℝ) : Nat :=
  let h := floorPat x
  if h = 31743 then h else
  let lo := x - val h
  let hi := val (h + 1) - x
  if lo < hi then h else if hi < lo then h + 1 else if h % 2 = 0 then h else h + 1

/-- reference float → half encoder -/
noncomputable def encode (x : ℝ) : Nat := if x < 0 then 32768 + encodeMag (-x) else encodeMag x

theorem floorPat_le (x : ℝ) : floorPat x ≤ 31743 := Nat.findGreatest_le _

theorem floorPat_val_le (x : ℝ) (hx : 0 ≤ x) : val (floorPat x) ≤ x := by
  classical
  exact Nat.findGreatest_spec (P := fun k => val k ≤ x) (Nat.zero_le 31743) (by simpa [val_zero] using hx)

theorem lt_val_floorPat_succ (x : ℝ) (h : floorPat x < 31743) : x < val (floorPat x + 1) := by
  classical
  have := Nat.findGreatest_is_greatest (P := fun k => val k ≤ x) (n := 31743) (k := floorPat x + 1)
    (Nat.lt_succ_self _) (by omega)
  exact lt_of_not_ge this

theorem le_floorPat (x : ℝ) (k : Nat) (hk : k ≤ 31743) (h : val k ≤ x) : k ≤ floorPat x := by
  classical
  exact Nat.le_findGreatest (P := fun k => val k ≤ x) hk h

theorem floorPat_val (h : Nat) (hh : h ≤ 31743) : floorPat (val h) = h := by
  apply le_antisymm
  · by_contra hc
    have hlt : h < floorPat (val h) := by omega
    have := val_strictMono hlt (by have := floorPat_le (val h); omega)
    have h2 := floorPat_val_le (val h) (by unfold val; positivity)
    linarith
  · exact le_floorPat _ h hh (le_refl _)

/-- what the encoder returns: one of the two neighbours, and the distance is the smaller of the two -/
theorem encodeMag_spec (x : ℝ) (hx : 0 ≤ x) (_hx2 : x ≤ 65504) :
    (encodeMag x = floorPat x ∨ (encodeMag x = floorPat x + 1 ∧ floorPat x < 31743)) ∧
    |val (encodeMag x) - x| ≤ x - val (floorPat x) ∧
    (floorPat x < 31743 → |val (encodeMag x) - x| ≤ val (floorPat x + 1) - x) := by
  have hlo := floorPat_val_le x hx
  by_cases hm : floorPat x = 31743
  · have e : encodeMag x = floorPat x := by simp only [encodeMag, hm, if_true]
    rw [e]
    refine ⟨Or.inl rfl, ?_, fun h => by omega⟩
    rw [abs_sub_comm, abs_of_nonneg (by linarith)]
  · have hlt : floorPat x < 31743 := by have := floorPat_le x; omega
    have hhi := lt_val_floorPat_succ x hlt
    have hcase : encodeMag x = floorPat x ∧ x - val (floorPat x) ≤ val (floorPat x + 1) - x ∨
        encodeMag x = floorPat x + 1 ∧ val (floorPat x + 1) - x ≤ x - val (floorPat x) := by
      simp only [encodeMag, hm, if_false]
      split_ifs with c1 c2 c3
      · exact Or.inl ⟨rfl, c1.le⟩
      · exact Or.inr ⟨rfl, c2.le⟩
      · exact Or.inl ⟨rfl, not_lt.mp c2⟩
      · exact Or.inr ⟨rfl, not_lt.mp c1⟩
    rcases hcase with ⟨e, c⟩ | ⟨e, c⟩
    · rw [e]
      have : |val (floorPat x) - x| = x - val (floorPat x) := by
        rw [abs_sub_comm, abs_of_nonneg (by linarith)]
      exact ⟨Or.inl rfl, this.le, fun _ => by rw [this]; exact c⟩
    · rw [e]
      have : |val (floorPat x + 1) - x| = val (floorPat x + 1) - x := abs_of_nonneg (by linarith)
      exact ⟨Or.inr ⟨rfl, hlt⟩, by rw [this]; exact c, fun _ => this.le⟩

theorem encodeMag_le (x : ℝ) (hx : 0 ≤ x) (hx2 : x ≤ 65504) : encodeMag x ≤ 31743 := by
  rcases (encodeMag_spec x hx hx2).1 with e | ⟨e, l⟩
  · rw [e]; exact floorPat_le x
  · omega

/-- nearest: no non-negative finite pattern is closer to `x` -/
theorem encodeMag_nearest (x : ℝ) (hx : 0 ≤ x) (hx2 : x ≤ 65504) (k : Nat) (hk : k ≤ 31743) :
    |val (encodeMag x) - x| ≤ |val k - x| := by
  obtain ⟨_, h1, h2⟩ := encodeMag_spec x hx hx2
  by_cases c : k ≤ floorPat x
  · have := val_mono c (by have := floorPat_le x; omega)
    have h3 := floorPat_val_le x hx
    have e : |val k - x| = x - val k := by rw [abs_sub_comm, abs_of_nonneg (by linarith)]
    rw [e]; linarith
  · have hlt : floorPat x < 31743 := by omega
    have := val_mono (show floorPat x + 1 ≤ k by omega) (by omega)
    have h3 := lt_val_floorPat_succ x hlt
    have e : |val k - x| = val k - x := abs_of_nonneg (by linarith)
    rw [e]; linarith [h2 hlt]

/-- half a unit in the last place of the bracket's lower end -/
theorem encodeMag_half_ulp (x : ℝ) (hx : 0 ≤ x) (hx2 : x ≤ 65504) :
    |val (encodeMag x) - x| ≤ 2 ^ ulpExp (floorPat x) / 2 ^ 26 := by
  obtain ⟨_, h1, h2⟩ := encodeMag_spec x hx hx2
  by_cases hm : floorPat x = 31743
  · have h3 := floorPat_val_le x hx
    rw [hm, val_max] at h3
    have : x - val (floorPat x) = 0 := by rw [hm, val_max]; linarith
    rw [this] at h1
    exact le_trans h1 (by positivity)
  · have hlt : floorPat x < 31743 := by have := floorPat_le x; omega
    have h4 := h2 hlt
    rw [val_succ _ (by omega)] at h4
    have : (2 : ℝ) ^ ulpExp (floorPat x) / 2 ^ 26 = 2 ^ ulpExp (floorPat x) / 2 ^ 25 / 2 := by ring
    rw [this]
    linarith

/-- the encoder is a left inverse of the decoder on `0 … 0x7bff`: a half is reproduced exactly -/
theorem encodeMag_val (h : Nat) (hh : h ≤ 31743) : encodeMag (val h) = h := by
  have hf := floorPat_val h hh
  unfold encodeMag
  simp only [hf]
  by_cases hm : h = 31743
  · simp [hm]
  · simp only [hm, if_false, sub_self]
    have := val_strictMono (Nat.lt_succ_self h) (by omega)
    rw [if_pos (by linarith)]

/-- normal range: the relative error is at most `2^-11` -/
theorem encodeMag_relative (x : ℝ) (hx : 1 / 2 ^ 14 ≤ x) (hx2 : x ≤ 65504) :
    |val (encodeMag x) - x| ≤ x / 2 ^ 11 := by
  have hx0 : 0 ≤ x := le_trans (by positivity) hx
  have hb := encodeMag_half_ulp x hx0 hx2
  have hfl := floorPat_le x
  have h1024 : 1024 ≤ floorPat x := by
    apply le_floorPat x 1024 (by norm_num)
    have := val_binade 1 (le_refl _) (by norm_num)
    simp only [one_mul] at this
    rw [this]; norm_num at hx ⊢; linarith
  have he : expOf (floorPat x) = floorPat x / 1024 := expOf_lt _ (by omega)
  have he1 : 1 ≤ expOf (floorPat x) := by rw [he]; omega
  have he2 : expOf (floorPat x) ≤ 30 := by rw [he]; omega
  have hu : ulpExp (floorPat x) = expOf (floorPat x) := by unfold ulpExp; omega
  have hv := val_binade (expOf (floorPat x)) he1 he2
  have hle : val (expOf (floorPat x) * 1024) ≤ val (floorPat x) :=
    val_mono (by rw [he]; omega) (by omega)
  have h3 := floorPat_val_le x hx0
  rw [hu] at hb
  rw [hv] at hle
  calc |val (encodeMag x) - x| ≤ 2 ^ expOf (floorPat x) / 2 ^ 26 := hb
    _ = 2 ^ expOf (floorPat x) / 2 ^ 15 / 2 ^ 11 := by ring
    _ ≤ x / 2 ^ 11 := by gcongr; linarith

/-! ### sign -/

theorem fields_neg (h : Nat) (hh : h < 32768) :
    expOf (32768 + h) = expOf h ∧ manOf (32768 + h) = manOf h ∧ sgnR (32768 + h) = -1 ∧ sgnR h = 1 := by
  unfold expOf manOf sgnR
  refine ⟨by omega, by omega, ?_, ?_⟩
  · rw [if_pos (by omega)]
  · rw [if_neg (by omega)]

theorem num_neg (h : Nat) (hh : h < 32768) : num (32768 + h) = num h := by
  obtain ⟨a, b, _, _⟩ := fields_neg h hh
  unfold num; rw [a, b]

theorem halfToFloat_val (E : Env ℝ) (hE : RealEnv E) (h : Nat) (hh : h < 31744) : halfToFloat E h = val h := by
  have he : expOf h ≠ 31 := by rw [expOf_lt h (by omega)]; omega
  rw [halfToFloat_finite E hE h he, (fields_neg h (by omega)).2.2.2, one_mul]; rfl

theorem halfToFloat_neg_val (E : Env ℝ) (hE : RealEnv E) (h : Nat) (hh : h < 31744) :
    halfToFloat E (32768 + h) = -val h := by
  obtain ⟨a, _, c, _⟩ := fields_neg h (by omega)
  have he : expOf h ≠ 31 := by rw [expOf_lt h (by omega)]; omega
  rw [halfToFloat_finite E hE _ (by rw [a]; exact he), c, num_neg h (by omega)]
  unfold val; ring

/-- a finite 16-bit pattern is a non-negative finite pattern, possibly with the sign bit added -/
theorem finite_split (k : Nat) (hk : k < 65536) (he : expOf k ≠ 31) :
    k < 31744 ∨ ∃ k', k' < 31744 ∧ k = 32768 + k' := by
  unfold expOf at he
  by_cases c : k < 32768
  · left; omega
  · right; exact ⟨k - 32768, by omega, by omega⟩

theorem val_nonneg (h : Nat) : 0 ≤ val h := by unfold val; positivity

theorem encode_finite (x : ℝ) (hx : |x| ≤ 65504) : expOf (encode x) ≠ 31 := by
  unfold encode
  split_ifs with c
  · have := encodeMag_le (-x) (by linarith) (by rw [abs_of_neg c] at hx; exact hx)
    rw [(fields_neg _ (by omega)).1, expOf_lt _ (by omega)]; omega
  · have := encodeMag_le x (by linarith) (by rw [abs_of_nonneg (by linarith)] at hx; exact hx)
    rw [expOf_lt _ (by omega)]; omega

/-- the signed error is the error of the magnitude -/
theorem abs_decode_encode (E : Env ℝ) (hE : RealEnv E) (x : ℝ) (hx : |x| ≤ 65504) :
    |halfToFloat E (encode x) - x| = |val (encodeMag (_root_.abs x)) - _root_.abs x| := by
  unfold encode
  split_ifs with c
  · have hl := encodeMag_le (-x) (by linarith) (by rw [abs_of_neg c] at hx; exact hx)
    rw [halfToFloat_neg_val E hE _ (by omega), abs_of_neg c, ← abs_neg]
    congr 1; ring
  · have hl := encodeMag_le x (by linarith) (by rw [abs_of_nonneg (by linarith)] at hx; exact hx)
    rw [halfToFloat_val E hE _ (by omega), abs_of_nonneg (not_lt.mp c)]

theorem decode_nearest (E : Env ℝ) (hE : RealEnv E) (x : ℝ) (hx : |x| ≤ 65504) (k : Nat) (hk : k < 65536)
    (he : expOf k ≠ 31) : |halfToFloat E (encode x) - x| ≤ |halfToFloat E k - x| := by
  rw [abs_decode_encode E hE x hx]
  have key : ∃ k', k' ≤ 31743 ∧ |halfToFloat E k| = val k' := by
    rcases finite_split k hk he with c | ⟨k', c, e⟩
    · exact ⟨k, by omega, by rw [halfToFloat_val E hE k c, abs_of_nonneg (val_nonneg k)]⟩
    · exact ⟨k', by omega, by rw [e, halfToFloat_neg_val E hE k' c, abs_neg, abs_of_nonneg (val_nonneg k')]⟩
  obtain ⟨k', hk', e⟩ := key
  calc |val (encodeMag (_root_.abs x)) - _root_.abs x| ≤ |val k' - _root_.abs x| := encodeMag_nearest (_root_.abs x) (abs_nonneg x) hx k' hk'
    _ = |_root_.abs (halfToFloat E k) - _root_.abs x| := by rw [e]
    _ ≤ |halfToFloat E k - x| := abs_abs_sub_abs_le_abs_sub _ _

theorem encode_decode_id (E : Env ℝ) (hE : RealEnv E) (h : Nat) (hh : h < 65536) (he : expOf h ≠ 31)
    (hz : h ≠ 32768) : encode (halfToFloat E h) = h := by
  rcases finite_split h hh he with c | ⟨k', c, e⟩
  · rw [halfToFloat_val E hE h c]
    unfold encode
    rw [if_neg (not_lt.mpr (val_nonneg h)), encodeMag_val h (by omega)]
  · subst e
    have hk : 0 < k' := by omega
    have hp : 0 < val k' := by have := val_strictMono hk c; rwa [val_zero] at this
    rw [halfToFloat_neg_val E hE k' c]
    unfold encode
    rw [if_pos (by linarith), neg_neg, encodeMag_val k' (by omega)]

end Half
end PolyVerif
