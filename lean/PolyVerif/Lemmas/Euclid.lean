/-
  Bridge between the model's `V3 ℝ` (three named fields, sqrt of a sum of squares written out as
  in the Go vector package) and Mathlib's `EuclideanSpace ℝ (Fin 3)`, so that the triangle
  inequality, Cauchy–Schwarz and norm algebra are available for the SDF and tree theorems.
-/
import PolyVerif.Lemmas.RealScalar
import Mathlib.Analysis.InnerProductSpace.PiL2
import Mathlib.Tactic

namespace PolyVerif
open Real

abbrev E3 := EuclideanSpace ℝ (Fin 3)

@[ext] theorem V3.extR {a b : V3 ℝ} (hx : a.x = b.x) (hy : a.y = b.y) (hz : a.z = b.z) : a = b := by
  cases a; cases b; simp_all

/-- the vector of `EuclideanSpace ℝ (Fin 3)` with the same coordinates -/
noncomputable def toE (v : V3 ℝ) : E3 := !₂[v.x, v.y, v.z]

@[simp] theorem toE_apply0 (v : V3 ℝ) : toE v 0 = v.x := rfl
@[simp] theorem toE_apply1 (v : V3 ℝ) : toE v 1 = v.y := rfl
@[simp] theorem toE_apply2 (v : V3 ℝ) : toE v 2 = v.z := rfl

theorem toE_sub (a b : V3 ℝ) : toE (a.Sub b) = toE a - toE b := by
  ext i; fin_cases i <;> simp [toE, V3.Sub]

theorem toE_add (a b : V3 ℝ) : toE (a.Add b) = toE a + toE b := by
  ext i; fin_cases i <;> simp [toE, V3.Add]

theorem toE_scale (a : V3 ℝ) (t : ℝ) : toE (a.Scale t) = t • toE a := by
  ext i; fin_cases i <;> simp [toE, V3.Scale, mul_comm]

theorem norm_toE (v : V3 ℝ) : ‖toE v‖ = v.Length := by
  simp [EuclideanSpace.norm_eq, Fin.sum_univ_three, V3.Length, V3.LengthSquared, sq]

theorem dist_toE (a b : V3 ℝ) : ‖toE a - toE b‖ = a.Distance b := by
  rw [← toE_sub, norm_toE]
  simp only [V3.Length, V3.LengthSquared, V3.Distance, V3.DistanceSquared, V3.Sub, RS.sqrt_eq]
  congr 1; ring

theorem inner_toE (a b : V3 ℝ) : inner ℝ (toE a) (toE b) = a.Dot b := by
  simp [EuclideanSpace.inner_eq_star_dotProduct, toE, V3.Dot, dotProduct, Fin.sum_univ_three, mul_comm]

theorem V3.distance_comm (a b : V3 ℝ) : a.Distance b = b.Distance a := by
  rw [← dist_toE, ← dist_toE, norm_sub_rev]

theorem V3.distance_nonneg (a b : V3 ℝ) : 0 ≤ a.Distance b := by
  rw [← dist_toE]; exact norm_nonneg _

theorem V3.distance_triangle (a b c : V3 ℝ) : a.Distance c ≤ a.Distance b + b.Distance c := by
  rw [← dist_toE, ← dist_toE, ← dist_toE]
  exact norm_sub_le_norm_sub_add_norm_sub _ _ _

theorem V3.distance_eq_zero {a b : V3 ℝ} : a.Distance b = 0 ↔ a = b := by
  rw [← dist_toE, norm_sub_eq_zero_iff]
  constructor
  · intro h
    have h0 := congrArg (fun v : E3 => v 0) h; have h1 := congrArg (fun v : E3 => v 1) h
    have h2 := congrArg (fun v : E3 => v 2) h
    simp at h0 h1 h2
    exact V3.extR h0 h1 h2
  · rintro rfl; rfl

end PolyVerif
