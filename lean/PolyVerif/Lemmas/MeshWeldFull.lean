/-
  C03 lemmas: the model's welded index list equals the algorithm-independent description
  (`weldRepIdx = weldReindex`), and every vertex of the welded mesh is referenced.
-/
import PolyVerif.Lemmas.MeshSplit

namespace PolyVerif.Mesh
variable {α : Type}

theorem untriples_cons {β : Type} (a b c : β) (L : List (β × β × β)) :
    untriples ((a, b, c) :: L) = [a, b, c] ++ untriples L := rfl

theorem flatMap_congr' {β γ : Type} {f g : β → List γ} : ∀ {l : List β}, (∀ x ∈ l, f x = g x) →
    l.flatMap f = l.flatMap g
  | [], _ => rfl
  | a :: t, h => by
    rw [List.flatMap_cons, List.flatMap_cons, h a (by simp), flatMap_congr' (fun x hx => h x (by simp [hx]))]

/-- what one input triangle contributes -/
def triOut {β γ : Type} (g : β × β × β → Option (γ × γ × γ)) (f : γ → Option β) (t : β × β × β) : List β :=
  match g t with
  | some t' => [t'.1, t'.2.1, t'.2.2].filterMap f
  | none => []

theorem filterMap_untriples_filterMap {β γ : Type} (g : β × β × β → Option (γ × γ × γ)) (f : γ → Option β) :
    ∀ (L : List (β × β × β)), (untriples (L.filterMap g)).filterMap f = L.flatMap (triOut g f)
  | [] => by simp [untriples]
  | t :: L => by
    have ih := filterMap_untriples_filterMap g f L
    rw [List.filterMap_cons, List.flatMap_cons]
    cases hg : g t with
    | none =>
      have : triOut g f t = [] := by unfold triOut; rw [hg]
      rw [this, List.nil_append]; exact ih
    | some t' =>
      obtain ⟨a, b, c⟩ := t'
      have : triOut g f t = [a, b, c].filterMap f := by unfold triOut; rw [hg]
      rw [this, untriples_cons, List.filterMap_append, ih]

theorem filterMap_untriples_filter {β γ : Type} (q : β × β × β → Bool) (f : β → Option γ) :
    ∀ (L : List (β × β × β)), (untriples (L.filter q)).filterMap f =
      L.flatMap fun t => if q t then [t.1, t.2.1, t.2.2].filterMap f else []
  | [] => by simp [untriples]
  | t :: L => by
    have ih := filterMap_untriples_filter q f L
    obtain ⟨a, b, c⟩ := t
    rw [List.filter_cons, List.flatMap_cons]
    cases hq : q (a, b, c)
    · simp only [Bool.false_eq_true, if_false, List.nil_append]; exact ih
    · simp only [if_true]
      rw [untriples_cons, List.filterMap_append, ih]

namespace MeshVal
section weld
variable {K : Type} [DecidableEq K]

/-- the representative stored for a class is the first vertex carrying the class key -/
theorem reps_eq_findIdx (key : α → K) (d : List α) {κ : K} {a : Nat} (h : classOf (firsts key d) κ = some a) :
    ((firsts key d).map (·.2))[a]? = d.findIdx? fun y => decide (key y = κ) := by
  unfold classOf at h
  obtain ⟨ha, hk, _⟩ := List.findIdx?_eq_some_iff_getElem.mp h
  have hk' : ((firsts key d)[a]).1 = κ := by simpa using hk
  obtain ⟨⟨x, hx, hxk⟩, hmin⟩ := firsts_spec key d _ (List.getElem_mem ha)
  rw [List.getElem?_map, List.getElem?_eq_getElem ha, Option.map_some]
  symm
  apply List.findIdx?_eq_some_iff_getElem.mpr
  obtain ⟨hlt, hget⟩ := List.getElem?_eq_some_iff.mp hx
  refine ⟨hlt, ?_, ?_⟩
  · rw [hget, hxk, hk']; simp
  · intro j hj
    have := hmin j hj d[j] (List.getElem?_eq_getElem (by omega))
    rw [hk'] at this
    simpa using this

/-- per triangle, the model and the description agree -/
theorem weld_tri_agree (key : α → K) (d : List α) (t : Nat × Nat × Nat)
    (h1 : t.1 < d.length) (h2 : t.2.1 < d.length) (h3 : t.2.2 < d.length) :
    triOut (weldTri key d (firsts key d)) (fun c => ((firsts key d).map (·.2))[c]?) t =
    (if distinctKeys key d t then [t.1, t.2.1, t.2.2].filterMap (firstOfClass key d) else []) := by
  unfold triOut
  have hx := List.getElem?_eq_getElem h1
  have hy := List.getElem?_eq_getElem h2
  have hz := List.getElem?_eq_getElem h3
  have hsurv := weldTri_isSome_iff key d t hx hy hz
  have hdk : distinctKeys key d t = decide (key d[t.1] ≠ key d[t.2.1] ∧ key d[t.1] ≠ key d[t.2.2] ∧ key d[t.2.1] ≠ key d[t.2.2]) := by
    simp [distinctKeys, hx, hy, hz]
  cases hw : weldTri key d (firsts key d) t with
  | none =>
    have : ¬ (key d[t.1] ≠ key d[t.2.1] ∧ key d[t.1] ≠ key d[t.2.2] ∧ key d[t.2.1] ≠ key d[t.2.2]) := by
      intro hd; have := hsurv.mpr hd; simp [hw] at this
    simp [hdk, this]
  | some t' =>
    have hd : (key d[t.1] ≠ key d[t.2.1] ∧ key d[t.1] ≠ key d[t.2.2] ∧ key d[t.2.1] ≠ key d[t.2.2]) :=
      hsurv.mp (by simp [hw])
    rw [hdk]
    simp only [hd, ne_eq, not_false_eq_true, and_self, decide_true, if_true]
    -- the three class numbers
    unfold weldTri at hw
    simp only [hx, hy, hz] at hw
    have hnd : ¬ (key d[t.1] = key d[t.2.1] ∨ key d[t.1] = key d[t.2.2] ∨ key d[t.2.1] = key d[t.2.2]) := by
      intro h'; rcases h' with h' | h' | h'
      · exact hd.1 h'
      · exact hd.2.1 h'
      · exact hd.2.2 h'
    simp only [hnd, if_false] at hw
    split at hw
    · rename_i a b c ha hb hc
      cases hw
      simp only [List.filterMap_cons, List.filterMap_nil, reps_eq_findIdx key d ha, reps_eq_findIdx key d hb,
        reps_eq_findIdx key d hc, firstOfClass, hx, hy, hz]
    · cases hw

theorem weldRepIdx_eq_weldReindex (key : α → K) (d : List α) (idx : List Nat) (h : ∀ i ∈ idx, i < d.length) :
    weldRepIdx key d idx = weldReindex key d idx := by
  unfold weldRepIdx weldReindex
  rw [filterMap_untriples_filterMap, filterMap_untriples_filter]
  apply flatMap_congr'
  intro t ht
  have hm := mem_of_mem_triples ht
  exact weld_tri_agree key d t (h _ hm.1) (h _ hm.2.1) (h _ hm.2.2)

/-- compaction by the used-flags leaves every vertex referenced -/
theorem compactVertices_allReferenced [DecidableEq α] {m : MeshVal α} (h : WF m) (hne : m.attrs ≠ []) (n : Nat)
    (hn : n = m.attrLen) : AllReferenced (m.compactVertices (usedFlags n m.indices)) := by
  subst hn
  have hu := usedFlags_length m.attrLen m.indices
  have hused : ∀ i ∈ m.indices, (usedFlags m.attrLen m.indices)[i]? = some true :=
    fun i hi => usedFlags_getElem? hi (h.2.1 i hi)
  have hw := compactVertices_wf h _ hu hused
  intro v hv
  simp only [List.mem_range] at hv
  have hc : (m.compactVertices (usedFlags m.attrLen m.indices)).attrLen = (usedFlags m.attrLen m.indices).countP id := by
    cases ha : m.attrs with
    | nil => exact absurd ha hne
    | cons kd t =>
      have := hw.1 (kd.1, compact (usedFlags m.attrLen m.indices) kd.2) (by simp [compactVertices, mapAttrs, ha])
      rw [← this]
      exact compact_length _ _ (by rw [hu]; exact h.1 kd (by simp [ha]))
  rw [hc] at hv
  obtain ⟨i, hi, hr⟩ := exists_kept_of_rank _ v hv
  simp only [compactVertices, List.mem_map]
  exact ⟨i, mem_of_usedFlags hi, hr⟩

theorem weld_allReferenced [DecidableEq α] {m m' : MeshVal α} (h : WF m) {k : AttrKey} {key : α → K}
    (hw : m.weld k key = some m') : AllReferenced m' := by
  unfold weld at hw
  split at hw
  case isFalse => cases hw
  case isTrue ht =>
    split at hw
    · cases hw
    · rename_i d hd
      dsimp only at hw
      cases hw
      have hkd : (k, d) ∈ m.attrs := Attrs.find?_mem hd
      have hdl : d.length = m.attrLen := h.1 _ hkd
      have hreps : ∀ kd ∈ m.attrs, ∀ i ∈ (firsts key d).map (·.2), i < kd.2.length := by
        intro kd hk i hi
        simp only [List.mem_map] at hi
        obtain ⟨c, hc, rfl⟩ := hi
        rw [h.1 kd hk, ← hdl]; exact firsts_bound key d c hc
      have hlt : ∀ i ∈ untriples ((triples m.indices).filterMap (weldTri key d (firsts key d))),
          i < (firsts key d).length := by
        intro i hi
        obtain ⟨t, ht', hx⟩ := mem_untriples hi
        simp only [List.mem_filterMap] at ht'
        obtain ⟨t0, _, ht0⟩ := ht'
        have := weldTri_lt ht0
        rcases hx with rfl | rfl | rfl
        · exact this.1
        · exact this.2.1
        · exact this.2.2
      have hw' : WF ({ topology := m.topology,
                       indices := untriples ((triples m.indices).filterMap (weldTri key d (firsts key d))),
                       materials := [],
                       attrs := mapAttrs (fun vals => gather vals ((firsts key d).map (·.2))) m.attrs } : MeshVal α) := by
        apply wf_of_uniform (firsts key d).length
        · intro kd hk
          simp only [mapAttrs, List.mem_map] at hk
          obtain ⟨kd0, hk0, rfl⟩ := hk
          rw [gather_length (hreps kd0 hk0)]; simp
        · exact hlt
        · intro hnil
          have : m.attrs = [] := by simpa [mapAttrs] using hnil
          rw [this] at hkd; simp at hkd
        · rw [ht]; show (untriples _).length % 3 = 0
          rw [length_untriples]; omega
      have hal := hw'.1 (k, gather d ((firsts key d).map (·.2))) (by
        simp only [mapAttrs, List.mem_map]; exact ⟨(k, d), hkd, rfl⟩)
      rw [gather_length (hreps _ hkd)] at hal
      simp only [List.length_map] at hal
      refine compactVertices_allReferenced hw' ?_ _ hal
      intro hnil
      have : m.attrs = [] := by simpa [mapAttrs] using hnil
      rw [this] at hkd; simp at hkd

/-- the whole weld contract -/
theorem weld_spec [DecidableEq α] {m m' : MeshVal α} (h : WF m) {k : AttrKey} {key : α → K}
    (hw : m.weld k key = some m') : WeldSpec k key m m' := by
  obtain ⟨d, hd, ht, hmat, hc⟩ := weld_corners h hw
  refine ⟨ht, hmat, weld_allReferenced h hw, ?_⟩
  rw [hd]
  show m'.corners = _
  rw [hc, weldRepIdx_eq_weldReindex key d m.indices
    (fun i hi => by rw [h.1 _ (Attrs.find?_mem hd)]; exact h.2.1 i hi)]

end weld
end MeshVal
end PolyVerif.Mesh
