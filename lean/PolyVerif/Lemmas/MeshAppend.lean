/-
  C03 lemmas: `Append` concatenates corners, zero-filling attributes missing on one side.
-/
import PolyVerif.Lemmas.MeshCorners2

namespace PolyVerif.Mesh
variable {α : Type}

/-- lookup in a list whose keys are kept and whose values are rewritten -/
theorem find?_mapVals (as : Attrs α) (g : AttrKey × List α → List α) (k : AttrKey) :
    Attrs.find? (as.map fun kd => (kd.1, g kd)) k = (List.find? (fun kd => kd.1 == k) as).map g := by
  induction as with
  | nil => rfl
  | cons a t ih =>
    unfold Attrs.find? at ih ⊢
    simp only [List.map_cons, List.find?_cons]
    cases h : (a.1 == k)
    · simp only []; exact ih
    · simp

theorem find?_append (as bs : Attrs α) (k : AttrKey) :
    Attrs.find? (as ++ bs) k = (Attrs.find? as k).or (Attrs.find? bs k) := by
  unfold Attrs.find?
  rw [List.find?_append]
  cases List.find? (fun kd => kd.1 == k) as <;> simp

theorem find?_ext {β : Type} {p q : β → Bool} : ∀ {l : List β}, (∀ x ∈ l, p x = q x) → l.find? p = l.find? q
  | [], _ => rfl
  | a :: t, h => by
    simp only [List.find?_cons, h a (by simp)]
    cases q a
    · exact find?_ext (fun x hx => h x (by simp [hx]))
    · rfl

theorem find?_key {as : Attrs α} {k : AttrKey} {kd : AttrKey × List α}
    (h : List.find? (fun kd => kd.1 == k) as = some kd) : kd.1 = k := by
  have := List.find?_some h
  simpa using this

theorem map_getElem?_replicate {idx : List Nat} {n : Nat} (z : α) (h : ∀ i ∈ idx, i < n) :
    idx.map (fun i => (List.replicate n z)[i]?) = List.replicate idx.length (some z) := by
  apply List.eq_replicate_iff.mpr
  refine ⟨by simp, ?_⟩
  intro o ho
  simp only [List.mem_map] at ho
  obtain ⟨i, hi, rfl⟩ := ho
  simp [List.getElem?_replicate, h i hi]

theorem map_getElem?_append_left {idx : List Nat} (d e : List α) (h : ∀ i ∈ idx, i < d.length) :
    idx.map (fun i => (d ++ e)[i]?) = idx.map fun i => d[i]? := by
  apply List.map_congr_left
  intro i hi
  exact List.getElem?_append_left (h i hi)

theorem map_getElem?_append_right (idx : List Nat) (d e : List α) :
    (idx.map (· + d.length)).map (fun i => (d ++ e)[i]?) = idx.map fun i => e[i]? := by
  rw [List.map_map]
  apply List.map_congr_left
  intro i _
  simp only [Function.comp]
  rw [List.getElem?_append_right (by omega)]
  congr 1; omega

namespace MeshVal

theorem append_keys {zero : Nat → α} {a b m : MeshVal α} (h : append zero a b = some m) :
    ∀ k ∈ m.keys, k ∈ a.keys ∨ k ∈ b.keys := by
  unfold append at h
  split at h
  · cases h
    intro k hk
    simp only [keys, Attrs.keys, appendAttrs, List.map_append, List.map_map, List.mem_append, List.mem_map,
      Function.comp, List.mem_filter] at hk ⊢
    rcases hk with ⟨kd, hkd, rfl⟩ | ⟨kd, ⟨hkd, _⟩, rfl⟩
    · exact Or.inl ⟨kd, hkd, rfl⟩
    · exact Or.inr ⟨kd, hkd, rfl⟩
  · cases h

/-- the attribute array of key `k` in the appended mesh -/
theorem append_attr? {zero : Nat → α} {a b m : MeshVal α} (h : append zero a b = some m) (k : AttrKey) :
    m.attr? k =
      match a.attr? k, b.attr? k with
      | some da, some db => some (da ++ db)
      | some da, none => some (da ++ List.replicate b.attrLen (zero k.width))
      | none, some db => some (List.replicate a.attrLen (zero k.width) ++ db)
      | none, none => none := by
  unfold append at h
  split at h
  · cases h
    simp only [attr?, appendAttrs]
    rw [find?_append, find?_mapVals, find?_mapVals]
    cases hfa : List.find? (fun kd => kd.1 == k) a.attrs with
    | some kd =>
      have hk : kd.1 = k := find?_key hfa
      have ha : Attrs.find? a.attrs k = some kd.2 := by simp [Attrs.find?, hfa]
      simp only [Option.map_some, Option.or_some, ha, hk]
      cases hb : Attrs.find? b.attrs k <;> rfl
    | none =>
      have ha : Attrs.find? a.attrs k = none := by simp [Attrs.find?, hfa]
      simp only [Option.map_none, Option.none_or, ha]
      -- in `b`, filtered by "not in a": the entry for `k` passes the filter
      have hflt : List.find? (fun kd => kd.1 == k) (b.attrs.filter fun kd => !(Attrs.find? a.attrs kd.1).isSome)
          = List.find? (fun kd => kd.1 == k) b.attrs := by
        rw [List.find?_filter]
        apply find?_ext
        intro kd _
        by_cases hkk : kd.1 = k
        · simp [hkk, ha]
        · simp [hkk]
      rw [hflt]
      cases hfb : List.find? (fun kd => kd.1 == k) b.attrs with
      | some kd =>
        have hk : kd.1 = k := find?_key hfb
        have hb : Attrs.find? b.attrs k = some kd.2 := by simp [Attrs.find?, hfb]
        simp [hb, hk]
      | none =>
        have hb : Attrs.find? b.attrs k = none := by simp [Attrs.find?, hfb]
        simp [hb]
  · cases h

theorem append_cornersOf {zero : Nat → α} {a b m : MeshVal α} (ha : WF a) (hb : WF b)
    (h : append zero a b = some m) (k : AttrKey) (hk : k ∈ a.keys ++ b.keys) :
    m.cornersOf k = some (cornersOrZero zero a k ++ cornersOrZero zero b k) := by
  have hattr := append_attr? h k
  have hidx : m.indices = a.indices ++ b.indices.map (· + a.attrLen) := by
    unfold append at h; split at h <;> cases h; rfl
  have hsome : (a.attr? k).isSome ∨ (b.attr? k).isSome := by
    simp only [List.mem_append, keys, Attrs.keys, List.mem_map] at hk
    rcases hk with ⟨kd, hkd, rfl⟩ | ⟨kd, hkd, rfl⟩
    · exact Or.inl (Attrs.find?_isSome_of_mem hkd)
    · exact Or.inr (Attrs.find?_isSome_of_mem hkd)
  simp only [cornersOf, cornersOrZero, hidx]
  cases hda : a.attr? k with
  | some da =>
    have hla : da.length = a.attrLen := ha.1 _ (Attrs.find?_mem hda)
    cases hdb : b.attr? k with
    | some db =>
      simp only [hda, hdb] at hattr
      simp only [hattr, Option.map_some, List.map_append, Option.some.injEq]
      rw [map_getElem?_append_left _ _ (fun i hi => by rw [hla]; exact ha.2.1 i hi), ← hla,
        map_getElem?_append_right]
    | none =>
      simp only [hda, hdb] at hattr
      simp only [hattr, Option.map_some, Option.map_none, List.map_append, Option.some.injEq]
      rw [map_getElem?_append_left _ _ (fun i hi => by rw [hla]; exact ha.2.1 i hi), ← hla,
        map_getElem?_append_right, map_getElem?_replicate _ hb.2.1]
  | none =>
    cases hdb : b.attr? k with
    | some db =>
      simp only [hda, hdb] at hattr
      simp only [hattr, Option.map_some, Option.map_none, List.map_append, Option.some.injEq]
      have hrl : (List.replicate a.attrLen (zero k.width)).length = a.attrLen := by simp
      rw [map_getElem?_append_left _ _ (fun i hi => by rw [hrl]; exact ha.2.1 i hi)]
      have hr := map_getElem?_append_right b.indices (List.replicate a.attrLen (zero k.width)) db
      simp only [List.length_replicate] at hr
      rw [hr, map_getElem?_replicate _ ha.2.1]
    | none => simp [hda, hdb] at hsome

end MeshVal
end PolyVerif.Mesh
