/-
  C05, round 2 — the literal, time-of-face form of the re-save clause (`Obj.Resaves`).

  `Resaves pc pcId ls out` resolves every face corner against the pools AT THE TIME OF THE FACE
  (`resolveGroups`), splits the input at every `g` line and applies `keepComplete` per stretch.  The proved
  final-pool statement is `obj_resave_corners`; here the two are connected:
  * `resolveGroups` of the SAVED text (all data lines before all face lines) = final-pool resolution;
  * a simulation of the reader fold by `resolveGroups`: the reader's groups are exactly the non-empty
    stretches, and a face the reader accepts resolves at the time of the face (pools only grow);
  * per group, `keepComplete` of the resolved faces = `savedCorner` of the tokens.
  Core Lean only.
-/
import PolyVerif.Lemmas.Obj

set_option linter.unusedSimpArgs false
set_option linter.unusedSectionVars false
set_option linter.unusedVariables false

namespace PolyVerif
namespace ObjL
open Obj

section pure
variable {τ α : Type}

/-- a corner token resolved against pools (the function mapped by `cornerAttrs`) -/
def rcOf (pc : τ → Except Err Corner) (pv pn : List (V3 α)) (pt : List (V2 α)) (t : τ) : Option (RCorner α) :=
  match pc t with
  | .ok c => resolveCorner pv pn pt c
  | .error _ => none

/-- a face line resolved against pools (the expression appended by `resolveGroups`) -/
def resFace (pc : τ → Except Err Corner) (pv pn : List (V3 α)) (pt : List (V2 α)) (f : τ × τ × τ) : Option (RFace α) :=
  match pc f.1, pc f.2.1, pc f.2.2 with
  | .ok a, .ok b, .ok c =>
    (match resolveCorner pv pn pt a, resolveCorner pv pn pt b, resolveCorner pv pn pt c with
     | some a, some b, some c => some (a, b, c)
     | _, _, _ => none)
  | _, _, _ => none

theorem resFace_iff_aux (pc : τ → Except Err Corner) (pv pn : List (V3 α)) (pt : List (V2 α)) (a b c : τ)
    (x y z : RCorner α) :
    resFace pc pv pn pt (a, b, c) = some (x, y, z) ↔
      rcOf pc pv pn pt a = some x ∧ rcOf pc pv pn pt b = some y ∧ rcOf pc pv pn pt c = some z := by
  unfold resFace rcOf
  cases pc a <;> cases pc b <;> cases pc c <;> simp
  rename_i ca cb cc
  cases resolveCorner pv pn pt ca <;> cases resolveCorner pv pn pt cb <;> cases resolveCorner pv pn pt cc <;> simp

theorem resFace_some_aux (pc : τ → Except Err Corner) (pv pn : List (V3 α)) (pt : List (V2 α)) (a b c : τ)
    (ha : (rcOf pc pv pn pt a).isSome) (hb : (rcOf pc pv pn pt b).isSome) (hc : (rcOf pc pv pn pt c).isSome) :
    ∃ x y z, resFace pc pv pn pt (a, b, c) = some (x, y, z) := by
  obtain ⟨x, hx⟩ := Option.isSome_iff_exists.1 ha
  obtain ⟨y, hy⟩ := Option.isSome_iff_exists.1 hb
  obtain ⟨z, hz⟩ := Option.isSome_iff_exists.1 hc
  exact ⟨x, y, z, (resFace_iff_aux pc pv pn pt a b c x y z).2 ⟨hx, hy, hz⟩⟩

theorem resolveCorner_mono_aux {pv pn : List (V3 α)} {pt : List (V2 α)} {c : Corner} {r : RCorner α}
    (h : resolveCorner pv pn pt c = some r) (a b : List (V3 α)) (d : List (V2 α)) :
    resolveCorner (pv ++ a) (pn ++ b) (pt ++ d) c = some r := by
  unfold resolveCorner at h ⊢
  by_cases hv0 : c.v = 0
  · simp [hv0] at h
  · simp only [hv0, ↓reduceIte] at h ⊢
    cases hp : pv[c.v - 1]? with
    | none => simp [hp] at h
    | some p =>
      rw [getElem?_append_some_aux hp a]
      simp only [hp] at h
      cases e1 : slot c.vt <;> cases e2 : slot c.vn <;> simp only [e1, e2] at h ⊢
      · exact h
      · rename_i j
        simp only [Option.map_eq_some_iff] at h ⊢
        obtain ⟨n, hn, rfl⟩ := h
        exact ⟨n, getElem?_append_some_aux hn b, rfl⟩
      · rename_i i
        simp only [Option.map_eq_some_iff] at h ⊢
        obtain ⟨t, ht, rfl⟩ := h
        exact ⟨t, getElem?_append_some_aux ht d, rfl⟩
      · rename_i i j
        cases ht : pt[i]? with
        | none => simp [ht] at h
        | some t =>
          cases hn : pn[j]? with
          | none => simp [ht, hn] at h
          | some n =>
            rw [getElem?_append_some_aux ht d, getElem?_append_some_aux hn b]
            simpa [ht, hn] using h

theorem rcOf_mono_aux {pc : τ → Except Err Corner} {pv pn : List (V3 α)} {pt : List (V2 α)} {t : τ} {r : RCorner α}
    (h : rcOf pc pv pn pt t = some r) (a b : List (V3 α)) (d : List (V2 α)) :
    rcOf pc (pv ++ a) (pn ++ b) (pt ++ d) t = some r := by
  unfold rcOf at h ⊢
  cases hc : pc t with
  | error e => simp [hc] at h
  | ok c => simp only [hc] at h ⊢; exact resolveCorner_mono_aux h a b d

theorem resFace_mono_aux {pc : τ → Except Err Corner} {pv pn : List (V3 α)} {pt : List (V2 α)} (a b : List (V3 α))
    (d : List (V2 α)) (f : τ × τ × τ) (r : RFace α) (h : resFace pc pv pn pt f = some r) :
    resFace pc (pv ++ a) (pn ++ b) (pt ++ d) f = some r := by
  obtain ⟨fa, fb, fc⟩ := f
  obtain ⟨x, y, z⟩ := r
  rw [resFace_iff_aux] at h ⊢
  exact ⟨rcOf_mono_aux h.1 a b d, rcOf_mono_aux h.2.1 a b d, rcOf_mono_aux h.2.2 a b d⟩

theorem faces_mono_aux {pc : τ → Except Err Corner} {pv pn : List (V3 α)} {pt : List (V2 α)} (a b : List (V3 α))
    (d : List (V2 α)) {fts : List (τ × τ × τ)} {rs : List (RFace α)}
    (h : fts.map (resFace pc pv pn pt) = rs.map some) :
    fts.map (resFace pc (pv ++ a) (pn ++ b) (pt ++ d)) = rs.map some :=
  (map_some_mono_aux _ _ (fun f r hr => resFace_mono_aux a b d f r hr) rs fts h.symm).symm

theorem filterMap_of_map_some_aux {β γ : Type} (f : β → Option γ) : ∀ (l : List β) (r : List γ),
    l.map f = r.map some → l.filterMap f = r
  | [], [], _ => rfl
  | [], _ :: _, h => by simp at h
  | _ :: _, [], h => by simp at h
  | a :: l, x :: r, h => by
    simp only [List.map_cons, List.cons.injEq] at h
    simp [List.filterMap_cons, h.1, filterMap_of_map_some_aux f l r h.2]

theorem allSome_map_some_aux {β : Type} : ∀ l : List β, allSome (l.map some) = some l
  | [] => rfl
  | a :: l => by simp [allSome, allSome_map_some_aux l]

theorem mapM_allSome_aux {β : Type} : ∀ segs : List (List β), (segs.map (·.map some)).mapM allSome = some segs
  | [] => rfl
  | s :: segs => by
    simp [List.mapM_cons, allSome_map_some_aux, mapM_allSome_aux segs]

/-! #### `resolveGroups`, flattened -/

theorem rg_cur_aux (pc : τ → Except Err Corner) : ∀ (ls : List (Line τ α)) (pv pn : List (V3 α)) (pt : List (V2 α))
    (cur : List (Option (RFace α))),
    (resolveGroups pc pv pn pt cur ls).flatten = cur ++ (resolveGroups pc pv pn pt [] ls).flatten
  | [], pv, pn, pt, cur => by simp [resolveGroups]
  | l :: ls, pv, pn, pt, cur => by
    cases l with
    | v p => simpa [resolveGroups] using rg_cur_aux pc ls (pv ++ [p]) pn pt cur
    | vn p => simpa [resolveGroups] using rg_cur_aux pc ls pv (pn ++ [p]) pt cur
    | vt p => simpa [resolveGroups] using rg_cur_aux pc ls pv pn (pt ++ [p]) cur
    | g n => simp [resolveGroups]
    | f a b c =>
      simp only [resolveGroups]
      rw [rg_cur_aux pc ls pv pn pt (cur ++ [_]), rg_cur_aux pc ls pv pn pt ([] ++ [_])]
      simp
    | usemtl n => simpa [resolveGroups] using rg_cur_aux pc ls pv pn pt cur
    | mtllib fs => simpa [resolveGroups] using rg_cur_aux pc ls pv pn pt cur
    | other t => simpa [resolveGroups] using rg_cur_aux pc ls pv pn pt cur
    | bad e => simpa [resolveGroups] using rg_cur_aux pc ls pv pn pt cur

/-- lines without a face only feed the pools -/
theorem rg_prefix_aux (pc : τ → Except Err Corner) (b : List (Line τ α)) : ∀ (a : List (Line τ α)) (pv pn : List (V3 α))
    (pt : List (V2 α)) (cur : List (Option (RFace α))), faceToks a = [] →
    (resolveGroups pc pv pn pt cur (a ++ b)).flatten =
      cur ++ (resolveGroups pc (pv ++ poolV a) (pn ++ poolN a) (pt ++ poolT a) [] b).flatten
  | [], pv, pn, pt, cur, _ => by simpa [poolV, poolN, poolT] using rg_cur_aux pc b pv pn pt cur
  | l :: a, pv, pn, pt, cur, h => by
    cases l with
    | v p =>
      have h' : faceToks a = [] := by simpa [faceToks] using h
      simpa [resolveGroups, poolV, poolN, poolT] using rg_prefix_aux pc b a (pv ++ [p]) pn pt cur h'
    | vn p =>
      have h' : faceToks a = [] := by simpa [faceToks] using h
      simpa [resolveGroups, poolV, poolN, poolT] using rg_prefix_aux pc b a pv (pn ++ [p]) pt cur h'
    | vt p =>
      have h' : faceToks a = [] := by simpa [faceToks] using h
      simpa [resolveGroups, poolV, poolN, poolT] using rg_prefix_aux pc b a pv pn (pt ++ [p]) cur h'
    | g n =>
      have h' : faceToks a = [] := by simpa [faceToks] using h
      simpa [resolveGroups, poolV, poolN, poolT] using rg_prefix_aux pc b a pv pn pt [] h'
    | f x y z => simp [faceToks] at h
    | usemtl n =>
      have h' : faceToks a = [] := by simpa [faceToks] using h
      simpa [resolveGroups, poolV, poolN, poolT] using rg_prefix_aux pc b a pv pn pt cur h'
    | mtllib fs =>
      have h' : faceToks a = [] := by simpa [faceToks] using h
      simpa [resolveGroups, poolV, poolN, poolT] using rg_prefix_aux pc b a pv pn pt cur h'
    | other t =>
      have h' : faceToks a = [] := by simpa [faceToks] using h
      simpa [resolveGroups, poolV, poolN, poolT] using rg_prefix_aux pc b a pv pn pt cur h'
    | bad e =>
      have h' : faceToks a = [] := by simpa [faceToks] using h
      simpa [resolveGroups, poolV, poolN, poolT] using rg_prefix_aux pc b a pv pn pt cur h'

/-- lines that feed no pool: every face is resolved against the same pools -/
theorem rg_nopool_aux (pc : τ → Except Err Corner) (pv pn : List (V3 α)) (pt : List (V2 α)) : ∀ (b : List (Line τ α)),
    NoPool b → (resolveGroups pc pv pn pt [] b).flatten = (faceToks b).map (resFace pc pv pn pt)
  | [], _ => by simp [resolveGroups, faceToks]
  | l :: b, h => by
    obtain ⟨h1, h2, h3⟩ := h
    cases l with
    | v p => simp [poolV] at h1
    | vn p => simp [poolN] at h2
    | vt p => simp [poolT] at h3
    | g n =>
      have h' : NoPool b := ⟨by simpa [poolV] using h1, by simpa [poolN] using h2, by simpa [poolT] using h3⟩
      simpa [resolveGroups, faceToks] using rg_nopool_aux pc pv pn pt b h'
    | f x y z =>
      have h' : NoPool b := ⟨by simpa [poolV] using h1, by simpa [poolN] using h2, by simpa [poolT] using h3⟩
      simp only [resolveGroups, faceToks, List.map_cons]
      rw [rg_cur_aux, rg_nopool_aux pc pv pn pt b h']
      rfl
    | usemtl n =>
      have h' : NoPool b := ⟨by simpa [poolV] using h1, by simpa [poolN] using h2, by simpa [poolT] using h3⟩
      simpa [resolveGroups, faceToks] using rg_nopool_aux pc pv pn pt b h'
    | mtllib fs =>
      have h' : NoPool b := ⟨by simpa [poolV] using h1, by simpa [poolN] using h2, by simpa [poolT] using h3⟩
      simpa [resolveGroups, faceToks] using rg_nopool_aux pc pv pn pt b h'
    | other t =>
      have h' : NoPool b := ⟨by simpa [poolV] using h1, by simpa [poolN] using h2, by simpa [poolT] using h3⟩
      simpa [resolveGroups, faceToks] using rg_nopool_aux pc pv pn pt b h'
    | bad e =>
      have h' : NoPool b := ⟨by simpa [poolV] using h1, by simpa [poolN] using h2, by simpa [poolT] using h3⟩
      simpa [resolveGroups, faceToks] using rg_nopool_aux pc pv pn pt b h'

/-! #### faces and their corners -/

/-- the corners of resolved faces, in order -/
def cornersOf : List (RFace α) → List (RCorner α)
  | [] => []
  | (a, b, c) :: r => a :: b :: c :: cornersOf r

theorem cornersOf_append_aux : ∀ (a b : List (RFace α)), cornersOf (a ++ b) = cornersOf a ++ cornersOf b
  | [], _ => rfl
  | (x, y, z) :: a, b => by simp [cornersOf, cornersOf_append_aux a b]

theorem cornersOf_inj_aux : ∀ (a b : List (RFace α)), cornersOf a = cornersOf b → a = b
  | [], [], _ => rfl
  | [], (x, y, z) :: b, h => by simp [cornersOf] at h
  | (x, y, z) :: a, [], h => by simp [cornersOf] at h
  | (x, y, z) :: a, (x', y', z') :: b, h => by
    simp only [cornersOf, List.cons.injEq] at h
    obtain ⟨rfl, rfl, rfl, h⟩ := h
    rw [cornersOf_inj_aux a b h]

/-- resolved faces ↔ resolved corners -/
theorem corners_of_faces_aux (pc : τ → Except Err Corner) (pv pn : List (V3 α)) (pt : List (V2 α)) :
    ∀ (fts : List (τ × τ × τ)) (fs : List (RFace α)), fts.map (resFace pc pv pn pt) = fs.map some →
    (flatC fts).map (rcOf pc pv pn pt) = (cornersOf fs).map some
  | [], [], _ => rfl
  | [], _ :: _, h => by simp at h
  | _ :: _, [], h => by simp at h
  | (a, b, c) :: fts, (x, y, z) :: fs, h => by
    simp only [List.map_cons, List.cons.injEq] at h
    obtain ⟨h1, h2⟩ := h
    obtain ⟨ha, hb, hc⟩ := (resFace_iff_aux pc pv pn pt a b c x y z).1 h1
    simp [flatC, cornersOf, ha, hb, hc, corners_of_faces_aux pc pv pn pt fts fs h2]

/-- if every corner resolves, every face does -/
theorem faces_of_corners_aux (pc : τ → Except Err Corner) (pv pn : List (V3 α)) (pt : List (V2 α)) :
    ∀ (fts : List (τ × τ × τ)), (∀ o ∈ (flatC fts).map (rcOf pc pv pn pt), o.isSome) →
    ∃ fs : List (RFace α), fts.map (resFace pc pv pn pt) = fs.map some
  | [], _ => ⟨[], rfl⟩
  | (a, b, c) :: fts, h => by
    simp only [flatC, List.map_cons, List.mem_cons, forall_eq_or_imp] at h
    obtain ⟨ha, hb, hc, hr⟩ := h
    obtain ⟨fs, hfs⟩ := faces_of_corners_aux pc pv pn pt fts hr
    obtain ⟨x, y, z, hxyz⟩ := resFace_some_aux pc pv pn pt a b c ha hb hc
    exact ⟨(x, y, z) :: fs, by simp [hxyz, hfs]⟩

theorem keepComplete_nil_aux : keepComplete ([] : List (RFace α)) = [] := rfl

end pure

/-! #### the reader fold, simulated by `resolveGroups` -/

section sim
variable {τ α : Type} [DecidableEq τ] (pc : τ → Except Err Corner)

/-- a corner the reader accepts resolves against the pools of that moment; so do all tokens of the table -/
theorem addCorner_res_aux {s : RState τ α} {g g' : Group τ α} {t : τ} {p : Nat}
    (h : addCorner pc s g t = .ok (p, g')) (hi : ∀ u ∈ g.toks, (rcOf pc s.pv s.pn s.pt u).isSome) :
    (rcOf pc s.pv s.pn s.pt t).isSome ∧ ∀ u ∈ g'.toks, (rcOf pc s.pv s.pn s.pt u).isSome := by
  unfold addCorner at h
  split at h
  · rename_i hmem
    cases h
    exact ⟨hi t hmem, hi⟩
  · cases hc : pc t with
    | error e => simp [hc] at h
    | ok c =>
      simp only [hc] at h
      by_cases hv0 : c.v = 0
      · simp [hv0] at h
      · simp only [hv0, ↓reduceIte] at h
        cases hp : s.pv[c.v - 1]? with
        | none => simp [hp] at h
        | some pos =>
          simp only [hp] at h
          have ht : (rcOf pc s.pv s.pn s.pt t).isSome := by
            unfold rcOf resolveCorner
            simp only [hc, hv0, ↓reduceIte, hp]
            cases e2 : slot c.vn <;> cases e1 : slot c.vt <;> simp only [e1, e2] at h ⊢
            · rfl
            · rename_i i
              cases hu : s.pt[i]? with
              | none => simp [hu] at h
              | some u => simp
            · rename_i j
              cases hn : s.pn[j]? with
              | none => simp [hn] at h
              | some n => simp
            · rename_i j i
              cases hn : s.pn[j]? with
              | none => simp [hn] at h
              | some n =>
                cases hu : s.pt[i]? with
                | none => simp [hn, hu] at h
                | some u => simp
          refine ⟨ht, ?_⟩
          split at h
          · cases h
          · split at h
            · cases h
            · cases h
              intro u hu
              rcases List.mem_append.1 hu with hu | hu
              · exact hi u hu
              · simp only [List.mem_singleton] at hu; subst hu; exact ht

/-- the groups of a state with their faces resolved against the state's pools (unresolvable ones dropped:
    there are none, see `hres` below) -/
def RF (s : RState τ α) (g : Group τ α) : List (RFace α) := g.ftoks.filterMap (resFace pc s.pv s.pn s.pt)

theorem sim_aux : ∀ (ls : List (Line τ α)) (s s' : RState τ α) (curR : List (RFace α)),
    steps pc s ls = .ok s' → AllG pc s → (∀ t ∈ s.cur.toks, (rcOf pc s.pv s.pn s.pt t).isSome) →
    s.cur.ftoks.map (resFace pc s.pv s.pn s.pt) = curR.map some →
    ∃ (nd : List (Group τ α)) (segs : List (List (RFace α))), s'.done = s.done ++ nd ∧
      resolveGroups pc s.pv s.pn s.pt (curR.map some) ls = segs.map (·.map some) ∧
      (∀ g ∈ nd ++ [s'.cur], g.ftoks.map (resFace pc s'.pv s'.pn s'.pt) = (RF pc s' g).map some) ∧
      ∀ (F : List (RFace α) → List (RFace α)), F [] = [] →
        (segs.map F).flatten = (nd ++ [s'.cur]).flatMap (fun g => F (RF pc s' g))
  | [], s, s', curR, h, hA, hT, hC => by
    simp only [steps, Except.ok.injEq] at h; subst h
    have hrf : RF pc s s.cur = curR := filterMap_of_map_some_aux _ _ _ hC
    refine ⟨[], [curR], by simp, by simp [resolveGroups], ?_, ?_⟩
    · intro g hg
      simp only [List.nil_append, List.mem_singleton] at hg; subst hg
      rw [hrf]; exact hC
    · intro F hF; simp [hrf]
  | l :: ls, s, s', curR, h, hA, hT, hC => by
    simp only [steps] at h
    split at h
    · cases h
    · rename_i s1 e1
      obtain ⟨hA1, g1, g2, g3⟩ := step_allG_aux pc hA e1
      -- faces resolved so far stay resolved when the pools grow
      have hC1 : s.cur.ftoks.map (resFace pc s1.pv s1.pn s1.pt) = curR.map some := by
        rw [g1, g2, g3]; exact faces_mono_aux _ _ _ hC
      have hT1 : ∀ t ∈ s.cur.toks, (rcOf pc s1.pv s1.pn s1.pt t).isSome := by
        intro t ht
        obtain ⟨r, hr⟩ := Option.isSome_iff_exists.1 (hT t ht)
        rw [g1, g2, g3, rcOf_mono_aux hr]; rfl
      cases l with
      | other t =>
        simp only [step, Except.ok.injEq] at e1; subst e1
        simpa [resolveGroups] using sim_aux ls s s' curR h hA hT hC
      | bad e => simp [step] at e1
      | mtllib fs =>
        simp only [step] at e1
        split at e1
        · cases e1
        · cases e1
          simpa [resolveGroups] using sim_aux ls _ s' curR h hA1 hT hC
      | usemtl name =>
        simp only [step] at e1
        split at e1
        · cases e1
        · cases e1
          simpa [resolveGroups] using sim_aux ls _ s' curR h hA1 hT hC
      | v p =>
        simp only [step, Except.ok.injEq] at e1; subst e1
        simpa [resolveGroups] using sim_aux ls _ s' curR h hA1 hT1 hC1
      | vn p =>
        simp only [step, Except.ok.injEq] at e1; subst e1
        simpa [resolveGroups] using sim_aux ls _ s' curR h hA1 hT1 hC1
      | vt p =>
        simp only [step, Except.ok.injEq] at e1; subst e1
        simpa [resolveGroups] using sim_aux ls _ s' curR h hA1 hT1 hC1
      | g name =>
        simp only [step] at e1
        split at e1
        · cases e1
          obtain ⟨nd1, segs1, hd1, hr1, hres1, hF1⟩ :=
            sim_aux ls _ s' [] h hA1 (by intro t ht; cases ht) (by rfl)
          obtain ⟨_, q1, q2, q3⟩ := steps_allG_aux pc ls hA1 h
          simp only at q1 q2 q3 hd1 hr1
          have hcl : s.cur.ftoks.map (resFace pc s'.pv s'.pn s'.pt) = curR.map some := by
            rw [q1, q2, q3]; exact faces_mono_aux _ _ _ hC
          have hrf : RF pc s' { s.cur with mats := closeMats s.cur.mats s.since } = curR :=
            filterMap_of_map_some_aux _ _ _ hcl
          refine ⟨{ s.cur with mats := closeMats s.cur.mats s.since } :: nd1, curR :: segs1, ?_, ?_, ?_, ?_⟩
          · simp [hd1]
          · simp only [resolveGroups, List.map_cons]; rw [← hr1]; rfl
          · intro g hg
            simp only [List.cons_append, List.mem_cons] at hg
            rcases hg with rfl | hg
            · rw [hrf]; exact hcl
            · exact hres1 g hg
          · intro F hF
            simp only [List.map_cons, List.flatten_cons, List.cons_append, List.flatMap_cons, hrf, hF1 F hF]
        · rename_i htris
          cases e1
          have hft : s.cur.ftoks = [] := by
            have hl := congrArg List.length hA.2.hf
            have : s.cur.tris = [] := by simpa using htris
            simpa [this] using hl.symm
          have hcr : curR = [] := by
            rw [hft] at hC
            cases curR with
            | nil => rfl
            | cons x r => simp at hC
          subst hcr
          obtain ⟨nd1, segs1, hd1, hr1, hres1, hF1⟩ := sim_aux ls _ s' [] h hA1 hT (by simp [hft])
          refine ⟨nd1, [] :: segs1, hd1, ?_, hres1, ?_⟩
          · simp only [resolveGroups, List.map_cons]; rw [← hr1]; rfl
          · intro F hF; simp [hF, hF1 F hF]
      | f a b c =>
        simp only [step] at e1
        split at e1
        · cases e1
        · rename_i p1 gg1 c1
          split at e1
          · cases e1
          · rename_i p2 gg2 c2
            split at e1
            · cases e1
            · rename_i p3 gg3 c3
              cases e1
              obtain ⟨ra, t1⟩ := addCorner_res_aux pc c1 hT
              obtain ⟨rb, t2⟩ := addCorner_res_aux pc c2 t1
              obtain ⟨rc, t3⟩ := addCorner_res_aux pc c3 t2
              obtain ⟨_, f1, _, _⟩ := addCorner_frame_aux pc c1
              obtain ⟨_, f2, _, _⟩ := addCorner_frame_aux pc c2
              obtain ⟨_, f3, _, _⟩ := addCorner_frame_aux pc c3
              obtain ⟨x, y, z, hxyz⟩ := resFace_some_aux pc s.pv s.pn s.pt a b c ra rb rc
              have hft : gg3.ftoks = s.cur.ftoks := by rw [f3, f2, f1]
              obtain ⟨nd1, segs1, hd1, hr1, hres1, hF1⟩ :=
                sim_aux ls _ s' (curR ++ [(x, y, z)]) h hA1 t3 (by simp [hft, hC, hxyz])
              refine ⟨nd1, segs1, hd1, ?_, hres1, hF1⟩
              simp only at hr1
              rw [← hr1]
              show resolveGroups pc s.pv s.pn s.pt (List.map some curR ++ [resFace pc s.pv s.pn s.pt (a, b, c)]) ls = _
              rw [hxyz]; simp

end sim

end ObjL
end PolyVerif
