/-
  C05, round 2 — the literal, time-of-face form of the re-save clause (`Obj.Resaves`).

  `Resaves pc pcId ls out` resolves every face corner against the pools AT THE TIME OF THE FACE
  (`resolveGroups`), splits the input at every `g` line and applies `keepComplete` per stretch.  The proved
  final-pool statement is `obj_resave_corners`; here the two are connected:
  * `resolveGroups` of the SAVED text (all data lines before all face lines) = final-pool resolution;
  * a simulation of the reader fold by `resolveGroups`: the reader's groups are exactly the non-empty
    stretches, and a face the reader accepts resolves at the time of the face (pools only grow);
  * per group, `keepComplete` of the resolved faces = `savedCorner` of the tokens.
  Core Lean only.
-/
import PolyVerif.Lemmas.Obj

set_option linter.unusedSimpArgs false
set_option linter.unusedSectionVars false
set_option linter.unusedVariables false

namespace PolyVerif
namespace ObjL
open Obj

section pure
variable {τ α : Type}

/-- a corner token resolved against pools (the function mapped by `cornerAttrs`) -/
def rcOf (pc : τ → Except Err Corner) (pv pn : List (V3 α)) (pt : List (V2 α)) (t : τ) : Option (RCorner α) :=
  match pc t with
  | .ok c => resolveCorner pv pn pt c
  | .error _ => none

/-- a face line resolved against pools (the expression appended by `resolveGroups`) -/
def resFace (pc : τ → Except Err Corner) (pv pn : List (V3 α)) (pt : List (V2 α)) (f : τ × τ × τ) : Option (RFace α) :=
  match pc f.1, pc f.2.1, pc f.2.2 with
  | .ok a, .ok b, .ok c =>
    (match resolveCorner pv pn pt a, resolveCorner pv pn pt b, resolveCorner pv pn pt c with
     | some a, some b, some c => some (a, b, c)
     | _, _, _ => none)
  | _, _, _ => none

theorem resFace_iff_aux (pc : τ → Except Err Corner) (pv pn : List (V3 α)) (pt : List (V2 α)) (a b c : τ)
    (x y z : RCorner α) :
    resFace pc pv pn pt (a, b, c) = some (x, y, z) ↔
      rcOf pc pv pn pt a = some x ∧ rcOf pc pv pn pt b = some y ∧ rcOf pc pv pn pt c = some z := by
  unfold resFace rcOf
  cases pc a <;> cases pc b <;> cases pc c <;> simp
  rename_i ca cb cc
  cases resolveCorner pv pn pt ca <;> cases resolveCorner pv pn pt cb <;> cases resolveCorner pv pn pt cc <;> simp

theorem resFace_some_aux (pc : τ → Except Err Corner) (pv pn : List (V3 α)) (pt : List (V2 α)) (a b c : τ)
    (ha : (rcOf pc pv pn pt a).isSome) (hb : (rcOf pc pv pn pt b).isSome) (hc : (rcOf pc pv pn pt c).isSome) :
    ∃ x y z, resFace pc pv pn pt (a, b, c) = some (x, y, z) := by
  obtain ⟨x, hx⟩ := Option.isSome_iff_exists.1 ha
  obtain ⟨y, hy⟩ := Option.isSome_iff_exists.1 hb
  obtain ⟨z, hz⟩ := Option.isSome_iff_exists.1 hc
  exact ⟨x, y, z, (resFace_iff_aux pc pv pn pt a b c x y z).2 ⟨hx, hy, hz⟩⟩

theorem resolveCorner_mono_aux {pv pn : List (V3 α)} {pt : List (V2 α)} {c : Corner} {r : RCorner α}
    (h : resolveCorner pv pn pt c = some r) (a b : List (V3 α)) (d : List (V2 α)) :
    resolveCorner (pv ++ a) (pn ++ b) (pt ++ d) c = some r := by
  unfold resolveCorner at h ⊢
  by_cases hv0 : c.v = 0
  · simp [hv0] at h
  · simp only [hv0, ↓reduceIte] at h ⊢
    cases hp : pv[c.v - 1]? with
    | none => simp [hp] at h
    | some p =>
      rw [getElem?_append_some_aux hp a]
      simp only [hp] at h
      cases e1 : slot c.vt <;> cases e2 : slot c.vn <;> simp only [e1, e2] at h ⊢
      · exact h
      · rename_i j
        simp only [Option.map_eq_some_iff] at h ⊢
        obtain ⟨n, hn, rfl⟩ := h
        exact ⟨n, getElem?_append_some_aux hn b, rfl⟩
      · rename_i i
        simp only [Option.map_eq_some_iff] at h ⊢
        obtain ⟨t, ht, rfl⟩ := h
        exact ⟨t, getElem?_append_some_aux ht d, rfl⟩
      · rename_i i j
        cases ht : pt[i]? with
        | none => simp [ht] at h
        | some t =>
          cases hn : pn[j]? with
          | none => simp [ht, hn] at h
          | some n =>
            rw [getElem?_append_some_aux ht d, getElem?_append_some_aux hn b]
            simpa [ht, hn] using h

theorem rcOf_mono_aux {pc : τ → Except Err Corner} {pv pn : List (V3 α)} {pt : List (V2 α)} {t : τ} {r : RCorner α}
    (h : rcOf pc pv pn pt t = some r) (a b : List (V3 α)) (d : List (V2 α)) :
    rcOf pc (pv ++ a) (pn ++ b) (pt ++ d) t = some r := by
  unfold rcOf at h ⊢
  cases hc : pc t with
  | error e => simp [hc] at h
  | ok c => simp only [hc] at h ⊢; exact resolveCorner_mono_aux h a b d

theorem resFace_mono_aux {pc : τ → Except Err Corner} {pv pn : List (V3 α)} {pt : List (V2 α)} (a b : List (V3 α))
    (d : List (V2 α)) (f : τ × τ × τ) (r : RFace α) (h : resFace pc pv pn pt f = some r) :
    resFace pc (pv ++ a) (pn ++ b) (pt ++ d) f = some r := by
  obtain ⟨fa, fb, fc⟩ := f
  obtain ⟨x, y, z⟩ := r
  rw [resFace_iff_aux] at h ⊢
  exact ⟨rcOf_mono_aux h.1 a b d, rcOf_mono_aux h.2.1 a b d, rcOf_mono_aux h.2.2 a b d⟩

theorem faces_mono_aux {pc : τ → Except Err Corner} {pv pn : List (V3 α)} {pt : List (V2 α)} (a b : List (V3 α))
    (d : List (V2 α)) {fts : List (τ × τ × τ)} {rs : List (RFace α)}
    (h : fts.map (resFace pc pv pn pt) = rs.map some) :
    fts.map (resFace pc (pv ++ a) (pn ++ b) (pt ++ d)) = rs.map some :=
  (map_some_mono_aux _ _ (fun f r hr => resFace_mono_aux a b d f r hr) rs fts h.symm).symm

theorem filterMap_of_map_some_aux {β γ : Type} (f : β → Option γ) : ∀ (l : List β) (r : List γ),
    l.map f = r.map some → l.filterMap f = r
  | [], [], _ => rfl
  | [], _ :: _, h => by simp at h
  | _ :: _, [], h => by simp at h
  | a :: l, x :: r, h => by
    simp only [List.map_cons, List.cons.injEq] at h
    simp [List.filterMap_cons, h.1, filterMap_of_map_some_aux f l r h.2]

theorem allSome_map_some_aux {β : Type} : ∀ l : List β, allSome (l.map some) = some l
  | [] => rfl
  | a :: l => by simp [allSome, allSome_map_some_aux l]

theorem mapM_allSome_aux {β : Type} : ∀ segs : List (List β), (segs.map (·.map some)).mapM allSome = some segs
  | [] => rfl
  | s :: segs => by
    simp [List.mapM_cons, allSome_map_some_aux, mapM_allSome_aux segs]

/-! #### `resolveGroups`, flattened -/

theorem rg_cur_aux (pc : τ → Except Err Corner) : ∀ (ls : List (Line τ α)) (pv pn : List (V3 α)) (pt : List (V2 α))
    (cur : List (Option (RFace α))),
    (resolveGroups pc pv pn pt cur ls).flatten = cur ++ (resolveGroups pc pv pn pt [] ls).flatten
  | [], pv, pn, pt, cur => by simp [resolveGroups]
  | l :: ls, pv, pn, pt, cur => by
    cases l with
    | v p => simpa [resolveGroups] using rg_cur_aux pc ls (pv ++ [p]) pn pt cur
    | vn p => simpa [resolveGroups] using rg_cur_aux pc ls pv (pn ++ [p]) pt cur
    | vt p => simpa [resolveGroups] using rg_cur_aux pc ls pv pn (pt ++ [p]) cur
    | g n => simp [resolveGroups]
    | f a b c =>
      simp only [resolveGroups]
      rw [rg_cur_aux pc ls pv pn pt (cur ++ [_]), rg_cur_aux pc ls pv pn pt ([] ++ [_])]
      simp
    | usemtl n => simpa [resolveGroups] using rg_cur_aux pc ls pv pn pt cur
    | mtllib fs => simpa [resolveGroups] using rg_cur_aux pc ls pv pn pt cur
    | other t => simpa [resolveGroups] using rg_cur_aux pc ls pv pn pt cur
    | bad e => simpa [resolveGroups] using rg_cur_aux pc ls pv pn pt cur

/-- lines without a face only feed the pools -/
theorem rg_prefix_aux (pc : τ → Except Err Corner) (b : List (Line τ α)) : ∀ (a : List (Line τ α)) (pv pn : List (V3 α))
    (pt : List (V2 α)) (cur : List (Option (RFace α))), faceToks a = [] →
    (resolveGroups pc pv pn pt cur (a ++ b)).flatten =
      cur ++ (resolveGroups pc (pv ++ poolV a) (pn ++ poolN a) (pt ++ poolT a) [] b).flatten
  | [], pv, pn, pt, cur, _ => by simpa [poolV, poolN, poolT] using rg_cur_aux pc b pv pn pt cur
  | l :: a, pv, pn, pt, cur, h => by
    cases l with
    | v p =>
      have h' : faceToks a = [] := by simpa [faceToks] using h
      simpa [resolveGroups, poolV, poolN, poolT] using rg_prefix_aux pc b a (pv ++ [p]) pn pt cur h'
    | vn p =>
      have h' : faceToks a = [] := by simpa [faceToks] using h
      simpa [resolveGroups, poolV, poolN, poolT] using rg_prefix_aux pc b a pv (pn ++ [p]) pt cur h'
    | vt p =>
      have h' : faceToks a = [] := by simpa [faceToks] using h
      simpa [resolveGroups, poolV, poolN, poolT] using rg_prefix_aux pc b a pv pn (pt ++ [p]) cur h'
    | g n =>
      have h' : faceToks a = [] := by simpa [faceToks] using h
      simpa [resolveGroups, poolV, poolN, poolT] using rg_prefix_aux pc b a pv pn pt [] h'
    | f x y z => simp [faceToks] at h
    | usemtl n =>
      have h' : faceToks a = [] := by simpa [faceToks] using h
      simpa [resolveGroups, poolV, poolN, poolT] using rg_prefix_aux pc b a pv pn pt cur h'
    | mtllib fs =>
      have h' : faceToks a = [] := by simpa [faceToks] using h
      simpa [resolveGroups, poolV, poolN, poolT] using rg_prefix_aux pc b a pv pn pt cur h'
    | other t =>
      have h' : faceToks a = [] := by simpa [faceToks] using h
      simpa [resolveGroups, poolV, poolN, poolT] using rg_prefix_aux pc b a pv pn pt cur h'
    | bad e =>
      have h' : faceToks a = [] := by simpa [faceToks] using h
      simpa [resolveGroups, poolV, poolN, poolT] using rg_prefix_aux pc b a pv pn pt cur h'

/-- lines that feed no pool: every face is resolved against the same pools -/
theorem rg_nopool_aux (pc : τ → Except Err Corner) (pv pn : List (V3 α)) (pt : List (V2 α)) : ∀ (b : List (Line τ α)),
    NoPool b → (resolveGroups pc pv pn pt [] b).flatten = (faceToks b).map (resFace pc pv pn pt)
  | [], _ => by simp [resolveGroups, faceToks]
  | l :: b, h => by
    obtain ⟨h1, h2, h3⟩ := h
    cases l with
    | v p => simp [poolV] at h1
    | vn p => simp [poolN] at h2
    | vt p => simp [poolT] at h3
    | g n =>
      have h' : NoPool b := ⟨by simpa [poolV] using h1, by simpa [poolN] using h2, by simpa [poolT] using h3⟩
      simpa [resolveGroups, faceToks] using rg_nopool_aux pc pv pn pt b h'
    | f x y z =>
      have h' : NoPool b := ⟨by simpa [poolV] using h1, by simpa [poolN] using h2, by simpa [poolT] using h3⟩
      simp only [resolveGroups, faceToks, List.map_cons]
      rw [rg_cur_aux, rg_nopool_aux pc pv pn pt b h']
      rfl
    | usemtl n =>
      have h' : NoPool b := ⟨by simpa [poolV] using h1, by simpa [poolN] using h2, by simpa [poolT] using h3⟩
      simpa [resolveGroups, faceToks] using rg_nopool_aux pc pv pn pt b h'
    | mtllib fs =>
      have h' : NoPool b := ⟨by simpa [poolV] using h1, by simpa [poolN] using h2, by simpa [poolT] using h3⟩
      simpa [resolveGroups, faceToks] using rg_nopool_aux pc pv pn pt b h'
    | other t =>
      have h' : NoPool b := ⟨by simpa [poolV] using h1, by simpa [poolN] using h2, by simpa [poolT] using h3⟩
      simpa [resolveGroups, faceToks] using rg_nopool_aux pc pv pn pt b h'
    | bad e =>
      have h' : NoPool b := ⟨by simpa [poolV] using h1, by simpa [poolN] using h2, by simpa [poolT] using h3⟩
      simpa [resolveGroups, faceToks] using rg_nopool_aux pc pv pn pt b h'

/-! #### faces and their corners -/

/-- the corners of resolved faces, in order -/
def cornersOf : List (RFace α) → List (RCorner α)
  | [] => []
  | (a, b, c) :: r => a :: b :: c :: cornersOf r

theorem cornersOf_append_aux : ∀ (a b : List (RFace α)), cornersOf (a ++ b) = cornersOf a ++ cornersOf b
  | [], _ => rfl
  | (x, y, z) :: a, b => by simp [cornersOf, cornersOf_append_aux a b]

theorem cornersOf_inj_aux : ∀ (a b : List (RFace α)), cornersOf a = cornersOf b → a = b
  | [], [], _ => rfl
  | [], (x, y, z) :: b, h => by simp [cornersOf] at h
  | (x, y, z) :: a, [], h => by simp [cornersOf] at h
  | (x, y, z) :: a, (x', y', z') :: b, h => by
    simp only [cornersOf, List.cons.injEq] at h
    obtain ⟨rfl, rfl, rfl, h⟩ := h
    rw [cornersOf_inj_aux a b h]

/-- resolved faces ↔ resolved corners -/
theorem corners_of_faces_aux (pc : τ → Except Err Corner) (pv pn : List (V3 α)) (pt : List (V2 α)) :
    ∀ (fts : List (τ × τ × τ)) (fs : List (RFace α)), fts.map (resFace pc pv pn pt) = fs.map some →
    (flatC fts).map (rcOf pc pv pn pt) = (cornersOf fs).map some
  | [], [], _ => rfl
  | [], _ :: _, h => by simp at h
  | _ :: _, [], h => by simp at h
  | (a, b, c) :: fts, (x, y, z) :: fs, h => by
    simp only [List.map_cons, List.cons.injEq] at h
    obtain ⟨h1, h2⟩ := h
    obtain ⟨ha, hb, hc⟩ := (resFace_iff_aux pc pv pn pt a b c x y z).1 h1
    simp [flatC, cornersOf, ha, hb, hc, corners_of_faces_aux pc pv pn pt fts fs h2]

/-- if every corner resolves, every face does -/
theorem faces_of_corners_aux (pc : τ → Except Err Corner) (pv pn : List (V3 α)) (pt : List (V2 α)) :
    ∀ (fts : List (τ × τ × τ)), (∀ o ∈ (flatC fts).map (rcOf pc pv pn pt), o.isSome) →
    ∃ fs : List (RFace α), fts.map (resFace pc pv pn pt) = fs.map some
  | [], _ => ⟨[], rfl⟩
  | (a, b, c) :: fts, h => by
    simp only [flatC, List.map_cons, List.mem_cons, forall_eq_or_imp] at h
    obtain ⟨ha, hb, hc, hr⟩ := h
    obtain ⟨fs, hfs⟩ := faces_of_corners_aux pc pv pn pt fts hr
    obtain ⟨x, y, z, hxyz⟩ := resFace_some_aux pc pv pn pt a b c ha hb hc
    exact ⟨(x, y, z) :: fs, by simp [hxyz, hfs]⟩

theorem keepComplete_nil_aux : keepComplete ([] : List (RFace α)) = [] := rfl

end pure

/-! #### the reader fold, simulated by `resolveGroups` -/

section sim
variable {τ α : Type} [DecidableEq τ] (pc : τ → Except Err Corner)

/-- a corner the reader accepts resolves against the pools of that moment; so do all tokens of the table -/
theorem addCorner_res_aux {s : RState τ α} {g g' : Group τ α} {t : τ} {p : Nat}
    (h : addCorner pc s g t = .ok (p, g')) (hi : ∀ u ∈ g.toks, (rcOf pc s.pv s.pn s.pt u).isSome) :
    (rcOf pc s.pv s.pn s.pt t).isSome ∧ ∀ u ∈ g'.toks, (rcOf pc s.pv s.pn s.pt u).isSome := by
  unfold addCorner at h
  split at h
  · rename_i hmem
    cases h
    exact ⟨hi t hmem, hi⟩
  · cases hc : pc t with
    | error e => simp [hc] at h
    | ok c =>
      simp only [hc] at h
      by_cases hv0 : c.v = 0
      · simp [hv0] at h
      · simp only [hv0, ↓reduceIte] at h
        cases hp : s.pv[c.v - 1]? with
        | none => simp [hp] at h
        | some pos =>
          simp only [hp] at h
          have ht : (rcOf pc s.pv s.pn s.pt t).isSome := by
            unfold rcOf resolveCorner
            simp only [hc, hv0, ↓reduceIte, hp]
            cases e2 : slot c.vn <;> cases e1 : slot c.vt <;> simp only [e1, e2] at h ⊢
            · rfl
            · rename_i i
              cases hu : s.pt[i]? with
              | none => simp [hu] at h
              | some u => simp
            · rename_i j
              cases hn : s.pn[j]? with
              | none => simp [hn] at h
              | some n => simp
            · rename_i j i
              cases hn : s.pn[j]? with
              | none => simp [hn] at h
              | some n =>
                cases hu : s.pt[i]? with
                | none => simp [hn, hu] at h
                | some u => simp
          refine ⟨ht, ?_⟩
          split at h
          · cases h
          · split at h
            · cases h
            · cases h
              intro u hu
              rcases List.mem_append.1 hu with hu | hu
              · exact hi u hu
              · simp only [List.mem_singleton] at hu; subst hu; exact ht

/-- the groups of a state with their faces resolved against the state's pools (unresolvable ones dropped:
    there are none, see `hres` below) -/
def RF (s : RState τ α) (g : Group τ α) : List (RFace α) := g.ftoks.filterMap (resFace pc s.pv s.pn s.pt)

theorem sim_aux : ∀ (ls : List (Line τ α)) (s s' : RState τ α) (curR : List (RFace α)),
    steps pc s ls = .ok s' → AllG pc s → (∀ t ∈ s.cur.toks, (rcOf pc s.pv s.pn s.pt t).isSome) →
    s.cur.ftoks.map (resFace pc s.pv s.pn s.pt) = curR.map some →
    ∃ (nd : List (Group τ α)) (segs : List (List (RFace α))), s'.done = s.done ++ nd ∧
      resolveGroups pc s.pv s.pn s.pt (curR.map some) ls = segs.map (·.map some) ∧
      (∀ g ∈ nd ++ [s'.cur], g.ftoks.map (resFace pc s'.pv s'.pn s'.pt) = (RF pc s' g).map some) ∧
      ∀ (F : List (RFace α) → List (RFace α)), F [] = [] →
        (segs.map F).flatten = (nd ++ [s'.cur]).flatMap (fun g => F (RF pc s' g))
  | [], s, s', curR, h, hA, hT, hC => by
    simp only [steps, Except.ok.injEq] at h; subst h
    have hrf : RF pc s s.cur = curR := filterMap_of_map_some_aux _ _ _ hC
    refine ⟨[], [curR], by simp, by simp [resolveGroups], ?_, ?_⟩
    · intro g hg
      simp only [List.nil_append, List.mem_singleton] at hg; subst hg
      rw [hrf]; exact hC
    · intro F hF; simp [hrf]
  | l :: ls, s, s', curR, h, hA, hT, hC => by
    simp only [steps] at h
    split at h
    · cases h
    · rename_i s1 e1
      obtain ⟨hA1, g1, g2, g3⟩ := step_allG_aux pc hA e1
      -- faces resolved so far stay resolved when the pools grow
      have hC1 : s.cur.ftoks.map (resFace pc s1.pv s1.pn s1.pt) = curR.map some := by
        rw [g1, g2, g3]; exact faces_mono_aux _ _ _ hC
      have hT1 : ∀ t ∈ s.cur.toks, (rcOf pc s1.pv s1.pn s1.pt t).isSome := by
        intro t ht
        obtain ⟨r, hr⟩ := Option.isSome_iff_exists.1 (hT t ht)
        rw [g1, g2, g3, rcOf_mono_aux hr]; rfl
      cases l with
      | other t =>
        simp only [step, Except.ok.injEq] at e1; subst e1
        simpa [resolveGroups] using sim_aux ls s s' curR h hA hT hC
      | bad e => simp [step] at e1
      | mtllib fs =>
        simp only [step] at e1
        split at e1
        · cases e1
        · cases e1
          simpa [resolveGroups] using sim_aux ls _ s' curR h hA1 hT hC
      | usemtl name =>
        simp only [step] at e1
        split at e1
        · cases e1
        · cases e1
          simpa [resolveGroups] using sim_aux ls _ s' curR h hA1 hT hC
      | v p =>
        simp only [step, Except.ok.injEq] at e1; subst e1
        simpa [resolveGroups] using sim_aux ls _ s' curR h hA1 hT1 hC1
      | vn p =>
        simp only [step, Except.ok.injEq] at e1; subst e1
        simpa [resolveGroups] using sim_aux ls _ s' curR h hA1 hT1 hC1
      | vt p =>
        simp only [step, Except.ok.injEq] at e1; subst e1
        simpa [resolveGroups] using sim_aux ls _ s' curR h hA1 hT1 hC1
      | g name =>
        simp only [step] at e1
        split at e1
        · cases e1
          obtain ⟨nd1, segs1, hd1, hr1, hres1, hF1⟩ :=
            sim_aux ls _ s' [] h hA1 (by intro t ht; cases ht) (by rfl)
          obtain ⟨_, q1, q2, q3⟩ := steps_allG_aux pc ls hA1 h
          simp only at q1 q2 q3 hd1 hr1
          have hcl : s.cur.ftoks.map (resFace pc s'.pv s'.pn s'.pt) = curR.map some := by
            rw [q1, q2, q3]; exact faces_mono_aux _ _ _ hC
          have hrf : RF pc s' { s.cur with mats := closeMats s.cur.mats s.since } = curR :=
            filterMap_of_map_some_aux _ _ _ hcl
          refine ⟨{ s.cur with mats := closeMats s.cur.mats s.since } :: nd1, curR :: segs1, ?_, ?_, ?_, ?_⟩
          · simp [hd1]
          · simp only [resolveGroups, List.map_cons]; rw [← hr1]; rfl
          · intro g hg
            simp only [List.cons_append, List.mem_cons] at hg
            rcases hg with rfl | hg
            · rw [hrf]; exact hcl
            · exact hres1 g hg
          · intro F hF
            simp only [List.map_cons, List.flatten_cons, List.cons_append, List.flatMap_cons, hrf, hF1 F hF]
        · rename_i htris
          cases e1
          have hft : s.cur.ftoks = [] := by
            have hl := congrArg List.length hA.2.hf
            have : s.cur.tris = [] := by simpa using htris
            simpa [this] using hl.symm
          have hcr : curR = [] := by
            rw [hft] at hC
            cases curR with
            | nil => rfl
            | cons x r => simp at hC
          subst hcr
          obtain ⟨nd1, segs1, hd1, hr1, hres1, hF1⟩ := sim_aux ls _ s' [] h hA1 hT (by simp [hft])
          refine ⟨nd1, [] :: segs1, hd1, ?_, hres1, ?_⟩
          · simp only [resolveGroups, List.map_cons]; rw [← hr1]; rfl
          · intro F hF; simp [hF, hF1 F hF]
      | f a b c =>
        simp only [step] at e1
        split at e1
        · cases e1
        · rename_i p1 gg1 c1
          split at e1
          · cases e1
          · rename_i p2 gg2 c2
            split at e1
            · cases e1
            · rename_i p3 gg3 c3
              cases e1
              obtain ⟨ra, t1⟩ := addCorner_res_aux pc c1 hT
              obtain ⟨rb, t2⟩ := addCorner_res_aux pc c2 t1
              obtain ⟨rc, t3⟩ := addCorner_res_aux pc c3 t2
              obtain ⟨_, f1, _, _⟩ := addCorner_frame_aux pc c1
              obtain ⟨_, f2, _, _⟩ := addCorner_frame_aux pc c2
              obtain ⟨_, f3, _, _⟩ := addCorner_frame_aux pc c3
              obtain ⟨x, y, z, hxyz⟩ := resFace_some_aux pc s.pv s.pn s.pt a b c ra rb rc
              have hft : gg3.ftoks = s.cur.ftoks := by rw [f3, f2, f1]
              obtain ⟨nd1, segs1, hd1, hr1, hres1, hF1⟩ :=
                sim_aux ls _ s' (curR ++ [(x, y, z)]) h hA1 t3 (by simp [hft, hC, hxyz])
              refine ⟨nd1, segs1, hd1, ?_, hres1, hF1⟩
              simp only at hr1
              rw [← hr1]
              show resolveGroups pc s.pv s.pn s.pt (List.map some curR ++ [resFace pc s.pv s.pn s.pt (a, b, c)]) ls = _
              rw [hxyz]; simp

end sim

/-! #### one group: `keepComplete` of its resolved faces = `savedCorner` of its tokens -/

section group
variable {τ α : Type} [DecidableEq τ] (pc : τ → Except Err Corner)

/-- what `keepComplete` does to one corner -/
def maskR (kt kn : Bool) (c : RCorner α) : RCorner α := ⟨c.p, if kt then c.t else none, if kn then c.n else none⟩

theorem flatMap_corners_aux : ∀ fs : List (RFace α), (fs.flatMap fun (a, b, c) => [a, b, c]) = cornersOf fs
  | [] => rfl
  | (a, b, c) :: fs => by simp [cornersOf, flatMap_corners_aux fs]

theorem cornersOf_map_aux (f : RCorner α → RCorner α) : ∀ fs : List (RFace α),
    cornersOf (fs.map fun x => (f x.1, f x.2.1, f x.2.2)) = (cornersOf fs).map f
  | [] => rfl
  | (a, b, c) :: fs => by simp [cornersOf, cornersOf_map_aux f fs]

theorem cornersOf_keepComplete_aux (fs : List (RFace α)) :
    cornersOf (keepComplete fs) =
      (cornersOf fs).map (maskR ((cornersOf fs).all fun c => c.t.isSome) ((cornersOf fs).all fun c => c.n.isSome)) := by
  unfold keepComplete
  simp only [flatMap_corners_aux]
  exact cornersOf_map_aux (maskR _ _) fs

theorem resolve_attr_aux {pv pn : List (V3 α)} {pt : List (V2 α)} {c : Corner} {r : RCorner α}
    (h : resolveCorner pv pn pt c = some r) : r.t.isSome = (slot c.vt).isSome ∧ r.n.isSome = (slot c.vn).isSome := by
  unfold resolveCorner at h
  by_cases hv0 : c.v = 0
  · simp [hv0] at h
  · simp only [hv0, ↓reduceIte] at h
    cases hp : pv[c.v - 1]? with
    | none => simp [hp] at h
    | some p =>
      simp only [hp] at h
      cases e1 : slot c.vt <;> cases e2 : slot c.vn <;> simp only [e1, e2] at h ⊢
      · cases h; exact ⟨rfl, rfl⟩
      · simp only [Option.map_eq_some_iff] at h
        obtain ⟨n, _, rfl⟩ := h; exact ⟨rfl, rfl⟩
      · simp only [Option.map_eq_some_iff] at h
        obtain ⟨t, _, rfl⟩ := h; exact ⟨rfl, rfl⟩
      · rename_i i j
        cases ht : pt[i]? with
        | none => simp [ht] at h
        | some t =>
          cases hn : pn[j]? with
          | none => simp [ht, hn] at h
          | some n => simp only [ht, hn, Option.some.injEq] at h; subst h; exact ⟨rfl, rfl⟩

theorem resolve_maskC_aux {pv pn : List (V3 α)} {pt : List (V2 α)} {c : Corner} {r : RCorner α}
    (h : resolveCorner pv pn pt c = some r) (kt kn : Bool) :
    resolveCorner pv pn pt (maskC c kt kn) = some (maskR kt kn r) := by
  have sn : slot (none : Option Nat) = none := rfl
  unfold resolveCorner at h ⊢
  by_cases hv0 : c.v = 0
  · simp [hv0] at h
  · have hv0' : (maskC c kt kn).v = c.v := rfl
    simp only [hv0', hv0, ↓reduceIte] at h ⊢
    cases hp : pv[c.v - 1]? with
    | none => simp [hp] at h
    | some p =>
      simp only [hp] at h ⊢
      cases e1 : slot c.vt <;> cases e2 : slot c.vn <;> simp only [e1, e2] at h
      · cases h
        cases kt <;> cases kn <;> simp [maskC, maskR, sn, e1, e2]
      · rename_i j
        simp only [Option.map_eq_some_iff] at h
        obtain ⟨n, hn, rfl⟩ := h
        cases kt <;> cases kn <;> simp [maskC, maskR, sn, e1, e2, hn]
      · rename_i i
        simp only [Option.map_eq_some_iff] at h
        obtain ⟨t, ht, rfl⟩ := h
        cases kt <;> cases kn <;> simp [maskC, maskR, sn, e1, e2, ht]
      · rename_i i j
        cases ht : pt[i]? with
        | none => simp [ht] at h
        | some t =>
          cases hn : pn[j]? with
          | none => simp [ht, hn] at h
          | some n =>
            simp only [ht, hn, Option.some.injEq] at h; subst h
            cases kt <;> cases kn <;> simp [maskC, maskR, sn, e1, e2, ht, hn]

theorem forall_rel_aux {β γ : Type} (f : β → Option γ) (P : β → Prop) (Q : γ → Prop)
    (hPQ : ∀ t x, f t = some x → (P t ↔ Q x)) : ∀ (l : List β) (r : List γ), l.map f = r.map some →
    ((∀ t ∈ l, P t) ↔ (∀ x ∈ r, Q x))
  | [], [], _ => by simp
  | [], _ :: _, h => by simp at h
  | _ :: _, [], h => by simp at h
  | a :: l, x :: r, h => by
    simp only [List.map_cons, List.cons.injEq] at h
    simp only [List.mem_cons, forall_eq_or_imp, hPQ a x h.1, forall_rel_aux f P Q hPQ l r h.2]

theorem map_rel_aux {β γ δ : Type} (f : β → Option γ) (k : β → Option δ) (m : γ → δ) : ∀ (l : List β) (r : List γ),
    l.map f = r.map some → (∀ t x, t ∈ l → f t = some x → k t = some (m x)) → l.map k = (r.map m).map some
  | [], [], _, _ => rfl
  | [], _ :: _, h, _ => by simp at h
  | _ :: _, [], h, _ => by simp at h
  | a :: l, x :: r, h, hk => by
    simp only [List.map_cons, List.cons.injEq] at h
    simp only [List.map_cons, hk a x (by simp) h.1,
      map_rel_aux f k m l r h.2 (fun t y ht hy => hk t y (List.mem_cons_of_mem _ ht) hy)]

/-- does the reader keep an attribute table?  iff every corner of the group's faces carries the slot -/
theorem kept_iff_aux {β : Type} (sl : τ → Option Nat) (pool : List β) (g : Group τ α) (tbl : List β)
    (hvl : g.verts.length = g.toks.length) (htbl : tbl.map some = (g.toks.filterMap sl).map (pool[·]?))
    (hne : g.toks ≠ []) :
    (keepIfComplete g.verts.length tbl).isSome = true ↔ ∀ t ∈ g.toks, (sl t).isSome := by
  have hl : tbl.length = (g.toks.filterMap sl).length := by simpa using congrArg List.length htbl
  have hpos : 0 < g.toks.length := List.length_pos_iff.2 hne
  unfold keepIfComplete
  constructor
  · intro h
    split at h
    · rename_i hc
      exact filterMap_length_aux _ _ (by omega)
    · cases h
  · intro hall
    have h1 := congrArg List.length (filterMap_bind_aux sl (fun i => pool[i]?) g.toks hall)
    rw [List.length_map, List.length_map] at h1
    have hlen : tbl.length = g.verts.length := by omega
    have hne' : tbl ≠ [] := by
      intro e; rw [e] at hlen; simp at hlen; omega
    simp [hne', hlen]

theorem group_saved_aux {pv pn : List (V3 α)} {pt : List (V2 α)} {g : Group τ α} (hi : GInv pc pv pn pt g)
    {fs : List (RFace α)} (hres : g.ftoks.map (resFace pc pv pn pt) = fs.map some) :
    (cornersOf (keepComplete fs)).map some = (flatC g.ftoks).map (savedCorner pc pv pn pt g) := by
  have hcs := corners_of_faces_aux pc pv pn pt g.ftoks fs hres
  by_cases hemp : g.ftoks = []
  · rw [hemp] at hres ⊢
    cases fs with
    | nil => rfl
    | cons x r => simp at hres
  · -- the group has a face, hence a token
    have hne : g.toks ≠ [] := by
      intro e
      cases hf : g.ftoks with
      | nil => exact hemp hf
      | cons f r =>
        obtain ⟨a, b, c⟩ := f
        have : a ∈ flatC g.ftoks := by rw [hf]; simp [flatC]
        obtain ⟨p, hp⟩ := ftoks_in_toks_aux pc hi this
        rw [e] at hp; simp at hp
    have hvl : g.verts.length = g.toks.length := by simpa using congrArg List.length hi.hv
    -- tokens of the table = corners of the faces
    have htoks : ∀ (P : τ → Prop), (∀ t ∈ g.toks, P t) ↔ (∀ t ∈ flatC g.ftoks, P t) := by
      intro P
      constructor
      · intro h t ht
        obtain ⟨p, hp⟩ := ftoks_in_toks_aux pc hi ht
        exact h t (List.mem_of_getElem? hp)
      · intro h t ht
        obtain ⟨f, hf, hh⟩ := hi.hm t ht
        obtain ⟨a, b, c⟩ := f
        have hsub : ∀ u, u = a ∨ u = b ∨ u = c → u ∈ flatC g.ftoks := by
          intro u hu
          obtain ⟨l1, l2, hl⟩ := List.append_of_mem hf
          rw [hl, flatC_append_aux]
          simp only [flatC, List.mem_append, List.mem_cons]
          right; rcases hu with rfl | rfl | rfl <;> simp
        exact h t (hsub t hh)
    have hkt : keptT g = (cornersOf fs).all fun c => c.t.isSome := by
      rw [Bool.eq_iff_iff, List.all_eq_true]
      unfold keptT
      rw [kept_iff_aux (tIdx pc) pt g g.uvs hvl hi.ht hne, htoks]
      refine forall_rel_aux (rcOf pc pv pn pt) _ _ ?_ _ _ hcs
      intro t x hx
      unfold rcOf at hx
      unfold tIdx
      cases hc : pc t with
      | error e => simp [hc] at hx
      | ok c => simp only [hc] at hx ⊢; rw [(resolve_attr_aux hx).1]
    have hkn : keptN g = (cornersOf fs).all fun c => c.n.isSome := by
      rw [Bool.eq_iff_iff, List.all_eq_true]
      unfold keptN
      rw [kept_iff_aux (nIdx pc) pn g g.normals hvl hi.hn hne, htoks]
      refine forall_rel_aux (rcOf pc pv pn pt) _ _ ?_ _ _ hcs
      intro t x hx
      unfold rcOf at hx
      unfold nIdx
      cases hc : pc t with
      | error e => simp [hc] at hx
      | ok c => simp only [hc] at hx ⊢; rw [(resolve_attr_aux hx).2]
    rw [cornersOf_keepComplete_aux, ← hkt, ← hkn]
    refine (map_rel_aux (rcOf pc pv pn pt) _ _ _ _ hcs ?_).symm ▸ rfl
    intro t x _ hx
    unfold rcOf at hx
    unfold savedCorner
    cases hc : pc t with
    | error e => simp [hc] at hx
    | ok c => simp only [hc] at hx ⊢; exact resolve_maskC_aux hx _ _

end group

/-! #### the literal `Resaves` -/

section final
variable {τ α : Type} [DecidableEq τ] (pc : τ → Except Err Corner)

theorem map_some_inj_aux {β : Type} : ∀ (a b : List β), a.map some = b.map some → a = b
  | [], [], _ => rfl
  | [], _ :: _, h => by simp at h
  | _ :: _, [], h => by simp at h
  | x :: a, y :: b, h => by
    simp only [List.map_cons, List.cons.injEq, Option.some.injEq] at h
    rw [h.1, map_some_inj_aux a b h.2]

theorem cornersOf_flatMap_aux {β : Type} (f : β → List (RFace α)) : ∀ l : List β,
    cornersOf (l.flatMap f) = l.flatMap (fun x => cornersOf (f x))
  | [] => rfl
  | a :: l => by simp [List.flatMap_cons, cornersOf_append_aux, cornersOf_flatMap_aux f l]

theorem flatMap_congr_aux {β γ : Type} (f g : β → List γ) : ∀ l : List β, (∀ x ∈ l, f x = g x) → l.flatMap f = l.flatMap g
  | [], _ => rfl
  | a :: l, h => by
    simp only [List.flatMap_cons, h a (by simp), flatMap_congr_aux f g l (fun x hx => h x (by simp [hx]))]

/-- a text whose face lines all come after its data lines: the pools at the time of a face are the final pools -/
theorem rg_saved_aux {τ' : Type} (pc' : τ' → Except Err Corner) (pre body : List (Line τ' α)) (hpre : faceToks pre = [])
    (hb : NoPool body) :
    (resolveGroups pc' [] [] [] [] (pre ++ body)).flatten =
      (faceToks (pre ++ body)).map
        (resFace pc' (poolV (pre ++ body)) (poolN (pre ++ body)) (poolT (pre ++ body))) := by
  obtain ⟨a1, a2, a3⟩ := pool_of_append_aux pre body
  rw [rg_prefix_aux pc' body pre [] [] [] [] hpre, rg_nopool_aux pc' _ _ _ body hb, faceToks_append_aux, hpre,
    a1, a2, a3, hb.1, hb.2.1, hb.2.2]
  simp

/-- **The re-save clause, literally** (`Resaves`, the Bool the oracle `c05.holds.resave` evaluates): for every
    accepted input, saving what was read succeeds and the saved text has as many faces as the input, every
    corner of it resolves against the pools at the time of its face, and its faces are — in order — the faces
    of the input resolved at the time of THEIR face, stretch by stretch between `g` lines, with texture
    coordinates / normals kept exactly where the whole stretch has them (`keepComplete`). -/
theorem obj_resave_literal [DecidableEq α] {ls : List (Line τ α)} {gs : List (Group τ α)} {libs : List String}
    (h : readObj pc ls = .ok (gs, libs)) (matFile : String) :
    ∃ out, writeObj matFile (gs.map toMesh) = .ok out ∧ Resaves pc pcId ls out = true := by
  obtain ⟨out, hw, hca, hall⟩ := obj_resave_corners pc h matFile
  obtain ⟨out2, hw2, hfc⟩ := obj_resave_faces pc h matFile
  have hout : out2 = out := by rw [hw] at hw2; cases hw2; rfl
  subst hout
  refine ⟨out2, hw, ?_⟩
  obtain ⟨hok, _⟩ := readObj_ranges_sum pc h
  -- the saved text: data lines, then lines that feed no pool
  have hwg := writeGroups_eq2_aux (decide ((gs.map toMesh).length > 1)) (gs.map toMesh) 0 0 0 (by
    intro p hp
    obtain ⟨g, hg, rfl⟩ := List.mem_map.1 hp
    refine ⟨by simp [toMesh, flatTris_length_aux], ?_⟩
    rcases (hok g hg).2 with h0 | h0
    · left; simp [toMesh, h0]
    · right
      have : 3 * g.tris.length / 3 = g.tris.length := by omega
      simp only [toMesh, flatTris_length_aux, this, ← h0]
      simp [matSum, List.map_map, Function.comp_def])
  simp only [writeObj, hwg, Except.ok.injEq] at hw
  have hpre : faceToks (headerLines (α := α) matFile ++ dataLines (gs.map toMesh)) = [] := by
    have hh : faceToks (headerLines (α := α) matFile) = [] := by unfold headerLines; split <;> rfl
    simp [faceToks_append_aux, hh, faceToks_nopool_aux]
  have hsaved := rg_saved_aux pcId _ _ hpre (noPool_groupLines_aux (decide ((gs.map toMesh).length > 1)) (gs.map toMesh) 0 0 0)
  rw [hw] at hsaved
  obtain ⟨fs', hfs'⟩ := faces_of_corners_aux pcId (poolV out2) (poolN out2) (poolT out2) (faceToks out2) hall
  have hcs' : cornerAttrs pcId out2 = (cornersOf fs').map some := corners_of_faces_aux pcId _ _ _ _ _ hfs'
  rw [hfs'] at hsaved
  -- the input: the reader fold simulated by `resolveGroups`
  unfold readObj at h
  split at h
  · cases h
  · rename_i s e
    simp only [finish, Except.ok.injEq, Prod.mk.injEq] at h
    obtain ⟨hgs, _⟩ := h
    have h0 : AllG pc ({} : RState τ α) := ⟨(by intro g hg; cases hg), GInv_empty_aux pc _ _ _ _⟩
    obtain ⟨nd, segs, hd, hr, hres, hF⟩ := sim_aux pc ls {} s [] e h0 (by intro t ht; cases ht) rfl
    obtain ⟨⟨hAd, hAc⟩, a, b, c⟩ := steps_allG_aux pc ls h0 e
    simp only [List.nil_append, List.map_nil] at a b c hd hr
    have hseg : (segs.map keepComplete).flatten = fs' := by
      apply cornersOf_inj_aux
      apply map_some_inj_aux
      rw [← hcs', hca, hF keepComplete rfl, cornersOf_flatMap_aux, List.map_flatMap, ← hgs, hd, ← a, ← b, ← c]
      simp only [List.flatMap_append, List.flatMap_cons, List.flatMap_nil, List.append_nil]
      congr 1
      · apply flatMap_congr_aux
        intro g hg
        exact group_saved_aux pc (hAd g (hd ▸ hg)) (hres g (List.mem_append_left _ hg))
      · exact group_saved_aux pc hAc (hres s.cur (List.mem_append_right _ (List.mem_singleton_self _)))
    unfold Resaves
    rw [hr, mapM_allSome_aux, hsaved, allSome_map_some_aux]
    simp [hfc, hseg]

/-- the simulation, for a whole accepted input: `resolveGroups` of the input is, stretch by stretch, fully
    resolved; the reader's groups are its non-empty stretches (stated through `keepComplete`, which maps the
    empty stretch to nothing); every face of every group resolves against the final pools -/
theorem readObj_resolves_at_face {ls : List (Line τ α)} {gs : List (Group τ α)} {libs : List String}
    (h : readObj pc ls = .ok (gs, libs)) :
    ∃ segs : List (List (RFace α)), resolveGroups pc [] [] [] [] ls = segs.map (·.map some) ∧
      (segs.map keepComplete).flatten =
        gs.flatMap (fun g => keepComplete (g.ftoks.filterMap (resFace pc (poolV ls) (poolN ls) (poolT ls)))) ∧
      ∀ g ∈ gs, ∀ f ∈ g.ftoks, (resFace pc (poolV ls) (poolN ls) (poolT ls) f).isSome := by
  unfold readObj at h
  split at h
  · cases h
  · rename_i s e
    simp only [finish, Except.ok.injEq, Prod.mk.injEq] at h
    obtain ⟨hgs, _⟩ := h
    have h0 : AllG pc ({} : RState τ α) := ⟨(by intro g hg; cases hg), GInv_empty_aux pc _ _ _ _⟩
    obtain ⟨nd, segs, hd, hr, hres, hF⟩ := sim_aux pc ls {} s [] e h0 (by intro t ht; cases ht) rfl
    obtain ⟨_, a, b, c⟩ := steps_allG_aux pc ls h0 e
    simp only [List.nil_append, List.map_nil] at a b c hd hr
    refine ⟨segs, hr, ?_, ?_⟩
    · rw [hF keepComplete rfl, ← hgs, hd, ← a, ← b, ← c]
      simp [RF, List.flatMap_append]
    · intro g hg f hf
      rw [← hgs, hd] at hg
      have hg' : ∃ g' ∈ nd ++ [s.cur], g'.ftoks = g.ftoks := by
        rcases List.mem_append.1 hg with hg | hg
        · exact ⟨g, List.mem_append_left _ hg, rfl⟩
        · simp only [List.mem_singleton] at hg; subst hg
          exact ⟨s.cur, List.mem_append_right _ (List.mem_singleton_self _), rfl⟩
      obtain ⟨g', hg'm, hg'f⟩ := hg'
      have hm := hres g' hg'm
      rw [hg'f, a, b, c] at hm
      have : resFace pc (poolV ls) (poolN ls) (poolT ls) f ∈ (RF pc s g').map some := by
        rw [← hm]; exact List.mem_map_of_mem hf
      obtain ⟨r, _, hr'⟩ := List.mem_map.1 this
      rw [← hr']; rfl

end final

end ObjL
end PolyVerif
