/-
  Helper lemmas about `PolyVerif.Model.Ply` shared by Props/C04 and Props/C08 (core Lean only).
-/
import PolyVerif.Model.Ply
import PolyVerif.Model.PlySpec
deriving instance DecidableEq for Except

namespace PolyVerif
namespace PlyLemmas
open Ply
variable {α : Type}

theorem byteOf_toNat (n k : Nat) : (byteOf n k).toNat = (n / 256 ^ k) % 256 := by
  simp [byteOf]
theorem put32_get32 (e : Endian) (w : UInt32) (rest : Bytes) : get32 e (put32 e w ++ rest) = some w := by
  have h := w.toNat_lt
  cases e <;> simp [put32, get32, byteOf_toNat] <;>
    (apply UInt32.toNat_inj.mp; simp; omega)
theorem put64_get64 (e : Endian) (w : UInt64) (rest : Bytes) : get64 e (put64 e w ++ rest) = some w := by
  have h := w.toNat_lt
  cases e <;> simp [put64, get64, byteOf_toNat] <;>
    (apply UInt64.toNat_inj.mp; simp; omega)
theorem put32_length (e : Endian) (w : UInt32) : (put32 e w).length = 4 := by cases e <;> simp [put32]
theorem put64_length (e : Endian) (w : UInt64) : (put64 e w).length = 8 := by cases e <;> simp [put64]
def quantBin (c : Coding α) (dim : Nat) : SType → α → α
  | .uchar, v => c.norm8 dim (c.ofInt (c.u8 v).toNat)
  | .int, v => c.ofInt (toInt32 (c.i32 v))
  | .float, v => c.unf32 (c.f32 v)
  | .double, v => c.unf64 (c.f64 v)
  | _, v => v
theorem encScalarBin_length (c : Coding α) (e : Endian) (t : SType) (v : α) (bs : Bytes)
    (h : encScalarBin c e t v = .ok bs) : bs.length = t.size := by
  cases t <;> simp [encScalarBin] at h <;> subst h <;> simp [SType.size, put32_length, put64_length]
theorem dec_enc_scalar (c : Coding α) (e : Endian) (dim : Nat) (t : SType) (v : α) (bs pre post : Bytes)
    (h : encScalarBin c e t v = .ok bs) :
    decScalarBin c e dim t (pre ++ bs ++ post) pre.length = .ok (quantBin c dim t v) := by
  cases t <;> simp [encScalarBin] at h <;> subst h <;>
    simp [decScalarBin, quantBin, put32_get32, put64_get64, List.append_assoc]

/-- byte offset of the `i`-th property: the sum of the sizes of the properties before it in header order -/
def offsetOf (tys : List SType) (i : Nat) : Nat := ((tys.take i).map SType.size).sum

theorem encRecordBin_nil (c : Coding α) (e : Endian) : encRecordBin c e [] ([] : List α) = .ok [] := by
  rfl

theorem encRecordBin_cons (c : Coding α) (e : Endian) (t : SType) (tys : List SType) (v : α) (vals : List α) :
    encRecordBin c e (t :: tys) (v :: vals) =
      (do let b ← encScalarBin c e t v; let r ← encRecordBin c e tys vals; pure (b ++ r)) := by
  simp [encRecordBin]

theorem field_at_offset (c : Coding α) (e : Endian) (dim : Nat) :
    ∀ (tys : List SType) (vals : List α) (rec pre post : Bytes) (i : Nat) (hi : i < tys.length)
      (hv : vals.length = tys.length),
      encRecordBin c e tys vals = .ok rec →
      decScalarBin c e dim tys[i] (pre ++ rec ++ post) (pre.length + offsetOf tys i)
        = .ok (quantBin c dim tys[i] (vals[i]'(by omega))) := by
  intro tys
  induction tys with
  | nil => intro _ _ _ _ i hi; simp at hi
  | cons t tys ih =>
    intro vals rec pre post i hi hv henc
    match vals, hv with
    | v :: vals, hv =>
      rw [encRecordBin_cons] at henc
      cases hb : encScalarBin c e t v with
      | error x => simp [hb, bind, Except.bind] at henc
      | ok b =>
        cases hr : encRecordBin c e tys vals with
        | error x => simp [hb, hr, bind, Except.bind] at henc
        | ok r =>
          simp [hb, hr, bind, Except.bind, pure, Except.pure] at henc
          subst henc
          cases i with
          | zero =>
            have := dec_enc_scalar c e dim t v b pre (r ++ post) hb
            simpa [offsetOf, List.append_assoc] using this
          | succ i =>
            have hlen := encScalarBin_length c e t v b hb
            have := ih vals r (pre ++ b) post i (by simpa using hi) (by simpa using hv) hr
            simpa [offsetOf, List.append_assoc, hlen, Nat.add_assoc] using this

theorem encRecordBin_length (c : Coding α) (e : Endian) :
    ∀ (tys : List SType) (vals : List α) (rec : Bytes), vals.length = tys.length →
      encRecordBin c e tys vals = .ok rec → rec.length = (tys.map SType.size).sum := by
  intro tys
  induction tys with
  | nil => intro vals rec hv h; match vals, hv with | [], _ => simp [encRecordBin_nil] at h; simp [← h]
  | cons t tys ih =>
    intro vals rec hv henc
    match vals, hv with
    | v :: vals, hv =>
      rw [encRecordBin_cons] at henc
      cases hb : encScalarBin c e t v with
      | error x => simp [hb, bind, Except.bind] at henc
      | ok b =>
        cases hr : encRecordBin c e tys vals with
        | error x => simp [hb, hr, bind, Except.bind] at henc
        | ok r =>
          simp [hb, hr, bind, Except.bind, pure, Except.pure] at henc
          subst henc
          simp [encScalarBin_length c e t v b hb, ih vals r (by simpa using hv) hr]

/-- where the `i`-th property sits in a vertex record: byte offset (binary) or column (ASCII) -/
def stride (binary : Bool) (t : SType) : Nat := if binary then t.size else 1

def locOf (binary : Bool) (props : List (Bytes × SType)) (i : Nat) : Nat :=
  ((props.take i).map (fun p => stride binary p.2)).sum

theorem locOf_ascii (props : List (Bytes × SType)) (i : Nat) (hi : i ≤ props.length) : locOf false props i = i := by
  induction props generalizing i with
  | nil => simp at hi; simp [locOf, hi]
  | cons p ps ih =>
    cases i with
    | zero => simp [locOf]
    | succ i =>
      have := ih i (by simpa using hi)
      simp [locOf, stride] at this ⊢
      omega

theorem locOf_binary (props : List (Bytes × SType)) (i : Nat) :
    locOf true props i = offsetOf (props.map (·.2)) i := by
  simp [locOf, offsetOf, stride, List.map_take, Function.comp_def]

theorem buildV1_go_spec (binary : Bool) (attr name : Bytes) :
    ∀ (props : List (Bytes × SType)) (pos i : Nat) (hi : i < props.length),
      props[i].1 = name → (∀ j (hj : j < i), (props[j]'(by omega)).1 ≠ name) →
      buildV1.go binary attr name props pos =
        some ⟨attr, [name], [pos + locOf binary props i], if binary then some props[i].2 else none⟩ := by
  intro props
  induction props with
  | nil => intro _ i hi; simp at hi
  | cons p ps ih =>
    intro pos i hi hname hbefore
    obtain ⟨n, t⟩ := p
    cases i with
    | zero =>
      simp at hname
      simp [buildV1.go, hname, locOf]
    | succ i =>
      have h0 : n ≠ name := by simpa using hbefore 0 (by omega)
      have := ih (pos + stride binary t) i (by simpa using hi) (by simpa using hname)
        (fun j hj => by simpa using hbefore (j + 1) (by omega))
      simp [buildV1.go, h0]
      simp [stride] at this
      rw [this]
      simp [locOf, stride, Nat.add_assoc]

/-- The location a scalar reader computes for a property is the sum of the strides of the properties before it in
HEADER order — for any order of the properties. -/
theorem buildV1_spec (binary : Bool) (attr name : Bytes) (props : List (Bytes × SType)) (i : Nat) (hi : i < props.length)
    (hname : props[i].1 = name) (hfirst : ∀ j (hj : j < i), (props[j]'(by omega)).1 ≠ name) :
    buildV1 binary props attr name =
      some ⟨attr, [name], [locOf binary props i], if binary then some props[i].2 else none⟩ := by
  have := buildV1_go_spec binary attr name props 0 i hi hname hfirst
  simpa [buildV1] using this

/-- the ASCII scalar reader never learns the property's type (reader_vector1.go:38-57) -/
theorem buildV1_ascii_ty (attr name : Bytes) (props : List (Bytes × SType)) (b : Built)
    (h : buildV1 false props attr name = some b) : b.ty = none := by
  have : ∀ (props : List (Bytes × SType)) (pos : Nat) (b : Built),
      buildV1.go false attr name props pos = some b → b.ty = none := by
    intro props
    induction props with
    | nil => intro pos b h; simp [buildV1.go] at h
    | cons p ps ih =>
      intro pos b h
      obtain ⟨n, t⟩ := p
      by_cases hn : n = name
      · simp [buildV1.go, hn] at h; simp [← h]
      · simp [buildV1.go, hn] at h; exact ih _ b h
  exact this props 0 b (by simpa [buildV1] using h)

/-! ### header lines: LF and CRLF -/

theorem readLine_lf (l rest : Bytes) (h : ∀ b ∈ l, b ≠ 10 ∧ b ≠ 13) : readLine (l ++ 10 :: rest) = some (l, rest) := by
  induction l with
  | nil => simp [readLine]
  | cons b l ih =>
    have hb := h b (by simp)
    have := ih (fun x hx => h x (by simp [hx]))
    simp [readLine, hb.1, hb.2, this]

theorem readLine_crlf (l rest : Bytes) (h : ∀ b ∈ l, b ≠ 10 ∧ b ≠ 13) :
    readLine (l ++ 13 :: 10 :: rest) = some (l, rest) := by
  induction l with
  | nil => simp [readLine]
  | cons b l ih =>
    have hb := h b (by simp)
    have := ih (fun x hx => h x (by simp [hx]))
    simp [readLine, hb.1, hb.2, this]

/-! ### `mapM` in `Except`, well-formedness, and the size of what `writeBody` emits -/

inductive All2 {β γ : Type} (P : β → γ → Prop) : List β → List γ → Prop
  | nil : All2 P [] []
  | cons {x y xs ys} : P x y → All2 P xs ys → All2 P (x :: xs) (y :: ys)

theorem All2.length_eq {β γ : Type} {P : β → γ → Prop} {xs ys} (h : All2 P xs ys) : ys.length = xs.length := by
  induction h with
  | nil => rfl
  | cons _ _ ih => simp [ih]

theorem mapM_ok_cons {β γ : Type} (f : β → R γ) (x : β) (xs : List β) (ys : List γ)
    (h : (x :: xs).mapM f = .ok ys) : ∃ y ys', ys = y :: ys' ∧ f x = .ok y ∧ xs.mapM f = .ok ys' := by
  rw [List.mapM_cons] at h
  cases hx : f x with
  | error e => simp [hx, bind, Except.bind] at h
  | ok y =>
    cases hxs : xs.mapM f with
    | error e => simp [hx, hxs, bind, Except.bind] at h
    | ok ys' =>
      simp [hx, hxs, bind, Except.bind, pure, Except.pure] at h
      exact ⟨y, ys', h.symm, rfl, rfl⟩

theorem mapM_ok_forall₂ {β γ : Type} (f : β → R γ) :
    ∀ (xs : List β) (ys : List γ), xs.mapM f = .ok ys → All2 (fun x y => f x = .ok y) xs ys := by
  intro xs
  induction xs with
  | nil => intro ys h; simp [pure, Except.pure] at h; subst h; exact .nil
  | cons x xs ih =>
    intro ys h
    obtain ⟨y, ys', rfl, hx, hxs⟩ := mapM_ok_cons f x xs ys h
    exact .cons hx (ih ys' hxs)

theorem forall₂_flatten_length {β : Type} (P : β → Bytes → Prop) (k : Nat) (hP : ∀ x y, P x y → y.length = k) :
    ∀ (xs : List β) (ys : List Bytes), All2 P xs ys → ys.flatten.length = xs.length * k := by
  intro xs ys h
  induction h with
  | nil => simp
  | cons hxy _ ih => simp [hP _ _ hxy, ih, Nat.succ_mul]; omega


theorem WF_items (m : MeshVal α) (h : m.WF = true) : ∀ a ∈ m.attrs, ∀ x ∈ a.data, x.length = a.dim := by
  intro a ha x hx
  simp only [MeshVal.WF, Bool.and_eq_true, List.all_eq_true, decide_eq_true_eq] at h
  have := h.1.1.2 a ha
  exact this.2 x hx

theorem find_mem (m : MeshVal α) (dim : Nat) (name : Bytes) (a : Attr α) (h : m.find dim name = some a) :
    a ∈ m.attrs ∧ a.dim = dim := by
  simp only [MeshVal.find] at h
  have h1 := List.mem_of_find?_eq_some h
  have h2 := List.find?_some h
  exact ⟨h1, (of_decide_eq_true h2).1⟩

theorem writerValues_length (m : MeshVal α) (hwf : m.WF = true) (w : WProp) (i : Nat) (comps : List α)
    (h : writerValues m w i = .ok comps) : comps.length = w.names.length := by
  simp only [writerValues] at h
  split at h
  · simp at h
  · rename_i a ha
    split at h
    · simp at h
    · rename_i x hx
      simp at h; subst h
      obtain ⟨hmem, hdim⟩ := find_mem m _ _ a ha
      have := WF_items m hwf a hmem x (List.mem_of_getElem? hx)
      simp [this, hdim, WProp.dim]

theorem writerTypes_cons (w : WProp) (ws : List WProp) :
    writerTypes (w :: ws) = w.names.map (fun _ => w.ty) ++ writerTypes ws := by
  simp [writerTypes]

theorem vertexRecord_length (m : MeshVal α) (hwf : m.WF = true) (i : Nat) :
    ∀ (ws : List WProp) (r : List α), vertexRecord m ws i = .ok r → r.length = (writerTypes ws).length := by
  intro ws
  induction ws with
  | nil => intro r h; simp [vertexRecord, pure, Except.pure, bind, Except.bind] at h; subst h; simp [writerTypes]
  | cons w ws ih =>
    intro r h
    simp only [vertexRecord] at h
    cases hp : (w :: ws).mapM (fun w => writerValues m w i) with
    | error e => simp [hp, bind, Except.bind] at h
    | ok parts =>
      simp [hp, bind, Except.bind, pure, Except.pure] at h
      subst h
      obtain ⟨y, ys', rfl, hy, hys⟩ := mapM_ok_cons _ w ws parts hp
      have h1 := writerValues_length m hwf w i y hy
      have h2 := ih ys'.flatten (by simp [vertexRecord, hys, bind, Except.bind, pure, Except.pure])
      simp [writerTypes_cons, h1, h2]


theorem chunk3_length : ∀ (l : List Int) (tris : List (Int × Int × Int)), chunk3 l = some tris → tris.length = l.length / 3
  | [], tris, h => by simp [chunk3] at h; simp [← h]
  | [_], _, h => by simp [chunk3] at h
  | [_, _], _, h => by simp [chunk3] at h
  | a :: b :: c :: rest, tris, h => by
    simp only [chunk3, Option.map_eq_some_iff] at h
    obtain ⟨t, ht, rfl⟩ := h
    have := chunk3_length rest t ht
    simp [this]; omega

theorem atIdx_mem {β : Type} (l : List β) (i : Int) (x : β) (h : atIdx l i = .ok x) : x ∈ l := by
  simp only [atIdx] at h
  split at h
  · simp at h
  · split at h
    · rename_i y hy; simp at h; subst h; exact List.mem_of_getElem? hy
    · simp at h

/-- byte size of one binary face record of the writer -/
def faceSize (hasTex : Bool) : Nat := 13 + (if hasTex then 25 else 0)

theorem encFaceBin_length (c : Coding α) (e : Endian) (f : WFace α) :
    (encFaceBin c e f).length = 13 + (match f.uv with | none => 0 | some uv => 1 + 4 * uv.length) := by
  obtain ⟨⟨i0, i1, i2⟩, uv⟩ := f
  cases uv with
  | none => simp [encFaceBin, put32_length]
  | some uv =>
    simp only [encFaceBin, List.length_append, put32_length, List.length_cons, List.length_nil]
    have : ((uv.map (fun v => put32 e (c.f32 v))).flatten).length = 4 * uv.length := by
      induction uv with
      | nil => simp
      | cons x xs ih => simp [put32_length, ih]; omega
    rw [this]; try omega

theorem flatten_map_length {β : Type} (g : β → Bytes) (k : Nat) :
    ∀ (l : List β), (∀ x ∈ l, (g x).length = k) → ((l.map g).flatten).length = l.length * k := by
  intro l
  induction l with
  | nil => simp
  | cons x xs ih =>
    intro h
    have h1 := h x (by simp)
    have h2 := ih (fun y hy => h y (by simp [hy]))
    simp only [List.map_cons, List.flatten_cons, List.length_append, List.length_cons, h1, h2, Nat.succ_mul]
    omega

theorem All2.forall_right {β γ : Type} {P : β → γ → Prop} {Q : γ → Prop} (hPQ : ∀ x y, P x y → Q y) {xs ys}
    (h : All2 P xs ys) : ∀ y ∈ ys, Q y := by
  induction h with
  | nil => intro y hy; simp at hy
  | cons hxy _ ih =>
    intro y hy
    simp at hy
    rcases hy with rfl | hy
    · exact hPQ _ _ hxy
    · exact ih y hy

theorem faceRecords_sizes (c : Coding α) (e : Endian) (m : MeshVal α) (hwf : m.WF = true) :
    ∀ (tris : List (Int × Int × Int)) (fs : List (WFace α)), faceRecords m tris = .ok fs →
      ((fs.map (encFaceBin c e)).flatten).length = tris.length * faceSize (hasTexCoord m) := by
  intro tris fs h
  simp only [faceRecords] at h
  cases htex : m.find 2 texCoordAttr with
  | none =>
    simp [htex] at h; subst h
    have : hasTexCoord m = false := by simp [hasTexCoord, MeshVal.has, htex]
    rw [this, flatten_map_length _ (faceSize false)]
    · simp
    · intro f hf
      simp only [List.mem_map] at hf
      obtain ⟨t, _, rfl⟩ := hf
      simp [encFaceBin_length, faceSize]
  | some tex =>
    have hT : hasTexCoord m = true := by simp [hasTexCoord, MeshVal.has, htex]
    rw [hT]
    simp only [htex] at h
    obtain ⟨hmem, hdim⟩ := find_mem m _ _ tex htex
    have hitem : ∀ x ∈ tex.data, x.length = 2 := fun x hx => by rw [WF_items m hwf tex hmem x hx, hdim]
    have hall := mapM_ok_forall₂ _ tris fs h
    have hlen := hall.length_eq
    have huv : ∀ f ∈ fs, ∃ uv, f.uv = some uv ∧ uv.length = 6 := by
      refine All2.forall_right (Q := fun f => ∃ uv, f.uv = some uv ∧ uv.length = 6) ?_ hall
      intro t f hxy
      obtain ⟨a, b, c'⟩ := t
      simp only [] at hxy
      cases h1 : atIdx tex.data a with
      | error e => simp [h1, bind, Except.bind] at hxy
      | ok p1 =>
        cases h2 : atIdx tex.data b with
        | error e => simp [h1, h2, bind, Except.bind] at hxy
        | ok p2 =>
          cases h3 : atIdx tex.data c' with
          | error e => simp [h1, h2, h3, bind, Except.bind] at hxy
          | ok p3 =>
            simp [h1, h2, h3, bind, Except.bind, pure, Except.pure] at hxy
            subst hxy
            have l1 := hitem p1 (atIdx_mem _ _ _ h1)
            have l2 := hitem p2 (atIdx_mem _ _ _ h2)
            have l3 := hitem p3 (atIdx_mem _ _ _ h3)
            exact ⟨_, rfl, by simp [l1, l2, l3]⟩
    rw [flatten_map_length _ (faceSize true), hlen]
    intro f hf
    obtain ⟨uv, huv1, huv2⟩ := huv f hf
    simp [encFaceBin_length, huv1, huv2, faceSize]


theorem All2.imp {β γ : Type} {P Q : β → γ → Prop} (hPQ : ∀ x y, P x y → Q x y) {xs ys} (h : All2 P xs ys) : All2 Q xs ys := by
  induction h with
  | nil => exact .nil
  | cons hxy _ ih => exact .cons (hPQ _ _ hxy) ih

theorem All2.flatten_length {β : Type} {P : β → Bytes → Prop} (k : Nat) (hP : ∀ x y, P x y → y.length = k) {xs ys}
    (h : All2 P xs ys) : ys.flatten.length = xs.length * k := by
  induction h with
  | nil => simp
  | cons hxy _ ih => simp only [List.flatten_cons, List.length_append, List.length_cons, hP _ _ hxy, ih, Nat.succ_mul]; omega

/-- the vertex block of a binary body: one record of Σ size(header types) bytes per vertex -/
theorem vertexBlock_length (c : Coding α) (e : Endian) (m : MeshVal α) (hwf : m.WF = true) (ws : List WProp)
    (recs : List (List α)) (vbytes : List Bytes)
    (hrecs : (List.range m.attrLen).mapM (vertexRecord m ws) = .ok recs)
    (hv : recs.mapM (fun r => encRecordBin c e (writerTypes ws) r) = .ok vbytes) :
    vbytes.flatten.length = m.attrLen * ((writerTypes ws).map SType.size).sum := by
  have h1 := mapM_ok_forall₂ _ _ _ hrecs
  have hlen : recs.length = m.attrLen := by simpa using h1.length_eq
  have hr : ∀ r ∈ recs, r.length = (writerTypes ws).length :=
    All2.forall_right (Q := fun r => r.length = (writerTypes ws).length)
      (fun i r hir => vertexRecord_length m hwf i ws r hir) h1
  have h2 := mapM_ok_forall₂ _ _ _ hv
  have h3 : ∀ r ∈ recs, ∀ bs, encRecordBin c e (writerTypes ws) r = .ok bs → bs.length = ((writerTypes ws).map SType.size).sum :=
    fun r hr' bs hbs => encRecordBin_length c e _ r bs (hr r hr') hbs
  -- restrict the relation to members of recs
  have h4 : ∀ {xs : List (List α)} {ys : List Bytes}, All2 (fun r bs => encRecordBin c e (writerTypes ws) r = .ok bs) xs ys →
      (∀ r ∈ xs, r ∈ recs) → ys.flatten.length = xs.length * ((writerTypes ws).map SType.size).sum := by
    intro xs ys hall
    induction hall with
    | nil => intro _; simp
    | cons hxy _ ih =>
      intro hsub
      have := h3 _ (hsub _ (by simp)) _ hxy
      have := ih (fun r hr' => hsub r (by simp [hr']))
      simp only [List.flatten_cons, List.length_append, List.length_cons, Nat.succ_mul, *]; omega
  rw [h4 h2 (fun r hr' => hr'), hlen]


theorem writeBody_core_of_ok {α : Type} (c : Coding α) (cfg : WriterCfg) (m : MeshVal α) (body : Bytes)
    (h : writeBody c cfg m = .ok body) :
    namesOK (((selectWriters cfg m).map WProp.names).flatten) = true ∧ writeBodyCore c cfg m = .ok body := by
  simp only [writeBody] at h
  split at h
  · rename_i hn; exact ⟨hn, h⟩
  · simp at h

theorem writeBody_binary_length (c : Coding α) (cfg : WriterCfg) (m : MeshVal α) (body : Bytes)
    (hf : cfg.format ≠ .ascii) (hwf : m.WF = true) (h : writeBody c cfg m = .ok body) :
    body.length = m.attrLen * ((writerTypes (selectWriters cfg m)).map SType.size).sum
      + (if m.topo = .triangle then triCount m * faceSize (hasTexCoord m) else 0) := by
  obtain ⟨_, h⟩ := writeBody_core_of_ok c cfg m body h
  simp only [writeBodyCore] at h
  cases hrecs : (List.range m.attrLen).mapM (vertexRecord m (selectWriters cfg m)) with
  | error e => simp [hrecs, bind, Except.bind] at h
  | ok recs =>
    simp only [hrecs, bind, Except.bind] at h
    cases hfmt : cfg.format with
    | ascii => exact absurd hfmt hf
    | le =>
      simp only [hfmt] at h
      cases hv : recs.mapM (fun r => encRecordBin c Format.le.endian (writerTypes (selectWriters cfg m)) r) with
      | error e => simp [hv] at h
      | ok vbytes =>
        simp only [hv] at h
        have hvb := vertexBlock_length c _ m hwf _ recs vbytes hrecs hv
        by_cases htri : m.topo = .triangle
        · simp only [htri, ne_eq, not_true_eq_false, if_false, if_true] at h ⊢
          cases hc : chunk3 m.indices with
          | none => simp [hc] at h
          | some tris =>
            simp only [hc] at h
            cases hfs : faceRecords m tris with
            | error e => simp [hfs] at h
            | ok fs =>
              simp [hfs, pure, Except.pure] at h
              subst h
              have := faceRecords_sizes c Format.le.endian m hwf tris fs hfs
              simp [hvb, this, chunk3_length _ _ hc, triCount]
        · simp [htri, pure, Except.pure] at h ⊢
          subst h; exact hvb
    | be =>
      simp only [hfmt] at h
      cases hv : recs.mapM (fun r => encRecordBin c Format.be.endian (writerTypes (selectWriters cfg m)) r) with
      | error e => simp [hv] at h
      | ok vbytes =>
        simp only [hv] at h
        have hvb := vertexBlock_length c _ m hwf _ recs vbytes hrecs hv
        by_cases htri : m.topo = .triangle
        · simp only [htri, ne_eq, not_true_eq_false, if_false, if_true] at h ⊢
          cases hc : chunk3 m.indices with
          | none => simp [hc] at h
          | some tris =>
            simp only [hc] at h
            cases hfs : faceRecords m tris with
            | error e => simp [hfs] at h
            | ok fs =>
              simp [hfs, pure, Except.pure] at h
              subst h
              have := faceRecords_sizes c Format.be.endian m hwf tris fs hfs
              simp [hvb, this, chunk3_length _ _ hc, triCount]
        · simp [htri, pure, Except.pure] at h ⊢
          subst h; exact hvb

/-- what a structured header says the binary body occupies: per element, count × record size, where the face
record size is that of a triangle (count field + 3 indices, + count field + 6 texture coordinates) -/
def describedSize (h : Header) : Option Nat :=
  match h.elements with
  | [ve] => (scalarProps ve.props).map (fun ps => ve.count.toNat * (ps.map (fun p => p.2.size)).sum)
  | [ve, fe] => do
    let ps ← scalarProps ve.props
    let lp ← listProps fe.props
    pure (ve.count.toNat * (ps.map (fun p => p.2.size)).sum + fe.count.toNat * faceSizeTri lp)
  | _ => none

theorem scalarProps_append (a b : List PProp) (pa pb : List (Bytes × SType))
    (ha : scalarProps a = some pa) (hb : scalarProps b = some pb) : scalarProps (a ++ b) = some (pa ++ pb) := by
  induction a generalizing pa with
  | nil => simp [scalarProps] at ha; subst ha; simpa using hb
  | cons p ps ih =>
    cases p with
    | list n c t => simp [scalarProps] at ha
    | scalar n t =>
      simp only [scalarProps, Option.map_eq_some_iff] at ha
      obtain ⟨q, hq, rfl⟩ := ha
      simp [scalarProps, ih q hq]

theorem scalarProps_wprop (w : WProp) : scalarProps w.props = some (w.names.map (fun n => (n, w.ty))) := by
  simp only [WProp.props]
  induction w.names with
  | nil => simp [scalarProps]
  | cons n ns ih => simp [scalarProps, ih]

theorem scalarProps_writers (ws : List WProp) :
    ∃ ps, scalarProps ((ws.map WProp.props).flatten) = some ps ∧ ps.map (fun p => p.2) = writerTypes ws := by
  induction ws with
  | nil => exact ⟨[], by simp [scalarProps], by simp [writerTypes]⟩
  | cons w ws ih =>
    obtain ⟨ps, h1, h2⟩ := ih
    refine ⟨w.names.map (fun n => (n, w.ty)) ++ ps, ?_, ?_⟩
    · simpa using scalarProps_append _ _ _ _ (scalarProps_wprop w) h1
    · simp [writerTypes_cons, h2, Function.comp_def]

theorem faceSizeTri_faceProps (m : MeshVal α) :
    ∃ lp, listProps (faceProps m) = some lp ∧ faceSizeTri lp = faceSize (hasTexCoord m) := by
  cases h : hasTexCoord m with
  | false => exact ⟨[(nm "vertex_indices", .uchar, .int)], by simp [faceProps, h, listProps], by decide⟩
  | true =>
    exact ⟨[(nm "vertex_indices", .uchar, .int), (nm "texcoord", .uchar, .float)], by simp [faceProps, h, listProps], by decide⟩


/-- the header `MeshWriter.Write` builds declares exactly the size of the binary body it then writes -/
theorem writeHeader_describes_binary_body (c : Coding α) (cfg : WriterCfg) (m : MeshVal α) (body : Bytes)
    (hf : cfg.format ≠ .ascii) (hwf : m.WF = true) (h : writeBody c cfg m = .ok body) :
    describedSize (writeHeader cfg m) = some body.length := by
  have hlen := writeBody_binary_length c cfg m body hf hwf h
  obtain ⟨ps, hps, hty⟩ := scalarProps_writers (selectWriters cfg m)
  have hsum : (ps.map (fun p => p.2.size)).sum = ((writerTypes (selectWriters cfg m)).map SType.size).sum := by
    rw [← hty]; simp [Function.comp_def]
  by_cases htri : m.topo = .triangle
  · obtain ⟨lp, hlp, hfs⟩ := faceSizeTri_faceProps m
    simp [describedSize, writeHeader, htri, hps, hlp, hlen, hsum, hfs, bind, Option.bind]
  · simp [describedSize, writeHeader, htri, hps, hlen, hsum]



/-- A concrete coding over `Nat` ("float32" keeps the value mod 2³², 8-bit mod 256, normalisation is `/ 255`, decimal
printing / parsing of naturals).  Used only to instantiate hypotheses in `example`s (non-vacuity) and to make the
counterexample theorems concrete. -/
def toyCoding : Coding Nat where
  f32 x := UInt32.ofNat x
  unf32 b := b.toNat
  f64 x := UInt64.ofNat x
  unf64 b := b.toNat
  u8 x := UInt8.ofNat x
  i32 x := UInt32.ofNat x
  ofInt i := i.toNat
  div255 x := x / 255
  mulInv255 x := x / 255
  showF x := showNat x
  showI x := showNat x
  parseF s := parseDigits s 0
  parseF64 s := parseDigits s 0

/-! ### the reference encoding of C08 (`PlySpec.Datum.bin`) under the reader -/

open PlySpec
/-- what decoding a reference-encoded datum yields (binary) -/
def datumRead (c : Coding α) (dim : Nat) : Datum α → α
  | .u8 b => c.norm8 dim (c.ofInt b.toNat)
  | .i32 i => c.ofInt (toInt32 (ofInt32 i))
  | .f32 x => c.unf32 (c.f32 x)
  | .f64 x => c.unf64 (c.f64 x)

theorem datum_bin_length (c : Coding α) (e : Endian) (d : Datum α) : (d.bin c e).length = d.ty.size := by
  cases d <;> simp [Datum.bin, Datum.ty, SType.size, put32_length, put64_length]

theorem dec_datum (c : Coding α) (e : Endian) (dim : Nat) (d : Datum α) (pre post : Bytes) :
    decScalarBin c e dim d.ty (pre ++ d.bin c e ++ post) pre.length = .ok (datumRead c dim d) := by
  cases d <;> simp [Datum.bin, Datum.ty, decScalarBin, datumRead, put32_get32, put64_get64, List.append_assoc]

/-- reference encoding, any property order and type mix: decoding at the offset computed from the HEADER types yields
the `i`-th datum of the record -/
theorem spec_field_at_offset (c : Coding α) (e : Endian) (dim : Nat) :
    ∀ (r : List (Datum α)) (pre post : Bytes) (i : Nat) (hi : i < r.length),
      decScalarBin c e dim r[i].ty (pre ++ (r.map (Datum.bin c e)).flatten ++ post)
        (pre.length + offsetOf (r.map Datum.ty) i) = .ok (datumRead c dim r[i]) := by
  intro r
  induction r with
  | nil => intro _ _ i hi; simp at hi
  | cons d r ih =>
    intro pre post i hi
    cases i with
    | zero =>
      have := dec_datum c e dim d pre ((r.map (Datum.bin c e)).flatten ++ post)
      simpa [offsetOf, List.append_assoc] using this
    | succ i =>
      have := ih (pre ++ d.bin c e) post i (by simpa using hi)
      simpa [offsetOf, List.append_assoc, datum_bin_length, Nat.add_assoc] using this

theorem spec_record_length (c : Coding α) (e : Endian) (r : List (Datum α)) :
    ((r.map (Datum.bin c e)).flatten).length = ((r.map Datum.ty).map SType.size).sum := by
  induction r with
  | nil => simp
  | cons d r ih => simp [datum_bin_length, ih]


/-- a built reader whose components sit at the header positions `idxs`, all of one type -/
structure Located (tys : List SType) (b : Built) (idxs : List Nat) : Prop where
  ty : ∃ t, b.ty = some t ∧ ∀ i ∈ idxs, ∃ h : i < tys.length, tys[i] = t
  offs : b.offs = idxs.map (offsetOf tys)

/-- what the located readers produce for one record: for each reader the data of its components -/
def rowOf (c : Coding α) (bl : List (Built × List Nat)) (r : List (Datum α)) : List (List α) :=
  bl.map (fun p => p.2.filterMap (fun i => (r[i]?).map (datumRead c p.1.names.length)))

theorem readBin_located (c : Coding α) (e : Endian) (tys : List SType) (b : Built) (idxs : List Nat)
    (hl : Located tys b idxs) (r : List (Datum α)) (hr : r.map Datum.ty = tys) (post : Bytes) :
    b.readBin c e ((r.map (Datum.bin c e)).flatten ++ post)
      = .ok (idxs.filterMap (fun i => (r[i]?).map (datumRead c b.names.length))) := by
  obtain ⟨t, hty, hidx⟩ := hl.ty
  simp only [Built.readBin, hty, hl.offs]
  clear hl
  induction idxs with
  | nil => simp [pure, Except.pure]
  | cons i idxs ih =>
    obtain ⟨hi, hti⟩ := hidx i (by simp)
    have hlen : r.length = tys.length := by rw [← hr]; simp
    have hi' : i < r.length := by omega
    have hf := spec_field_at_offset c e b.names.length r [] post i hi'
    have hrt : r[i].ty = t := by
      have : (r.map Datum.ty)[i]'(by simpa using hi') = tys[i] := by simp [hr]
      simpa [hti] using this
    simp only [List.nil_append, List.length_nil, Nat.zero_add, hr, hrt] at hf
    have ih' := ih (fun j hj => hidx j (by simp [hj]))
    simp [List.mapM_cons, hf, ih', bind, Except.bind, pure, Except.pure, List.getElem?_eq_getElem hi']

/-- THE VERTEX BLOCK OF A REFERENCE-ENCODED FILE (binary, both byte orders): whatever the order and types of the
properties, the vertex loop of the reader decodes, for every record, exactly the data of the components each located
reader claims, and leaves the rest of the input untouched -/
theorem spec_vertex_block (c : Coding α) (e : Endian) (tys : List SType) (bl : List (Built × List Nat))
    (hbl : ∀ p ∈ bl, Located tys p.1 p.2) :
    ∀ (verts : List (List (Datum α))) (rest : Bytes), (∀ r ∈ verts, r.map Datum.ty = tys) →
      readVertsBin c e ((tys.map SType.size).sum) (bl.map (·.1)) verts.length
          ((verts.map (fun r => (r.map (Datum.bin c e)).flatten)).flatten ++ rest)
        = .ok (verts.map (rowOf c bl), rest) := by
  intro verts
  induction verts with
  | nil => intro rest _; simp [readVertsBin]
  | cons r verts ih =>
    intro rest hty
    have hr := hty r (by simp)
    have hlen : ((r.map (Datum.bin c e)).flatten).length = (tys.map SType.size).sum := by
      rw [spec_record_length, hr]
    have hrow : (bl.map (·.1)).mapM (fun b => b.readBin c e (((r.map (Datum.bin c e)).flatten ++
        ((verts.map (fun r => (r.map (Datum.bin c e)).flatten)).flatten ++ rest)).take ((tys.map SType.size).sum)))
        = .ok (rowOf c bl r) := by
      rw [List.take_left' hlen]
      · clear ih hlen
        induction bl with
        | nil => simp [rowOf, pure, Except.pure]
        | cons p bl ihb =>
          have h1 := readBin_located c e tys p.1 p.2 (hbl p (by simp)) r hr []
          simp only [List.append_nil] at h1
          have h2 := ihb (fun q hq => hbl q (by simp [hq]))
          simp only [rowOf] at h2 ⊢
          simp [List.mapM_cons, h1, h2, bind, Except.bind, pure, Except.pure]
    have ih' := ih rest (fun r' hr' => hty r' (by simp [hr']))
    simp only [List.map_cons, List.flatten_cons, List.length_cons, readVertsBin, List.append_assoc]
    have hnot : ¬ (((r.map (Datum.bin c e)).flatten ++ ((verts.map (fun r => (r.map (Datum.bin c e)).flatten)).flatten ++ rest)).length
        < (tys.map SType.size).sum) := by simp [hlen]
    simp only [hnot, if_false, hrow, bind, Except.bind]
    rw [List.drop_left' hlen, ih']
    simp [pure, Except.pure]


/-- representable data: the decoded value is the datum's value (`Datum.val`); needs an in-range integer, a float32 /
float64 that survives its own coding, and a reader that is not the 2-vector (which normalises by `·(1/255)`) -/
def Datum.Exact (c : Coding α) : Datum α → Prop
  | .u8 _ => True
  | .i32 i => -(2 ^ 31 : Int) ≤ i ∧ i < 2 ^ 31
  | .f32 x => c.unf32 (c.f32 x) = x
  | .f64 x => c.unf64 (c.f64 x) = x

theorem toInt32_ofInt32' (i : Int) (h : -(2 ^ 31 : Int) ≤ i ∧ i < 2 ^ 31) : toInt32 (ofInt32 i) = i := by
  simp only [toInt32, ofInt32, UInt32.toNat_ofNat']
  split <;> omega

theorem datumRead_eq_val (c : Coding α) (dim : Nat) (hdim : dim ≠ 2) (d : Datum α) (h : Datum.Exact c d) :
    datumRead c dim d = d.val c := by
  cases d <;> simp_all [datumRead, Datum.val, Datum.Exact, Coding.norm8, toInt32_ofInt32']

/-! ### unclaimed properties get a scalar reader (`addUnclaimed`) -/

theorem buildV1_go_found (binary : Bool) (attr name : Bytes) :
    ∀ (props : List (Bytes × SType)) (pos : Nat), (∃ p ∈ props, p.1 = name) →
      ∃ b, buildV1.go binary attr name props pos = some b ∧ b.names = [name] ∧ b.attr = attr := by
  intro props
  induction props with
  | nil => intro _ h; simp at h
  | cons p ps ih =>
    intro pos h
    obtain ⟨n, t⟩ := p
    by_cases hn : n = name
    · exact ⟨⟨attr, [name], [pos], if binary then some t else none⟩, by simp [buildV1.go, hn], rfl, rfl⟩
    · have : ∃ p ∈ ps, p.1 = name := by
        obtain ⟨q, hq, hqn⟩ := h
        simp at hq
        rcases hq with rfl | hq
        · exact absurd hqn hn
        · exact ⟨q, hq, hqn⟩
      obtain ⟨b, hb, h1, h2⟩ := ih (pos + (if binary then t.size else 1)) this
      exact ⟨b, by simp [buildV1.go, hn, hb], h1, h2⟩

/-- one step of the `addUnclaimed` fold -/
def unclaimedStep (binary : Bool) (props : List (Bytes × SType)) (acc : List Built) (p : Bytes × SType) : List Built :=
  if acc.any (fun b => b.claims p.1) then acc
  else match buildV1 binary props p.1 p.1 with
    | some b => acc ++ [b]
    | none => acc

theorem addUnclaimed_eq (binary : Bool) (props : List (Bytes × SType)) (built : List Built) :
    addUnclaimed binary props built = props.foldl (unclaimedStep binary props) built := rfl

theorem unclaimedStep_mono (binary : Bool) (props : List (Bytes × SType)) (acc : List Built) (p : Bytes × SType) :
    ∀ b ∈ acc, b ∈ unclaimedStep binary props acc p := by
  intro b hb
  simp only [unclaimedStep]
  split
  · exact hb
  · split <;> simp [hb]

theorem foldl_unclaimed_mono (binary : Bool) (props : List (Bytes × SType)) :
    ∀ (l : List (Bytes × SType)) (acc : List Built), ∀ b ∈ acc, b ∈ l.foldl (unclaimedStep binary props) acc := by
  intro l
  induction l with
  | nil => intro acc b hb; exact hb
  | cons p l ih => intro acc b hb; exact ih _ b (unclaimedStep_mono binary props acc p b hb)

/-- every reader the fold adds over `l` claims exactly one name, that of a property of `l` -/
theorem foldl_unclaimed_origin (binary : Bool) (props : List (Bytes × SType)) :
    ∀ (l : List (Bytes × SType)) (acc : List Built), ∀ b ∈ l.foldl (unclaimedStep binary props) acc,
      b ∈ acc ∨ ∃ p ∈ l, b.names = [p.1] := by
  intro l
  induction l with
  | nil => intro acc b hb; exact .inl hb
  | cons p l ih =>
    intro acc b hb
    rcases ih _ b hb with h | ⟨q, hq, hqn⟩
    · simp only [unclaimedStep] at h
      split at h
      · exact .inl h
      · split at h
        · rename_i b' hb'
          simp at h
          rcases h with h | rfl
          · exact .inl h
          · refine .inr ⟨p, by simp, ?_⟩
            simp only [buildV1] at hb'
            by_cases hex : ∃ q ∈ props, q.1 = p.1
            · obtain ⟨b'', hb'', hn, _⟩ := buildV1_go_found binary p.1 p.1 props 0 hex
              rw [hb''] at hb'; simp at hb'; subst hb'; exact hn
            · exfalso
              have : ∀ (ps : List (Bytes × SType)) (pos : Nat), (¬ ∃ q ∈ ps, q.1 = p.1) → buildV1.go binary p.1 p.1 ps pos = none := by
                intro ps
                induction ps with
                | nil => intro _ _; simp [buildV1.go]
                | cons x xs ihx =>
                  intro pos hne
                  obtain ⟨n, t⟩ := x
                  have hn : n ≠ p.1 := fun h => hne ⟨(n, t), by simp, h⟩
                  simp [buildV1.go, hn]
                  exact ihx _ (fun ⟨q, hq, hqn⟩ => hne ⟨q, by simp [hq], hqn⟩)
              rw [this props 0 hex] at hb'; simp at hb'
        · exact .inl h
    · exact .inr ⟨q, by simp [hq], hqn⟩

/-- AN UNRECOGNISED PROPERTY GETS ITS OWN SCALAR READER, THROUGH `addUnclaimed`: if no reader built from the configured
property readers claims the name of the property at header position `i` (names pairwise distinct), the reader list
`addUnclaimed` returns contains the scalar reader named after the property, located at Σ strides before it -/
theorem addUnclaimed_adds (binary : Bool) (props : List (Bytes × SType)) (built : List Built)
    (hnd : (props.map (·.1)).Nodup) (i : Nat) (hi : i < props.length)
    (hun : ∀ b ∈ built, b.claims props[i].1 = false) :
    (⟨props[i].1, [props[i].1], [locOf binary props i], if binary then some props[i].2 else none⟩ : Built)
      ∈ addUnclaimed binary props built := by
  rw [addUnclaimed_eq]
  have hsplit : props = props.take i ++ props[i] :: props.drop (i + 1) := by simp
  have hfirst : ∀ j (hj : j < i), (props[j]'(by omega)).1 ≠ props[i].1 := by
    intro j hj heq
    have h2 := (List.pairwise_iff_getElem.mp hnd) j i (by simp; omega) (by simpa using hi) hj
    exact h2 (by simpa using heq)
  have hb := buildV1_spec binary props[i].1 props[i].1 props i hi rfl hfirst
  have key : ∀ (g : List Built → Bytes × SType → List Built) (l : List (Bytes × SType)),
      l = props.take i ++ props[i] :: props.drop (i + 1) →
      l.foldl g built = (props.drop (i + 1)).foldl g (g ((props.take i).foldl g built) props[i]) := by
    intro g l hl; rw [hl, List.foldl_append, List.foldl_cons]
  rw [key _ props hsplit]
  apply foldl_unclaimed_mono
  -- the accumulator before step i does not claim the name
  have hacc : ∀ b ∈ (props.take i).foldl (unclaimedStep binary props) built,
      b.claims props[i].1 = false := by
    intro b hbm
    rcases foldl_unclaimed_origin binary _ _ _ b hbm with h | ⟨q, hq, hqn⟩
    · exact hun b h
    · simp only [Built.claims, hqn]
      obtain ⟨j, hj, rfl⟩ := List.getElem_of_mem hq
      have hj' : j < i := by simp at hj; omega
      have := hfirst j hj'
      simp [List.getElem_take] at this ⊢
      exact fun h => this h.symm
  simp only [unclaimedStep]
  have hany : ((props.take i).foldl (unclaimedStep binary props) built).any (fun b => b.claims props[i].1) = false := by
    simp only [List.any_eq_false]
    intro b hbm
    simp [hacc b hbm]
  simp [hany, hb]


/-! ### the vector claim scan `buildVec` -/

/-- the inner loop of `scanProp`: the component blocks for one property -/
def scanInner (pname : Bytes) (pty : SType) (force : Nat → Bool) (l : List (Bytes × Nat)) (s : Scan) : Scan :=
  l.foldl (fun acc x => scanComponent pname pty (force x.2) acc x.2 x.1) s

theorem scanInner_no_match (pname : Bytes) (pty : SType) (force : Nat → Bool) :
    ∀ (l : List (Bytes × Nat)) (s : Scan), (∀ x ∈ l, x.1 ≠ pname) → scanInner pname pty force l s = s := by
  intro l
  induction l with
  | nil => intro s _; rfl
  | cons x l ih =>
    intro s h
    have hx : pname ≠ x.1 := fun e => h x (by simp) e.symm
    simp only [scanInner, List.foldl_cons, scanComponent, hx, ne_eq, not_false_eq_true, if_true]
    exact ih s (fun y hy => h y (by simp [hy]))

theorem mem_zipIdx_fst {β : Type} : ∀ (l : List β) (k : Nat) (x : β × Nat), x ∈ l.zipIdx k → x.1 ∈ l := by
  intro l
  induction l with
  | nil => intro k x h; simp at h
  | cons a l ih =>
    intro k x h
    simp only [List.zipIdx_cons, List.mem_cons] at h
    rcases h with rfl | h
    · simp
    · simp [ih _ _ h]

/-- the property matches exactly component `pre.length` -/
theorem scanInner_match (n : Bytes) (t : SType) (force : Nat → Bool) (pre post : List Bytes)
    (hpre : n ∉ pre) (hpost : n ∉ post) (s : Scan) (hty : s.ty = none ∨ s.ty = some t) :
    scanInner n t force ((pre ++ n :: post).zipIdx) s
      = { s with offs := s.offs.set pre.length (some s.pos), ty := some t } := by
  have hz : (pre ++ n :: post).zipIdx = pre.zipIdx ++ (n, pre.length) :: post.zipIdx (pre.length + 1) := by
    simp [List.zipIdx_append, List.zipIdx_cons]
  simp only [scanInner, hz, List.foldl_append, List.foldl_cons]
  have h1 := scanInner_no_match n t force pre.zipIdx s (fun x hx e => hpre (e ▸ mem_zipIdx_fst _ _ x hx))
  simp only [scanInner] at h1
  rw [h1]
  have hstep : scanComponent n t (force pre.length) s pre.length n
      = { s with offs := s.offs.set pre.length (some s.pos), ty := some t } := by
    rcases hty with h | h <;> cases hf : force pre.length <;> simp [scanComponent, h, hf]
  rw [hstep]
  have h2 := scanInner_no_match n t force (post.zipIdx (pre.length + 1))
    { s with offs := s.offs.set pre.length (some s.pos), ty := some t }
    (fun x hx e => hpost (e ▸ mem_zipIdx_fst _ _ x hx))
  simpa only [scanInner] using h2


def forceW (_binary : Bool) (_names : List Bytes) (_k : Nat) : Bool := false

theorem scanProp_eq (binary : Bool) (names : List Bytes) (s : Scan) (p : Bytes × SType) :
    scanProp binary names s p =
      { scanInner p.1 p.2 (forceW binary names) names.zipIdx s with
        pos := (scanInner p.1 p.2 (forceW binary names) names.zipIdx s).pos + stride binary p.2 } := by
  rfl

theorem scanProp_no_match (binary : Bool) (names : List Bytes) (s : Scan) (p : Bytes × SType) (h : p.1 ∉ names) :
    scanProp binary names s p = { s with pos := s.pos + stride binary p.2 } := by
  have hi := scanInner_no_match p.1 p.2 (forceW binary names) names.zipIdx s
    (fun x hx e => h (by rw [← e]; exact mem_zipIdx_fst _ _ x hx))
  rw [scanProp_eq, hi]

theorem nodup_take_drop (names : List Bytes) (hn : names.Nodup) (k : Nat) (hk : k < names.length) :
    names = names.take k ++ names[k] :: names.drop (k + 1) ∧ names[k] ∉ names.take k ∧ names[k] ∉ names.drop (k + 1) := by
  have hs : names = names.take k ++ names[k] :: names.drop (k + 1) := by simp
  refine ⟨hs, ?_, ?_⟩
  · intro hmem
    obtain ⟨j, hj, hje⟩ := List.getElem_of_mem hmem
    have hj' : j < k := by simp at hj; omega
    have := (List.pairwise_iff_getElem.mp hn) j k (by omega) hk hj'
    simp [List.getElem_take] at hje
    exact this hje
  · intro hmem
    obtain ⟨j, hj, hje⟩ := List.getElem_of_mem hmem
    simp at hj
    have := (List.pairwise_iff_getElem.mp hn) k (k + 1 + j) hk (by omega) (by omega)
    simp at hje
    exact this hje.symm

theorem scanProp_match (binary : Bool) (names : List Bytes) (hn : names.Nodup) (s : Scan) (t : SType)
    (k : Nat) (hk : k < names.length) (hty : s.ty = none ∨ s.ty = some t) :
    scanProp binary names s (names[k], t) =
      { offs := s.offs.set k (some s.pos), ty := some t, pos := s.pos + stride binary t } := by
  obtain ⟨hs, h1, h2⟩ := nodup_take_drop names hn k hk
  rw [scanProp_eq]
  have hlen : (names.take k).length = k := by simp; omega
  have := scanInner_match names[k] t (forceW binary names) (names.take k) (names.drop (k + 1)) h1 h2 s hty
  rw [← hs, hlen] at this
  simp [this]


theorem locOf_succ (binary : Bool) (p : Bytes × SType) (ps : List (Bytes × SType)) (j : Nat) :
    locOf binary (p :: ps) (j + 1) = stride binary p.2 + locOf binary ps j := by
  simp [locOf]

/-- invariant of the scan over the element's properties -/
theorem scan_fold (binary : Bool) (names : List Bytes) (hn : names.Nodup) (t : SType) :
    ∀ (ps : List (Bytes × SType)) (s : Scan), (ps.map (·.1)).Nodup → (∀ p ∈ ps, p.1 ∈ names → p.2 = t) →
      (s.ty = none ∨ s.ty = some t) → s.offs.length = names.length →
      let s' := ps.foldl (scanProp binary names) s
      (s'.ty = none ∨ s'.ty = some t) ∧ s'.offs.length = names.length ∧
      (∀ k (hk : k < names.length),
        (∀ i (hi : i < ps.length), ps[i].1 = names[k] → s'.offs[k]? = some (some (s.pos + locOf binary ps i))) ∧
        ((∀ p ∈ ps, p.1 ≠ names[k]) → s'.offs[k]? = s.offs[k]?)) ∧
      ((∃ p ∈ ps, p.1 ∈ names) → s'.ty = some t) ∧ ((∀ p ∈ ps, p.1 ∉ names) → s'.ty = s.ty) := by
  intro ps
  induction ps with
  | nil =>
    intro s _ _ hty hlen
    refine ⟨hty, hlen, fun k hk => ⟨fun i hi => by simp at hi, fun _ => rfl⟩, fun ⟨p, hp, _⟩ => by simp at hp, fun _ => rfl⟩
  | cons p ps ih =>
    intro s hnd huni hty hlen
    have hc := List.nodup_cons.mp (by simpa using hnd : (p.1 :: ps.map (·.1)).Nodup)
    have hnd' : (ps.map (·.1)).Nodup := hc.2
    have hpnot : ∀ q ∈ ps, q.1 ≠ p.1 := fun q hq e => hc.1 (e ▸ List.mem_map_of_mem hq)
    have huni' : ∀ q ∈ ps, q.1 ∈ names → q.2 = t := fun q hq => huni q (by simp [hq])
    simp only [List.foldl_cons]
    by_cases hmem : p.1 ∈ names
    · -- the property is component k0, of type t
      obtain ⟨k0, hk0, hk0e⟩ := List.getElem_of_mem hmem
      have hpt : p.2 = t := huni p (by simp) hmem
      have hp : p = (names[k0], t) := by cases p; simp_all
      have hs1 := scanProp_match binary names hn s t k0 hk0 hty
      rw [hp, hs1]
      obtain ⟨h1, h2, h3, h4, h5⟩ := ih ⟨s.offs.set k0 (some s.pos), some t, s.pos + stride binary t⟩ hnd' huni'
        (.inr rfl) (by simpa using hlen)
      have hnone : ∀ q ∈ ps, q.1 ≠ names[k0] := fun q hq => by rw [hk0e]; exact hpnot q hq
      have htyfin : (ps.foldl (scanProp binary names) ⟨s.offs.set k0 (some s.pos), some t, s.pos + stride binary t⟩).ty = some t := by
        by_cases hex : ∃ q ∈ ps, q.1 ∈ names
        · exact h4 hex
        · have := h5 (fun q hq hqm => hex ⟨q, hq, hqm⟩)
          simpa using this
      refine ⟨.inr htyfin, h2, ?_, fun _ => htyfin, fun hall => absurd (List.getElem_mem hk0) (hall (names[k0], t) (by simp))⟩
      intro k hk
      refine ⟨?_, ?_⟩
      · intro i hi hname
        cases i with
        | zero =>
          simp at hname
          have hkk : k = k0 := by
            by_cases hne : k = k0
            · exact hne
            · exfalso
              rcases Nat.lt_or_gt_of_ne hne with hlt | hgt
              · exact (List.pairwise_iff_getElem.mp hn) k k0 hk hk0 hlt hname.symm
              · exact (List.pairwise_iff_getElem.mp hn) k0 k hk0 hk hgt hname
          subst hkk
          have := (h3 k hk).2 hnone
          rw [this]
          simp [locOf, List.getElem?_set, hlen, hk]
        | succ j =>
          have := (h3 k hk).1 j (by simpa using hi) (by simpa using hname)
          rw [this, locOf_succ]
          simp [Nat.add_assoc]
      · intro hall
        have hk_ne : k ≠ k0 := by
          intro e; subst e
          exact hall (names[k], t) (by simp) rfl
        have := (h3 k hk).2 (fun q hq => hall q (by simp [hq]))
        rw [this]
        simp [List.getElem?_set, Ne.symm hk_ne]
    · -- not a component of this reader
      rw [scanProp_no_match binary names s p hmem]
      obtain ⟨h1, h2, h3, h4, h5⟩ := ih ⟨s.offs, s.ty, s.pos + stride binary p.2⟩ hnd' huni' hty hlen
      refine ⟨h1, h2, ?_, ?_, ?_⟩
      · intro k hk
        refine ⟨?_, ?_⟩
        · intro i hi hname
          cases i with
          | zero => simp at hname; exact absurd (hname ▸ List.getElem_mem hk) hmem
          | succ j =>
            have := (h3 k hk).1 j (by simpa using hi) (by simpa using hname)
            rw [this, locOf_succ]
            simp [Nat.add_assoc]
        · intro hall
          exact (h3 k hk).2 (fun q hq => hall q (by simp [hq]))
      · rintro ⟨q, hq, hqm⟩
        simp at hq
        rcases hq with rfl | hq
        · exact absurd hqm hmem
        · exact h4 ⟨q, hq, hqm⟩
      · intro hall
        exact h5 (fun q hq => hall q (by simp [hq]))


theorem allSome_of {β : Type} : ∀ (l : List (Option β)) (g : List β), l.length = g.length →
    (∀ k (hk : k < g.length), l[k]? = some (some g[k])) → allSome l = some g := by
  intro l
  induction l with
  | nil => intro g hl _; cases g <;> simp_all [allSome]
  | cons x l ih =>
    intro g hl h
    cases g with
    | nil => simp at hl
    | cons y g =>
      have h0 := h 0 (by simp)
      simp at h0
      subst h0
      have := ih g (by simpa using hl) (fun k hk => by have := h (k + 1) (by simpa using hk); simpa [List.getElem_cons_succ] using this)
      simp [allSome, this]

theorem eq_of_fst_eq_of_nodup (props : List (Bytes × SType)) (hnd : (props.map (·.1)).Nodup) (p q : Bytes × SType)
    (hp : p ∈ props) (hq : q ∈ props) (h : p.1 = q.1) : p = q := by
  obtain ⟨i, hi, rfl⟩ := List.getElem_of_mem hp
  obtain ⟨j, hj, rfl⟩ := List.getElem_of_mem hq
  by_cases hij : i = j
  · subst hij; rfl
  · exfalso
    rcases Nat.lt_or_gt_of_ne hij with hlt | hgt
    · exact (List.pairwise_iff_getElem.mp hnd) i j (by simpa using hi) (by simpa using hj) hlt (by simpa using h)
    · exact (List.pairwise_iff_getElem.mp hnd) j i (by simpa using hj) (by simpa using hi) hgt (by simpa using h.symm)

/-- THE VECTOR CLAIM SCAN (`Vector{2,3,4}PropertyReader.build{Binary,Ascii}`), any property order: if the component
names are distinct, the header's property names are distinct and component `k` is the header property at position
`idx[k]`, all of one scalar type `t`, then the reader is built, decodes with type `t`, and the location of component
`k` is the sum of the strides of the properties before position `idx[k]` in HEADER order. -/
theorem buildVec_spec (binary : Bool) (props : List (Bytes × SType)) (attr : Bytes) (names : List Bytes)
    (hn : names.Nodup) (hne : names ≠ []) (hnd : (props.map (·.1)).Nodup) (t : SType) (idx : List Nat)
    (hlen : idx.length = names.length)
    (hidx : ∀ k (hk : k < names.length), ∃ hi : idx[k]'(by omega) < props.length, props[idx[k]'(by omega)] = (names[k], t)) :
    buildVec binary props attr names = some ⟨attr, names, idx.map (locOf binary props), some t⟩ := by
  have huni : ∀ p ∈ props, p.1 ∈ names → p.2 = t := by
    intro p hp hm
    obtain ⟨k, hk, hke⟩ := List.getElem_of_mem hm
    obtain ⟨hi, hpe⟩ := hidx k hk
    have := eq_of_fst_eq_of_nodup props hnd p _ hp (List.getElem_mem hi) (by rw [hpe]; exact hke.symm)
    rw [this, hpe]
  obtain ⟨h1, h2, h3, h4, _⟩ := scan_fold binary names hn t props ⟨names.map (fun _ => none), none, 0⟩ hnd huni (.inl rfl) (by simp)
  have hty : (props.foldl (scanProp binary names) ⟨names.map (fun _ => none), none, 0⟩).ty = some t := by
    apply h4
    have h0 : 0 < names.length := by cases names <;> simp_all
    obtain ⟨hi, hpe⟩ := hidx 0 h0
    exact ⟨_, List.getElem_mem hi, by rw [hpe]; exact List.getElem_mem h0⟩
  have hoffs : allSome (props.foldl (scanProp binary names) ⟨names.map (fun _ => none), none, 0⟩).offs
      = some (idx.map (locOf binary props)) := by
    apply allSome_of
    · simp [h2, hlen]
    · intro k hk
      have hk' : k < names.length := by simpa [hlen] using hk
      obtain ⟨hi, hpe⟩ := hidx k hk'
      have := (h3 k hk').1 (idx[k]'(by omega)) hi (by rw [hpe])
      simpa using this
  simp only [buildVec, hoffs, hty]

example : buildVec true [(nm "z", .float), (nm "q", .uchar), (nm "x", .float), (nm "y", .float)] (nm "Position")
    [nm "x", nm "y", nm "z"] = some ⟨nm "Position", [nm "x", nm "y", nm "z"], [5, 9, 0], some .float⟩ := by decide


/-- … hence (binary) the built vector reader is `Located` at the header positions `idx`: `ply_spec_vertex_block` applies -/
theorem buildVec_located (props : List (Bytes × SType)) (attr : Bytes) (names : List Bytes)
    (hn : names.Nodup) (hne : names ≠ []) (hnd : (props.map (·.1)).Nodup) (t : SType) (idx : List Nat)
    (hlen : idx.length = names.length)
    (hidx : ∀ k (hk : k < names.length), ∃ hi : idx[k]'(by omega) < props.length, props[idx[k]'(by omega)] = (names[k], t)) :
    ∃ b, buildVec true props attr names = some b ∧ b.attr = attr ∧ b.names = names ∧ Located (props.map (·.2)) b idx := by
  refine ⟨_, buildVec_spec true props attr names hn hne hnd t idx hlen hidx, rfl, rfl, ?_, ?_⟩
  · refine ⟨t, rfl, ?_⟩
    intro i hi
    obtain ⟨k, hk, rfl⟩ := List.getElem_of_mem hi
    obtain ⟨h1, h2⟩ := hidx k (by omega)
    exact ⟨by simpa using h1, by simp [h2]⟩
  · simp [locOf_binary]

end PlyLemmas
end PolyVerif
