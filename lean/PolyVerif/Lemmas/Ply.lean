/-
  Helper lemmas about `PolyVerif.Model.Ply` shared by Props/C04 and Props/C08 (core Lean only).
-/
import PolyVerif.Model.Ply
namespace PolyVerif
namespace PlyLemmas
open Ply
variable {α : Type}

theorem byteOf_toNat (n k : Nat) : (byteOf n k).toNat = (n / 256 ^ k) % 256 := by
  simp [byteOf]
theorem put32_get32 (e : Endian) (w : UInt32) (rest : Bytes) : get32 e (put32 e w ++ rest) = some w := by
  have h := w.toNat_lt
  cases e <;> simp [put32, get32, byteOf_toNat] <;>
    (apply UInt32.toNat_inj.mp; simp; omega)
theorem put64_get64 (e : Endian) (w : UInt64) (rest : Bytes) : get64 e (put64 e w ++ rest) = some w := by
  have h := w.toNat_lt
  cases e <;> simp [put64, get64, byteOf_toNat] <;>
    (apply UInt64.toNat_inj.mp; simp; omega)
theorem put32_length (e : Endian) (w : UInt32) : (put32 e w).length = 4 := by cases e <;> simp [put32]
theorem put64_length (e : Endian) (w : UInt64) : (put64 e w).length = 8 := by cases e <;> simp [put64]
def quantBin (c : Coding α) (dim : Nat) : SType → α → α
  | .uchar, v => c.norm8 dim (c.ofInt (c.u8 v).toNat)
  | .int, v => c.ofInt (toInt32 (c.i32 v))
  | .float, v => c.unf32 (c.f32 v)
  | .double, v => c.unf64 (c.f64 v)
  | _, v => v
theorem encScalarBin_length (c : Coding α) (e : Endian) (t : SType) (v : α) (bs : Bytes)
    (h : encScalarBin c e t v = .ok bs) : bs.length = t.size := by
  cases t <;> simp [encScalarBin] at h <;> subst h <;> simp [SType.size, put32_length, put64_length]
theorem dec_enc_scalar (c : Coding α) (e : Endian) (dim : Nat) (t : SType) (v : α) (bs pre post : Bytes)
    (h : encScalarBin c e t v = .ok bs) :
    decScalarBin c e dim t (pre ++ bs ++ post) pre.length = .ok (quantBin c dim t v) := by
  cases t <;> simp [encScalarBin] at h <;> subst h <;>
    simp [decScalarBin, quantBin, put32_get32, put64_get64, List.append_assoc]

/-- byte offset of the `i`-th property: the sum of the sizes of the properties before it in header order -/
def offsetOf (tys : List SType) (i : Nat) : Nat := ((tys.take i).map SType.size).sum

theorem encRecordBin_nil (c : Coding α) (e : Endian) : encRecordBin c e [] ([] : List α) = .ok [] := by
  rfl

theorem encRecordBin_cons (c : Coding α) (e : Endian) (t : SType) (tys : List SType) (v : α) (vals : List α) :
    encRecordBin c e (t :: tys) (v :: vals) =
      (do let b ← encScalarBin c e t v; let r ← encRecordBin c e tys vals; pure (b ++ r)) := by
  simp [encRecordBin]

theorem field_at_offset (c : Coding α) (e : Endian) (dim : Nat) :
    ∀ (tys : List SType) (vals : List α) (rec pre post : Bytes) (i : Nat) (hi : i < tys.length)
      (hv : vals.length = tys.length),
      encRecordBin c e tys vals = .ok rec →
      decScalarBin c e dim tys[i] (pre ++ rec ++ post) (pre.length + offsetOf tys i)
        = .ok (quantBin c dim tys[i] (vals[i]'(by omega))) := by
  intro tys
  induction tys with
  | nil => intro _ _ _ _ i hi; simp at hi
  | cons t tys ih =>
    intro vals rec pre post i hi hv henc
    match vals, hv with
    | v :: vals, hv =>
      rw [encRecordBin_cons] at henc
      cases hb : encScalarBin c e t v with
      | error x => simp [hb, bind, Except.bind] at henc
      | ok b =>
        cases hr : encRecordBin c e tys vals with
        | error x => simp [hb, hr, bind, Except.bind] at henc
        | ok r =>
          simp [hb, hr, bind, Except.bind, pure, Except.pure] at henc
          subst henc
          cases i with
          | zero =>
            have := dec_enc_scalar c e dim t v b pre (r ++ post) hb
            simpa [offsetOf, List.append_assoc] using this
          | succ i =>
            have hlen := encScalarBin_length c e t v b hb
            have := ih vals r (pre ++ b) post i (by simpa using hi) (by simpa using hv) hr
            simpa [offsetOf, List.append_assoc, hlen, Nat.add_assoc] using this

theorem encRecordBin_length (c : Coding α) (e : Endian) :
    ∀ (tys : List SType) (vals : List α) (rec : Bytes), vals.length = tys.length →
      encRecordBin c e tys vals = .ok rec → rec.length = (tys.map SType.size).sum := by
  intro tys
  induction tys with
  | nil => intro vals rec hv h; match vals, hv with | [], _ => simp [encRecordBin_nil] at h; simp [← h]
  | cons t tys ih =>
    intro vals rec hv henc
    match vals, hv with
    | v :: vals, hv =>
      rw [encRecordBin_cons] at henc
      cases hb : encScalarBin c e t v with
      | error x => simp [hb, bind, Except.bind] at henc
      | ok b =>
        cases hr : encRecordBin c e tys vals with
        | error x => simp [hb, hr, bind, Except.bind] at henc
        | ok r =>
          simp [hb, hr, bind, Except.bind, pure, Except.pure] at henc
          subst henc
          simp [encScalarBin_length c e t v b hb, ih vals r (by simpa using hv) hr]

/-- where the `i`-th property sits in a vertex record: byte offset (binary) or column (ASCII) -/
def stride (binary : Bool) (t : SType) : Nat := if binary then t.size else 1

def locOf (binary : Bool) (props : List (Bytes × SType)) (i : Nat) : Nat :=
  ((props.take i).map (fun p => stride binary p.2)).sum

theorem locOf_ascii (props : List (Bytes × SType)) (i : Nat) (hi : i ≤ props.length) : locOf false props i = i := by
  induction props generalizing i with
  | nil => simp at hi; simp [locOf, hi]
  | cons p ps ih =>
    cases i with
    | zero => simp [locOf]
    | succ i =>
      have := ih i (by simpa using hi)
      simp [locOf, stride] at this ⊢
      omega

theorem locOf_binary (props : List (Bytes × SType)) (i : Nat) :
    locOf true props i = offsetOf (props.map (·.2)) i := by
  simp [locOf, offsetOf, stride, List.map_take, Function.comp_def]

theorem buildV1_go_spec (binary : Bool) (attr name : Bytes) :
    ∀ (props : List (Bytes × SType)) (pos i : Nat) (hi : i < props.length),
      props[i].1 = name → (∀ j (hj : j < i), (props[j]'(by omega)).1 ≠ name) →
      buildV1.go binary attr name props pos =
        some ⟨attr, [name], [pos + locOf binary props i], if binary then some props[i].2 else none⟩ := by
  intro props
  induction props with
  | nil => intro _ i hi; simp at hi
  | cons p ps ih =>
    intro pos i hi hname hbefore
    obtain ⟨n, t⟩ := p
    cases i with
    | zero =>
      simp at hname
      simp [buildV1.go, hname, locOf]
    | succ i =>
      have h0 : n ≠ name := by simpa using hbefore 0 (by omega)
      have := ih (pos + stride binary t) i (by simpa using hi) (by simpa using hname)
        (fun j hj => by simpa using hbefore (j + 1) (by omega))
      simp [buildV1.go, h0]
      simp [stride] at this
      rw [this]
      simp [locOf, stride, Nat.add_assoc]

/-- The location a scalar reader computes for a property is the sum of the strides of the properties before it in
HEADER order — for any order of the properties. -/
theorem buildV1_spec (binary : Bool) (attr name : Bytes) (props : List (Bytes × SType)) (i : Nat) (hi : i < props.length)
    (hname : props[i].1 = name) (hfirst : ∀ j (hj : j < i), (props[j]'(by omega)).1 ≠ name) :
    buildV1 binary props attr name =
      some ⟨attr, [name], [locOf binary props i], if binary then some props[i].2 else none⟩ := by
  have := buildV1_go_spec binary attr name props 0 i hi hname hfirst
  simpa [buildV1] using this

/-- the ASCII scalar reader never learns the property's type (reader_vector1.go:38-57) -/
theorem buildV1_ascii_ty (attr name : Bytes) (props : List (Bytes × SType)) (b : Built)
    (h : buildV1 false props attr name = some b) : b.ty = none := by
  have : ∀ (props : List (Bytes × SType)) (pos : Nat) (b : Built),
      buildV1.go false attr name props pos = some b → b.ty = none := by
    intro props
    induction props with
    | nil => intro pos b h; simp [buildV1.go] at h
    | cons p ps ih =>
      intro pos b h
      obtain ⟨n, t⟩ := p
      by_cases hn : n = name
      · simp [buildV1.go, hn] at h; simp [← h]
      · simp [buildV1.go, hn] at h; exact ih _ b h
  exact this props 0 b (by simpa [buildV1] using h)

/-! ### header lines: LF and CRLF -/

theorem readLine_lf (l rest : Bytes) (h : ∀ b ∈ l, b ≠ 10 ∧ b ≠ 13) : readLine (l ++ 10 :: rest) = some (l, rest) := by
  induction l with
  | nil => simp [readLine]
  | cons b l ih =>
    have hb := h b (by simp)
    have := ih (fun x hx => h x (by simp [hx]))
    simp [readLine, hb.1, hb.2, this]

theorem readLine_crlf (l rest : Bytes) (h : ∀ b ∈ l, b ≠ 10 ∧ b ≠ 13) :
    readLine (l ++ 13 :: 10 :: rest) = some (l, rest) := by
  induction l with
  | nil => simp [readLine]
  | cons b l ih =>
    have hb := h b (by simp)
    have := ih (fun x hx => h x (by simp [hx]))
    simp [readLine, hb.1, hb.2, this]

end PlyLemmas
end PolyVerif
