/-
  C03 lemmas, second batch: filters, crop, removeNullFaces (all "keep some corners, then drop
  unreferenced vertices").
-/
import PolyVerif.Lemmas.MeshFrame

namespace PolyVerif.Mesh
variable {α : Type}

theorem keepAt_eq_compact {β : Type} (fl : List Bool) (l : List β) : keepAt fl l = compact fl l := rfl

theorem keepAt_map {β γ : Type} (f : β → γ) : ∀ (fl : List Bool) (l : List β),
    keepAt fl (l.map f) = (keepAt fl l).map f
  | [], l => by simp [keepAt]
  | _ :: _, [] => by simp [keepAt]
  | b :: fl, x :: l => by
    have ih := keepAt_map f fl l
    simp only [keepAt, List.map_cons, List.zip_cons_cons, List.filterMap_cons] at ih ⊢
    cases b <;> simp [ih]

theorem filter_eq_keepAt {β : Type} (q : β → Bool) : ∀ (l : List β), l.filter q = keepAt (l.map q) l
  | [] => by simp [keepAt]
  | x :: l => by
    have ih := filter_eq_keepAt q l
    simp only [keepAt, List.map_cons, List.zip_cons_cons, List.filterMap_cons, List.filter_cons] at ih ⊢
    cases h : q x <;> simp [ih]

theorem untriples_filter_eq_keepAt {β : Type} (q : β × β × β → Bool) : ∀ (l : List β),
    untriples ((triples l).filter q) = keepAt ((triples l).flatMap fun t => List.replicate 3 (q t)) l
  | [] => by simp [triples, untriples, keepAt]
  | [_] => by simp [triples, untriples, keepAt]
  | [_, _] => by simp [triples, untriples, keepAt]
  | a :: b :: c :: rest => by
    have ih := untriples_filter_eq_keepAt q rest
    simp only [triples, List.filter_cons, List.flatMap_cons]
    cases h : q (a, b, c)
    · simp only [Bool.false_eq_true, if_false, ih]
      simp [keepAt, List.replicate]
    · simp only [if_true, untriples, ih]
      simp [keepAt, List.replicate]

namespace MeshVal

/-- re-indexing by a sub-selection of the index entries selects the same corners of every attribute -/
theorem setIndices_keepAt_corners (m : MeshVal α) (fl : List Bool) :
    (m.setIndices (keepAt fl m.indices)).corners = m.corners.map fun kc => (kc.1, keepAt fl kc.2) := by
  simp only [corners, setIndices, List.map_map]
  apply List.map_congr_left
  intro kd _
  simp [Function.comp, keepAt_map]

theorem setIndices_keepAt_wf {m : MeshVal α} (h : WF m) (fl : List Bool)
    (hf : m.topology.Fits (keepAt fl m.indices).length) : WF (m.setIndices (keepAt fl m.indices)) := by
  refine setIndices_wf h _ ?_ hf
  intro i hi
  rw [keepAt_eq_compact] at hi
  simp only [compact, List.mem_filterMap] at hi
  obtain ⟨xb, hxb, hx⟩ := hi
  have := (List.of_mem_zip hxb).1
  split at hx
  · cases hx; exact h.2.1 _ this
  · cases hx

/-- keep the corners flagged by `fl`, then remove unreferenced vertices: the surviving corners keep
    all their attributes, in order -/
theorem keep_then_removeUnref_corners {m : MeshVal α} (h : WF m) (fl : List Bool)
    (hf : m.topology.Fits (keepAt fl m.indices).length) :
    (m.setIndices (keepAt fl m.indices)).removeUnreferenced.corners =
      (if keepAt fl m.indices = [] then [] else m.corners.map fun kc => (kc.1, keepAt fl kc.2)) := by
  rw [removeUnreferenced_corners (setIndices_keepAt_wf h fl hf), setIndices_keepAt_corners]
  rfl

/-! ### filter -/

theorem cornerFlags_eq {m : MeshVal α} {k : AttrKey} {d : List α} (p : α → Bool) (hd : m.attr? k = some d) :
    cornerFlags m k p = m.indices.map fun i => match d[i]? with | some x => p x | none => false := by
  simp only [cornerFlags, cornersOf, hd, Option.map_some, List.map_map, Function.comp]
  apply List.map_congr_left
  intro a _
  simp only [Function.comp]
  generalize d[a]? = o
  cases o <;> rfl

theorem filterAttr_corners {m m' : MeshVal α} (h : WF m) {k : AttrKey} {p : α → Bool}
    (hm : m.filterAttr k p = some m') :
    m'.corners = (if keepAt (cornerFlags m k p) m.indices = [] then []
                  else m.corners.map fun kc => (kc.1, keepAt (cornerFlags m k p) kc.2)) := by
  unfold filterAttr at hm
  split at hm
  · rename_i ht
    split at hm
    · cases hm
    · rename_i d hd
      cases hm
      rw [cornerFlags_eq p hd, filter_eq_keepAt]
      apply keep_then_removeUnref_corners h
      rw [ht]; trivial
  · cases hm

/-! ### removeNullFaces -/

theorem triFlags_all {m : MeshVal α} (keep : Nat → Nat → Nat → Bool) :
    (triFlags m keep).all id = ((triples m.indices).all fun t => keep t.1 t.2.1 t.2.2) := by
  unfold triFlags
  induction triples m.indices with
  | nil => simp
  | cons t ts ih =>
    simp only [List.flatMap_cons, List.all_append, ih, List.all_cons]
    cases keep t.1 t.2.1 t.2.2 <;> simp [List.replicate]

theorem filter_length_eq_iff_all {β : Type} (q : β → Bool) (l : List β) :
    (l.filter q).length = l.length ↔ l.all q = true := by
  rw [List.all_eq_true]
  constructor
  · intro h x hx
    have := List.filter_eq_self.mp (List.filter_sublist.eq_of_length h)
    exact this x hx
  · intro h
    rw [List.filter_eq_self.mpr h]

theorem removeNullFaces_corners {m m' : MeshVal α} (h : WF m) {k : AttrKey} {keep : Nat → Nat → Nat → Bool}
    (hm : m.removeNullFaces k keep = some m') :
    (if (triFlags m keep).all id then m' = m
     else m'.corners = (if keepAt (triFlags m keep) m.indices = [] then []
                        else m.corners.map fun kc => (kc.1, keepAt (triFlags m keep) kc.2))) := by
  unfold removeNullFaces at hm
  split at hm
  · rename_i hc
    have h3 : m.indices.length % 3 = 0 := by have := h.2.2; rw [hc.1] at this; exact this
    have hlen : (triples m.indices).length * 3 = m.indices.length := by rw [length_triples]; omega
    dsimp only at hm
    rw [triFlags_all]
    split at hm
    · rename_i heq
      cases hm
      have : ((triples m.indices).filter fun t => keep t.1 t.2.1 t.2.2).length = (triples m.indices).length := by omega
      rw [(filter_length_eq_iff_all _ _).mp this]; simp
    · rename_i hne
      cases hm
      have hnall : ¬ ((triples m.indices).all fun t => keep t.1 t.2.1 t.2.2) = true := by
        intro hall
        have := (filter_length_eq_iff_all _ _).mpr hall
        omega
      simp only [hnall, if_false, Bool.false_eq_true]
      have hk : untriples ((triples m.indices).filter fun t => keep t.1 t.2.1 t.2.2) = keepAt (triFlags m keep) m.indices :=
        untriples_filter_eq_keepAt (fun t => keep t.1 t.2.1 t.2.2) m.indices
      rw [hk]
      apply keep_then_removeUnref_corners h
      rw [← hk, hc.1]
      show (untriples _).length % 3 = 0
      rw [length_untriples]; omega
  · cases hm

/-! ### crop (identity-indexed point cloud) -/

theorem crop_corners {m m' : MeshVal α} (h : WF m) (hid : m.indices = List.range m.attrLen)
    {k : AttrKey} {inside : α → Bool} (hm : m.crop k inside = some m') :
    m'.indices = List.range m'.attrLen ∧
    m'.corners = (if keepAt (cornerFlags m k inside) m.indices = [] then []
                  else m.corners.map fun kc => (kc.1, keepAt (cornerFlags m k inside) kc.2)) := by
  unfold crop at hm
  split at hm
  · split at hm
    · cases hm
    · rename_i d hd
      cases hm
      refine ⟨rfl, ?_⟩
      have hdl : d.length = m.attrLen := h.1 _ (Attrs.find?_mem hd)
      -- the per-corner flags are the per-vertex flags
      have hfl : cornerFlags m k inside = d.map inside := by
        rw [cornerFlags_eq inside hd, hid, ← hdl]
        have h1 : (List.range d.length).map (fun i => match d[i]? with | some x => inside x | none => false)
            = ((List.range d.length).map (fun i => d[i]?)).map
                (fun o => match o with | some x => inside x | none => false) := by
          rw [List.map_map]; rfl
        rw [h1, range_map_getElem?, List.map_map]; rfl
      rw [hfl]
      -- the compacted cloud, before stripping
      let r0 : MeshVal α := { topology := .point, indices := [], materials := m.materials,
                              attrs := mapAttrs (compact (d.map inside)) m.attrs }
      have hw0 : WF r0 := by
        apply wf_of_uniform ((d.map inside).countP id)
        · intro kd hk
          simp only [r0, mapAttrs, List.mem_map] at hk
          obtain ⟨kd0, hk0, rfl⟩ := hk
          exact compact_length _ _ (by simp [h.1 kd0 hk0, hdl])
        · simp [r0]
        · simp [r0]
        · trivial
      have hcount : (keepAt (d.map inside) m.indices).length = (d.map inside).countP id := by
        rw [keepAt_eq_compact, compact_length]; simp [hid, hdl]
      by_cases hz : (d.map inside).countP id = 0
      · -- nothing inside: every array is emptied and dropped
        have hnil : keepAt (d.map inside) m.indices = [] := List.eq_nil_of_length_eq_zero (by omega)
        have hal : r0.attrLen = 0 := by
          cases ha : m.attrs with
          | nil => simp [r0, attrLen, mapAttrs, ha]
          | cons kd t =>
            have := hw0.1 (kd.1, compact (d.map inside) kd.2) (by simp [r0, mapAttrs, ha])
            rw [← this, compact_length _ _ (by simp [h.1 kd (by simp [ha]), hdl])]; exact hz
        have hs : r0.stripEmpty.attrs = [] := stripEmpty_attrs_of_zero hw0 hal
        simp only [hnil, if_true]
        show (MeshVal.corners { r0.stripEmpty with indices := List.range r0.stripEmpty.attrLen }) = []
        simp [corners, hs]
      · have hnn : keepAt (d.map inside) m.indices ≠ [] := by
          intro hn; rw [hn] at hcount; simp only [List.length_nil] at hcount; omega
        have hal : 0 < r0.attrLen := by
          have := hw0.1 (k, compact (d.map inside) d) (by
            simp only [r0, mapAttrs, List.mem_map]; exact ⟨(k, d), Attrs.find?_mem hd, rfl⟩)
          rw [← this, compact_length _ _ (by simp)]; omega
        have hse := stripEmpty_eq_of_pos hw0 hal
        simp only [hnn, if_false]
        show (MeshVal.corners { r0.stripEmpty with indices := List.range r0.stripEmpty.attrLen }) = _
        rw [hse]
        simp only [corners, r0, mapAttrs, List.map_map, hid]
        -- attrLen of r0 is the common compacted length
        have hlen : ∀ kd ∈ m.attrs, (compact (d.map inside) kd.2).length = r0.attrLen := by
          intro kd hk
          exact hw0.1 (kd.1, compact (d.map inside) kd.2) (by simp only [r0, mapAttrs, List.mem_map]; exact ⟨kd, hk, rfl⟩)
        apply List.map_congr_left
        intro kd hk
        simp only [Function.comp, Prod.mk.injEq, true_and]
        show (List.range r0.attrLen).map _ = _
        rw [← hlen kd hk, range_map_getElem?]
        have hkl : kd.2.length = m.attrLen := h.1 kd hk
        rw [← hkl, range_map_getElem? kd.2, keepAt_map, keepAt_eq_compact]
  · cases hm

end MeshVal
end PolyVerif.Mesh
