/-
  C12 ↔ C11: the editing operations of the saved-graph model, executed on the runtime graph of the evaluation model.
  Core Lean only (plus C11's lemma files).  Used by Props/C12Artifacts (`edit_simulation`).

  Runtime reading of the editing operations (what the Go objects do):
  * create        — a new node object; it exists from now on, unwired and never processed.  In C11's total-map graph
                    the slot of the k-th created node holds that fresh node FROM THE START (an object nobody references
                    and nobody has read is unobservable), so `create` is no C11 call at all: it only gives the new id
                    the next slot.  Slots are never reused (ids are: `Node-k` may be handed out again after a delete).
  * connect       — `SetInput(port, out)`: C11 `setInput` / `arrayAdd` on the slots of the two nodes
  * disconnect    — `SetInput(port, nil)`: C11 `setInput … none`, `arrayRemove`, or (plain array name: the whole slice
                    is zeroed) `arrayRemove … 0` as often as the array is long
  * set value     — C11 `setParam`
  * delete (of a node nothing depends on) — the object is dropped from the id table; the runtime graph does not
                    change, the id loses its slot.  No renumbering is needed because slots are not list positions.
  * set name / description / producer, metadata — no runtime effect
  * read id       — C11 `read` of the node's slot (any node, any time: caches, versions and flags evolve freely)
-/
import PolyVerif.Lemmas.GraphEval

namespace PolyVerif
namespace C12
open GraphIO

variable {V J W : Type}

/-- an event of an editing session: an editing operation, or somebody reading a node's output -/
inductive Ev (J : Type) where
  | edit (op : Op J)
  | read (id : Id)

/-- the edited graph together with the slot table of the runtime -/
structure Sim (V : Type) where
  g : Graph V
  slots : List (Id × Nat)
  next : Nat

def Sim.σ (s : Sim V) (id : Id) : Nat := (aget s.slots id).getD 0

def Sim.init (h : Hdr) : Sim V := { g := Graph.init h, slots := [], next := 0 }

def portIdx (l : List (Name × VTy)) (p : Name) : Nat := l.findIdx (fun q => q.1 = p)

/-- the C11 calls a SUCCESSFUL editing operation makes (`g'` = the edited graph after it) -/
def rtOps (P : Procs V W) (E : Env V J) (s : Sim V) (g' : Graph V) : Op J → List (Nodes.Op W)
  | .connect src _ dst inPort =>
    match s.g.find dst with
    | some d =>
      match E.types d.ty with
      | some T =>
        match splitFirst inPort with
        | some (p, _) => [.arrayAdd (s.σ dst) (portIdx T.arrs p) (s.σ src)]
        | none => [.setInput (s.σ dst) (portIdx T.scal inPort) (some (s.σ src))]
      | none => []
    | none => []
  | .disconnect dst inPort =>
    match s.g.find dst with
    | some d =>
      match E.types d.ty with
      | some T =>
        match splitFirst inPort with
        | some (p, rest) =>
          match atoi rest with
          | some k => [.arrayRemove (s.σ dst) (portIdx T.arrs p) k.toNat]
          | none => []
        | none =>
          match portTy T.scal inPort with
          | some _ => [.setInput (s.σ dst) (portIdx T.scal inPort) none]
          | none => List.replicate (d.arrs inPort).length (.arrayRemove (s.σ dst) (portIdx T.arrs inPort) 0)
      | none => []
    | none => []
  | .setValue id _ =>
    match g'.find id with
    | some n' => [.setParam (s.σ id) (P.paramVal n'.ty (n'.par.bind Param.value))]
    | none => []
  | _ => []

def newSlots (s : Sim V) (g' : Graph V) : Op J → List (Id × Nat) × Nat
  | .create _ =>
    match g'.nodes.getLast? with
    | some n => (aset s.slots n.id s.next, s.next + 1)
    | none => (s.slots, s.next)
  | .delete id => (adel s.slots id, s.next)
  | _ => (s.slots, s.next)

/-- one event: the new edited graph / slot table and the C11 calls made.  A failing editing operation (Go panics
    before it mutates anything) and a read of an unknown id make no call. -/
def simStep (P : Procs V W) (E : Env V J) (s : Sim V) : Ev J → Sim V × List (Nodes.Op W)
  | .edit op =>
    match step E s.g op with
    | .error _ => (s, [])
    | .ok g' => ({ g := g', slots := (newSlots s g' op).1, next := (newSlots s g' op).2 }, rtOps P E s g' op)
  | .read id => if (s.g.find id).isSome then (s, [.read (s.σ id)]) else (s, [])

def simRun (P : Procs V W) (E : Env V J) : Sim V → List (Ev J) → Sim V × List (Nodes.Op W)
  | s, [] => (s, [])
  | s, ev :: evs =>
    let r := simStep P E s ev
    let r2 := simRun P E r.1 evs
    (r2.1, r.2 ++ r2.2)

/-- the types of the nodes the rest of the session creates, in order -/
def createdTys (P : Procs V W) (E : Env V J) : Sim V → List (Ev J) → List TyName
  | _, [] => []
  | s, ev :: evs =>
    (match ev with
     | .edit (.create ty) => if (simStep P E s ev).1.next = s.next + 1 then [ty] else []
     | _ => []) ++ createdTys P E (simStep P E s ev).1 evs

/-- a node object of type `ty` right after its creation -/
def freshRt (P : Procs V W) (E : Env V J) (ty : TyName) : Nodes.Node W :=
  absNode P E (fun _ => 0) (emptyNode "" ty (match E.types ty with | some T => freshParam E ty T | none => none))

/-- the runtime graph before the session: slot `k` already holds the k-th node that will be created -/
def preGraph (P : Procs V W) (E : Env V J) (tys : List TyName) : Nodes.Graph W := fun k =>
  match tys[k]? with
  | some ty => freshRt P E ty
  | none => .param P.idle 0

/-! ### list surgery -/

theorem listSet_map_key {β : Type} (l : List (Name × VTy)) (φ : Name → β) (v : β) {p : Name}
    (hp : p ∈ l.map (·.1)) (hnd : (l.map (·.1)).Nodup) :
    Nodes.listSet (l.map (fun q => φ q.1)) (portIdx l p) v = some (l.map (fun q => if q.1 = p then v else φ q.1)) := by
  induction l with
  | nil => cases hp
  | cons x xs ih =>
    simp only [List.map_cons, List.nodup_cons] at hnd
    by_cases hx : x.1 = p
    · have hrest : xs.map (fun q => if q.1 = p then v else φ q.1) = xs.map (fun q => φ q.1) := by
        apply List.map_congr_left
        intro q hq
        have : q.1 ≠ p := fun e => hnd.1 (hx ▸ e ▸ List.mem_map.mpr ⟨q, hq, rfl⟩)
        simp [this]
      simp [portIdx, List.findIdx_cons, hx, Nodes.listSet, hrest]
    · have hp' : p ∈ xs.map (·.1) := by
        rcases List.mem_cons.mp hp with h | h
        · exact absurd h.symm hx
        · exact h
      have := ih hp' hnd.2
      simp only [portIdx] at this
      simp [portIdx, List.findIdx_cons, hx, Nodes.listSet, this]

theorem listModify_map_key {β : Type} (l : List (Name × VTy)) (φ : Name → β) (h : β → Option β) {p : Name}
    (hp : p ∈ l.map (·.1)) (hnd : (l.map (·.1)).Nodup) :
    Nodes.listModify h (l.map (fun q => φ q.1)) (portIdx l p) =
      (h (φ p)).map (fun b => l.map (fun q => if q.1 = p then b else φ q.1)) := by
  induction l with
  | nil => cases hp
  | cons x xs ih =>
    simp only [List.map_cons, List.nodup_cons] at hnd
    by_cases hx : x.1 = p
    · have hrest : ∀ b, xs.map (fun q => if q.1 = p then b else φ q.1) = xs.map (fun q => φ q.1) := by
        intro b
        apply List.map_congr_left
        intro q hq
        have : q.1 ≠ p := fun e => hnd.1 (hx ▸ e ▸ List.mem_map.mpr ⟨q, hq, rfl⟩)
        simp [this]
      simp only [portIdx, List.findIdx_cons, hx, decide_true, cond_true, List.map_cons, Nodes.listModify, if_true]
      cases h (φ p) with
      | none => rfl
      | some b => simp [hrest]
    · have hp' : p ∈ xs.map (·.1) := by
        rcases List.mem_cons.mp hp with h' | h'
        · exact absurd h'.symm hx
        · exact h'
      have := ih hp' hnd.2
      simp only [portIdx] at this
      simp only [portIdx, List.findIdx_cons, hx, decide_false, cond_false, List.map_cons, Nodes.listModify, this, if_false]
      cases h (φ p) with
      | none => rfl
      | some b => simp

theorem removeAt_map {α β : Type} (f : α → β) (l : List α) (k : Nat) (hk : k < l.length) :
    Nodes.removeAt (l.map f) k = some ((l.eraseIdx k).map f) := by
  induction l generalizing k with
  | nil => simp at hk
  | cons a as ih =>
    cases k with
    | zero => simp [Nodes.removeAt]
    | succ k => simp [Nodes.removeAt, ih k (by simpa using hk)]

theorem portTy_mem_keys {l : List (Name × VTy)} {p : Name} {t : VTy} (h : portTy l p = some t) : p ∈ l.map (·.1) :=
  List.mem_map.mpr ⟨(p, t), portTy_mem h, rfl⟩

/-! ### the invariant of the simulation -/

structure SimInv (P : Procs V W) (E : Env V J) (s : Sim V) (G : Nodes.Graph W) (tys : List TyName) : Prop where
  wf : WF E s.g
  holds : Holds P E s.σ G s.g
  slot : ∀ n ∈ s.g.nodes, ∃ k, aget s.slots n.id = some k ∧ k < s.next
  inj : ∀ n ∈ s.g.nodes, ∀ m ∈ s.g.nodes, s.σ n.id = s.σ m.id → n.id = m.id
  pre : ∀ j, looseEq (G (s.next + j)) (match tys[j]? with | some ty => freshRt P E ty | none => .param P.idle 0)

theorem SimInv.σ_lt {P : Procs V W} {E : Env V J} {s : Sim V} {G : Nodes.Graph W} {tys : List TyName}
    (h : SimInv P E s G tys) {n : GraphIO.Node V} (hn : n ∈ s.g.nodes) : s.σ n.id < s.next := by
  obtain ⟨k, hk, hlt⟩ := h.slot n hn
  simp [Sim.σ, hk, hlt]

theorem mem_setNode' {g : Graph V} {n m : GraphIO.Node V} (h : m ∈ (g.setNode n).nodes) :
    m = n ∨ (m ∈ g.nodes ∧ m.id ≠ n.id) := by
  simp only [Graph.setNode, List.mem_map] at h
  obtain ⟨m0, hm0, rfl⟩ := h
  split
  · exact Or.inl rfl
  · rename_i hne; exact Or.inr ⟨hm0, hne⟩

/-- an editing operation that replaces node `d` by `n'` (same id, same type) and whose C11 calls change slot `σ d` only -/
theorem simInv_local {P : Procs V W} {E : Env V J} {s : Sim V} {G G' : Nodes.Graph W} {tys : List TyName}
    (hI : SimInv P E s G tys) {d n' : GraphIO.Node V} (hd : d ∈ s.g.nodes) (hid : n'.id = d.id)
    (hwf' : WF E (s.g.setNode n')) (hother : ∀ k, k ≠ s.σ d.id → looseEq (G' k) (G k))
    (hat : looseEq (G' (s.σ d.id)) (absNode P E s.σ n')) :
    SimInv P E { s with g := s.g.setNode n' } G' tys := by
  have hmem : ∀ m ∈ (s.g.setNode n').nodes, ∃ m0 ∈ s.g.nodes, m0.id = m.id := by
    intro m hm
    rcases mem_setNode' hm with rfl | ⟨hm', _⟩
    · exact ⟨d, hd, hid.symm⟩
    · exact ⟨m, hm', rfl⟩
  refine ⟨hwf', ?_, ?_, ?_, ?_⟩
  · intro m hm
    rcases mem_setNode' hm with rfl | ⟨hm', hne⟩
    · show looseEq (G' (s.σ m.id)) _
      rw [hid]; exact hat
    · have : s.σ m.id ≠ s.σ d.id := fun e => hne ((hI.inj m hm' d hd e).trans hid.symm)
      exact (hother _ this).trans (hI.holds m hm')
  · intro m hm
    obtain ⟨m0, hm0, e⟩ := hmem m hm
    rw [← e]; exact hI.slot m0 hm0
  · intro a ha b hb e
    obtain ⟨a0, ha0, ea⟩ := hmem a ha
    obtain ⟨b0, hb0, eb⟩ := hmem b hb
    rw [← ea, ← eb]
    apply hI.inj a0 ha0 b0 hb0
    show s.σ a0.id = s.σ b0.id
    rw [ea, eb]; exact e
  · intro j
    have : s.next + j ≠ s.σ d.id := by have := hI.σ_lt hd; omega
    exact (hother _ this).trans (hI.pre j)

theorem set_other {G : Nodes.Graph W} {i k : Nat} (X : Nodes.Node W) (h : k ≠ i) : looseEq ((G.set i X) k) (G k) := by
  rw [Nodes.Graph.set_ne G X h]; exact looseEq.refl _

theorem set_self {G : Nodes.Graph W} (i : Nat) (X : Nodes.Node W) : (G.set i X) i = X := by simp [Nodes.Graph.set]

/-- the runtime node of a struct-typed graph node -/
theorem holds_struct {P : Procs V W} {E : Env V J} {σ : Id → Nat} {G : Nodes.Graph W} {g : Graph V}
    (h : Holds P E σ G g) {d : GraphIO.Node V} (hd : d ∈ g.nodes) {T : NodeType} (hT : E.types d.ty = some T)
    (hp : T.param = none) :
    ∃ t, G (σ d.id) = .struct t ∧ t.fn = (fun sc ar vals => P.proc d.ty (shapeS sc) (shapeA ar) vals) ∧
      t.next = (fun sc ar es => P.next d.ty (shapeS sc) (shapeA ar) es) ∧
      t.scalars = T.scal.map (fun q => (d.scal q.1).map (fun r => σ r.node)) ∧
      t.arrays = T.arrs.map (fun q => (d.arrs q.1).map (fun r => σ r.node)) := by
  have e := h d hd
  simp only [absNode, hT, hp] at e
  cases hG : G (σ d.id) with
  | param x v => simp [hG, looseEq] at e
  | struct t =>
    simp only [hG, looseEq] at e
    exact ⟨t, rfl, e.1, e.2.1, e.2.2.1, e.2.2.2⟩

theorem absNode_struct_loose {P : Procs V W} {E : Env V J} {σ : Id → Nat} {n : GraphIO.Node V} {T : NodeType}
    (hT : E.types n.ty = some T) (hp : T.param = none) {t : Nodes.SNode W}
    (h1 : t.fn = (fun sc ar vals => P.proc n.ty (shapeS sc) (shapeA ar) vals))
    (h2 : t.next = (fun sc ar es => P.next n.ty (shapeS sc) (shapeA ar) es))
    (h3 : t.scalars = T.scal.map (fun q => (n.scal q.1).map (fun r => σ r.node)))
    (h4 : t.arrays = T.arrs.map (fun q => (n.arrs q.1).map (fun r => σ r.node))) :
    looseEq (.struct t) (absNode P E σ n) := by
  simp only [absNode, hT, hp, looseEq]
  exact ⟨h1, h2, h3, h4⟩

/-! ### inversion of the editing operations -/

theorem setInputConnect_inv {T : NodeType} {n n' : GraphIO.Node V} {input : Name} {r : Ref} {t : VTy}
    (h : setInputConnect T n input r t = .ok n') :
    T.param = none ∧
    ((∃ p rest, splitFirst input = some (p, rest) ∧ p ∈ T.arrs.map (·.1) ∧
        n' = { n with arrs := upd n.arrs p (n.arrs p ++ [r]) }) ∨
     (splitFirst input = none ∧ input ∈ T.scal.map (·.1) ∧ n' = { n with scal := upd n.scal input (some r) })) := by
  unfold setInputConnect at h
  split at h
  · cases h
  · rename_i hpar
    refine ⟨hpar, ?_⟩
    split at h
    · rename_i p rest hsp
      split at h
      · rename_i t' hpt
        split at h
        · cases h; exact Or.inl ⟨p, rest, hsp, portTy_mem_keys hpt, rfl⟩
        · cases h
      · cases h
    · rename_i hsp
      split at h
      · rename_i t' hpt
        split at h
        · cases h; exact Or.inr ⟨hsp, portTy_mem_keys hpt, rfl⟩
        · cases h
      · cases h

theorem connect_inv {E : Env V J} {g g' : Graph V} {src dst : Id} {sp : String} {ip : Name}
    (h : step E g (.connect src sp dst ip) = .ok g') :
    ∃ d s Td Ts d', g.find dst = some d ∧ g.find src = some s ∧ E.types d.ty = some Td ∧ E.types s.ty = some Ts ∧
      setInputConnect Td d ip ⟨src, sp⟩ Ts.out = .ok d' ∧ g' = g.setNode d' := by
  simp only [step] at h
  split at h
  · rename_i d s hd hs
    split at h
    · rename_i Td Ts hTd hTs
      split at h
      · cases hc : setInputConnect Td d ip ⟨src, sp⟩ Ts.out with
        | error e => simp [hc, bind, Except.bind] at h
        | ok d' =>
          simp only [hc, bind, Except.bind] at h
          cases h
          exact ⟨d, s, Td, Ts, d', hd, hs, hTd, hTs, hc, rfl⟩
      · cases h
    · cases h
  · cases h

theorem run_single {F : Nat} (G : Nodes.Graph W) (op : Nodes.Op W) : (Nodes.run F G [op]).1 = (Nodes.step F G op).1 := rfl

theorem run_nil {F : Nat} (G : Nodes.Graph W) : (Nodes.run F G []).1 = G := rfl

theorem run_state_append {F : Nat} (G : Nodes.Graph W) (a b : List (Nodes.Op W)) :
    (Nodes.run F G (a ++ b)).1 = (Nodes.run F (Nodes.run F G a).1 b).1 := by
  induction a generalizing G with
  | nil => rfl
  | cons x xs ih => simp only [List.cons_append, Nodes.run]; exact ih _

/-- connect -/
theorem sim_connect {P : Procs V W} {E : Env V J} (hE : EnvOK E) {F : Nat} {s : Sim V} {G : Nodes.Graph W}
    {tys : List TyName} (hI : SimInv P E s G tys) {src dst : Id} {sp : String} {ip : Name} {g' : Graph V}
    (h : step E s.g (.connect src sp dst ip) = .ok g') :
    SimInv P E { s with g := g' } (Nodes.run F G (rtOps P E s g' (.connect src sp dst ip))).1 tys := by
  obtain ⟨d, sn, Td, Ts, d', hd, hs, hTd, hTs, hc, rfl⟩ := connect_inv h
  obtain ⟨hdm, hdid⟩ := find_some hd
  obtain ⟨hpar, hcase⟩ := setInputConnect_inv hc
  obtain ⟨t, hG, h1, h2, h3, h4⟩ := holds_struct hI.holds hdm hTd hpar
  have hwf' := step_wf hE hI.wf h
  have hσd : s.σ dst = s.σ d.id := by rw [hdid]
  rcases hcase with ⟨p, rest, hsp, hpm, rfl⟩ | ⟨hsp, hpm, rfl⟩
  · have hops : rtOps P E s (s.g.setNode { d with arrs := upd d.arrs p (d.arrs p ++ [⟨src, sp⟩]) }) (.connect src sp dst ip) =
        [.arrayAdd (s.σ d.id) (portIdx Td.arrs p) (s.σ src)] := by
      simp [rtOps, hd, hTd, hsp, hσd]
    rw [hops, run_single]
    have hlm := listModify_map_key Td.arrs (fun x => (d.arrs x).map (fun r => s.σ r.node))
      (fun a => some (a ++ [s.σ src])) hpm (hE.arrNodup _ Td hTd)
    have hstep : (Nodes.step F G (.arrayAdd (s.σ d.id) (portIdx Td.arrs p) (s.σ src))).1 =
        G.set (s.σ d.id) (.struct { t with arrays := Td.arrs.map (fun q => if q.1 = p then (d.arrs p).map (fun r => s.σ r.node) ++ [s.σ src] else (d.arrs q.1).map (fun r => s.σ r.node)), flag := true }) := by
      simp [Nodes.step, Nodes.step?, hG, h4, hlm]
    rw [hstep]
    refine simInv_local (n' := { d with arrs := upd d.arrs p (d.arrs p ++ [⟨src, sp⟩]) }) hI hdm rfl hwf'
      (fun k hk => set_other _ hk) ?_
    rw [set_self]
    refine absNode_struct_loose (n := { d with arrs := upd d.arrs p (d.arrs p ++ [⟨src, sp⟩]) }) (T := Td) hTd hpar h1 h2 h3 ?_
    apply List.map_congr_left
    intro q _
    by_cases hq : q.1 = p
    · simp [hq, upd]
    · simp [hq, upd]
  · have hops : rtOps P E s (s.g.setNode { d with scal := upd d.scal ip (some ⟨src, sp⟩) }) (.connect src sp dst ip) =
        [.setInput (s.σ d.id) (portIdx Td.scal ip) (some (s.σ src))] := by
      simp [rtOps, hd, hTd, hsp, hσd]
    rw [hops, run_single]
    have hls := listSet_map_key Td.scal (fun x => (d.scal x).map (fun r => s.σ r.node)) (some (s.σ src)) hpm
      (hE.scalNodup _ Td hTd)
    have hstep : (Nodes.step F G (.setInput (s.σ d.id) (portIdx Td.scal ip) (some (s.σ src)))).1 =
        G.set (s.σ d.id) (.struct { t with scalars := Td.scal.map (fun q => if q.1 = ip then some (s.σ src) else (d.scal q.1).map (fun r => s.σ r.node)), flag := true }) := by
      simp [Nodes.step, Nodes.step?, hG, h3, hls]
    rw [hstep]
    refine simInv_local (n' := { d with scal := upd d.scal ip (some ⟨src, sp⟩) }) hI hdm rfl hwf'
      (fun k hk => set_other _ hk) ?_
    rw [set_self]
    refine absNode_struct_loose (n := { d with scal := upd d.scal ip (some ⟨src, sp⟩) }) (T := Td) hTd hpar h1 h2 ?_ h4
    apply List.map_congr_left
    intro q _
    by_cases hq : q.1 = ip
    · simp [hq, upd]
    · simp [hq, upd]

/-! ### the other editing operations -/

theorem setInputDisconnect_inv {T : NodeType} {n n' : GraphIO.Node V} {input : Name}
    (h : setInputDisconnect T n input = .ok n') :
    T.param = none ∧
    ((∃ p rest k, splitFirst input = some (p, rest) ∧ atoi rest = some k ∧ p ∈ T.arrs.map (·.1) ∧
        k.toNat < (n.arrs p).length ∧ n' = { n with arrs := upd n.arrs p ((n.arrs p).eraseIdx k.toNat) }) ∨
     (splitFirst input = none ∧ (∃ t, portTy T.scal input = some t) ∧ n' = { n with scal := upd n.scal input none }) ∨
     (splitFirst input = none ∧ portTy T.scal input = none ∧ input ∈ T.arrs.map (·.1) ∧
        n' = { n with arrs := upd n.arrs input [] })) := by
  unfold setInputDisconnect at h
  split at h
  · cases h
  · rename_i hpar
    refine ⟨hpar, ?_⟩
    split at h
    · rename_i p rest hsp
      split at h
      · cases h
      · rename_i k hk
        split at h
        · cases h
        · rename_i t' hpt
          split at h
          · rename_i hb
            cases h
            exact Or.inl ⟨p, rest, k, hsp, hk, portTy_mem_keys hpt, hb.2, rfl⟩
          · cases h
    · rename_i hsp
      cases hps : portTy T.scal input with
      | some t' =>
        simp only [hps] at h
        cases h
        exact Or.inr (Or.inl ⟨hsp, ⟨t', rfl⟩, rfl⟩)
      | none =>
        cases hpa : portTy T.arrs input with
        | some t'' =>
          simp only [hps, hpa] at h
          cases h
          exact Or.inr (Or.inr ⟨hsp, rfl, portTy_mem_keys hpa, rfl⟩)
        | none => simp [hps, hpa] at h

theorem disconnect_inv {E : Env V J} {g g' : Graph V} {dst : Id} {ip : Name}
    (h : step E g (.disconnect dst ip) = .ok g') :
    ∃ d Td d', g.find dst = some d ∧ E.types d.ty = some Td ∧ setInputDisconnect Td d ip = .ok d' ∧ g' = g.setNode d' := by
  simp only [step] at h
  split at h
  · rename_i d hd
    split at h
    · rename_i Td hTd
      cases hc : setInputDisconnect Td d ip with
      | error e => simp [hc, bind, Except.bind] at h
      | ok d' =>
        simp only [hc, bind, Except.bind] at h
        cases h
        exact ⟨d, Td, d', hd, hTd, hc, rfl⟩
    · cases h
  · cases h

theorem set_set {G : Nodes.Graph W} (i : Nat) (X Y : Nodes.Node W) : (G.set i X).set i Y = G.set i Y := by
  funext k; simp only [Nodes.Graph.set]; split <;> rfl

theorem set_same {G : Nodes.Graph W} (i : Nat) : G.set i (G i) = G := by
  funext k; simp only [Nodes.Graph.set]; split
  · rename_i h; rw [h]
  · rfl

/-- zeroing an array field: `arrayRemove … 0` as often as the array is long -/
theorem clear_loop {F : Nat} (l : List (Name × VTy)) (ψ : Name → List Nat) {p : Name} (hp : p ∈ l.map (·.1))
    (hnd : (l.map (·.1)).Nodup) (i : Nat) (a : List Nat) (G : Nodes.Graph W) (t : Nodes.SNode W)
    (hG : G i = .struct t) (ha : t.arrays = l.map (fun q => if q.1 = p then a else ψ q.1)) :
    ∃ t', (Nodes.run F G (List.replicate a.length (.arrayRemove i (portIdx l p) 0))).1 = G.set i (.struct t') ∧
      t'.fn = t.fn ∧ t'.next = t.next ∧ t'.scalars = t.scalars ∧
      t'.arrays = l.map (fun q => if q.1 = p then [] else ψ q.1) := by
  induction a generalizing G t with
  | nil => exact ⟨t, by simp [run_nil, ← hG, set_same], rfl, rfl, rfl, ha⟩
  | cons x xs ih =>
    have hlm := listModify_map_key l (fun y => if y = p then x :: xs else ψ y) (fun b => Nodes.removeAt b 0) hp hnd
    have hstep : (Nodes.step F G (.arrayRemove i (portIdx l p) 0)).1 =
        G.set i (.struct { t with arrays := l.map (fun q => if q.1 = p then xs else ψ q.1), flag := true }) := by
      simp only [Nodes.step, Nodes.step?, hG, ha, hlm, if_true, Nodes.removeAt, Option.map_some, Option.getD_some]
      congr 3
      apply List.map_congr_left
      intro q _
      by_cases hq : q.1 = p <;> simp [hq]
    obtain ⟨t', h1, h2, h3, h4, h5⟩ := ih (G.set i (.struct { t with arrays := l.map (fun q => if q.1 = p then xs else ψ q.1), flag := true }))
      { t with arrays := l.map (fun q => if q.1 = p then xs else ψ q.1), flag := true } (set_self _ _) rfl
    refine ⟨t', ?_, h2, h3, h4, h5⟩
    simp only [List.length_cons, List.replicate_succ, Nodes.run]
    rw [hstep]
    show (Nodes.run F _ _).1 = _
    rw [h1, set_set]

/-- disconnect (scalar field, one array element, or a whole array field) -/
theorem sim_disconnect {P : Procs V W} {E : Env V J} (hE : EnvOK E) {F : Nat} {s : Sim V} {G : Nodes.Graph W}
    {tys : List TyName} (hI : SimInv P E s G tys) {dst : Id} {ip : Name} {g' : Graph V}
    (h : step E s.g (.disconnect dst ip) = .ok g') :
    SimInv P E { s with g := g' } (Nodes.run F G (rtOps P E s g' (.disconnect dst ip))).1 tys := by
  obtain ⟨d, Td, d', hd, hTd, hc, rfl⟩ := disconnect_inv h
  obtain ⟨hdm, hdid⟩ := find_some hd
  obtain ⟨hpar, hcase⟩ := setInputDisconnect_inv hc
  obtain ⟨t, hG, h1, h2, h3, h4⟩ := holds_struct hI.holds hdm hTd hpar
  have hwf' := step_wf hE hI.wf h
  have hσd : s.σ dst = s.σ d.id := by rw [hdid]
  rcases hcase with ⟨p, rest, k, hsp, hk, hpm, hlen, rfl⟩ | ⟨hsp, ⟨t0, hpt⟩, rfl⟩ | ⟨hsp, hps, hpm, rfl⟩
  · have hops : rtOps P E s (s.g.setNode { d with arrs := upd d.arrs p ((d.arrs p).eraseIdx k.toNat) }) (.disconnect dst ip) =
        [.arrayRemove (s.σ d.id) (portIdx Td.arrs p) k.toNat] := by
      simp [rtOps, hd, hTd, hsp, hk, hσd]
    rw [hops, run_single]
    have hlm := listModify_map_key Td.arrs (fun x => (d.arrs x).map (fun r => s.σ r.node))
      (fun a => Nodes.removeAt a k.toNat) hpm (hE.arrNodup _ Td hTd)
    rw [removeAt_map _ _ _ hlen] at hlm
    have hstep : (Nodes.step F G (.arrayRemove (s.σ d.id) (portIdx Td.arrs p) k.toNat)).1 =
        G.set (s.σ d.id) (.struct { t with arrays := Td.arrs.map (fun q => if q.1 = p then ((d.arrs p).eraseIdx k.toNat).map (fun r => s.σ r.node) else (d.arrs q.1).map (fun r => s.σ r.node)), flag := true }) := by
      simp [Nodes.step, Nodes.step?, hG, h4, hlm]
    rw [hstep]
    refine simInv_local (n' := { d with arrs := upd d.arrs p ((d.arrs p).eraseIdx k.toNat) }) hI hdm rfl hwf'
      (fun k hk => set_other _ hk) ?_
    rw [set_self]
    refine absNode_struct_loose (n := { d with arrs := upd d.arrs p ((d.arrs p).eraseIdx k.toNat) }) (T := Td) hTd hpar h1 h2 h3 ?_
    apply List.map_congr_left
    intro q _
    by_cases hq : q.1 = p
    · simp [hq, upd]
    · simp [hq, upd]
  · have hops : rtOps P E s (s.g.setNode { d with scal := upd d.scal ip none }) (.disconnect dst ip) =
        [.setInput (s.σ d.id) (portIdx Td.scal ip) none] := by
      simp [rtOps, hd, hTd, hsp, hpt, hσd]
    rw [hops, run_single]
    have hls := listSet_map_key Td.scal (fun x => (d.scal x).map (fun r => s.σ r.node)) none (portTy_mem_keys hpt)
      (hE.scalNodup _ Td hTd)
    have hstep : (Nodes.step F G (.setInput (s.σ d.id) (portIdx Td.scal ip) none)).1 =
        G.set (s.σ d.id) (.struct { t with scalars := Td.scal.map (fun q => if q.1 = ip then none else (d.scal q.1).map (fun r => s.σ r.node)), flag := true }) := by
      simp [Nodes.step, Nodes.step?, hG, h3, hls]
    rw [hstep]
    refine simInv_local (n' := { d with scal := upd d.scal ip none }) hI hdm rfl hwf' (fun k hk => set_other _ hk) ?_
    rw [set_self]
    refine absNode_struct_loose (n := { d with scal := upd d.scal ip none }) (T := Td) hTd hpar h1 h2 ?_ h4
    apply List.map_congr_left
    intro q _
    by_cases hq : q.1 = ip
    · simp [hq, upd]
    · simp [hq, upd]
  · have hops : rtOps P E s (s.g.setNode { d with arrs := upd d.arrs ip [] }) (.disconnect dst ip) =
        List.replicate (d.arrs ip).length (.arrayRemove (s.σ d.id) (portIdx Td.arrs ip) 0) := by
      simp [rtOps, hd, hTd, hsp, hps, hσd]
    rw [hops]
    have ha : t.arrays = Td.arrs.map (fun q => if q.1 = ip then (d.arrs ip).map (fun r => s.σ r.node) else (d.arrs q.1).map (fun r => s.σ r.node)) := by
      rw [h4]
      apply List.map_congr_left
      intro q _
      by_cases hq : q.1 = ip <;> simp [hq]
    obtain ⟨t', hrun, e1, e2, e3, e4⟩ := clear_loop (F := F) Td.arrs (fun y => (d.arrs y).map (fun r => s.σ r.node)) hpm
      (hE.arrNodup _ Td hTd) (s.σ d.id) ((d.arrs ip).map (fun r => s.σ r.node)) G t hG ha
    rw [List.length_map] at hrun
    rw [hrun]
    refine simInv_local (n' := { d with arrs := upd d.arrs ip [] }) hI hdm rfl hwf' (fun k hk => set_other _ hk) ?_
    rw [set_self]
    refine absNode_struct_loose (n := { d with arrs := upd d.arrs ip [] }) (T := Td) hTd hpar (e1.trans h1) (e2.trans h2)
      (e3.trans h3) ?_
    rw [e4]
    apply List.map_congr_left
    intro q _
    by_cases hq : q.1 = ip
    · simp [hq, upd]
    · simp [hq, upd]

/-! ### parameters, no-ops, create, delete, read -/

theorem find_setNode {l : List (GraphIO.Node V)} {id : Id} {n n' : GraphIO.Node V}
    (h : l.find? (fun m => m.id = id) = some n) (hid : n'.id = id) :
    (l.map (fun m => if m.id = n'.id then n' else m)).find? (fun m => m.id = id) = some n' := by
  induction l with
  | nil => cases h
  | cons x xs ih =>
    by_cases hx : x.id = id
    · simp [List.find?_cons, hx, hid]
    · have : x.id ≠ n'.id := fun e => hx (e.trans hid)
      simp only [List.find?_cons, hx, decide_false] at h
      simp [List.find?_cons, this, hx, ih h]

theorem par_struct_false {E : Env V J} {g : Graph V} {n : GraphIO.Node V} (hn : NodeWF E g n) {p : Param V}
    (hp : n.par = some p) : ∃ T k, E.types n.ty = some T ∧ T.param = some k := by
  obtain ⟨_, T, hT, _, _, hm⟩ := hn
  rw [hp] at hm
  cases hk : T.param with
  | none => simp [hk] at hm
  | some k => exact ⟨T, k, hT, hk⟩

/-- an operation that changes the parameter record of node `n` -/
theorem sim_param {P : Procs V W} {E : Env V J} {F : Nat} {s : Sim V} {G : Nodes.Graph W} {tys : List TyName}
    (hI : SimInv P E s G tys) {n : GraphIO.Node V} (hn : n ∈ s.g.nodes) {p p' : Param V} (hp : n.par = some p)
    (hwf' : WF E (s.g.setNode { n with par := some p' })) (ops : List (Nodes.Op W))
    (hops : ops = [] ∧ p'.value = p.value ∨ ops = [.setParam (s.σ n.id) (P.paramVal n.ty p'.value)]) :
    SimInv P E { s with g := s.g.setNode { n with par := some p' } } (Nodes.run F G ops).1 tys := by
  obtain ⟨T, k, hT, hk⟩ := par_struct_false (hI.wf.nodes n hn) hp
  have e := hI.holds n hn
  simp only [absNode, hT, hk, hp] at e
  rcases hops with ⟨rfl, hv⟩ | rfl
  · refine simInv_local (n' := { n with par := some p' }) hI hn rfl hwf' (fun k _ => looseEq.refl _) ?_
    rw [run_nil]
    simp only [absNode, hT, hk]
    simpa [hv] using e
  · cases hG : G (s.σ n.id) with
    | struct t => simp [hG, looseEq] at e
    | param x v =>
      rw [run_single]
      have hstep : (Nodes.step F G (.setParam (s.σ n.id) (P.paramVal n.ty p'.value))).1 =
          G.set (s.σ n.id) (.param (P.paramVal n.ty p'.value) (v + 1)) := by
        simp [Nodes.step, Nodes.step?, hG]
      rw [hstep]
      refine simInv_local (n' := { n with par := some p' }) hI hn rfl hwf' (fun k hk => set_other _ hk) ?_
      rw [set_self]
      simp [absNode, hT, hk, looseEq]

theorem simInv_sameNodes {P : Procs V W} {E : Env V J} {s : Sim V} {G : Nodes.Graph W} {tys : List TyName}
    (hI : SimInv P E s G tys) {g' : Graph V} (hn : g'.nodes = s.g.nodes) (hwf' : WF E g') :
    SimInv P E { s with g := g' } G tys :=
  ⟨hwf', fun n h => hI.holds n (hn ▸ h), fun n h => hI.slot n (hn ▸ h),
   fun a ha b hb => hI.inj a (hn ▸ ha) b (hn ▸ hb), hI.pre⟩

theorem aget_aset_self {β : Type} (l : List (String × β)) (k : String) (v : β) : aget (aset l k v) k = some v := by
  induction l with
  | nil => simp [aset, aget]
  | cons x xs ih =>
    obtain ⟨k', v'⟩ := x
    unfold aset
    split
    · simp [aget]
    · rename_i hk; simp [aget, hk, ih]

theorem aget_aset_ne {β : Type} (l : List (String × β)) {k k' : String} (v : β) (h : k' ≠ k) :
    aget (aset l k v) k' = aget l k' := by
  induction l with
  | nil => simp [aset, aget, Ne.symm h]
  | cons x xs ih =>
    obtain ⟨k0, v0⟩ := x
    unfold aset
    split
    · rename_i hk; subst hk; simp [aget, Ne.symm h]
    · simp only [aget, ih]

theorem aget_adel_ne {β : Type} (l : List (String × β)) {k k' : String} (h : k' ≠ k) :
    aget (adel l k) k' = aget l k' := by
  induction l with
  | nil => rfl
  | cons x xs ih =>
    obtain ⟨k0, v0⟩ := x
    simp only [adel, List.filter_cons]
    by_cases hk : k0 = k
    · subst hk
      have : ¬ k0 = k' := fun e => h e.symm
      simp only [ne_eq, not_true_eq_false, decide_false, Bool.false_eq_true, if_false, aget, this]
      exact ih
    · simp only [ne_eq, hk, not_false_eq_true, decide_true, if_true, aget]
      split
      · rfl
      · exact ih

/-- `absNode` looks at the numbering only through the node's references -/
theorem absNode_congr {P : Procs V W} {E : Env V J} {σ τ : Id → Nat} {n : GraphIO.Node V}
    (h : ∀ T, E.types n.ty = some T → ∀ r ∈ n.refs T, σ r.node = τ r.node) : absNode P E σ n = absNode P E τ n := by
  unfold absNode
  cases hT : E.types n.ty with
  | none => rfl
  | some T =>
    simp only
    cases hp : T.param with
    | some k => rfl
    | none =>
      simp only
      have hh := h T hT
      congr 2
      · apply List.map_congr_left
        intro q hq
        cases hr : n.scal q.1 with
        | none => rfl
        | some r =>
          simp only [Option.map_some, Option.some.injEq]
          apply hh
          exact List.mem_append_left _ (List.mem_filterMap.mpr ⟨q, hq, hr⟩)
      · apply List.map_congr_left
        intro q hq
        apply List.map_congr_left
        intro r hr
        apply hh
        exact List.mem_append_right _ (List.mem_flatMap.mpr ⟨q, hq, hr⟩)

theorem create_inv {E : Env V J} {g g' : Graph V} {ty : TyName} (h : step E g (.create ty) = .ok g') :
    ∃ T id, E.types ty = some T ∧ id ∉ g.ids ∧ g' = { g with nodes := g.nodes ++ [emptyNode id ty (freshParam E ty T)] } := by
  simp only [step] at h
  split at h
  · cases h
  · rename_i T hT
    split at h
    · cases h
    · rename_i id hfree
      cases h
      exact ⟨T, id, hT, (firstFree_fresh hfree).1, rfl⟩

theorem sim_create {P : Procs V W} {E : Env V J} (hE : EnvOK E) {s : Sim V} {G : Nodes.Graph W} {ty : TyName}
    {tys : List TyName} (hI : SimInv P E s G (ty :: tys)) {g' : Graph V} (h : step E s.g (.create ty) = .ok g') :
    SimInv P E { g := g', slots := (newSlots s g' (.create ty : Op J)).1, next := (newSlots s g' (.create ty : Op J)).2 } G tys ∧
      (newSlots s g' (.create ty : Op J)).2 = s.next + 1 := by
  obtain ⟨T, id, hT, hfresh, rfl⟩ := create_inv h
  have hwf' := step_wf hE hI.wf h
  have hns : newSlots s { s.g with nodes := s.g.nodes ++ [emptyNode id ty (freshParam E ty T)] } (.create ty : Op J) =
      (aset s.slots id s.next, s.next + 1) := by
    simp [newSlots, emptyNode]
  simp only [hns]
  refine ⟨?_, trivial⟩
  have hne : ∀ n ∈ s.g.nodes, n.id ≠ id := fun n hn e => hfresh (e ▸ List.mem_map.mpr ⟨n, hn, rfl⟩)
  have hσold : ∀ x, x ≠ id → (Sim.σ { g := { s.g with nodes := s.g.nodes ++ [emptyNode id ty (freshParam E ty T)] }, slots := aset s.slots id s.next, next := s.next + 1 } x) = s.σ x := by
    intro x hx
    simp [Sim.σ, aget_aset_ne _ _ hx]
  have hσnew : (Sim.σ { g := { s.g with nodes := s.g.nodes ++ [emptyNode id ty (freshParam E ty T)] }, slots := aset s.slots id s.next, next := s.next + 1 } id) = s.next := by
    simp [Sim.σ, aget_aset_self]
  refine ⟨hwf', ?_, ?_, ?_, ?_⟩
  · intro n hn
    rcases List.mem_append.mp hn with hn' | hn'
    · rw [hσold _ (hne n hn')]
      have : absNode P E (Sim.σ { g := { s.g with nodes := s.g.nodes ++ [emptyNode id ty (freshParam E ty T)] }, slots := aset s.slots id s.next, next := s.next + 1 }) n = absNode P E s.σ n := by
        apply absNode_congr
        intro T' hT' r hr
        obtain ⟨m, hm, hid⟩ := ref_live (hI.wf.nodes n hn') hT' hr
        exact hσold _ (hid ▸ hne m hm)
      rw [this]
      exact hI.holds n hn'
    · simp only [List.mem_singleton] at hn'
      subst hn'
      show looseEq (G (Sim.σ _ id)) _
      rw [hσnew]
      have := hI.pre 0
      simp only [Nat.add_zero, List.getElem?_cons_zero] at this
      refine this.trans ?_
      have : freshRt P E ty = absNode P E (Sim.σ { g := { s.g with nodes := s.g.nodes ++ [emptyNode id ty (freshParam E ty T)] }, slots := aset s.slots id s.next, next := s.next + 1 }) (emptyNode id ty (freshParam E ty T)) := by
        simp only [freshRt, absNode, emptyNode, hT]
        cases T.param <;> simp
      rw [this]
      exact looseEq.refl _
  · intro n hn
    rcases List.mem_append.mp hn with hn' | hn'
    · obtain ⟨k, hk, hlt⟩ := hI.slot n hn'
      exact ⟨k, by rw [aget_aset_ne _ _ (hne n hn')]; exact hk, by show k < s.next + 1; omega⟩
    · simp only [List.mem_singleton] at hn'
      subst hn'
      exact ⟨s.next, aget_aset_self _ _ _, by show s.next < s.next + 1; omega⟩
  · intro a ha b hb e
    rcases List.mem_append.mp ha with ha' | ha' <;> rcases List.mem_append.mp hb with hb' | hb'
    · rw [hσold _ (hne a ha'), hσold _ (hne b hb')] at e
      exact hI.inj a ha' b hb' e
    · simp only [List.mem_singleton] at hb'
      subst hb'
      rw [hσold _ (hne a ha'), show (emptyNode id ty (freshParam E ty T)).id = id from rfl, hσnew] at e
      have h1 := hI.σ_lt ha'
      omega
    · simp only [List.mem_singleton] at ha'
      subst ha'
      rw [hσold _ (hne b hb'), show (emptyNode id ty (freshParam E ty T)).id = id from rfl, hσnew] at e
      have h1 := hI.σ_lt hb'
      omega
    · simp only [List.mem_singleton] at ha' hb'
      rw [ha', hb']
  · intro j
    have := hI.pre (j + 1)
    simp only [List.getElem?_cons_succ] at this
    rw [show s.next + 1 + j = s.next + (j + 1) by omega]
    exact this

theorem sim_delete {P : Procs V W} {E : Env V J} (hE : EnvOK E) {s : Sim V} {G : Nodes.Graph W}
    {tys : List TyName} (hI : SimInv P E s G tys) {id : Id} {g' : Graph V} (h : step E s.g (.delete id) = .ok g') :
    SimInv P E { g := g', slots := adel s.slots id, next := s.next } G tys := by
  have hwf' := step_wf hE hI.wf h
  simp only [step] at h
  split at h
  · cases h
  · cases h
    have hσ : ∀ x, x ≠ id → (Sim.σ { g := { s.g with nodes := s.g.nodes.filter (fun n => n.id ≠ id), prods := s.g.prods.filter (fun kv => kv.2.node ≠ id) }, slots := adel s.slots id, next := s.next } x) = s.σ x := by
      intro x hx
      simp [Sim.σ, aget_adel_ne _ hx]
    have hmem : ∀ n, n ∈ s.g.nodes.filter (fun n => n.id ≠ id) → n ∈ s.g.nodes ∧ n.id ≠ id := by
      intro n hn
      have := List.mem_filter.mp hn
      exact ⟨this.1, by simpa using this.2⟩
    refine ⟨hwf', ?_, ?_, ?_, hI.pre⟩
    · intro n hn
      obtain ⟨hn', hne⟩ := hmem n hn
      rw [hσ _ hne]
      have : absNode P E (Sim.σ { g := { s.g with nodes := s.g.nodes.filter (fun n => n.id ≠ id), prods := s.g.prods.filter (fun kv => kv.2.node ≠ id) }, slots := adel s.slots id, next := s.next }) n = absNode P E s.σ n := by
        apply absNode_congr
        intro T' hT' r hr
        obtain ⟨m, hm, hid⟩ := ref_live (hwf'.nodes n hn) hT' hr
        exact hσ _ (hid ▸ (hmem m hm).2)
      rw [this]
      exact hI.holds n hn'
    · intro n hn
      obtain ⟨hn', hne⟩ := hmem n hn
      obtain ⟨k, hk, hlt⟩ := hI.slot n hn'
      exact ⟨k, by rw [aget_adel_ne _ hne]; exact hk, hlt⟩
    · intro a ha b hb e
      obtain ⟨ha', hnea⟩ := hmem a ha
      obtain ⟨hb', hneb⟩ := hmem b hb
      rw [hσ _ hnea, hσ _ hneb] at e
      exact hI.inj a ha' b hb' e

theorem sim_read {P : Procs V W} {E : Env V J} {F : Nat} {s : Sim V} {G : Nodes.Graph W} {tys : List TyName}
    (hI : SimInv P E s G tys) (i : Nat) : SimInv P E s (Nodes.run F G [.read i]).1 tys := by
  rw [run_single, Nodes.step_read]
  have hs := Nodes.Eval_static F G i
  exact ⟨hI.wf, fun n hn => (looseEq.of_static (hs _)).trans (hI.holds n hn), hI.slot, hI.inj,
    fun j => (looseEq.of_static (hs _)).trans (hI.pre j)⟩

/-! ### one event, a whole session -/

theorem sim_event {P : Procs V W} {E : Env V J} (hE : EnvOK E) {F : Nat} {s : Sim V} {G : Nodes.Graph W}
    (ev : Ev J) (evs : List (Ev J)) (hI : SimInv P E s G (createdTys P E s (ev :: evs))) :
    SimInv P E (simStep P E s ev).1 (Nodes.run F G (simStep P E s ev).2).1 (createdTys P E (simStep P E s ev).1 evs) := by
  cases ev with
  | read id =>
    have h1 : (simStep P E s (.read id)).1 = s := by simp only [simStep]; split <;> rfl
    have hI' : SimInv P E s G (createdTys P E s evs) := by
      have : createdTys P E s (.read id :: evs) = createdTys P E s evs := by simp [createdTys, h1]
      rw [this] at hI; exact hI
    by_cases hf : (s.g.find id).isSome
    · have h2 : simStep P E s (.read id) = (s, [.read (s.σ id)]) := by simp [simStep, hf]
      rw [h2]; exact sim_read hI' _
    · have h2 : simStep P E s (.read id) = (s, []) := by simp [simStep, hf]
      rw [h2]; exact hI'
  | edit op =>
    cases hstep : step E s.g op with
    | error e =>
      have hs : simStep P E s (.edit op) = (s, []) := by simp [simStep, hstep]
      have hI' : SimInv P E s G (createdTys P E s evs) := by
        cases op <;> simpa [createdTys, hs] using hI
      rw [hs]
      exact hI'
    | ok g' =>
      have hs : simStep P E s (.edit op) =
          ({ g := g', slots := (newSlots s g' op).1, next := (newSlots s g' op).2 }, rtOps P E s g' op) := by
        simp [simStep, hstep]
      rw [hs]
      cases op with
      | create ty =>
        have hc : createdTys P E s (.edit (.create ty) :: evs) =
            (if (newSlots s g' (.create ty : Op J)).2 = s.next + 1 then [ty] else []) ++
              createdTys P E { g := g', slots := (newSlots s g' (.create ty : Op J)).1, next := (newSlots s g' (.create ty : Op J)).2 } evs := by
          simp [createdTys, hs]
        by_cases hn : (newSlots s g' (.create ty : Op J)).2 = s.next + 1
        · rw [hc, if_pos hn] at hI
          exact (sim_create hE hI hstep).1
        · -- a successful create always takes the next slot
          exfalso
          obtain ⟨T, id, hT, hfresh, rfl⟩ := create_inv hstep
          apply hn
          simp [newSlots]
      | connect src sp dst ip =>
        have hI' : SimInv P E s G (createdTys P E { g := g', slots := s.slots, next := s.next } evs) := by
          simpa [createdTys, hs, newSlots] using hI
        exact sim_connect hE hI' hstep
      | disconnect dst ip =>
        have hI' : SimInv P E s G (createdTys P E { g := g', slots := s.slots, next := s.next } evs) := by
          simpa [createdTys, hs, newSlots] using hI
        exact sim_disconnect hE hI' hstep
      | setValue id j =>
        have hI' : SimInv P E s G (createdTys P E { g := g', slots := s.slots, next := s.next } evs) := by
          simpa [createdTys, hs, newSlots] using hI
        have hwf' := step_wf hE hI'.wf hstep
        simp only [step] at hstep
        split at hstep
        · rename_i n hn
          obtain ⟨hnm, hnid⟩ := find_some hn
          split at hstep
          · rename_i p hp
            split at hstep
            · rename_i v hv
              cases hstep
              have hfind : (s.g.setNode { n with par := some { p with cur := some v } }).find id =
                  some { n with par := some { p with cur := some v } } := by
                show (s.g.nodes.map _).find? _ = _
                exact find_setNode hn hnid
              subst hnid
              have hops : rtOps P E s (s.g.setNode { n with par := some { p with cur := some v } }) (.setValue n.id j) =
                  [.setParam (s.σ n.id) (P.paramVal n.ty ({ p with cur := some v } : Param V).value)] := by
                simp [rtOps, hfind]
              rw [hops]
              exact sim_param hI' hnm hp hwf' _ (Or.inr rfl)
            · cases hstep
          · cases hstep
        · cases hstep
      | setName id nm =>
        have hI' : SimInv P E s G (createdTys P E { g := g', slots := s.slots, next := s.next } evs) := by
          simpa [createdTys, hs, newSlots] using hI
        have hwf' := step_wf hE hI'.wf hstep
        simp only [step] at hstep
        split at hstep
        · rename_i n hn
          obtain ⟨hnm, _⟩ := find_some hn
          split at hstep
          · rename_i p hp
            cases hstep
            exact sim_param hI' hnm hp hwf' [] (Or.inl ⟨rfl, rfl⟩)
          · cases hstep
        · cases hstep
      | setDesc id nm =>
        have hI' : SimInv P E s G (createdTys P E { g := g', slots := s.slots, next := s.next } evs) := by
          simpa [createdTys, hs, newSlots] using hI
        have hwf' := step_wf hE hI'.wf hstep
        simp only [step] at hstep
        split at hstep
        · rename_i n hn
          obtain ⟨hnm, _⟩ := find_some hn
          split at hstep
          · rename_i p hp
            cases hstep
            exact sim_param hI' hnm hp hwf' [] (Or.inl ⟨rfl, rfl⟩)
          · cases hstep
        · cases hstep
      | setProducer id file =>
        have hI' : SimInv P E s G (createdTys P E { g := g', slots := s.slots, next := s.next } evs) := by
          simpa [createdTys, hs, newSlots] using hI
        have hwf' := step_wf hE hI'.wf hstep
        have hn : g'.nodes = s.g.nodes := by
          simp only [step] at hstep
          split at hstep
          · split at hstep
            · split at hstep
              · cases hstep; rfl
              · cases hstep
            · cases hstep
          · cases hstep
        exact simInv_sameNodes hI' hn hwf'
      | metaSet path v =>
        have hI' : SimInv P E s G (createdTys P E { g := g', slots := s.slots, next := s.next } evs) := by
          simpa [createdTys, hs, newSlots] using hI
        have hwf' := step_wf hE hI'.wf hstep
        have hn : g'.nodes = s.g.nodes := by
          simp only [step] at hstep
          cases hm : GraphIO.metaSet path v s.g.md with
          | error e => simp [hm, bind, Except.bind] at hstep
          | ok m => simp only [hm, bind, Except.bind] at hstep; cases hstep; rfl
        exact simInv_sameNodes hI' hn hwf'
      | metaDel path =>
        have hI' : SimInv P E s G (createdTys P E { g := g', slots := s.slots, next := s.next } evs) := by
          simpa [createdTys, hs, newSlots] using hI
        have hwf' := step_wf hE hI'.wf hstep
        have hn : g'.nodes = s.g.nodes := by
          simp only [step] at hstep
          cases hm : GraphIO.metaDel path s.g.md with
          | error e => simp [hm, bind, Except.bind] at hstep
          | ok m => simp only [hm, bind, Except.bind] at hstep; cases hstep; rfl
        exact simInv_sameNodes hI' hn hwf'
      | delete id =>
        have hI' : SimInv P E s G (createdTys P E { g := g', slots := adel s.slots id, next := s.next } evs) := by
          simpa [createdTys, hs, newSlots] using hI
        exact sim_delete hE hI' hstep

theorem sim_run {P : Procs V W} {E : Env V J} (hE : EnvOK E) {F : Nat} (evs : List (Ev J)) {s : Sim V}
    {G : Nodes.Graph W} (hI : SimInv P E s G (createdTys P E s evs)) :
    SimInv P E (simRun P E s evs).1 (Nodes.run F G (simRun P E s evs).2).1 [] := by
  induction evs generalizing s G with
  | nil => exact hI
  | cons ev evs ih =>
    simp only [simRun]
    rw [run_state_append]
    exact ih (sim_event hE ev evs hI)

/-- before the session: nothing is wired, nothing has been processed -/
theorem preGraph_fresh (P : Procs V W) (E : Env V J) (tys : List TyName) :
    ∀ k s, preGraph P E tys k = .struct s → s.deps = [] ∧ s.remembered = none := by
    intro k s hs
    simp only [preGraph] at hs
    cases htk : tys[k]? with
    | none => simp [htk] at hs
    | some ty =>
      simp only [htk, freshRt, absNode, emptyNode] at hs
      cases hT : E.types ty with
      | none => simp [hT] at hs
      | some T =>
        simp only [hT] at hs
        cases hp : T.param with
        | some kd => simp [hp] at hs
        | none =>
          simp only [hp, Nodes.Node.struct.injEq] at hs
          subst hs
          refine ⟨?_, rfl⟩
          simp only [Nodes.SNode.deps, Option.map_none, List.map_nil]
          have h1 : (T.scal.map (fun _ => (none : Option Nat))).filterMap id = [] := by
            induction T.scal with
            | nil => rfl
            | cons a as ih => simpa using ih
          have h2 : (T.arrs.map (fun _ => ([] : List Nat))).flatten = [] := by
            induction T.arrs with
            | nil => rfl
            | cons a as ih => simpa using ih
          rw [h1, h2]; rfl

theorem preGraph_init (P : Procs V W) (E : Env V J) (tys : List TyName) {F : Nat} (hF : 0 < F) :
    Nodes.Init F (preGraph P E tys) := by
  have hfresh := preGraph_fresh P E tys
  refine ⟨⟨fun _ => 0, fun _ => hF, ?_⟩, fun i s hs => (hfresh i s hs).2⟩
  intro i s hs d hd
  rw [(hfresh i s hs).1] at hd
  cases hd

/-- nothing is wired before the session, so every bounded ranking ranks the initial graph -/
theorem preGraph_ranked (P : Procs V W) (E : Env V J) (tys : List TyName) {F : Nat} (rank : Nat → Nat)
    (hr : ∀ i, rank i < F) : Nodes.Ranked rank F (preGraph P E tys) := by
  refine ⟨hr, ?_⟩
  intro i s hs d hd
  rw [(preGraph_fresh P E tys i s hs).1] at hd
  cases hd

theorem simInv_init (P : Procs V W) (E : Env V J) (h : Hdr) (tys : List TyName) :
    SimInv P E (Sim.init h) (preGraph P E tys) tys :=
  ⟨init_wf h, fun n hn => by simp [Sim.init, Graph.init] at hn, fun n hn => by simp [Sim.init, Graph.init] at hn,
   fun a ha => by simp [Sim.init, Graph.init] at ha,
   fun j => by simp only [Sim.init, Nat.zero_add, preGraph]; exact looseEq.refl _⟩

end C12
end PolyVerif
