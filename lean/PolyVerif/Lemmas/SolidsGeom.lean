/-
  Geometry lemmas for C18 over ℝ (outwardness, normals): positions of `Model/Solids.lean` at the real
  scalar, determinant identities for the sphere's strip / fan triangles
  (`det = r³ · sin φ · sin Δφ · sin Δθ`), box corners, and generic facts relating `OutwardAt`,
  `NormalsOutward` and `Normalized()`.
-/
import PolyVerif.Lemmas.Solids
import PolyVerif.Lemmas.RealScalar
import PolyVerif.Gen.CubeTable
import Mathlib.Tactic
import Mathlib.Analysis.SpecialFunctions.Trigonometric.Bounds
namespace PolyVerif.Solids
open Real

/-- point at polar angle `φ` (from +y) and azimuth `θ`, radius `r` — the expression of sphere.go:33-36 -/
noncomputable def Pang (r φ θ : ℝ) : V3 ℝ := (V3.New (sin φ * cos θ) (cos φ) (sin φ * sin θ)).Scale r

theorem det3_rot (a b c : V3 ℝ) : det3 a b c = det3 b c a := by
  simp only [det3, V3.Dot, V3.Cross]; ring

/-- strip triangle `(i0, i1, i2)`: two corners on the upper ring -/
theorem detA (r φ1 φ2 θ1 θ2 : ℝ) :
    det3 (Pang r φ1 θ1) (Pang r φ1 θ2) (Pang r φ2 θ2) = r ^ 3 * sin φ1 * sin (φ2 - φ1) * sin (θ2 - θ1) := by
  simp only [det3, Pang, V3.Dot, V3.Cross, V3.New, V3.Scale, sin_sub]
  ring

/-- strip triangle `(i0, i2, i3)`: two corners on the lower ring -/
theorem detB (r φ1 φ2 θ1 θ2 : ℝ) :
    det3 (Pang r φ1 θ1) (Pang r φ2 θ2) (Pang r φ2 θ1) = r ^ 3 * sin φ2 * sin (φ2 - φ1) * sin (θ2 - θ1) := by
  simp only [det3, Pang, V3.Dot, V3.Cross, V3.New, V3.Scale, sin_sub]
  ring

theorem Pang_zero (r θ θ' : ℝ) : Pang r 0 θ = Pang r 0 θ' := by simp [Pang]
theorem Pang_pi (r θ θ' : ℝ) : Pang r π θ = Pang r π θ' := by simp [Pang]

/-- azimuth of column `c` -/
noncomputable def thetaOf (C c : Nat) : ℝ := 2 * π * (c : ℝ) / (C : ℝ)
/-- polar angle of ring `ρ` -/
noncomputable def phiOf (R ρ : Nat) : ℝ := π * (ρ : ℝ) / (R : ℝ)

/-- logical position of the sphere -/
noncomputable def uvPosL (r : ℝ) (R C : Nat) (p : LP) : V3 ℝ := Pang r (phiOf R p.1) (thetaOf C p.2)

theorem sin_dtheta {C i : Nat} (hC : 3 ≤ C) (hi : i < C) :
    sin (thetaOf C ((i + 1) % C) - thetaOf C i) = sin (2 * π / C) := by
  have hC0 : (C : ℝ) ≠ 0 := by positivity
  rcases nx_spec hi with ⟨h, _⟩ | ⟨h, h'⟩
  · rw [h]; congr 1; simp only [thetaOf]; push_cast; field_simp; ring
  · rw [h, ← sin_add_two_pi (thetaOf C 0 - thetaOf C i)]
    congr 1
    have : (i : ℝ) = C - 1 := by rw [← h']; push_cast; ring
    simp only [thetaOf, this]; push_cast; field_simp; ring

theorem sin_dtheta_pos {C : Nat} (hC : 3 ≤ C) : 0 < sin (2 * π / C) := by
  have hC3 : (3 : ℝ) ≤ C := by exact_mod_cast hC
  apply sin_pos_of_pos_of_lt_pi
  · positivity
  · rw [div_lt_iff₀ (by positivity)]; nlinarith [pi_pos]

theorem sin_phi_pos {R ρ : Nat} (h1 : 1 ≤ ρ) (h2 : ρ < R) : 0 < sin (phiOf R ρ) := by
  have hR : (0 : ℝ) < R := by exact_mod_cast (by omega : 0 < R)
  have h1' : (1 : ℝ) ≤ ρ := by exact_mod_cast h1
  have h2' : (ρ : ℝ) < R := by exact_mod_cast h2
  apply sin_pos_of_pos_of_lt_pi
  · unfold phiOf; positivity
  · unfold phiOf; rw [div_lt_iff₀ hR]; nlinarith [pi_pos]

theorem sin_dphi_pos {R ρ : Nat} (hR : 2 ≤ R) : 0 < sin (phiOf R (ρ + 1) - phiOf R ρ) := by
  have hR' : (2 : ℝ) ≤ R := by exact_mod_cast hR
  have : phiOf R (ρ + 1) - phiOf R ρ = π / R := by unfold phiOf; push_cast; field_simp; ring
  rw [this]
  apply sin_pos_of_pos_of_lt_pi
  · positivity
  · rw [div_lt_iff₀ (by positivity)]; nlinarith [pi_pos]
@[simp] theorem n2a_real (n : Nat) : (n2a n : ℝ) = (n : ℝ) := rfl

theorem uvSpherePos_enc {R C : Nat} (r : ℝ) (hR : 2 ≤ R) (hC : 3 ≤ C) (p : LP) (hv : UvValid R C p) :
    uvSpherePos r R C (uvEnc R C p) = uvPosL r R C p := by
  have hd := uvDec_uvEnc hR hC p hv
  rcases hv with rfl | rfl | ⟨h1, h2, h3⟩
  · simp [uvEnc_top, uvSpherePos, uvPosL, Pang, phiOf, V3.New, V3.Scale]
  · rw [uvEnc_bot C hR]
    have : uvBottom R C ≠ 0 := by simp [uvBottom]
    have hR0 : (R : ℝ) ≠ 0 := by positivity
    simp [uvSpherePos, this, uvPosL, Pang, phiOf, V3.New, V3.Scale, mul_div_cancel_right₀ _ hR0]
  · obtain ⟨ρ, c⟩ := p
    simp only at h1 h2 h3
    -- read (v-1)/C and (v-1)%C off `uvDec (uvEnc p) = p`
    have n0 : uvEnc R C (ρ, c) ≠ 0 := by rw [uvEnc_grid C c h1 h2]; omega
    have hle : (ρ - 1 + 1) * C ≤ (R - 1) * C := Nat.mul_le_mul_right C (by omega)
    rw [Nat.succ_mul] at hle
    have n1 : uvEnc R C (ρ, c) ≠ uvBottom R C := by rw [uvEnc_grid C c h1 h2]; unfold uvBottom; omega
    simp only [uvDec, n0, n1, if_false, Prod.mk.injEq] at hd
    obtain ⟨hd1, hd2⟩ := hd
    have hd1' : (uvEnc R C (ρ, c) - 1) / C + 1 = ρ := hd1
    simp only [uvSpherePos, n0, n1, if_false, hd1', hd2, uvPosL, Pang, phiOf, thetaOf, n2a_real, RS.sin_eq, RS.cos_eq,
      RS.pi_eq]
    push_cast
    rfl

theorem mem_sphereL {R C : Nat} {t : LP × LP × LP} : t ∈ sphereL R C ↔
    (∃ i, i < C ∧ (t = ((0, 0), (1, (i + 1) % C), (1, i)) ∨ t = ((R, 0), (R - 1, i), (R - 1, (i + 1) % C)))) ∨
    (∃ j, j < R - 2 ∧ ∃ i, i < C ∧ (t = ((j + 1, i), (j + 1, (i + 1) % C), (j + 2, (i + 1) % C)) ∨
      t = ((j + 1, i), (j + 2, (i + 1) % C), (j + 2, i)))) := by
  simp only [sphereL, List.mem_append, List.mem_flatMap, List.mem_range, List.mem_cons, List.not_mem_nil, or_false]

/-- every logical sphere triangle has positive signed volume against the centre -/
theorem sphereL_outward {R C : Nat} {r : ℝ} (hr : 0 < r) (hR : 2 ≤ R) (hC : 3 ≤ C) :
    ∀ t ∈ sphereL R C, 0 < det3 (uvPosL r R C t.1) (uvPosL r R C t.2.1) (uvPosL r R C t.2.2) := by
  intro t ht
  have hr3 : 0 < r ^ 3 := by positivity
  have hth := sin_dtheta_pos hC
  have key : ∀ a b c : ℝ, 0 < a → 0 < b → 0 < c → 0 < r ^ 3 * a * b * c := fun a b c ha hb hc => by positivity
  rcases mem_sphereL.1 ht with ⟨i, hi, rfl | rfl⟩ | ⟨j, hj, i, hi, rfl | rfl⟩
  · -- top fan: detB with φ1 = 0
    simp only [uvPosL]
    have h0 : phiOf R 0 = 0 := by simp [phiOf]
    have e : Pang r (phiOf R 0) (thetaOf C 0) = Pang r (phiOf R 0) (thetaOf C i) := by
      rw [h0]; exact Pang_zero _ _ _
    rw [e, detB, sin_dtheta hC hi]
    exact key _ _ _ (@sin_phi_pos R 1 (by omega) (by omega)) (@sin_dphi_pos R 0 hR) hth
  · -- bottom fan: rotate, detA with φ2 = π
    simp only [uvPosL]
    have hR0 : (R : ℝ) ≠ 0 := by positivity
    have hpi : phiOf R R = π := by simp [phiOf, mul_div_cancel_right₀ _ hR0]
    have e : Pang r (phiOf R R) (thetaOf C 0) = Pang r (phiOf R R) (thetaOf C ((i + 1) % C)) := by
      rw [hpi]; exact Pang_pi _ _ _
    rw [det3_rot, e, detA, sin_dtheta hC hi]
    have h2 := @sin_dphi_pos R (R - 1) hR
    rw [show R - 1 + 1 = R by omega] at h2
    exact key _ _ _ (@sin_phi_pos R (R - 1) (by omega) (by omega)) h2 hth
  · simp only [uvPosL]
    rw [detA, sin_dtheta hC hi]
    exact key _ _ _ (@sin_phi_pos R (j + 1) (by omega) (by omega)) (@sin_dphi_pos R (j + 1) hR) hth
  · simp only [uvPosL]
    rw [detB, sin_dtheta hC hi]
    exact key _ _ _ (@sin_phi_pos R (j + 2) (by omega) (by omega)) (@sin_dphi_pos R (j + 1) hR) hth
/-! ### generic facts about `OutwardAt` / `NormalsOutward` over ℝ -/

def O3 : V3 ℝ := ⟨0, 0, 0⟩

@[simp] theorem sub_O3 (p : V3 ℝ) : p.Sub O3 = p := by cases p; simp [V3.Sub, O3]

theorem outwardAt_map {pos : Nat → V3 ℝ} {ctr : V3 ℝ} (f : Nat → Nat) (ts : List Tri) :
    OutwardAt (fun v => pos (f v)) ctr ts ↔ OutwardAt pos ctr (ts.map (tmap f)) := by
  simp only [OutwardAt, List.mem_map]
  constructor
  · rintro h _ ⟨t, ht, rfl⟩; exact h t ht
  · intro h t ht; exact h _ ⟨t, ht, rfl⟩

theorem dot_faceNormal (a b c : V3 ℝ) :
    a.Dot (faceNormal a b c) = det3 a b c ∧ b.Dot (faceNormal a b c) = det3 a b c ∧
      c.Dot (faceNormal a b c) = det3 a b c := by
  simp only [faceNormal, det3, V3.Dot, V3.Cross, V3.Sub]
  refine ⟨?_, ?_, ?_⟩ <;> ring

/-- a vector with positive dot product against `n` keeps it after `Normalized()` -/
theorem normalized_dot_pos (p n : V3 ℝ) (h : 0 < p.Dot n) : 0 < p.Normalized.Dot n := by
  have hls : 0 < p.LengthSquared := by
    simp only [V3.LengthSquared, V3.Dot] at *
    by_contra hc
    have hx : p.x = 0 := by nlinarith [sq_nonneg p.x, sq_nonneg p.y, sq_nonneg p.z]
    have hy : p.y = 0 := by nlinarith [sq_nonneg p.x, sq_nonneg p.y, sq_nonneg p.z]
    have hz : p.z = 0 := by nlinarith [sq_nonneg p.x, sq_nonneg p.y, sq_nonneg p.z]
    rw [hx, hy, hz] at h; simp at h
  have hl : 0 < p.Length := by simp only [V3.Length, RS.sqrt_eq]; exact Real.sqrt_pos.2 hls
  have : p.Normalized.Dot n = p.Dot n / p.Length := by
    simp only [V3.Normalized, V3.DivByConstant, V3.Dot]; field_simp
  rw [this]; positivity

theorem normalsOutward_of_outward {pos : Nat → V3 ℝ} {ts : List Tri}
    (h : OutwardAt pos O3 ts) : NormalsOutward pos (fun v => (pos v).Normalized) ts := by
  intro t ht
  have hd := h t ht
  simp only [sub_O3, n2a_real, Nat.cast_zero] at hd
  obtain ⟨h1, h2, h3⟩ := dot_faceNormal (pos t.1) (pos t.2.1) (pos t.2.2)
  simp only [n2a_real, Nat.cast_zero]
  exact ⟨normalized_dot_pos _ _ (h1 ▸ hd), normalized_dot_pos _ _ (h2 ▸ hd), normalized_dot_pos _ _ (h3 ▸ hd)⟩

theorem uvSphere_outward_aux {R C : Nat} {r : ℝ} (hr : 0 < r) (hR : 2 ≤ R) (hC : 3 ≤ C) :
    OutwardAt (uvSpherePos r R C) O3 (uvSphereTris R C) := by
  rw [uvSphereTris_eq_map hR]
  intro t ht
  obtain ⟨t', ht', rfl⟩ := List.mem_map.1 ht
  -- the three corners are valid points
  have hv : UvValid R C t'.1 ∧ UvValid R C t'.2.1 ∧ UvValid R C t'.2.2 := by
    have he : ∀ e ∈ triEdges t', e ∈ edges (sphereL R C) := fun e he => List.mem_flatMap.2 ⟨t', ht', he⟩
    have h1 := sphereL_valid hR hC _ (he (t'.1, t'.2.1) (by simp [triEdges]))
    have h2 := sphereL_valid hR hC _ (he (t'.2.1, t'.2.2) (by simp [triEdges]))
    exact ⟨h1.1, h1.2, h2.2⟩
  simp only [tm, sub_O3, n2a_real, Nat.cast_zero, uvSpherePos_enc r hR hC _ hv.1, uvSpherePos_enc r hR hC _ hv.2.1,
    uvSpherePos_enc r hR hC _ hv.2.2]
  exact sphereL_outward hr hR hC t' ht'


/-! ### boxes -/

theorem cube_outward_aux {w h d : ℝ} (hw : 0 < w) (hh : 0 < h) (hd : 0 < d) :
    OutwardAt (cubeWeldedPos w h d) O3 (unflat Gen.CubeTable.cubeVertIndices) := by
  have key : 0 < w * h * d := by positivity
  intro t ht
  simp only [Gen.CubeTable.cubeVertIndices, unflat, List.mem_cons, List.not_mem_nil, or_false] at ht
  rcases ht with rfl | rfl | rfl | rfl | rfl | rfl | rfl | rfl | rfl | rfl | rfl | rfl <;>
  · simp [cubeWeldedPos, cornerPos, det3, V3.Dot, V3.Cross, V3.New]
    nlinarith [key]

theorem cubeQuads_outward_aux {w h d : ℝ} (hw : 0 < w) (hh : 0 < h) (hd : 0 < d) :
    OutwardAt (cubeQuadsPos w h d) O3 cubeQuadsTris := by
  have key : 0 < w * h * d := by positivity
  intro t ht
  simp [cubeQuadsTris, quadTris, shift, List.range, List.range.loop] at ht
  rcases ht with rfl | rfl | rfl | rfl | rfl | rfl | rfl | rfl | rfl | rfl | rfl | rfl <;>
  · simp [cubeQuadsPos, cubeQuadsPt, cubeQuadsCornerTable, cornerPos, det3, V3.Dot, V3.Cross, V3.New]
    nlinarith [key]

/-! ### capped cylinder over ℝ -/

/-- angle of column `k` -/
noncomputable def angOf (S k : Nat) : ℝ := (1 / (S : ℝ) * 2 * π) * (k : ℝ)

theorem angleIncrement_real (S : Nat) : (angleIncrement S : ℝ) = 1 / (S : ℝ) * 2 * π := by
  simp [angleIncrement]

theorem mem_cylinderTris {S : Nat} {t : Tri} : t ∈ cylinderTris S false false ↔
    (∃ i, i < S ∧ (t = (2 * i + 1, 2 * i, 2 * i + 2) ∨ t = (2 * i + 1, 2 * i + 2, 2 * i + 3))) ∨
    ((∃ i, i < S - 1 ∧ t = (i + cylinderSideNV S, S + cylinderSideNV S, i + 1 + cylinderSideNV S)) ∨
      t = (S - 1 + cylinderSideNV S, S + cylinderSideNV S, 0 + cylinderSideNV S)) ∨
    ((∃ i, i < S - 1 ∧ t = (i + (cylinderSideNV S + circleNV S), S + (cylinderSideNV S + circleNV S),
        i + 1 + (cylinderSideNV S + circleNV S))) ∨
      t = (S - 1 + (cylinderSideNV S + circleNV S), S + (cylinderSideNV S + circleNV S),
        0 + (cylinderSideNV S + circleNV S))) := by
  simp only [cylinderTris, cylinderSideTris, shift, circleTris, Bool.false_eq_true, if_false, List.mem_append,
    List.mem_flatMap, List.mem_map, List.mem_range, List.mem_cons, List.not_mem_nil, or_false, List.map_append,
    List.map_map, List.map_cons, List.map_nil, Function.comp, or_assoc]
  constructor
  · rintro (h | ⟨i, hi, rfl⟩ | h | ⟨i, hi, rfl⟩ | h)
    · exact Or.inl h
    · exact Or.inr (Or.inl ⟨i, hi, rfl⟩)
    · exact Or.inr (Or.inr (Or.inl h))
    · exact Or.inr (Or.inr (Or.inr (Or.inl ⟨i, hi, rfl⟩)))
    · exact Or.inr (Or.inr (Or.inr (Or.inr h)))
  · rintro (h | ⟨i, hi, rfl⟩ | h | ⟨i, hi, rfl⟩ | h)
    · exact Or.inl h
    · exact Or.inr (Or.inl ⟨i, hi, rfl⟩)
    · exact Or.inr (Or.inr (Or.inl h))
    · exact Or.inr (Or.inr (Or.inr (Or.inl ⟨i, hi, rfl⟩)))
    · exact Or.inr (Or.inr (Or.inr (Or.inr h)))
/-- rim point at angle `a`, height `y` -/
noncomputable def cpos (r a y : ℝ) : V3 ℝ := ⟨cos a * r, y, sin a * r⟩
/-- the bottom cap's rim point (circle rotated by π about X) -/
noncomputable def cposB (r a y : ℝ) : V3 ℝ := ⟨cos a * r, y, -(sin a * r)⟩

theorem cylPos_side {S i : Nat} (r H : ℝ) (hi : i ≤ S) :
    cylinderPos r H S (2 * i) = cpos r (angOf S i) (H / 2) ∧
    cylinderPos r H S (2 * i + 1) = cpos r (angOf S i) (-(H / 2)) := by
  have a1 : 2 * i < 2 * S + 2 := by omega
  have a2 : 2 * i + 1 < 2 * S + 2 := by omega
  have a3 : 2 * i / 2 = i := by omega
  have a4 : (2 * i + 1) / 2 = i := by omega
  have a5 : 2 * i % 2 = 0 := by omega
  simp [cylinderPos, a1, a2, a3, a4, a5, cpos, angOf, angleIncrement_real, V3.New]

theorem cylPos_top {S k : Nat} (r H : ℝ) (hk : k < S) :
    cylinderPos r H S (k + cylinderSideNV S) = cpos r (angOf S k) (H / 2) := by
  have a1 : ¬ (k + (S * 2 + 2) < 2 * S + 2) := by omega
  have a2 : k + (S * 2 + 2) < 3 * S + 2 := by omega
  have a3 : k + (S * 2 + 2) - (2 * S + 2) = k := by omega
  simp [cylinderPos, cylinderSideNV, a1, a2, a3, cpos, angOf, angleIncrement_real, V3.New]

theorem cylPos_topc (S : Nat) (r H : ℝ) : cylinderPos r H S (S + cylinderSideNV S) = ⟨0, H / 2, 0⟩ := by
  have a3 : S + (S * 2 + 2) = 3 * S + 2 := by omega
  have a1 : ¬ (3 * S + 2 < 2 * S + 2) := by omega
  simp [cylinderPos, cylinderSideNV, a3, a1, V3.New]

theorem cylPos_bot {S k : Nat} (r H : ℝ) (hk : k < S) :
    cylinderPos r H S (k + (cylinderSideNV S + circleNV S)) = cposB r (angOf S k) (-(H / 2)) := by
  have a1 : ¬ (k + (S * 2 + 2 + (S + 1)) < 2 * S + 2) := by omega
  have a2 : ¬ (k + (S * 2 + 2 + (S + 1)) < 3 * S + 2) := by omega
  have a3 : ¬ (k + (S * 2 + 2 + (S + 1)) = 3 * S + 2) := by omega
  have a4 : k + (S * 2 + 2 + (S + 1)) < 4 * S + 3 := by omega
  have a5 : k + (S * 2 + 2 + (S + 1)) - (3 * S + 3) = k := by omega
  simp [cylinderPos, cylinderSideNV, circleNV, a1, a2, a3, a4, a5, cposB, angOf, angleIncrement_real, V3.New]

theorem cylPos_botc (S : Nat) (r H : ℝ) :
    cylinderPos r H S (S + (cylinderSideNV S + circleNV S)) = ⟨0, -(H / 2), 0⟩ := by
  have a1 : ¬ (S + (S * 2 + 2 + (S + 1)) < 2 * S + 2) := by omega
  have a2 : ¬ (S + (S * 2 + 2 + (S + 1)) < 3 * S + 2) := by omega
  have a3 : ¬ (S + (S * 2 + 2 + (S + 1)) = 3 * S + 2) := by omega
  have a4 : ¬ (S + (S * 2 + 2 + (S + 1)) < 4 * S + 3) := by omega
  simp [cylinderPos, cylinderSideNV, circleNV, a1, a2, a3, a4, V3.New]

theorem det_side1 (r y a1 a2 : ℝ) :
    det3 (cpos r a1 (-y)) (cpos r a1 y) (cpos r a2 y) = 2 * y * r ^ 2 * sin (a2 - a1) := by
  simp only [det3, cpos, V3.Dot, V3.Cross, sin_sub]; ring
theorem det_side2 (r y a1 a2 : ℝ) :
    det3 (cpos r a1 (-y)) (cpos r a2 y) (cpos r a2 (-y)) = 2 * y * r ^ 2 * sin (a2 - a1) := by
  simp only [det3, cpos, V3.Dot, V3.Cross, sin_sub]; ring
theorem det_top (r y a1 a2 : ℝ) :
    det3 (cpos r a1 y) ⟨0, y, 0⟩ (cpos r a2 y) = y * r ^ 2 * sin (a2 - a1) := by
  simp only [det3, cpos, V3.Dot, V3.Cross, sin_sub]; ring
theorem det_bot (r y a1 a2 : ℝ) :
    det3 (cposB r a1 (-y)) ⟨0, -y, 0⟩ (cposB r a2 (-y)) = y * r ^ 2 * sin (a2 - a1) := by
  simp only [det3, cposB, V3.Dot, V3.Cross, sin_sub]; ring

theorem sin_dang {S i : Nat} (hS : 3 ≤ S) : sin (angOf S (i + 1) - angOf S i) = sin (2 * π / S) := by
  have hC0 : (S : ℝ) ≠ 0 := by positivity
  congr 1; simp only [angOf]; push_cast; field_simp; ring

theorem sin_dang_last {S : Nat} (hS : 3 ≤ S) : sin (angOf S 0 - angOf S (S - 1)) = sin (2 * π / S) := by
  have hC0 : (S : ℝ) ≠ 0 := by positivity
  rw [← sin_add_two_pi]
  congr 1
  have : ((S - 1 : ℕ) : ℝ) = (S : ℝ) - 1 := by rw [Nat.cast_sub (by omega)]; simp
  simp only [angOf, this]; push_cast; field_simp; ring

theorem cylinder_outward_aux {S : Nat} {r H : ℝ} (hr : 0 < r) (hH : 0 < H) (hS : 3 ≤ S) :
    OutwardAt (cylinderPos r H S) O3 (cylinderTris S false false) := by
  have hsin := sin_dtheta_pos hS
  have hy : 0 < H / 2 := by positivity
  have k1 : 0 < 2 * (H / 2) * r ^ 2 * sin (2 * π / S) := by positivity
  have k2 : 0 < (H / 2) * r ^ 2 * sin (2 * π / S) := by positivity
  intro t ht
  simp only [sub_O3, n2a_real, Nat.cast_zero]
  rcases mem_cylinderTris.1 ht with ⟨i, hi, rfl | rfl⟩ | (⟨i, hi, rfl⟩ | rfl) | (⟨i, hi, rfl⟩ | rfl)
  · rw [show 2 * i + 2 = 2 * (i + 1) by ring, (cylPos_side r H (show i ≤ S by omega)).1,
      (cylPos_side r H (show i ≤ S by omega)).2, (cylPos_side r H (show i + 1 ≤ S by omega)).1, det_side1, sin_dang hS]
    exact k1
  · rw [show 2 * i + 3 = 2 * (i + 1) + 1 by ring, show 2 * i + 2 = 2 * (i + 1) by ring,
      (cylPos_side r H (show i ≤ S by omega)).2, (cylPos_side r H (show i + 1 ≤ S by omega)).1,
      (cylPos_side r H (show i + 1 ≤ S by omega)).2, det_side2, sin_dang hS]
    exact k1
  · rw [cylPos_top r H (show i < S by omega), cylPos_top r H (show i + 1 < S by omega), cylPos_topc, det_top,
      sin_dang hS]
    exact k2
  · rw [cylPos_top r H (show S - 1 < S by omega), cylPos_top r H (show 0 < S by omega), cylPos_topc, det_top,
      sin_dang_last hS]
    exact k2
  · rw [cylPos_bot r H (show i < S by omega), cylPos_bot r H (show i + 1 < S by omega), cylPos_botc, det_bot,
      sin_dang hS]
    exact k2
  · rw [cylPos_bot r H (show S - 1 < S by omega), cylPos_bot r H (show 0 < S by omega), cylPos_botc, det_bot,
      sin_dang_last hS]
    exact k2
/-- un-normalised side normal `(cos a, c, sin a)` -/
noncomputable def nvec (a c : ℝ) : V3 ℝ := ⟨cos a, c, sin a⟩

theorem cylNrm_side {S i : Nat} (hi : i ≤ S) :
    (cylinderNormal S (2 * i) : V3 ℝ) = (nvec (angOf S i) (1 / 10)).Normalized ∧
    (cylinderNormal S (2 * i + 1) : V3 ℝ) = (nvec (angOf S i) (-(1 / 10))).Normalized := by
  have a1 : 2 * i < 2 * S + 2 := by omega
  have a2 : 2 * i + 1 < 2 * S + 2 := by omega
  have a3 : 2 * i / 2 = i := by omega
  have a4 : (2 * i + 1) / 2 = i := by omega
  have a5 : 2 * i % 2 = 0 := by omega
  simp [cylinderNormal, a1, a2, a3, a4, a5, nvec, angOf, angleIncrement_real, V3.New]

theorem cylNrm_top {S k : Nat} (hk : k ≤ S) : (cylinderNormal S (k + cylinderSideNV S) : V3 ℝ) = ⟨0, 1, 0⟩ := by
  have a1 : ¬ (k + (S * 2 + 2) < 2 * S + 2) := by omega
  have a2 : k + (S * 2 + 2) < 3 * S + 3 := by omega
  simp [cylinderNormal, cylinderSideNV, a1, a2, V3.New]

theorem cylNrm_bot {S k : Nat} (_hk : k ≤ S) :
    (cylinderNormal S (k + (cylinderSideNV S + circleNV S)) : V3 ℝ) = ⟨0, -1, 0⟩ := by
  have a1 : ¬ (k + (S * 2 + 2 + (S + 1)) < 2 * S + 2) := by omega
  have a2 : ¬ (k + (S * 2 + 2 + (S + 1)) < 3 * S + 3) := by omega
  simp [cylinderNormal, cylinderSideNV, circleNV, a1, a2, V3.New]

theorem dot_side1 (r y a1 a2 c : ℝ) :
    (nvec a1 c).Dot (faceNormal (cpos r a1 (-y)) (cpos r a1 y) (cpos r a2 y)) = 2 * y * r * sin (a2 - a1) ∧
    (nvec a2 c).Dot (faceNormal (cpos r a1 (-y)) (cpos r a1 y) (cpos r a2 y)) = 2 * y * r * sin (a2 - a1) := by
  simp only [faceNormal, nvec, cpos, V3.Dot, V3.Cross, V3.Sub, sin_sub]
  constructor <;> ring

theorem dot_side2 (r y a1 a2 c : ℝ) :
    (nvec a1 c).Dot (faceNormal (cpos r a1 (-y)) (cpos r a2 y) (cpos r a2 (-y))) = 2 * y * r * sin (a2 - a1) ∧
    (nvec a2 c).Dot (faceNormal (cpos r a1 (-y)) (cpos r a2 y) (cpos r a2 (-y))) = 2 * y * r * sin (a2 - a1) := by
  simp only [faceNormal, nvec, cpos, V3.Dot, V3.Cross, V3.Sub, sin_sub]
  constructor <;> ring

theorem dot_top (r y a1 a2 : ℝ) :
    (⟨0, 1, 0⟩ : V3 ℝ).Dot (faceNormal (cpos r a1 y) ⟨0, y, 0⟩ (cpos r a2 y)) = r ^ 2 * sin (a2 - a1) := by
  simp only [faceNormal, cpos, V3.Dot, V3.Cross, V3.Sub, sin_sub]; ring

theorem dot_bot (r y a1 a2 : ℝ) :
    (⟨0, -1, 0⟩ : V3 ℝ).Dot (faceNormal (cposB r a1 (-y)) ⟨0, -y, 0⟩ (cposB r a2 (-y))) = r ^ 2 * sin (a2 - a1) := by
  simp only [faceNormal, cposB, V3.Dot, V3.Cross, V3.Sub, sin_sub]; ring

theorem cylinder_normals_outward_aux {S : Nat} {r H : ℝ} (hr : 0 < r) (hH : 0 < H) (hS : 3 ≤ S) :
    NormalsOutward (cylinderPos r H S) (cylinderNormal S) (cylinderTris S false false) := by
  have hsin := sin_dtheta_pos hS
  have hy : 0 < H / 2 := by positivity
  have k1 : 0 < 2 * (H / 2) * r * sin (2 * π / S) := by positivity
  have k2 : 0 < r ^ 2 * sin (2 * π / S) := by positivity
  intro t ht
  simp only [n2a_real, Nat.cast_zero]
  rcases mem_cylinderTris.1 ht with ⟨i, hi, rfl | rfl⟩ | (⟨i, hi, rfl⟩ | rfl) | (⟨i, hi, rfl⟩ | rfl)
  · have d := dot_side1 r (H / 2) (angOf S i) (angOf S (i + 1))
    simp only [show 2 * i + 2 = 2 * (i + 1) by ring, (cylPos_side r H (show i ≤ S by omega)).1,
      (cylPos_side r H (show i ≤ S by omega)).2, (cylPos_side r H (show i + 1 ≤ S by omega)).1,
      (cylNrm_side (show i ≤ S by omega)).1, (cylNrm_side (show i ≤ S by omega)).2,
      (cylNrm_side (show i + 1 ≤ S by omega)).1]
    refine ⟨normalized_dot_pos _ _ ?_, normalized_dot_pos _ _ ?_, normalized_dot_pos _ _ ?_⟩
    · rw [(d _).1, sin_dang hS]; exact k1
    · rw [(d _).1, sin_dang hS]; exact k1
    · rw [(d _).2, sin_dang hS]; exact k1
  · have d := dot_side2 r (H / 2) (angOf S i) (angOf S (i + 1))
    simp only [show 2 * i + 3 = 2 * (i + 1) + 1 by ring, show 2 * i + 2 = 2 * (i + 1) by ring,
      (cylPos_side r H (show i ≤ S by omega)).2, (cylPos_side r H (show i + 1 ≤ S by omega)).1,
      (cylPos_side r H (show i + 1 ≤ S by omega)).2,
      (cylNrm_side (show i ≤ S by omega)).2, (cylNrm_side (show i + 1 ≤ S by omega)).1,
      (cylNrm_side (show i + 1 ≤ S by omega)).2]
    refine ⟨normalized_dot_pos _ _ ?_, normalized_dot_pos _ _ ?_, normalized_dot_pos _ _ ?_⟩
    · rw [(d _).1, sin_dang hS]; exact k1
    · rw [(d _).2, sin_dang hS]; exact k1
    · rw [(d _).2, sin_dang hS]; exact k1
  · simp only [cylPos_top r H (show i < S by omega), cylPos_top r H (show i + 1 < S by omega), cylPos_topc,
      cylNrm_top (show i ≤ S by omega), cylNrm_top (show i + 1 ≤ S by omega), cylNrm_top (le_refl S), dot_top,
      sin_dang hS]
    exact ⟨k2, k2, k2⟩
  · simp only [cylPos_top r H (show S - 1 < S by omega), cylPos_top r H (show 0 < S by omega), cylPos_topc,
      cylNrm_top (show S - 1 ≤ S by omega), cylNrm_top (show 0 ≤ S by omega), cylNrm_top (le_refl S), dot_top,
      sin_dang_last hS]
    exact ⟨k2, k2, k2⟩
  · simp only [cylPos_bot r H (show i < S by omega), cylPos_bot r H (show i + 1 < S by omega), cylPos_botc,
      cylNrm_bot (show i ≤ S by omega), cylNrm_bot (show i + 1 ≤ S by omega), cylNrm_bot (le_refl S), dot_bot,
      sin_dang hS]
    exact ⟨k2, k2, k2⟩
  · simp only [cylPos_bot r H (show S - 1 < S by omega), cylPos_bot r H (show 0 < S by omega), cylPos_botc,
      cylNrm_bot (show S - 1 ≤ S by omega), cylNrm_bot (show 0 ≤ S by omega), cylNrm_bot (le_refl S), dot_bot,
      sin_dang_last hS]
    exact ⟨k2, k2, k2⟩

/-! ### hemisphere over ℝ -/

/-- the centre used for the hemisphere: on the axis, a quarter of the diameter above the cap -/
noncomputable def hemiCtr (r : ℝ) : V3 ℝ := ⟨0, r / 2, 0⟩

/-- polar angle (from +y) of hemisphere ring `ρ ≥ 1`: `ugh` of hemisphere.go:37 with `i = ρ - 1` -/
noncomputable def psiOf (R ρ : Nat) : ℝ := (-π * ((ρ - 1 : ℕ) : ℝ)) / (R : ℝ) / 2 + π / 2

noncomputable def hemiPosL (r : ℝ) (R C : Nat) (p : LP) : V3 ℝ :=
  if p.1 = 0 then ⟨0, 0, 0⟩ else if p.1 = R then ⟨0, r, 0⟩ else Pang r (psiOf R p.1) (thetaOf C p.2)

theorem hemispherePos_enc {R C : Nat} (r : ℝ) (hR : 2 ≤ R) (hC : 3 ≤ C) (p : LP) (hv : UvValid R C p) :
    hemispherePos r R C (uvEnc R C p) = hemiPosL r R C p := by
  have hd := uvDec_uvEnc hR hC p hv
  rcases hv with rfl | rfl | ⟨h1, h2, h3⟩
  · simp [uvEnc_top, hemispherePos, hemiPosL, V3.New]
  · rw [uvEnc_bot C hR]
    have : uvBottom R C ≠ 0 := by simp [uvBottom]
    have hR0 : R ≠ 0 := by omega
    simp [hemispherePos, this, hemiPosL, V3.New, hR0]
  · obtain ⟨ρ, c⟩ := p
    simp only at h1 h2 h3
    have n0 : uvEnc R C (ρ, c) ≠ 0 := by rw [uvEnc_grid C c h1 h2]; omega
    have hle : (ρ - 1 + 1) * C ≤ (R - 1) * C := Nat.mul_le_mul_right C (by omega)
    rw [Nat.succ_mul] at hle
    have n1 : uvEnc R C (ρ, c) ≠ uvBottom R C := by rw [uvEnc_grid C c h1 h2]; unfold uvBottom; omega
    simp only [uvDec, n0, n1, if_false, Prod.mk.injEq] at hd
    obtain ⟨hd1, hd2⟩ := hd
    have hd1' : (uvEnc R C (ρ, c) - 1) / C = ρ - 1 := by omega
    have r0 : ρ ≠ 0 := by omega
    have r1 : ρ ≠ R := by omega
    simp only [hemispherePos, n0, n1, if_false, hd1', hd2, hemiPosL, r0, r1, Pang, psiOf, thetaOf, n2a_real,
      RS.sin_eq, RS.cos_eq, RS.pi_eq]
    push_cast
    have e : 2 * π * ((c : ℝ) / (C : ℝ)) = 2 * π * (c : ℝ) / (C : ℝ) := by ring
    rw [e]

/-- shifted determinant of the dome triangle `(P(φ1,θ1), P(φ2,θ2), P(φ1,θ2))` -/
theorem detA'_shift (r t φ1 φ2 θ1 θ2 : ℝ) :
    det3 ((Pang r φ1 θ1).Sub ⟨0, t, 0⟩) ((Pang r φ2 θ2).Sub ⟨0, t, 0⟩) ((Pang r φ1 θ2).Sub ⟨0, t, 0⟩) =
      r ^ 2 * sin φ1 * sin (θ2 - θ1) * (r * sin (φ1 - φ2) - t * (sin φ1 - sin φ2)) := by
  simp only [det3, Pang, V3.Dot, V3.Cross, V3.New, V3.Scale, V3.Sub, sin_sub]
  ring

/-- shifted determinant of the dome triangle `(P(φ1,θ1), P(φ2,θ1), P(φ2,θ2))` -/
theorem detB'_shift (r t φ1 φ2 θ1 θ2 : ℝ) :
    det3 ((Pang r φ1 θ1).Sub ⟨0, t, 0⟩) ((Pang r φ2 θ1).Sub ⟨0, t, 0⟩) ((Pang r φ2 θ2).Sub ⟨0, t, 0⟩) =
      r ^ 2 * sin φ2 * sin (θ2 - θ1) * (r * sin (φ1 - φ2) - t * (sin φ1 - sin φ2)) := by
  simp only [det3, Pang, V3.Dot, V3.Cross, V3.New, V3.Scale, V3.Sub, sin_sub]
  ring

/-- shifted determinant of a cap triangle `(origin, P(π/2,θ1), P(π/2,θ2))` -/
theorem detCap_shift (r t θ1 θ2 : ℝ) :
    det3 ((⟨0, 0, 0⟩ : V3 ℝ).Sub ⟨0, t, 0⟩) ((Pang r (π / 2) θ1).Sub ⟨0, t, 0⟩) ((Pang r (π / 2) θ2).Sub ⟨0, t, 0⟩) =
      t * r ^ 2 * sin (θ2 - θ1) := by
  simp only [det3, Pang, V3.Dot, V3.Cross, V3.New, V3.Scale, V3.Sub, sin_sub, sin_pi_div_two, cos_pi_div_two]
  ring
theorem psiOf_step {R ρ : Nat} (hR : 2 ≤ R) (h1 : 1 ≤ ρ) : psiOf R ρ = psiOf R (ρ + 1) + π / (2 * R) := by
  have hR0 : (R : ℝ) ≠ 0 := by positivity
  have e : ((ρ + 1 - 1 : ℕ) : ℝ) = ((ρ - 1 : ℕ) : ℝ) + 1 := by
    rw [show ρ + 1 - 1 = (ρ - 1) + 1 by omega]; push_cast; ring
  simp only [psiOf, e]; field_simp; ring

theorem psiOf_one (R : Nat) : psiOf R 1 = π / 2 := by simp [psiOf]

theorem psiOf_pos_le {R ρ : Nat} (h1 : 1 ≤ ρ) (h2 : ρ < R) : 0 < psiOf R ρ ∧ psiOf R ρ ≤ π / 2 := by
  have hR : (0 : ℝ) < R := by exact_mod_cast (by omega : 0 < R)
  have hρ : ((ρ - 1 : ℕ) : ℝ) + 1 ≤ R := by
    have : ρ - 1 + 1 ≤ R := by omega
    exact_mod_cast this
  have hρ0 : (0 : ℝ) ≤ ((ρ - 1 : ℕ) : ℝ) := Nat.cast_nonneg _
  have e : psiOf R ρ = π / 2 * (1 - ((ρ - 1 : ℕ) : ℝ) / R) := by simp only [psiOf]; field_simp; ring
  have hq : ((ρ - 1 : ℕ) : ℝ) / R < 1 := by rw [div_lt_one hR]; linarith
  have hq0 : 0 ≤ ((ρ - 1 : ℕ) : ℝ) / R := by positivity
  rw [e]
  constructor
  · have : 0 < π / 2 := by positivity
    nlinarith
  · have : 0 < π / 2 := by positivity
    nlinarith

theorem sin_psi_pos {R ρ : Nat} (h1 : 1 ≤ ρ) (h2 : ρ < R) : 0 < sin (psiOf R ρ) := by
  obtain ⟨h, h'⟩ := psiOf_pos_le h1 h2
  exact sin_pos_of_pos_of_lt_pi h (by linarith [pi_pos])

theorem sin_hdelta_pos {R : Nat} (hR : 2 ≤ R) : 0 < sin (π / (2 * R)) := by
  have hR' : (2 : ℝ) ≤ R := by exact_mod_cast hR
  apply sin_pos_of_pos_of_lt_pi
  · positivity
  · rw [div_lt_iff₀ (by positivity)]; nlinarith [pi_pos]

/-- the shifted-centre factor is positive: `r·sin δ − (r/2)(sin(φ+δ) − sin φ) ≥ (r/2)·sin δ > 0` -/
theorem shift_factor_pos {r φ δ : ℝ} (hr : 0 < r) (h0 : 0 ≤ sin φ) (hδ : 0 < sin δ) :
    0 < r * sin (φ + δ - φ) - r / 2 * (sin (φ + δ) - sin φ) := by
  have e : φ + δ - φ = δ := by ring
  rw [e, sin_add]
  have h1 : 0 ≤ sin φ * (1 - cos δ) := mul_nonneg h0 (by linarith [cos_le_one δ])
  have h2 : 0 ≤ sin δ * (1 - cos φ) := mul_nonneg hδ.le (by linarith [cos_le_one φ])
  have h3 : sin φ * cos δ + cos φ * sin δ - sin φ ≤ sin δ := by nlinarith
  have h4 : 0 < r * sin δ := by positivity
  nlinarith

theorem hemisphere_outward_aux {R C : Nat} {r : ℝ} (hr : 0 < r) (hR : 2 ≤ R) (hC : 3 ≤ C) :
    OutwardAt (hemispherePos r R C) (hemiCtr r) (hemisphereTris R C) := by
  rw [hemisphereTris_eq_flip, uvSphereTris_eq_map hR]
  intro t ht
  obtain ⟨t1, ht1, rfl⟩ := List.mem_map.1 ht
  obtain ⟨t', ht', rfl⟩ := List.mem_map.1 ht1
  have hv : UvValid R C t'.1 ∧ UvValid R C t'.2.1 ∧ UvValid R C t'.2.2 := by
    have he : ∀ e ∈ triEdges t', e ∈ edges (sphereL R C) := fun e he => List.mem_flatMap.2 ⟨t', ht', he⟩
    have h1 := sphereL_valid hR hC _ (he (t'.1, t'.2.1) (by simp [triEdges]))
    have h2 := sphereL_valid hR hC _ (he (t'.2.1, t'.2.2) (by simp [triEdges]))
    exact ⟨h1.1, h1.2, h2.2⟩
  simp only [flipT, tm, n2a_real, Nat.cast_zero, hemispherePos_enc r hR hC _ hv.1, hemispherePos_enc r hR hC _ hv.2.1,
    hemispherePos_enc r hR hC _ hv.2.2, hemiCtr]
  have hth := sin_dtheta_pos hC
  have hr2 : 0 < r ^ 2 := by positivity
  have hR1 : (1 : ℕ) ≠ R := by omega
  have hR0 : R ≠ 0 := by omega
  rcases mem_sphereL.1 ht' with ⟨i, hi, rfl | rfl⟩ | ⟨j, hj, i, hi, rfl | rfl⟩
  · -- cap fan
    simp only [hemiPosL, if_true, one_ne_zero, if_false, hR1, psiOf_one]
    rw [detCap_shift, sin_dtheta hC hi]
    positivity
  · -- pole fan
    have a0 : R - 1 ≠ 0 := by omega
    have a1 : R - 1 ≠ R := by omega
    simp only [hemiPosL, hR0, if_true, if_false, a0, a1]
    have e : (⟨0, r, 0⟩ : V3 ℝ) = Pang r 0 (thetaOf C ((i + 1) % C)) := by simp [Pang, V3.New, V3.Scale]
    rw [e, det3_rot, det3_rot, detA'_shift, sin_dtheta hC hi]
    have hs := @sin_psi_pos R (R - 1) (by omega) (by omega)
    simp only [sub_zero, sin_zero]
    have : 0 < r * sin (psiOf R (R - 1)) - r / 2 * sin (psiOf R (R - 1)) := by nlinarith
    positivity
  · -- strip, first triangle
    have a0 : j + 1 ≠ 0 := by omega
    have a1 : j + 1 ≠ R := by omega
    have a2 : j + 2 ≠ 0 := by omega
    have a3 : j + 2 ≠ R := by omega
    simp only [hemiPosL, if_false, a0, a1, a2, a3]
    rw [detA'_shift, sin_dtheta hC hi, @psiOf_step R (j + 1) hR (by omega)]
    have hs := @sin_psi_pos R (j + 2) (by omega) (by omega)
    have hf := shift_factor_pos hr hs.le (sin_hdelta_pos hR)
    have hs1 : 0 < sin (psiOf R (j + 1 + 1) + π / (2 * R)) := by
      rw [← @psiOf_step R (j + 1) hR (by omega)]; exact sin_psi_pos (by omega) (by omega)
    positivity
  · -- strip, second triangle
    have a0 : j + 1 ≠ 0 := by omega
    have a1 : j + 1 ≠ R := by omega
    have a2 : j + 2 ≠ 0 := by omega
    have a3 : j + 2 ≠ R := by omega
    simp only [hemiPosL, if_false, a0, a1, a2, a3]
    rw [detB'_shift, sin_dtheta hC hi]
    have hs := @sin_psi_pos R (j + 2) (by omega) (by omega)
    have hf := shift_factor_pos hr hs.le (sin_hdelta_pos hR)
    rw [← @psiOf_step R (j + 1) hR (by omega)] at hf
    positivity

/-! ### six-quad box normals; inscribedness -/

theorem cubeQuads_normals_outward_aux {w h d : ℝ} (hw : 0 < w) (hh : 0 < h) (hd : 0 < d) :
    NormalsOutward (cubeQuadsPos w h d) cubeQuadsNormal cubeQuadsTris := by
  have k1 : 0 < w * h := by positivity
  have k2 : 0 < w * d := by positivity
  have k3 : 0 < h * d := by positivity
  intro t ht
  simp [cubeQuadsTris, quadTris, shift, List.range, List.range.loop] at ht
  rcases ht with rfl | rfl | rfl | rfl | rfl | rfl | rfl | rfl | rfl | rfl | rfl | rfl <;>
  · simp [cubeQuadsPos, cubeQuadsPt, cubeQuadsCornerTable, cubeQuadsNormal, cornerPos, faceNormal, V3.Dot, V3.Cross,
      V3.Sub, V3.New]
    nlinarith [k1, k2, k3]

theorem Pang_lengthSquared (r φ θ : ℝ) : (Pang r φ θ).LengthSquared = r ^ 2 := by
  simp only [Pang, V3.LengthSquared, V3.New, V3.Scale]
  have h1 := sin_sq_add_cos_sq φ
  have h2 := sin_sq_add_cos_sq θ
  have : (sin φ * cos θ * r) * (sin φ * cos θ * r) + cos φ * r * (cos φ * r) + sin φ * sin θ * r * (sin φ * sin θ * r)
      = r ^ 2 * (sin φ ^ 2 * (sin θ ^ 2 + cos θ ^ 2) + cos φ ^ 2) := by ring
  rw [this, h2, mul_one, h1, mul_one]

/-- every vertex of the welded sphere lies on the sphere of radius `r`: the polyhedron is inscribed -/
theorem uvSphere_inscribed_aux {R C : Nat} (r : ℝ) (hR : 2 ≤ R) (hC : 3 ≤ C) :
    ∀ t ∈ uvSphereTris R C, (uvSpherePos r R C t.1).LengthSquared = r ^ 2 ∧
      (uvSpherePos r R C t.2.1).LengthSquared = r ^ 2 ∧ (uvSpherePos r R C t.2.2).LengthSquared = r ^ 2 := by
  rw [uvSphereTris_eq_map hR]
  intro t ht
  obtain ⟨t', ht', rfl⟩ := List.mem_map.1 ht
  have hv : UvValid R C t'.1 ∧ UvValid R C t'.2.1 ∧ UvValid R C t'.2.2 := by
    have he : ∀ e ∈ triEdges t', e ∈ edges (sphereL R C) := fun e he => List.mem_flatMap.2 ⟨t', ht', he⟩
    have h1 := sphereL_valid hR hC _ (he (t'.1, t'.2.1) (by simp [triEdges]))
    have h2 := sphereL_valid hR hC _ (he (t'.2.1, t'.2.2) (by simp [triEdges]))
    exact ⟨h1.1, h1.2, h2.2⟩
  simp only [tm, uvSpherePos_enc r hR hC _ hv.1, uvSpherePos_enc r hR hC _ hv.2.1,
    uvSpherePos_enc r hR hC _ hv.2.2, uvPosL, Pang_lengthSquared, and_self]

/-! ### volume -/

theorem volume6_eq_sum (pos : Nat → V3 ℝ) (ts : List Tri) :
    volume6 pos ts = (ts.map fun t => det3 (pos t.1) (pos t.2.1) (pos t.2.2)).sum := by
  have : ∀ (acc : ℝ), ts.foldl (fun acc t => acc + det3 (pos t.1) (pos t.2.1) (pos t.2.2)) acc
      = acc + (ts.map fun t => det3 (pos t.1) (pos t.2.1) (pos t.2.2)).sum := by
    induction ts with
    | nil => intro acc; simp
    | cons t ts ih => intro acc; simp only [List.foldl_cons, List.map_cons, List.sum_cons, ih]; ring
  simp only [volume6, n2a_real, Nat.cast_zero, this, zero_add]

theorem cube_volume_aux (w h d : ℝ) :
    volume6 (cubeWeldedPos w h d) (unflat Gen.CubeTable.cubeVertIndices) = 6 * (w * h * d) := by
  simp [volume6, Gen.CubeTable.cubeVertIndices, unflat, cubeWeldedPos, cornerPos, det3, V3.Dot, V3.Cross, V3.New]
  ring

theorem cubeQuads_volume_aux (w h d : ℝ) :
    volume6 (cubeQuadsPos w h d) cubeQuadsTris = 6 * (w * h * d) := by
  simp [volume6, cubeQuadsTris, quadTris, shift, List.range, List.range.loop, cubeQuadsPos, cubeQuadsPt,
    cubeQuadsCornerTable, cornerPos, det3, V3.Dot, V3.Cross, V3.New]
  ring

theorem sum_map_const {β : Type} (l : List β) (f : β → ℝ) (c : ℝ) (h : ∀ x ∈ l, f x = c) :
    (l.map f).sum = l.length * c := by
  induction l with
  | nil => simp
  | cons a l ih =>
    simp only [List.map_cons, List.sum_cons, List.length_cons, Nat.cast_succ]
    rw [h a (by simp), ih (fun x hx => h x (by simp [hx]))]; ring
theorem cyl_det_side {S : Nat} (r H : ℝ) (hS : 3 ≤ S) : ∀ t ∈ cylinderSideTris S,
    det3 (cylinderPos r H S t.1) (cylinderPos r H S t.2.1) (cylinderPos r H S t.2.2) = H * r ^ 2 * sin (2 * π / S) := by
  intro t ht
  simp only [cylinderSideTris, List.mem_flatMap, List.mem_range, List.mem_cons, List.not_mem_nil, or_false] at ht
  obtain ⟨i, hi, rfl | rfl⟩ := ht
  · rw [show 2 * i + 2 = 2 * (i + 1) by ring, (cylPos_side r H (show i ≤ S by omega)).1,
      (cylPos_side r H (show i ≤ S by omega)).2, (cylPos_side r H (show i + 1 ≤ S by omega)).1, det_side1, sin_dang hS]
    ring
  · rw [show 2 * i + 3 = 2 * (i + 1) + 1 by ring, show 2 * i + 2 = 2 * (i + 1) by ring,
      (cylPos_side r H (show i ≤ S by omega)).2, (cylPos_side r H (show i + 1 ≤ S by omega)).1,
      (cylPos_side r H (show i + 1 ≤ S by omega)).2, det_side2, sin_dang hS]
    ring

theorem cyl_det_top {S : Nat} (r H : ℝ) (hS : 3 ≤ S) : ∀ t ∈ shift (cylinderSideNV S) (circleTris S),
    det3 (cylinderPos r H S t.1) (cylinderPos r H S t.2.1) (cylinderPos r H S t.2.2) = H / 2 * r ^ 2 * sin (2 * π / S) := by
  intro t ht
  simp only [shift, circleTris, List.map_append, List.map_map, List.map_cons, List.map_nil, List.mem_append,
    List.mem_map, List.mem_range, List.mem_cons, List.not_mem_nil, or_false, Function.comp] at ht
  rcases ht with ⟨i, hi, rfl⟩ | rfl
  · rw [cylPos_top r H (show i < S by omega), cylPos_top r H (show i + 1 < S by omega), cylPos_topc, det_top,
      sin_dang hS]
  · rw [cylPos_top r H (show S - 1 < S by omega), cylPos_top r H (show 0 < S by omega), cylPos_topc, det_top,
      sin_dang_last hS]

theorem cyl_det_bot {S : Nat} (r H : ℝ) (hS : 3 ≤ S) :
    ∀ t ∈ shift (cylinderSideNV S + circleNV S) (circleTris S),
    det3 (cylinderPos r H S t.1) (cylinderPos r H S t.2.1) (cylinderPos r H S t.2.2) = H / 2 * r ^ 2 * sin (2 * π / S) := by
  intro t ht
  simp only [shift, circleTris, List.map_append, List.map_map, List.map_cons, List.map_nil, List.mem_append,
    List.mem_map, List.mem_range, List.mem_cons, List.not_mem_nil, or_false, Function.comp] at ht
  rcases ht with ⟨i, hi, rfl⟩ | rfl
  · rw [cylPos_bot r H (show i < S by omega), cylPos_bot r H (show i + 1 < S by omega), cylPos_botc, det_bot,
      sin_dang hS]
  · rw [cylPos_bot r H (show S - 1 < S by omega), cylPos_bot r H (show 0 < S by omega), cylPos_botc, det_bot,
      sin_dang_last hS]

theorem cylinderSideTris_length (S : Nat) : (cylinderSideTris S).length = 2 * S := by
  simp [cylinderSideTris, List.length_flatMap]; ring

theorem circleTris_shift_length (S k : Nat) (hS : 1 ≤ S) : (shift k (circleTris S)).length = S := by
  simp [shift, circleTris]; omega

/-- six times the enclosed volume of the capped cylinder = `6 · (S/2)·sin(2π/S)·r²·H`, the prism over the inscribed
    regular `S`-gon -/
theorem cylinder_volume_aux {S : Nat} (r H : ℝ) (hS : 3 ≤ S) :
    volume6 (cylinderPos r H S) (cylinderTris S false false) = 6 * ((S : ℝ) / 2 * sin (2 * π / S) * r ^ 2 * H) := by
  rw [volume6_eq_sum]
  simp only [cylinderTris, Bool.false_eq_true, if_false, List.map_append, List.sum_append]
  rw [sum_map_const _ _ _ (cyl_det_side r H hS), sum_map_const _ _ _ (cyl_det_top r H hS),
    sum_map_const _ _ _ (cyl_det_bot r H hS), cylinderSideTris_length, circleTris_shift_length _ _ (by omega),
    circleTris_shift_length _ _ (by omega)]
  push_cast
  ring

/-! ### sphere volume in closed form -/

theorem sum_flatMap' {β : Type} (l : List β) (h : β → List ℝ) :
    (l.flatMap h).sum = (l.map fun a => (h a).sum).sum := by
  induction l with
  | nil => simp
  | cons a l ih => simp [List.flatMap_cons, List.sum_append, ih]

/-- product-to-sum, in the telescoping form used below -/
theorem sin_mul_sin_tel (a d : ℝ) : sin a * sin d = (cos (a - d) - cos (a + d)) / 2 := by
  rw [cos_sub, cos_add]; ring

/-- `sin δ · Σ_{j<n} (sin((j+1)δ) + sin((j+2)δ))` telescopes -/
theorem strip_sum_tel (δ : ℝ) (n : Nat) :
    sin δ * ((List.range n).map fun j : Nat => sin (((j : ℝ) + 1) * δ) + sin (((j : ℝ) + 2) * δ)).sum =
      (cos (0 * δ) + cos (1 * δ) - cos ((n : ℝ) * δ) - cos (((n : ℝ) + 1) * δ)) / 2 +
      (cos (1 * δ) + cos (2 * δ) - cos (((n : ℝ) + 1) * δ) - cos (((n : ℝ) + 2) * δ)) / 2 := by
  induction n with
  | zero => simp
  | succ n ih =>
    rw [List.range_succ, List.map_append, List.sum_append, mul_add, ih]
    simp only [List.map_cons, List.map_nil, List.sum_cons, List.sum_nil, add_zero]
    have e1 := sin_mul_sin_tel (((n : ℝ) + 1) * δ) δ
    have e2 := sin_mul_sin_tel (((n : ℝ) + 2) * δ) δ
    have a1 : ((n : ℝ) + 1) * δ - δ = (n : ℝ) * δ := by ring
    have a2 : ((n : ℝ) + 1) * δ + δ = ((n : ℝ) + 2) * δ := by ring
    have a3 : ((n : ℝ) + 2) * δ - δ = ((n : ℝ) + 1) * δ := by ring
    have a4 : ((n : ℝ) + 2) * δ + δ = ((n : ℝ) + 1 + 2) * δ := by ring
    rw [a1, a2] at e1
    rw [a3, a4] at e2
    push_cast
    have a5 : ((n : ℝ) + 1 + 1) * δ = ((n : ℝ) + 2) * δ := by ring
    rw [a5]
    linear_combination e1 + e2

/-- the ring sum of the sphere: with `δ = π/R`,
    `sin δ · (sin δ + sin((R-1)δ) + Σ_{j<R-2} (sin((j+1)δ) + sin((j+2)δ))) = 2·(1 + cos δ)` -/
theorem sphere_ring_sum {R : Nat} (hR : 2 ≤ R) :
    sin (π / R) * (sin (π / R) + sin (((R : ℝ) - 1) * (π / R)) +
      ((List.range (R - 2)).map fun j : Nat => sin (((j : ℝ) + 1) * (π / R)) + sin (((j : ℝ) + 2) * (π / R))).sum) =
      2 * (1 + cos (π / R)) := by
  have hR0 : (R : ℝ) ≠ 0 := by positivity
  have hc : ((R - 2 : ℕ) : ℝ) = (R : ℝ) - 2 := by rw [Nat.cast_sub hR]; simp
  set δ := π / (R : ℝ) with hδ
  have hπ : (R : ℝ) * δ = π := by rw [hδ]; field_simp
  rw [mul_add, strip_sum_tel, hc]
  have b1 : ((R : ℝ) - 2) * δ = π - 2 * δ := by linear_combination hπ
  have b2 : ((R : ℝ) - 2 + 1) * δ = π - δ := by linear_combination hπ
  have b3 : ((R : ℝ) - 2 + 2) * δ = π := by linear_combination hπ
  have b4 : ((R : ℝ) - 1) * δ = π - δ := by linear_combination hπ
  rw [b1, b2, b3, b4, cos_pi_sub, cos_pi_sub, cos_pi, sin_pi_sub]
  simp only [zero_mul, one_mul, cos_zero]
  have h2 : cos (2 * δ) = 1 - 2 * sin δ ^ 2 := by rw [cos_two_mul, cos_sq']; ring
  rw [h2]; ring
theorem dphi {R : Nat} (hR : 2 ≤ R) (ρ : Nat) : phiOf R (ρ + 1) - phiOf R ρ = π / R := by
  have hR' : (R : ℝ) ≠ 0 := by positivity
  unfold phiOf; push_cast; field_simp; ring

theorem phiOf_mul (R k : Nat) : phiOf R k = (k : ℝ) * (π / R) := by unfold phiOf; ring

/-- logical determinant of a triangle -/
noncomputable def detL (r : ℝ) (R C : Nat) (t : LP × LP × LP) : ℝ :=
  det3 (uvPosL r R C t.1) (uvPosL r R C t.2.1) (uvPosL r R C t.2.2)

theorem detL_top {R C i : Nat} (r : ℝ) (hR : 2 ≤ R) (hC : 3 ≤ C) (hi : i < C) :
    detL r R C ((0, 0), (1, (i + 1) % C), (1, i)) = r ^ 3 * sin (phiOf R 1) * sin (π / R) * sin (2 * π / C) := by
  simp only [detL, uvPosL]
  have h0 : phiOf R 0 = 0 := by simp [phiOf]
  have e : Pang r (phiOf R 0) (thetaOf C 0) = Pang r (phiOf R 0) (thetaOf C i) := by
    rw [h0]; exact Pang_zero _ _ _
  rw [e, detB, sin_dtheta hC hi, dphi hR 0]

theorem detL_bot {R C i : Nat} (r : ℝ) (hR : 2 ≤ R) (hC : 3 ≤ C) (hi : i < C) :
    detL r R C ((R, 0), (R - 1, i), (R - 1, (i + 1) % C)) =
      r ^ 3 * sin (phiOf R (R - 1)) * sin (π / R) * sin (2 * π / C) := by
  simp only [detL, uvPosL]
  have hR0 : (R : ℝ) ≠ 0 := by positivity
  have hpi : phiOf R R = π := by simp [phiOf, mul_div_cancel_right₀ _ hR0]
  have e : Pang r (phiOf R R) (thetaOf C 0) = Pang r (phiOf R R) (thetaOf C ((i + 1) % C)) := by
    rw [hpi]; exact Pang_pi _ _ _
  have d := dphi hR (R - 1)
  rw [show R - 1 + 1 = R by omega] at d
  rw [det3_rot, e, detA, sin_dtheta hC hi, d]

theorem detL_A {R C i : Nat} (r : ℝ) (hR : 2 ≤ R) (hC : 3 ≤ C) (hi : i < C) (j : Nat) :
    detL r R C ((j + 1, i), (j + 1, (i + 1) % C), (j + 2, (i + 1) % C)) =
      r ^ 3 * sin (phiOf R (j + 1)) * sin (π / R) * sin (2 * π / C) := by
  simp only [detL, uvPosL]
  rw [detA, sin_dtheta hC hi, dphi hR (j + 1)]

theorem detL_B {R C i : Nat} (r : ℝ) (hR : 2 ≤ R) (hC : 3 ≤ C) (hi : i < C) (j : Nat) :
    detL r R C ((j + 1, i), (j + 2, (i + 1) % C), (j + 2, i)) =
      r ^ 3 * sin (phiOf R (j + 2)) * sin (π / R) * sin (2 * π / C) := by
  simp only [detL, uvPosL]
  rw [detB, sin_dtheta hC hi, dphi hR (j + 1)]

theorem sphereL_det_sum {R C : Nat} (r : ℝ) (hR : 2 ≤ R) (hC : 3 ≤ C) :
    ((sphereL R C).map (detL r R C)).sum = 2 * C * r ^ 3 * sin (2 * π / C) * (1 + cos (π / R)) := by
  simp only [sphereL, List.map_append, List.sum_append, List.map_flatMap, sum_flatMap', List.map_cons, List.map_nil,
    List.sum_cons, List.sum_nil, add_zero]
  set K : ℝ := r ^ 3 * sin (π / R) * sin (2 * π / C) with hK
  have hf : ((List.range C).map fun a => detL r R C ((0, 0), (1, (a + 1) % C), (1, a)) +
        detL r R C ((R, 0), (R - 1, a), (R - 1, (a + 1) % C))).sum
      = C * (K * (sin (phiOf R 1) + sin (phiOf R (R - 1)))) := by
    rw [sum_map_const _ _ (K * (sin (phiOf R 1) + sin (phiOf R (R - 1)))) (fun i hi => ?_), List.length_range]
    have hi := List.mem_range.1 hi
    simp only [detL_top r hR hC hi, detL_bot r hR hC hi, hK]
    ring
  have hs : ∀ j : Nat, ((List.range C).map fun a_1 =>
        detL r R C ((j + 1, a_1), (j + 1, (a_1 + 1) % C), (j + 2, (a_1 + 1) % C)) +
        detL r R C ((j + 1, a_1), (j + 2, (a_1 + 1) % C), (j + 2, a_1))).sum
      = (C * K) * (sin (phiOf R (j + 1)) + sin (phiOf R (j + 2))) := by
    intro j
    rw [sum_map_const _ _ (K * (sin (phiOf R (j + 1)) + sin (phiOf R (j + 2)))) (fun i hi => ?_), List.length_range]
    · ring
    · have hi := List.mem_range.1 hi
      simp only [detL_A r hR hC hi, detL_B r hR hC hi, hK]
      ring
  simp only [hf, hs]
  rw [List.sum_map_mul_left]
  have key := sphere_ring_sum hR
  have e1 : phiOf R 1 = π / R := by rw [phiOf_mul]; simp
  have e2 : phiOf R (R - 1) = ((R : ℝ) - 1) * (π / R) := by
    rw [phiOf_mul, Nat.cast_sub (by omega)]; simp
  have e3 : ((List.range (R - 2)).map fun j : Nat => sin (phiOf R (j + 1)) + sin (phiOf R (j + 2))) =
      ((List.range (R - 2)).map fun j : Nat => sin (((j : ℝ) + 1) * (π / R)) + sin (((j : ℝ) + 2) * (π / R))) := by
    refine List.map_congr_left fun j _ => ?_
    rw [phiOf_mul, phiOf_mul]; push_cast; rfl
  rw [e1, e2, e3]
  rw [hK]
  linear_combination (C * r ^ 3 * sin (2 * π / C)) * key
theorem sphereL_tri_valid {R C : Nat} (hR : 2 ≤ R) (hC : 3 ≤ C) {t : LP × LP × LP} (ht : t ∈ sphereL R C) :
    UvValid R C t.1 ∧ UvValid R C t.2.1 ∧ UvValid R C t.2.2 := by
  have he : ∀ e ∈ triEdges t, e ∈ edges (sphereL R C) := fun e he => List.mem_flatMap.2 ⟨t, ht, he⟩
  have h1 := sphereL_valid hR hC _ (he (t.1, t.2.1) (by simp [triEdges]))
  have h2 := sphereL_valid hR hC _ (he (t.2.1, t.2.2) (by simp [triEdges]))
  exact ⟨h1.1, h1.2, h2.2⟩

/-- six times the enclosed volume of the UV sphere, in closed form -/
theorem uvSphere_volume_aux {R C : Nat} (r : ℝ) (hR : 2 ≤ R) (hC : 3 ≤ C) :
    volume6 (uvSpherePos r R C) (uvSphereTris R C) = 2 * C * r ^ 3 * sin (2 * π / C) * (1 + cos (π / R)) := by
  rw [volume6_eq_sum, uvSphereTris_eq_map hR, List.map_map, ← sphereL_det_sum r hR hC]
  congr 1
  refine List.map_congr_left fun t ht => ?_
  obtain ⟨v1, v2, v3⟩ := sphereL_tri_valid hR hC ht
  simp only [Function.comp, tm, detL, uvSpherePos_enc r hR hC _ v1, uvSpherePos_enc r hR hC _ v2,
    uvSpherePos_enc r hR hC _ v3]

/-! ### volume bounds: the polyhedra approach the analytic volume -/

theorem volume6_map (pos : Nat → V3 ℝ) (f : Nat → Nat) (ts : List Tri) :
    volume6 (fun v => pos (f v)) ts = volume6 pos (ts.map (tmap f)) := by
  rw [volume6_eq_sum, volume6_eq_sum, List.map_map]; rfl

/-- `n·sin(2π/n)` is at most `2π` and at least `2π·(1 − 2π²/(3n²))` -/
theorem ngon_bounds {n : Nat} (hn : 1 ≤ n) :
    (n : ℝ) * sin (2 * π / n) ≤ 2 * π ∧ 2 * π * (1 - 2 * π ^ 2 / (3 * (n : ℝ) ^ 2)) ≤ (n : ℝ) * sin (2 * π / n) := by
  have hn0 : (0 : ℝ) < n := by exact_mod_cast (by omega : 0 < n)
  set x := 2 * π / (n : ℝ) with hx
  have hx0 : 0 < x := by positivity
  have hnx : (n : ℝ) * x = 2 * π := by rw [hx]; field_simp
  constructor
  · have := Real.sin_le hx0.le
    nlinarith
  · have h := (Real.sin_gt_sub_cube hx0).le
    have e : 2 * π * (1 - 2 * π ^ 2 / (3 * (n : ℝ) ^ 2)) = (n : ℝ) * (x - x ^ 3 / 6) := by
      rw [hx]; field_simp; ring
    rw [e]
    exact mul_le_mul_of_nonneg_left h hn0.le

/-- `(1 + cos(π/R))/2 ∈ [1 − π²/(4R²), 1]` -/
theorem polar_bounds {R : Nat} (hR : 2 ≤ R) :
    1 + cos (π / R) ≤ 2 ∧ 2 * (1 - π ^ 2 / (4 * (R : ℝ) ^ 2)) ≤ 1 + cos (π / R) := by
  have hR0 : (0 : ℝ) < R := by exact_mod_cast (by omega : 0 < R)
  constructor
  · linarith [cos_le_one (π / R)]
  · have h := Real.one_sub_sq_div_two_le_cos (x := π / R)
    have e : 2 * (1 - π ^ 2 / (4 * (R : ℝ) ^ 2)) = 1 + (1 - (π / R) ^ 2 / 2) := by field_simp; ring
    rw [e]; linarith


theorem uvSphere_volume_bounds_aux {R C : Nat} {r : ℝ} (hr : 0 < r) (hR : 2 ≤ R) (hC : 3 ≤ C) :
    volume6 (uvSpherePos r R C) (uvSphereTris R C) / 6 ≤ 4 / 3 * π * r ^ 3 ∧
    4 / 3 * π * r ^ 3 * (1 - 2 * π ^ 2 / (3 * (C : ℝ) ^ 2) - π ^ 2 / (4 * (R : ℝ) ^ 2)) ≤
      volume6 (uvSpherePos r R C) (uvSphereTris R C) / 6 := by
  rw [uvSphere_volume_aux r hR hC]
  obtain ⟨a1, a2⟩ := @ngon_bounds C (by omega)
  obtain ⟨b1, b2⟩ := polar_bounds hR
  have hA : 0 < (C : ℝ) * sin (2 * π / C) := by
    have : (0 : ℝ) < C := by exact_mod_cast (by omega : 0 < C)
    exact mul_pos this (sin_dtheta_pos hC)
  have hB : 0 ≤ 1 + cos (π / R) := by linarith [neg_one_le_cos (π / R)]
  have hr3 : 0 < r ^ 3 := by positivity
  set A := (C : ℝ) * sin (2 * π / C) with hAdef
  set B := 1 + cos (π / R) with hBdef
  set a := 2 * π ^ 2 / (3 * (C : ℝ) ^ 2) with hadef
  set b := π ^ 2 / (4 * (R : ℝ) ^ 2) with hbdef
  have ha0 : 0 ≤ a := by positivity
  have hb0 : 0 ≤ b := by positivity
  have e : 2 * (C : ℝ) * r ^ 3 * sin (2 * π / C) * B / 6 = r ^ 3 / 3 * (A * B) := by rw [hAdef]; ring
  rw [e]
  have hAB1 : A * B ≤ 2 * π * 2 := by
    calc A * B ≤ 2 * π * B := mul_le_mul_of_nonneg_right a1 hB
      _ ≤ 2 * π * 2 := mul_le_mul_of_nonneg_left b1 (by positivity)
  have hAB2 : 4 * π * (1 - a - b) ≤ A * B := by
    by_cases hneg : 1 - a - b ≤ 0
    · have : 0 ≤ A * B := mul_nonneg hA.le hB
      have : 4 * π * (1 - a - b) ≤ 0 := mul_nonpos_of_nonneg_of_nonpos (by positivity) hneg
      linarith
    · rw [not_le] at hneg
      have h1a : 0 ≤ 1 - a := by linarith
      have h1b : 0 ≤ 1 - b := by linarith
      have hπ : 0 < π := pi_pos
      calc 4 * π * (1 - a - b) ≤ (2 * π * (1 - a)) * (2 * (1 - b)) := by nlinarith [mul_nonneg ha0 hb0]
        _ ≤ A * (2 * (1 - b)) := mul_le_mul_of_nonneg_right a2 (by linarith)
        _ ≤ A * B := mul_le_mul_of_nonneg_left b2 hA.le
  constructor
  · nlinarith
  · nlinarith

theorem cylinder_volume_bounds_aux {S : Nat} {r H : ℝ} (hr : 0 < r) (hH : 0 < H) (hS : 3 ≤ S) :
    volume6 (cylinderPos r H S) (cylinderTris S false false) / 6 ≤ π * r ^ 2 * H ∧
    π * r ^ 2 * H * (1 - 2 * π ^ 2 / (3 * (S : ℝ) ^ 2)) ≤
      volume6 (cylinderPos r H S) (cylinderTris S false false) / 6 := by
  rw [cylinder_volume_aux r H hS]
  obtain ⟨a1, a2⟩ := @ngon_bounds S (by omega)
  have hk : 0 < r ^ 2 * H := by positivity
  set A := (S : ℝ) * sin (2 * π / S) with hAdef
  have e : 6 * ((S : ℝ) / 2 * sin (2 * π / S) * r ^ 2 * H) / 6 = r ^ 2 * H / 2 * A := by rw [hAdef]; ring
  rw [e]
  constructor
  · nlinarith
  · nlinarith

/-! ### hemisphere volume in closed form -/

theorem detA' (r φ1 φ2 θ1 θ2 : ℝ) :
    det3 (Pang r φ1 θ1) (Pang r φ2 θ2) (Pang r φ1 θ2) = r ^ 3 * sin φ1 * sin (φ1 - φ2) * sin (θ2 - θ1) := by
  simp only [det3, Pang, V3.Dot, V3.Cross, V3.New, V3.Scale, sin_sub]; ring

theorem detB' (r φ1 φ2 θ1 θ2 : ℝ) :
    det3 (Pang r φ1 θ1) (Pang r φ2 θ1) (Pang r φ2 θ2) = r ^ 3 * sin φ2 * sin (φ1 - φ2) * sin (θ2 - θ1) := by
  simp only [det3, Pang, V3.Dot, V3.Cross, V3.New, V3.Scale, sin_sub]; ring

theorem det3_zero_left (b c : V3 ℝ) : det3 ⟨0, 0, 0⟩ b c = 0 := by simp [det3, V3.Dot]

/-- logical determinant of a hemisphere triangle -/
noncomputable def hdetL (r : ℝ) (R C : Nat) (t : LP × LP × LP) : ℝ :=
  det3 (hemiPosL r R C t.1) (hemiPosL r R C t.2.1) (hemiPosL r R C t.2.2)

theorem sin_psi (R ρ : Nat) (_h1 : 1 ≤ ρ) : sin (psiOf R ρ) = cos (((ρ - 1 : ℕ) : ℝ) * (π / (2 * R))) := by
  rw [← sin_pi_div_two_sub]; congr 1; unfold psiOf; ring

theorem dpsi {R : Nat} (hR : 2 ≤ R) {ρ : Nat} (h1 : 1 ≤ ρ) : psiOf R ρ - psiOf R (ρ + 1) = π / (2 * R) := by
  rw [psiOf_step hR h1]; ring

/-- `sin δ · Σ_{j<n} (cos(jδ) + cos((j+1)δ)) = sin(nδ)·(1 + cos δ)` -/
theorem hemi_strip_sum (δ : ℝ) (n : Nat) :
    sin δ * ((List.range n).map fun j : Nat => cos ((j : ℝ) * δ) + cos (((j : ℝ) + 1) * δ)).sum =
      sin ((n : ℝ) * δ) * (1 + cos δ) := by
  induction n with
  | zero => simp
  | succ n ih =>
    rw [List.range_succ, List.map_append, List.sum_append, mul_add, ih]
    simp only [List.map_cons, List.map_nil, List.sum_cons, List.sum_nil, add_zero]
    push_cast
    have e1 : ((n : ℝ) + 1) * δ = (n : ℝ) * δ + δ := by ring
    rw [e1, sin_add, cos_add]
    linear_combination (-sin ((n : ℝ) * δ)) * (sin_sq_add_cos_sq δ)
theorem hdetL_cap {R C : Nat} (r : ℝ) (i : Nat) :
    hdetL r R C (flipT ((0, 0), (1, (i + 1) % C), (1, i))) = 0 := by
  simp only [hdetL, flipT, hemiPosL, if_true]; exact det3_zero_left _ _

theorem hdetL_pole {R C i : Nat} (r : ℝ) (hR : 2 ≤ R) (hC : 3 ≤ C) (hi : i < C) :
    hdetL r R C (flipT ((R, 0), (R - 1, i), (R - 1, (i + 1) % C))) =
      r ^ 3 * sin (psiOf R (R - 1)) * sin (psiOf R (R - 1)) * sin (2 * π / C) := by
  have hR0 : R ≠ 0 := by omega
  have a0 : R - 1 ≠ 0 := by omega
  have a1 : R - 1 ≠ R := by omega
  simp only [hdetL, flipT, hemiPosL, hR0, if_true, if_false, a0, a1]
  have e : (⟨0, r, 0⟩ : V3 ℝ) = Pang r 0 (thetaOf C ((i + 1) % C)) := by simp [Pang, V3.New, V3.Scale]
  rw [e, det3_rot, det3_rot, detA', sin_dtheta hC hi, sub_zero]

theorem hdetL_A {R C i : Nat} (r : ℝ) (hR : 2 ≤ R) (hC : 3 ≤ C) (hi : i < C) {j : Nat} (hj : j < R - 2) :
    hdetL r R C (flipT ((j + 1, i), (j + 1, (i + 1) % C), (j + 2, (i + 1) % C))) =
      r ^ 3 * sin (psiOf R (j + 1)) * sin (π / (2 * R)) * sin (2 * π / C) := by
  have a0 : j + 1 ≠ 0 := by omega
  have a1 : j + 1 ≠ R := by omega
  have a2 : j + 2 ≠ 0 := by omega
  have a3 : j + 2 ≠ R := by omega
  simp only [hdetL, flipT, hemiPosL, if_false, a0, a1, a2, a3]
  rw [detA', sin_dtheta hC hi, @dpsi R hR (j + 1) (by omega)]

theorem hdetL_B {R C i : Nat} (r : ℝ) (hR : 2 ≤ R) (hC : 3 ≤ C) (hi : i < C) {j : Nat} (hj : j < R - 2) :
    hdetL r R C (flipT ((j + 1, i), (j + 2, (i + 1) % C), (j + 2, i))) =
      r ^ 3 * sin (psiOf R (j + 2)) * sin (π / (2 * R)) * sin (2 * π / C) := by
  have a0 : j + 1 ≠ 0 := by omega
  have a1 : j + 1 ≠ R := by omega
  have a2 : j + 2 ≠ 0 := by omega
  have a3 : j + 2 ≠ R := by omega
  simp only [hdetL, flipT, hemiPosL, if_false, a0, a1, a2, a3]
  rw [detB', sin_dtheta hC hi, @dpsi R hR (j + 1) (by omega)]

theorem hemiL_det_sum {R C : Nat} (r : ℝ) (hR : 2 ≤ R) (hC : 3 ≤ C) :
    ((sphereL R C).map fun t => hdetL r R C (flipT t)).sum =
      C * r ^ 3 * sin (2 * π / C) * (sin (π / R) ^ 2 + cos (π / R) * (1 + cos (π / (2 * R)))) := by
  simp only [sphereL, List.map_append, List.sum_append, List.map_flatMap, sum_flatMap', List.map_cons, List.map_nil,
    List.sum_cons, List.sum_nil, add_zero]
  set δ : ℝ := π / (2 * R) with hδ
  set K : ℝ := r ^ 3 * sin δ * sin (2 * π / C) with hK
  have hf : ((List.range C).map fun a => hdetL r R C (flipT ((0, 0), (1, (a + 1) % C), (1, a))) +
        hdetL r R C (flipT ((R, 0), (R - 1, a), (R - 1, (a + 1) % C)))).sum
      = C * (r ^ 3 * sin (psiOf R (R - 1)) * sin (psiOf R (R - 1)) * sin (2 * π / C)) := by
    rw [sum_map_const _ _ (r ^ 3 * sin (psiOf R (R - 1)) * sin (psiOf R (R - 1)) * sin (2 * π / C))
      (fun i hi => ?_), List.length_range]
    have hi := List.mem_range.1 hi
    rw [hdetL_cap, hdetL_pole r hR hC hi, zero_add]
  have hs : ((List.range (R - 2)).map fun j => ((List.range C).map fun a_1 =>
        hdetL r R C (flipT ((j + 1, a_1), (j + 1, (a_1 + 1) % C), (j + 2, (a_1 + 1) % C))) +
        hdetL r R C (flipT ((j + 1, a_1), (j + 2, (a_1 + 1) % C), (j + 2, a_1)))).sum).sum
      = ((List.range (R - 2)).map fun j : Nat => (C * K) * (cos ((j : ℝ) * δ) + cos (((j : ℝ) + 1) * δ))).sum := by
    congr 1
    refine List.map_congr_left fun j hj => ?_
    have hj := List.mem_range.1 hj
    rw [sum_map_const _ _ (K * (cos ((j : ℝ) * δ) + cos (((j : ℝ) + 1) * δ))) (fun i hi => ?_), List.length_range]
    · ring
    · have hi := List.mem_range.1 hi
      rw [hdetL_A r hR hC hi hj, hdetL_B r hR hC hi hj, sin_psi R (j + 1) (by omega), sin_psi R (j + 2) (by omega), hK]
      have c1 : ((j + 1 - 1 : ℕ) : ℝ) = (j : ℝ) := by simp
      have c2 : ((j + 2 - 1 : ℕ) : ℝ) = (j : ℝ) + 1 := by
        rw [show j + 2 - 1 = j + 1 by omega]; push_cast; ring
      rw [c1, c2]; ring
  rw [hf, hs, List.sum_map_mul_left]
  have key := hemi_strip_sum δ (R - 2)
  have hR0 : (R : ℝ) ≠ 0 := by positivity
  have hc : ((R - 2 : ℕ) : ℝ) = (R : ℝ) - 2 := by rw [Nat.cast_sub hR]; simp
  have hRδ : (R : ℝ) * δ = π / 2 := by rw [hδ]; field_simp
  have b1 : ((R - 2 : ℕ) : ℝ) * δ = π / 2 - π / R := by
    rw [hc]; have : π / (R : ℝ) = 2 * δ := by rw [hδ]; field_simp
    rw [this]; linear_combination hRδ
  rw [b1, sin_pi_div_two_sub] at key
  have hpsi : sin (psiOf R (R - 1)) = sin (π / R) := by
    rw [sin_psi R (R - 1) (by omega), show R - 1 - 1 = R - 2 by omega, ← hδ, b1, cos_pi_div_two_sub]
  rw [hpsi, hK]
  linear_combination (C * r ^ 3 * sin (2 * π / C)) * key

/-- six times the enclosed volume of the hemisphere, in closed form -/
theorem hemisphere_volume_aux {R C : Nat} (r : ℝ) (hR : 2 ≤ R) (hC : 3 ≤ C) :
    volume6 (hemispherePos r R C) (hemisphereTris R C) =
      C * r ^ 3 * sin (2 * π / C) * (sin (π / R) ^ 2 + cos (π / R) * (1 + cos (π / (2 * R)))) := by
  rw [volume6_eq_sum, hemisphereTris_eq_flip, uvSphereTris_eq_map hR, List.map_map, List.map_map,
    ← hemiL_det_sum r hR hC]
  congr 1
  refine List.map_congr_left fun t ht => ?_
  obtain ⟨v1, v2, v3⟩ := sphereL_tri_valid hR hC ht
  simp only [Function.comp, tm, flipT, hdetL, hemispherePos_enc r hR hC _ v1, hemispherePos_enc r hR hC _ v2,
    hemispherePos_enc r hR hC _ v3]
/-- the polar factor of the hemisphere: `g = sin²x + cos x·(1 + cos(x/2))`, `x = π/R`, lies in `[2(1 − 5x²/16), 2]` -/
theorem hemi_polar_bounds {R : Nat} (hR : 2 ≤ R) :
    sin (π / R) ^ 2 + cos (π / R) * (1 + cos (π / (2 * R))) ≤ 2 ∧
    2 * (1 - 5 * π ^ 2 / (16 * (R : ℝ) ^ 2)) ≤ sin (π / R) ^ 2 + cos (π / R) * (1 + cos (π / (2 * R))) := by
  have hR' : (2 : ℝ) ≤ R := by exact_mod_cast hR
  have hR0 : (0 : ℝ) < R := by linarith
  set x := π / (R : ℝ) with hx
  have hx2 : π / (2 * (R : ℝ)) = x / 2 := by rw [hx]; field_simp
  rw [hx2]
  have hx0 : 0 ≤ x := by positivity
  have hxle : x ≤ π / 2 := by
    rw [hx, div_le_div_iff₀ hR0 (by norm_num)]; nlinarith [pi_pos]
  have hu0 : 0 ≤ cos x := cos_nonneg_of_neg_pi_div_two_le_of_le (by linarith [pi_pos]) hxle
  have hu1 : cos x ≤ 1 := cos_le_one x
  have hv1 : cos (x / 2) ≤ 1 := cos_le_one _
  have hu2 : 1 - x ^ 2 / 2 ≤ cos x := Real.one_sub_sq_div_two_le_cos
  have hv2 : 1 - (x / 2) ^ 2 / 2 ≤ cos (x / 2) := Real.one_sub_sq_div_two_le_cos
  have hs : sin x ^ 2 = 1 - cos x ^ 2 := by rw [sin_sq]
  -- 2 − g = (1−u)² + u(1−v)
  set u := cos x
  set v := cos (x / 2)
  have e : 5 * π ^ 2 / (16 * (R : ℝ) ^ 2) = 5 * x ^ 2 / 16 := by rw [hx]; field_simp
  rw [hs, e]
  constructor
  · nlinarith [mul_nonneg hu0 (sub_nonneg.2 hv1), sq_nonneg (1 - u)]
  · have h1 : (1 - u) ^ 2 ≤ 1 - u := by nlinarith
    have h2 : u * (1 - v) ≤ 1 - v := by nlinarith
    nlinarith

theorem hemisphere_volume_bounds_aux {R C : Nat} {r : ℝ} (hr : 0 < r) (hR : 2 ≤ R) (hC : 3 ≤ C) :
    volume6 (hemispherePos r R C) (hemisphereTris R C) / 6 ≤ 2 / 3 * π * r ^ 3 ∧
    2 / 3 * π * r ^ 3 * (1 - 2 * π ^ 2 / (3 * (C : ℝ) ^ 2) - 5 * π ^ 2 / (16 * (R : ℝ) ^ 2)) ≤
      volume6 (hemispherePos r R C) (hemisphereTris R C) / 6 := by
  rw [hemisphere_volume_aux r hR hC]
  obtain ⟨a1, a2⟩ := @ngon_bounds C (by omega)
  obtain ⟨b1, b2⟩ := hemi_polar_bounds hR
  have hA : 0 < (C : ℝ) * sin (2 * π / C) := by
    have : (0 : ℝ) < C := by exact_mod_cast (by omega : 0 < C)
    exact mul_pos this (sin_dtheta_pos hC)
  have hr3 : 0 < r ^ 3 := by positivity
  set A := (C : ℝ) * sin (2 * π / C) with hAdef
  set B := sin (π / R) ^ 2 + cos (π / R) * (1 + cos (π / (2 * R))) with hBdef
  set a := 2 * π ^ 2 / (3 * (C : ℝ) ^ 2) with hadef
  set b := 5 * π ^ 2 / (16 * (R : ℝ) ^ 2) with hbdef
  have ha0 : 0 ≤ a := by positivity
  have hb0 : 0 ≤ b := by positivity
  have e : (C : ℝ) * r ^ 3 * sin (2 * π / C) * B / 6 = r ^ 3 / 6 * (A * B) := by rw [hAdef]; ring
  rw [e]
  have hAB2 : 4 * π * (1 - a - b) ≤ A * B ∧ A * B ≤ 2 * π * 2 := by
    by_cases hneg : 1 - a - b ≤ 0
    · -- B ≥ 0 is not needed separately: B ≥ 2(1-b) may be negative, so argue directly
      have hB0 : 0 ≤ B ∨ B < 0 := le_or_gt 0 B
      rcases hB0 with hB0 | hB0
      · have h0 : 0 ≤ A * B := mul_nonneg hA.le hB0
        have : 4 * π * (1 - a - b) ≤ 0 := mul_nonpos_of_nonneg_of_nonpos (by positivity) hneg
        refine ⟨by linarith, ?_⟩
        calc A * B ≤ 2 * π * B := mul_le_mul_of_nonneg_right a1 hB0
          _ ≤ 2 * π * 2 := mul_le_mul_of_nonneg_left b1 (by positivity)
      · -- impossible: B ≥ 0 by its definition on x ≤ π/2; derive from b2 and b ≤ ... (handled via hemi bound)
        exfalso
        have hR' : (2 : ℝ) ≤ R := by exact_mod_cast hR
        have hR0 : (0 : ℝ) < R := by linarith
        have hxle : π / (R : ℝ) ≤ π / 2 := by
          rw [div_le_div_iff₀ hR0 (by norm_num)]; nlinarith [pi_pos]
        have hu0 : 0 ≤ cos (π / R) :=
          cos_nonneg_of_neg_pi_div_two_le_of_le (by have := pi_pos; have : 0 ≤ π / (R : ℝ) := by positivity
                                                    linarith) hxle
        have hv0 : 0 ≤ 1 + cos (π / (2 * R)) := by linarith [neg_one_le_cos (π / (2 * (R : ℝ)))]
        have : 0 ≤ B := by rw [hBdef]; positivity
        linarith
    · rw [not_le] at hneg
      have h1a : 0 ≤ 1 - a := by linarith
      have h1b : 0 ≤ 1 - b := by linarith
      have hπ : 0 < π := pi_pos
      have hB0 : 0 ≤ B := by linarith
      refine ⟨?_, ?_⟩
      · calc 4 * π * (1 - a - b) ≤ (2 * π * (1 - a)) * (2 * (1 - b)) := by nlinarith [mul_nonneg ha0 hb0]
          _ ≤ A * (2 * (1 - b)) := mul_le_mul_of_nonneg_right a2 (by linarith)
          _ ≤ A * B := mul_le_mul_of_nonneg_left b2 hA.le
      · calc A * B ≤ 2 * π * B := mul_le_mul_of_nonneg_right a1 hB0
          _ ≤ 2 * π * 2 := mul_le_mul_of_nonneg_left b1 (by positivity)
  constructor
  · nlinarith [hAB2.2]
  · nlinarith [hAB2.1]

end PolyVerif.Solids
