/-
  Signed distance to the negative orthant, `G q = ‖q⁺‖ + min (max_i q_i) 0` — the common core of
  Quilez' box, rounded-box and rounded-cylinder formulas — is 1-Lipschitz, in 3 and in 2 dimensions.
  Proof: on `sup ≥ 0` it is `‖q⁺‖`, on `sup ≤ 0` it is `sup q`; both are 1-Lipschitz there; a mixed pair
  is joined through a boundary point of the segment (intermediate value theorem).
-/
import PolyVerif.Lemmas.Euclid
import Mathlib.Topology.Order.IntermediateValue

namespace PolyVerif
open Real

abbrev E2 := EuclideanSpace ℝ (Fin 2)

open Real

/-! Signed distance to the negative orthant, `G q = ‖q⁺‖ + min (max_i q_i) 0`, is 1-Lipschitz (3-D). -/

noncomputable def pos3 (Q : E3) : E3 := !₂[max (Q 0) 0, max (Q 1) 0, max (Q 2) 0]
noncomputable def sup3 (Q : E3) : ℝ := max (Q 0) (max (Q 1) (Q 2))
noncomputable def G3 (Q : E3) : ℝ := ‖pos3 Q‖ + min (sup3 Q) 0

theorem norm_sq_E3 (Q : E3) : ‖Q‖ ^ 2 = (Q 0) ^ 2 + (Q 1) ^ 2 + (Q 2) ^ 2 := by
  rw [EuclideanSpace.norm_eq, Real.sq_sqrt (by positivity)]
  simp [Fin.sum_univ_three]

theorem norm_le_of_abs_le (U V : E3) (h0 : |U 0| ≤ |V 0|) (h1 : |U 1| ≤ |V 1|) (h2 : |U 2| ≤ |V 2|) : ‖U‖ ≤ ‖V‖ := by
  have e0 := sq_le_sq.mpr h0; have e1 := sq_le_sq.mpr h1; have e2 := sq_le_sq.mpr h2
  apply le_of_sq_le_sq _ (norm_nonneg V)
  rw [norm_sq_E3 U, norm_sq_E3 V]; linarith

theorem abs_coord_le_norm (Q : E3) (i : Fin 3) : |Q i| ≤ ‖Q‖ := by
  have h := norm_sq_E3 Q
  apply abs_le_of_sq_le_sq _ (norm_nonneg Q)
  rw [h]; fin_cases i <;> simp <;> nlinarith [sq_nonneg (Q 0), sq_nonneg (Q 1), sq_nonneg (Q 2)]

/-- region `sup ≥ 0`: `G = ‖q⁺‖` -/
theorem G3_of_nonneg {Q : E3} (h : 0 ≤ sup3 Q) : G3 Q = ‖pos3 Q‖ := by
  simp [G3, min_eq_right h]

/-- region `sup ≤ 0`: `G = sup q` -/
theorem G3_of_nonpos {Q : E3} (h : sup3 Q ≤ 0) : G3 Q = sup3 Q := by
  have h0 : Q 0 ≤ 0 := (le_max_left _ _).trans h
  have h1 : Q 1 ≤ 0 := ((le_max_left _ _).trans (le_max_right _ _)).trans h
  have h2 : Q 2 ≤ 0 := ((le_max_right _ _).trans (le_max_right _ _)).trans h
  have : pos3 Q = 0 := by
    ext i; fin_cases i <;> simp [pos3, *]
  simp [G3, this, min_eq_left h]

theorem G3_lip_nonneg {Q Q' : E3} (h : 0 ≤ sup3 Q) (h' : 0 ≤ sup3 Q') : |G3 Q - G3 Q'| ≤ ‖Q - Q'‖ := by
  rw [G3_of_nonneg h, G3_of_nonneg h']
  refine (abs_norm_sub_norm_le _ _).trans (norm_le_of_abs_le _ _ ?_ ?_ ?_) <;>
    simp [pos3] <;> exact abs_max_sub_max_le_abs _ _ _

theorem G3_lip_nonpos {Q Q' : E3} (h : sup3 Q ≤ 0) (h' : sup3 Q' ≤ 0) : |G3 Q - G3 Q'| ≤ ‖Q - Q'‖ := by
  rw [G3_of_nonpos h, G3_of_nonpos h']
  unfold sup3
  refine (abs_max_sub_max_le_max _ _ _ _).trans (max_le ?_ ((abs_max_sub_max_le_max _ _ _ _).trans (max_le ?_ ?_)))
  · simpa using abs_coord_le_norm (Q - Q') 0
  · simpa using abs_coord_le_norm (Q - Q') 1
  · simpa using abs_coord_le_norm (Q - Q') 2

theorem continuous_sup3_seg (Q Q' : E3) : Continuous (fun t : ℝ => sup3 (Q + t • (Q' - Q))) := by
  unfold sup3
  simp only [PiLp.add_apply, PiLp.smul_apply, PiLp.sub_apply, smul_eq_mul]
  fun_prop

/-- mixed pair: cross the boundary `sup = 0` on the segment -/
theorem G3_lip_mixed {Q Q' : E3} (h : sup3 Q ≤ 0) (h' : 0 ≤ sup3 Q') : |G3 Q - G3 Q'| ≤ ‖Q - Q'‖ := by
  have hc := continuous_sup3_seg Q Q'
  have h0 : (fun t : ℝ => sup3 (Q + t • (Q' - Q))) 0 ≤ 0 := by simpa using h
  have h1 : 0 ≤ (fun t : ℝ => sup3 (Q + t • (Q' - Q))) 1 := by simpa using h'
  obtain ⟨t, ⟨ht0, ht1⟩, htz⟩ := intermediate_value_Icc (by norm_num : (0:ℝ) ≤ 1) hc.continuousOn ⟨h0, h1⟩
  set B := Q + t • (Q' - Q) with hB
  have hz : sup3 B = 0 := htz
  have e1 := G3_lip_nonpos h hz.le
  have e2 := G3_lip_nonneg hz.ge h'
  have n1 : ‖Q - B‖ = t * ‖Q - Q'‖ := by
    have : Q - B = t • (Q - Q') := by rw [hB]; module
    rw [this, norm_smul, Real.norm_eq_abs, abs_of_nonneg ht0]
  have n2 : ‖B - Q'‖ = (1 - t) * ‖Q - Q'‖ := by
    have : B - Q' = (1 - t) • (Q - Q') := by rw [hB]; module
    rw [this, norm_smul, Real.norm_eq_abs, abs_of_nonneg (by linarith)]
  calc |G3 Q - G3 Q'| = |(G3 Q - G3 B) + (G3 B - G3 Q')| := by ring_nf
    _ ≤ |G3 Q - G3 B| + |G3 B - G3 Q'| := abs_add_le _ _
    _ ≤ ‖Q - B‖ + ‖B - Q'‖ := add_le_add e1 e2
    _ = ‖Q - Q'‖ := by rw [n1, n2]; ring

theorem G3_lipschitz (Q Q' : E3) : |G3 Q - G3 Q'| ≤ ‖Q - Q'‖ := by
  rcases le_total (sup3 Q) 0 with h | h <;> rcases le_total (sup3 Q') 0 with h' | h'
  · exact G3_lip_nonpos h h'
  · exact G3_lip_mixed h h'
  · rw [abs_sub_comm, norm_sub_rev]; exact G3_lip_mixed h' h
  · exact G3_lip_nonneg h h'


/-! ### the same in two dimensions -/

open Real

/-! Signed distance to the negative orthant, `G q = ‖q⁺‖ + min (max_i q_i) 0`, is 1-Lipschitz (2-D). -/

noncomputable def pos2 (Q : E2) : E2 := !₂[max (Q 0) 0, max (Q 1) 0]
noncomputable def sup2 (Q : E2) : ℝ := max (Q 0) (Q 1)
noncomputable def G2 (Q : E2) : ℝ := ‖pos2 Q‖ + min (sup2 Q) 0

theorem norm_sq_E2 (Q : E2) : ‖Q‖ ^ 2 = (Q 0) ^ 2 + (Q 1) ^ 2 := by
  rw [EuclideanSpace.norm_eq, Real.sq_sqrt (by positivity)]
  simp [Fin.sum_univ_two]

theorem norm_le_of_abs_le2 (U V : E2) (h0 : |U 0| ≤ |V 0|) (h1 : |U 1| ≤ |V 1|) : ‖U‖ ≤ ‖V‖ := by
  have e0 := sq_le_sq.mpr h0; have e1 := sq_le_sq.mpr h1
  apply le_of_sq_le_sq _ (norm_nonneg V)
  rw [norm_sq_E2 U, norm_sq_E2 V]; linarith

theorem abs_coord_le_norm2 (Q : E2) (i : Fin 2) : |Q i| ≤ ‖Q‖ := by
  have h := norm_sq_E2 Q
  apply abs_le_of_sq_le_sq _ (norm_nonneg Q)
  rw [h]; fin_cases i <;> simp <;> nlinarith [sq_nonneg (Q 0), sq_nonneg (Q 1)]

/-- region `sup ≥ 0`: `G = ‖q⁺‖` -/
theorem G2_of_nonneg {Q : E2} (h : 0 ≤ sup2 Q) : G2 Q = ‖pos2 Q‖ := by
  simp [G2, min_eq_right h]

/-- region `sup ≤ 0`: `G = sup q` -/
theorem G2_of_nonpos {Q : E2} (h : sup2 Q ≤ 0) : G2 Q = sup2 Q := by
  have h0 : Q 0 ≤ 0 := (le_max_left _ _).trans h
  have h1 : Q 1 ≤ 0 := (le_max_right _ _).trans h
  have : pos2 Q = 0 := by
    ext i; fin_cases i <;> simp [pos2, *]
  simp [G2, this, min_eq_left h]

theorem G2_lip_nonneg {Q Q' : E2} (h : 0 ≤ sup2 Q) (h' : 0 ≤ sup2 Q') : |G2 Q - G2 Q'| ≤ ‖Q - Q'‖ := by
  rw [G2_of_nonneg h, G2_of_nonneg h']
  refine (abs_norm_sub_norm_le _ _).trans (norm_le_of_abs_le2 _ _ ?_ ?_) <;>
    simp [pos2] <;> exact abs_max_sub_max_le_abs _ _ _

theorem G2_lip_nonpos {Q Q' : E2} (h : sup2 Q ≤ 0) (h' : sup2 Q' ≤ 0) : |G2 Q - G2 Q'| ≤ ‖Q - Q'‖ := by
  rw [G2_of_nonpos h, G2_of_nonpos h']
  unfold sup2
  refine (abs_max_sub_max_le_max _ _ _ _).trans (max_le ?_ ?_)
  · simpa using abs_coord_le_norm2 (Q - Q') 0
  · simpa using abs_coord_le_norm2 (Q - Q') 1

theorem continuous_sup2_seg (Q Q' : E2) : Continuous (fun t : ℝ => sup2 (Q + t • (Q' - Q))) := by
  unfold sup2
  simp only [PiLp.add_apply, PiLp.smul_apply, PiLp.sub_apply, smul_eq_mul]
  fun_prop

/-- mixed pair: cross the boundary `sup = 0` on the segment -/
theorem G2_lip_mixed {Q Q' : E2} (h : sup2 Q ≤ 0) (h' : 0 ≤ sup2 Q') : |G2 Q - G2 Q'| ≤ ‖Q - Q'‖ := by
  have hc := continuous_sup2_seg Q Q'
  have h0 : (fun t : ℝ => sup2 (Q + t • (Q' - Q))) 0 ≤ 0 := by simpa using h
  have h1 : 0 ≤ (fun t : ℝ => sup2 (Q + t • (Q' - Q))) 1 := by simpa using h'
  obtain ⟨t, ⟨ht0, ht1⟩, htz⟩ := intermediate_value_Icc (by norm_num : (0:ℝ) ≤ 1) hc.continuousOn ⟨h0, h1⟩
  set B := Q + t • (Q' - Q) with hB
  have hz : sup2 B = 0 := htz
  have e1 := G2_lip_nonpos h hz.le
  have e2 := G2_lip_nonneg hz.ge h'
  have n1 : ‖Q - B‖ = t * ‖Q - Q'‖ := by
    have : Q - B = t • (Q - Q') := by rw [hB]; module
    rw [this, norm_smul, Real.norm_eq_abs, abs_of_nonneg ht0]
  have n2 : ‖B - Q'‖ = (1 - t) * ‖Q - Q'‖ := by
    have : B - Q' = (1 - t) • (Q - Q') := by rw [hB]; module
    rw [this, norm_smul, Real.norm_eq_abs, abs_of_nonneg (by linarith)]
  calc |G2 Q - G2 Q'| = |(G2 Q - G2 B) + (G2 B - G2 Q')| := by ring_nf
    _ ≤ |G2 Q - G2 B| + |G2 B - G2 Q'| := abs_add_le _ _
    _ ≤ ‖Q - B‖ + ‖B - Q'‖ := add_le_add e1 e2
    _ = ‖Q - Q'‖ := by rw [n1, n2]; ring

theorem G2_lipschitz (Q Q' : E2) : |G2 Q - G2 Q'| ≤ ‖Q - Q'‖ := by
  rcases le_total (sup2 Q) 0 with h | h <;> rcases le_total (sup2 Q') 0 with h' | h'
  · exact G2_lip_nonpos h h'
  · exact G2_lip_mixed h h'
  · rw [abs_sub_comm, norm_sub_rev]; exact G2_lip_mixed h' h
  · exact G2_lip_nonneg h h'


end PolyVerif
