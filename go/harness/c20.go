package main

// C20 — 2-D Bowyer–Watson triangulation (modeling/triangulation).
//
// Per generated point set the real triangulation.BowyerWatson is called and its OUTPUT
// (indices + positions) is handed to the Lean driver, which evaluates the verified checkers of
// Props/C20 in exact arithmetic on the float bit patterns (oracle lines c20.holds.*).
// For small-integer inputs (Go's float predicates are exact there) the executable Lean model of the
// algorithm must return exactly the same triangle SET (model lines c20.bw).
//
// The FIRST argument of every request is a class token: the generator name.  `smallheight`
// (height in (0.1, 2/18.5)) and `scaleddown` are the classes on which the super-triangle of the
// tree before /repo commit 731df05 did not contain all points (see notes/C20.md).

import (
	"fmt"
	"io"
	"log"
	"math"
	"math/rand"
	"sort"
	"strings"
	"sync"

	"github.com/EliCDavis/polyform/modeling"
	"github.com/EliCDavis/polyform/modeling/triangulation"
	"github.com/EliCDavis/vector/vector2"
)

func init() { streams["c20"] = runC20 }

type c20pts = []vector2.Float64

func c20Height(p c20pts) float64 {
	lo, hi := math.Inf(1), math.Inf(-1)
	for _, v := range p {
		lo, hi = math.Min(lo, v.Y()), math.Max(hi, v.Y())
	}
	return hi - lo
}

func c20PtsStr(p c20pts) string {
	var sb strings.Builder
	fmt.Fprintf(&sb, "%d", len(p))
	for _, v := range p {
		sb.WriteString(" ")
		sb.WriteString(F(v.X()))
		sb.WriteString(" ")
		sb.WriteString(F(v.Y()))
	}
	return sb.String()
}

func c20Canon(tris [][3]int) string {
	cs := make([][3]int, len(tris))
	for i, t := range tris {
		a, b, c := t[0], t[1], t[2]
		switch {
		case a <= b && a <= c:
			cs[i] = [3]int{a, b, c}
		case b <= a && b <= c:
			cs[i] = [3]int{b, c, a}
		default:
			cs[i] = [3]int{c, a, b}
		}
	}
	sort.Slice(cs, func(i, j int) bool {
		for k := 0; k < 3; k++ {
			if cs[i][k] != cs[j][k] {
				return cs[i][k] < cs[j][k]
			}
		}
		return false
	})
	var sb strings.Builder
	fmt.Fprintf(&sb, "%d", len(cs))
	for _, t := range cs {
		fmt.Fprintf(&sb, " %d %d %d", t[0], t[1], t[2])
	}
	return sb.String()
}

// c20Run calls the implementation on a copy of the points that — like a slice a caller built with append — has SPARE
// CAPACITY (0, 3, 8 or 1 extra slots, by length): the function appends to its argument, so anything it then does to "its"
// slice lands in the caller's backing array. The oracles judge against `p`, which the implementation never sees;
// `after` is the caller's slice re-read after the call (must be bit-identical to `p`).
func c20Run2(p c20pts) (tris [][3]int, pos []float64, after c20pts, panicked bool) {
	defer func() {
		if r := recover(); r != nil {
			panicked = true
		}
	}()
	spare := []int{0, 3, 8, 1}[len(p)%4]
	backing := make(c20pts, len(p)+spare)
	for i := range backing {
		backing[i] = vector2.New(-12345.678, 98765.4321)
	}
	cp := backing[:len(p)]
	copy(cp, p)
	var m modeling.Mesh = triangulation.BowyerWatson(cp)
	after = append(c20pts{}, cp...)
	ind := m.Indices()
	for i := 0; i+2 < ind.Len(); i += 3 {
		tris = append(tris, [3]int{ind.At(i), ind.At(i + 1), ind.At(i + 2)})
	}
	if ind.Len()%3 != 0 {
		tris = append(tris, [3]int{-1, -1, -1})
	}
	ps := m.Float3Attribute(modeling.PositionAttribute)
	for i := 0; i < ps.Len(); i++ {
		v := ps.At(i)
		pos = append(pos, v.X(), v.Y(), v.Z())
	}
	return
}

func c20Run(p c20pts) (tris [][3]int, pos []float64, panicked bool) {
	tris, pos, _, panicked = c20Run2(p)
	return
}

func c20Bucket(n int) string {
	switch {
	case n <= 4:
		return "n.3-4"
	case n <= 10:
		return "n.5-10"
	case n <= 30:
		return "n.11-30"
	case n <= 60:
		return "n.31-60"
	case n <= 120:
		return "n.61-120"
	default:
		return "n.121-200"
	}
}

// oracle lines for one point set
func (c *Ctx) c20Oracle(gen string, p c20pts) {
	cls := gen
	if h := c20Height(p); h <= 2/18.5 {
		c.Note("height<=2/18.5")
	}
	tris, pos, after, pan := c20Run2(p)
	if pan {
		c.Emit("c20.holds.indices", cls+" "+c20PtsStr(p)+" 0", "panic")
		return
	}
	c.Emit("c20.holds.input_unchanged", cls+" "+c20PtsStr(p)+" "+c20PtsStr(after), "true")
	c.Note("class." + cls)
	c.Note(c20Bucket(len(p)))
	if len(tris) == 0 {
		c.Note("trivial.zero-triangles")
		c.Note("trivial.zero-triangles." + cls)
	} else {
		c.Note("nontrivial")
		// Euler: a full triangulation of n points with k hull points has 2n-2-k triangles
	}
	pts := c20PtsStr(p)
	var ts strings.Builder
	fmt.Fprintf(&ts, "%d", len(tris))
	for _, t := range tris {
		fmt.Fprintf(&ts, " %d %d %d", t[0], t[1], t[2])
	}
	c.Emit("c20.holds.vertices", cls+" "+pts+" "+fmt.Sprint(len(pos)/3)+" "+Fs(pos...), "true")
	c.Emit("c20.holds.indices", cls+" "+fmt.Sprint(len(p))+" "+ts.String(), "true")
	ok := true
	for _, t := range tris {
		for _, v := range t {
			if v < 0 || v >= len(p) {
				ok = false
			}
		}
	}
	if !ok {
		return // the geometric oracles are only meaningful on in-range indices
	}
	c.Emit("c20.holds.winding", cls+" "+pts+" "+ts.String(), "true")
	c.Emit("c20.holds.delaunay", cls+" "+pts+" "+ts.String(), "true")
	c.Emit("c20.holds.no_overlap", cls+" "+pts+" "+ts.String(), "true")
	// FanPositive / FanEmpty (now consequences of CavityDisc, bw_delaunay_of_cavityDisc; kept as cross-checks), decided by
	// the driver on the MODEL's own run over these points in exact rational arithmetic (small inputs: the model is quadratic)
	if len(p) <= 40 {
		c.Emit("c20.holds.fan_positive", cls+" "+pts, "true")
		c.Emit("c20.holds.fan_empty", cls+" "+pts, "true")
		// the ONE hypothesis the Delaunay / winding theorems still need (CavityDisc: in- and out-degree one on the cavity boundary)
		c.Emit("c20.holds.cavity_disc", cls+" "+pts, "true")
		c.Note("fan-hypotheses.evaluated")
	}
}

// model line for one small-integer point set (float arithmetic exact in Go)
func (c *Ctx) c20Model(cls string, p c20pts) {
	tris, pos, pan := c20Run(p)
	if pan {
		c.Emit("c20.bw", cls+" "+c20PtsStr(p), "panic")
		c.Note("model.panic")
		return
	}
	c.Note("model." + cls)
	// the super-triangle construction itself (exact on integer input: coordinates are half-integers)
	st := triangulation.SuperTriangle(append(c20pts{}, p...))
	var ss []string
	for _, v := range st {
		ss = append(ss, fmt.Sprint(int64(v.X()*2)), fmt.Sprint(int64(v.Y()*2)))
	}
	c.Emit("c20.super", cls+" "+c20PtsStr(p), strings.Join(ss, " "))
	c.Emit("c20.bw", cls+" "+c20PtsStr(p), c20Canon(tris))
	var ts strings.Builder
	fmt.Fprintf(&ts, "%d", len(tris))
	for _, t := range tris {
		fmt.Fprintf(&ts, " %d %d %d", t[0], t[1], t[2])
	}
	c.Emit("c20.holds.vertices", cls+" "+c20PtsStr(p)+" "+fmt.Sprint(len(pos)/3)+" "+Fs(pos...), "true")
	c.Emit("c20.holds.indices", cls+" "+fmt.Sprint(len(p))+" "+ts.String(), "true")
}

func (c *Ctx) c20Size() int {
	big := c.Tier == "thorough"
	switch r := c.Rng.Intn(20); {
	case r < 3:
		return 3 + c.Rng.Intn(2)
	case r < 8:
		return 5 + c.Rng.Intn(6)
	case r < 14:
		return 11 + c.Rng.Intn(20)
	case r < 18 || !big:
		return 31 + c.Rng.Intn(30)
	case r < 19:
		return 61 + c.Rng.Intn(60)
	default:
		return 121 + c.Rng.Intn(80)
	}
}

func (c *Ctx) c20Uniform(n int, w, h float64) c20pts {
	p := make(c20pts, n)
	for i := range p {
		p[i] = vector2.New(c.Rng.Float64()*w, c.Rng.Float64()*h)
	}
	return p
}

func (c *Ctx) c20Clustered(n int) c20pts {
	k := 2 + c.Rng.Intn(4)
	cx := make([]vector2.Float64, k)
	sg := make([]float64, k)
	for i := range cx {
		cx[i] = vector2.New(c.Rng.Float64()*10, c.Rng.Float64()*10)
		sg[i] = 0.02 + c.Rng.Float64()*0.5
	}
	p := make(c20pts, n)
	for i := range p {
		j := c.Rng.Intn(k)
		p[i] = vector2.New(cx[j].X()+c.Rng.NormFloat64()*sg[j], cx[j].Y()+c.Rng.NormFloat64()*sg[j])
	}
	return p
}

// hull points on a slightly bent arc (sagitta 10·rel, jittered), interior points below it
func (c *Ctx) c20NearCollinear(n int) c20pts {
	rel := math.Pow(10, -3-2*c.Rng.Float64()) // 1e-3 .. 1e-5
	sag := 10 * rel
	na := 2 + c.Rng.Intn(n-1)
	if na > n {
		na = n
	}
	p := make(c20pts, 0, n)
	for i := 0; i < na; i++ {
		x := c.Rng.Float64() * 10
		y := 5 + sag*(x*(10-x)/25) + sag*0.1*c.Rng.Float64()
		p = append(p, vector2.New(x, y))
	}
	for len(p) < n {
		p = append(p, vector2.New(c.Rng.Float64()*10, c.Rng.Float64()*4.9))
	}
	c.Rng.Shuffle(n, func(i, j int) { p[i], p[j] = p[j], p[i] })
	return p
}

// c20TightCluster: a frame of ordinary points (dyadic coordinates, reaching into negative coordinates, optionally at an
// offset) plus one or two clusters of 3-6 DISTINCT points whose spacing is 2^-k, k = 30 … 50 (as fine as the cluster
// centre's ulp allows; the finest only around the origin).  Cluster points are centre + (i, j)·2^-k with small integers
// (i, j) in general position (no three collinear, no four cocircular), so every coordinate is exactly representable and
// the configuration is in general position; frame points come first, the cluster last (see below).
func (c *Ctx) c20TightCluster() c20pts {
	F := []float64{4, 16, 1024}[c.Rng.Intn(3)]
	ox, oy := 0., 0.
	switch c.Rng.Intn(5) {
	case 0:
		ox, oy = -300, 700
	case 1:
		ox, oy = 512, -256
	}
	// extreme scale mix (40 %): the finest clusters (2^-40 … 2^-50) at the origin itself, inside a frame of size 16 or 1024
	// that reaches into negative coordinates
	extreme := c.Rng.Intn(5) < 2
	if extreme {
		F = []float64{16, 16, 1024}[c.Rng.Intn(3)]
		ox, oy = 0, 0
	}
	q := F / 64
	var p c20pts
	seen := map[[2]float64]bool{}
	add := func(x, y float64) {
		if !seen[[2]float64{x, y}] {
			seen[[2]float64{x, y}] = true
			p = append(p, vector2.New(x, y))
		}
	}
	m := 5 + c.Rng.Intn(8)
	for len(p) < m {
		add(ox+float64(c.Rng.Intn(129)-64)*q, oy+float64(c.Rng.Intn(129)-64)*q)
	}
	// ONE cluster, inserted AFTER the frame: float64 in-circle tests of a FAR point against a triangle made of three cluster
	// points cancel catastrophically once spacing/distance < 2^-26 (documented float residue of the unchanged library, whose
	// predicates are plain float64); with the frame first, every test involving cluster geometry is made relative to a
	// cluster point, where the differences are exact
	clusters := 1
	for cl := 0; cl < clusters; cl++ {
		cx, cy := ox, oy // frame-relative centre (0,0) half of the time: with no offset that is the origin itself
		if !extreme && c.Rng.Intn(2) == 0 {
			cx, cy = ox+float64(c.Rng.Intn(65)-32)*q, oy+float64(c.Rng.Intn(65)-32)*q
		}
		big := math.Max(math.Abs(cx), math.Abs(cy))
		kmax := 50
		if big > 0 {
			_, e := math.Frexp(big) // big in [2^(e-1), 2^e): ulp = 2^(e-53); 5 more bits for the integer multiples
			if 53-e-6 < kmax {
				kmax = 53 - e - 6
			}
		}
		if kmax < 30 {
			kmax = 30
		}
		k := 30 + c.Rng.Intn(kmax-30+1)
		if extreme {
			k = 40 + c.Rng.Intn(11)
		}
		// stay clear of the known finding C20-float-incircle-tight-cluster: with the frame first the unchanged library still
		// mis-decides near-tangent in-circle tests once the spacing drops below about 2 ulps of the frame coordinates
		// (measured, frame 1024: 0/400 random shapes for spacing >= 2^-46, 1-4/400 at 2^-47 … 2^-50; one 2^-46 case in a
		// thorough run) — keep three binades of margin: spacing >= 2^-44 for a frame of size 1024
		if F >= 1024 && k > 44 {
			k = 40 + c.Rng.Intn(5)
		}
		if extreme && F == 16 {
			k = 46 + c.Rng.Intn(5) // same relative fineness as 2^-40 … 2^-44 for a frame of 1024
		}
		sp := math.Ldexp(1, -k)
		kc := 3 + c.Rng.Intn(4)
		var ij [][2]int
		if extreme {
			// start from a THIN triangle (area 1/2 … 1 unit² over a base of up to ~120 units): an orientation that a
			// perturbation of one or two units flips, yet exactly non-degenerate
			a := [2]int{c.Rng.Intn(61) - 60, c.Rng.Intn(121) - 60}
			b := [2]int{a[0] + 2*(10+c.Rng.Intn(25)), a[1] + 2*(c.Rng.Intn(41)-20)}
			mid := [2]int{(a[0] + b[0]) / 2, (a[1]+b[1])/2 + 1 - 2*c.Rng.Intn(2)}
			if c20IntOrient(a, b, mid) != 0 {
				ij = append(ij, a, b, mid)
				kc = 3 + c.Rng.Intn(3)
			}
		}
		for tries := 0; len(ij) < kc && tries < 1000; tries++ {
			cand := [2]int{c.Rng.Intn(32) - 15, c.Rng.Intn(32) - 15}
			ok := true
			for a := 0; a < len(ij) && ok; a++ {
				if ij[a] == cand {
					ok = false
				}
				for b := a + 1; b < len(ij) && ok; b++ {
					if c20IntOrient(ij[a], ij[b], cand) == 0 {
						ok = false
					}
					for d := b + 1; d < len(ij) && ok; d++ {
						if c20IntInCircle(ij[a], ij[b], ij[d], cand) == 0 {
							ok = false
						}
					}
				}
			}
			if ok {
				ij = append(ij, cand)
			}
		}
		for _, v := range ij {
			add(cx+float64(v[0])*sp, cy+float64(v[1])*sp)
		}
		c.Note(fmt.Sprintf("tightcluster.k%d", (k/5)*5))
	}
	return p
}

func c20IntOrient(a, b, d [2]int) int {
	return (b[0]-a[0])*(d[1]-a[1]) - (d[0]-a[0])*(b[1]-a[1])
}

func c20IntInCircle(a, b, d, p [2]int) int {
	ax, ay := a[0]-p[0], a[1]-p[1]
	bx, by := b[0]-p[0], b[1]-p[1]
	cx, cy := d[0]-p[0], d[1]-p[1]
	return (ax*ax+ay*ay)*(bx*cy-cx*by) - (bx*bx+by*by)*(ax*cy-cx*ay) + (cx*cx+cy*cy)*(ax*by-bx*ay)
}

// c20Wheel: ONE insertion that invalidates a large cavity — 60-400 jittered rim points (shuffled) on a circle of radius R at
// an offset, and the hub inserted LAST: every rim triangle's circumcircle contains the hub.
func (c *Ctx) c20Wheel() c20pts {
	rim := 67 + c.Rng.Intn(64)
	if c.Tier == "thorough" && c.Rng.Intn(3) == 0 {
		rim = 130 + c.Rng.Intn(271)
	}
	if c.Rng.Intn(6) == 0 {
		rim = 60 + c.Rng.Intn(8) // around the 64-triangle mark
	}
	R := []float64{1, 1e-3, 1e3, 37.5}[c.Rng.Intn(4)]
	ox, oy := 0., 0.
	switch c.Rng.Intn(4) {
	case 0:
		ox, oy = -300*R, 700*R
	case 1:
		ox, oy = 1e4*R, -2e3*R
	}
	p := make(c20pts, 0, rim+1)
	for i := 0; i < rim; i++ {
		a := (float64(i) + 0.6*(c.Rng.Float64()-0.5)) * 2 * math.Pi / float64(rim)
		// radial jitter 1e-6·R: far above float noise in the in-circle test (≈ 1e-16), far below θ²·R, so that every rim
		// triangle's circumcircle stays close to the rim circle and contains the hub: the cavity is (nearly) the whole wheel
		r := R * (1 + 2e-6*(c.Rng.Float64()-0.5))
		p = append(p, vector2.New(ox+r*math.Cos(a), oy+r*math.Sin(a)))
	}
	c.Rng.Shuffle(len(p), func(i, j int) { p[i], p[j] = p[j], p[i] })
	p = append(p, vector2.New(ox+R*0.02*(c.Rng.Float64()-0.5), oy+R*0.02*(c.Rng.Float64()-0.5)))
	return p
}

// geometric oracles for an already computed result
func (c *Ctx) c20EmitGeom(cls string, p c20pts, tris [][3]int) {
	var ts strings.Builder
	fmt.Fprintf(&ts, "%d", len(tris))
	for _, t := range tris {
		fmt.Fprintf(&ts, " %d %d %d", t[0], t[1], t[2])
		for _, v := range t {
			if v < 0 || v >= len(p) {
				c.Emit("c20.holds.indices", cls+" "+fmt.Sprint(len(p))+" 1 "+fmt.Sprintf("%d %d %d", t[0], t[1], t[2]), "true")
				return
			}
		}
	}
	pts := c20PtsStr(p)
	c.Emit("c20.holds.winding", cls+" "+pts+" "+ts.String(), "true")
	c.Emit("c20.holds.delaunay", cls+" "+pts+" "+ts.String(), "true")
	c.Emit("c20.holds.no_overlap", cls+" "+pts+" "+ts.String(), "true")
}

func c20TrisStr(tris [][3]int) string {
	var ts strings.Builder
	fmt.Fprintf(&ts, "%d", len(tris))
	for _, t := range tris {
		fmt.Fprintf(&ts, " %d %d %d", t[0], t[1], t[2])
	}
	return ts.String()
}

// c20Concurrent: several BowyerWatson calls IN FLIGHT AT ONCE on independent inputs (package-level state shared between
// calls is invisible to any sequential history). Every concurrent result must be the same triangle set as the sequential
// result of the same input (compared by the driver) and unchanged input; results that differ also go to the exact judges.
func (c *Ctx) c20Concurrent(rounds int) {
	const G = 8
	inputs := make([]c20pts, G)
	seq := make([][][3]int, G)
	for i := range inputs {
		switch i % 4 {
		case 0:
			inputs[i] = c.c20Uniform(30+c.Rng.Intn(40), 10, 10)
		case 1:
			inputs[i] = c.c20Clustered(30 + c.Rng.Intn(40))
		case 2:
			inputs[i] = c.c20Wheel()[:]
		default:
			inputs[i] = c20Map(c.c20Uniform(20+c.Rng.Intn(30), 10, 10), 1e3, -500, 250)
		}
		seq[i], _, _ = c20Run(inputs[i])
	}
	type res struct {
		tris  [][3]int
		after c20pts
		pan   bool
	}
	differ := 0
	for r := 0; r < rounds; r++ {
		out := make([]res, G)
		start := make(chan struct{})
		var wg sync.WaitGroup
		for g := 0; g < G; g++ {
			wg.Add(1)
			go func(g int) {
				defer wg.Done()
				<-start
				t, _, a, pan := c20Run2(inputs[g])
				out[g] = res{t, a, pan}
			}(g)
		}
		close(start)
		wg.Wait()
		for g := 0; g < G; g++ {
			if out[g].pan {
				c.Emit("c20.holds.same_as_sequential", "concurrent 0 0", "panic")
				continue
			}
			c.Emit("c20.holds.same_as_sequential", "concurrent "+c20TrisStr(seq[g])+" "+c20TrisStr(out[g].tris), "true")
			if c20Canon(out[g].tris) != c20Canon(seq[g]) {
				differ++
				if differ <= 6 {
					c.c20EmitGeom("concurrent", inputs[g], out[g].tris)
					c.Emit("c20.holds.input_unchanged", "concurrent "+c20PtsStr(inputs[g])+" "+c20PtsStr(out[g].after), "true")
				}
			}
		}
		if r == 0 {
			for g := 0; g < G; g++ {
				c.c20EmitGeom("concurrent", inputs[g], out[g].tris)
			}
		}
	}
	c.Note(fmt.Sprintf("concurrent.rounds=%d.goroutines=%d", rounds, G))
}

func c20Map(p c20pts, s, ox, oy float64) c20pts {
	q := make(c20pts, len(p))
	for i, v := range p {
		q[i] = vector2.New(v.X()*s+ox, v.Y()*s+oy)
	}
	return q
}

func (c *Ctx) c20Ints(n, side int) c20pts {
	seen := map[[2]int]bool{}
	p := make(c20pts, 0, n)
	for len(p) < n {
		k := [2]int{c.Rng.Intn(side + 1), c.Rng.Intn(side + 1)}
		if seen[k] {
			continue
		}
		seen[k] = true
		p = append(p, vector2.New(float64(k[0]), float64(k[1])))
	}
	return p
}

func runC20(c *Ctx) {
	old := log.Writer()
	log.SetOutput(io.Discard) // fillHole logs every winding fix-up
	defer log.SetOutput(old)

	// KNOWN FINDING C20-float-incircle-tight-cluster, recorded on every run (first lines of the stream): a far point
	// inserted AFTER a tight cluster. 3 frame points, the cluster (0,0), (3,1)·2^-46, (1,4)·2^-46, then the far point
	// (864,-32): distinct points in general position (Props/C20.lean proves it on the 2^46 scale), yet the float64 in-circle
	// tests of the far point against the tiny triangle cancel and the output is neither Delaunay nor free of overlap.
	{
		s46 := math.Ldexp(1, -46)
		w := c20pts{vector2.New(352., 320.), vector2.New(432., -480.), vector2.New(-880., 288.),
			vector2.New(0., 0.), vector2.New(3*s46, 1*s46), vector2.New(1*s46, 4*s46), vector2.New(864., -32.)}
		tris, _, pan := c20Run(w)
		if !pan {
			var ts strings.Builder
			fmt.Fprintf(&ts, "%d", len(tris))
			for _, t := range tris {
				fmt.Fprintf(&ts, " %d %d %d", t[0], t[1], t[2])
			}
			c.Emit("c20.holds.delaunay_tight_cluster_witness", "witness "+c20PtsStr(w)+" "+ts.String(), "true")
			c.Emit("c20.holds.no_overlap_tight_cluster_witness", "witness "+c20PtsStr(w)+" "+ts.String(), "true")
			c.Note("known-finding.tight-cluster-witness")
		}
	}

	// fewer than 3 points: panic on both sides
	for n := 0; n < 3; n++ {
		c.c20Model("few", c.c20Ints(n, 8))
	}
	// fixed small cases
	c.c20Model("fixed", c20pts{vector2.New(0., 0.), vector2.New(4., 0.), vector2.New(0., 3.)})
	c.c20Model("fixed", c20pts{vector2.New(0., 0.), vector2.New(0., 3.), vector2.New(4., 0.)})
	c.c20Model("fixed", c20pts{vector2.New(0., 0.), vector2.New(4., 0.), vector2.New(4., 4.), vector2.New(0., 4.)})
	c.c20Oracle("fixed", c20pts{vector2.New(0., 0.), vector2.New(4., 0.), vector2.New(1., 3.)})
	c.c20Oracle("fixed", c20pts{vector2.New(0., 0.), vector2.New(4., 0.5), vector2.New(4.5, 4.), vector2.New(0.25, 3.)})
	// the minimal failing input of the small-height defect (notes/C20.md)
	c.c20Oracle("smallheight", c20pts{vector2.New(0.6, 0.), vector2.New(0.7, 0.105), vector2.New(0.9, 0.105), vector2.New(0.3, 0.005)})

	// fixed wheels right at the 64-triangle mark (67 and 70 rim points, hub last)
	for _, rim := range []int{67, 70} {
		w := make(c20pts, 0, rim+1)
		for i := 0; i < rim; i++ {
			a := (float64(i) + 0.3*math.Sin(float64(7*i))) * 2 * math.Pi / float64(rim)
			r := 1 + 1e-6*math.Cos(float64(11*i))
			w = append(w, vector2.New(r*math.Cos(a), r*math.Sin(a)))
		}
		w = append(w, vector2.New(0.003, -0.002))
		c.c20Oracle("wheel", w)
	}
	// extreme scale mix, FIXED cases (independent of VERIF_SEED, so their verdict on the unchanged library is deterministic: all
	// pass): far frame of size 1024 reaching into negative coordinates + a tight cluster next to the origin, frame first.
	// (Random cases this fine sit in the regime of the known finding C20-float-incircle-tight-cluster and fail now and then on
	// the unchanged library, so the random class stops three binades earlier.)
	{
		u := math.Ldexp(1, -46)
		c.c20Oracle("scalemix", c20pts{vector2.New(-1024., -1280.), vector2.New(1536., -1024.), vector2.New(1280., 1536.),
			vector2.New(-1536., 1024.), vector2.New(256., 2560.), vector2.New(28*u, 43*u), vector2.New(56*u, 5*u), vector2.New(48*u, 23*u)})
		for i := 0; i < 14; i++ {
			rg := rand.New(rand.NewSource(int64(4000 + i)))
			var p c20pts
			for len(p) < 5 {
				p = append(p, vector2.New(float64(rg.Intn(129)-64)*32, float64(rg.Intn(129)-64)*32))
			}
			k := 44 + i%5
			sz := math.Ldexp(1, -k)
			var ij [][2]int
			for tries := 0; len(ij) < 8 && tries < 2000; tries++ {
				cand := [2]int{rg.Intn(64), rg.Intn(64)}
				ok := true
				for a := 0; a < len(ij) && ok; a++ {
					if ij[a] == cand {
						ok = false
					}
					for b := a + 1; b < len(ij) && ok; b++ {
						if c20IntOrient(ij[a], ij[b], cand) == 0 {
							ok = false
						}
						for d := b + 1; d < len(ij) && ok; d++ {
							if c20IntInCircle(ij[a], ij[b], ij[d], cand) == 0 {
								ok = false
							}
						}
					}
				}
				if ok {
					ij = append(ij, cand)
				}
			}
			for _, v := range ij {
				p = append(p, vector2.New(float64(v[0])*sz/64, float64(v[1])*sz/64))
			}
			c.c20Oracle("scalemix", p)
		}
	}
	// LARGE clouds (more than 1024 points: more than 2048 live triangles): vertices, indices and winding in full, the
	// circumcircle and overlap judges on a sample of the triangles (each sampled triangle against ALL points / ALL triangles)
	bigs := []int{1100 + c.Rng.Intn(400)}
	if c.Tier == "thorough" {
		bigs = append(bigs, 1900+c.Rng.Intn(300), 2800+c.Rng.Intn(300))
	}
	for bi, bn := range bigs {
		var bp c20pts
		if bi%2 == 0 {
			bp = c.c20Uniform(bn, 10, 10)
		} else {
			bp = c20Map(c.c20Clustered(bn), 10, -300, 700)
		}
		tris, pos, after, pan := c20Run2(bp)
		if pan {
			c.Emit("c20.holds.indices", "large "+c20PtsStr(bp)+" 0", "panic")
			continue
		}
		pts := c20PtsStr(bp)
		ts := c20TrisStr(tris)
		c.Emit("c20.holds.input_unchanged", "large "+pts+" "+c20PtsStr(after), "true")
		c.Emit("c20.holds.vertices", "large "+pts+" "+fmt.Sprint(len(pos)/3)+" "+Fs(pos...), "true")
		c.Emit("c20.holds.indices", "large "+fmt.Sprint(len(bp))+" "+ts, "true")
		c.Emit("c20.holds.winding", "large "+pts+" "+ts, "true")
		c.Emit("c20.holds.delaunay_sampled", "large "+pts+" "+ts, "true")
		c.Emit("c20.holds.no_overlap_sampled", "large "+pts+" "+ts, "true")
		c.Note(fmt.Sprintf("large.n=%d.triangles=%d", len(bp), len(tris)))
	}
	rounds := 25
	if c.Tier == "thorough" {
		rounds = 200
	}
	c.c20Concurrent(rounds)

	for k := 0; k < c.N; k++ {
		n := c.c20Size()
		// ---- oracle lines on general-position (random float) inputs
		switch k % 18 {
		case 0, 1:
			c.c20Oracle("uniform", c.c20Uniform(n, 10, 10))
		case 2:
			c.c20Oracle("clustered", c.c20Clustered(n))
		case 3:
			c.c20Oracle("nearcollinear", c.c20NearCollinear(n))
		case 4:
			s := []float64{1e3, 1e6}[c.Rng.Intn(2)]
			c.c20Oracle("scaledup", c20Map(c.c20Uniform(n, 10, 10), s, 0, 0))
		case 5:
			s := []float64{1e-3, 1e-2, 1e-1}[c.Rng.Intn(3)]
			c.c20Oracle("scaleddown", c20Map(c.c20Uniform(n, 10, 10), s, 0, 0))
		case 6:
			o := []float64{1e3, -1e3, 1e6, -1e6}[c.Rng.Intn(4)]
			c.c20Oracle("offset", c20Map(c.c20Uniform(n, 10, 10), 1, o, o*(c.Rng.Float64()*2-1)))
		case 7:
			c.c20Oracle("wide", c.c20Uniform(n, 1000, 1))
		case 8:
			c.c20Oracle("tall", c.c20Uniform(n, math.Pow(10, -2+2*c.Rng.Float64()), 100))
		case 9:
			// height pinned in [0.11, 0.3]: the super-triangle still contains everything
			h := 0.11 + 0.19*c.Rng.Float64()
			p := c.c20Uniform(n, math.Pow(10, -1+3*c.Rng.Float64()), h)
			p[0] = vector2.New(p[0].X(), 0)
			p[1] = vector2.New(p[1].X(), h)
			c.c20Oracle("lowheight", p)
		case 10:
			// height pinned in (0.1, 0.108): some input points lie outside the super-triangle
			h := 0.1005 + 0.0075*c.Rng.Float64()
			if n > 30 {
				n = 4 + c.Rng.Intn(27)
			}
			p := c.c20Uniform(n, math.Pow(10, -1+3*c.Rng.Float64()), h)
			p[0] = vector2.New(p[0].X(), 0)
			p[1] = vector2.New(p[1].X(), h)
			c.c20Oracle("smallheight", p)
		case 11:
			c.c20Oracle("clustered", c20Map(c.c20Clustered(n), 100, 0, 0))
		case 12:
			// far from the origin relative to the spacing: offsets 1e7 … 1e10 (both axes, one axis, negative) at
			// spacing 1e-3 / 1 / 1e3; an orientation test on absolute coordinates drowns in rounding noise here
			if n > 60 {
				n = 4 + c.Rng.Intn(57)
			}
			if n < 4 {
				n = 4
			}
			off := []float64{1e7, 1e8, 1e9, 1e10}[c.Rng.Intn(4)]
			sp := []float64{1e-3, 1, 1e3}[c.Rng.Intn(3)]
			ox, oy := off, off
			switch c.Rng.Intn(5) {
			case 0:
				ox = 0
			case 1:
				oy = 0
			case 2:
				ox, oy = -off, -off
			case 3:
				ox = -off
			}
			c.c20Oracle("faroffset", c20Map(c.c20Uniform(n, 10, 10), sp, ox, oy))
		case 13:
			// tiny clusters: spacing 1e-3 … 1e-6, around the origin and around large offsets (spacing/offset >= 1e-13,
			// so the points stay distinct: >= 1000 ulps apart on average)
			if n > 60 {
				n = 4 + c.Rng.Intn(57)
			}
			if n < 4 {
				n = 4
			}
			sp := []float64{1e-3, 1e-4, 1e-5, 1e-6}[c.Rng.Intn(4)]
			off := []float64{0, 0, 1, 1e3, 1e6, 1e7}[c.Rng.Intn(6)]
			for off != 0 && sp/off < 1e-13 {
				off /= 10
			}
			ox, oy := off, off
			switch c.Rng.Intn(4) {
			case 0:
				ox = -off
			case 1:
				oy = 0
			}
			c.c20Oracle("tinycluster", c20Map(c.c20Uniform(n, 10, 10), sp, ox, oy))
		case 14, 15:
			// a tight cluster of 3-6 distinct points (spacing 2^-30 … 2^-50 ≈ 1e-9 … 1e-15) inside an ordinary frame
			c.c20Oracle("tightcluster", c.c20TightCluster())
		case 16:
			// whole clouds in very small / very large units
			if n > 60 {
				n = 4 + c.Rng.Intn(57)
			}
			if n < 4 {
				n = 4
			}
			sc := []float64{1e-7, 1e-7, 1e-9, 1e7}[c.Rng.Intn(4)]
			c.c20Oracle("scaled7", c20Map(c.c20Uniform(n, 10, 10), sc, 0, 0))
		case 17:
			// one insertion with a large cavity: wheel, hub last
			c.c20Oracle("wheel", c.c20Wheel())
		}
		// ---- model lines on small-integer inputs (exact float arithmetic)
		m := 3 + c.Rng.Intn(23)
		switch k % 3 {
		case 0:
			c.c20Model("grid", c.c20Ints(m, 64))
		case 1:
			c.c20Model("grid", c.c20Ints(m, 8)) // dense: many collinear / cocircular ties
		default:
			if m > 16 {
				m = 16
			}
			c.c20Model("grid", c.c20Ints(m, 3+c.Rng.Intn(3)))
		}
	}
}
