package main

// helpers shared by the c04 and c08 streams (PLY): hex / mesh / header token forms, guarded calls of the real reader

import (
	"bufio"
	"bytes"
	"encoding/hex"
	"fmt"
	"io"
	"os"
	"path/filepath"
	"sort"
	"strings"
	"testing/iotest"

	"github.com/EliCDavis/polyform/formats/ply"
	"github.com/EliCDavis/polyform/modeling"
	"github.com/EliCDavis/polyform/nodes"
)

func plyHx(b []byte) string {
	if len(b) == 0 {
		return "-"
	}
	return hex.EncodeToString(b)
}

// NaN payloads are not observable through Lean's Float.toBits (canonical NaN); non-finite values are outside the property
func plyF(v float64) string {
	if v != v {
		return "7ff8000000000000"
	}
	return F(v)
}

func plyHs(s string) string { return plyHx([]byte(s)) }


type plyAttr struct {
	dim  int
	name string
	data [][]float64
}

func plyMeshAttrs(m modeling.Mesh) []plyAttr {
	out := []plyAttr{}
	for _, n := range m.Float1Attributes() {
		a := plyAttr{1, n, nil}
		it := m.Float1Attribute(n)
		for i := 0; i < it.Len(); i++ {
			a.data = append(a.data, []float64{it.At(i)})
		}
		out = append(out, a)
	}
	for _, n := range m.Float2Attributes() {
		a := plyAttr{2, n, nil}
		it := m.Float2Attribute(n)
		for i := 0; i < it.Len(); i++ {
			v := it.At(i)
			a.data = append(a.data, []float64{v.X(), v.Y()})
		}
		out = append(out, a)
	}
	for _, n := range m.Float3Attributes() {
		a := plyAttr{3, n, nil}
		it := m.Float3Attribute(n)
		for i := 0; i < it.Len(); i++ {
			v := it.At(i)
			a.data = append(a.data, []float64{v.X(), v.Y(), v.Z()})
		}
		out = append(out, a)
	}
	for _, n := range m.Float4Attributes() {
		a := plyAttr{4, n, nil}
		it := m.Float4Attribute(n)
		for i := 0; i < it.Len(); i++ {
			v := it.At(i)
			a.data = append(a.data, []float64{v.X(), v.Y(), v.Z(), v.W()})
		}
		out = append(out, a)
	}
	sort.SliceStable(out, func(i, j int) bool {
		if out[i].dim != out[j].dim {
			return out[i].dim < out[j].dim
		}
		return out[i].name < out[j].name
	})
	return out
}

func plyMeshBody(m modeling.Mesh) string {
	sb := strings.Builder{}
	idx := m.Indices()
	fmt.Fprintf(&sb, "%d", idx.Len())
	for i := 0; i < idx.Len(); i++ {
		fmt.Fprintf(&sb, " %d", idx.At(i))
	}
	attrs := plyMeshAttrs(m)
	fmt.Fprintf(&sb, " %d", len(attrs))
	for _, a := range attrs {
		fmt.Fprintf(&sb, " %d %s %d", a.dim, plyHs(a.name), len(a.data))
		for _, comps := range a.data {
			for _, v := range comps {
				sb.WriteByte(' ')
				sb.WriteString(plyF(v))
			}
		}
	}
	return sb.String()
}

func plyTopoTok(m modeling.Mesh) string {
	if m.Topology() == modeling.PointTopology {
		return "point"
	}
	if m.Topology() == modeling.TriangleTopology {
		return "tri"
	}
	return "other"
}

// request form of a mesh
func plyMeshTok(m modeling.Mesh) string {
	uri := "none"
	if len(m.Materials()) > 0 && m.Materials()[0].Material != nil && m.Materials()[0].Material.ColorTextureURI != nil {
		uri = plyHs(*m.Materials()[0].Material.ColorTextureURI)
	}
	return plyTopoTok(m) + " " + uri + " " + plyMeshBody(m)
}

// canonical answer form of a mesh
func plyOkMesh(m modeling.Mesh) string { return "ok " + plyTopoTok(m) + " " + plyMeshBody(m) }


func (c *Ctx) plyUserName() string {
	letters := "abcdefghijklmnopqrstuvwxyzABCDEFXYZ_0123456789"
	for {
		n := 1 + c.Rng.Intn(6)
		b := make([]byte, n)
		for i := range b {
			b[i] = letters[c.Rng.Intn(len(letters))]
		}
		s := string(b)
		if !plyReserved[s] {
			return s
		}
	}
}

var plyReserved = map[string]bool{}

func init() {
	for _, n := range []string{"x", "y", "z", "px", "py", "pz", "posx", "posy", "posz", "nx", "ny", "nz", "normalx", "normaly", "normalz",
		"red", "green", "blue", "alpha", "r", "g", "b", "a", "diffuse_red", "diffuse_green", "diffuse_blue", "diffuse_alpha", "s", "t",
		"f_dc_0", "f_dc_1", "f_dc_2", "opacity", "scale_0", "scale_1", "scale_2", "rot_0", "rot_1", "rot_2", "rot_3"} {
		plyReserved[n] = true
	}
}


func plyHeaderTok(h ply.Header, rest int) string {
	sb := strings.Builder{}
	f := "ascii"
	switch h.Format {
	case ply.BinaryLittleEndian:
		f = "le"
	case ply.BinaryBigEndian:
		f = "be"
	}
	fmt.Fprintf(&sb, "ok %s %d", f, len(h.Comments))
	for _, cm := range h.Comments {
		sb.WriteString(" " + plyHs(cm))
	}
	fmt.Fprintf(&sb, " %d", len(h.Elements))
	for _, e := range h.Elements {
		fmt.Fprintf(&sb, " %s %d %d", plyHs(e.Name), e.Count, len(e.Properties))
		for _, p := range e.Properties {
			switch v := p.(type) {
			case ply.ScalarProperty:
				fmt.Fprintf(&sb, " s %s %s", plyHs(v.PropertyName), string(v.Type))
			case ply.ListProperty:
				fmt.Fprintf(&sb, " l %s %s %s", plyHs(v.PropertyName), string(v.CountType), string(v.ListType))
			}
		}
	}
	fmt.Fprintf(&sb, " rest %d", rest)
	return sb.String()
}

func plyImplReadHeader(b []byte) string {
	return Guard(func() string {
		r := bytes.NewReader(b)
		h, err := ply.ReadHeader(r)
		if err != nil {
			return "err"
		}
		return plyHeaderTok(h, r.Len())
	})
}

func plyImplReadMesh(b []byte) (string, *modeling.Mesh) {
	var back *modeling.Mesh
	s := Guard(func() string {
		m, err := ply.ReadMesh(bytes.NewReader(b))
		if err != nil {
			return "err"
		}
		back = m
		return plyOkMesh(*m)
	})
	return s, back
}


// ---- every public way a PLY file can reach the parser ---------------------------------------------------------------
//
// The property says the file "loads": the result must not depend on the io.Reader the caller happens to hold nor on the
// entry point (ReadMesh, MeshReader.Read, ply.Load, MeshReader.Load).  plyEntryResults reads the same bytes through every
// one of them; the oracle `…holds.entrypoints_agree` (all segments equal) is evaluated by the driver.

// a MeshReader configured like the package's unexported default reader (reader.go:224-314)
func plyPublicDefaultReader() ply.MeshReader {
	v3 := func(attr, x, y, z string) ply.PropertyReader {
		return &ply.Vector3PropertyReader{ModelAttribute: attr, PlyPropertyX: x, PlyPropertyY: y, PlyPropertyZ: z}
	}
	v4 := func(attr, x, y, z, w string, ign bool) ply.PropertyReader {
		return &ply.Vector4PropertyReader{ModelAttribute: attr, IgnorableW: ign, PlyPropertyX: x, PlyPropertyY: y, PlyPropertyZ: z, PlyPropertyW: w}
	}
	return ply.MeshReader{
		AttributeElement:          ply.VertexElementName,
		LoadUnspecifiedProperties: true,
		Properties: []ply.PropertyReader{
			v3(modeling.PositionAttribute, "x", "y", "z"),
			v3(modeling.PositionAttribute, "px", "py", "pz"),
			v3(modeling.PositionAttribute, "posx", "posy", "posz"),
			v3(modeling.NormalAttribute, "nx", "ny", "nz"),
			v3(modeling.NormalAttribute, "normalx", "normaly", "normalz"),
			v4(modeling.ColorAttribute, "red", "green", "blue", "alpha", true),
			v4(modeling.ColorAttribute, "r", "g", "b", "a", true),
			v4(modeling.ColorAttribute, "diffuse_red", "diffuse_green", "diffuse_blue", "diffuse_alpha", true),
			&ply.Vector2PropertyReader{ModelAttribute: modeling.TexCoordAttribute, PlyPropertyX: "s", PlyPropertyY: "t"},
			v3(modeling.FDCAttribute, "f_dc_0", "f_dc_1", "f_dc_2"),
			&ply.Vector1PropertyReader{ModelAttribute: modeling.OpacityAttribute, PlyProperty: "opacity"},
			v3(modeling.ScaleAttribute, "scale_0", "scale_1", "scale_2"),
			v4(modeling.RotationAttribute, "rot_0", "rot_1", "rot_2", "rot_3", false),
		},
	}
}

var plyTmpDir string

func plyTmpFile(data []byte) string {
	if plyTmpDir == "" {
		d, err := os.MkdirTemp("", "verif-ply-")
		if err != nil {
			panic(err)
		}
		plyTmpDir = d
	}
	p := filepath.Join(plyTmpDir, "case.ply")
	if err := os.WriteFile(p, data, 0o600); err != nil {
		panic(err)
	}
	return p
}

func plyTmpCleanup() {
	if plyTmpDir != "" {
		os.RemoveAll(plyTmpDir)
		plyTmpDir = ""
	}
}

type plyEntry struct {
	name string
	read func(data []byte) (*modeling.Mesh, error)
}

func plyReaderEntries(full bool) []plyEntry {
	viaReader := func(name string, mk func(data []byte) io.Reader) plyEntry {
		return plyEntry{name, func(data []byte) (*modeling.Mesh, error) { return ply.ReadMesh(mk(data)) }}
	}
	es := []plyEntry{
		viaReader("bytes.Reader", func(d []byte) io.Reader { return bytes.NewReader(d) }),
		viaReader("bufio.Reader", func(d []byte) io.Reader { return bufio.NewReader(bytes.NewReader(d)) }),
		viaReader("bufio.Reader(16)", func(d []byte) io.Reader { return bufio.NewReaderSize(bytes.NewReader(d), 16) }),
		viaReader("iotest.HalfReader", func(d []byte) io.Reader { return iotest.HalfReader(bytes.NewReader(d)) }),
		{"ply.Load", func(d []byte) (*modeling.Mesh, error) { return ply.Load(plyTmpFile(d)) }},
		// the graph node wrapper (formats/ply/types.go): ply.ReadNode fed with the bytes.  It swallows the reader's error
		// and yields the empty point cloud instead, so: a file ReadMesh rejects must give exactly that empty mesh
		// (reported as "err" here, like the other entries); any other file must give what ReadMesh gives.
		{"ply.ReadNode", func(d []byte) (*modeling.Mesh, error) {
			n := &ply.ReadNode{Data: ply.ReadNodeData{In: nodes.Value(d).Out()}}
			m := n.Out().Value()
			if _, derr := ply.ReadMesh(bytes.NewReader(d)); derr != nil {
				if m.Topology() == modeling.PointTopology && m.AttributeLength() == 0 && m.PrimitiveCount() == 0 {
					return nil, derr
				}
			}
			return &m, nil
		}},
	}
	if !full {
		return es
	}
	return append(es,
		viaReader("strings.Reader", func(d []byte) io.Reader { return strings.NewReader(string(d)) }),
		viaReader("bytes.Buffer", func(d []byte) io.Reader { return bytes.NewBuffer(append([]byte{}, d...)) }),
		viaReader("bufio.Reader(65536)", func(d []byte) io.Reader { return bufio.NewReaderSize(bytes.NewReader(d), 65536) }),
		viaReader("iotest.OneByteReader", func(d []byte) io.Reader { return iotest.OneByteReader(bytes.NewReader(d)) }),
		viaReader("iotest.DataErrReader", func(d []byte) io.Reader { return iotest.DataErrReader(bytes.NewReader(d)) }),
		viaReader("bufio(OneByteReader)", func(d []byte) io.Reader { return bufio.NewReader(iotest.OneByteReader(bytes.NewReader(d))) }),
		plyEntry{"MeshReader.Read", func(d []byte) (*modeling.Mesh, error) { return plyPublicDefaultReader().Read(bytes.NewReader(d)) }},
		plyEntry{"MeshReader.Read(bufio)", func(d []byte) (*modeling.Mesh, error) {
			return plyPublicDefaultReader().Read(bufio.NewReader(bytes.NewReader(d)))
		}},
		plyEntry{"MeshReader.Load", func(d []byte) (*modeling.Mesh, error) { return plyPublicDefaultReader().Load(plyTmpFile(d)) }},
	)
}

// the canonical result of loading `data` through every entry point, joined by the separator token "|"
func plyEntryResults(data []byte, full bool) string {
	parts := []string{}
	for _, e := range plyReaderEntries(full) {
		e := e
		parts = append(parts, Guard(func() string {
			m, err := e.read(data)
			if err != nil {
				return "err"
			}
			return plyOkMesh(*m)
		}))
	}
	return strings.Join(parts, " | ")
}

// ReadHeader through the same reader types (the unread remainder depends on buffering, so only the header is compared)
func plyHeaderEntryResults(data []byte) string {
	mk := []func(d []byte) io.Reader{
		func(d []byte) io.Reader { return bytes.NewReader(d) },
		func(d []byte) io.Reader { return strings.NewReader(string(d)) },
		func(d []byte) io.Reader { return bufio.NewReader(bytes.NewReader(d)) },
		func(d []byte) io.Reader { return bufio.NewReaderSize(bytes.NewReader(d), 16) },
		func(d []byte) io.Reader { return iotest.OneByteReader(bytes.NewReader(d)) },
		func(d []byte) io.Reader { return iotest.DataErrReader(bytes.NewReader(d)) },
		func(d []byte) io.Reader {
			f, err := os.Open(plyTmpFile(d))
			if err != nil {
				panic(err)
			}
			b, _ := io.ReadAll(f) // *os.File contents through a bufio.Reader, as ply.Load does
			f.Close()
			return bufio.NewReader(bytes.NewReader(b))
		},
	}
	parts := []string{}
	for _, f := range mk {
		f := f
		parts = append(parts, Guard(func() string {
			h, err := ply.ReadHeader(f(data))
			if err != nil {
				return "err"
			}
			return plyHeaderTok(h, 0)
		}))
	}
	return strings.Join(parts, " | ")
}

// offset of the header's own "end_header" line (comments may contain the word), -1 if there is none
func plyEndHeaderAt(data []byte) int {
	off := 0
	for off < len(data) {
		nl := bytes.IndexByte(data[off:], '\n')
		line := data[off:]
		if nl >= 0 {
			line = data[off : off+nl]
		}
		if string(bytes.TrimSuffix(line, []byte("\r"))) == "end_header" {
			return off
		}
		if nl < 0 {
			break
		}
		off += nl + 1
	}
	return -1
}

// strict prefixes of the header text must be rejected by ReadHeader with an error (theorem ply_header_cut_bytes):
// a few cut positions per file — inside a line, at line boundaries, inside / right after "end_header" (before its LF)
func (c *Ctx) plyHeaderCuts(op string, data []byte) {
	end := plyEndHeaderAt(data)
	if end < 0 {
		return
	}
	hdrLen := end + len("end_header") // the LF (or CR LF) after it is still missing at this length
	if bytes.HasPrefix(data[hdrLen:], []byte("\r\n")) {
		hdrLen++ // "…end_header\r" without LF is still a strict prefix
	}
	cuts := []int{hdrLen, end, c.Rng.Intn(hdrLen + 1), c.Rng.Intn(hdrLen + 1)}
	if nl := bytes.LastIndexByte(data[:end], '\n'); nl >= 0 {
		cuts = append(cuts, nl, nl+1)
	}
	for _, k := range cuts {
		r := plyImplReadHeader(data[:k])
		c.Emit(op, fmt.Sprintf("%d %s", k, strings.Fields(r)[0]), "true")
	}
}
