package main

// helpers shared by the c04 and c08 streams (PLY): hex / mesh / header token forms, guarded calls of the real reader

import (
	"bytes"
	"encoding/hex"
	"fmt"
	"sort"
	"strings"

	"github.com/EliCDavis/polyform/formats/ply"
	"github.com/EliCDavis/polyform/modeling"
)

func plyHx(b []byte) string {
	if len(b) == 0 {
		return "-"
	}
	return hex.EncodeToString(b)
}

// NaN payloads are not observable through Lean's Float.toBits (canonical NaN); non-finite values are outside the property
func plyF(v float64) string {
	if v != v {
		return "7ff8000000000000"
	}
	return F(v)
}

func plyHs(s string) string { return plyHx([]byte(s)) }


type plyAttr struct {
	dim  int
	name string
	data [][]float64
}

func plyMeshAttrs(m modeling.Mesh) []plyAttr {
	out := []plyAttr{}
	for _, n := range m.Float1Attributes() {
		a := plyAttr{1, n, nil}
		it := m.Float1Attribute(n)
		for i := 0; i < it.Len(); i++ {
			a.data = append(a.data, []float64{it.At(i)})
		}
		out = append(out, a)
	}
	for _, n := range m.Float2Attributes() {
		a := plyAttr{2, n, nil}
		it := m.Float2Attribute(n)
		for i := 0; i < it.Len(); i++ {
			v := it.At(i)
			a.data = append(a.data, []float64{v.X(), v.Y()})
		}
		out = append(out, a)
	}
	for _, n := range m.Float3Attributes() {
		a := plyAttr{3, n, nil}
		it := m.Float3Attribute(n)
		for i := 0; i < it.Len(); i++ {
			v := it.At(i)
			a.data = append(a.data, []float64{v.X(), v.Y(), v.Z()})
		}
		out = append(out, a)
	}
	for _, n := range m.Float4Attributes() {
		a := plyAttr{4, n, nil}
		it := m.Float4Attribute(n)
		for i := 0; i < it.Len(); i++ {
			v := it.At(i)
			a.data = append(a.data, []float64{v.X(), v.Y(), v.Z(), v.W()})
		}
		out = append(out, a)
	}
	sort.SliceStable(out, func(i, j int) bool {
		if out[i].dim != out[j].dim {
			return out[i].dim < out[j].dim
		}
		return out[i].name < out[j].name
	})
	return out
}

func plyMeshBody(m modeling.Mesh) string {
	sb := strings.Builder{}
	idx := m.Indices()
	fmt.Fprintf(&sb, "%d", idx.Len())
	for i := 0; i < idx.Len(); i++ {
		fmt.Fprintf(&sb, " %d", idx.At(i))
	}
	attrs := plyMeshAttrs(m)
	fmt.Fprintf(&sb, " %d", len(attrs))
	for _, a := range attrs {
		fmt.Fprintf(&sb, " %d %s %d", a.dim, plyHs(a.name), len(a.data))
		for _, comps := range a.data {
			for _, v := range comps {
				sb.WriteByte(' ')
				sb.WriteString(plyF(v))
			}
		}
	}
	return sb.String()
}

func plyTopoTok(m modeling.Mesh) string {
	if m.Topology() == modeling.PointTopology {
		return "point"
	}
	if m.Topology() == modeling.TriangleTopology {
		return "tri"
	}
	return "other"
}

// request form of a mesh
func plyMeshTok(m modeling.Mesh) string {
	uri := "none"
	if len(m.Materials()) > 0 && m.Materials()[0].Material != nil && m.Materials()[0].Material.ColorTextureURI != nil {
		uri = plyHs(*m.Materials()[0].Material.ColorTextureURI)
	}
	return plyTopoTok(m) + " " + uri + " " + plyMeshBody(m)
}

// canonical answer form of a mesh
func plyOkMesh(m modeling.Mesh) string { return "ok " + plyTopoTok(m) + " " + plyMeshBody(m) }


func (c *Ctx) plyUserName() string {
	letters := "abcdefghijklmnopqrstuvwxyzABCDEFXYZ_0123456789"
	for {
		n := 1 + c.Rng.Intn(6)
		b := make([]byte, n)
		for i := range b {
			b[i] = letters[c.Rng.Intn(len(letters))]
		}
		s := string(b)
		if !plyReserved[s] {
			return s
		}
	}
}

var plyReserved = map[string]bool{}

func init() {
	for _, n := range []string{"x", "y", "z", "px", "py", "pz", "posx", "posy", "posz", "nx", "ny", "nz", "normalx", "normaly", "normalz",
		"red", "green", "blue", "alpha", "r", "g", "b", "a", "diffuse_red", "diffuse_green", "diffuse_blue", "diffuse_alpha", "s", "t",
		"f_dc_0", "f_dc_1", "f_dc_2", "opacity", "scale_0", "scale_1", "scale_2", "rot_0", "rot_1", "rot_2", "rot_3"} {
		plyReserved[n] = true
	}
}


func plyHeaderTok(h ply.Header, rest int) string {
	sb := strings.Builder{}
	f := "ascii"
	switch h.Format {
	case ply.BinaryLittleEndian:
		f = "le"
	case ply.BinaryBigEndian:
		f = "be"
	}
	fmt.Fprintf(&sb, "ok %s %d", f, len(h.Comments))
	for _, cm := range h.Comments {
		sb.WriteString(" " + plyHs(cm))
	}
	fmt.Fprintf(&sb, " %d", len(h.Elements))
	for _, e := range h.Elements {
		fmt.Fprintf(&sb, " %s %d %d", plyHs(e.Name), e.Count, len(e.Properties))
		for _, p := range e.Properties {
			switch v := p.(type) {
			case ply.ScalarProperty:
				fmt.Fprintf(&sb, " s %s %s", plyHs(v.PropertyName), string(v.Type))
			case ply.ListProperty:
				fmt.Fprintf(&sb, " l %s %s %s", plyHs(v.PropertyName), string(v.CountType), string(v.ListType))
			}
		}
	}
	fmt.Fprintf(&sb, " rest %d", rest)
	return sb.String()
}

func plyImplReadHeader(b []byte) string {
	return Guard(func() string {
		r := bytes.NewReader(b)
		h, err := ply.ReadHeader(r)
		if err != nil {
			return "err"
		}
		return plyHeaderTok(h, r.Len())
	})
}

func plyImplReadMesh(b []byte) (string, *modeling.Mesh) {
	var back *modeling.Mesh
	s := Guard(func() string {
		m, err := ply.ReadMesh(bytes.NewReader(b))
		if err != nil {
			return "err"
		}
		back = m
		return plyOkMesh(*m)
	})
	return s, back
}

