package main

// C07 round 2: Go's float32(x) against its SPECIFICATION B32.q32spec (Model/Binary32.lean: round to nearest,
// ties to the even pattern, overflow to infinity, in exact integer arithmetic on the float64 bit pattern).
//   c07.q32spec <float64 bits>*      model line: the driver answers with the spec encoder
//   c07.holds.q32_stored (<float64 bits> <stored float32 bits>)*   oracle: every position word stl.WriteMesh
//                                    stored is q32spec of the mesh coordinate it came from

import (
	"fmt"
	"math"
	"strings"

	"github.com/EliCDavis/polyform/formats/stl"
	"github.com/EliCDavis/polyform/modeling"
)

func c07q32bits(x float64) string {
	f := float32(x)
	if f != f {
		return "7fc00000"
	}
	return fmt.Sprintf("%08x", math.Float32bits(f))
}

func (c *Ctx) c07q32emit(vals []float64) {
	for len(vals) > 0 {
		k := 32
		if len(vals) < k {
			k = len(vals)
		}
		ans := make([]string, k)
		for i, v := range vals[:k] {
			ans[i] = c07q32bits(v)
		}
		c.Emit("c07.q32spec", Fs(vals[:k]...), strings.Join(ans, " "))
		vals = vals[k:]
	}
}

func (c *Ctx) c07Q32Spec() {
	var vals []float64
	f32 := func(u uint32) float64 { return float64(math.Float32frombits(u)) }
	// fixed boundary values
	maxf := f32(0x7f7fffff)
	halfUlpMax := math.Ldexp(1, 103)
	vals = append(vals, 0, math.Copysign(0, -1), 1, -1, math.Inf(1), math.Inf(-1), math.NaN(),
		maxf, maxf+halfUlpMax, math.Nextafter(maxf+halfUlpMax, 0), math.Nextafter(maxf+halfUlpMax, math.Inf(1)), -maxf-halfUlpMax,
		math.MaxFloat64, -math.MaxFloat64, math.SmallestNonzeroFloat64, -math.SmallestNonzeroFloat64,
		math.Ldexp(1, -149), math.Ldexp(1, -150), math.Nextafter(math.Ldexp(1, -150), 1), math.Nextafter(math.Ldexp(1, -150), 0),
		math.Ldexp(3, -150), math.Ldexp(1, -126), math.Nextafter(math.Ldexp(1, -126), 0), math.Ldexp(1, -127), math.Ldexp(1, -1022), math.Ldexp(1, -1074),
		16777216, 16777217, 16777218, 16777219, 0.1, 1.0/3, math.Pi, 1e39, -1e39, 1e-46, 1e-40)
	n := 40 + c.N
	for k := 0; k < n; k++ {
		// exact midpoints between adjacent float32s (both parities of the lower pattern), and their float64 neighbours
		var u uint32
		switch c.Rng.Intn(4) {
		case 0: // subnormal range
			u = uint32(c.Rng.Intn(1 << 23))
		case 1: // around binade boundaries (carry into the exponent)
			u = uint32(c.Rng.Intn(254)+1)<<23 - 1 - uint32(c.Rng.Intn(2))
		case 2: // top of the range
			u = 0x7f7fffff - uint32(c.Rng.Intn(4))
		default:
			u = uint32(c.Rng.Int63n(0x7f7fffff))
		}
		lo := f32(u)
		var hi float64
		if u == 0x7f7fffff {
			hi = math.Ldexp(1, 128)
		} else {
			hi = f32(u + 1)
		}
		mid := lo + (hi-lo)/2 // exact in float64
		sg := 1.0
		if c.Rng.Intn(2) == 0 {
			sg = -1
		}
		vals = append(vals, sg*mid, sg*math.Nextafter(mid, 0), sg*math.Nextafter(mid, math.Inf(1)), sg*lo)
		c.Note(fmt.Sprintf("q32spec.tie.parity%d", u%2))
		// ordinary values of every magnitude
		vals = append(vals, math.Float64frombits(c.Rng.Uint64()))
		vals = append(vals, c.Rng.NormFloat64()*math.Pow(10, float64(c.Rng.Intn(90)-45)))
		vals = append(vals, c.c07F())
	}
	c.c07q32emit(vals)
}

// every position word of the file WriteMesh produced vs the spec rounding of the mesh coordinate it came from
func (c *Ctx) c07Q32Stored(m modeling.Mesh, bs []byte) {
	if !m.HasFloat3Attribute(modeling.PositionAttribute) {
		return
	}
	p, ok := c07Parse(bs)
	if !ok || len(p.Triangles) == 0 {
		return
	}
	idx := m.Indices()
	pos := m.Float3Attribute(modeling.PositionAttribute)
	var sb strings.Builder
	cnt := 0
	for t, tri := range p.Triangles {
		if t >= 40 || 3*t+2 >= idx.Len() {
			break
		}
		for j, v := range []stl.Vec{tri.Vertex1, tri.Vertex2, tri.Vertex3} {
			i := idx.At(3*t + j)
			if i < 0 || i >= pos.Len() {
				return
			}
			src := pos.At(i)
			srcs := [3]float64{src.X(), src.Y(), src.Z()}
			for a, f := range [3]float32{v.X, v.Y, v.Z} {
				w := math.Float32bits(f)
				if f != f {
					w = 0x7fc00000
				}
				fmt.Fprintf(&sb, " %s %08x", F(srcs[a]), w)
				cnt++
			}
		}
	}
	if cnt > 0 {
		c.Note("q32_stored.lines")
		c.Emit("c07.holds.q32_stored", strings.TrimSpace(sb.String()), "true")
	}
}
