package main

// C07 — binary STL: correspondence of stl.Write / Read / WriteMesh / ReadMesh with the Lean model
// (Model/Stl.lean) and oracle lines for the size law and the round trips.  See Driver/C07.lean for
// the line protocol.

import (
	"bytes"
	"encoding/binary"
	"fmt"
	"io"
	"os"
	"path/filepath"
	"math"
	"strings"

	"github.com/EliCDavis/polyform/formats/stl"
	"github.com/EliCDavis/polyform/modeling"
	"github.com/EliCDavis/vector/vector3"
)

func init() { streams["c07"] = runC07 }

func c07V3s(vs []vector3.Float64) string {
	var sb strings.Builder
	fmt.Fprintf(&sb, "%d", len(vs))
	for _, v := range vs {
		sb.WriteString(" " + cF(v.X()) + " " + cF(v.Y()) + " " + cF(v.Z()))
	}
	return sb.String()
}

// mesh → protocol tokens: nidx idx… (npos|-) pos… (nnrm|-) nrm…
func c07Mesh(m modeling.Mesh) string {
	var sb strings.Builder
	idx := m.Indices()
	fmt.Fprintf(&sb, "%d", idx.Len())
	for i := 0; i < idx.Len(); i++ {
		fmt.Fprintf(&sb, " %d", idx.At(i))
	}
	for _, a := range []string{modeling.PositionAttribute, modeling.NormalAttribute} {
		if m.HasFloat3Attribute(a) {
			it := m.Float3Attribute(a)
			vs := make([]vector3.Float64, it.Len())
			for i := range vs {
				vs[i] = it.At(i)
			}
			sb.WriteString(" " + c07V3s(vs))
		} else {
			sb.WriteString(" -")
		}
	}
	return sb.String()
}

func c07Bin(b stl.Binary, canonNaN bool) string {
	var sb strings.Builder
	sb.WriteString(hx(b.Header[:]))
	fmt.Fprintf(&sb, " %d", len(b.Triangles))
	w := func(f float32) {
		u := math.Float32bits(f)
		if canonNaN && f != f {
			u = 0x7fc00000
		}
		fmt.Fprintf(&sb, " %08x", u)
	}
	for _, t := range b.Triangles {
		for _, v := range []stl.Vec{t.Normal, t.Vertex1, t.Vertex2, t.Vertex3} {
			w(v.X)
			w(v.Y)
			w(v.Z)
		}
		fmt.Fprintf(&sb, " %04x", t.Attribute)
	}
	return sb.String()
}

// independent parser of the 84 + 50n layout (does not use formats/stl); ok=false unless the length is exact
func c07Parse(bs []byte) (stl.Binary, bool) {
	var out stl.Binary
	if len(bs) < 84 {
		return out, false
	}
	copy(out.Header[:], bs[:80])
	n := int(binary.LittleEndian.Uint32(bs[80:84]))
	if len(bs) != 84+50*n {
		return out, false
	}
	out.Triangles = make([]stl.Triangle, n)
	for i := 0; i < n; i++ {
		rec := bs[84+50*i : 84+50*(i+1)]
		f := func(k int) float32 { return math.Float32frombits(binary.LittleEndian.Uint32(rec[4*k:])) }
		out.Triangles[i] = stl.Triangle{
			Normal:    stl.Vec{X: f(0), Y: f(1), Z: f(2)},
			Vertex1:   stl.Vec{X: f(3), Y: f(4), Z: f(5)},
			Vertex2:   stl.Vec{X: f(6), Y: f(7), Z: f(8)},
			Vertex3:   stl.Vec{X: f(9), Y: f(10), Z: f(11)},
			Attribute: binary.LittleEndian.Uint16(rec[48:]),
		}
	}
	return out, true
}

// interesting float32 bit patterns
func (c *Ctx) c07Word() float32 {
	switch c.Rng.Intn(12) {
	case 0:
		return 0
	case 1:
		return math.Float32frombits(0x80000000) // -0
	case 2:
		return math.Float32frombits(0x7fc00000 | uint32(c.Rng.Intn(1<<22))) // quiet NaN + payload
	case 3:
		return math.Float32frombits(0x7f800001 + uint32(c.Rng.Intn(1<<21))) // signalling NaN
	case 4:
		return math.Float32frombits(0xff800000) // -Inf
	case 5:
		return math.Float32frombits(uint32(c.Rng.Intn(1 << 23))) // subnormal
	case 6, 7:
		return float32(c.Rng.Intn(200) - 100)
	default:
		return math.Float32frombits(c.Rng.Uint32())
	}
}

func (c *Ctx) c07Vec(zeroBias bool) stl.Vec {
	if zeroBias && c.Rng.Intn(3) == 0 {
		z := func() float32 {
			if c.Rng.Intn(2) == 0 {
				return 0
			}
			return math.Float32frombits(0x80000000)
		}
		return stl.Vec{X: z(), Y: z(), Z: z()}
	}
	return stl.Vec{X: c.c07Word(), Y: c.c07Word(), Z: c.c07Word()}
}

// header classes: the 80 header bytes of a binary STL are free-form; real tools write text there
var c07HeaderTexts = []string{"solid part1", "solid OpenSCAD_Model", " solid x", "\t  solid  y", "solid", "SOLID x", "Solid Edge",
	"Solidworks 2021 binary STL", "COLOR=\x10\x20\x30\xff,MATERIAL=\x01\x02\x03\x04", "STLB ATF 8.0.0.0 COLOR=\xa0\xa0\xa0\xff",
	"binary stl written by verif", "solid a\nfacet normal 0 0 1", "so\x00lid", "solid\x00\x00name", "\x00solid", "endsolid", "facet"}

func (c *Ctx) c07Header() (h stl.Header) {
	switch c.Rng.Intn(6) {
	case 0: // all zero (what WriteMesh writes)
		c.Note("header.zero")
	case 1:
		c.Rng.Read(h[:])
		c.Note("header.random")
	case 2: // 80 blanks
		for i := range h {
			h[i] = ' '
		}
		c.Note("header.blanks")
	case 3: // text padded with blanks
		for i := range h {
			h[i] = ' '
		}
		copy(h[:], c07HeaderTexts[c.Rng.Intn(len(c07HeaderTexts))])
		c.Note("header.text-blank-padded")
	default: // text padded with NUL
		copy(h[:], c07HeaderTexts[c.Rng.Intn(len(c07HeaderTexts))])
		c.Note("header.text-nul-padded")
	}
	return h
}

func (c *Ctx) c07Size() int {
	switch c.Rng.Intn(10) {
	case 0:
		return 0
	case 1:
		return 1
	case 2:
		return 2
	case 9:
		return 20 + c.Rng.Intn(40)
	default:
		return 3 + c.Rng.Intn(12)
	}
}

func (c *Ctx) c07Binary() stl.Binary {
	var b stl.Binary
	b.Header = c.c07Header()
	n := c.c07Size()
	b.Triangles = make([]stl.Triangle, n)
	for i := range b.Triangles {
		b.Triangles[i] = stl.Triangle{Normal: c.c07Vec(true), Vertex1: c.c07Vec(false), Vertex2: c.c07Vec(false),
			Vertex3: c.c07Vec(false), Attribute: uint16(c.Rng.Intn(1 << 16))}
		if c.Rng.Intn(3) == 0 {
			b.Triangles[i].Attribute = 0
		}
	}
	return b
}

// float64 payload values: exact small integers, values that round when narrowed, float32 overflow /
// underflow, signed zero, occasionally Inf / NaN
func (c *Ctx) c07F() float64 {
	switch c.Rng.Intn(16) {
	case 0:
		return 0
	case 1:
		return math.Copysign(0, -1)
	case 2:
		return 1e39 * (c.Rng.Float64() + 1) // > MaxFloat32 → ±Inf
	case 3:
		return -1e-46 * c.Rng.Float64() // underflows to -0 / subnormal
	case 4:
		return 1e-40 * c.Rng.Float64() // float32 subnormal
	case 5:
		if c.Rng.Intn(4) == 0 {
			return math.NaN()
		}
		return math.Inf(1 - 2*c.Rng.Intn(2))
	case 6, 7, 8:
		return float64(c.Rng.Intn(41) - 20)
	case 9:
		return 16777217 + float64(c.Rng.Intn(9)) // needs rounding to float32 (ties)
	default:
		return c.Rng.NormFloat64() * math.Pow(10, float64(c.Rng.Intn(7)-3))
	}
}

func (c *Ctx) c07Normal() vector3.Float64 {
	switch c.Rng.Intn(12) {
	case 0:
		return vector3.New(0., 0., 0.)
	case 1:
		return vector3.New(1e200*c.Rng.NormFloat64(), 1e200, 0.) // length overflows → stored normal (0,0,0) or NaN
	case 2:
		return vector3.New(1e-200, 1., 0.)
	case 3:
		return vector3.New(c.c07F(), c.c07F(), c.c07F())
	case 4, 5:
		return [6]vector3.Float64{vector3.New(1., 0., 0.), vector3.New(-1., 0., 0.), vector3.New(0., 1., 0.),
			vector3.New(0., -1., 0.), vector3.New(0., 0., 1.), vector3.New(0., 0., -1.)}[c.Rng.Intn(6)]
	default:
		v := vector3.New(c.Rng.NormFloat64(), c.Rng.NormFloat64(), c.Rng.NormFloat64())
		if c.Rng.Intn(2) == 0 {
			return v.Normalized()
		}
		return v
	}
}

// structured triangle mesh: shared / duplicated / unreferenced vertices, identity or arbitrary index pattern
func (c *Ctx) c07MeshGen(oob bool) modeling.Mesh {
	nv := 1 + c.Rng.Intn(14)
	nt := c.c07Size()
	idx := make([]int, 3*nt)
	switch c.Rng.Intn(4) {
	case 0: // un-indexed soup
		nv = 3 * nt
		if nv == 0 {
			nv = c.Rng.Intn(3)
		}
		for i := range idx {
			idx[i] = i
		}
		c.Note("mesh.identity")
	case 1: // heavy sharing: few vertices
		nv = 1 + c.Rng.Intn(4)
		for i := range idx {
			idx[i] = c.Rng.Intn(nv)
		}
		c.Note("mesh.shared")
	default:
		for i := range idx {
			idx[i] = c.Rng.Intn(nv)
		}
		c.Note("mesh.indexed")
	}
	if oob && len(idx) > 0 {
		idx[c.Rng.Intn(len(idx))] = nv + c.Rng.Intn(3)
	}
	pos := make([]vector3.Float64, nv)
	for i := range pos {
		pos[i] = vector3.New(c.c07F(), c.c07F(), c.c07F())
		if i > 0 && c.Rng.Intn(6) == 0 {
			pos[i] = pos[c.Rng.Intn(i)] // duplicated vertex data
		}
	}
	m := modeling.NewTriangleMesh(idx)
	kind := c.Rng.Intn(8)
	if kind != 0 { // kind 0: no position attribute at all
		m = m.SetFloat3Attribute(modeling.PositionAttribute, pos)
	} else {
		c.Note("mesh.nopos")
	}
	if kind >= 4 {
		nrm := make([]vector3.Float64, nv)
		same := c.Rng.Intn(3) == 0
		for i := range nrm {
			nrm[i] = c.c07Normal()
			if same && i > 0 {
				nrm[i] = nrm[0]
			}
		}
		m = m.SetFloat3Attribute(modeling.NormalAttribute, nrm)
		c.Note("mesh.normals")
	} else {
		c.Note("mesh.nonormals")
	}
	if nt == 0 {
		c.Note("mesh.zerotris")
	}
	return m
}

func c07ReadAns(bs []byte) string { return c07ReadVia(bytes.NewReader(bs)) }

func c07ReadVia(in io.Reader) string {
	defer objstlDrain(in)
	return Guard(func() string {
		b, err := stl.Read(in)
		if err != nil {
			return "err"
		}
		return "ok " + c07Bin(*b, false)
	})
}

func c07ReadMeshAns(bs []byte) (string, *modeling.Mesh) { return c07ReadMeshVia(bytes.NewReader(bs)) }

func c07ReadMeshVia(in io.Reader) (string, *modeling.Mesh) {
	defer objstlDrain(in)
	var mm *modeling.Mesh
	s := Guard(func() string {
		m, err := stl.ReadMesh(in)
		if err != nil {
			return "err"
		}
		mm = m
		return "ok " + c07Mesh(*m)
	})
	return s, mm
}

func (c *Ctx) c07ByteCase() {
	b := c.c07Binary()
	var buf bytes.Buffer
	if err := stl.Write(&buf, b); err != nil {
		panic(err)
	}
	bs := buf.Bytes()
	c.Emit("c07.write", c07Bin(b, false), hx(bs))
	c.Emit("c07.holds.size", fmt.Sprintf("%d %s", len(b.Triangles), hx(bs)), "true")
	c.Emit("c07.read", hx(bs), c07ReadAns(bs))
	if back, err := stl.Read(bytes.NewReader(bs)); err == nil {
		c.Emit("c07.holds.rt", c07Bin(b, false)+" "+c07Bin(*back, false), "true")
	} else {
		c.Emit("c07.holds.rt", c07Bin(b, false)+" "+hx(nil)+" 0", "true")
	}
	if p, ok := c07Parse(bs); ok { // independent parser agrees with what was written
		c.Emit("c07.holds.rt", c07Bin(b, false)+" "+c07Bin(p, false), "true")
	} else {
		c.Emit("c07.holds.rt", c07Bin(b, false)+" "+hx(nil)+" 0", "true")
	}
	ans, _ := c07ReadMeshAns(bs)
	c.Emit("c07.readmesh", hx(bs), ans)
}

// an arbitrary well-formed file: random bytes, count field = number of 50-byte records present
func (c *Ctx) c07WellFormed() []byte {
	n := c.c07Size()
	bs := make([]byte, 84+50*n)
	c.Rng.Read(bs)
	if c.Rng.Intn(3) != 0 {
		h := c.c07Header()
		copy(bs[:80], h[:])
	}
	binary.LittleEndian.PutUint32(bs[80:], uint32(n))
	// bias some records towards zero normals / special words
	for i := 0; i < n; i++ {
		if c.Rng.Intn(3) == 0 {
			for k := 0; k < 12; k++ {
				bs[84+50*i+k] = 0
			}
			if c.Rng.Intn(2) == 0 {
				bs[84+50*i+3] = 0x80
			}
		}
	}
	return bs
}

func (c *Ctx) c07ReencodeCase() {
	bs := c.c07WellFormed()
	c.Emit("c07.read", hx(bs), c07ReadAns(bs))
	out := Guard(func() string {
		b, err := stl.Read(bytes.NewReader(bs))
		if err != nil {
			return "err"
		}
		var buf bytes.Buffer
		if err := stl.Write(&buf, *b); err != nil {
			return "err"
		}
		return hx(buf.Bytes())
	})
	c.Emit("c07.holds.reencode", hx(bs)+" "+out, "true")
	ans, _ := c07ReadMeshAns(bs)
	c.Emit("c07.readmesh", hx(bs), ans)
	c.c07Readers(bs, c.Rng.Intn(8) == 0)
	c.c07TameFile()
}

// ReadMesh → WriteMesh on a file: the model predicts the exact re-saved records (zero header, attribute 0,
// positions re-narrowed, normals re-derived) — an ordinary correspondence line
func (c *Ctx) c07ResaveMesh(bs []byte) {
	ans := Guard(func() string {
		m, err := stl.ReadMesh(bytes.NewReader(bs))
		if err != nil {
			return "err"
		}
		var o bytes.Buffer
		if err := stl.WriteMesh(&o, *m); err != nil {
			return "err"
		}
		p, ok := c07Parse(o.Bytes())
		if !ok {
			return "unparseable"
		}
		return "ok " + c07Bin(p, true)
	})
	c.Emit("c07.resavemesh", hx(bs), ans)
}

// a file with tame coordinates and a mixture of zero / non-unit / unit stored normals: the geometric
// fallback of ReadMesh, checked against the geometric statement itself
func (c *Ctx) c07TameFile() {
	var b stl.Binary
	b.Header = c.c07Header()
	n := 1 + c.Rng.Intn(6)
	b.Triangles = make([]stl.Triangle, n)
	v := func() stl.Vec {
		return stl.Vec{X: float32(c.Rng.Intn(41)-20) / 4, Y: float32(c.Rng.Intn(41)-20) / 4, Z: float32(c.Rng.Intn(41)-20) / 4}
	}
	for i := range b.Triangles {
		t := stl.Triangle{Vertex1: v(), Vertex2: v(), Vertex3: v()}
		if c.Rng.Intn(2) == 0 {
			t.Normal = v() // arbitrary, mostly non-unit
		}
		b.Triangles[i] = t
	}
	var buf bytes.Buffer
	if err := stl.Write(&buf, b); err != nil {
		return
	}
	if _, back := c07ReadMeshAns(buf.Bytes()); back != nil {
		c.Emit("c07.holds.geometric_fallback", hx(buf.Bytes())+" "+c07Mesh(*back), "true")
	}
	// same file with a non-zero header and attribute words through ReadMesh → WriteMesh
	b.Header = c.c07Header()
	for i := range b.Triangles {
		if c.Rng.Intn(2) == 0 {
			b.Triangles[i].Attribute = uint16(1 + c.Rng.Intn(65535))
		}
	}
	var buf2 bytes.Buffer
	if err := stl.Write(&buf2, b); err == nil {
		c.c07ResaveMesh(buf2.Bytes())
	}
}

func (c *Ctx) c07MalformedCase() {
	bs := c.c07WellFormed()
	switch c.Rng.Intn(5) {
	case 0: // cut inside the header / count
		bs = bs[:c.Rng.Intn(84)]
		c.Note("malformed.cut-header")
	case 1, 2: // cut inside the records
		if len(bs) > 84 {
			bs = bs[:84+c.Rng.Intn(len(bs)-84)]
			c.Note("malformed.cut-records")
		} else {
			binary.LittleEndian.PutUint32(bs[80:], uint32(1+c.Rng.Intn(1000)))
			c.Note("malformed.count-too-large")
		}
	case 3: // count larger than the data
		n := binary.LittleEndian.Uint32(bs[80:])
		binary.LittleEndian.PutUint32(bs[80:], n+1+uint32(c.Rng.Intn(1000)))
		c.Note("malformed.count-too-large")
	default: // trailing bytes: accepted, ignored
		extra := make([]byte, 1+c.Rng.Intn(60))
		c.Rng.Read(extra)
		bs = append(bs, extra...)
		c.Note("malformed.trailing")
	}
	c.Emit("c07.read", hx(bs), c07ReadAns(bs))
	ans, _ := c07ReadMeshAns(bs)
	c.Emit("c07.readmesh", hx(bs), ans)
	c.c07Readers(bs, c.Rng.Intn(8) == 0) // truncated / over-long inputs through the reader family as well
	c.c07ResaveMesh(bs)
}

func (c *Ctx) c07MeshCase(oob bool) {
	m := c.c07MeshGen(oob)
	var bs []byte
	ans := Guard(func() string {
		var buf bytes.Buffer
		if err := stl.WriteMesh(&buf, m); err != nil {
			return "err"
		}
		bs = buf.Bytes()
		p, ok := c07Parse(bs)
		if !ok {
			return "unparseable " + hx(bs)
		}
		return "ok " + c07Bin(p, true)
	})
	c.Emit("c07.writemesh", c07Mesh(m), ans)
	if bs == nil {
		c.Note("writemesh." + strings.SplitN(ans, " ", 2)[0])
		return
	}
	if m.HasFloat3Attribute(modeling.PositionAttribute) {
		c.Emit("c07.holds.size", fmt.Sprintf("%d %s", m.PrimitiveCount(), hx(bs)), "true")
	} else {
		c.Emit("c07.holds.size", fmt.Sprintf("0 %s", hx(bs)), "true")
	}
	if p, ok := c07Parse(bs); ok && len(p.Triangles) > 0 {
		z, nz := 0, 0
		for _, t := range p.Triangles {
			if t.Normal.Zero() {
				z++
			} else {
				nz++
			}
		}
		switch {
		case z > 0 && nz > 0:
			c.Note("stored-normals.mixed-zero-nonzero")
		case z > 0:
			c.Note("stored-normals.all-zero")
		default:
			c.Note("stored-normals.all-nonzero")
		}
	}
	c.c07Q32Stored(m, bs)
	c.c07PipeFromWriter(m, bs)
	c.c07Readers(bs, c.Rng.Intn(8) == 0)
	if m.HasFloat3Attribute(modeling.PositionAttribute) && m.HasFloat3Attribute(modeling.NormalAttribute) {
		c.Emit("c07.holds.unit_mean", c07Mesh(m)+" "+hx(bs), "true")
	}
	rans, back := c07ReadMeshAns(bs)
	// the bytes WriteMesh produced may contain non-canonical NaN words, which the model does not see
	// through float arithmetic; ReadMesh's answer is canonicalised per float64, so this is exact.
	c.Emit("c07.readmesh", hx(bs), rans)
	if back != nil && m.HasFloat3Attribute(modeling.PositionAttribute) {
		c.Emit("c07.holds.roundtrip", c07Mesh(m)+" "+c07Mesh(*back), "true")
		if back.HasFloat3Attribute(modeling.NormalAttribute) {
			c.Note("roundtrip.normals-back")
		} else {
			c.Note("roundtrip.no-normals-back")
		}
	}
}

// the same bytes through the reader family: every answer is a model line; with all=true the answers also go to
// the oracle `readers_agree` (identical for every reader)
func (c *Ctx) c07Readers(bs []byte, all bool) {
	kinds := objstlReaders
	if !all {
		k := c.Rng.Intn(len(objstlReaders))
		kinds = objstlReaders[k : k+1]
	}
	var ra, ma []string
	for _, k := range kinds {
		a := c07ReadVia(k.mk(bs))
		b, _ := c07ReadMeshVia(k.mk(bs))
		c.Emit("c07.read", hx(bs), a)
		c.Emit("c07.readmesh", hx(bs), b)
		c.Note("reader." + k.name)
		ra = append(ra, hx([]byte(a)))
		ma = append(ma, hx([]byte(b)))
	}
	if all {
		c.Emit("c07.holds.readers_agree", fmt.Sprintf("%d %s", len(ra), strings.Join(ra, " ")), "true")
		c.Emit("c07.holds.readers_agree", fmt.Sprintf("%d %s", len(ma), strings.Join(ma, " ")), "true")
	}
}

// the REAL writer on the other end of a pipe: stl.WriteMesh → io.Pipe → stl.ReadMesh / stl.Read
func (c *Ctx) c07PipeFromWriter(m modeling.Mesh, bs []byte) {
	for pass := 0; pass < 2; pass++ {
		pr, pw := io.Pipe()
		go func() {
			defer func() { recover(); pw.Close() }()
			stl.WriteMesh(pw, m)
		}()
		if pass == 0 {
			a, _ := c07ReadMeshVia(pr)
			c.Emit("c07.readmesh", hx(bs), a)
		} else {
			c.Emit("c07.read", hx(bs), c07ReadVia(pr))
		}
	}
	c.Note("reader.pipe-from-WriteMesh")
}

// large cases with tagged (triangle-dependent, non-zero) values: sizes that cross plausible internal block /
// buffer boundaries (4096 records, 4096-byte and 64 KiB offsets)
func (c *Ctx) c07BigCase(n int, withNormals bool) {
	c.Note(fmt.Sprintf("big.n=%d", n))
	const nv = 211
	pos := make([]vector3.Float64, nv)
	nrm := make([]vector3.Float64, nv)
	for v := range pos {
		pos[v] = vector3.New(float64(v+1), float64(v+1)*0.5, -float64(v+1)-0.25)
		nrm[v] = vector3.New(float64(v%7+1), float64(v%5)-2, float64(v%3)+0.5)
	}
	idx := make([]int, 3*n)
	for i := 0; i < n; i++ {
		idx[3*i], idx[3*i+1], idx[3*i+2] = i%nv, (i*7+1)%nv, (i*13+2)%nv
	}
	m := modeling.NewTriangleMesh(idx).SetFloat3Attribute(modeling.PositionAttribute, pos)
	if withNormals {
		m = m.SetFloat3Attribute(modeling.NormalAttribute, nrm)
	}
	var buf bytes.Buffer
	if err := stl.WriteMesh(&buf, m); err != nil {
		c.Emit("c07.holds.size", fmt.Sprintf("%d -", n), "true")
		return
	}
	bs := buf.Bytes()
	c.Emit("c07.holds.size", fmt.Sprintf("%d %s", n, hx(bs)), "true")
	c.c07PipeFromWriter(m, bs)
	c.c07Readers(bs, n == 82 || n == 4096)
	c.Emit("c07.read", hx(bs), c07ReadAns(bs))
	rans, back := c07ReadMeshAns(bs)
	c.Emit("c07.readmesh", hx(bs), rans)
	if back != nil {
		c.Emit("c07.holds.roundtrip", c07Mesh(m)+" "+c07Mesh(*back), "true")
	}
	out := Guard(func() string {
		b, err := stl.Read(bytes.NewReader(bs))
		if err != nil {
			return "err"
		}
		var o bytes.Buffer
		if err := stl.Write(&o, *b); err != nil {
			return "err"
		}
		return hx(o.Bytes())
	})
	c.Emit("c07.holds.reencode", hx(bs)+" "+out, "true")
	// byte level: a binary with n tagged records
	var b stl.Binary
	copy(b.Header[:], c07HeaderTexts[n%len(c07HeaderTexts)])
	b.Triangles = make([]stl.Triangle, n)
	for i := range b.Triangles {
		f := float32(i + 1)
		b.Triangles[i] = stl.Triangle{Normal: stl.Vec{X: f, Y: 1, Z: -f}, Vertex1: stl.Vec{X: f + 0.5, Y: f, Z: 2}, Vertex2: stl.Vec{X: 3, Y: -f, Z: f},
			Vertex3: stl.Vec{X: f, Y: f, Z: f}, Attribute: uint16(i%65535 + 1)}
	}
	var wb bytes.Buffer
	if err := stl.Write(&wb, b); err == nil {
		c.Emit("c07.write", c07Bin(b, false), hx(wb.Bytes()))
		c.Emit("c07.read", hx(wb.Bytes()), c07ReadAns(wb.Bytes()))
		if rb, err := stl.Read(bytes.NewReader(wb.Bytes())); err == nil {
			c.Emit("c07.holds.rt", c07Bin(b, false)+" "+c07Bin(*rb, false), "true")
		}
	}
}

// on-disk helpers: a HISTORY of Saves on one path (big, small, zero triangles, big again); after every Save the
// file's bytes are what the model's WriteMesh gives (size law on disk) and Load agrees
func (c *Ctx) c07FsHistory(dir string) {
	p := filepath.Join(dir, "history.stl")
	for step, nt := range []int{40 + c.Rng.Intn(40), 1 + c.Rng.Intn(5), 0, 7 + c.Rng.Intn(20), 2} {
		nv := 9
		idx := make([]int, 3*nt)
		for i := range idx {
			idx[i] = c.Rng.Intn(nv)
		}
		pos := make([]vector3.Float64, nv)
		for i := range pos {
			pos[i] = vector3.New(float64(step*10+i), float64(i)*0.5, -float64(i))
		}
		m := modeling.NewTriangleMesh(idx).SetFloat3Attribute(modeling.PositionAttribute, pos)
		var onDisk []byte
		ans := Guard(func() string {
			if err := stl.Save(p, m); err != nil {
				return "err"
			}
			bs, err := os.ReadFile(p)
			if err != nil {
				return "err"
			}
			onDisk = bs
			b, ok := c07Parse(bs)
			if !ok {
				return "unparseable len=" + fmt.Sprint(len(bs))
			}
			return "ok " + c07Bin(b, true)
		})
		c.Emit("c07.writemesh", c07Mesh(m), ans)
		c.Note("fs.save-step")
		if onDisk == nil {
			continue
		}
		c.Emit("c07.holds.size", fmt.Sprintf("%d %s", nt, hx(onDisk)), "true")
		lans := Guard(func() string {
			back, err := stl.Load(p)
			if err != nil {
				return "err"
			}
			return "ok " + c07Mesh(*back)
		})
		c.Emit("c07.readmesh", hx(onDisk), lans)
	}
}

// a reader that hides Seek (and everything else) of the reader it wraps
type c07Plain struct{ r io.Reader }

func (p c07Plain) Read(b []byte) (int, error) { return p.r.Read(b) }

// the STL payload does not start at offset 0 of its reader: a consumed preamble, and two files back to back —
// through seekable (bytes.Reader, os.File) and non-seekable (bytes.Buffer, plain wrapper) readers
func (c *Ctx) c07Positioned(dir string, first, second []byte) {
	pre := make([]byte, 1+c.Rng.Intn(200))
	c.Rng.Read(pre)
	all := append(append(append([]byte(nil), pre...), first...), second...)
	fp := filepath.Join(dir, "positioned.bin")
	kinds := []struct {
		name string
		mk   func() (io.Reader, func())
	}{
		{"bytes.Reader", func() (io.Reader, func()) { return bytes.NewReader(all), func() {} }},
		{"bytes.Buffer", func() (io.Reader, func()) { return bytes.NewBuffer(append([]byte(nil), all...)), func() {} }},
		{"plain(bytes.Reader)", func() (io.Reader, func()) { return c07Plain{bytes.NewReader(all)}, func() {} }},
		{"os.File", func() (io.Reader, func()) {
			if err := os.WriteFile(fp, all, 0o644); err != nil {
				return bytes.NewReader(all), func() {}
			}
			f, err := os.Open(fp)
			if err != nil {
				return bytes.NewReader(all), func() {}
			}
			return f, func() { f.Close() }
		}},
	}
	var agree [4][]string
	for _, k := range kinds {
		for pass := 0; pass < 2; pass++ {
			r, done := k.mk()
			if _, err := io.ReadFull(r, make([]byte, len(pre))); err != nil {
				done()
				continue
			}
			if pass == 0 {
				a1, a2 := c07ReadVia(r), c07ReadVia(r) // the second file follows immediately
				c.Emit("c07.read", hx(first), a1)
				c.Emit("c07.read", hx(second), a2)
				agree[0], agree[1] = append(agree[0], hx([]byte(a1))), append(agree[1], hx([]byte(a2)))
			} else {
				a, _ := c07ReadMeshVia(r)
				c.Emit("c07.readmesh", hx(first), a)
				b, _ := c07ReadMeshVia(r)
				c.Emit("c07.readmesh", hx(second), b)
				agree[2], agree[3] = append(agree[2], hx([]byte(a))), append(agree[3], hx([]byte(b)))
			}
			done()
		}
		c.Note("positioned." + k.name)
	}
	for _, as := range agree { // seekable and non-seekable readers, positioned or not, must give one answer
		c.Emit("c07.holds.readers_agree", fmt.Sprintf("%d %s", len(as), strings.Join(as, " ")), "true")
	}
}

// around the 16-bit boundary of the triangle count: 3.3 MB files, so only the size law, the model's Read and the
// read → write oracle (no mesh-level lines)
func (c *Ctx) c07HugeCase(n int) {
	c.Note(fmt.Sprintf("huge.n=%d", n))
	const nv = 211
	pos := make([]vector3.Float64, nv)
	for v := range pos {
		pos[v] = vector3.New(float64(v+1), float64(v+1)*0.5, -float64(v+1)-0.25)
	}
	idx := make([]int, 3*n)
	for i := 0; i < n; i++ {
		idx[3*i], idx[3*i+1], idx[3*i+2] = i%nv, (i*7+1)%nv, (i*13+2)%nv
	}
	m := modeling.NewTriangleMesh(idx).SetFloat3Attribute(modeling.PositionAttribute, pos)
	var buf bytes.Buffer
	if err := stl.WriteMesh(&buf, m); err != nil {
		c.Emit("c07.holds.size", fmt.Sprintf("%d -", n), "true")
		return
	}
	bs := buf.Bytes()
	c.Emit("c07.holds.size", fmt.Sprintf("%d %s", n, hx(bs)), "true")
	c.Emit("c07.read", hx(bs), c07ReadAns(bs))
	out := Guard(func() string {
		b, err := stl.Read(bytes.NewReader(bs))
		if err != nil {
			return "err"
		}
		var o bytes.Buffer
		if err := stl.Write(&o, *b); err != nil {
			return "err"
		}
		return hx(o.Bytes())
	})
	c.Emit("c07.holds.reencode", hx(bs)+" "+out, "true")
}

func runC07(c *Ctx) {
	c.c07HugeCase(65536)
	if c.Tier == "thorough" {
		c.c07HugeCase(65535)
		c.c07HugeCase(65537)
	}
	if dir, err := os.MkdirTemp("", "verif-c07-"); err == nil {
		nh := 2 + c.N/100
		if nh > 20 {
			nh = 20
		}
		for k := 0; k < nh; k++ {
			c.c07FsHistory(dir)
			var a, b bytes.Buffer
			stl.Write(&a, c.c07Binary())
			stl.Write(&b, c.c07Binary())
			c.c07Positioned(dir, a.Bytes(), b.Bytes())
		}
		os.RemoveAll(dir)
	}
	for _, txt := range c07HeaderTexts { // every header text once, NUL- and blank-padded
		for pad := 0; pad < 2; pad++ {
			var b stl.Binary
			if pad == 1 {
				for i := range b.Header {
					b.Header[i] = ' '
				}
			}
			copy(b.Header[:], txt)
			b.Triangles = []stl.Triangle{{Normal: stl.Vec{Z: 1}, Vertex1: stl.Vec{}, Vertex2: stl.Vec{X: 1}, Vertex3: stl.Vec{Y: 1}, Attribute: 3}}
			var buf bytes.Buffer
			if err := stl.Write(&buf, b); err != nil {
				continue
			}
			bs := buf.Bytes()
			c.Emit("c07.write", c07Bin(b, false), hx(bs))
			c.Emit("c07.read", hx(bs), c07ReadAns(bs))
			ans, _ := c07ReadMeshAns(bs)
			c.Emit("c07.readmesh", hx(bs), ans)
			c.c07ResaveMesh(bs)
			out := Guard(func() string {
				rb, err := stl.Read(bytes.NewReader(bs))
				if err != nil {
					return "err"
				}
				var o bytes.Buffer
				if err := stl.Write(&o, *rb); err != nil {
					return "err"
				}
				return hx(o.Bytes())
			})
			c.Emit("c07.holds.reencode", hx(bs)+" "+out, "true")
		}
	}
	{
		sizes := []int{81, 82, 1310, 1311, 4095, 4096, 4097, 8192}
		if c.Tier == "thorough" {
			sizes = append(sizes, 8193, 12288)
		}
		for k, n := range sizes {
			c.c07BigCase(n, k%2 == 0)
		}
	}
	// known finding, replayed on the real code every run: a mesh that stores no normals reads back with
	// no normal attribute at all (ReadMesh only attaches normals if some record has a non-zero one)
	{
		m := modeling.NewTriangleMesh([]int{0, 1, 2}).SetFloat3Attribute(modeling.PositionAttribute,
			[]vector3.Float64{vector3.New(0., 0., 0.), vector3.New(1., 0., 0.), vector3.New(0., 1., 0.)})
		var buf bytes.Buffer
		if err := stl.WriteMesh(&buf, m); err == nil {
			if _, back := c07ReadMeshAns(buf.Bytes()); back != nil {
				c.Emit("c07.holds.geometric_normal_when_none_stored_witness", c07Mesh(m)+" "+c07Mesh(*back), "true")
			}
		}
	}
	// fixed small cases first: empty file, one record, every cut point of a two-record file
	{
		var buf bytes.Buffer
		stl.Write(&buf, stl.Binary{})
		c.Emit("c07.read", hx(buf.Bytes()), c07ReadAns(buf.Bytes()))
		ans, _ := c07ReadMeshAns(buf.Bytes())
		c.Emit("c07.readmesh", hx(buf.Bytes()), ans)
		two := c.c07WellFormed()
		for len(two) != 184 {
			two = c.c07WellFormed()
		}
		step := 7
		if c.Tier == "thorough" {
			step = 1
		}
		for cut := 0; cut <= len(two); cut += step {
			c.Emit("c07.read", hx(two[:cut]), c07ReadAns(two[:cut]))
		}
	}
	for k := 0; k < c.N; k++ {
		c.c07MeshCase(false)
		c.c07ByteCase()
		c.c07ReencodeCase()
		c.c07MalformedCase()
		if k%5 == 0 {
			c.c07MeshCase(true)
		}
	}
	c.c07Q32Spec() // last: the PRNG sequence of the older lines is unchanged
}
