package main

// C08 — PLY files written by other tools load to what the specification says.
//
// The harness draws a structured description of a file (plySpec) from the PRNG, encodes it with its OWN reference
// encoder (written from the PLY specification, independent of the repo's writer and of the Lean one), feeds the
// bytes to the real ply.ReadMesh / ply.ReadHeader and emits
//   c08.encode <spec>            → hex of the harness' bytes      (Lean: refEncode f — the two encoders must agree)
//   c08.read   <hex>             → ply.ReadMesh result            (Lean: model reader)
//   c08.header <hex>             → ply.ReadHeader result          (Lean: model header parser)
//   c08.holds.meaning <spec> <impl result>                        (Lean: impl result = meaning f)
// plus one witness per finding on the unchanged tree under its own op name (expected false):
//   c08.holds.uchar_scalar_ascii_witness, c08.holds.mixed_type_group_witness, c08.holds.ascii_precision_witness

import (
	"bytes"
	"encoding/binary"
	"fmt"
	"math"
	"strconv"
	"strings"
)

func init() { streams["c08"] = runC08 }

type plySpecProp struct {
	name  string
	ty    string // uchar int float double
	alias bool
}

type plyHItem struct {
	obj  bool
	text string
}

type plySpecFace struct {
	verts []int
	uv    []float64
	extra []int
}

type plySpecFaceElem struct {
	short    bool
	cntTy    string
	idxTy    string
	idxAlias bool
	hasTex   bool
	texCnt   string
	texItem  string
	texFirst bool
	extra    int // 0 none, 1 first, 2 last
	faces    []plySpecFace
}

type plySpec struct {
	format         string // ascii le be
	crlf           bool
	pre, mid, post []plyHItem
	vprops         []plySpecProp
	verts          [][]float64 // uchar / int stored as the integer value
	longDecimals   bool        // ASCII values whose exact decimal expansion is longer than the shortest round-trip text
	face           *plySpecFaceElem
}

var plyAlias = map[string]string{"uchar": "uint8", "int": "int32", "uint": "uint32", "float": "float32", "double": "float64"}

func plyTypeName(t string, alias bool) string {
	if alias {
		return plyAlias[t]
	}
	return t
}

func plyB01(b bool) string {
	if b {
		return "1"
	}
	return "0"
}

func plyItemsTok(sb *strings.Builder, items []plyHItem) {
	fmt.Fprintf(sb, " %d", len(items))
	for _, it := range items {
		k := "c"
		if it.obj {
			k = "o"
		}
		sb.WriteString(" " + k + " " + plyHs(it.text))
	}
}

// token form parsed by Driver/C08.lean pSpec
func plySpecTok(s plySpec) string {
	sb := &strings.Builder{}
	sb.WriteString(s.format + " " + plyB01(s.crlf))
	plyItemsTok(sb, s.pre)
	fmt.Fprintf(sb, " %d", len(s.vprops))
	for _, p := range s.vprops {
		sb.WriteString(" " + plyHs(p.name) + " " + p.ty + " " + plyB01(p.alias))
	}
	plyItemsTok(sb, s.mid)
	plyItemsTok(sb, s.post)
	fmt.Fprintf(sb, " %d", len(s.verts))
	for _, r := range s.verts {
		for k, v := range r {
			switch s.vprops[k].ty {
			case "uchar", "int":
				fmt.Fprintf(sb, " %d", int64(v))
			default:
				sb.WriteString(" " + F(v))
			}
		}
	}
	if s.face == nil {
		sb.WriteString(" 0")
		return sb.String()
	}
	fe := s.face
	sb.WriteString(" 1 " + plyB01(fe.short) + " " + fe.cntTy + " " + fe.idxTy + " " + plyB01(fe.idxAlias) + " " + plyB01(fe.hasTex))
	if fe.hasTex {
		sb.WriteString(" " + fe.texCnt + " " + fe.texItem)
	}
	fmt.Fprintf(sb, " %s %d %d", plyB01(fe.texFirst), fe.extra, len(fe.faces))
	for _, fc := range fe.faces {
		fmt.Fprintf(sb, " %d", len(fc.verts))
		for _, v := range fc.verts {
			fmt.Fprintf(sb, " %d", v)
		}
		fmt.Fprintf(sb, " %d", len(fc.uv))
		for _, v := range fc.uv {
			sb.WriteString(" " + F(v))
		}
		fmt.Fprintf(sb, " %d", len(fc.extra))
		for _, v := range fc.extra {
			fmt.Fprintf(sb, " %d", v)
		}
	}
	return sb.String()
}

// ---- independent reference encoder (PLY specification) -----------------------------------------------------------

type plyListDecl struct {
	kind      int // 0 indices 1 texcoord 2 extra
	name      string
	cnt, item string
	alias     bool
}

func (fe *plySpecFaceElem) lists() []plyListDecl {
	name := "vertex_indices"
	if fe.short {
		name = "vertex_index"
	}
	idx := plyListDecl{0, name, fe.cntTy, fe.idxTy, fe.idxAlias}
	core := []plyListDecl{idx}
	if fe.hasTex {
		tex := plyListDecl{1, "texcoord", fe.texCnt, fe.texItem, false}
		if fe.texFirst {
			core = []plyListDecl{tex, idx}
		} else {
			core = []plyListDecl{idx, tex}
		}
	}
	ex := plyListDecl{2, "flags", "uchar", "int", false}
	switch fe.extra {
	case 1:
		return append([]plyListDecl{ex}, core...)
	case 2:
		return append(core, ex)
	}
	return core
}

func plyRefEncode(s plySpec) []byte {
	buf := &bytes.Buffer{}
	eol := "\n"
	if s.crlf {
		eol = "\r\n"
	}
	line := func(words ...string) { buf.WriteString(strings.Join(words, " ") + eol) }
	items := func(its []plyHItem) {
		for _, it := range its {
			if it.obj {
				line("obj_info", it.text)
			} else {
				line("comment", it.text)
			}
		}
	}
	line("ply")
	line("format", map[string]string{"ascii": "ascii", "le": "binary_little_endian", "be": "binary_big_endian"}[s.format], "1.0")
	items(s.pre)
	line("element", "vertex", strconv.Itoa(len(s.verts)))
	for _, p := range s.vprops {
		line("property", plyTypeName(p.ty, p.alias), p.name)
	}
	items(s.mid)
	if s.face != nil {
		line("element", "face", strconv.Itoa(len(s.face.faces)))
		for _, l := range s.face.lists() {
			line("property", "list", l.cnt, plyTypeName(l.item, l.alias), l.name)
		}
	}
	items(s.post)
	line("end_header")

	if s.format == "ascii" {
		dec := func(v float64) string { return strconv.FormatFloat(v, 'f', -1, 64) }
		for _, r := range s.verts {
			words := []string{}
			for k, v := range r {
				switch s.vprops[k].ty {
				case "uchar", "int":
					words = append(words, strconv.FormatInt(int64(v), 10))
				default:
					words = append(words, dec(v))
				}
			}
			buf.WriteString(strings.Join(words, " ") + "\n")
		}
		if s.face != nil {
			for _, fc := range s.face.faces {
				words := []string{}
				for _, l := range s.face.lists() {
					switch l.kind {
					case 0:
						words = append(words, strconv.Itoa(len(fc.verts)))
						for _, v := range fc.verts {
							words = append(words, strconv.Itoa(v))
						}
					case 1:
						words = append(words, strconv.Itoa(len(fc.uv)))
						for _, v := range fc.uv {
							words = append(words, dec(v))
						}
					default:
						words = append(words, strconv.Itoa(len(fc.extra)))
						for _, v := range fc.extra {
							words = append(words, strconv.Itoa(v))
						}
					}
				}
				buf.WriteString(strings.Join(words, " ") + "\n")
			}
		}
		return buf.Bytes()
	}

	var bo binary.ByteOrder = binary.LittleEndian
	if s.format == "be" {
		bo = binary.BigEndian
	}
	putInt := func(t string, n int) {
		if t == "uchar" {
			buf.WriteByte(byte(n))
			return
		}
		var b [4]byte
		bo.PutUint32(b[:], uint32(int32(n)))
		buf.Write(b[:])
	}
	putF := func(t string, v float64) {
		if t == "double" {
			var b [8]byte
			bo.PutUint64(b[:], math.Float64bits(v))
			buf.Write(b[:])
			return
		}
		var b [4]byte
		bo.PutUint32(b[:], math.Float32bits(float32(v)))
		buf.Write(b[:])
	}
	for _, r := range s.verts {
		for k, v := range r {
			switch t := s.vprops[k].ty; t {
			case "uchar", "int":
				putInt(t, int(v))
			default:
				putF(t, v)
			}
		}
	}
	if s.face != nil {
		for _, fc := range s.face.faces {
			for _, l := range s.face.lists() {
				switch l.kind {
				case 0:
					putInt(l.cnt, len(fc.verts))
					for _, v := range fc.verts {
						putInt(l.item, v)
					}
				case 1:
					putInt(l.cnt, len(fc.uv))
					for _, v := range fc.uv {
						putF(l.item, v)
					}
				default:
					putInt(l.cnt, len(fc.extra))
					for _, v := range fc.extra {
						putInt(l.item, v)
					}
				}
			}
		}
	}
	return buf.Bytes()
}

// ---- generator ----------------------------------------------------------------------------------------------------

func (c *Ctx) plyNice() float64 {
	k := c.Rng.Intn(1<<13) - (1 << 12)
	if k == 0 {
		k = 3
	}
	switch c.Rng.Intn(3) {
	case 0:
		return float64(k)
	case 1:
		return float64(k) / 8
	}
	return float64(k) / 64
}

// a value of the declared type that the format stores exactly (so that "the value of record i" is unambiguous)
func (c *Ctx) plySpecVal(format, ty string) float64 {
	switch ty {
	case "uchar":
		return float64(c.Rng.Intn(256))
	case "int":
		switch c.Rng.Intn(4) {
		case 0:
			return float64(c.Rng.Intn(1<<21) - (1 << 20))
		}
		return float64(c.Rng.Intn(201) - 100)
	case "float":
		if format != "ascii" && c.Rng.Intn(2) == 0 {
			return float64(float32((c.Rng.Float64()*2 - 1) * 1000))
		}
		if format == "ascii" && plySpecLongDecimals {
			// float32 bit patterns across exponents −30..+10: many significant digits, small magnitudes
			e := c.Rng.Intn(41) - 30
			bits := uint32(c.Rng.Intn(2))<<31 | uint32(127+e)<<23 | uint32(c.Rng.Intn(1<<23))
			return float64(math.Float32frombits(bits))
		}
		return c.plyNice()
	default: // double
		if format != "ascii" && c.Rng.Intn(2) == 0 {
			return (c.Rng.Float64()*2 - 1) * 1e6
		}
		return c.plyNice()
	}
}

func (c *Ctx) plyComment() string {
	words := []string{"made", "by", "tool", "v1.2", "comment", "element", "property", "x", "TextureFile", "a.png", "end_header.", "1.0", "#"}
	n := 1 + c.Rng.Intn(4)
	out := make([]string, n)
	for i := range out {
		out[i] = words[c.Rng.Intn(len(words))]
	}
	return strings.Join(out, " ")
}

func (c *Ctx) plyItems(max int) []plyHItem {
	n := 0
	if c.Rng.Intn(2) == 0 {
		n = 1 + c.Rng.Intn(max)
	}
	out := make([]plyHItem, n)
	for i := range out {
		out[i] = plyHItem{c.Rng.Intn(3) == 0, c.plyComment()}
	}
	return out
}

var plySpecLongDecimals bool

func (c *Ctx) plySpecGen() plySpec {
	s := plySpec{format: []string{"ascii", "le", "be"}[c.Rng.Intn(3)], crlf: c.Rng.Intn(3) == 0}
	s.longDecimals = s.format == "ascii" && c.Rng.Intn(3) == 0
	plySpecLongDecimals = s.longDecimals
	defer func() { plySpecLongDecimals = false }()
	s.pre, s.mid, s.post = c.plyItems(3), c.plyItems(2), c.plyItems(2)
	vecTy := func() string { return []string{"float", "float", "double", "int", "uchar"}[c.Rng.Intn(5)] }
	addGroup := func(names []string, ty string) {
		for _, n := range names {
			s.vprops = append(s.vprops, plySpecProp{n, ty, c.Rng.Intn(3) == 0})
		}
	}
	if c.Rng.Intn(10) != 0 {
		addGroup([][]string{{"x", "y", "z"}, {"px", "py", "pz"}, {"posx", "posy", "posz"}}[c.Rng.Intn(3)], []string{"float", "float", "double", "int"}[c.Rng.Intn(4)])
		c.Note("group:position")
	} else if c.Rng.Intn(2) == 0 {
		addGroup([]string{"x", "y"}, "float") // partial group: stays scalar
		c.Note("group:partial-position")
	}
	if c.Rng.Intn(2) == 0 {
		addGroup([][]string{{"nx", "ny", "nz"}, {"normalx", "normaly", "normalz"}}[c.Rng.Intn(2)], vecTy())
		c.Note("group:normal")
	}
	switch c.Rng.Intn(5) {
	case 0, 1:
		addGroup([][]string{{"red", "green", "blue"}, {"r", "g", "b"}, {"diffuse_red", "diffuse_green", "diffuse_blue"}}[c.Rng.Intn(3)], []string{"uchar", "uchar", "float"}[c.Rng.Intn(3)])
		c.Note("group:rgb")
	case 2:
		addGroup([][]string{{"red", "green", "blue", "alpha"}, {"r", "g", "b", "a"}, {"diffuse_red", "diffuse_green", "diffuse_blue", "diffuse_alpha"}}[c.Rng.Intn(3)], []string{"uchar", "uchar", "float"}[c.Rng.Intn(3)])
		c.Note("group:rgba")
	case 3:
		if c.Rng.Intn(3) == 0 {
			addGroup([]string{"alpha"}, "float") // alpha without rgb: scalar
			c.Note("group:alpha-only")
		}
	}
	if c.Rng.Intn(4) == 0 {
		// (uchar s/t is left out: vector2.DivByConstant multiplies by 1/255 instead of dividing, 1 ulp off b/255)
		addGroup([]string{"s", "t"}, []string{"float", "float", "double", "int"}[c.Rng.Intn(4)])
		c.Note("group:st")
	}
	if c.Rng.Intn(5) == 0 {
		if c.Rng.Intn(2) == 0 {
			addGroup([]string{"f_dc_0", "f_dc_1", "f_dc_2"}, "float")
		}
		if c.Rng.Intn(2) == 0 {
			addGroup([]string{"opacity"}, "float")
		}
		if c.Rng.Intn(2) == 0 {
			addGroup([]string{"scale_0", "scale_1", "scale_2"}, "float")
		}
		if c.Rng.Intn(2) == 0 {
			addGroup([]string{"rot_0", "rot_1", "rot_2", "rot_3"}, "float")
		}
		c.Note("group:splat")
	}
	nExtra := c.Rng.Intn(4)
	seen := map[string]bool{}
	for k := 0; k < nExtra; k++ {
		n := c.plyUserName()
		if seen[n] {
			continue
		}
		seen[n] = true
		ty := []string{"float", "double", "int", "uchar"}[c.Rng.Intn(4)]
		if ty == "uchar" && s.format == "ascii" {
			ty = "int" // 8-bit unrecognised scalars in ASCII: known finding, has its own witness
		}
		addGroup([]string{n}, ty)
		c.Note("extra-scalar:" + ty)
	}
	// any permutation of the properties
	switch c.Rng.Intn(3) {
	case 0:
	default:
		c.Rng.Shuffle(len(s.vprops), func(i, j int) { s.vprops[i], s.vprops[j] = s.vprops[j], s.vprops[i] })
		c.Note("props:permuted")
	}
	nv := []int{0, 1, 2, 3, 3, 4, 5, 8, 17}[c.Rng.Intn(9)]
	// "as many vertices as fan corners, textured, index lists not 0..n-1": a reader that takes such a file for already
	// unwelded puts the per-corner texture coordinates on the wrong corners
	var cornerShapes []int
	if len(s.vprops) > 0 && c.Rng.Intn(6) == 0 {
		nv = 0
		for i := 1 + c.Rng.Intn(3); i > 0; i-- {
			k := 3 + c.Rng.Intn(2)
			cornerShapes = append(cornerShapes, k)
			nv += 3 * (k - 2)
		}
		c.Note("file:vertex-count=corner-count+texcoord")
	}
	if len(s.vprops) == 0 {
		nv = 0
	}
	for i := 0; i < nv; i++ {
		r := make([]float64, len(s.vprops))
		for k, p := range s.vprops {
			r[k] = c.plySpecVal(s.format, p.ty)
		}
		s.verts = append(s.verts, r)
	}
	if nv > 0 && (cornerShapes != nil || c.Rng.Intn(3) != 0) {
		fe := &plySpecFaceElem{short: c.Rng.Intn(2) == 0, cntTy: []string{"uchar", "uchar", "int", "uint"}[c.Rng.Intn(4)],
			idxTy: []string{"int", "uint"}[c.Rng.Intn(2)], idxAlias: c.Rng.Intn(3) == 0, hasTex: c.Rng.Intn(3) == 0,
			texCnt: []string{"uchar", "int", "uint"}[c.Rng.Intn(3)], texItem: "float", texFirst: c.Rng.Intn(2) == 0}
		if c.Rng.Intn(3) == 0 {
			fe.extra = 1 + c.Rng.Intn(2)
		}
		nf := 1 + c.Rng.Intn(5)
		if c.Rng.Intn(8) == 0 {
			nf = 0 // `element face 0`: the vertices are kept
			c.Note("face:none-declared-zero")
		}
		var perm []int
		if cornerShapes != nil {
			fe.hasTex = true
			nf = len(cornerShapes)
			perm = c.Rng.Perm(nv)
		}
		uvTag := 0
		for i := 0; i < nf; i++ {
			k := 3 + c.Rng.Intn(2)
			if cornerShapes != nil {
				k = cornerShapes[i]
			}
			fc := plySpecFace{}
			for j := 0; j < k; j++ {
				if perm != nil && c.Rng.Intn(4) != 0 {
					fc.verts = append(fc.verts, perm[(i*4+j)%nv]) // mostly distinct vertices, in another order
				} else {
					fc.verts = append(fc.verts, c.Rng.Intn(nv))
				}
			}
			if fe.hasTex {
				for j := 0; j < 2*k; j++ {
					uvTag++ // distinct per corner: a texture coordinate on the wrong corner is visible
					fc.uv = append(fc.uv, float64(uvTag)/64+float64(c.Rng.Intn(4)))
				}
			}
			if fe.extra != 0 {
				n := c.Rng.Intn(4)
				if c.Rng.Intn(3) == 0 {
					// long unrecognised lists: a uchar count holds 0…255 (126 … 129, 200, 255: around the signed limit)
					n = []int{126, 127, 128, 129, 200, 255, 128 + c.Rng.Intn(128)}[c.Rng.Intn(7)]
					c.Note("face:extra-list-long")
				}
				for j := n; j > 0; j-- {
					fc.extra = append(fc.extra, c.Rng.Intn(2001)-1000)
				}
			}
			if k == 4 {
				c.Note("face:quad")
			} else {
				c.Note("face:tri")
			}
			fe.faces = append(fe.faces, fc)
		}
		if fe.hasTex {
			c.Note("face:texcoord")
		}
		s.face = fe
	}
	c.Note("format:" + s.format)
	if s.crlf {
		c.Note("header:crlf")
	}
	return s
}

func (c *Ctx) plySpecCase(s plySpec, holdsOp string) { c.plySpecCaseEP(s, holdsOp, true) }

func (c *Ctx) plySpecCaseEP(s plySpec, holdsOp string, fullEntries bool) {
	data := plyRefEncode(s)
	st := plySpecTok(s)
	if s.longDecimals {
		// the Lean reference encoder prints exact decimal expansions, this one the shortest round-trip text: same
		// numbers, different bytes — the encoder cross-check is left out, everything else is evaluated
		c.Note("encode-line-skipped(long decimals)")
	} else {
		c.Emit("c08.encode", st, plyHx(data))
	}
	c.plySpecFile(st, data, holdsOp, fullEntries)
	if holdsOp == "c08.holds.meaning" {
		// header only: the claim stage builds readers with exactly the (arity, attribute) keys of `meaning` (Props/C08Claim.lean)
		c.Emit("c08.holds.claim_keys", st, "true")
	}
	c.plyHeaderCuts("c08.holds.header_cut_rejected", data)
	// the same ASCII file as other tools end it: last record without line terminator, CR LF line ends in the body, a lone CR
	// at the end, a blank line at the end — the file describes the same mesh
	if s.format == "ascii" && c.Rng.Intn(2) == 0 {
		if v, name := plyAsciiTailVariant(data, c.Rng.Intn(10)); v != nil {
			c.Note("ascii-tail:" + name)
			c.plySpecFile(st, v, holdsOp, false)
		}
	}
}

// header / read correspondences, the meaning oracle and the entry points for one file that encodes the specification `st`
func (c *Ctx) plySpecFile(st string, data []byte, holdsOp string, fullEntries bool) {
	c.Emit("c08.header", plyHx(data), plyImplReadHeader(data))
	rs, _ := plyImplReadMesh(data)
	c.Emit("c08.read", plyHx(data), rs)
	c.Emit(holdsOp, st+" "+rs, "true")
	// the file loads to the same mesh through every public entry point and reader type
	c.Emit("c08.holds.entrypoints_agree", rs+" | "+plyEntryResults(data, fullEntries), "true")
	c.Emit("c08.holds.header_entrypoints_agree", plyHeaderEntryResults(data), "true")
}

// an ASCII file with a non-empty body, its body re-terminated the way other tools do (nil: no body to vary)
func plyAsciiTailVariant(data []byte, k int) ([]byte, string) {
	end := plyEndHeaderAt(data)
	if end < 0 {
		return nil, ""
	}
	nl := bytes.IndexByte(data[end:], '\n')
	if nl < 0 {
		return nil, ""
	}
	hdr, body := data[:end+nl+1], data[end+nl+1:]
	if len(body) == 0 || body[len(body)-1] != '\n' {
		return nil, ""
	}
	crlf := bytes.ReplaceAll(body, []byte("\n"), []byte("\r\n"))
	var b []byte
	var name string
	switch k {
	case 0:
		b, name = body[:len(body)-1], "no-final-newline"
	case 1:
		b, name = crlf, "crlf"
	case 2:
		b, name = crlf[:len(crlf)-2], "crlf-no-final-newline"
	case 3:
		b, name = crlf[:len(crlf)-1], "crlf-final-cr-only"
	case 4:
		b, name = append(append([]byte{}, body...), '\n'), "blank-last-line"
	default:
		// EMPTY lines inside the body (both the vertex and the face loop skip them): after every line / before the body
		// and after the first line / after a random line (between the blocks, between two vertex or two face lines),
		// as LF or CR LF blank lines
		lines := bytes.SplitAfter(body, []byte("\n"))
		lines = lines[:len(lines)-1] // (the piece after the final LF is empty)
		blank := []byte("\n")
		if k%2 == 1 {
			blank = []byte("\r\n")
		}
		name = map[int]string{5: "blank-after-every-line(crlf)", 6: "blank-before-body-and-after-first", 7: "blank-after-half-of-the-lines(crlf)",
			8: "blank-after-every-line", 9: "two-blanks-before-last-line(crlf)"}[k]
		for i, l := range lines {
			switch k {
			case 6:
				if i == 0 {
					b = append(b, blank...)
				}
			case 9:
				if i == len(lines)-1 {
					b = append(append(b, blank...), blank...)
				}
			}
			b = append(b, l...)
			switch k {
			case 5, 8:
				b = append(b, blank...)
			case 6:
				if i == 0 {
					b = append(b, blank...)
				}
			case 7:
				if (i*7+len(lines))%2 == 0 {
					b = append(b, blank...)
				}
			}
		}
	}
	return append(append([]byte{}, hdr...), b...), name
}

// a BINARY file whose last byte has the value of a white space character (0x09–0x0D, 0x20): the end of a binary file is
// data — last face index 9…13 / 32 (big-endian), last colour byte, last byte of a float
func (c *Ctx) plySpecWsTail(kind int) plySpec {
	ws := []int{9, 10, 11, 12, 13, 32}
	w := ws[c.Rng.Intn(len(ws))]
	xyz := []plySpecProp{{"x", "float", false}, {"y", "float", false}, {"z", "float", false}}
	switch kind {
	case 0: // big-endian, the last corner of the last face is vertex w
		s := plySpec{format: "be", vprops: xyz}
		for i := 0; i < 33+c.Rng.Intn(4); i++ {
			s.verts = append(s.verts, []float64{float64(i), float64(i) / 8, -float64(i)})
		}
		fe := &plySpecFaceElem{cntTy: "uchar", idxTy: "int", short: c.Rng.Intn(2) == 0}
		for f := 1 + c.Rng.Intn(3); f > 0; f-- {
			fe.faces = append(fe.faces, plySpecFace{verts: []int{c.Rng.Intn(33), c.Rng.Intn(33), c.Rng.Intn(33)}})
		}
		fe.faces[len(fe.faces)-1].verts[2] = w
		s.face = fe
		return s
	case 1: // either endianness, a record ending in uchar red green blue, the last vertex has blue = w
		s := plySpec{format: []string{"le", "be"}[c.Rng.Intn(2)], vprops: append(append([]plySpecProp{}, xyz...),
			plySpecProp{"red", "uchar", false}, plySpecProp{"green", "uchar", false}, plySpecProp{"blue", "uchar", false})}
		for i := 0; i < 1+c.Rng.Intn(5); i++ {
			s.verts = append(s.verts, []float64{float64(i), 2, 3, float64(c.Rng.Intn(256)), float64(c.Rng.Intn(256)), float64(c.Rng.Intn(256))})
		}
		s.verts[len(s.verts)-1][5] = float64(w)
		return s
	default: // big-endian float whose lowest mantissa byte is w; little-endian float whose highest byte is w (tiny value)
		s := plySpec{format: []string{"le", "be"}[c.Rng.Intn(2)], vprops: xyz}
		for i := 0; i < 1+c.Rng.Intn(4); i++ {
			s.verts = append(s.verts, []float64{float64(i), 2, 3})
		}
		bits := uint32(0x3f800000) | uint32(c.Rng.Intn(1<<15))<<8 | uint32(w)
		if s.format == "le" {
			bits = uint32(w)<<24 | uint32(c.Rng.Intn(1<<24))
		}
		s.verts[len(s.verts)-1][2] = float64(math.Float32frombits(bits))
		return s
	}
}

// a large file with values tagged by the vertex number, so that a displaced, repeated or dropped record is visible:
// sizes cross internal batch / buffer boundaries (4096 records, 4096 and 65536 bytes)
func (c *Ctx) plySpecLarge(format string, nv, nf int) plySpec {
	s := plySpec{format: format, crlf: c.Rng.Intn(2) == 0, pre: []plyHItem{{false, "large file"}}}
	s.vprops = []plySpecProp{{"x", "float", false}, {"y", "float", false}, {"z", "float", false}, {"tag", "int", c.Rng.Intn(2) == 0}}
	if c.Rng.Intn(2) == 0 {
		s.vprops = append(s.vprops, plySpecProp{"red", "uchar", false}, plySpecProp{"green", "uchar", false}, plySpecProp{"blue", "uchar", false})
	}
	if c.Rng.Intn(2) == 0 {
		s.vprops = append(s.vprops, plySpecProp{"w", "double", false})
	}
	c.Rng.Shuffle(len(s.vprops), func(i, j int) { s.vprops[i], s.vprops[j] = s.vprops[j], s.vprops[i] })
	for i := 0; i < nv; i++ {
		r := make([]float64, len(s.vprops))
		for k, p := range s.vprops {
			switch p.name {
			case "x":
				r[k] = float64(i)
			case "y":
				r[k] = float64(i) / 8
			case "z":
				r[k] = -float64(i) - 0.5
			case "tag":
				r[k] = float64(i + 1)
			case "red":
				r[k] = float64(i % 256)
			case "green":
				r[k] = float64((i / 256) % 256)
			case "blue":
				r[k] = float64((i * 7) % 256)
			default:
				r[k] = float64(i)*0.25 + 1
			}
		}
		s.verts = append(s.verts, r)
	}
	if nf > 0 {
		fe := &plySpecFaceElem{short: c.Rng.Intn(2) == 0, cntTy: []string{"uchar", "int", "uint"}[c.Rng.Intn(3)],
			idxTy: []string{"int", "uint"}[c.Rng.Intn(2)], hasTex: c.Rng.Intn(3) == 0, texCnt: []string{"uchar", "int"}[c.Rng.Intn(2)],
			texItem: "float", texFirst: c.Rng.Intn(2) == 0}
		if format == "be" {
			fe.cntTy = []string{"int", "uint"}[c.Rng.Intn(2)] // big-endian 4-byte list counts
		}
		for i := 0; i < nf; i++ {
			k := 3 + c.Rng.Intn(2)
			fc := plySpecFace{}
			for j := 0; j < k; j++ {
				fc.verts = append(fc.verts, c.Rng.Intn(nv))
			}
			if fe.hasTex {
				for j := 0; j < 2*k; j++ {
					fc.uv = append(fc.uv, float64((i*8+j)%4096)/64)
				}
			}
			fe.faces = append(fe.faces, fc)
		}
		s.face = fe
	}
	c.Note(fmt.Sprintf("large:%s:nv=%d:nf=%d", format, nv, nf))
	return s
}

func runC08(c *Ctx) {
	// witnesses of findings on the unchanged tree (each under its own op name; expected false until fixed / listed)
	xyz := []plySpecProp{{"x", "float", false}, {"y", "float", false}, {"z", "float", false}}
	c.plySpecCase(plySpec{format: "ascii", vprops: append(append([]plySpecProp{}, xyz...), plySpecProp{"intensity", "uchar", false}),
		verts: [][]float64{{1, 2, 3, 128}, {4, 5, 6, 255}}}, "c08.holds.uchar_scalar_ascii_witness")
	c.plySpecCase(plySpec{format: "le", vprops: []plySpecProp{{"x", "float", false}, {"y", "float", false}, {"z", "double", false}},
		verts: [][]float64{{1, 2, 3}, {4, 5, 6}}}, "c08.holds.mixed_type_group_witness")
	c.plySpecCase(plySpec{format: "ascii", vprops: append(append([]plySpecProp{}, xyz...), plySpecProp{"id", "int", false}, plySpecProp{"w", "double", false}),
		verts: [][]float64{{1, 2, 3, 16777217, 16777217.5}}}, "c08.holds.ascii_precision_witness")
	c.plySpecCase(plySpec{format: "le", vprops: xyz, verts: [][]float64{{1, 2, 3}, {4, 5, 6}},
		face: &plySpecFaceElem{cntTy: "uchar", idxTy: "int"}}, "c08.holds.meaning") // corpus case: `element face 0` (fixed by b4c6223)
	defer plyTmpCleanup()
	// sizes that cross plausible internal boundaries (4096-record batches, 4096 / 65536-byte buffers)
	type large struct {
		format string
		nv, nf int
	}
	larges := []large{{"le", 4097, 0}, {"be", 5000, 1500}, {"ascii", 4200, 900}, {"le", 8193, 2500}}
	if c.Tier == "thorough" {
		for _, f := range []string{"ascii", "le", "be"} {
			for _, nv := range []int{4095, 4096, 4097, 5000, 8193, 10001} {
				larges = append(larges, large{f, nv, []int{0, 1200, 3000}[c.Rng.Intn(3)]})
			}
		}
		larges = append(larges, large{"le", 70000, 0}, large{"be", 20000, 12000})
	}
	for _, l := range larges {
		c.plySpecCaseEP(c.plySpecLarge(l.format, l.nv, l.nf), "c08.holds.meaning", false)
	}
	// ASCII body line-end conventions of other tools (every variant once on a fixed file, then at random in the loop) and
	// binary files whose last byte has a white-space value
	{
		s := plySpec{format: "ascii", vprops: xyz, verts: [][]float64{{1, 2, 3}, {4, 5, 6}, {7, 8, 9.5}},
			face: &plySpecFaceElem{cntTy: "uchar", idxTy: "int", faces: []plySpecFace{{verts: []int{0, 1, 2}}, {verts: []int{2, 1, 0}}}}}
		data := plyRefEncode(s)
		for k := 0; k < 10; k++ {
			v, name := plyAsciiTailVariant(data, k)
			c.Note("ascii-tail:" + name)
			c.plySpecFile(plySpecTok(s), v, "c08.holds.meaning", k == 0)
		}
		s.face = nil
		data = plyRefEncode(s)
		for k := 0; k < 10; k++ {
			v, _ := plyAsciiTailVariant(data, k)
			c.plySpecFile(plySpecTok(s), v, "c08.holds.meaning", false)
		}
	}
	nTail := 6
	if c.Tier == "thorough" {
		nTail = 60
	}
	for k := 0; k < nTail; k++ {
		c.Note("binary-tail:white-space-byte")
		c.plySpecCaseEP(c.plySpecWsTail(k%3), "c08.holds.meaning", k < 3)
	}
	for k := 0; k < c.N; k++ {
		c.plySpecCaseEP(c.plySpecGen(), "c08.holds.meaning", k%4 == 0)
	}
	// round 2: every count / index type × format × extra-list position once per run, and faces of unsupported sizes (c08_mesh.go)
	c.plyMeshSweep()
	c.plyMeshTexSweep()
	// after C08-m16 / C08-m17 were missed: counts on block boundaries; degenerate comment / obj_info lines (c08_degen.go)
	c.plyBlockBoundaryFiles()
	c.plyDegenerateHeaderLines()
	// header parser, error and glue branches (model vs ply.ReadHeader / ply.ReadMesh): fixed variants …
	for _, h := range plyHeaderVariants {
		data := []byte(h)
		c.Emit("c08.header", plyHx(data), plyImplReadHeader(data))
		rs, _ := plyImplReadMesh(data)
		c.Emit("c08.read", plyHx(data), rs)
		c.Note("header-variant")
	}
	// … and single-token / single-line mutations of generated files
	for k := 0; k < c.N/2; k++ {
		data := plyRefEncode(c.plySpecGen())
		end := bytes.Index(data, []byte("end_header"))
		if end < 0 {
			continue
		}
		lines := strings.SplitAfter(string(data[:end]), "\n")
		i := c.Rng.Intn(len(lines))
		switch c.Rng.Intn(6) {
		case 0:
			lines = append(lines[:i], lines[i+1:]...) // drop a line
		case 1:
			lines = append(lines[:i+1], lines[i:]...) // duplicate a line
		case 2:
			lines[i] = strings.Replace(lines[i], " ", "  \t", 1) // extra white space between words
		case 3:
			lines[i] = strings.ToUpper(lines[i]) // keywords / types / names in upper case
		case 4:
			ws := strings.Fields(lines[i])
			if len(ws) > 1 {
				j := c.Rng.Intn(len(ws))
				ws = append(ws[:j], ws[j+1:]...) // drop a word
				lines[i] = strings.Join(ws, " ") + "\n"
			}
		default:
			lines[i] = "\n" + lines[i] // blank line
		}
		mut := append([]byte(strings.Join(lines, "")), data[end:]...)
		c.Emit("c08.header", plyHx(mut), plyImplReadHeader(mut))
		rs, _ := plyImplReadMesh(mut)
		c.Emit("c08.read", plyHx(mut), rs)
		c.Note("header-mutation:" + rs[:2])
	}
}

var plyHeaderVariants = []string{
	// ASCII number texts at the edges of strconv.ParseFloat(s, 32): the nearest double is an exact float32 half-way value
	// but the text is not (rounded ONCE: up / down), the exact half-way text (ties to even), half the smallest subnormal,
	// the overflow edge (largest text that still rounds to MaxFloat32, the first that is "out of range": an error)
	// (every ASCII reader kind: 3-vector x y z, 2-vector s t, 4-vector rot_*, scalars of type double / int)
	"ply\nformat ascii 1.0\nelement vertex 6\nproperty float x\nproperty float y\nproperty float z\nproperty double s\nproperty double t\n" +
		"property float rot_0\nproperty float rot_1\nproperty float rot_2\nproperty float rot_3\nproperty double w\nproperty int k\nend_header\n" +
		"1.0000000596046448 1.000000059604644775390625 7.0064923216240854e-46 3.4028235677973366e38 16777217 0.1 1.0000000596046447 -1.0000000596046448 7.0064923216240853e-46 340282346638528859811704183484516925440 16777217\n" +
		"-1.0000000596046448 7.0064923216240853e-46 340282346638528859811704183484516925440 16777219 1.0000000596046448 1.000000059604644775390625 7.0064923216240854e-46 3.4028235677973366e38 16777217 0.1 16777219\n" +
		"3.4028235677973366e38 16777217 0.1 1.0000000596046447 -1.0000000596046448 7.0064923216240853e-46 340282346638528859811704183484516925440 16777219 1.0000000596046448 1.000000059604644775390625 16777221\n" +
		"16777219 1.0000000596046448 1.000000059604644775390625 7.0064923216240854e-46 3.4028235677973366e38 16777217 0.1 1.0000000596046447 -1.0000000596046448 7.0064923216240853e-46 16777223\n" +
		"1.0000000596046447 -1.0000000596046448 7.0064923216240853e-46 340282346638528859811704183484516925440 16777219 1.0000000596046448 1.000000059604644775390625 7.0064923216240854e-46 3.4028235677973366e38 16777217 16777225\n" +
		"7.0064923216240854e-46 3.4028235677973366e38 16777217 0.1 1.0000000596046447 -1.0000000596046448 7.0064923216240853e-46 340282346638528859811704183484516925440 16777219 1.0000000596046448 16777227\n",
	// the ASCII list reader parses texture coordinates with bit size 64 (a `float` list keeps double precision in ASCII)
	"ply\nformat ascii 1.0\nelement vertex 3\nproperty float x\nproperty float y\nproperty float z\nelement face 1\nproperty list uchar int vertex_indices\n" +
		"property list uchar float texcoord\nend_header\n0 0 0\n1 0 0\n0 1 0\n3 0 1 2 6 0.1 0.2 0.3 1.0000000596046448 0.7 1e-46\n",
	"ply\nformat ascii 1.0\nelement vertex 1\nproperty float x\nend_header\n3.4028235677973367e38\n",
	"ply\nformat ascii 1.0\nelement vertex 1\nproperty double x\nend_header\n1e39\n",
	"ply\nformat ascii 1.0\nelement vertex 1\nproperty float x\nend_header\n-340282356779733661637539395458142568448\n",
	// foreign-tool shapes: unknown elements before / after vertex, list property inside vertex, tabs and runs of blanks,
	// upper-case keywords, obj_info between properties, blank lines, CR-only noise, count forms
	"ply\nformat binary_little_endian 1.0\nelement material 0\nproperty uchar r\nelement vertex 1\nproperty float x\nelement edge 0\nproperty int v1\nend_header\n\x00\x00\x80\x3f",
	"ply\nformat ascii 1.0\nelement vertex 1\nproperty float x\nproperty list uchar int neighbours\nend_header\n1 0\n", // list property in vertex
	"ply\nformat   ascii\t1.0\nelement\tvertex   1\nproperty\t float \t x\nend_header\n7\n",
	"ply\nFORMAT ascii 1.0\nelement vertex 0\nend_header\n",
	"ply\nformat ASCII 1.0\nelement vertex 0\nend_header\n",
	"ply\nformat ascii 1.0\nELEMENT vertex 1\nproperty float x\nend_header\n1\n",
	"ply\nformat ascii 1.0\nelement vertex 1\nPROPERTY float x\nend_header\n1\n",
	"ply\nformat ascii 1.0\nelement vertex 1\nproperty float x\nobj_info between\nproperty float y\n\n\nend_header\n1 2\n",
	"ply\nformat ascii 1.0\nelement vertex +1\nproperty float x\nend_header\n1\n",
	"ply\nformat ascii 1.0\nelement vertex 01\nproperty float x\nend_header\n1\n",
	"ply\nformat ascii 1.0\nelement vertex -1\nend_header\n",
	"ply\nformat ascii 1.0\nelement vertex 1.0\nend_header\n",
	"ply\nformat ascii 1.0\nelement vertex 99999999999999999999\nend_header\n",
	"ply\nformat ascii 1.0\nelement vertex 0\nEND_HEADER\nend_header\n",
	"ply\nformat ascii 1.0\nelement vertex 0\n end_header\nend_header\n",
	"ply\nformat ascii 1.0\nelement vertex 0\nend_header",  // no LF after end_header
	"ply\nformat ascii 1.0\nelement vertex 0\n",            // no end_header at all
	"ply\rformat ascii 1.0\relement vertex 0\rend_header\r", // CR only: one long line
	"\nply\nformat ascii 1.0\nend_header\n",
	"ply\ncomment before format\nformat ascii 1.0\nend_header\n",
	"ply\nformat ascii 1.0\ncommentary x\ncomment\ncomment\tTabbed  text \nelement vertex 0\nend_header\n",
	"ply\nformat ascii 1.0\nelement vertex 1\nproperty  Float32  X\nproperty\tUINT8\tq\nend_header\n1 2\n",
	"ply\nformat ascii 1.0\nelement vertex 1\nproperty float x\nend_header\n1\n",
	"plY\nformat ascii 1.0\nend_header\n",
	"ply \nformat ascii 1.0\nend_header\n",
	"ply\r\nformat ascii 1.0\r\nelement vertex 0\r\nend_header\r\n",
	"ply\n\n\nformat ascii 1.0\nelement vertex 0\nend_header\n",
	"ply\nformat ascii 2.0\nend_header\n",
	"ply\nformat binary 1.0\nend_header\n",
	"ply\nformat ascii\nend_header\n",
	"ply\nformatt ascii 1.0\nend_header\n",
	"ply\nformat ascii 1.0\nproperty float x\nend_header\n",                          // property before any element: panic
	"ply\nformat ascii 1.0\nelement vertex 1\nproperty\nend_header\n",                  // contents[1] out of range: panic
	"ply\nformat ascii 1.0\nelement vertex 1\nproperty half x\nend_header\n1\n",        // unknown type: panic
	"ply\nformat ascii 1.0\nelement vertex 1\nproperty float x y\nend_header\n1\n",     // ill-formatted scalar
	"ply\nformat ascii 1.0\nelement vertex 1\nproperty list uchar int\nend_header\n",   // ill-formatted list
	"ply\nformat ascii 1.0\nelement vertex one\nend_header\n",
	"ply\nformat ascii 1.0\nelement vertex\nend_header\n",
	"ply\nformat ascii 1.0\nelement VERTEX 1\nproperty FLOAT X\nend_header\n2.5\n",     // element name / type lowered, property name kept
	"ply\nformat ascii 1.0\nelement vertex 1\nproperty LIST UCHAR INT Vertex_Indices\nend_header\n",
	"ply\nformat ascii 1.0\nelement point 1\nproperty float x\nend_header\n1\n",        // no vertex element
	"ply\nformat ascii 1.0\ncomment   spaced   out  \n  comment indented comment\nelement vertex 0\nend_header\n",
	"ply\nformat ascii 1.0\nelement vertex 1\nproperty float x\nend_header \n1\n",       // `end_header ` is not the end
	"ply\nformat ascii 1.0\nelement vertex 1\nproperty float x\nelement face 1\nproperty uchar flags\nend_header\n1\n3\n",       // scalar face property
	"ply\nformat ascii 1.0\nelement vertex 1\nproperty float x\nelement face 1\nproperty list uchar int other\nend_header\n1\n3 0 0 0\n", // no index list
	"ply\nformat ascii 1.0\nelement vertex 3\nproperty float x\nelement face 1\nproperty list uchar int vertex_indices\nend_header\n1\n2\n3\n5 0 1 2 0 1\n", // pentagon
	"ply\nformat ascii 1.0\nelement vertex 3\nproperty float x\nelement face 1\nproperty list uchar int vertex_indices\nend_header\n1\n2\n3\n2 0 1\n",
	"ply\nformat ascii 1.0\nelement vertex 2\nproperty float x\nproperty float y\nend_header\n1 2\n\n3 4 5\n",                // blank body line, extra token
	"ply\nformat ascii 1.0\nelement vertex 1\nproperty float x\nproperty float y\nend_header\n1\n",                           // too few tokens: panic
	"ply\nformat ascii 1.0\nelement vertex 1\nproperty float x\nend_header\nabc\n",                                           // not a number
	"ply\nformat ascii 1.0\nelement vertex 1\nproperty float x\nproperty float x\nend_header\n1 2\n",                         // duplicate name
	"ply\nformat ascii 1.0\nelement vertex 1\nproperty float x\nproperty float y\nproperty float z\nproperty float px\nproperty float py\nproperty float pz\nend_header\n1 2 3 4 5 6\n", // two position groups
	"ply\nformat binary_little_endian 1.0\nelement vertex 1\nproperty short x\nend_header\n\x01\x02",                          // unimplemented binary type: panic
	"ply\nformat binary_little_endian 1.0\nelement vertex 1\nproperty float red\nproperty float green\nproperty float blue\nproperty uchar alpha\nend_header\n\x00\x00\x80\x3f\x00\x00\x00\x3f\x00\x00\x80\x3e\xff", // W type forced (binary)
	"ply\nformat ascii 1.0\nelement vertex 1\nproperty float red\nproperty float green\nproperty float blue\nproperty uchar alpha\nend_header\n1 0.5 0.25 255\n",
	"ply\nformat binary_big_endian 1.0\nelement vertex 1\nproperty float x\nelement face 1\nproperty list uchar uchar vertex_indices\nend_header\n\x3f\x80\x00\x00\x03\x00\x00\x00", // unsupported index type: error ignored
	"ply\nformat binary_big_endian 1.0\nelement vertex 1\nproperty float x\nelement face 1\nproperty list short int vertex_indices\nend_header\n\x3f\x80\x00\x00\x00\x03", // unsupported count type
}
