// Round 2 (C02 / C03): operations of lean/PolyVerif/Model/MeshMore.lean — ScaleAttributeAlongNormal (+Transformer),
// ScaleAttribute2D, NormalizeAttribute2D, CopyFloatNAttribute — and CropFloat3Attribute on clouds whose index buffer is
// NOT the identity. Both streams call moreOps with their own emitter:
//
//	c03.op.<op> params meshes               complete result mesh, bit-exact, vs the model definition
//	c03.holds.crop_contract params in out   CropContract (theorem crop_contract) on the implementation's output, ANY indices
//	c03.holds.frame_spec w attr in out      only the named attribute changed
//	c02.op.<op> params meshes               result shape vs the model; c02.holds.wf on the result
package main

import (
	"fmt"
	"math"
	"strings"

	"github.com/EliCDavis/polyform/math/geometry"
	"github.com/EliCDavis/polyform/modeling"
	"github.com/EliCDavis/polyform/modeling/meshops"
	"github.com/EliCDavis/polyform/nodes"
	"github.com/EliCDavis/vector/vector2"
	"github.com/EliCDavis/vector/vector3"
)

var moreOpNames = []string{"scalealongnormal", "scale2d", "normalize2d", "copyattr", "crop", "cropnode", "alongnormalnode", "translatenode", "rotatenode", "scalenode", "vertexcolorspace", "vertexcolorspacet"}

func (c *Ctx) pickV2Attr(m modeling.Mesh) string {
	names := m.Float2Attributes()
	if len(names) == 0 || c.Rng.Intn(10) == 0 {
		return "Missing"
	}
	return names[c.Rng.Intn(len(names))]
}

// copyGuardOK: the side condition under which CopyFloatNAttribute keeps the receiver well-formed
// (theorems copyAttr_wf / copyAttr_missing_wf); outside it the call is a caller-checked builder.
func copyGuardOK(m, src modeling.Mesh, w int, name string) bool {
	n := -1
	switch w {
	case 1:
		if src.HasFloat1Attribute(name) {
			n = src.Float1Attribute(name).Len()
		}
	case 2:
		if src.HasFloat2Attribute(name) {
			n = src.Float2Attribute(name).Len()
		}
	case 3:
		if src.HasFloat3Attribute(name) {
			n = src.Float3Attribute(name).Len()
		}
	case 4:
		if src.HasFloat4Attribute(name) {
			n = src.Float4Attribute(name).Len()
		}
	}
	attrs := len(m.Float1Attributes()) + len(m.Float2Attributes()) + len(m.Float3Attributes()) + len(m.Float4Attributes())
	if n > 0 {
		return n == m.AttributeLength() || attrs == 0
	}
	// delete: another array must remain, or there is no index
	has := false
	switch w {
	case 1:
		has = m.HasFloat1Attribute(name)
	case 2:
		has = m.HasFloat2Attribute(name)
	case 3:
		has = m.HasFloat3Attribute(name)
	case 4:
		has = m.HasFloat4Attribute(name)
	}
	remaining := attrs
	if has {
		remaining--
	}
	return remaining > 0 || m.Indices().Len() == 0
}

// applyMore runs one of the round-2 operations on m; second result: false = do not evaluate WF on the output
// (CopyFloatNAttribute outside its guard).
func (c *Ctx) applyMore(name string, m modeling.Mesh) (opRun, bool) {
	ms := meshStr(m)
	switch name {
	case "scalealongnormal":
		a, n := c.pickV3Attr(m), c.pickV3Attr(m)
		if m.HasFloat3Attribute(modeling.NormalAttribute) && c.Rng.Intn(2) == 0 {
			n = modeling.NormalAttribute
		}
		amount := []float64{0, 0.5, 1, -1, c.mfl()}[c.Rng.Intn(5)]
		viaTransformer := c.Rng.Intn(3) == 0
		if a == n {
			c.Note("alongnormal:same-attribute")
		}
		return runOp(name, fmt.Sprintf("%s %s %s %s", a, n, F(amount), ms), false, func() []modeling.Mesh {
			if viaTransformer {
				return tr(meshops.ScaleAttributeAlongNormalTransformer{AttributeToScale: a, NormalAttribute: n, Amount: amount}, m)
			}
			return one(meshops.ScaleAttributeAlongNormal(m, a, n, amount))
		}), true
	case "scale2d":
		attr := c.pickV2Attr(m)
		o, a := vector2.New(c.mfl(), c.mfl()), vector2.New(c.mfl(), c.mfl())
		viaTransformer := c.Rng.Intn(3) == 0
		return runOp(name, fmt.Sprintf("%s %s %s %s", attr, Fs(o.X(), o.Y()), Fs(a.X(), a.Y()), ms), false, func() []modeling.Mesh {
			if viaTransformer {
				return tr(meshops.ScaleAttribute2DTransformer{Attribute: attr, Origin: o, Amount: a}, m)
			}
			return one(meshops.ScaleAttribute2D(m, attr, o, a))
		}), true
	case "normalize2d":
		attr := c.pickV2Attr(m)
		viaTransformer := c.Rng.Intn(3) == 0
		return runOp(name, attr+" "+ms, false, func() []modeling.Mesh {
			if viaTransformer {
				return tr(meshops.NormalizeAttribute2DTransformer{Attribute: attr}, m)
			}
			return one(meshops.NormalizeAttribute2D(m, attr))
		}), true
	case "copyattr":
		var src modeling.Mesh
		switch c.Rng.Intn(4) {
		case 0:
			c.Note("copy:src-empty")
			src = modeling.EmptyMesh(modeling.PointTopology)
		case 1:
			c.Note("copy:src-other")
			src = c.startMesh()
		default:
			// same vertex count: the receiver itself after an attribute transform (values differ, lengths agree)
			c.Note("copy:src-same-count")
			src = m
			if m.HasFloat3Attribute(modeling.PositionAttribute) {
				src = m.Translate(c.smallV3())
			}
		}
		spec := attrPool[c.Rng.Intn(len(attrPool))]
		ok := copyGuardOK(m, src, spec.width, spec.name)
		if ok {
			c.Note("copy:guard-holds")
		} else {
			c.Note("copy:guard-violated")
		}
		return runOp(name, fmt.Sprintf("%d %s %s %s", spec.width, spec.name, ms, meshStr(src)), false, func() []modeling.Mesh {
			switch spec.width {
			case 1:
				return one(m.CopyFloat1Attribute(src, spec.name))
			case 2:
				return one(m.CopyFloat2Attribute(src, spec.name))
			case 3:
				return one(m.CopyFloat3Attribute(src, spec.name))
			default:
				return one(m.CopyFloat4Attribute(src, spec.name))
			}
		}), ok
	case "cropnode": // CropAttribute3DNodeData.Process: attribute and box optional ("-" = input not wired)
		nd := meshops.CropAttribute3DNodeData{Mesh: nodes.Value(m).Out()}
		attrTok, boxTok := "-", "-"
		if c.Rng.Intn(3) != 0 {
			attrTok = c.pickV3Attr(m)
			nd.Attribute = nodes.Value(attrTok).Out()
		}
		if c.Rng.Intn(4) != 0 {
			box := geometry.NewAABB(c.smallV3().Scale(0.5), vector3.New(float64(c.Rng.Intn(7)), float64(c.Rng.Intn(7)), float64(c.Rng.Intn(7))))
			a := attrTok
			if a == "-" {
				a = modeling.PositionAttribute
			}
			if m.HasFloat3Attribute(a) && m.AttributeLength() > 0 && c.Rng.Intn(2) == 0 {
				// the box from one vertex to another: both lie ON its faces
				d := m.Float3Attribute(a)
				v, w := d.At(c.Rng.Intn(d.Len())), d.At(c.Rng.Intn(d.Len()))
				if s := v.X() + v.Y() + v.Z() + w.X() + w.Y() + w.Z(); !math.IsNaN(s) && !math.IsInf(s, 0) {
					c.Note("cropnode:vertex-to-vertex")
					box = geometry.NewAABBFromPoints(v, w)
				}
			}
			boxTok = mbbF(box)
			nd.AABB = nodes.Value(box).Out()
		} else {
			c.Note("cropnode:no-box")
		}
		return runOp(name, fmt.Sprintf("%s %s %s", attrTok, boxTok, ms), false, func() []modeling.Mesh {
			out, err := nd.Process()
			if err != nil {
				panic(err)
			}
			return one(out)
		}), true
	case "alongnormalnode": // ScaleAttributeAlongNormalNodeData.Process: every input optional
		nd := meshops.ScaleAttributeAlongNormalNodeData{}
		toks := []string{"-", "-", "-", "-"}
		if c.Rng.Intn(3) != 0 {
			toks[0] = c.pickV3Attr(m)
			nd.AttributeToScale = nodes.Value(toks[0]).Out()
		}
		if c.Rng.Intn(3) != 0 {
			toks[1] = c.pickV3Attr(m)
			nd.NormalAttribute = nodes.Value(toks[1]).Out()
		}
		if c.Rng.Intn(3) != 0 {
			amount := []float64{0, 0.5, -2, c.mfl()}[c.Rng.Intn(4)]
			toks[2] = F(amount)
			nd.Amount = nodes.Value(amount).Out()
		}
		if c.Rng.Intn(8) != 0 {
			toks[3] = ms
			nd.Mesh = nodes.Value(m).Out()
		} else {
			c.Note("alongnormalnode:no-mesh")
		}
		return runOp(name, strings.Join(toks, " "), false, func() []modeling.Mesh {
			out, err := nd.Process()
			if err != nil {
				panic(err)
			}
			return one(out)
		}), true
	case "translatenode": // TranslateAttribute3DNodeData.Process: attribute optional
		t := c.mv3()
		nd := meshops.TranslateAttribute3DNodeData{Mesh: nodes.Value(m).Out(), Amount: nodes.Value(t).Out()}
		attrTok := "-"
		if c.Rng.Intn(2) == 0 {
			attrTok = c.pickV3Attr(m)
			nd.Attribute = nodes.Value(attrTok).Out()
		}
		return runOp(name, fmt.Sprintf("%s %s %s", attrTok, mvF(t), ms), false, func() []modeling.Mesh {
			out, err := nd.Process()
			if err != nil {
				panic(err)
			}
			return one(out)
		}), true
	case "rotatenode": // RotateAttribute3DNodeData.Process: attribute and mesh optional
		q := c.mquat()
		nd := meshops.RotateAttribute3DNodeData{Amount: nodes.Value(q).Out()}
		attrTok, meshTok := "-", "-"
		if c.Rng.Intn(2) == 0 {
			attrTok = c.pickV3Attr(m)
			nd.Attribute = nodes.Value(attrTok).Out()
		}
		if c.Rng.Intn(8) != 0 {
			meshTok = ms
			nd.Mesh = nodes.Value(m).Out()
		} else {
			c.Note("rotatenode:no-mesh")
		}
		return runOp(name, fmt.Sprintf("%s %s %s", attrTok, mqF(q), meshTok), false, func() []modeling.Mesh {
			out, err := nd.Process()
			if err != nil {
				panic(err)
			}
			return one(out)
		}), true
	case "scalenode": // ScaleAttribute3DNodeData.Process: attribute and origin optional
		a := c.mv3()
		nd := meshops.ScaleAttribute3DNodeData{Mesh: nodes.Value(m).Out(), Amount: nodes.Value(a).Out()}
		attrTok, originTok := "-", "-"
		if c.Rng.Intn(2) == 0 {
			attrTok = c.pickV3Attr(m)
			nd.Attribute = nodes.Value(attrTok).Out()
		}
		if c.Rng.Intn(2) == 0 {
			o := c.mv3()
			originTok = mvF(o)
			nd.Origin = nodes.Value(o).Out()
		} else {
			c.Note("scalenode:default-origin")
		}
		return runOp(name, fmt.Sprintf("%s %s %s %s", attrTok, originTok, mvF(a), ms), false, func() []modeling.Mesh {
			out, err := nd.Process()
			if err != nil {
				panic(err)
			}
			return one(out)
		}), true
	case "vertexcolorspace", "vertexcolorspacet":
		// VertexColorSpace / its Transformer; transformation 0 = sRGB->linear, 1 = linear->sRGB, 7 = a value outside the enum
		// (the switch has no default: the result array stays all-zero)
		attr := c.pickV3Attr(m)
		mode := []int{0, 1, 0, 1, 7}[c.Rng.Intn(5)]
		if mode == 7 {
			c.Note("colorspace:enum-out-of-range")
		}
		skip := c.Rng.Intn(2)
		if name == "vertexcolorspace" {
			return runOp(name, fmt.Sprintf("%s %d %s", attr, mode, ms), false, func() []modeling.Mesh {
				return one(meshops.VertexColorSpace(m, attr, meshops.VertexColorSpaceTransformation(mode)))
			}), true
		}
		return runOp(name, fmt.Sprintf("%s %d %d %s", attr, skip, mode, ms), false, func() []modeling.Mesh {
			return tr(meshops.VertexColorSpaceTransformer{Attribute: attr, SkipOnMissingAttribute: skip == 1, Transformation: meshops.VertexColorSpaceTransformation(mode)}, m)
		}), true
	default: // crop, with the boundary boxes of applyOp
		return c.applyOp("crop", m), true
	}
}

// moreStart: biased towards what the operations need — clouds with shared / reversed / unreferenced index buffers for
// crop, meshes with Position + Normal for the normal offset, TexCoord for the 2-D maps.
func (c *Ctx) moreStart(name string) modeling.Mesh {
	switch name {
	case "cropnode":
		if c.Rng.Intn(4) == 0 {
			return c.startMesh()
		}
		return c.genMesh(meshGen{topo: []modeling.Topology{modeling.PointTopology}, needPos: c.Rng.Intn(6) != 0, maxVerts: 20, materials: true})
	case "vertexcolorspace", "vertexcolorspacet":
		// colours in [0, 1] on both sides of the two thresholds (0.04045, 0.0031308), a few out of gamut / negative (pow -> NaN)
		m := c.genMesh(meshGen{topo: topoAll, needPos: c.Rng.Intn(2) == 0, maxVerts: 20, materials: true})
		if n := m.AttributeLength(); n > 0 && c.Rng.Intn(5) != 0 {
			d := make([]vector3.Float64, n)
			comp := func() float64 {
				switch c.Rng.Intn(8) {
				case 0:
					return c.Rng.Float64() * 0.05
				case 1:
					return c.Rng.Float64() * 0.004
				case 2:
					return []float64{0, 1, 0.04045, 0.0031308, -0.25, 2.5}[c.Rng.Intn(6)]
				default:
					return c.Rng.Float64()
				}
			}
			for i := range d {
				d[i] = vector3.New(comp(), comp(), comp())
			}
			m = m.SetFloat3Attribute(modeling.ColorAttribute, d)
		}
		return m
	case "translatenode", "rotatenode", "scalenode":
		return c.genMesh(meshGen{topo: topoAll, needPos: c.Rng.Intn(5) != 0, maxVerts: 20, materials: true})
	case "alongnormalnode":
		for i := 0; i < 4; i++ {
			m := c.genMesh(meshGen{topo: topoAll, needPos: true, maxVerts: 20, materials: true})
			if m.HasFloat3Attribute(modeling.NormalAttribute) || i == 3 {
				return m
			}
		}
	case "crop":
		return c.genMesh(meshGen{topo: []modeling.Topology{modeling.PointTopology}, needPos: c.Rng.Intn(6) != 0, maxVerts: 20, materials: true})
	case "scalealongnormal":
		switch c.Rng.Intn(4) {
		case 0:
			return c.startMesh()
		case 1:
			return c.genHoleMesh()
		}
	}
	for i := 0; i < 6; i++ {
		m := c.genMesh(meshGen{topo: topoAll, needPos: c.Rng.Intn(3) != 0, maxVerts: 20, materials: true})
		switch name {
		case "scale2d", "normalize2d":
			if len(m.Float2Attributes()) > 0 || i >= 4 {
				return m
			}
		case "scalealongnormal":
			if len(m.Float3Attributes()) >= 2 || i >= 4 {
				return m
			}
		default:
			return m
		}
	}
	return c.startMesh()
}

func (c *Ctx) moreOps(n int, guardOp string, emit func(r opRun, m modeling.Mesh, wfOK bool)) {
	for i := 0; i < n; i++ {
		c.guardSeq(guardOp, func() {
			name := moreOpNames[c.Rng.Intn(len(moreOpNames))]
			m := c.moreStart(name)
			r, ok := c.applyMore(name, m)
			emit(r, m, ok)
			// feed the result into one more operation of the family (the output of one op is a legitimate input of the next)
			if r.status == "" && len(r.out) == 1 && ok && c.Rng.Intn(2) == 0 {
				name2 := moreOpNames[c.Rng.Intn(len(moreOpNames))]
				r2, ok2 := c.applyMore(name2, r.out[0])
				emit(r2, r.out[0], ok2)
			}
		})
	}
}
